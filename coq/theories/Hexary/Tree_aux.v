(* Hexary/Tree_aux.v — nibble and list lemmas used by Tree_map.v (own copies, prefix tm_). *)
From Coq Require Import List NArith ZArith Bool Lia ZifyBool.
From PyTrie.Base Require Import Bytes Result Nibbles Bytes_proofs.
From PyTrie.Hexary Require Import Raw.
Import ListNotations.
Open Scope N_scope.

(* ---------------- nibbles_eqb ---------------- *)
Lemma tm_nibbles_eqb_eq a : forall b, nibbles_eqb a b = true <-> a = b.
Proof.
  induction a as [|x a IH]; intros [|y b]; cbn [nibbles_eqb]; split; intro Hab;
    try reflexivity; try discriminate.
  - apply andb_true_iff in Hab as [H1 H2]. apply N.eqb_eq in H1. apply IH in H2. congruence.
  - injection Hab as -> ->. rewrite N.eqb_refl. apply IH. reflexivity.
Qed.

Lemma tm_nibbles_eqb_refl a : nibbles_eqb a a = true.
Proof. apply tm_nibbles_eqb_eq; reflexivity. Qed.

Lemma tm_nibbles_eqb_neq a b : nibbles_eqb a b = false <-> a <> b.
Proof.
  split.
  - intros Hf Heq. apply tm_nibbles_eqb_eq in Heq. congruence.
  - intro Hn. destruct (nibbles_eqb a b) eqn:E; [|reflexivity].
    apply tm_nibbles_eqb_eq in E. contradiction.
Qed.

Lemma tm_nibbles_eqb_sym a b : nibbles_eqb a b = nibbles_eqb b a.
Proof.
  destruct (nibbles_eqb a b) eqn:E.
  - apply tm_nibbles_eqb_eq in E; subst. symmetry; apply tm_nibbles_eqb_refl.
  - symmetry. apply tm_nibbles_eqb_neq. apply tm_nibbles_eqb_neq in E. congruence.
Qed.

Lemma tm_eqb_app c : forall a b, nibbles_eqb (c ++ a) (c ++ b) = nibbles_eqb a b.
Proof.
  induction c as [|x c IH]; intros a b; cbn [app nibbles_eqb].
  - reflexivity.
  - rewrite N.eqb_refl. cbn [andb]. apply IH.
Qed.

Lemma tm_eqb_app_nil_r c a : nibbles_eqb (c ++ a) c = nibbles_eqb a [].
Proof. rewrite <- (app_nil_r c) at 2. apply tm_eqb_app. Qed.

Lemma tm_eqb_app_nil_l c b : nibbles_eqb c (c ++ b) = nibbles_eqb [] b.
Proof. rewrite <- (app_nil_r c) at 1. apply tm_eqb_app. Qed.

(* ---------------- key_starts_with ---------------- *)
Lemma tm_ksw_nil full : key_starts_with full [] = true.
Proof. destruct full; reflexivity. Qed.

Lemma tm_ksw_cons f full p partial :
  key_starts_with (f :: full) (p :: partial) = (f =? p) && key_starts_with full partial.
Proof. reflexivity. Qed.

Lemma tm_ksw_iff full partial :
  key_starts_with full partial = true <-> exists rest, full = partial ++ rest.
Proof.
  revert full. induction partial as [|p partial IH]; intros full.
  - rewrite tm_ksw_nil. split; [intros _; exists full; reflexivity | reflexivity].
  - destruct full as [|f full].
    + cbn. split; [discriminate | intros [r Hr]; discriminate].
    + rewrite tm_ksw_cons, andb_true_iff, N.eqb_eq, IH. cbn [app]. split.
      * intros [-> [r ->]]. exists r. reflexivity.
      * intros [r Hr]. injection Hr as -> ->. split; [reflexivity | exists r; reflexivity].
Qed.

Lemma tm_ksw_app c r : key_starts_with (c ++ r) c = true.
Proof. apply tm_ksw_iff. exists r. reflexivity. Qed.

Lemma tm_skipn_app {A} (c r : list A) : skipn (length c) (c ++ r) = r.
Proof. induction c as [|x c IH]; cbn [length app skipn]; [reflexivity | exact IH]. Qed.

Lemma tm_ksw_split q c : key_starts_with q c = true -> q = c ++ skipn (length c) q.
Proof. intro Hq. apply tm_ksw_iff in Hq as [r ->]. rewrite tm_skipn_app. reflexivity. Qed.

Lemma tm_eqb_noprefix q c r : key_starts_with q c = false -> nibbles_eqb q (c ++ r) = false.
Proof.
  intro Hq. apply tm_nibbles_eqb_neq. intros ->. rewrite tm_ksw_app in Hq. discriminate.
Qed.

Lemma tm_eqb_noprefix' q c : key_starts_with q c = false -> nibbles_eqb q c = false.
Proof. intro Hq. rewrite <- (app_nil_r c). apply tm_eqb_noprefix; exact Hq. Qed.

(* starts-with of a concatenation *)
Lemma tm_ksw_app_app q a b :
  key_starts_with q (a ++ b) = key_starts_with q a && key_starts_with (skipn (length a) q) b.
Proof.
  revert q. induction a as [|x a IH]; intros q.
  - cbn [app length skipn]. rewrite tm_ksw_nil. reflexivity.
  - destruct q as [|y q].
    + cbn. reflexivity.
    + cbn [app length skipn]. rewrite !tm_ksw_cons, IH. rewrite andb_assoc. reflexivity.
Qed.

Lemma tm_skipn_skipn {A} (a b : nat) (l : list A) : skipn a (skipn b l) = skipn (b + a) l.
Proof.
  revert l. induction b as [|b IH]; intros l; cbn [skipn Nat.add]; [reflexivity|].
  destruct l as [|x l]; [destruct a; reflexivity | apply IH].
Qed.

(* ---------------- consume_common_prefix ---------------- *)
Lemma tm_cpl_spec l : forall r,
  firstn (common_prefix_length l r) l = firstn (common_prefix_length l r) r /\
  match skipn (common_prefix_length l r) l, skipn (common_prefix_length l r) r with
  | x :: _, y :: _ => x <> y
  | _, _ => True
  end.
Proof.
  induction l as [|x l IH]; intros [|y r]; cbn [common_prefix_length firstn skipn];
    try (split; [reflexivity | exact I]).
  destruct (x =? y) eqn:E.
  - apply N.eqb_eq in E; subst y. destruct (IH r) as [H1 H2].
    cbn [firstn skipn]. split; [f_equal; exact H1 | exact H2].
  - apply N.eqb_neq in E. cbn [firstn skipn]. split; [reflexivity | exact E].
Qed.

Lemma tm_ccp l r c lr rr :
  consume_common_prefix l r = (c, lr, rr) ->
  l = c ++ lr /\ r = c ++ rr /\
  match lr, rr with x :: _, y :: _ => x <> y | _, _ => True end.
Proof.
  unfold consume_common_prefix. intro Heq. injection Heq as Hc Hlr Hrr.
  destruct (tm_cpl_spec l r) as [H1 H2].
  subst lr rr. split; [|split].
  - subst c. symmetry. apply firstn_skipn.
  - subst c. rewrite H1. symmetry. apply firstn_skipn.
  - exact H2.
Qed.

(* ---------------- nibs_ok ---------------- *)
Lemma tm_nibs_ok_app a b : nibs_ok (a ++ b) = nibs_ok a && nibs_ok b.
Proof. unfold nibs_ok. apply forallb_app. Qed.

Lemma tm_nibs_ok_cons x a : nibs_ok (x :: a) = (x <? 16) && nibs_ok a.
Proof. reflexivity. Qed.

Lemma tm_nibs_ok_skipn n a : nibs_ok a = true -> nibs_ok (skipn n a) = true.
Proof.
  intro Ha. rewrite <- (firstn_skipn n a), tm_nibs_ok_app in Ha.
  apply andb_true_iff in Ha as [_ Ha]. exact Ha.
Qed.

(* ---------------- list_set ---------------- *)
Lemma tm_length_list_set {A} (l : list A) : forall i x, length (list_set l i x) = length l.
Proof.
  induction l as [|y l IH]; intros [|i] x; cbn [list_set length]; try reflexivity.
  rewrite IH. reflexivity.
Qed.

Lemma tm_nth_list_set {A} (l : list A) : forall i j x d, (i < length l)%nat ->
  nth j (list_set l i x) d = if Nat.eqb j i then x else nth j l d.
Proof.
  induction l as [|y l IH]; intros i j x d Hi; cbn [length] in Hi; [lia|].
  destruct i as [|i]; destruct j as [|j]; cbn [list_set nth Nat.eqb]; try reflexivity.
  apply IH. lia.
Qed.

Lemma tm_forallb_list_set {A} (f : A -> bool) (l : list A) : forall i x,
  forallb f l = true -> f x = true -> forallb f (list_set l i x) = true.
Proof.
  induction l as [|y l IH]; intros [|i] x Hl Hx; cbn [list_set forallb] in *; try reflexivity.
  - apply andb_true_iff in Hl as [_ Hl]. rewrite Hx, Hl. reflexivity.
  - apply andb_true_iff in Hl as [Hy Hl]. rewrite Hy, IH by assumption. reflexivity.
Qed.

Lemma tm_forallb_nth {A} (f : A -> bool) (l : list A) i d :
  forallb f l = true -> f d = true -> f (nth i l d) = true.
Proof.
  revert i. induction l as [|y l IH]; intros [|i] Hl Hd; cbn [nth forallb] in *; try exact Hd.
  - apply andb_true_iff in Hl as [Hy _]. exact Hy.
  - apply andb_true_iff in Hl as [_ Hl]. apply IH; assumption.
Qed.

Lemma tm_list_set_same {A} (l : list A) : forall i d, list_set l i (nth i l d) = l.
Proof.
  induction l as [|y l IH]; intros [|i] d; cbn [list_set nth]; try reflexivity.
  rewrite IH. reflexivity.
Qed.
