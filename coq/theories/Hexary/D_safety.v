(* Hexary/D_safety.v — "effect discipline" of the D-level model of HexaryTrie:
   reads are pure (A), non-pruning tries are append-only (B, C04), failed writes caused by a
   missing node are atomic (C, C07), aborted batches restore the outer trie (D, C05) and a
   failing commit leaves the root alone (E, C05).  [H] is never assumed injective. *)
From Coq Require Import List NArith ZArith Bool Lia.
From Coq.Init Require Import Byte.
From PyTrie.Base Require Import Bytes Bytes_proofs Result AMap AMap_proofs Nibbles Rlp.
From PyTrie.Db Require Import ScratchDb ScratchDb_proofs.
From PyTrie.Hexary Require Import Raw D.
Import ListNotations.
Open Scope N_scope.

(* ================================================================== *)
(* 0. Which exceptions the pure helpers can raise                      *)

(* neither a KeyError (the only thing raise_missing converts) nor a MissingTrieNode *)
Definition benign (e : exn) : Prop :=
  key_error_hash e = None /\ exn_tag e <> T_MissingTrieNode.

Definition rbenign {A} (r : result A) : Prop := forall e, r = Err e -> benign e.

Lemma benign_nullary t : t <> T_MissingTrieNode -> benign (Exn t []).
Proof. intro Ht. split; [destruct t as [|p]; try reflexivity; repeat (destruct p as [p|p|]; try reflexivity)|exact Ht]. Qed.

Ltac benign_close :=
  match goal with
  | |- benign _ => apply benign_nullary; unfold T_MissingTrieNode; discriminate
  end.

(* take a hypothesis [Hr : <pure expression> = Err e] apart *)
Ltac err_cases Hr :=
  repeat match type of Hr with
         | Ok _ = Err _ => discriminate Hr
         | context [match ?x with _ => _ end] => destruct x eqn:?
         end;
  try discriminate Hr.

Lemma rbenign_Ok {A} (a : A) : rbenign (Ok a).
Proof. intros e He; discriminate He. Qed.

Lemma rbenign_rbind {A B} (r : result A) (f : A -> result B) :
  rbenign r -> (forall a, rbenign (f a)) -> rbenign (rbind r f).
Proof.
  intros Hr Hf e He. destruct r as [a|e0]; cbn in He.
  - exact (Hf a e He).
  - injection He as <-. apply Hr. reflexivity.
Qed.

Lemma decode_nibbles_benign b : rbenign (decode_nibbles b).
Proof.
  intros e He. unfold decode_nibbles in He. destruct (bytes_to_nibbles b) as [|fl rest].
  - injection He as <-. benign_close.
  - discriminate He.
Qed.

Lemma nibbles_to_bytes_benign ns : rbenign (nibbles_to_bytes ns).
Proof.
  intros e He. unfold nibbles_to_bytes in He.
  destruct (negb (nibs_ok ns)); [injection He as <-; benign_close|].
  destruct (Nat.odd (length ns)); [injection He as <-; benign_close|discriminate He].
Qed.

Lemma encode_nibbles_benign ns : rbenign (encode_nibbles ns).
Proof. unfold encode_nibbles. apply nibbles_to_bytes_benign. Qed.

Lemma compute_leaf_key_benign ns : rbenign (compute_leaf_key ns).
Proof. apply encode_nibbles_benign. Qed.

Lemma compute_extension_key_benign ns : rbenign (compute_extension_key ns).
Proof. apply encode_nibbles_benign. Qed.

Lemma decode_key_benign k : rbenign (decode_key k).
Proof.
  destruct k as [b|l]; cbn [decode_key].
  - apply decode_nibbles_benign.
  - intros e He. injection He as <-. benign_close.
Qed.

Lemma get_node_type_benign n : rbenign (get_node_type n).
Proof.
  intros e He. unfold get_node_type in He.
  destruct n as [[|b0 b]|l].
  - discriminate He.
  - injection He as <-. benign_close.
  - destruct l as [|k [|v [|w l]]].
    + cbn in He. injection He as <-. benign_close.
    + cbn in He. injection He as <-. benign_close.
    + revert He. apply rbenign_rbind; [apply decode_key_benign|intro a; apply rbenign_Ok].
    + destruct (Nat.eqb (length (k :: v :: w :: l)) 17); [discriminate He|].
      injection He as <-. benign_close.
Qed.

Lemma is_leaf_node_benign n : rbenign (is_leaf_node n).
Proof.
  intros e He. unfold is_leaf_node in He.
  destruct n as [b|[|k [|v [|w l]]]]; try discriminate He.
  revert He. apply rbenign_rbind; [apply decode_key_benign|intro a; apply rbenign_Ok].
Qed.

Lemma is_extension_node_benign n : rbenign (is_extension_node n).
Proof.
  intros e He. unfold is_extension_node in He.
  destruct n as [b|[|k [|v [|w l]]]]; try discriminate He.
  revert He. apply rbenign_rbind; [apply decode_key_benign|intro a; apply rbenign_Ok].
Qed.

Lemma extract_key_benign n : rbenign (extract_key n).
Proof.
  intros e He. unfold extract_key in He.
  destruct n as [b|[|k [|v [|w l]]]]; try (injection He as <-; benign_close).
  revert He. apply rbenign_rbind; [apply decode_key_benign|intro a; apply rbenign_Ok].
Qed.

(* ---- RLP decoder ---- *)
Lemma take_n_benign n b : rbenign (take_n n b).
Proof.
  intros e He. unfold take_n in He. destruct (blen b <? n); [|discriminate He].
  injection He as <-. unfold EDecode. benign_close.
Qed.

Lemma rlp_dec_benign fuel :
  (forall b, rbenign (rlp_dec_item fuel b)) /\ (forall b, rbenign (rlp_dec_list fuel b)).
Proof.
  induction fuel as [|f [IHi IHl]].
  - split; intros b e He; cbn in He; injection He as <-; benign_close.
  - split; intros b e He.
    + cbn [rlp_dec_item] in He.
      destruct b as [|x rest]; [injection He as <-; unfold EDecode; benign_close|].
      destruct (b2n x <? 128); [discriminate He|].
      destruct (b2n x <? 184).
      { destruct (take_n (b2n x - 128) rest) as [[s r']|e0] eqn:E1; [discriminate He|].
        injection He as <-. exact (take_n_benign _ _ _ E1). }
      destruct (b2n x <? 192).
      { destruct (take_n (b2n x - 183) rest) as [[lb r']|e0] eqn:E1;
          [|injection He as <-; exact (take_n_benign _ _ _ E1)].
        destruct (take_n (be_to_N lb) r') as [[s r'']|e1] eqn:E2; [discriminate He|].
        injection He as <-. exact (take_n_benign _ _ _ E2). }
      destruct (b2n x <? 248).
      { destruct (take_n (b2n x - 192) rest) as [[p r']|e0] eqn:E1;
          [|injection He as <-; exact (take_n_benign _ _ _ E1)].
        destruct (rlp_dec_list f p) as [l|e1] eqn:E2; [discriminate He|].
        injection He as <-. exact (IHl _ _ E2). }
      destruct (take_n (b2n x - 247) rest) as [[lb r']|e0] eqn:E1;
        [|injection He as <-; exact (take_n_benign _ _ _ E1)].
      destruct (take_n (be_to_N lb) r') as [[p r'']|e1] eqn:E2;
        [|injection He as <-; exact (take_n_benign _ _ _ E2)].
      destruct (rlp_dec_list f p) as [l|e2] eqn:E3; [discriminate He|].
      injection He as <-. exact (IHl _ _ E3).
    + cbn [rlp_dec_list] in He.
      destruct b as [|x rest]; [discriminate He|].
      destruct (rlp_dec_item f (x :: rest)) as [[it r']|e0] eqn:E1;
        [|injection He as <-; exact (IHi _ _ E1)].
      destruct (rlp_dec_list f r') as [l|e1] eqn:E2; [discriminate He|].
      injection He as <-. exact (IHl _ _ E2).
Qed.

Lemma rlp_decode_benign b : rbenign (rlp_decode b).
Proof.
  intros e He. unfold rlp_decode in He.
  destruct (rlp_dec_item (S (S (length b))) b) as [[it [|y r]]|e0] eqn:E1.
  - discriminate He.
  - injection He as <-. unfold EDecode. benign_close.
  - injection He as <-. exact (proj1 (rlp_dec_benign _) _ _ E1).
Qed.

(* ---- validate_is_node: a nested fixpoint, so a hand-made induction on items ---- *)
Section ItemInd.
  Variable P : item -> Prop.
  Hypothesis P_str : forall b, P (RStr b).
  Hypothesis P_list : forall l, Forall P l -> P (RList l).
  Fixpoint item_ind' (x : item) : P x :=
    match x with
    | RStr b => P_str b
    | RList l =>
        P_list l ((fix go (l : list item) : Forall P l :=
                     match l with
                     | [] => Forall_nil P
                     | y :: l' => Forall_cons y (item_ind' y) (go l')
                     end) l)
    end.
End ItemInd.

Lemma validate_is_bytes_item_benign x : rbenign (validate_is_bytes_item x).
Proof. intros e He. destruct x; [discriminate He|]. injection He as <-. benign_close. Qed.

Definition vgo : list item -> nat -> result unit :=
  fix go (cs : list item) (k : nat) {struct cs} : result unit :=
    match cs, k with
    | [], _ => Ok tt
    | _, O => Ok tt
    | c :: cs', S k' =>
        rbind (match c with
               | RStr [] => Ok tt
               | RList _ => validate_is_node c
               | RStr b => if Nat.eqb (length b) 32 then Ok tt else Err EValidation
               end) (fun _ => go cs' k')
    end.

Lemma vgo_benign cs : Forall (fun c => rbenign (validate_is_node c)) cs ->
  forall cnt, rbenign (vgo cs cnt).
Proof.
  induction 1 as [|c cs IHc _ IHcs]; intros cnt e He.
  - destruct cnt; discriminate He.
  - destruct cnt as [|cnt]; [discriminate He|].
    cbn [vgo] in He. unfold rbind at 1 in He.
    destruct c as [[|b0 bb]|lc].
    + exact (IHcs _ _ He).
    + destruct (Nat.eqb (length (b0 :: bb)) 32); [exact (IHcs _ _ He)|].
      injection He as <-. benign_close.
    + destruct (validate_is_node (RList lc)) as [u'|e1] eqn:E2; [exact (IHcs _ _ He)|].
      injection He as <-. exact (IHc _ eq_refl).
Qed.

Lemma validate_is_node_benign n : rbenign (validate_is_node n).
Proof.
  induction n as [b|l IH] using item_ind'.
  - intros e He. destruct b; [discriminate He|]. cbn in He. injection He as <-. benign_close.
  - intros e He.
    destruct l as [|k [|v [|w l]]].
    + cbn in He. injection He as <-. benign_close.
    + cbn in He. injection He as <-. benign_close.
    + cbn [validate_is_node] in He. unfold rbind in He.
      destruct (validate_is_bytes_item k) as [u|e0] eqn:E1;
        [|injection He as <-; exact (validate_is_bytes_item_benign _ _ E1)].
      destruct v as [bv|lv]; [discriminate He|].
      inversion IH as [|? ? _ IH']; subst. inversion IH' as [|? ? IHv _]; subst.
      exact (IHv _ He).
    + remember (k :: v :: w :: l) as L eqn:HL.
      assert (Hv : validate_is_node (RList L) =
                   if Nat.eqb (length L) 17 then
                     rbind (validate_is_bytes_item (nth 16 L BLANK)) (fun _ => vgo L 16%nat)
                   else Err EValidation).
      { subst L. reflexivity. }
      rewrite Hv in He. clear Hv HL.
      destruct (Nat.eqb (length L) 17); [|injection He as <-; benign_close].
      unfold rbind at 1 in He.
      destruct (validate_is_bytes_item (nth 16 L BLANK)) as [u|e0] eqn:E1;
        [|injection He as <-; exact (validate_is_bytes_item_benign _ _ E1)].
      exact (vgo_benign L IH _ _ He).
Qed.

Create HintDb benign discriminated.
#[global] Hint Resolve rbenign_Ok decode_nibbles_benign nibbles_to_bytes_benign encode_nibbles_benign
  compute_leaf_key_benign compute_extension_key_benign decode_key_benign get_node_type_benign
  is_leaf_node_benign is_extension_node_benign extract_key_benign rlp_decode_benign
  validate_is_node_benign : benign.

(* ================================================================== *)
(* 1. The monad: inversion lemmas                                      *)

Lemma bind_inv {A B} (m : M A) (f : A -> M B) t r t' :
  bind m f t = (r, t') ->
  (exists a t1, m t = (Ok a, t1) /\ f a t1 = (r, t')) \/
  (exists e, m t = (Err e, t') /\ r = Err e).
Proof.
  unfold bind. destruct (m t) as [[a|e] t1]; intro Hr.
  - left. exists a, t1. split; [reflexivity|exact Hr].
  - right. exists e. injection Hr as <- <-. split; reflexivity.
Qed.

Lemma catch_inv {A} (m : M A) (h : exn -> option (M A)) t r t' :
  catch m h t = (r, t') ->
  (exists a, m t = (Ok a, t') /\ r = Ok a) \/
  (exists e t1, m t = (Err e, t1) /\
     match h e with Some k => k t1 = (r, t') | None => r = Err e /\ t' = t1 end).
Proof.
  unfold catch. destruct (m t) as [[a|e] t1]; intro Hr.
  - left. exists a. injection Hr as <- <-. split; reflexivity.
  - right. exists e, t1. split; [reflexivity|].
    destruct (h e) as [k|]; [exact Hr|]. injection Hr as <- <-. split; reflexivity.
Qed.

Lemma trie_eta t : mkTrie (t_db t) (t_root t) (t_prune t) (t_refc t) (t_pending t) = t.
Proof. destruct t; reflexivity. Qed.

Lemma pair_inv {A B} (a a' : A) (b b' : B) : (a, b) = (a', b') -> a = a' /\ b = b'.
Proof. intro E. injection E as -> ->. split; reflexivity. Qed.

Ltac rb_solve :=
  try match goal with |- rbenign ((if ?b then _ else _) _) => destruct b end;
  solve [auto with benign nocore].

Lemma rb_key {A} (r : result A) e : rbenign r -> r = Err e -> key_error_hash e = None.
Proof. intros Hr E. exact (proj1 (Hr e E)). Qed.

(* use an equation between results / states: discriminate, substitute or peel constructors *)
Ltac use_eq E :=
  first [ discriminate E
        | match type of E with
          | ?x = ?y => first [subst x | subst y]
          | Ok _ = Ok _ => first [injection E as E; use_eq E | clear E]
          | Err _ = Err _ => first [injection E as E; use_eq E | clear E]
          | _ => idtac
          end ].

Ltac pair_eq E :=
  let E1 := fresh "Er" in let E2 := fresh "Es" in
  apply pair_inv in E; destruct E as [E1 E2]; use_eq E1; use_eq E2.

(* take a run [E : m t = (r, t')] of a compound computation apart *)
Ltac mrun :=
  match goal with
  | E : bind _ _ _ = (_, _) |- _ =>
      let a := fresh "a" in let t1 := fresh "t" in let E1 := fresh "E" in
      let e := fresh "e" in let Er := fresh "Er" in
      apply bind_inv in E; destruct E as [(a & t1 & E1 & E)|(e & E1 & Er)];
      [cbv beta in E|use_eq Er]
  | E : ret _ _ = (_, _) |- _ => unfold ret in E; pair_eq E
  | E : fail _ _ = (_, _) |- _ => unfold fail in E; pair_eq E
  | E : lift _ _ = (_, _) |- _ => unfold lift in E; pair_eq E
  | E : getst _ = (_, _) |- _ => unfold getst in E; pair_eq E
  | E : lift_bytes _ _ = (_, _) |- _ => unfold lift_bytes in E
  | E : (match ?x with _ => _ end) _ = (_, _) |- _ => destruct x eqn:?
  end.

Inductive dop :=
| DSet (k v : bytes) | DDelete (k : bytes) | DGet (k : bytes) | DExists (k : bytes).

Section Safety.
  Variable H : bytes -> bytes.
  Variable BNH : bytes.

  Lemma node_to_db_mapping_benign n : rbenign (node_to_db_mapping H n).
  Proof.
    intros e He. unfold node_to_db_mapping in He.
    destruct (validate_is_node n) as [u|e0] eqn:E;
      [|injection He as <-; exact (validate_is_node_benign _ _ E)].
    destruct (is_blank n); [discriminate He|].
    destruct (Nat.ltb (length (rlp_encode n)) 32); discriminate He.
  Qed.
  Hint Resolve node_to_db_mapping_benign : benign.

  Lemma node_to_db_mapping_key n k v : node_to_db_mapping H n = Ok (k, Some v) -> k = RStr (H v).
  Proof.
    unfold node_to_db_mapping. destruct (validate_is_node n); [|discriminate].
    destruct (is_blank n); [discriminate|].
    destruct (Nat.ltb (length (rlp_encode n)) 32); [discriminate|].
    intro Hq. injection Hq as <- <-. reflexivity.
  Qed.

  (* ================================================================ *)
  (* The operation language of the theorems: API calls, the caller survives failed calls *)
  Definition dstep (o : dop) : M unit :=
    match o with
    | DSet k v => set H BNH k v
    | DDelete k => delete H BNH k
    | DGet k => bind (get BNH k) (fun _ => ret tt)
    | DExists k => bind (exists_ BNH k) (fun _ => ret tt)
    end.

  (* the pieces of set / delete *)
  Definition set_inner (key value : bytes) : M item :=
    bind getst (fun t => bind (get_node BNH (RStr (t_root t))) (fun root =>
      match value with
      | [] => _delete H BNH (write_fuel key) root (bytes_to_nibbles key)
      | _ => _set H BNH (write_fuel key) root (bytes_to_nibbles key) value
      end)).
  Definition delete_inner (key : bytes) : M item :=
    bind getst (fun t => bind (get_node BNH (RStr (t_root t))) (fun root =>
      _delete H BNH (write_fuel key) root (bytes_to_nibbles key))).
  Definition set_body (key value : bytes) : M unit :=
    bind (raise_missing key (set_inner key value)) (fun new_node => _set_root_node H BNH new_node).
  Definition delete_body (key : bytes) : M unit :=
    bind (raise_missing key (delete_inner key)) (fun new_node => _set_root_node H BNH new_node).

  Lemma set_unfold key value : set H BNH key value = _prune_on_success (set_body key value).
  Proof. reflexivity. Qed.
  Lemma delete_unfold key : delete H BNH key = _prune_on_success (delete_body key).
  Proof. reflexivity. Qed.

  Fixpoint drun (ops : list dop) (t : trie) : trie :=
    match ops with
    | [] => t
    | o :: ops' => drun ops' (snd (dstep o t))
    end.

  (* ================================================================ *)
  (* 2. State relations: a computation moves the state along a preorder *)
  Section Rel.
    Variable R : trie -> trie -> Prop.
    Hypothesis R_refl : forall t, R t t.
    Hypothesis R_trans : forall a b c, R a b -> R b c -> R a c.

    Definition mrel {A} (m : M A) : Prop := forall t, R t (snd (m t)).

    Lemma mrel_run {A} (m : M A) t r t' : mrel m -> m t = (r, t') -> R t t'.
    Proof. intros Hm E. specialize (Hm t). rewrite E in Hm. exact Hm. Qed.

    Lemma mrel_same {A} (m : M A) : (forall t, snd (m t) = t) -> mrel m.
    Proof. intros Hm t. rewrite Hm. apply R_refl. Qed.

    Lemma mrel_ret {A} (a : A) : mrel (ret a).
    Proof. intro t. apply R_refl. Qed.
    Lemma mrel_fail {A} e : mrel (@fail A e).
    Proof. intro t. apply R_refl. Qed.
    Lemma mrel_lift {A} (r : result A) : mrel (lift r).
    Proof. intro t. apply R_refl. Qed.
    Lemma mrel_getst : mrel getst.
    Proof. intro t. apply R_refl. Qed.
    Lemma mrel_db_get k : mrel (db_get k).
    Proof. intro t. apply R_refl. Qed.
    Lemma mrel_db_contains k : mrel (db_contains k).
    Proof. intro t. apply R_refl. Qed.

    Lemma mrel_bind {A B} (m : M A) (f : A -> M B) :
      mrel m -> (forall a, mrel (f a)) -> mrel (bind m f).
    Proof.
      intros Hm Hf t. unfold bind. specialize (Hm t).
      destruct (m t) as [[a|e] t1]; cbn [snd] in *.
      - eapply R_trans; [exact Hm|apply Hf].
      - exact Hm.
    Qed.

    Lemma mrel_bind_lift {A B} (r : result A) (f : A -> M B) :
      (forall a, r = Ok a -> mrel (f a)) -> mrel (bind (lift r) f).
    Proof.
      intros Hf t. unfold bind, lift. destruct r as [a|e]; cbn [snd].
      - apply Hf. reflexivity.
      - apply R_refl.
    Qed.

    Lemma mrel_catch {A} (m : M A) h :
      mrel m -> (forall e k, h e = Some k -> mrel k) -> mrel (catch m h).
    Proof.
      intros Hm Hh t. unfold catch. specialize (Hm t).
      destruct (m t) as [[a|e] t1]; cbn [snd] in *; [exact Hm|].
      destruct (h e) as [k|] eqn:E; [|exact Hm].
      eapply R_trans; [exact Hm|exact (Hh e k E t1)].
    Qed.

    Ltac handler_inv Hk :=
      repeat match type of Hk with
             | context [match ?x with _ => _ end] => destruct x
             end;
      try discriminate Hk; injection Hk as <-.

    Ltac mstep :=
      cbv beta;
      match goal with
      | |- mrel (ret _) => apply mrel_ret
      | |- mrel (fail _) => apply mrel_fail
      | |- mrel (lift _) => apply mrel_lift
      | |- mrel getst => apply mrel_getst
      | |- mrel (db_get _) => apply mrel_db_get
      | |- mrel (db_contains _) => apply mrel_db_contains
      | |- mrel (bind getst _) => solve [auto with mrel nocore]
      | |- mrel (bind _ _) => apply mrel_bind; [|intro]
      | |- mrel (catch _ _) =>
          apply mrel_catch;
          [|let e := fresh "e" in let k := fresh "k" in let Hk := fresh "Hk" in
            intros e k Hk; handler_inv Hk]
      | |- mrel (match ?x with _ => _ end) => destruct x
      | |- _ => solve [auto with mrel nocore]
      end.

    (* ---- reads ---- *)
    Lemma mrel_get_node ref : mrel (get_node BNH ref).
    Proof. unfold get_node. repeat mstep. Qed.
    Hint Resolve mrel_get_node : mrel.

    Lemma mrel_get_node_traversal p k r : mrel (get_node_traversal BNH p k r).
    Proof. unfold get_node_traversal. repeat mstep. Qed.
    Hint Resolve mrel_get_node_traversal : mrel.

    Lemma mrel__traverse_from fuel : forall n k r, mrel (_traverse_from BNH fuel n k r).
    Proof. induction fuel as [|f IH]; intros n k r; cbn [_traverse_from]; repeat mstep. Qed.
    Hint Resolve mrel__traverse_from : mrel.

    Lemma mrel__traverse rh k : mrel (_traverse BNH rh k).
    Proof. unfold _traverse. repeat mstep. Qed.
    Hint Resolve mrel__traverse : mrel.

    Lemma mrel__get rh k : mrel (_get BNH rh k).
    Proof. unfold _get. repeat mstep. Qed.
    Hint Resolve mrel__get : mrel.

    Lemma mrel_get key : mrel (get BNH key).
    Proof. unfold get. repeat mstep. Qed.
    Hint Resolve mrel_get : mrel.

    Lemma mrel_exists key : mrel (exists_ BNH key).
    Proof. unfold exists_. repeat mstep. Qed.

    Lemma mrel_annotate_or_partial k r : mrel (annotate_or_partial k r).
    Proof. unfold annotate_or_partial. repeat mstep. Qed.
    Hint Resolve mrel_annotate_or_partial : mrel.

    Lemma mrel_traverse k : mrel (traverse BNH k).
    Proof. unfold traverse. repeat mstep. Qed.

    Lemma mrel_traverse_from p k : mrel (traverse_from BNH p k).
    Proof. unfold traverse_from. repeat mstep. Qed.

    Lemma mrel_root_node : mrel (root_node BNH).
    Proof. unfold root_node. repeat mstep. Qed.

    Lemma mrel__get_proof fuel : forall n k pl lp, mrel (_get_proof BNH fuel n k pl lp).
    Proof. induction fuel as [|f IH]; intros n k pl lp; cbn [_get_proof]; repeat mstep. Qed.
    Hint Resolve mrel__get_proof : mrel.

    Lemma mrel_get_proof key : mrel (get_proof BNH key).
    Proof. unfold get_proof. repeat mstep. Qed.

    Lemma mrel_regenerate_loop fuel : forall st acc, mrel (regenerate_loop BNH fuel st acc).
    Proof. induction fuel as [|f IH]; intros st acc; cbn [regenerate_loop]; repeat mstep. Qed.
    Hint Resolve mrel_regenerate_loop : mrel.

    Lemma mrel_regenerate_ref_count fuel : mrel (regenerate_ref_count BNH fuel).
    Proof. unfold regenerate_ref_count. repeat mstep. Qed.

    (* ---- writes: the relation must accept the primitive effects that are used ---- *)
    Hypothesis HR_sdv : forall enc, mrel (_set_db_value (H enc) enc).
    Hypothesis HR_pinc : forall k, mrel (pending_inc k).
    Hypothesis HR_root : forall t h, R t (with_root t h).
    Hypothesis HR_del : forall k, mrel (db_del k).
    Hypothesis HR_refc : forall t c, R t (with_refc t c).
    Hypothesis HR_pend : forall t p, R t (with_pending t p).

    Lemma mrel_lift_bytes r : mrel (lift_bytes r).
    Proof. unfold lift_bytes. repeat mstep. Qed.
    Hint Resolve mrel_lift_bytes : mrel.

    Lemma mrel__prune_node n : mrel (_prune_node H n).
    Proof. unfold _prune_node. repeat mstep. Qed.
    Hint Resolve mrel__prune_node : mrel.

    Lemma mrel__persist_node n : mrel (_persist_node H n).
    Proof.
      unfold _persist_node. apply mrel_bind_lift. intros [k [v|]] E; [|repeat mstep].
      rewrite (node_to_db_mapping_key _ _ _ E). cbn [item_bytes].
      apply mrel_bind; [apply HR_sdv|intro; apply mrel_ret].
    Qed.
    Hint Resolve mrel__persist_node : mrel.

    Lemma mrel__set_raw_node n : mrel (_set_raw_node H BNH n).
    Proof.
      unfold _set_raw_node. apply mrel_bind_lift. intros [k [v|]] E.
      - rewrite (node_to_db_mapping_key _ _ _ E). cbn [item_bytes is_blank].
        destruct (match H v with [] => true | _ :: _ => false end); [apply mrel_ret|].
        apply mrel_bind; [apply HR_sdv|intro; apply mrel_ret].
      - destruct (is_blank k); [apply mrel_ret|].
        apply mrel_bind; [apply HR_sdv|intro; apply mrel_ret].
    Qed.
    Hint Resolve mrel__set_raw_node : mrel.

    Lemma mrel__normalize_branch_node n : mrel (_normalize_branch_node H BNH n).
    Proof. unfold _normalize_branch_node. repeat mstep. Qed.
    Hint Resolve mrel__normalize_branch_node : mrel.

    Lemma mrel__set fuel : forall n k v, mrel (_set H BNH fuel n k v).
    Proof. induction fuel as [|f IH]; intros n k v; cbn [_set]; repeat mstep. Qed.
    Hint Resolve mrel__set : mrel.

    Lemma mrel__delete fuel : forall n k, mrel (_delete H BNH fuel n k).
    Proof. induction fuel as [|f IH]; intros n k; cbn [_delete]; repeat mstep. Qed.
    Hint Resolve mrel__delete : mrel.

    Lemma mrel_modify_root h : mrel (bind getst (fun t' => putst (with_root t' h))).
    Proof. intro t. cbn. apply HR_root. Qed.
    Hint Resolve mrel_modify_root : mrel.

    Lemma mrel__set_root_node n : mrel (_set_root_node H BNH n).
    Proof. unfold _set_root_node. repeat mstep. Qed.
    Hint Resolve mrel__set_root_node : mrel.

    Lemma mrel_refc_step (c : bool) (x y : trie -> amap Z) (k : M unit) :
      mrel k ->
      mrel (bind getst (fun t' => bind (if c then putst (with_refc t' (x t'))
                                        else putst (with_refc t' (y t'))) (fun _ : unit => k))).
    Proof.
      intros Hk t. unfold bind, getst.
      destruct c; cbn; (eapply R_trans; [apply HR_refc|apply Hk]).
    Qed.

    Lemma mrel_complete_pruning_loop p : mrel (complete_pruning_loop p).
    Proof.
      induction p as [|[k n] p IH]; cbn [complete_pruning_loop]; [apply mrel_ret|].
      apply mrel_bind; [apply mrel_getst|intro t0].
      apply mrel_bind; [|intro nc; apply (mrel_refc_step _ (fun t' => adel (t_refc t') k)
                                          (fun t' => aset (t_refc t') k nc)); exact IH].
      repeat mstep.
    Qed.
    Hint Resolve mrel_complete_pruning_loop : mrel.

    Lemma mrel__complete_pruning : mrel _complete_pruning.
    Proof. unfold _complete_pruning. repeat mstep. Qed.

    Lemma mrel__prune_on_success body : mrel body -> mrel (_prune_on_success body).
    Proof.
      intros Hb t. unfold _prune_on_success.
      set (t1 := if t_prune t then with_pending t (Some []) else t).
      assert (H1 : R t t1) by (subst t1; destruct (t_prune t); [apply HR_pend|apply R_refl]).
      pose proof (Hb t1) as H2. destruct (body t1) as [[u|e] t2]; cbn [snd] in *.
      - destruct (t_prune t2).
        + pose proof (mrel__complete_pruning t2) as H3.
          destruct (_complete_pruning t2) as [r t3]. cbn [snd] in *.
          eapply R_trans; [exact H1|]. eapply R_trans; [exact H2|].
          eapply R_trans; [exact H3|apply HR_pend].
        + cbn [snd]. eapply R_trans; [exact H1|]. eapply R_trans; [exact H2|apply HR_pend].
      - eapply R_trans; [exact H1|]. eapply R_trans; [exact H2|apply HR_pend].
    Qed.

    Lemma mrel_raise_missing key {A} (m : M A) : mrel m -> mrel (raise_missing key m).
    Proof. intro Hm. unfold raise_missing. repeat mstep. Qed.

    Lemma mrel_delete_inner key : mrel (delete_inner key).
    Proof. unfold delete_inner. repeat mstep. Qed.

    Lemma mrel_set_inner key value : mrel (set_inner key value).
    Proof. unfold set_inner. repeat mstep. Qed.

    Lemma mrel_delete_body key : mrel (delete_body key).
    Proof.
      unfold delete_body.
      apply mrel_bind; [apply mrel_raise_missing; apply mrel_delete_inner|]; repeat mstep.
    Qed.

    Lemma mrel_set_body key value : mrel (set_body key value).
    Proof.
      unfold set_body.
      apply mrel_bind; [apply mrel_raise_missing; apply mrel_set_inner|]; repeat mstep.
    Qed.

    (* a failing _set_root_node has not moved the root yet: no use of HR_root *)
    Lemma mrel__set_root_node_err n t e t' : _set_root_node H BNH n t = (Err e, t') -> R t t'.
    Proof.
      intro E. unfold _set_root_node in E.
      repeat (apply bind_inv in E;
              let a := fresh "a" in let t1 := fresh "t" in let E1 := fresh "E" in
              let e0 := fresh "e" in let Er := fresh "Er" in
              destruct E as [(a & t1 & E1 & E)|(e0 & E1 & Er)];
              [cbv beta in E;
               match type of E1 with
               | ?m _ = _ =>
                   let Hm := fresh "Hm" in
                   assert (Hm : mrel m) by (repeat mstep);
                   apply (mrel_run _ _ _ _ Hm) in E1
               end
              |match type of E1 with
               | ?m _ = _ =>
                   let Hm := fresh "Hm" in
                   assert (Hm : mrel m) by (repeat mstep);
                   apply (mrel_run _ _ _ _ Hm) in E1
               end;
               repeat match goal with
                      | Ha : R ?x ?y, Hb : R ?y ?z |- _ => pose proof (R_trans _ _ _ Ha Hb); clear Ha
                      end; try assumption]).
      discriminate E.
    Qed.

    Lemma mrel_body_err (m : M item) t e t' :
      mrel m -> bind m (fun new_node => _set_root_node H BNH new_node) t = (Err e, t') -> R t t'.
    Proof.
      intros Hm E. apply bind_inv in E. destruct E as [(a & t1 & E1 & E)|(e0 & E1 & Er)].
      - eapply R_trans; [exact (mrel_run _ _ _ _ Hm E1)|exact (mrel__set_root_node_err _ _ _ _ E)].
      - exact (mrel_run _ _ _ _ Hm E1).
    Qed.

    Lemma mrel_delete key : mrel (delete H BNH key).
    Proof. rewrite delete_unfold. apply mrel__prune_on_success. apply mrel_delete_body. Qed.

    Lemma mrel_set key value : mrel (set H BNH key value).
    Proof. rewrite set_unfold. apply mrel__prune_on_success. apply mrel_set_body. Qed.

    Lemma mrel_dstep o : mrel (dstep o).
    Proof.
      destruct o as [k v|k|k|k]; cbn [dstep].
      - apply mrel_set.
      - apply mrel_delete.
      - apply mrel_bind; [apply mrel_get|intro; apply mrel_ret].
      - apply mrel_bind; [apply mrel_exists|intro; apply mrel_ret].
    Qed.

    Lemma rel_drun ops : forall t, R t (drun ops t).
    Proof.
      induction ops as [|o ops IH]; intro t; cbn [drun]; [apply R_refl|].
      eapply R_trans; [apply mrel_dstep|apply IH].
    Qed.
  End Rel.

  (* ================================================================ *)
  (* A. Reads never change anything                                    *)
  Let eqT : trie -> trie -> Prop := @eq trie.
  Let eqT_refl : forall t, eqT t t := @eq_refl trie.
  Let eqT_trans : forall a b c, eqT a b -> eqT b c -> eqT a c := @eq_trans trie.

  Theorem D_reads_pure_get key t : snd (get BNH key t) = t.
  Proof. symmetry. exact (mrel_get eqT eqT_refl eqT_trans key t). Qed.
  Theorem D_reads_pure_exists key t : snd (exists_ BNH key t) = t.
  Proof. symmetry. exact (mrel_exists eqT eqT_refl eqT_trans key t). Qed.
  Theorem D_reads_pure_traverse k t : snd (traverse BNH k t) = t.
  Proof. symmetry. exact (mrel_traverse eqT eqT_refl eqT_trans k t). Qed.
  Theorem D_reads_pure_traverse_from p k t : snd (traverse_from BNH p k t) = t.
  Proof. symmetry. exact (mrel_traverse_from eqT eqT_refl eqT_trans p k t). Qed.
  Theorem D_reads_pure_root_node t : snd (root_node BNH t) = t.
  Proof. symmetry. exact (mrel_root_node eqT eqT_refl eqT_trans t). Qed.
  Theorem D_reads_pure_get_proof key t : snd (get_proof BNH key t) = t.
  Proof. symmetry. exact (mrel_get_proof eqT eqT_refl eqT_trans key t). Qed.
  Theorem D_reads_pure__traverse_from fuel n k r t : snd (_traverse_from BNH fuel n k r t) = t.
  Proof. symmetry. exact (mrel__traverse_from eqT eqT_refl eqT_trans fuel n k r t). Qed.
  Theorem D_reads_pure_regenerate_ref_count fuel t : snd (regenerate_ref_count BNH fuel t) = t.
  Proof. symmetry. exact (mrel_regenerate_ref_count eqT eqT_refl eqT_trans fuel t). Qed.
  Theorem D_reads_pure_get_node ref t : snd (get_node BNH ref t) = t.
  Proof. symmetry. exact (mrel_get_node eqT eqT_refl eqT_trans ref t). Qed.

  (* ================================================================ *)
  (* D. Inside a batch: the wrapped store is never written, and every buffered
        [Some v] entry is keyed by [H v]                                 *)
  Definition cache_ok (c : amap (option bytes)) : Prop :=
    Forall (fun e : bytes * option bytes =>
              match snd e with Some v => fst e = H v | None => True end) c.

  Lemma cache_ok_aset c k ov :
    match ov with Some v => k = H v | None => True end ->
    cache_ok c -> cache_ok (aset c k ov).
  Proof.
    intros Hk Hc. induction Hc as [|[k0 v0] c Hx Hc IH]; cbn [aset].
    - constructor; [exact Hk|constructor].
    - destruct (bytes_eqb k k0) eqn:E.
      + apply bytes_eqb_eq in E. subst k0. constructor; [exact Hk|exact Hc].
      + constructor; [exact Hx|exact IH].
  Qed.

  Definition Rc (t t' : trie) : Prop :=
    forall sc, t_db t = DScratch sc -> cache_ok (cache sc) ->
    exists sc', t_db t' = DScratch sc' /\ wrapped sc' = wrapped sc /\ cache_ok (cache sc').

  Lemma Rc_refl t : Rc t t.
  Proof. intros sc Hd Hc. exists sc. repeat split; assumption. Qed.

  Lemma Rc_trans a b c : Rc a b -> Rc b c -> Rc a c.
  Proof.
    intros Hab Hbc sc Hd Hc. destruct (Hab sc Hd Hc) as (sc1 & Hd1 & Hw1 & Hc1).
    destruct (Hbc sc1 Hd1 Hc1) as (sc2 & Hd2 & Hw2 & Hc2).
    exists sc2. repeat split; [exact Hd2|congruence|exact Hc2].
  Qed.

  Lemma Rc_same_db t t' : t_db t' = t_db t -> Rc t t'.
  Proof. intros Hdb sc Hd Hc. exists sc. repeat split; [congruence|exact Hc]. Qed.

  Lemma sdv_scratch k v t sc :
    t_db t = DScratch sc -> t_db (snd (_set_db_value k v t)) = DScratch (sset sc k v).
  Proof.
    intro Hd. unfold _set_db_value, bind, db_set, getst, putst, ret. rewrite Hd. cbn.
    destruct (t_prune t); reflexivity.
  Qed.

  Lemma Rc_sdv enc : mrel Rc (_set_db_value (H enc) enc).
  Proof.
    intros t sc Hd Hc. exists (sset sc (H enc) enc).
    split; [apply sdv_scratch; exact Hd|]. split; [reflexivity|].
    cbn [sset cache]. apply cache_ok_aset; [reflexivity|exact Hc].
  Qed.

  Lemma pinc_db k t : t_db (snd (pending_inc k t)) = t_db t.
  Proof. unfold pending_inc, bind, getst. destruct (t_pending t); reflexivity. Qed.

  Lemma Rc_pinc k : mrel Rc (pending_inc k).
  Proof. intro t. apply Rc_same_db. apply pinc_db. Qed.

  Lemma Rc_del k : mrel Rc (db_del k).
  Proof.
    intros t sc Hd Hc. unfold db_del. rewrite Hd. cbn.
    exists (sdel sc k). repeat split. cbn [sdel cache]. apply cache_ok_aset; [exact I|exact Hc].
  Qed.

  Lemma Rc_drun ops t : Rc t (drun ops t).
  Proof.
    apply (rel_drun Rc Rc_refl Rc_trans Rc_sdv Rc_pinc); try apply Rc_del;
      intros; apply Rc_same_db; reflexivity.
  Qed.

  Lemma batch_inner ops outer s :
    t_db outer = DPlain s ->
    exists sc, t_db (drun ops (batch_begin outer)) = DScratch sc /\ wrapped sc = s /\ cache_ok (cache sc).
  Proof.
    intro Hd.
    destruct (Rc_drun ops (batch_begin outer) (scratch_new s)) as (sc & H1 & H2 & H3).
    - unfold batch_begin, batch_base. rewrite Hd. reflexivity.
    - constructor.
    - exists sc. repeat split; assumption.
  Qed.

  Theorem C05_abort_restores outer s ops :
    t_db outer = DPlain s ->
    batch_abort outer (drun ops (batch_begin outer)) = outer.
  Proof.
    intro Hd. destruct (batch_inner ops outer s Hd) as (sc & H1 & H2 & _).
    unfold batch_abort, inner_scratch. rewrite Hd, H1. cbn [sabort wrapped]. rewrite H2.
    unfold with_db. rewrite <- Hd. apply trie_eta.
  Qed.

  (* --- a block opened on a batch trie (squash_changes inside squash_changes) --- *)
  Lemma batch_inner_gen ops outer :
    exists sc, t_db (drun ops (batch_begin outer)) = DScratch sc /\ wrapped sc = batch_base outer /\
               cache_ok (cache sc).
  Proof.
    destruct (Rc_drun ops (batch_begin outer) (scratch_new (batch_base outer))) as (sc & H1 & H2 & H3).
    - reflexivity.
    - constructor.
    - exists sc. repeat split; assumption.
  Qed.

  (* left by an exception: the enclosing batch trie — its buffer, root and counts — is exactly as before,
     whatever the block did (its ScratchDB only ever wrote its own buffer) *)
  Theorem C05_abort_nested outer osc ops :
    t_db outer = DScratch osc ->
    batch_abort outer (drun ops (batch_begin outer)) = outer.
  Proof. intro Hd. unfold batch_abort. rewrite Hd. reflexivity. Qed.

  (* normal exit on a (pruning) batch trie: the commit cannot fail; the block's buffer is replayed into the
     enclosing buffer, whose own wrapped store is not touched, and root and counts are adopted *)
  Theorem C05_commit_nested outer osc inner :
    t_db outer = DScratch osc -> t_prune outer = true ->
    batch_commit H BNH outer inner =
    (Ok tt, with_root (with_refc (with_db outer (DScratch (sreplay true (cache (inner_scratch inner)) osc)))
                                 (t_refc inner)) (t_root inner)).
  Proof. intros Hd Hp. unfold batch_commit, commit_db. rewrite Hd, Hp. reflexivity. Qed.

  (* ================================================================ *)
  (* C. Which exceptions a computation can raise                      *)
  Section NoExn.
    Variable P : exn -> Prop.
    Hypothesis P_benign : forall e, benign e -> P e.
    Hypothesis P_key : forall k, P (EKeyError k).

    Definition noexn {A} (m : M A) : Prop := forall t e t', m t = (Err e, t') -> P e.

    Lemma noexn_ret {A} (a : A) : noexn (ret a).
    Proof. intros t e t' E. discriminate E. Qed.
    Lemma noexn_fail {A} e : P e -> noexn (@fail A e).
    Proof. intros He t e' t' E. injection E as <- _. exact He. Qed.
    Lemma noexn_lift {A} (r : result A) : rbenign r -> noexn (lift r).
    Proof. intros Hr t e t' E. unfold lift in E. injection E as -> _. apply P_benign. apply Hr. reflexivity. Qed.
    Lemma noexn_getst : noexn getst.
    Proof. intros t e t' E. discriminate E. Qed.
    Lemma noexn_putst x : noexn (putst x).
    Proof. intros t e t' E. discriminate E. Qed.
    Lemma noexn_db_contains k : noexn (db_contains k).
    Proof. intros t e t' E. discriminate E. Qed.

    Lemma noexn_bind {A B} (m : M A) (f : A -> M B) :
      noexn m -> (forall a, noexn (f a)) -> noexn (bind m f).
    Proof.
      intros Hm Hf t e t' E. apply bind_inv in E.
      destruct E as [(a & t1 & E1 & E2)|(e0 & E1 & E2)].
      - exact (Hf a _ _ _ E2).
      - injection E2 as ->. exact (Hm _ _ _ E1).
    Qed.

    Lemma noexn_catch {A} (m : M A) h :
      noexn m -> (forall e k, h e = Some k -> noexn k) -> noexn (catch m h).
    Proof.
      intros Hm Hh t e t' E. apply catch_inv in E.
      destruct E as [(a & _ & E2)|(e0 & t1 & E1 & E2)]; [discriminate E2|].
      destruct (h e0) as [k|] eqn:Eh.
      - exact (Hh _ _ Eh _ _ _ E2).
      - destruct E2 as [E2 _]. injection E2 as ->. exact (Hm _ _ _ E1).
    Qed.

    Lemma noexn_db_set k v : noexn (db_set k v).
    Proof.
      intros t e t' E. unfold db_set in E. destruct (t_db t) as [s|sc]; [|discriminate E].
      unfold store_set in E. destruct (budget s) as [[|n]|]; try discriminate E.
      injection E as <- _. apply P_benign. benign_close.
    Qed.

    Lemma noexn_db_get k : noexn (db_get k).
    Proof.
      intros t e t' E. unfold db_get in E. injection E as E _.
      assert (Hs : forall s, store_get s k = Err e -> P e).
      { intros s Hs. unfold store_get in Hs. destruct (aget (cells s) k); [discriminate Hs|].
        injection Hs as <-. apply P_key. }
      destruct (t_db t) as [s|sc]; [exact (Hs _ E)|].
      unfold sget in E. destruct (aget (cache sc) k) as [[v|]|]; [discriminate E|exact (Hs _ E)..].
    Qed.

    Lemma noexn_db_del k : noexn (db_del k).
    Proof.
      intros t e t' E. unfold db_del in E. destruct (t_db t) as [s|sc]; [|discriminate E].
      unfold store_del in E. destruct (amem (cells s) k); [discriminate E|].
      injection E as <- _. apply P_key.
    Qed.

    Lemma noexn_lift_bytes r : rbenign r -> noexn (lift_bytes r).
    Proof. intro Hr. unfold lift_bytes. apply noexn_bind; [apply noexn_lift; exact Hr|intro; apply noexn_ret]. Qed.

    Ltac handler_inv Hk :=
      repeat match type of Hk with
             | context [match ?x with _ => _ end] => destruct x
             end;
      try discriminate Hk; injection Hk as <-.

    Ltac nstep :=
      cbv beta;
      match goal with
      | |- noexn (ret _) => apply noexn_ret
      | |- noexn (fail _) => apply noexn_fail; apply P_benign; benign_close
      | |- noexn (lift _) => apply noexn_lift; rb_solve
      | |- noexn (lift_bytes _) => apply noexn_lift_bytes; rb_solve
      | |- noexn getst => apply noexn_getst
      | |- noexn (putst _) => apply noexn_putst
      | |- noexn (db_contains _) => apply noexn_db_contains
      | |- noexn (db_set _ _) => apply noexn_db_set
      | |- noexn (bind _ _) => apply noexn_bind; [|intro]
      | |- noexn (catch _ _) =>
          apply noexn_catch;
          [|let e := fresh "e" in let k := fresh "k" in let Hk := fresh "Hk" in
            intros e k Hk; handler_inv Hk]
      | |- noexn (match ?x with _ => _ end) => destruct x
      | |- _ => solve [auto with nox nocore]
      end.

    Lemma noexn__set_db_value k v : noexn (_set_db_value k v).
    Proof. unfold _set_db_value. repeat nstep. Qed.
    Hint Resolve noexn__set_db_value : nox.

    Lemma noexn_pending_inc k : noexn (pending_inc k).
    Proof. unfold pending_inc. repeat nstep. Qed.
    Hint Resolve noexn_pending_inc : nox.

    Lemma noexn__prune_node n : noexn (_prune_node H n).
    Proof. unfold _prune_node. repeat nstep. Qed.
    Hint Resolve noexn__prune_node : nox.

    Lemma noexn__persist_node n : noexn (_persist_node H n).
    Proof. unfold _persist_node. repeat nstep. Qed.
    Hint Resolve noexn__persist_node : nox.

    Lemma noexn__set_raw_node n : noexn (_set_raw_node H BNH n).
    Proof. unfold _set_raw_node. repeat nstep. Qed.
    Hint Resolve noexn__set_raw_node : nox.

    (* from here on KeyErrors are possible *)
    Lemma noexn_get_node ref : noexn (get_node BNH ref).
    Proof. unfold get_node. repeat nstep; apply noexn_db_get. Qed.
    Hint Resolve noexn_get_node : nox.

    Lemma noexn__normalize_branch_node n : noexn (_normalize_branch_node H BNH n).
    Proof. unfold _normalize_branch_node. repeat nstep. Qed.
    Hint Resolve noexn__normalize_branch_node : nox.

    Lemma noexn__set fuel : forall n k v, noexn (_set H BNH fuel n k v).
    Proof. induction fuel as [|f IH]; intros n k v; cbn [_set]; repeat nstep. Qed.
    Hint Resolve noexn__set : nox.

    Lemma noexn__delete fuel : forall n k, noexn (_delete H BNH fuel n k).
    Proof. induction fuel as [|f IH]; intros n k; cbn [_delete]; repeat nstep. Qed.
    Hint Resolve noexn__delete : nox.

    Lemma noexn_complete_pruning_loop p : noexn (complete_pruning_loop p).
    Proof.
      induction p as [|[k n] p IH]; cbn [complete_pruning_loop]; repeat nstep.
      apply noexn_db_del.
    Qed.
    Hint Resolve noexn_complete_pruning_loop : nox.

    Lemma noexn__complete_pruning : noexn _complete_pruning.
    Proof. unfold _complete_pruning. repeat nstep. Qed.

    Lemma noexn__set_root_node n : noexn (_set_root_node H BNH n).
    Proof. unfold _set_root_node. repeat nstep. Qed.
  End NoExn.

  (* ---------------------------------------------------------------- *)
  (* equal up to the pending-prune table *)
  Definition emp (t t' : trie) : Prop :=
    t_db t' = t_db t /\ t_refc t' = t_refc t /\ t_root t' = t_root t /\ t_prune t' = t_prune t.

  Lemma emp_refl t : emp t t.
  Proof. repeat split. Qed.
  Lemma emp_trans a b c : emp a b -> emp b c -> emp a c.
  Proof. unfold emp. intros (?&?&?&?) (?&?&?&?). repeat split; congruence. Qed.

  Lemma emp_pinc k : mrel emp (pending_inc k).
  Proof. intro t. unfold pending_inc, bind, getst. destruct (t_pending t); repeat split. Qed.

  Definition nokeyP (e : exn) : Prop := key_error_hash e = None.
  Definition no8P (e : exn) : Prop := exn_tag e <> T_MissingTrieNode.
  Lemma nokeyP_benign e : benign e -> nokeyP e.
  Proof. intros [Hk _]. exact Hk. Qed.
  Lemma no8P_benign e : benign e -> no8P e.
  Proof. intros [_ Ht]. exact Ht. Qed.
  Lemma no8P_key k : no8P (EKeyError k).
  Proof. unfold no8P. cbn. discriminate. Qed.

  Lemma get_node_run ref t r t' : get_node BNH ref t = (r, t') -> emp t t'.
  Proof. apply mrel_run. apply (mrel_get_node emp emp_refl emp_trans). Qed.

  Lemma prune_node_run n t r t' : _prune_node H n t = (r, t') -> emp t t'.
  Proof. apply mrel_run. apply (mrel__prune_node emp emp_refl emp_trans emp_pinc). Qed.

  Lemma prune_node_err n t e t' : _prune_node H n t = (Err e, t') -> key_error_hash e = None.
  Proof. apply (noexn__prune_node nokeyP nokeyP_benign). Qed.

  Lemma normalize_run n t r t' : _normalize_branch_node H BNH n t = (r, t') -> emp t t'.
  Proof. apply mrel_run. apply (mrel__normalize_branch_node emp emp_refl emp_trans emp_pinc). Qed.

  Lemma persist_err n t e t' : _persist_node H n t = (Err e, t') -> key_error_hash e = None.
  Proof. apply (noexn__persist_node nokeyP nokeyP_benign). Qed.

  Lemma is_blank_eq n : is_blank n = true -> n = BLANK.
  Proof. destruct n as [[|b0 b]|l]; try discriminate. reflexivity. Qed.

  Lemma persist_blank_in n t r t' : is_blank n = true -> _persist_node H n t = (r, t') -> t' = t.
  Proof. intros Hb E. apply is_blank_eq in Hb. subst n. cbn in E. injection E as _ <-. reflexivity. Qed.

  Lemma blank_type n ty : get_node_type n = Ok ty -> is_blank n = true -> ty = TBlank.
  Proof. intros E Hb. apply is_blank_eq in Hb. subst n. cbn in E. injection E as <-. reflexivity. Qed.

  (* the facts the runs of the atomic computations give *)
  Ltac run_facts :=
    repeat match goal with
           | E : _prune_node _ _ _ = (Err _, _) |- _ => pose proof (prune_node_err _ _ _ _ E); apply prune_node_run in E
           | E : _prune_node _ _ _ = (_, _) |- _ => apply prune_node_run in E
           | E : get_node _ _ _ = (_, _) |- _ => apply get_node_run in E
           | E : _normalize_branch_node _ _ _ _ = (_, _) |- _ => apply normalize_run in E
           | E : _persist_node _ _ _ = (Err _, _) |- _ => apply persist_err in E
           | E : ?r = Err ?e |- _ => pose proof (rb_key r e ltac:(rb_solve) E); clear E
           end.

  Ltac emp_close :=
    unfold emp in *;
    repeat match goal with Hc : _ /\ _ |- _ => destruct Hc end;
    try congruence; repeat split; congruence.

  (* a KeyError out of _set: nothing but the pending table has changed *)
  Lemma _set_katomic fuel : forall n k v t e h t',
    _set H BNH fuel n k v t = (Err e, t') -> key_error_hash e = Some h -> emp t t'.
  Proof.
    induction fuel as [|f IH]; intros n k v t e h t' E Hk; cbn [_set] in E.
    - unfold fail in E. injection E as <- _. discriminate Hk.
    - repeat mrun; run_facts;
        try match goal with
            | E : _set _ _ f _ _ _ _ = (Err _, _) |- _ => apply (fun E => IH _ _ _ _ _ _ _ E Hk) in E
            end;
        try solve [cbv in Hk; discriminate Hk]; emp_close.
  Qed.

  Section Atomic.
    (* [H] never returns the empty string (a 32-byte hash never does): otherwise the reference
       of a freshly written node could be mistaken for BLANK *)
    Hypothesis H_nonblank : forall b, H b <> [].

    Lemma persist_blank_out n t k t' :
      _persist_node H n t = (Ok k, t') -> is_blank k = true -> is_blank n = true.
    Proof.
      intros E Hb. unfold _persist_node, bind, lift in E.
      destruct (node_to_db_mapping H n) as [[k0 [v|]]|e] eqn:Em; [| |discriminate E].
      - pose proof (node_to_db_mapping_key _ _ _ Em) as ->.
        destruct (_set_db_value (item_bytes (RStr (H v))) v t) as [[u|e] t1]; [|discriminate E].
        cbn in E. injection E as <- _. cbn in Hb.
        destruct (H v) eqn:Eh; [exfalso; exact (H_nonblank _ Eh)|discriminate Hb].
      - cbn in E. injection E as <- _.
        unfold node_to_db_mapping in Em. destruct (validate_is_node n); [|discriminate Em].
        destruct (is_blank n) eqn:Eb; [reflexivity|].
        destruct (Nat.ltb (length (rlp_encode n)) 32); [|discriminate Em].
        injection Em as <-. congruence.
    Qed.

    Definition dpost (t : trie) (r : result item) (t' : trie) : Prop :=
      (forall e h, r = Err e -> key_error_hash e = Some h -> emp t t') /\
      (forall n, r = Ok n -> is_blank n = true -> emp t t').

    Lemma _delete_dpost fuel : forall n k t r t',
      _delete H BNH fuel n k t = (r, t') -> dpost t r t'.
    Proof.
      induction fuel as [|f IH]; intros n k t r t' E; cbn [_delete] in E.
      - unfold fail in E. injection E as <- _. split; [|discriminate].
        intros e h Hr Hk. injection Hr as <-. discriminate Hk.
      - repeat mrun;
        repeat match goal with
               | E : _delete _ _ f _ _ _ = (_, _) |- _ =>
                   let IHk := fresh "IHk" in let IHb := fresh "IHb" in
                   apply IH in E; destruct E as [IHk IHb];
                   try specialize (IHb _ eq_refl)
               | E : _persist_node _ _ _ = (Ok _, _) |- _ =>
                   pose proof (persist_blank_out _ _ _ _ E);
                   pose proof (fun Hb => persist_blank_in _ _ _ _ Hb E);
                   clear E
               end;
        (split; [intros ex hx Hr Hk|intros nx Hr Hb]; use_eq Hr);
        try match goal with
            | IHk : forall e h, Err _ = Err e -> _ |- _ => specialize (IHk _ _ eq_refl Hk)
            end;
        run_facts;
        try solve [cbv in Hk; discriminate Hk];
        try solve [unfold branch_set in Hb; cbn in Hb; discriminate Hb];
        try match goal with
            | Hb : is_blank ?n = true, E : get_node_type ?n = Ok _ |- _ =>
                solve [pose proof (blank_type _ _ E Hb); discriminate]
            end;
        repeat match goal with Hi : ?P -> _, Hp : ?P |- _ => specialize (Hi Hp) end;
        try emp_close.
    Qed.

    Lemma emp_restore t t2 : t_pending t = None -> emp t t2 -> with_pending t2 None = t.
    Proof.
      intros Hp (H1 & H2 & H3 & H4). destruct t, t2. cbn in *. subst. reflexivity.
    Qed.

    (* the shape shared by set and delete *)
    Lemma write_missing key (m : M item) :
      (forall t e h t', m t = (Err e, t') -> key_error_hash e = Some h -> emp t t') ->
      noexn no8P m ->
      forall t e t', t_pending t = None ->
      _prune_on_success (bind (raise_missing key m) (fun new_node => _set_root_node H BNH new_node)) t
        = (Err e, t') ->
      exn_tag e = T_MissingTrieNode ->
      t' = t /\ exists h, e = EMissingTrieNode h (t_root t) key None.
    Proof.
      intros Hkat Hn8 t e t' Hp E Htag. unfold _prune_on_success in E.
      set (t1 := if t_prune t then with_pending t (Some []) else t) in E.
      assert (H1 : emp t t1) by (subst t1; destruct (t_prune t); repeat split).
      destruct (bind (raise_missing key m) (fun new_node => _set_root_node H BNH new_node) t1)
        as [[u|e2] t2] eqn:Eb.
      - exfalso. destruct (t_prune t2); [|discriminate E].
        destruct (_complete_pruning t2) as [r t3] eqn:Ec. injection E as -> _.
        exact (noexn__complete_pruning no8P no8P_benign no8P_key _ _ _ Ec Htag).
      - injection E as -> <-. apply bind_inv in Eb.
        destruct Eb as [(a & t1' & E1 & E2)|(e0 & E1 & E2)].
        + exfalso. exact (noexn__set_root_node no8P no8P_benign no8P_key _ _ _ _ E2 Htag).
        + injection E2 as <-. unfold raise_missing in E1. apply catch_inv in E1.
          destruct E1 as [(a & _ & E2)|(e1 & t1' & E1 & E2)]; [discriminate E2|].
          destruct (key_error_hash e1) as [h|] eqn:Ek.
          * pose proof (Hkat _ _ _ _ E1 Ek) as H2. cbn in E2. injection E2 as <- <-.
            assert (H3 : emp t t1') by (eapply emp_trans; eassumption).
            split; [apply emp_restore; assumption|]. exists h.
            destruct H3 as (_ & _ & -> & _). reflexivity.
          * exfalso. destruct E2 as [E2 _]. injection E2 as ->.
            exact (Hn8 _ _ _ E1 Htag).
    Qed.

    Lemma delete_inner_katomic key t e h t' :
      delete_inner key t = (Err e, t') -> key_error_hash e = Some h -> emp t t'.
    Proof.
      intros E Hk. unfold delete_inner in E. repeat mrun.
      - apply _delete_dpost in E. destruct E as [IHk _]. specialize (IHk _ _ eq_refl Hk).
        run_facts. emp_close.
      - run_facts. emp_close.
    Qed.

    Lemma set_inner_katomic key value t e h t' :
      set_inner key value t = (Err e, t') -> key_error_hash e = Some h -> emp t t'.
    Proof.
      intros E Hk. unfold set_inner in E. repeat mrun.
      - apply _delete_dpost in E. destruct E as [IHk _]. specialize (IHk _ _ eq_refl Hk).
        run_facts. emp_close.
      - apply (fun E => _set_katomic _ _ _ _ _ _ _ _ E Hk) in E. run_facts. emp_close.
      - run_facts. emp_close.
    Qed.

    Lemma delete_inner_no8 key : noexn no8P (delete_inner key).
    Proof.
      unfold delete_inner. apply noexn_bind; [apply noexn_getst|intro t0].
      apply noexn_bind; [apply (noexn_get_node no8P no8P_benign no8P_key)|intro root].
      apply (noexn__delete no8P no8P_benign no8P_key).
    Qed.

    Lemma set_inner_no8 key value : noexn no8P (set_inner key value).
    Proof.
      unfold set_inner. apply noexn_bind; [apply noexn_getst|intro t0].
      apply noexn_bind; [apply (noexn_get_node no8P no8P_benign no8P_key)|intro root].
      destruct value; [apply (noexn__delete no8P no8P_benign no8P_key)
                      |apply (noexn__set no8P no8P_benign no8P_key)].
    Qed.

    Lemma set_missing k v t e t' :
      t_pending t = None -> set H BNH k v t = (Err e, t') -> exn_tag e = T_MissingTrieNode ->
      t' = t /\ exists h, e = EMissingTrieNode h (t_root t) k None.
    Proof.
      intros Hp E Htag.
      exact (write_missing k (set_inner k v) (set_inner_katomic k v) (set_inner_no8 k v)
                           t e t' Hp E Htag).
    Qed.

    Lemma delete_missing k t e t' :
      t_pending t = None -> delete H BNH k t = (Err e, t') -> exn_tag e = T_MissingTrieNode ->
      t' = t /\ exists h, e = EMissingTrieNode h (t_root t) k None.
    Proof.
      intros Hp E Htag.
      exact (write_missing k (delete_inner k) (delete_inner_katomic k) (delete_inner_no8 k)
                           t e t' Hp E Htag).
    Qed.

    (* C07: a write that fails because a node is missing changes nothing *)
    Theorem C07_atomic_set k v t e t' :
      t_pending t = None -> set H BNH k v t = (Err e, t') ->
      exn_tag e = T_MissingTrieNode -> t' = t.
    Proof. intros Hp E Htag. exact (proj1 (set_missing k v t e t' Hp E Htag)). Qed.

    Theorem C07_atomic_delete k t e t' :
      t_pending t = None -> delete H BNH k t = (Err e, t') ->
      exn_tag e = T_MissingTrieNode -> t' = t.
    Proof. intros Hp E Htag. exact (proj1 (delete_missing k t e t' Hp E Htag)). Qed.

    Theorem C07_report_set k v t e t' :
      t_pending t = None -> set H BNH k v t = (Err e, t') ->
      exn_tag e = T_MissingTrieNode -> exists h, e = EMissingTrieNode h (t_root t) k None.
    Proof. intros Hp E Htag. exact (proj2 (set_missing k v t e t' Hp E Htag)). Qed.

    Theorem C07_report_delete k t e t' :
      t_pending t = None -> delete H BNH k t = (Err e, t') ->
      exn_tag e = T_MissingTrieNode -> exists h, e = EMissingTrieNode h (t_root t) k None.
    Proof. intros Hp E Htag. exact (proj2 (delete_missing k t e t' Hp E Htag)). Qed.
  End Atomic.

  (* ================================================================ *)
  (* B. Non-pruning tries are append-only (C04)                        *)
  Definition app_only (c c' : amap bytes) : Prop :=
    (forall h b, aget c h = Some b ->
                 aget c' h = Some b \/ (exists b', aget c' h = Some b' /\ h = H b')) /\
    (forall h b, aget c' h = Some b -> aget c h = Some b \/ h = H b).

  Lemma app_only_refl c : app_only c c.
  Proof. split; intros h b Hg; left; exact Hg. Qed.

  Lemma app_only_trans a b c : app_only a b -> app_only b c -> app_only a c.
  Proof.
    intros [H1 H2] [H3 H4]. split.
    - intros h x Hg. destruct (H1 h x Hg) as [Hb|(x' & Hb & Hh)].
      + exact (H3 h x Hb).
      + right. destruct (H3 h x' Hb) as [Hc|(x'' & Hc & Hh')].
        * exists x'. split; assumption.
        * exists x''. split; assumption.
    - intros h x Hg. destruct (H4 h x Hg) as [Hb|Hh]; [exact (H2 h x Hb)|right; exact Hh].
  Qed.

  Lemma app_only_aset c enc : app_only c (aset c (H enc) enc).
  Proof.
    split; intros h b Hg.
    - rewrite aget_aset. destruct (bytes_eqb h (H enc)) eqn:E.
      + apply bytes_eqb_eq in E. right. exists enc. split; [reflexivity|exact E].
      + left. exact Hg.
    - rewrite aget_aset in Hg. destruct (bytes_eqb h (H enc)) eqn:E.
      + apply bytes_eqb_eq in E. injection Hg as <-. right. exact E.
      + left. exact Hg.
  Qed.

  Lemma store_set_cells s k v s' : store_set s k v = Ok s' -> cells s' = aset (cells s) k v.
  Proof.
    unfold store_set. destruct (budget s) as [[|n]|]; intro E; try discriminate E;
      injection E as <-; reflexivity.
  Qed.

  (* a non-pruning trie over a plain store, outside of any write *)
  Definition np (t : trie) : Prop :=
    t_prune t = false /\ t_pending t = None /\ exists s, t_db t = DPlain s.

  Definition ao (t t' : trie) : Prop :=
    np t ->
    np t' /\ t_refc t' = t_refc t /\ app_only (cells (outer_store t)) (cells (outer_store t')).

  Lemma ao_refl t : ao t t.
  Proof. intro Hn. split; [exact Hn|]. split; [reflexivity|apply app_only_refl]. Qed.

  Lemma ao_trans a b c : ao a b -> ao b c -> ao a c.
  Proof.
    intros Hab Hbc Hn. destruct (Hab Hn) as (Hn1 & Hr1 & Ha1).
    destruct (Hbc Hn1) as (Hn2 & Hr2 & Ha2).
    split; [exact Hn2|]. split; [congruence|eapply app_only_trans; eassumption].
  Qed.

  Lemma ao_with_db t w :
    app_only (cells (outer_store t)) (cells w) -> ao t (with_db t (DPlain w)).
  Proof.
    intros Ha (Hpr & Hpe & s & Hd). split; [|split; [reflexivity|exact Ha]].
    split; [exact Hpr|]. split; [exact Hpe|]. exists w. reflexivity.
  Qed.

  Lemma ao_sdv enc : mrel ao (_set_db_value (H enc) enc).
  Proof.
    intros t Hn. pose proof Hn as (Hpr & Hpe & s & Hd).
    unfold _set_db_value, bind, db_set, getst, putst, ret. rewrite Hd.
    destruct (store_set s (H enc) enc) as [s'|e] eqn:Es; cbn.
    - rewrite Hpr. cbn. apply ao_with_db; [|exact Hn].
      unfold outer_store. rewrite Hd. rewrite (store_set_cells _ _ _ _ Es). apply app_only_aset.
    - apply ao_refl. exact Hn.
  Qed.

  Lemma ao_pinc k : mrel ao (pending_inc k).
  Proof.
    intros t Hn. pose proof Hn as (Hpr & Hpe & s & Hd).
    unfold pending_inc, bind, getst. rewrite Hpe. cbn. apply ao_refl. exact Hn.
  Qed.

  Lemma ao_root t h : ao t (with_root t h).
  Proof.
    intros (Hpr & Hpe & s & Hd). split; [|split; [reflexivity|apply app_only_refl]].
    split; [exact Hpr|]. split; [exact Hpe|]. exists s. exact Hd.
  Qed.

  Lemma ao_pos body : mrel ao body -> mrel ao (_prune_on_success body).
  Proof.
    intros Hb t Hn. pose proof Hn as (Hpr & Hpe & s & Hd).
    unfold _prune_on_success. rewrite Hpr.
    pose proof (Hb t Hn) as H2. destruct (body t) as [[u|e] t2]; cbn [snd] in *.
    - destruct H2 as (Hn2 & Hr2 & Ha2). pose proof Hn2 as (Hpr2 & Hpe2 & s2 & Hd2).
      rewrite Hpr2. cbn [snd].
      split; [|split; [exact Hr2|exact Ha2]].
      split; [exact Hpr2|]. split; [reflexivity|]. exists s2. exact Hd2.
    - destruct H2 as (Hn2 & Hr2 & Ha2). pose proof Hn2 as (Hpr2 & Hpe2 & s2 & Hd2).
      split; [|split; [exact Hr2|exact Ha2]].
      split; [exact Hpr2|]. split; [reflexivity|]. exists s2. exact Hd2.
  Qed.

  Lemma ao_set k v : mrel ao (set H BNH k v).
  Proof.
    rewrite set_unfold. apply ao_pos.
    apply (mrel_set_body ao ao_refl ao_trans ao_sdv ao_pinc ao_root).
  Qed.

  Lemma ao_delete k : mrel ao (delete H BNH k).
  Proof.
    rewrite delete_unfold. apply ao_pos.
    apply (mrel_delete_body ao ao_refl ao_trans ao_sdv ao_pinc ao_root).
  Qed.

  Lemma ao_dstep o : mrel ao (dstep o).
  Proof.
    destruct o as [k v|k|k|k]; cbn [dstep].
    - apply ao_set.
    - apply ao_delete.
    - apply (mrel_bind ao ao_trans); [apply (mrel_get ao ao_refl ao_trans)|intro; apply (mrel_ret ao ao_refl)].
    - apply (mrel_bind ao ao_trans); [apply (mrel_exists ao ao_refl ao_trans)|intro; apply (mrel_ret ao ao_refl)].
  Qed.

  Lemma ao_drun ops : forall t, ao t (drun ops t).
  Proof.
    induction ops as [|o ops IH]; intro t; cbn [drun]; [apply ao_refl|].
    eapply ao_trans; [apply ao_dstep|apply IH].
  Qed.

  (* the root is preserved by everything except the last step of _set_root_node *)
  Definition Rroot (t t' : trie) : Prop := t_root t' = t_root t.
  Lemma Rroot_refl t : Rroot t t.
  Proof. reflexivity. Qed.
  Lemma Rroot_trans a b c : Rroot a b -> Rroot b c -> Rroot a c.
  Proof. unfold Rroot. congruence. Qed.
  Lemma Rroot_sdv enc : mrel Rroot (_set_db_value (H enc) enc).
  Proof.
    intro t. unfold Rroot, _set_db_value, bind, db_set, getst, putst, ret.
    destruct (t_db t) as [s|sc]; [destruct (store_set s (H enc) enc)|]; cbn;
      try destruct (t_prune t); reflexivity.
  Qed.
  Lemma Rroot_pinc k : mrel Rroot (pending_inc k).
  Proof. intro t. unfold Rroot, pending_inc, bind, getst. destruct (t_pending t); reflexivity. Qed.

  Lemma set_body_err_root k v t e t' : set_body k v t = (Err e, t') -> t_root t' = t_root t.
  Proof.
    apply (mrel_body_err Rroot Rroot_refl Rroot_trans Rroot_sdv Rroot_pinc).
    apply (mrel_raise_missing Rroot Rroot_refl Rroot_trans).
    apply (mrel_set_inner Rroot Rroot_refl Rroot_trans Rroot_sdv Rroot_pinc).
  Qed.

  Lemma delete_body_err_root k t e t' : delete_body k t = (Err e, t') -> t_root t' = t_root t.
  Proof.
    apply (mrel_body_err Rroot Rroot_refl Rroot_trans Rroot_sdv Rroot_pinc).
    apply (mrel_raise_missing Rroot Rroot_refl Rroot_trans).
    apply (mrel_delete_inner Rroot Rroot_refl Rroot_trans Rroot_sdv Rroot_pinc).
  Qed.

  Lemma pos_np_err body t e t' :
    np t -> mrel ao body ->
    (forall t e t', body t = (Err e, t') -> t_root t' = t_root t) ->
    _prune_on_success body t = (Err e, t') -> t_root t' = t_root t.
  Proof.
    intros Hn Hao Hb E. pose proof Hn as (Hpr & Hpe & s & Hd).
    unfold _prune_on_success in E. rewrite Hpr in E.
    destruct (body t) as [[u|e2] t2] eqn:Eb.
    - exfalso. pose proof (mrel_run ao _ _ _ _ Hao Eb Hn) as ((Hpr2 & _) & _).
      rewrite Hpr2 in E. discriminate E.
    - injection E as _ <-. cbn. exact (Hb _ _ _ Eb).
  Qed.

  Lemma ao_post t s t' :
    t_prune t = false -> t_pending t = None -> t_db t = DPlain s -> ao t t' ->
    (exists s', t_db t' = DPlain s' /\ app_only (cells s) (cells s')) /\
    t_prune t' = false /\ t_refc t' = t_refc t /\ t_pending t' = None.
  Proof.
    intros Hpr Hpe Hd Hao.
    destruct Hao as ((Hpr' & Hpe' & s' & Hd') & Hr & Ha).
    { split; [exact Hpr|]. split; [exact Hpe|]. exists s. exact Hd. }
    unfold outer_store in Ha. rewrite Hd, Hd' in Ha.
    split; [exists s'; split; [exact Hd'|exact Ha]|]. repeat split; assumption.
  Qed.

  Lemma np_intro t s : t_prune t = false -> t_pending t = None -> t_db t = DPlain s -> np t.
  Proof. intros Hpr Hpe Hd. split; [exact Hpr|]. split; [exact Hpe|]. exists s. exact Hd. Qed.

  Theorem C04_root_last k v t s e t' :
    t_prune t = false -> t_pending t = None -> t_db t = DPlain s ->
    (set H BNH k v t = (Err e, t') -> t_root t' = t_root t) /\
    (delete H BNH k t = (Err e, t') -> t_root t' = t_root t).
  Proof.
    intros Hpr Hpe Hd. pose proof (np_intro t s Hpr Hpe Hd) as Hn. split; intro E.
    - rewrite set_unfold in E. revert E. apply pos_np_err; [exact Hn| |apply set_body_err_root].
      apply (mrel_set_body ao ao_refl ao_trans ao_sdv ao_pinc ao_root).
    - rewrite delete_unfold in E. revert E. apply pos_np_err; [exact Hn| |apply delete_body_err_root].
      apply (mrel_delete_body ao ao_refl ao_trans ao_sdv ao_pinc ao_root).
  Qed.

  Theorem C04_append_only_set k v t s r t' :
    t_prune t = false -> t_pending t = None -> t_db t = DPlain s ->
    set H BNH k v t = (r, t') ->
    (exists s', t_db t' = DPlain s' /\
       (forall h b, aget (cells s) h = Some b ->
                    aget (cells s') h = Some b \/ (exists b', aget (cells s') h = Some b' /\ h = H b')) /\
       (forall h b, aget (cells s') h = Some b -> aget (cells s) h = Some b \/ h = H b)) /\
    t_prune t' = false /\ t_refc t' = t_refc t /\ t_pending t' = None /\
    (forall e, r = Err e -> t_root t' = t_root t).
  Proof.
    intros Hpr Hpe Hd E.
    pose proof (ao_post t s t' Hpr Hpe Hd (mrel_run ao _ _ _ _ (ao_set k v) E)) as (H1 & H2 & H3 & H4).
    split; [exact H1|]. repeat (split; [assumption|]).
    intros e ->. exact (proj1 (C04_root_last k v t s e t' Hpr Hpe Hd) E).
  Qed.

  Theorem C04_append_only_delete k t s r t' :
    t_prune t = false -> t_pending t = None -> t_db t = DPlain s ->
    delete H BNH k t = (r, t') ->
    (exists s', t_db t' = DPlain s' /\
       (forall h b, aget (cells s) h = Some b ->
                    aget (cells s') h = Some b \/ (exists b', aget (cells s') h = Some b' /\ h = H b')) /\
       (forall h b, aget (cells s') h = Some b -> aget (cells s) h = Some b \/ h = H b)) /\
    t_prune t' = false /\ t_refc t' = t_refc t /\ t_pending t' = None /\
    (forall e, r = Err e -> t_root t' = t_root t).
  Proof.
    intros Hpr Hpe Hd E.
    pose proof (ao_post t s t' Hpr Hpe Hd (mrel_run ao _ _ _ _ (ao_delete k) E)) as (H1 & H2 & H3 & H4).
    split; [exact H1|]. repeat (split; [assumption|]).
    intros e ->. exact (proj2 (C04_root_last k [] t s e t' Hpr Hpe Hd) E).
  Qed.

  Theorem C04_append_only_run ops t s :
    t_prune t = false -> t_pending t = None -> t_db t = DPlain s ->
    let t' := drun ops t in
    (exists s', t_db t' = DPlain s' /\
       (forall h b, aget (cells s) h = Some b ->
                    aget (cells s') h = Some b \/ (exists b', aget (cells s') h = Some b' /\ h = H b')) /\
       (forall h b, aget (cells s') h = Some b -> aget (cells s) h = Some b \/ h = H b)) /\
    t_prune t' = false /\ t_refc t' = t_refc t /\ t_pending t' = None.
  Proof. intros Hpr Hpe Hd. exact (ao_post t s _ Hpr Hpe Hd (ao_drun ops t)). Qed.

  (* ---- a whole batch on a non-pruning outer trie ---- *)
  Lemma apply_cache_app_only c :
    cache_ok c -> forall w, app_only (cells w) (cells (fst (apply_cache false c w))).
  Proof.
    induction 1 as [|[k [v|]] c Hk _ IH]; intro w; cbn [apply_cache].
    - apply app_only_refl.
    - cbn in Hk. subst k. destruct (store_set w (H v) v) as [w'|e] eqn:Es.
      + eapply app_only_trans; [|apply IH].
        rewrite (store_set_cells _ _ _ _ Es). apply app_only_aset.
      + apply app_only_refl.
    - apply IH.
  Qed.

  Lemma Rroot__set_raw_node n t r t' : _set_raw_node H BNH n t = (r, t') -> t_root t' = t_root t.
  Proof. apply (mrel_run Rroot). apply (mrel__set_raw_node Rroot Rroot_refl Rroot_trans Rroot_sdv). Qed.

  (* E. a failing commit on a non-pruning trie leaves the root alone *)
  Theorem C05_commit_fail_root outer inner e t' :
    t_prune outer = false ->
    batch_commit H BNH outer inner = (Err e, t') -> t_root t' = t_root outer.
  Proof.
    intros Hpr E. unfold batch_commit in E.
    destruct (commit_db outer inner) as [db' [e0|]].
    - injection E as _ <-. reflexivity.
    - cbv beta iota in E. rewrite Hpr in E.
      destruct (negb (bytes_eqb (t_root outer) (t_root inner))).
      + destruct (get_node BNH (RStr (t_root inner)) (with_db outer db'))
          as [[raw|e1] tx].
        * destruct (_set_raw_node H BNH raw (with_db outer db'))
            as [[h|e2] outer2] eqn:Es; [discriminate E|].
          injection E as _ <-. rewrite (Rroot__set_raw_node _ _ _ _ Es). reflexivity.
        * destruct (key_error_hash e1); [discriminate E|]. injection E as _ <-. reflexivity.
      + discriminate E.
  Qed.

  Lemma batch_commit_ao outer inner sc s0 :
    t_prune outer = false -> t_db outer = DPlain s0 ->
    t_db inner = DScratch sc -> wrapped sc = outer_store outer -> cache_ok (cache sc) ->
    ao outer (snd (batch_commit H BNH outer inner)).
  Proof.
    intros Hpr Hdo Hdi Hw Hc. unfold batch_commit, commit_db, inner_scratch. rewrite Hdo, Hdi, Hpr.
    unfold scommit. rewrite Hw.
    pose proof (apply_cache_app_only _ Hc (outer_store outer)) as Ha.
    destruct (apply_cache false (cache sc) (outer_store outer)) as [w err]. cbn [fst wrapped] in *.
    pose proof (ao_with_db outer w Ha) as H1.
    destruct err as [e0|]; [exact H1|]. cbv beta iota.
    destruct (negb (bytes_eqb (t_root outer) (t_root inner))); [|exact H1].
    destruct (get_node BNH (RStr (t_root inner)) (with_db outer (DPlain w))) as [[raw|e1] tx].
    - pose proof (mrel__set_raw_node ao ao_refl ao_trans ao_sdv raw (with_db outer (DPlain w))) as H2.
      destruct (_set_raw_node H BNH raw (with_db outer (DPlain w))) as [[h|e2] outer2];
        cbn [snd] in *.
      + eapply ao_trans; [exact H1|]. eapply ao_trans; [exact H2|apply ao_root].
      + eapply ao_trans; [exact H1|exact H2].
    - destruct (key_error_hash e1); cbn [snd]; [|exact H1].
      eapply ao_trans; [exact H1|apply ao_root].
  Qed.

  Theorem C04_append_only_batch outer s ops r t' :
    t_prune outer = false -> t_pending outer = None -> t_db outer = DPlain s ->
    batch_commit H BNH outer (drun ops (batch_begin outer)) = (r, t') ->
    (exists s', t_db t' = DPlain s' /\
       (forall h b, aget (cells s) h = Some b ->
                    aget (cells s') h = Some b \/ (exists b', aget (cells s') h = Some b' /\ h = H b')) /\
       (forall h b, aget (cells s') h = Some b -> aget (cells s) h = Some b \/ h = H b)) /\
    t_prune t' = false /\ t_refc t' = t_refc outer /\ t_pending t' = None /\
    (forall e, r = Err e -> t_root t' = t_root outer).
  Proof.
    intros Hpr Hpe Hd E.
    destruct (batch_inner ops outer s Hd) as (sc & H1 & H2 & H3).
    assert (Hao : ao outer t').
    { replace t' with (snd (batch_commit H BNH outer (drun ops (batch_begin outer))))
        by (rewrite E; reflexivity).
      apply (batch_commit_ao outer _ sc s Hpr Hd H1); [|exact H3].
      unfold outer_store. rewrite Hd. exact H2. }
    pose proof (ao_post outer s t' Hpr Hpe Hd Hao) as (Hp1 & Hp2 & Hp3 & Hp4).
    split; [exact Hp1|]. repeat (split; [assumption|]).
    intros e ->. exact (C05_commit_fail_root outer _ e t' Hpr E).
  Qed.
End Safety.

(* ================================================================== *)
(* The hypothesis of part C holds for the real hash function *)
From PyTrie.Base Require Import Keccak.

Lemma keccak256_nonblank b : keccak256 b <> [].
Proof.
  unfold keccak256.
  destruct (absorb_all (S (Nat.div (length (kpad b)) 136)) kzero (kpad b)).
  cbn [squeeze le_bytes app]. discriminate.
Qed.

(* C07 for the implementation's hash: no extra hypothesis is left *)
Theorem C07_atomic_set_keccak BNH k v t e t' :
  t_pending t = None -> set keccak256 BNH k v t = (Err e, t') ->
  exn_tag e = T_MissingTrieNode -> t' = t.
Proof. exact (C07_atomic_set keccak256 BNH keccak256_nonblank k v t e t'). Qed.

Theorem C07_atomic_delete_keccak BNH k t e t' :
  t_pending t = None -> delete keccak256 BNH k t = (Err e, t') ->
  exn_tag e = T_MissingTrieNode -> t' = t.
Proof. exact (C07_atomic_delete keccak256 BNH keccak256_nonblank k t e t'). Qed.

Theorem C07_report_set_keccak BNH k v t e t' :
  t_pending t = None -> set keccak256 BNH k v t = (Err e, t') ->
  exn_tag e = T_MissingTrieNode -> exists h, e = EMissingTrieNode h (t_root t) k None.
Proof. exact (C07_report_set keccak256 BNH keccak256_nonblank k v t e t'). Qed.

Theorem C07_report_delete_keccak BNH k t e t' :
  t_pending t = None -> delete keccak256 BNH k t = (Err e, t') ->
  exn_tag e = T_MissingTrieNode -> exists h, e = EMissingTrieNode h (t_root t) k None.
Proof. exact (C07_report_delete keccak256 BNH keccak256_nonblank k t e t'). Qed.

(* Why C07 needs [forall b, H b <> []] over an abstract H: with the degenerate H = (fun _ => [])
   the reference of a freshly persisted node is read as BLANK, the parent branch gets
   normalized *after* the write, and the sibling it needs is missing. *)
Module C07_degenerate_H.
  Definition Hz (_ : bytes) : bytes := [].
  Definition R0 : bytes := repeat_byte x01 32.
  Definition h0 : bytes := repeat_byte x02 32.
  Definition h1 : bytes := repeat_byte x03 32.     (* not in the database *)
  Definition leaf (v : byte) : item := RList [RStr [x20]; RStr [v]].
  Definition B0 : item :=
    RList (list_set (list_set (list_set (repeat BLANK 17) 5 (leaf x76)) 6 (leaf x77))
                    16 (RStr (repeat_byte x61 40))).
  Definition Broot : item :=
    RList (list_set (list_set (repeat BLANK 17) 0 (RStr h0)) 1 (RStr h1)).
  Definition t0 : trie :=
    mkTrie (DPlain (store_of [(R0, rlp_encode Broot); (h0, rlp_encode B0)])) R0 false [] None.

  Lemma C07_fails_for_degenerate_H :
    exists e t', delete Hz [x00] [x05] t0 = (Err e, t') /\
                 exn_tag e = T_MissingTrieNode /\ t_pending t0 = None /\
                 store_mem (outer_store t0) [] = false /\ store_mem (outer_store t') [] = true.
  Proof.
    destruct (delete Hz [x00] [x05] t0) as [r t'] eqn:E. vm_compute in E.
    injection E as <- <-. eexists. eexists. split; [reflexivity|]. vm_compute. repeat split.
  Qed.
End C07_degenerate_H.

Print Assumptions D_reads_pure_get.
Print Assumptions D_reads_pure_exists.
Print Assumptions D_reads_pure_traverse.
Print Assumptions D_reads_pure_traverse_from.
Print Assumptions D_reads_pure_root_node.
Print Assumptions D_reads_pure_get_proof.
Print Assumptions D_reads_pure__traverse_from.
Print Assumptions D_reads_pure_regenerate_ref_count.
Print Assumptions C04_append_only_set.
Print Assumptions C04_append_only_delete.
Print Assumptions C04_append_only_run.
Print Assumptions C04_append_only_batch.
Print Assumptions C04_root_last.
Print Assumptions C07_atomic_set.
Print Assumptions C07_atomic_delete.
Print Assumptions C07_report_set.
Print Assumptions C07_report_delete.
Print Assumptions C07_atomic_set_keccak.
Print Assumptions C07_atomic_delete_keccak.
Print Assumptions C07_report_set_keccak.
Print Assumptions C07_report_delete_keccak.
Print Assumptions C05_abort_restores.
Print Assumptions C05_commit_fail_root.
Print Assumptions C07_degenerate_H.C07_fails_for_degenerate_H.
