(* Hexary/D_retry_write.v — set / delete on an incomplete database (C07, write half).

   Two tries that differ only in their plain stores, m1 ⊆ m2 ([wrel]), are run in lockstep.
   Every database write hits both stores, every read either gives the same bytes or fails on
   the smaller store only; so the two runs end with the same result and [wrel]-related states,
   or the smaller one raises MissingTrieNode for a hash it lacks and the larger one has
   (sections 1-3; the failed call changes nothing by D_safety, which needs H b <> []).
   Section 4 is the caller's retry loop: supply the reported node, call again; the number of
   keys of the complete store absent from the current one strictly decreases, every node is
   asked for once, and the loop ends with the complete-store result on a state with the same
   root and counts over a sub-store of the complete run's store.  Section 5 restates
   everything for keccak256 and for [plain m r]; section 7 evaluates the loop on a concrete
   keccak trie that misses two nodes of the key's path.

   Sections 1-5 are complete for NON-PRUNING tries.  For PRUNING tries (section 6) there is a
   third outcome: _complete_pruning turns the KeyError of "del db[k]" into ValidationError, and
   that deletion can fail on the smaller store only - after the root has been moved, so not
   atomically.  [write_outcomes_set/delete] prove that these three outcomes are the only ones
   (premise [root_ok]: the root is BLANK_NODE_HASH or at least 32 bytes long, an invariant of
   set/delete for a 32-byte hash); PruneCounterexample shows the third one with keccak256 on a
   complete store that is not content-addressed.  Not proved: that the third outcome cannot
   occur when the complete store is content-addressed with canonical bodies (then every key
   scheduled for pruning is the key some node was just read from or written to). *)
From Coq Require Import List NArith ZArith Bool Lia.
From Coq.Init Require Import Byte.
From PyTrie.Base Require Import Bytes Bytes_proofs Result AMap AMap_proofs Nibbles Rlp.
From PyTrie.Db Require Import ScratchDb.
From PyTrie.Hexary Require Import Raw D D_safety D_read D_retry.
Import ListNotations.
Open Scope N_scope.

(* the cells of the plain store a trie sits on *)
Definition tcells (t : trie) : amap bytes := cells (outer_store t).

(* ================================================================== *)
(* 1. Lockstep simulation of the write path                            *)
Section WSim.
  Variable H : bytes -> bytes.
  Variable BNH : bytes.
  (* what is known of a hash that the small store lacks and the big one has *)
  Variable G : bytes -> Prop.

  Definition rel (t1 t2 : trie) : Prop :=
    exists m1 m2,
      t_db t1 = DPlain (mkStore m1 None) /\ t_db t2 = DPlain (mkStore m2 None) /\
      sub_store m1 m2 /\
      (forall h, aget m1 h = None -> aget m2 h <> None -> G h) /\
      t_root t1 = t_root t2 /\ t_prune t1 = t_prune t2 /\ t_refc t1 = t_refc t2 /\
      t_pending t1 = t_pending t2.

  (* same result and related states *)
  Definition outA {A} (x1 x2 : result A * trie) : Prop :=
    fst x1 = fst x2 /\ rel (snd x1) (snd x2).
  (* ... or the small store lacked a node *)
  Definition out {A} (x1 x2 : result A * trie) : Prop :=
    outA x1 x2 \/ (exists h, fst x1 = Err (EKeyError h) /\ G h).

  Definition simA {A} (m : M A) : Prop := forall t1 t2, rel t1 t2 -> outA (m t1) (m t2).
  Definition sim {A} (m : M A) : Prop := forall t1 t2, rel t1 t2 -> out (m t1) (m t2).

  Lemma simA_sim {A} (m : M A) : simA m -> sim m.
  Proof. intros Hm t1 t2 Hr. left. exact (Hm t1 t2 Hr). Qed.

  Lemma simA_ret {A} (a : A) : simA (ret a).
  Proof. intros t1 t2 Hr. split; [reflexivity|exact Hr]. Qed.
  Lemma simA_fail {A} e : simA (@fail A e).
  Proof. intros t1 t2 Hr. split; [reflexivity|exact Hr]. Qed.
  Lemma simA_lift {A} (r : result A) : simA (lift r).
  Proof. intros t1 t2 Hr. split; [reflexivity|exact Hr]. Qed.

  Lemma simA_bind {A B} (m : M A) (f : A -> M B) :
    simA m -> (forall a, simA (f a)) -> simA (bind m f).
  Proof.
    intros Hm Hf t1 t2 Hr. specialize (Hm t1 t2 Hr). unfold bind, outA in *.
    destruct (m t1) as [r1 t1'], (m t2) as [r2 t2']. cbn [fst snd] in Hm.
    destruct Hm as [Hres Hr']. subst r2. destruct r1 as [a|e].
    - exact (Hf a t1' t2' Hr').
    - split; [reflexivity|exact Hr'].
  Qed.

  Lemma sim_bind {A B} (m : M A) (f : A -> M B) :
    sim m -> (forall a, sim (f a)) -> sim (bind m f).
  Proof.
    intros Hm Hf t1 t2 Hr. specialize (Hm t1 t2 Hr). unfold bind, out, outA in *.
    destruct (m t1) as [r1 t1'], (m t2) as [r2 t2']. cbn [fst snd] in Hm.
    destruct Hm as [[Hres Hr']|(h & Hres & Hg)].
    - subst r2. destruct r1 as [a|e].
      + exact (Hf a t1' t2' Hr').
      + left. split; [reflexivity|exact Hr'].
    - subst r1. right. exists h. split; [reflexivity|exact Hg].
  Qed.

  Lemma sim_ret {A} (a : A) : sim (ret a).
  Proof. apply simA_sim, simA_ret. Qed.
  Lemma sim_fail {A} e : sim (@fail A e).
  Proof. apply simA_sim, simA_fail. Qed.
  Lemma sim_lift {A} (r : result A) : sim (lift r).
  Proof. apply simA_sim, simA_lift. Qed.

  (* the prune flag is the same on both sides *)
  Lemma simA_getst_prune {B} (g : bool -> M B) :
    (forall b, simA (g b)) -> simA (bind getst (fun t => g (t_prune t))).
  Proof.
    intros Hg t1 t2 Hr. unfold bind, getst.
    assert (Hp : t_prune t1 = t_prune t2) by (destruct Hr as (m1 & m2 & _ & _ & _ & _ & _ & Hp & _); exact Hp).
    rewrite Hp. exact (Hg (t_prune t2) t1 t2 Hr).
  Qed.

  Lemma sim_getst_prune {B} (g : bool -> M B) :
    (forall b, sim (g b)) -> sim (bind getst (fun t => g (t_prune t))).
  Proof.
    intros Hg t1 t2 Hr. unfold bind, getst.
    assert (Hp : t_prune t1 = t_prune t2) by (destruct Hr as (m1 & m2 & _ & _ & _ & _ & _ & Hp & _); exact Hp).
    rewrite Hp. exact (Hg (t_prune t2) t1 t2 Hr).
  Qed.

  (* ---------------- the primitive effects ---------------- *)
  Lemma sim_db_get k : sim (db_get k).
  Proof.
    intros t1 t2 Hr. pose proof Hr as (m1 & m2 & Hd1 & Hd2 & Hsub & Hg & _).
    unfold out, outA, db_get. rewrite Hd1, Hd2. cbn [fst snd]. unfold store_get. cbn [cells].
    destruct (aget m1 k) as [v|] eqn:E1.
    - rewrite (Hsub k v E1). left. split; [reflexivity|exact Hr].
    - destruct (aget m2 k) as [v|] eqn:E2.
      + right. exists k. split; [reflexivity|]. apply Hg; [exact E1|rewrite E2; discriminate].
      + left. split; [reflexivity|exact Hr].
  Qed.

  Lemma sub_aset_both (m1 m2 : amap bytes) k v :
    sub_store m1 m2 -> sub_store (aset m1 k v) (aset m2 k v).
  Proof.
    intros Hsub x b. rewrite !aget_aset. destruct (bytes_eqb x k); [trivial|apply Hsub].
  Qed.

  Lemma gap_aset_both (m1 m2 : amap bytes) k v :
    (forall h, aget m1 h = None -> aget m2 h <> None -> G h) ->
    forall h, aget (aset m1 k v) h = None -> aget (aset m2 k v) h <> None -> G h.
  Proof.
    intros Hg h. rewrite !aget_aset. destruct (bytes_eqb h k); [discriminate|apply Hg].
  Qed.

  Lemma simA__set_db_value k v : simA (_set_db_value k v).
  Proof.
    intros t1 t2 (m1 & m2 & Hd1 & Hd2 & Hsub & Hg & Hroot & Hp & Hc & Hpd).
    destruct t1 as [d1 r1 p1 c1 q1], t2 as [d2 r2 p2 c2 q2]. cbn [t_db t_root t_prune t_refc t_pending] in *.
    subst d1 d2 r2 p2 c2 q2.
    unfold outA, _set_db_value, bind, db_set, getst, putst, ret, with_db, with_refc, store_set.
    cbn [t_db t_root t_prune t_refc t_pending budget cells fst snd].
    destruct p1; cbn [t_db t_root t_prune t_refc t_pending fst snd];
      (split; [reflexivity|]);
      exists (aset m1 k v), (aset m2 k v); cbn [t_db t_root t_prune t_refc t_pending];
      (split; [reflexivity|]); (split; [reflexivity|]);
      (split; [apply sub_aset_both; exact Hsub|]);
      (split; [apply gap_aset_both; exact Hg|]); repeat split.
  Qed.

  Lemma simA_pending_inc k : simA (pending_inc k).
  Proof.
    intros t1 t2 (m1 & m2 & Hd1 & Hd2 & Hsub & Hg & Hroot & Hp & Hc & Hpd).
    destruct t1 as [d1 r1 p1 c1 q1], t2 as [d2 r2 p2 c2 q2]. cbn [t_db t_root t_prune t_refc t_pending] in *.
    subst d1 d2 r2 p2 c2 q2.
    unfold outA, pending_inc, bind, getst, putst, fail, with_pending.
    cbn [t_db t_root t_prune t_refc t_pending fst snd].
    destruct q1 as [p|]; cbn [fst snd]; (split; [reflexivity|]);
      exists m1, m2; cbn [t_db t_root t_prune t_refc t_pending]; repeat split; assumption.
  Qed.

  Lemma simA_set_root h : simA (bind getst (fun t' => putst (with_root t' h))).
  Proof.
    intros t1 t2 (m1 & m2 & Hd1 & Hd2 & Hsub & Hg & Hroot & Hp & Hc & Hpd).
    unfold outA, bind, getst, putst. cbn [fst snd]. split; [reflexivity|].
    exists m1, m2. unfold with_root. cbn [t_db t_root t_prune t_refc t_pending].
    repeat split; assumption.
  Qed.

  Create HintDb wsim discriminated.
  Hint Resolve sim_db_get simA__set_db_value simA_pending_inc simA_set_root : wsim.

  Ltac astep :=
    cbv beta;
    match goal with
    | |- simA (ret _) => apply simA_ret
    | |- simA (fail _) => apply simA_fail
    | |- simA (lift _) => apply simA_lift
    | |- simA (bind getst (fun t => if t_prune t then ?X else ?Y)) =>
        apply (simA_getst_prune (fun b : bool => if b then X else Y)); intros []
    | |- simA (bind _ _) => apply simA_bind; [|intro]
    | |- simA (match ?x with _ => _ end) => destruct x
    | |- _ => solve [auto with wsim nocore]
    end.

  Ltac sstep :=
    cbv beta;
    match goal with
    | |- sim (ret _) => apply sim_ret
    | |- sim (fail _) => apply sim_fail
    | |- sim (lift _) => apply sim_lift
    | |- sim (bind getst (fun t => if t_prune t then ?X else ?Y)) =>
        apply (sim_getst_prune (fun b : bool => if b then X else Y)); intros []
    | |- sim (bind _ _) => apply sim_bind; [|intro]
    | |- sim (match ?x with _ => _ end) => destruct x
    | |- _ => solve [auto with wsim nocore]
    | |- _ => solve [apply simA_sim; auto with wsim nocore]
    end.

  Lemma simA_lift_bytes r : simA (lift_bytes r).
  Proof. unfold lift_bytes. repeat astep. Qed.
  Hint Resolve simA_lift_bytes : wsim.

  Lemma simA__prune_node n : simA (_prune_node H n).
  Proof. unfold _prune_node. repeat astep. Qed.
  Hint Resolve simA__prune_node : wsim.

  Lemma simA__persist_node n : simA (_persist_node H n).
  Proof. unfold _persist_node. repeat astep. Qed.
  Hint Resolve simA__persist_node : wsim.

  Lemma simA__set_raw_node n : simA (_set_raw_node H BNH n).
  Proof. unfold _set_raw_node. repeat astep. Qed.
  Hint Resolve simA__set_raw_node : wsim.

  Lemma sim_get_node ref : sim (get_node BNH ref).
  Proof. unfold get_node. repeat sstep. Qed.
  Hint Resolve sim_get_node : wsim.

  Lemma sim__normalize_branch_node n : sim (_normalize_branch_node H BNH n).
  Proof. unfold _normalize_branch_node. repeat sstep. Qed.
  Hint Resolve sim__normalize_branch_node : wsim.

  Lemma sim__set fuel : forall n k v, sim (_set H BNH fuel n k v).
  Proof. induction fuel as [|f IH]; intros n k v; cbn [_set]; repeat sstep. Qed.
  Hint Resolve sim__set : wsim.

  Lemma sim__delete fuel : forall n k, sim (_delete H BNH fuel n k).
  Proof. induction fuel as [|f IH]; intros n k; cbn [_delete]; repeat sstep. Qed.
  Hint Resolve sim__delete : wsim.

  Lemma sim_getst_root {B} (g : bytes -> M B) :
    (forall r, sim (g r)) -> sim (bind getst (fun t => g (t_root t))).
  Proof.
    intros Hg t1 t2 Hr. unfold bind, getst.
    assert (Hp : t_root t1 = t_root t2) by (destruct Hr as (m1 & m2 & _ & _ & _ & _ & Hp & _); exact Hp).
    rewrite Hp. exact (Hg (t_root t2) t1 t2 Hr).
  Qed.

  Lemma sim_set_inner key value : sim (set_inner H BNH key value).
  Proof.
    unfold set_inner.
    apply (sim_getst_root (fun r => bind (get_node BNH (RStr r)) (fun root =>
             match value with
             | [] => _delete H BNH (write_fuel key) root (bytes_to_nibbles key)
             | _ :: _ => _set H BNH (write_fuel key) root (bytes_to_nibbles key) value
             end))).
    intro r. repeat sstep.
  Qed.

  Lemma sim_delete_inner key : sim (delete_inner H BNH key).
  Proof.
    unfold delete_inner.
    apply (sim_getst_root (fun r => bind (get_node BNH (RStr r)) (fun root =>
             _delete H BNH (write_fuel key) root (bytes_to_nibbles key)))).
    intro r. repeat sstep.
  Qed.
End WSim.

(* ================================================================== *)
(* 2. set / delete of a NON-PRUNING trie on a sub-store                *)

(* the prune flag never changes *)
Definition Rprune (t t' : trie) : Prop := t_prune t' = t_prune t.
Lemma Rprune_refl t : Rprune t t.
Proof. reflexivity. Qed.
Lemma Rprune_trans a b c : Rprune a b -> Rprune b c -> Rprune a c.
Proof. unfold Rprune. congruence. Qed.

Section WTop.
  Variable H : bytes -> bytes.
  Variable BNH : bytes.

  Lemma Rprune_sdv k v : mrel Rprune (_set_db_value k v).
  Proof.
    intro t. unfold Rprune, _set_db_value, bind, db_set, getst, putst, ret.
    destruct (t_db t) as [s|sc].
    - destruct (store_set s k v) as [s'|e]; cbn [snd]; [|reflexivity].
      cbn [t_prune with_db]. destruct (t_prune t) eqn:E; cbn [snd t_prune with_refc with_db]; congruence.
    - cbn [t_prune with_db]. destruct (t_prune t) eqn:E; cbn [snd t_prune with_refc with_db]; congruence.
  Qed.

  Lemma Rprune_pinc k : mrel Rprune (pending_inc k).
  Proof. intro t. unfold Rprune, pending_inc, bind, getst. destruct (t_pending t); reflexivity. Qed.

  Lemma Rprune_root t h : Rprune t (with_root t h).
  Proof. reflexivity. Qed.

  Lemma set_inner_prune k v t r t' : set_inner H BNH k v t = (r, t') -> t_prune t' = t_prune t.
  Proof.
    apply (mrel_run Rprune).
    exact (mrel_set_inner H BNH Rprune Rprune_refl Rprune_trans (fun enc => Rprune_sdv _ _) Rprune_pinc k v).
  Qed.

  Lemma delete_inner_prune k t r t' : delete_inner H BNH k t = (r, t') -> t_prune t' = t_prune t.
  Proof.
    apply (mrel_run Rprune).
    exact (mrel_delete_inner H BNH Rprune Rprune_refl Rprune_trans (fun enc => Rprune_sdv _ _) Rprune_pinc k).
  Qed.

  Lemma set_root_node_prune n t r t' : _set_root_node H BNH n t = (r, t') -> t_prune t' = t_prune t.
  Proof.
    apply (mrel_run Rprune).
    exact (mrel__set_root_node H BNH Rprune Rprune_refl Rprune_trans (fun enc => Rprune_sdv _ _)
                               Rprune_pinc Rprune_root n).
  Qed.

  (* _set_root_node of a non-pruning trie *)
  Definition srn_np (n : item) : M unit :=
    bind (lift (validate_is_node n)) (fun _ =>
    bind (_set_raw_node H BNH n) (fun h =>
    bind getst (fun t' => putst (with_root t' h)))).

  Lemma srn_np_eq n t : t_prune t = false -> _set_root_node H BNH n t = srn_np n t.
  Proof.
    intro Hp. unfold _set_root_node, srn_np, bind at 1 3, lift.
    destruct (validate_is_node n) as [u|e]; [|reflexivity].
    unfold bind at 1, getst. rewrite Hp. reflexivity.
  Qed.

  Lemma simA_srn_np G n : simA G (srn_np n).
  Proof.
    unfold srn_np. apply simA_bind; [apply simA_lift|intros _].
    apply simA_bind; [apply simA__set_raw_node|intro h]. apply simA_set_root.
  Qed.

  (* _prune_on_success of a non-pruning trie *)
  Lemma pos_np (body : M unit) t :
    t_prune t = false -> t_prune (snd (body t)) = false ->
    _prune_on_success body t =
    (match fst (body t) with Ok _ => Ok tt | Err e => Err e end, with_pending (snd (body t)) None).
  Proof.
    intros Hp Hp'. unfold _prune_on_success. rewrite Hp.
    destruct (body t) as [[u|e] t2]; cbn [fst snd] in *; [rewrite Hp'|]; reflexivity.
  Qed.

  Lemma rel_with_pending G t1 t2 p : rel G t1 t2 -> rel G (with_pending t1 p) (with_pending t2 p).
  Proof.
    intros (m1 & m2 & Hd1 & Hd2 & Hsub & Hg & Hroot & Hp & Hc & Hpd).
    exists m1, m2. unfold with_pending. cbn [t_db t_root t_prune t_refc t_pending].
    repeat split; assumption.
  Qed.

  Section Body.
    Variable key : bytes.
    Variable inner : M item.
    Hypothesis Hsim : forall G, sim G inner.
    Hypothesis Hprune : forall t r t', inner t = (r, t') -> t_prune t' = t_prune t.

    Definition wop : M unit :=
      _prune_on_success (bind (raise_missing key inner) (fun new_node => _set_root_node H BNH new_node)).

    (* same result and related states, or a report for a hash in the gap *)
    Definition outM (G : bytes -> Prop) {A} (x1 x2 : result A * trie) : Prop :=
      outA G x1 x2 \/ (exists h r, fst x1 = Err (EMissingTrieNode h r key None) /\ G h).

    Lemma sim_raise_missing G t1 t2 : rel G t1 t2 ->
      outM G (raise_missing key inner t1) (raise_missing key inner t2).
    Proof.
      intro Hr. pose proof (Hsim G t1 t2 Hr) as Hs. unfold raise_missing, catch, outM, out, outA in *.
      destruct (inner t1) as [r1 t1'], (inner t2) as [r2 t2']. cbn [fst snd] in Hs.
      destruct Hs as [[Hres Hr']|(h & Hres & Hg)].
      - subst r2. left. destruct r1 as [a|e]; [split; [reflexivity|exact Hr']|].
        destruct (key_error_hash e) as [h|]; [|split; [reflexivity|exact Hr']].
        unfold bind, getst, fail. cbn [fst snd]. split; [|exact Hr'].
        destruct Hr' as (m1 & m2 & _ & _ & _ & _ & Hroot & _). rewrite Hroot. reflexivity.
      - subst r1. right. cbn [key_error_hash EKeyError T_KeyError].
        unfold bind, getst, fail. cbn [fst snd]. exists h, (t_root t1'). split; [reflexivity|exact Hg].
    Qed.

    Lemma raise_missing_prune t r t' : raise_missing key inner t = (r, t') -> t_prune t' = t_prune t.
    Proof.
      unfold raise_missing, catch. destruct (inner t) as [[a|e] t1] eqn:E.
      - intro Hq. injection Hq as _ <-. exact (Hprune _ _ _ E).
      - destruct (key_error_hash e) as [h|]; unfold bind, getst, fail; intro Hq;
          injection Hq as _ <-; exact (Hprune _ _ _ E).
    Qed.

    Definition wbody : M unit :=
      bind (raise_missing key inner) (fun new_node => _set_root_node H BNH new_node).

    Lemma wbody_prune t r t' : wbody t = (r, t') -> t_prune t' = t_prune t.
    Proof.
      unfold wbody, bind. destruct (raise_missing key inner t) as [[a|e] t1] eqn:E.
      - intro E2. rewrite (set_root_node_prune _ _ _ _ E2). exact (raise_missing_prune _ _ _ E).
      - intro Hq. injection Hq as _ <-. exact (raise_missing_prune _ _ _ E).
    Qed.

    Lemma sim_wbody_np G t1 t2 : rel G t1 t2 -> t_prune t1 = false ->
      outM G (wbody t1) (wbody t2).
    Proof.
      intros Hr Hp. pose proof (sim_raise_missing G t1 t2 Hr) as Hs.
      assert (Hp2 : t_prune t2 = false).
      { destruct Hr as (m1 & m2 & _ & _ & _ & _ & _ & Hpp & _). rewrite <- Hpp. exact Hp. }
      unfold wbody, bind, outM, outA in *.
      destruct (raise_missing key inner t1) as [r1 t1'] eqn:E1,
               (raise_missing key inner t2) as [r2 t2'] eqn:E2. cbn [fst snd] in Hs.
      destruct Hs as [[Hres Hr']|(h & r & Hres & Hg)].
      - subst r2. left. destruct r1 as [a|e]; [|split; [reflexivity|exact Hr']].
        rewrite (srn_np_eq a t1'), (srn_np_eq a t2').
        + exact (simA_srn_np G a t1' t2' Hr').
        + rewrite (raise_missing_prune _ _ _ E2). exact Hp2.
        + rewrite (raise_missing_prune _ _ _ E1). exact Hp.
      - subst r1. right. exists h, r. split; [reflexivity|exact Hg].
    Qed.

    Lemma sim_wop_np G t1 t2 : rel G t1 t2 -> t_prune t1 = false ->
      (fst (wop t1) = fst (wop t2) /\ rel G (snd (wop t1)) (snd (wop t2)) /\
       t_pending (snd (wop t1)) = None /\ t_pending (snd (wop t2)) = None /\
       t_prune (snd (wop t1)) = false) \/
      (exists h r, fst (wop t1) = Err (EMissingTrieNode h r key None) /\ G h).
    Proof.
      intros Hr Hp. pose proof (sim_wbody_np G t1 t2 Hr Hp) as Hs.
      assert (Hp2 : t_prune t2 = false).
      { destruct Hr as (m1 & m2 & _ & _ & _ & _ & _ & Hpp & _). rewrite <- Hpp. exact Hp. }
      assert (Hq1 : t_prune (snd (wbody t1)) = false).
      { destruct (wbody t1) as [r1 t1'] eqn:E. cbn [snd]. rewrite (wbody_prune _ _ _ E). exact Hp. }
      assert (Hq2 : t_prune (snd (wbody t2)) = false).
      { destruct (wbody t2) as [r2 t2'] eqn:E. cbn [snd]. rewrite (wbody_prune _ _ _ E). exact Hp2. }
      unfold wop. fold wbody. rewrite (pos_np wbody t1 Hp Hq1), (pos_np wbody t2 Hp2 Hq2).
      cbn [fst snd]. unfold outM, outA in Hs.
      destruct Hs as [[Hres Hr']|(h & r & Hres & Hg)].
      - left. rewrite Hres. split; [reflexivity|]. split; [apply rel_with_pending; exact Hr'|].
        split; [reflexivity|]. split; [reflexivity|]. exact Hq1.
      - right. exists h, r. rewrite Hres. split; [reflexivity|exact Hg].
    Qed.
  End Body.
End WTop.

(* ================================================================== *)
(* 3. The theorems                                                     *)

(* two tries that are the same except that the first sits on a sub-store of the second's
   (plain stores whose writes never fail); nothing pending *)
Definition wrel (t1 t2 : trie) : Prop :=
  exists m1 m2,
    t_db t1 = DPlain (mkStore m1 None) /\ t_db t2 = DPlain (mkStore m2 None) /\
    sub_store m1 m2 /\
    t_root t1 = t_root t2 /\ t_prune t1 = t_prune t2 /\ t_refc t1 = t_refc t2 /\
    t_pending t1 = None /\ t_pending t2 = None.

Definition gap (m1 m2 : amap bytes) (h : bytes) : Prop := aget m1 h = None /\ aget m2 h <> None.

Lemma wrel_rel t1 t2 : wrel t1 t2 -> rel (gap (tcells t1) (tcells t2)) t1 t2.
Proof.
  intros (m1 & m2 & Hd1 & Hd2 & Hsub & Hroot & Hp & Hc & Hq1 & Hq2).
  exists m1, m2. unfold tcells, outer_store. rewrite Hd1, Hd2. cbn [cells].
  split; [reflexivity|]. split; [reflexivity|]. split; [exact Hsub|].
  split; [intros h Hn1 Hn2; split; assumption|].
  split; [exact Hroot|]. split; [exact Hp|]. split; [exact Hc|]. congruence.
Qed.

Lemma rel_wrel G t1 t2 : rel G t1 t2 -> t_pending t1 = None -> t_pending t2 = None -> wrel t1 t2.
Proof.
  intros (m1 & m2 & Hd1 & Hd2 & Hsub & _ & Hroot & Hp & Hc & _) Hq1 Hq2.
  exists m1, m2. repeat split; assumption.
Qed.

Lemma wrel_plain m1 m2 r : sub_store m1 m2 -> wrel (plain m1 r) (plain m2 r).
Proof. intro Hsub. exists m1, m2. repeat split. exact Hsub. Qed.

Lemma wrel_cells t1 t2 : wrel t1 t2 -> sub_store (tcells t1) (tcells t2).
Proof.
  intros (m1 & m2 & Hd1 & Hd2 & Hsub & _). unfold tcells, outer_store. rewrite Hd1, Hd2. exact Hsub.
Qed.

Section WriteSameOrMissing.
  Variable H : bytes -> bytes.
  Variable BNH : bytes.
  Hypothesis H_nonblank : forall b, H b <> [].

  Lemma missing_inj h r k h' r' k' :
    EMissingTrieNode h r k None = EMissingTrieNode h' r' k' None -> h = h'.
  Proof. intro E. injection E as E _ _. exact E. Qed.

  Theorem write_same_or_missing_set k v t1 t2 : wrel t1 t2 -> t_prune t1 = false ->
    (fst (set H BNH k v t1) = fst (set H BNH k v t2) /\
     wrel (snd (set H BNH k v t1)) (snd (set H BNH k v t2)) /\
     t_prune (snd (set H BNH k v t1)) = false) \/
    (exists h, set H BNH k v t1 = (Err (EMissingTrieNode h (t_root t1) k None), t1) /\
               aget (tcells t1) h = None /\ aget (tcells t2) h <> None).
  Proof.
    intros Hw Hp.
    assert (Hq : t_pending t1 = None) by (destruct Hw as (m1 & m2 & _ & _ & _ & _ & _ & _ & Hq & _); exact Hq).
    destruct (sim_wop_np H BNH k (set_inner H BNH k v) (fun G => sim_set_inner H BNH G k v)
                (set_inner_prune H BNH k v) _ t1 t2 (wrel_rel t1 t2 Hw) Hp)
      as [(Hres & Hr & Hq1 & Hq2 & Hp')|(h & r & Hres & Hg)].
    - left. split; [exact Hres|]. split; [exact (rel_wrel _ _ _ Hr Hq1 Hq2)|exact Hp'].
    - right. change (wop H BNH k (set_inner H BNH k v)) with (set H BNH k v) in Hres.
      destruct (set H BNH k v t1) as [r1 t1'] eqn:E. cbn [fst] in Hres. subst r1.
      destruct (set_missing H BNH H_nonblank k v t1 _ t1' Hq E eq_refl) as [-> (h' & He)].
      exists h. rewrite He, <- (missing_inj _ _ _ _ _ _ He). split; [reflexivity|exact Hg].
  Qed.

  Theorem write_same_or_missing_delete k t1 t2 : wrel t1 t2 -> t_prune t1 = false ->
    (fst (delete H BNH k t1) = fst (delete H BNH k t2) /\
     wrel (snd (delete H BNH k t1)) (snd (delete H BNH k t2)) /\
     t_prune (snd (delete H BNH k t1)) = false) \/
    (exists h, delete H BNH k t1 = (Err (EMissingTrieNode h (t_root t1) k None), t1) /\
               aget (tcells t1) h = None /\ aget (tcells t2) h <> None).
  Proof.
    intros Hw Hp.
    assert (Hq : t_pending t1 = None) by (destruct Hw as (m1 & m2 & _ & _ & _ & _ & _ & _ & Hq & _); exact Hq).
    destruct (sim_wop_np H BNH k (delete_inner H BNH k) (fun G => sim_delete_inner H BNH G k)
                (delete_inner_prune H BNH k) _ t1 t2 (wrel_rel t1 t2 Hw) Hp)
      as [(Hres & Hr & Hq1 & Hq2 & Hp')|(h & r & Hres & Hg)].
    - left. split; [exact Hres|]. split; [exact (rel_wrel _ _ _ Hr Hq1 Hq2)|exact Hp'].
    - right. change (wop H BNH k (delete_inner H BNH k)) with (delete H BNH k) in Hres.
      destruct (delete H BNH k t1) as [r1 t1'] eqn:E. cbn [fst] in Hres. subst r1.
      destruct (delete_missing H BNH H_nonblank k t1 _ t1' Hq E eq_refl) as [-> (h' & He)].
      exists h. rewrite He, <- (missing_inj _ _ _ _ _ _ He). split; [reflexivity|exact Hg].
  Qed.
End WriteSameOrMissing.

(* ================================================================== *)
(* 4. The retry loop of a caller around a write                        *)

(* db[h] = b on the (plain) database the trie sits on *)
Definition supply (t : trie) (h b : bytes) : trie :=
  with_db t (DPlain (store_of (aset (tcells t) h b))).

(* on MissingTrieNode h: copy full[h] into the store and call again *)
Fixpoint retry_write (op : M unit) (fuel : nat) (full : amap bytes) (t : trie) (asked : list bytes)
  : result unit * trie * list bytes :=
  match fuel with
  | O => (Err EOutOfFuel, t, asked)
  | S f =>
      let '(res, t') := op t in
      match mh8 res with
      | Some h =>
          match aget full h with
          | Some b => retry_write op f full (supply t' h b) (asked ++ [h])
          | None => (res, t', asked)          (* the complete store lacks it too: give up *)
          end
      | None => (res, t', asked)
      end
  end.

Definition retry_set (H : bytes -> bytes) (BNH : bytes) (fuel : nat) (full : amap bytes) (t : trie)
           (k v : bytes) (asked : list bytes) :=
  retry_write (set H BNH k v) fuel full t asked.
Definition retry_delete (H : bytes -> bytes) (BNH : bytes) (fuel : nat) (full : amap bytes) (t : trie)
           (k : bytes) (asked : list bytes) :=
  retry_write (delete H BNH k) fuel full t asked.

Lemma aget_in_keys {V} (m : amap V) h : aget m h <> None -> In h (akeys m).
Proof.
  induction m as [|[k0 v0] m IH]; cbn [aget akeys map fst]; [congruence|].
  destruct (bytes_eqb h k0) eqn:E.
  - intros _. left. apply bytes_eqb_eq in E. symmetry. exact E.
  - intro Hn. right. exact (IH Hn).
Qed.

Lemma tcells_supply t h b : tcells (supply t h b) = aset (tcells t) h b.
Proof. reflexivity. Qed.

Lemma wrel_supply t1 t2 h b : wrel t1 t2 -> aget (tcells t2) h = Some b -> wrel (supply t1 h b) t2.
Proof.
  intros (m1 & m2 & Hd1 & Hd2 & Hsub & Hroot & Hp & Hc & Hq1 & Hq2) Hb.
  unfold supply, tcells, outer_store in *. rewrite Hd1. rewrite Hd2 in Hb. cbn [cells] in *.
  exists (aset m1 h b), m2. unfold with_db. cbn [t_db t_root t_prune t_refc t_pending].
  split; [reflexivity|]. split; [exact Hd2|]. split; [apply sub_aset_full; assumption|].
  repeat split; assumption.
Qed.

Lemma with_db_self t1 t2 : wrel t1 t2 -> with_db t1 (DPlain (store_of (tcells t1))) = t1.
Proof.
  intros (m1 & m2 & Hd1 & _). unfold tcells, outer_store. rewrite Hd1. cbn [cells].
  destruct t1 as [d r p c q]. cbn [t_db] in Hd1. subst d. reflexivity.
Qed.

Section RetrySpec.
  Variable op : M unit.
  Variable key : bytes.
  (* what sections 2-3 prove of set and delete *)
  Hypothesis Hstep : forall t1 t2, wrel t1 t2 -> t_prune t1 = false ->
    (fst (op t1) = fst (op t2) /\ wrel (snd (op t1)) (snd (op t2)) /\ t_prune (snd (op t1)) = false) \/
    (exists h, op t1 = (Err (EMissingTrieNode h (t_root t1) key None), t1) /\
               aget (tcells t1) h = None /\ aget (tcells t2) h <> None).

  Lemma retry_write_spec : forall fuel t1 asked0 t2,
    wrel t1 t2 -> t_prune t1 = false ->
    mh8 (fst (op t2)) = None ->
    (owed (akeys (tcells t2)) (tcells t1) < fuel)%nat ->
    exists tf new,
      retry_write op fuel (tcells t2) t1 asked0 = (fst (op t2), snd (op tf), asked0 ++ new) /\
      fst (op tf) = fst (op t2) /\
      wrel (snd (op tf)) (snd (op t2)) /\
      t_prune (snd (op tf)) = false /\
      tf = with_db t1 (DPlain (store_of (tcells tf))) /\
      wrel tf t2 /\
      (forall x, aget (tcells tf) x =
                 if existsb (bytes_eqb x) new then aget (tcells t2) x else aget (tcells t1) x) /\
      NoDup new /\
      (forall h, In h new -> aget (tcells t1) h = None /\ aget (tcells t2) h <> None) /\
      (length new <= owed (akeys (tcells t2)) (tcells t1))%nat.
  Proof.
    induction fuel as [|f IH]; intros t1 asked0 t2 Hw Hp Hnone Hlt; [lia|].
    cbn [retry_write].
    destruct (Hstep t1 t2 Hw Hp) as [(Hres & Hw' & Hp')|(h & Hop & Hn1 & Hn2)].
    - destruct (op t1) as [r1 t1'] eqn:E1. cbn [fst snd] in Hres, Hw', Hp'.
      rewrite Hres, Hnone. exists t1, []. rewrite app_nil_r, E1. cbn [fst snd].
      split; [reflexivity|]. split; [exact Hres|]. split; [exact Hw'|]. split; [exact Hp'|].
      split; [symmetry; exact (with_db_self t1 t2 Hw)|]. split; [exact Hw|].
      split; [intro x; reflexivity|]. split; [constructor|]. split; [intros h []|].
      cbn [length]. lia.
    - rewrite Hop. cbv beta iota.
      change (mh8 (Err (EMissingTrieNode h (t_root t1) key None))) with (Some h). cbv beta iota.
      destruct (aget (tcells t2) h) as [b|] eqn:Eb; [|exfalso; apply Hn2; reflexivity].
      assert (Hw2 : wrel (supply t1 h b) t2) by (apply wrel_supply; assumption).
      assert (Hp2 : t_prune (supply t1 h b) = false) by exact Hp.
      assert (Hin : In h (akeys (tcells t2))) by (apply aget_in_keys; rewrite Eb; discriminate).
      pose proof (owed_aset (akeys (tcells t2)) (tcells t1) h b Hin Hn1) as Hdec.
      assert (Hlt2 : (owed (akeys (tcells t2)) (tcells (supply t1 h b)) < f)%nat)
        by (rewrite tcells_supply; lia).
      destruct (IH (supply t1 h b) (asked0 ++ [h]) t2 Hw2 Hp2 Hnone Hlt2)
        as (tf & new & Hrun & Hres & Hwf & Hpf & Htf & Hwtf & Hfr & Hnd & Hall & Hlen).
      rewrite tcells_supply in Hfr, Hall, Hlen.
      exists tf, (h :: new).
      split; [rewrite Hrun, <- app_assoc; reflexivity|].
      split; [exact Hres|]. split; [exact Hwf|]. split; [exact Hpf|].
      split; [exact Htf|]. split; [exact Hwtf|].
      split.
      { intro x. rewrite Hfr. cbn [existsb]. rewrite aget_aset.
        destruct (bytes_eqb x h) eqn:E; cbn [orb]; [|reflexivity].
        apply bytes_eqb_eq in E. subst x. rewrite Eb.
        destruct (existsb (bytes_eqb h) new); reflexivity. }
      split.
      { constructor; [|exact Hnd]. intro Hin'. destruct (Hall h Hin') as (Hx & _).
        rewrite aget_aset, bytes_eqb_refl in Hx. discriminate Hx. }
      split.
      { intros x [Hx|Hin'].
        - subst x. split; [exact Hn1|rewrite Eb; discriminate].
        - destruct (Hall x Hin') as (Hx & Hfx). split; [|exact Hfx].
          rewrite aget_aset in Hx. destruct (bytes_eqb x h); [discriminate Hx|exact Hx]. }
      cbn [length]. lia.
  Qed.
End RetrySpec.

Section RetryTheorems.
  Variable H : bytes -> bytes.
  Variable BNH : bytes.
  Hypothesis H_nonblank : forall b, H b <> [].

  (* what a retry run from [t1] against the complete trie [t2] guarantees, [want] being the
     outcome of the write on [t2] *)
  Definition retry_write_post (op : M unit) (t1 t2 : trie)
             (out : result unit * trie * list bytes) : Prop :=
    let '(res, t', asked) := out in
    res = fst (op t2) /\                               (* the complete-database result *)
    wrel t' (snd (op t2)) /\                            (* same root, same counts, store ⊆ *)
    t_root t' = t_root (snd (op t2)) /\
    sub_store (tcells t') (tcells (snd (op t2))) /\
    NoDup asked /\                                     (* each node asked for at most once *)
    (forall h, In h asked ->                           (* only genuinely missing nodes *)
       aget (tcells t1) h = None /\ aget (tcells t2) h <> None) /\
    (length asked <= owed (akeys (tcells t2)) (tcells t1))%nat /\
    (exists tf,                                        (* the last, successful, call *)
       op tf = (res, t') /\
       tf = with_db t1 (DPlain (store_of (tcells tf))) /\
       (forall x, aget (tcells tf) x =               (* only the reported nodes were supplied *)
                  if existsb (bytes_eqb x) asked then aget (tcells t2) x else aget (tcells t1) x)).

  Lemma retry_post_of_spec op key :
    (forall t1 t2, wrel t1 t2 -> t_prune t1 = false ->
       (fst (op t1) = fst (op t2) /\ wrel (snd (op t1)) (snd (op t2)) /\ t_prune (snd (op t1)) = false) \/
       (exists h, op t1 = (Err (EMissingTrieNode h (t_root t1) key None), t1) /\
                  aget (tcells t1) h = None /\ aget (tcells t2) h <> None)) ->
    forall t1 t2, wrel t1 t2 -> t_prune t1 = false -> mh8 (fst (op t2)) = None ->
    forall fuel, (owed (akeys (tcells t2)) (tcells t1) < fuel)%nat ->
    retry_write_post op t1 t2 (retry_write op fuel (tcells t2) t1 []).
  Proof.
    intros Hstep t1 t2 Hw Hp Hnone fuel Hlt.
    destruct (retry_write_spec op key Hstep fuel t1 [] t2 Hw Hp Hnone Hlt)
      as (tf & new & Hrun & Hres & Hwf & Hpf & Htf & Hwtf & Hfr & Hnd & Hall & Hlen).
    cbn [app] in Hrun. rewrite Hrun. unfold retry_write_post.
    split; [reflexivity|]. split; [exact Hwf|].
    split; [destruct Hwf as (m1 & m2 & _ & _ & _ & Hroot & _); exact Hroot|].
    split; [exact (wrel_cells _ _ Hwf)|]. split; [exact Hnd|]. split; [exact Hall|].
    split; [exact Hlen|]. exists tf. split; [|split; [exact Htf|exact Hfr]].
    rewrite <- Hres. destruct (op tf); reflexivity.
  Qed.

  (* the write on the complete trie does not report a missing node: the loop ends with exactly
     its result, on a state with the same root and counts over a sub-store of its store *)
  Theorem C07_retry_set_gen t1 t2 k v : wrel t1 t2 -> t_prune t1 = false ->
    mh8 (fst (set H BNH k v t2)) = None ->
    forall fuel, (owed (akeys (tcells t2)) (tcells t1) < fuel)%nat ->
    retry_write_post (set H BNH k v) t1 t2 (retry_set H BNH fuel (tcells t2) t1 k v []).
  Proof.
    intros Hw Hp Hnone fuel Hlt.
    exact (retry_post_of_spec (set H BNH k v) k
             (fun a b => write_same_or_missing_set H BNH H_nonblank k v a b) t1 t2 Hw Hp Hnone fuel Hlt).
  Qed.

  Theorem C07_retry_delete_gen t1 t2 k : wrel t1 t2 -> t_prune t1 = false ->
    mh8 (fst (delete H BNH k t2)) = None ->
    forall fuel, (owed (akeys (tcells t2)) (tcells t1) < fuel)%nat ->
    retry_write_post (delete H BNH k) t1 t2 (retry_delete H BNH fuel (tcells t2) t1 k []).
  Proof.
    intros Hw Hp Hnone fuel Hlt.
    exact (retry_post_of_spec (delete H BNH k) k
             (fun a b => write_same_or_missing_delete H BNH H_nonblank k a b) t1 t2 Hw Hp Hnone fuel Hlt).
  Qed.
End RetryTheorems.

(* ================================================================== *)
(* 5. The statements for the implementation's hash and plain tries      *)
From PyTrie.Base Require Import Keccak.

Theorem C07_same_or_missing_set BNH k v t1 t2 : wrel t1 t2 -> t_prune t1 = false ->
  (fst (set keccak256 BNH k v t1) = fst (set keccak256 BNH k v t2) /\
   wrel (snd (set keccak256 BNH k v t1)) (snd (set keccak256 BNH k v t2)) /\
   t_prune (snd (set keccak256 BNH k v t1)) = false) \/
  (exists h, set keccak256 BNH k v t1 = (Err (EMissingTrieNode h (t_root t1) k None), t1) /\
             aget (tcells t1) h = None /\ aget (tcells t2) h <> None).
Proof. exact (write_same_or_missing_set keccak256 BNH keccak256_nonblank k v t1 t2). Qed.

Theorem C07_same_or_missing_delete BNH k t1 t2 : wrel t1 t2 -> t_prune t1 = false ->
  (fst (delete keccak256 BNH k t1) = fst (delete keccak256 BNH k t2) /\
   wrel (snd (delete keccak256 BNH k t1)) (snd (delete keccak256 BNH k t2)) /\
   t_prune (snd (delete keccak256 BNH k t1)) = false) \/
  (exists h, delete keccak256 BNH k t1 = (Err (EMissingTrieNode h (t_root t1) k None), t1) /\
             aget (tcells t1) h = None /\ aget (tcells t2) h <> None).
Proof. exact (write_same_or_missing_delete keccak256 BNH keccak256_nonblank k t1 t2). Qed.

(* on [plain m r] / [plain full r] *)
Theorem C07_same_or_missing_set_plain BNH m full r k v : sub_store m full ->
  (exists t1' t2', set keccak256 BNH k v (plain m r) = (fst (set keccak256 BNH k v (plain full r)), t1') /\
                   snd (set keccak256 BNH k v (plain full r)) = t2' /\
                   t_root t1' = t_root t2' /\ sub_store (tcells t1') (tcells t2') /\ wrel t1' t2') \/
  (exists h, set keccak256 BNH k v (plain m r) = (Err (EMissingTrieNode h r k None), plain m r) /\
             aget m h = None /\ aget full h <> None).
Proof.
  intro Hsub.
  destruct (C07_same_or_missing_set BNH k v (plain m r) (plain full r) (wrel_plain m full r Hsub) eq_refl)
    as [(Hres & Hw & _)|(h & Hop & Hn)].
  - left. exists (snd (set keccak256 BNH k v (plain m r))), (snd (set keccak256 BNH k v (plain full r))).
    split; [rewrite <- Hres; destruct (set keccak256 BNH k v (plain m r)); reflexivity|].
    split; [reflexivity|].
    split; [destruct Hw as (m1 & m2 & _ & _ & _ & Hroot & _); exact Hroot|].
    split; [exact (wrel_cells _ _ Hw)|exact Hw].
  - right. exists h. split; [exact Hop|exact Hn].
Qed.

Theorem C07_same_or_missing_delete_plain BNH m full r k : sub_store m full ->
  (exists t1' t2', delete keccak256 BNH k (plain m r) = (fst (delete keccak256 BNH k (plain full r)), t1') /\
                   snd (delete keccak256 BNH k (plain full r)) = t2' /\
                   t_root t1' = t_root t2' /\ sub_store (tcells t1') (tcells t2') /\ wrel t1' t2') \/
  (exists h, delete keccak256 BNH k (plain m r) = (Err (EMissingTrieNode h r k None), plain m r) /\
             aget m h = None /\ aget full h <> None).
Proof.
  intro Hsub.
  destruct (C07_same_or_missing_delete BNH k (plain m r) (plain full r) (wrel_plain m full r Hsub) eq_refl)
    as [(Hres & Hw & _)|(h & Hop & Hn)].
  - left. exists (snd (delete keccak256 BNH k (plain m r))), (snd (delete keccak256 BNH k (plain full r))).
    split; [rewrite <- Hres; destruct (delete keccak256 BNH k (plain m r)); reflexivity|].
    split; [reflexivity|].
    split; [destruct Hw as (m1 & m2 & _ & _ & _ & Hroot & _); exact Hroot|].
    split; [exact (wrel_cells _ _ Hw)|exact Hw].
  - right. exists h. split; [exact Hop|exact Hn].
Qed.

Theorem C07_retry_set BNH full m r k v : sub_store m full ->
  mh8 (fst (set keccak256 BNH k v (plain full r))) = None ->
  forall fuel, (owed (akeys full) m < fuel)%nat ->
  let '(res, t', asked) := retry_set keccak256 BNH fuel full (plain m r) k v [] in
  let '(want, tw) := set keccak256 BNH k v (plain full r) in
  res = want /\ t_root t' = t_root tw /\ sub_store (tcells t') (tcells tw) /\ wrel t' tw /\
  NoDup asked /\
  (forall h, In h asked -> aget m h = None /\ aget full h <> None) /\
  (length asked <= owed (akeys full) m)%nat /\
  (exists mf, set keccak256 BNH k v (plain mf r) = (res, t') /\
              forall x, aget mf x = if existsb (bytes_eqb x) asked then aget full x else aget m x).
Proof.
  intros Hsub Hnone fuel Hlt.
  pose proof (C07_retry_set_gen keccak256 BNH keccak256_nonblank (plain m r) (plain full r) k v
                (wrel_plain m full r Hsub) eq_refl Hnone fuel Hlt) as Hpost.
  unfold retry_write_post in Hpost.
  change (tcells (plain full r)) with full in Hpost. change (tcells (plain m r)) with m in Hpost.
  destruct (retry_set keccak256 BNH fuel full (plain m r) k v []) as [[res t'] asked].
  destruct (set keccak256 BNH k v (plain full r)) as [want tw]. cbn [fst snd] in Hpost.
  destruct Hpost as (Hres & Hw & Hroot & Hss & Hnd & Hall & Hlen & tf & Hop & Htf & Hfr).
  split; [exact Hres|]. split; [exact Hroot|]. split; [exact Hss|]. split; [exact Hw|].
  split; [exact Hnd|]. split; [exact Hall|]. split; [exact Hlen|].
  exists (tcells tf). split; [|exact Hfr].
  symmetry in Htf. change (plain (tcells tf) r = tf) in Htf. rewrite Htf. exact Hop.
Qed.

Theorem C07_retry_delete BNH full m r k : sub_store m full ->
  mh8 (fst (delete keccak256 BNH k (plain full r))) = None ->
  forall fuel, (owed (akeys full) m < fuel)%nat ->
  let '(res, t', asked) := retry_delete keccak256 BNH fuel full (plain m r) k [] in
  let '(want, tw) := delete keccak256 BNH k (plain full r) in
  res = want /\ t_root t' = t_root tw /\ sub_store (tcells t') (tcells tw) /\ wrel t' tw /\
  NoDup asked /\
  (forall h, In h asked -> aget m h = None /\ aget full h <> None) /\
  (length asked <= owed (akeys full) m)%nat /\
  (exists mf, delete keccak256 BNH k (plain mf r) = (res, t') /\
              forall x, aget mf x = if existsb (bytes_eqb x) asked then aget full x else aget m x).
Proof.
  intros Hsub Hnone fuel Hlt.
  pose proof (C07_retry_delete_gen keccak256 BNH keccak256_nonblank (plain m r) (plain full r) k
                (wrel_plain m full r Hsub) eq_refl Hnone fuel Hlt) as Hpost.
  unfold retry_write_post in Hpost.
  change (tcells (plain full r)) with full in Hpost. change (tcells (plain m r)) with m in Hpost.
  destruct (retry_delete keccak256 BNH fuel full (plain m r) k []) as [[res t'] asked].
  destruct (delete keccak256 BNH k (plain full r)) as [want tw]. cbn [fst snd] in Hpost.
  destruct Hpost as (Hres & Hw & Hroot & Hss & Hnd & Hall & Hlen & tf & Hop & Htf & Hfr).
  split; [exact Hres|]. split; [exact Hroot|]. split; [exact Hss|]. split; [exact Hw|].
  split; [exact Hnd|]. split; [exact Hall|]. split; [exact Hlen|].
  exists (tcells tf). split; [|exact Hfr].
  symmetry in Htf. change (plain (tcells tf) r = tf) in Htf. rewrite Htf. exact Hop.
Qed.

(* the fuel bound in plain words: one more than the number of entries of the complete store *)
Lemma owed_le_full (full m : amap bytes) : (owed (akeys full) m <= length full)%nat.
Proof. pose proof (owed_le (akeys full) m) as Hl. unfold akeys in Hl. rewrite map_length in Hl. exact Hl. Qed.

(* ================================================================== *)
(* 6. Pruning tries                                                    *)
(* Two more things happen when [t_prune = true].
   (a) _set_root_node looks the OLD root up again (tolerating a KeyError) and asks the database
       whether it contains it.  Both agree on the two stores unless the old root is in the gap
       without being a hashed reference - excluded by [root_ok].
   (b) _complete_pruning deletes keys from the database and turns the KeyError of a failed
       deletion into ValidationError.  On the smaller store that deletion can fail where it
       succeeds on the larger: a third outcome, and not an atomic one (see PruneCounterexample). *)
Section WSimPrune.
  Variable H : bytes -> bytes.
  Variable BNH : bytes.
  Variable G : bytes -> Prop.

  Lemma simA_catch {A} (m : M A) hd :
    simA G m -> (forall e k, hd e = Some k -> simA G k) -> simA G (catch m hd).
  Proof.
    intros Hm Hh t1 t2 Hr. specialize (Hm t1 t2 Hr). unfold catch, outA in *.
    destruct (m t1) as [r1 t1'], (m t2) as [r2 t2']. cbn [fst snd] in Hm.
    destruct Hm as [Hres Hr']. subst r2. destruct r1 as [a|e]; [split; [reflexivity|exact Hr']|].
    destruct (hd e) as [k|] eqn:E; [exact (Hh e k E t1' t2' Hr')|split; [reflexivity|exact Hr']].
  Qed.

  Lemma simA_get_node_root root : ~ G root -> simA G (get_node BNH (RStr root)).
  Proof.
    intros HG t1 t2 Hr.
    destruct (sim_get_node BNH G (RStr root) t1 t2 Hr) as [Ha|(h & Hres & Hg)]; [exact Ha|].
    exfalso. pose proof Hr as (m1 & m2 & Hd1 & _).
    rewrite (get_node_eq BNH m1 (RStr root) t1 Hd1) in Hres. cbn [fst] in Hres.
    destruct (gn_err BNH m1 _ _ Hres) as [(h' & Hrf & He & _)|(Hk & _)].
    - injection Hrf as <-. injection He as ->. exact (HG Hg).
    - discriminate Hk.
  Qed.

  Lemma simA_db_contains root : ~ G root -> simA G (db_contains root).
  Proof.
    intros HG t1 t2 Hr. pose proof Hr as (m1 & m2 & Hd1 & Hd2 & Hsub & Hg & _).
    unfold outA, db_contains. rewrite Hd1, Hd2. cbn [fst snd]. split; [|exact Hr]. f_equal.
    unfold store_mem, amem. cbn [cells]. destruct (aget m1 root) as [b|] eqn:E1.
    - rewrite (Hsub _ _ E1). reflexivity.
    - destruct (aget m2 root) as [b|] eqn:E2; [|reflexivity].
      exfalso. apply HG, Hg; [exact E1|rewrite E2; discriminate].
  Qed.

  (* the part of _set_root_node that a pruning trie runs on its old root *)
  Definition old_root_part (old : bytes) : M unit :=
    bind (catch (bind (get_node BNH (RStr old)) (fun n => ret (Some n)))
                (fun e => match key_error_hash e with
                          | Some _ => Some (ret None)
                          | None => None
                          end))
         (fun r => match r with
                   | None => ret tt
                   | Some old_root_node =>
                       bind (lift (node_to_db_mapping H old_root_node)) (fun x =>
                         match x with
                         | (_, body) =>
                             bind (db_contains old) (fun present =>
                               match body with
                               | None => if present then pending_inc old else ret tt
                               | Some _ => ret tt
                               end)
                         end)
                   end).

  Lemma simA_old_root_part old : ~ G old -> simA G (old_root_part old).
  Proof.
    intro HG. unfold old_root_part. apply simA_bind.
    - apply simA_catch.
      + apply simA_bind; [apply simA_get_node_root; exact HG|intro n; apply simA_ret].
      + intros e k Hk. destruct (key_error_hash e); [|discriminate Hk].
        injection Hk as <-. apply simA_ret.
    - intros [orn|]; [|apply simA_ret].
      apply simA_bind; [apply simA_lift|intros [k0 body]].
      apply simA_bind; [apply simA_db_contains; exact HG|intro present].
      destruct body as [b|]; [apply simA_ret|].
      destruct present; [apply simA_pending_inc|apply simA_ret].
  Qed.

  Definition srn_with (n : item) (pr : bool) (old : bytes) : M unit :=
    bind (lift (validate_is_node n)) (fun _ =>
    bind (if pr then if negb (bytes_eqb old BNH) then old_root_part old else ret tt else ret tt) (fun _ =>
    bind (_set_raw_node H BNH n) (fun h =>
    bind getst (fun t' => putst (with_root t' h))))).

  Lemma srn_with_eq n t : _set_root_node H BNH n t = srn_with n (t_prune t) (t_root t) t.
  Proof.
    unfold _set_root_node, srn_with, bind at 1 5, lift.
    destruct (validate_is_node n) as [u|e]; reflexivity.
  Qed.

  Lemma simA_srn_with n pr old : (pr = false \/ old = BNH \/ ~ G old) -> simA G (srn_with n pr old).
  Proof.
    intro Hc. unfold srn_with. apply simA_bind; [apply simA_lift|intros _].
    apply simA_bind; [|intros _; apply simA_bind; [apply simA__set_raw_node|intro h; apply simA_set_root]].
    destruct pr; [|apply simA_ret].
    destruct (bytes_eqb old BNH) eqn:Eb; cbn [negb]; [apply simA_ret|].
    apply simA_old_root_part. destruct Hc as [Hc|[Hc|Hc]]; [discriminate Hc| |exact Hc].
    subst old. rewrite bytes_eqb_refl in Eb. discriminate Eb.
  Qed.

  Lemma outA__set_root_node n t1 t2 : rel G t1 t2 ->
    (t_prune t1 = false \/ t_root t1 = BNH \/ ~ G (t_root t1)) ->
    outA G (_set_root_node H BNH n t1) (_set_root_node H BNH n t2).
  Proof.
    intros Hr Hc. rewrite !srn_with_eq.
    pose proof Hr as (m1 & m2 & _ & _ & _ & _ & Hroot & Hp & _). rewrite <- Hroot, <- Hp.
    exact (simA_srn_with n _ _ Hc t1 t2 Hr).
  Qed.

  (* ---- _complete_pruning: the third outcome ---- *)
  Definition outC {A} (x1 x2 : result A * trie) : Prop :=
    outA G x1 x2 \/ (exists k, fst x1 = Err EValidation /\ G k).
  Definition simC {A} (m : M A) : Prop := forall t1 t2, rel G t1 t2 -> outC (m t1) (m t2).

  Lemma simA_simC {A} (m : M A) : simA G m -> simC m.
  Proof. intros Hm t1 t2 Hr. left. exact (Hm t1 t2 Hr). Qed.

  Lemma simC_bind {A B} (m : M A) (f : A -> M B) :
    simC m -> (forall a, simC (f a)) -> simC (bind m f).
  Proof.
    intros Hm Hf t1 t2 Hr. specialize (Hm t1 t2 Hr). unfold bind, outC, outA in *.
    destruct (m t1) as [r1 t1'], (m t2) as [r2 t2']. cbn [fst snd] in Hm.
    destruct Hm as [[Hres Hr']|(h & Hres & Hg)].
    - subst r2. destruct r1 as [a|e].
      + exact (Hf a t1' t2' Hr').
      + left. split; [reflexivity|exact Hr'].
    - subst r1. right. exists h. split; [reflexivity|exact Hg].
  Qed.

  Lemma sub_adel_both (m1 m2 : amap bytes) k : sub_store m1 m2 -> sub_store (adel m1 k) (adel m2 k).
  Proof.
    intros Hsub x b. rewrite !aget_adel. destruct (bytes_eqb x k); [discriminate|apply Hsub].
  Qed.

  Lemma simC_del k :
    simC (catch (bind (db_del k) (fun _ => ret 0%Z))
                (fun e => match key_error_hash e with
                          | Some _ => Some (fail EValidation)
                          | None => None
                          end)).
  Proof.
    intros t1 t2 Hr. pose proof Hr as (m1 & m2 & Hd1 & Hd2 & Hsub & Hg & Hroot & Hp & Hc & Hpd).
    unfold outC, outA, catch, bind, db_del, ret, fail. rewrite Hd1, Hd2.
    unfold store_del, amem. cbn [cells budget].
    destruct (aget m1 k) as [b|] eqn:E1.
    - rewrite (Hsub _ _ E1). cbn [fst snd]. left. split; [reflexivity|].
      exists (adel m1 k), (adel m2 k). unfold with_db. cbn [t_db t_root t_prune t_refc t_pending].
      split; [reflexivity|]. split; [reflexivity|]. split; [apply sub_adel_both; exact Hsub|].
      split; [|repeat split; assumption].
      intros h. rewrite !aget_adel. destruct (bytes_eqb h k); [intros _ Hx; contradiction|apply Hg].
    - destruct (aget m2 k) as [b|] eqn:E2.
      + right. exists k. cbn [key_error_hash EKeyError T_KeyError fst]. split; [reflexivity|].
        apply Hg; [exact E1|rewrite E2; discriminate].
      + left. cbn [key_error_hash EKeyError T_KeyError fst snd]. split; [reflexivity|exact Hr].
  Qed.

  Lemma simC_getst_refc {B} (g : amap Z -> M B) :
    (forall c, simC (g c)) -> simC (bind getst (fun t => g (t_refc t))).
  Proof.
    intros Hg t1 t2 Hr. unfold bind, getst.
    assert (Hp : t_refc t1 = t_refc t2) by (destruct Hr as (m1 & m2 & _ & _ & _ & _ & _ & _ & Hp & _); exact Hp).
    rewrite Hp. exact (Hg (t_refc t2) t1 t2 Hr).
  Qed.

  Lemma rel_with_refc t1 t2 (x : amap Z -> amap Z) :
    rel G t1 t2 -> rel G (with_refc t1 (x (t_refc t1))) (with_refc t2 (x (t_refc t2))).
  Proof.
    intros (m1 & m2 & Hd1 & Hd2 & Hsub & Hg & Hroot & Hp & Hc & Hpd).
    exists m1, m2. unfold with_refc. cbn [t_db t_root t_prune t_refc t_pending]. rewrite Hc.
    repeat split; assumption.
  Qed.

  Lemma simC_refc_step (c : bool) (x y : amap Z -> amap Z) (kont : M unit) :
    simC kont ->
    simC (bind getst (fun t' => bind (if c then putst (with_refc t' (x (t_refc t')))
                                      else putst (with_refc t' (y (t_refc t')))) (fun _ : unit => kont))).
  Proof.
    intros Hk t1 t2 Hr. unfold bind, getst. destruct c; unfold putst; apply Hk; apply rel_with_refc; exact Hr.
  Qed.

  Lemma simC_loop p : simC (complete_pruning_loop p).
  Proof.
    induction p as [|[k n] p IH]; cbn [complete_pruning_loop]; [apply simA_simC, simA_ret|].
    apply (simC_getst_refc (fun c =>
             bind (if ((zget c k - n) <=? 0)%Z
                   then catch (bind (db_del k) (fun _ => ret 0%Z))
                              (fun e => match key_error_hash e with
                                        | Some _ => Some (fail EValidation)
                                        | None => None
                                        end)
                   else ret (zget c k - n)%Z)
                  (fun nc' => bind getst (fun t' =>
                     bind (if (nc' =? 0)%Z then putst (with_refc t' (adel (t_refc t') k))
                           else putst (with_refc t' (aset (t_refc t') k nc')))
                          (fun _ => complete_pruning_loop p))))).
    intro c. apply simC_bind.
    - destruct ((zget c k - n) <=? 0)%Z; [apply simC_del|apply simA_simC, simA_ret].
    - intro nc'. exact (simC_refc_step _ (fun c0 => adel c0 k) (fun c0 => aset c0 k nc') _ IH).
  Qed.

  Lemma simC__complete_pruning : simC _complete_pruning.
  Proof.
    intros t1 t2 Hr. unfold _complete_pruning, bind, getst.
    assert (Hp : t_pending t1 = t_pending t2) by (destruct Hr as (m1 & m2 & _ & _ & _ & _ & _ & _ & _ & Hp); exact Hp).
    rewrite Hp. destruct (t_pending t2) as [p|]; [exact (simC_loop p t1 t2 Hr)|].
    left. split; [reflexivity|exact Hr].
  Qed.
End WSimPrune.

(* the root is BLANK_NODE_HASH or at least looks like a hash *)
Definition root_ok (BNH : bytes) (t : trie) : Prop :=
  t_root t = BNH \/ (32 <= length (t_root t))%nat.

Lemma Rroot_del k : mrel Rroot (db_del k).
Proof.
  intro t. unfold Rroot, db_del. destruct (t_db t) as [s|sc]; [|reflexivity].
  destruct (store_del s k); reflexivity.
Qed.
Lemma Rroot_refc t c : Rroot t (with_refc t c).
Proof. reflexivity. Qed.

Section WTopPrune.
  Variable H : bytes -> bytes.
  Variable BNH : bytes.

  Section Body.
    Variable key : bytes.
    Variable inner : M item.
    Hypothesis Hsim : forall G, sim G inner.
    Hypothesis Hprune : forall t r t', inner t = (r, t') -> t_prune t' = t_prune t.
    Hypothesis Hrootp : forall t r t', inner t = (r, t') -> t_root t' = t_root t.
    (* the first thing [inner] does is to resolve the root reference *)
    Hypothesis Hfirst : forall t h,
      fst (get_node BNH (RStr (t_root t)) t) = Err (EKeyError h) -> inner t = (Err (EKeyError h), t).

    Lemma raise_missing_root t r t' : raise_missing key inner t = (r, t') -> t_root t' = t_root t.
    Proof.
      unfold raise_missing, catch. destruct (inner t) as [[a|e] t1] eqn:E.
      - intro Hq. injection Hq as _ <-. exact (Hrootp _ _ _ E).
      - destruct (key_error_hash e) as [h|]; unfold bind, getst, fail; intro Hq;
          injection Hq as _ <-; exact (Hrootp _ _ _ E).
    Qed.

    Lemma sim_wbody_gen G t1 t2 : rel G t1 t2 ->
      (t_prune t1 = false \/ t_root t1 = BNH \/ ~ G (t_root t1)) ->
      outM key G (wbody H BNH key inner t1) (wbody H BNH key inner t2).
    Proof.
      intros Hr Hc. pose proof (sim_raise_missing key inner Hsim G t1 t2 Hr) as Hs.
      unfold wbody, bind, outM, outA in *.
      destruct (raise_missing key inner t1) as [r1 t1'] eqn:E1,
               (raise_missing key inner t2) as [r2 t2'] eqn:E2. cbn [fst snd] in Hs.
      destruct Hs as [[Hres Hr']|(h & r & Hres & Hg)].
      - subst r2. left. destruct r1 as [a|e]; [|split; [reflexivity|exact Hr']].
        apply outA__set_root_node; [exact Hr'|].
        rewrite (raise_missing_prune key inner Hprune _ _ _ E1), (raise_missing_root _ _ _ E1).
        exact Hc.
      - subst r1. right. exists h, r. split; [reflexivity|exact Hg].
    Qed.

    (* all three outcomes, for a trie of either kind *)
    Lemma sim_wop_gen G t1 t2 : rel G t1 t2 ->
      (t_prune t1 = false \/ t_root t1 = BNH \/ ~ G (t_root t1)) ->
      (fst (wop H BNH key inner t1) = fst (wop H BNH key inner t2) /\
       rel G (snd (wop H BNH key inner t1)) (snd (wop H BNH key inner t2)) /\
       t_pending (snd (wop H BNH key inner t1)) = None /\
       t_pending (snd (wop H BNH key inner t2)) = None /\
       t_prune (snd (wop H BNH key inner t1)) = t_prune t1) \/
      (exists h r, fst (wop H BNH key inner t1) = Err (EMissingTrieNode h r key None) /\ G h) \/
      (exists h, t_prune t1 = true /\ fst (wop H BNH key inner t1) = Err EValidation /\ G h).
    Proof.
      intros Hr Hc.
      assert (Hpp : t_prune t1 = t_prune t2) by (destruct Hr as (m1 & m2 & _ & _ & _ & _ & _ & Hpp & _); exact Hpp).
      unfold wop. fold (wbody H BNH key inner). unfold _prune_on_success. rewrite <- Hpp.
      set (s1 := if t_prune t1 then with_pending t1 (Some []) else t1).
      set (s2 := if t_prune t1 then with_pending t2 (Some []) else t2).
      assert (Hrs : rel G s1 s2).
      { subst s1 s2. destruct (t_prune t1); [apply rel_with_pending|]; exact Hr. }
      assert (Hps : t_prune s1 = t_prune t1)
        by (subst s1; destruct (t_prune t1) eqn:E0; cbn [t_prune with_pending]; congruence).
      assert (Hroots : t_root s1 = t_root t1) by (subst s1; destruct (t_prune t1); reflexivity).
      assert (Hcs : t_prune s1 = false \/ t_root s1 = BNH \/ ~ G (t_root s1)) by (rewrite Hps, Hroots; exact Hc).
      pose proof (sim_wbody_gen G s1 s2 Hrs Hcs) as Hs. unfold outM, outA in Hs.
      destruct (wbody H BNH key inner s1) as [r1 t1'] eqn:E1,
               (wbody H BNH key inner s2) as [r2 t2'] eqn:E2. cbn [fst snd] in Hs.
      destruct Hs as [[Hres Hr']|(h & r & Hres & Hg)].
      - subst r2.
        assert (Hp1 : t_prune t1' = t_prune t1).
        { rewrite (wbody_prune H BNH key inner Hprune _ _ _ E1). exact Hps. }
        assert (Hp2 : t_prune t2' = t_prune t1).
        { destruct Hr' as (m1 & m2 & _ & _ & _ & _ & _ & Hq & _). rewrite <- Hq. exact Hp1. }
        destruct r1 as [u|e].
        + rewrite Hp1, Hp2. destruct (t_prune t1) eqn:Ep.
          * pose proof (simC__complete_pruning G t1' t2' Hr') as Hcp. unfold outC, outA in Hcp.
            pose proof (mrel__complete_pruning Rprune Rprune_refl Rprune_trans) as Hpr.
            destruct (_complete_pruning t1') as [r3 t3] eqn:E3, (_complete_pruning t2') as [r4 t4] eqn:E4.
            cbn [fst snd] in *.
            destruct Hcp as [[Hres Hr3]|(h & Hres & Hg)].
            -- left. split; [exact Hres|]. split; [apply rel_with_pending; exact Hr3|].
               split; [reflexivity|]. split; [reflexivity|].
               cbn [t_prune with_pending].
               assert (Hx : Rprune t1' t3).
               { apply (mrel_run Rprune _ _ _ _ (Hpr ltac:(intros k0 t0; unfold Rprune, db_del;
                     destruct (t_db t0) as [s|sc]; [destruct (store_del s k0)|]; reflexivity)
                     ltac:(intros t0 c0; reflexivity)) E3). }
               unfold Rprune in Hx. congruence.
            -- right. right. exists h. split; [reflexivity|]. split; [exact Hres|exact Hg].
          * cbn [fst snd]. left. split; [reflexivity|]. split; [apply rel_with_pending; exact Hr'|].
            split; [reflexivity|]. split; [reflexivity|]. exact Hp1.
        + cbn [fst snd]. left. split; [reflexivity|]. split; [apply rel_with_pending; exact Hr'|].
          split; [reflexivity|]. split; [reflexivity|]. exact Hp1.
      - subst r1. right. left. exists h, r. cbn [fst]. split; [reflexivity|exact Hg].
    Qed.

    (* the root reference itself is a missing hashed node *)
    Lemma wop_first_missing t m h : t_db t = DPlain (store_of m) -> t_root t = h ->
      hashed BNH h -> aget m h = None ->
      exists r, fst (wop H BNH key inner t) = Err (EMissingTrieNode h r key None).
    Proof.
      intros Hd Hroot Hh Hn. unfold wop, _prune_on_success.
      set (s := if t_prune t then with_pending t (Some []) else t).
      assert (Hds : on m s) by (subst s; destruct (t_prune t); exact Hd).
      assert (Hrs : t_root s = h) by (subst s; destruct (t_prune t); exact Hroot).
      assert (Hi : inner s = (Err (EKeyError h), s)).
      { apply Hfirst. rewrite (get_node_eq BNH m _ s Hds), Hrs, (gn_hashed BNH m h Hh), Hn. reflexivity. }
      unfold bind, raise_missing, catch. rewrite Hi.
      cbn [key_error_hash EKeyError T_KeyError]. unfold bind, getst, fail. cbn [fst].
      exists (t_root s). reflexivity.
    Qed.
  End Body.
End WTopPrune.

Section WriteOutcomes.
  Variable H : bytes -> bytes.
  Variable BNH : bytes.
  Hypothesis H_nonblank : forall b, H b <> [].

  Section Body.
    Variable key : bytes.
    Variable inner : M item.
    Hypothesis Hsim : forall G, sim G inner.
    Hypothesis Hprune : forall t r t', inner t = (r, t') -> t_prune t' = t_prune t.
    Hypothesis Hrootp : forall t r t', inner t = (r, t') -> t_root t' = t_root t.
    Hypothesis Hfirst : forall t h,
      fst (get_node BNH (RStr (t_root t)) t) = Err (EKeyError h) -> inner t = (Err (EKeyError h), t).
    Hypothesis Hmiss : forall t e t', t_pending t = None ->
      wop H BNH key inner t = (Err e, t') -> exn_tag e = T_MissingTrieNode ->
      t' = t /\ exists h, e = EMissingTrieNode h (t_root t) key None.

    Lemma missing_atomic t1 h r : t_pending t1 = None ->
      fst (wop H BNH key inner t1) = Err (EMissingTrieNode h r key None) ->
      wop H BNH key inner t1 = (Err (EMissingTrieNode h (t_root t1) key None), t1).
    Proof.
      intros Hq Hres. destruct (wop H BNH key inner t1) as [r1 t1'] eqn:E. cbn [fst] in Hres. subst r1.
      destruct (Hmiss t1 _ t1' Hq E eq_refl) as [-> (h' & He)].
      rewrite He, <- (missing_inj _ _ _ _ _ _ He). reflexivity.
    Qed.

    Theorem write_outcomes t1 t2 : wrel t1 t2 -> (t_prune t1 = false \/ root_ok BNH t1) ->
      (fst (wop H BNH key inner t1) = fst (wop H BNH key inner t2) /\
       wrel (snd (wop H BNH key inner t1)) (snd (wop H BNH key inner t2)) /\
       t_prune (snd (wop H BNH key inner t1)) = t_prune t1) \/
      (exists h, wop H BNH key inner t1 = (Err (EMissingTrieNode h (t_root t1) key None), t1) /\
                 aget (tcells t1) h = None /\ aget (tcells t2) h <> None) \/
      (exists h, t_prune t1 = true /\ fst (wop H BNH key inner t1) = Err EValidation /\
                 aget (tcells t1) h = None /\ aget (tcells t2) h <> None).
    Proof.
      intros Hw Hok.
      assert (Hq : t_pending t1 = None) by (destruct Hw as (m1 & m2 & _ & _ & _ & _ & _ & _ & Hq & _); exact Hq).
      pose proof (wrel_rel t1 t2 Hw) as Hr. set (G0 := gap (tcells t1) (tcells t2)) in *.
      (* the generic conclusion from a run of sim_wop_gen with any G that implies G0 *)
      assert (Hfin : forall G : bytes -> Prop, (forall h, G h -> G0 h) -> rel G t1 t2 ->
                (t_prune t1 = false \/ t_root t1 = BNH \/ ~ G (t_root t1)) ->
                (fst (wop H BNH key inner t1) = fst (wop H BNH key inner t2) /\
                 wrel (snd (wop H BNH key inner t1)) (snd (wop H BNH key inner t2)) /\
                 t_prune (snd (wop H BNH key inner t1)) = t_prune t1) \/
                (exists h, wop H BNH key inner t1 = (Err (EMissingTrieNode h (t_root t1) key None), t1) /\
                           aget (tcells t1) h = None /\ aget (tcells t2) h <> None) \/
                (exists h, t_prune t1 = true /\ fst (wop H BNH key inner t1) = Err EValidation /\
                           aget (tcells t1) h = None /\ aget (tcells t2) h <> None)).
      { intros G HG HrG Hc.
        destruct (sim_wop_gen H BNH key inner Hsim Hprune Hrootp G t1 t2 HrG Hc)
          as [(Hres & Hr' & Hq1 & Hq2 & Hp')|[(h & r & Hres & Hg)|(h & Hp' & Hres & Hg)]].
        - left. split; [exact Hres|]. split; [exact (rel_wrel _ _ _ Hr' Hq1 Hq2)|exact Hp'].
        - right. left. exists h. split; [exact (missing_atomic t1 h r Hq Hres)|exact (HG h Hg)].
        - right. right. exists h. split; [exact Hp'|]. split; [exact Hres|exact (HG h Hg)]. }
      destruct Hok as [Hnp|[Hb|Hl]].
      - apply (Hfin G0 (fun h Hg => Hg) Hr). left. exact Hnp.
      - apply (Hfin G0 (fun h Hg => Hg) Hr). right. left. exact Hb.
      - destruct (bytes_eqb (t_root t1) BNH) eqn:Eb.
        { apply bytes_eqb_eq in Eb. apply (Hfin G0 (fun h Hg => Hg) Hr). right. left. exact Eb. }
        assert (Hh : hashed BNH (t_root t1)).
        { split; [intro Hx; rewrite Hx in Hl; cbn [length] in Hl; lia|]. split; [exact Eb|].
          apply Nat.ltb_ge. exact Hl. }
        pose proof Hw as (m1 & m2 & Hd1 & Hd2 & Hsub & _).
        assert (Hc1 : tcells t1 = m1) by (unfold tcells, outer_store; rewrite Hd1; reflexivity).
        assert (Hc2 : tcells t2 = m2) by (unfold tcells, outer_store; rewrite Hd2; reflexivity).
        assert (Hdec : G0 (t_root t1) \/ ~ G0 (t_root t1)).
        { unfold G0, gap. destruct (aget (tcells t1) (t_root t1)) as [b|];
            [right; intros [Hx _]; discriminate Hx|].
          destruct (aget (tcells t2) (t_root t1)) as [b|];
            [left; split; [reflexivity|discriminate]|right; intros [_ Hx]; apply Hx; reflexivity]. }
        destruct Hdec as [Hin|Hout].
        + (* the root itself is missing *)
          right. left. exists (t_root t1).
          destruct Hin as [Hn1 Hn2]. rewrite Hc1 in Hn1.
          destruct (wop_first_missing H BNH key inner Hfirst t1 m1 (t_root t1) Hd1 eq_refl Hh Hn1) as (r & Hres).
          split; [exact (missing_atomic t1 _ r Hq Hres)|]. split; [rewrite Hc1; exact Hn1|exact Hn2].
        + apply (Hfin (fun h => G0 h /\ h <> t_root t1)).
          * intros h [Hg _]. exact Hg.
          * destruct Hr as (n1 & n2 & He1 & He2 & Hs & Hg & Hrest). exists n1, n2.
            split; [exact He1|]. split; [exact He2|]. split; [exact Hs|]. split; [|exact Hrest].
            intros h Hx1 Hx2. split; [exact (Hg h Hx1 Hx2)|].
            intro Heq. subst h. exact (Hout (Hg _ Hx1 Hx2)).
          * right. right. intros [_ Hx]. apply Hx. reflexivity.
    Qed.
  End Body.

  Lemma set_inner_root k v t r t' : set_inner H BNH k v t = (r, t') -> t_root t' = t_root t.
  Proof.
    apply (mrel_run Rroot).
    exact (mrel_set_inner H BNH Rroot Rroot_refl Rroot_trans (Rroot_sdv H) Rroot_pinc k v).
  Qed.

  Lemma delete_inner_root k t r t' : delete_inner H BNH k t = (r, t') -> t_root t' = t_root t.
  Proof.
    apply (mrel_run Rroot).
    exact (mrel_delete_inner H BNH Rroot Rroot_refl Rroot_trans (Rroot_sdv H) Rroot_pinc k).
  Qed.

  Lemma set_inner_first k v t h :
    fst (get_node BNH (RStr (t_root t)) t) = Err (EKeyError h) ->
    set_inner H BNH k v t = (Err (EKeyError h), t).
  Proof.
    unfold set_inner, bind, getst. pose proof (D_reads_pure_get_node BNH (RStr (t_root t)) t) as Hs.
    destruct (get_node BNH (RStr (t_root t)) t) as [r t'] eqn:E. cbn [fst snd] in *. intros ->.
    subst t'. reflexivity.
  Qed.

  Lemma delete_inner_first k t h :
    fst (get_node BNH (RStr (t_root t)) t) = Err (EKeyError h) ->
    delete_inner H BNH k t = (Err (EKeyError h), t).
  Proof.
    unfold delete_inner, bind, getst. pose proof (D_reads_pure_get_node BNH (RStr (t_root t)) t) as Hs.
    destruct (get_node BNH (RStr (t_root t)) t) as [r t'] eqn:E. cbn [fst snd] in *. intros ->.
    subst t'. reflexivity.
  Qed.

  (* set / delete on a sub-store, pruning or not: the three outcomes *)
  Theorem write_outcomes_set k v t1 t2 : wrel t1 t2 -> (t_prune t1 = false \/ root_ok BNH t1) ->
    (fst (set H BNH k v t1) = fst (set H BNH k v t2) /\
     wrel (snd (set H BNH k v t1)) (snd (set H BNH k v t2)) /\
     t_prune (snd (set H BNH k v t1)) = t_prune t1) \/
    (exists h, set H BNH k v t1 = (Err (EMissingTrieNode h (t_root t1) k None), t1) /\
               aget (tcells t1) h = None /\ aget (tcells t2) h <> None) \/
    (exists h, t_prune t1 = true /\ fst (set H BNH k v t1) = Err EValidation /\
               aget (tcells t1) h = None /\ aget (tcells t2) h <> None).
  Proof.
    exact (write_outcomes k (set_inner H BNH k v) (fun G => sim_set_inner H BNH G k v)
             (set_inner_prune H BNH k v) (set_inner_root k v) (set_inner_first k v)
             (set_missing H BNH H_nonblank k v) t1 t2).
  Qed.

  Theorem write_outcomes_delete k t1 t2 : wrel t1 t2 -> (t_prune t1 = false \/ root_ok BNH t1) ->
    (fst (delete H BNH k t1) = fst (delete H BNH k t2) /\
     wrel (snd (delete H BNH k t1)) (snd (delete H BNH k t2)) /\
     t_prune (snd (delete H BNH k t1)) = t_prune t1) \/
    (exists h, delete H BNH k t1 = (Err (EMissingTrieNode h (t_root t1) k None), t1) /\
               aget (tcells t1) h = None /\ aget (tcells t2) h <> None) \/
    (exists h, t_prune t1 = true /\ fst (delete H BNH k t1) = Err EValidation /\
               aget (tcells t1) h = None /\ aget (tcells t2) h <> None).
  Proof.
    exact (write_outcomes k (delete_inner H BNH k) (fun G => sim_delete_inner H BNH G k)
             (delete_inner_prune H BNH k) (delete_inner_root k) (delete_inner_first k)
             (delete_missing H BNH H_nonblank k) t1 t2).
  Qed.
End WriteOutcomes.

(* [root_ok] is an invariant of set / delete when the hash function returns 32 bytes *)
Section RootOk.
  Variable H : bytes -> bytes.
  Variable BNH : bytes.
  Hypothesis H_len : forall b, (32 <= length (H b))%nat.

  Lemma set_raw_node_res n t h t' :
    _set_raw_node H BNH n t = (Ok h, t') -> h = BNH \/ exists enc, h = H enc.
  Proof.
    unfold _set_raw_node, bind, lift.
    destruct (node_to_db_mapping H n) as [[k [v|]]|e] eqn:Em; [| |discriminate].
    - rewrite (node_to_db_mapping_key _ _ _ _ Em). cbn [item_bytes].
      destruct (is_blank (RStr (H v))).
      + unfold ret. intro E. injection E as <- _. left. reflexivity.
      + destruct (_set_db_value (H v) v t) as [[u|e] t1]; [|discriminate].
        unfold ret. intro E. injection E as <- _. right. exists v. reflexivity.
    - destruct (is_blank k).
      + unfold ret. intro E. injection E as <- _. left. reflexivity.
      + destruct (_set_db_value (H (rlp_encode k)) (rlp_encode k) t) as [[u|e] t1]; [|discriminate].
        unfold ret. intro E. injection E as <- _. right. exists (rlp_encode k). reflexivity.
  Qed.

  Lemma Rroot_old_root_part old : mrel Rroot (old_root_part H BNH old).
  Proof.
    unfold old_root_part. apply (mrel_bind Rroot Rroot_trans).
    - apply (mrel_catch Rroot Rroot_trans).
      + apply (mrel_bind Rroot Rroot_trans); [apply (mrel_get_node BNH Rroot Rroot_refl Rroot_trans)|].
        intro n. apply (mrel_ret Rroot Rroot_refl).
      + intros e k Hk. destruct (key_error_hash e); [|discriminate Hk]. injection Hk as <-.
        apply (mrel_ret Rroot Rroot_refl).
    - intros [orn|]; [|apply (mrel_ret Rroot Rroot_refl)].
      apply (mrel_bind Rroot Rroot_trans); [apply (mrel_lift Rroot Rroot_refl)|intros [k0 body]].
      apply (mrel_bind Rroot Rroot_trans); [apply (mrel_db_contains Rroot Rroot_refl)|intro present].
      destruct body as [b|]; [apply (mrel_ret Rroot Rroot_refl)|].
      destruct present; [apply Rroot_pinc|apply (mrel_ret Rroot Rroot_refl)].
  Qed.

  Lemma set_root_node_root n t r t' :
    _set_root_node H BNH n t = (r, t') -> t_root t' = t_root t \/ root_ok BNH t'.
  Proof.
    rewrite srn_with_eq. unfold srn_with. intro E.
    apply bind_inv in E. destruct E as [(a & ta & E1 & E)|(e & E1 & _)];
      [|unfold lift in E1; injection E1 as _ <-; left; reflexivity].
    unfold lift in E1. injection E1 as _ <-.
    apply bind_inv in E. destruct E as [(b & tb & E2 & E)|(e & E2 & _)].
    2:{ left. revert E2. apply (mrel_run Rroot).
        destruct (t_prune t); [|apply (mrel_ret Rroot Rroot_refl)].
        destruct (negb (bytes_eqb (t_root t) BNH)); [apply Rroot_old_root_part|apply (mrel_ret Rroot Rroot_refl)]. }
    assert (Hb : t_root tb = t_root t).
    { revert E2. apply (mrel_run Rroot).
      destruct (t_prune t); [|apply (mrel_ret Rroot Rroot_refl)].
      destruct (negb (bytes_eqb (t_root t) BNH)); [apply Rroot_old_root_part|apply (mrel_ret Rroot Rroot_refl)]. }
    apply bind_inv in E. destruct E as [(h & tc & E3 & E)|(e & E3 & _)];
      [|left; rewrite (Rroot__set_raw_node H BNH _ _ _ _ E3); exact Hb].
    unfold bind, getst, putst in E. injection E as _ <-. right. unfold root_ok, with_root. cbn [t_root].
    destruct (set_raw_node_res _ _ _ _ E3) as [->|(enc & ->)]; [left; reflexivity|right; apply H_len].
  Qed.

  Section Body.
    Variable key : bytes.
    Variable inner : M item.
    Hypothesis Hrootp : forall t r t', inner t = (r, t') -> t_root t' = t_root t.

    Lemma wbody_root t r t' :
      wbody H BNH key inner t = (r, t') -> t_root t' = t_root t \/ root_ok BNH t'.
    Proof.
      unfold wbody, bind. destruct (raise_missing key inner t) as [[a|e] t1] eqn:E.
      - intro E2. rewrite <- (raise_missing_root key inner Hrootp _ _ _ E).
        exact (set_root_node_root _ _ _ _ E2).
      - intro Hq. injection Hq as _ <-. left. exact (raise_missing_root key inner Hrootp _ _ _ E).
    Qed.

    Lemma wop_root_ok t : root_ok BNH t -> root_ok BNH (snd (wop H BNH key inner t)).
    Proof.
      intro Hok. unfold wop. fold (wbody H BNH key inner). unfold _prune_on_success.
      set (s := if t_prune t then with_pending t (Some []) else t).
      assert (Hs : t_root s = t_root t) by (subst s; destruct (t_prune t); reflexivity).
      destruct (wbody H BNH key inner s) as [r t2] eqn:E.
      assert (H2 : root_ok BNH t2).
      { destruct (wbody_root _ _ _ E) as [Hx|Hx]; [|exact Hx]. unfold root_ok. rewrite Hx, Hs. exact Hok. }
      destruct r as [u|e]; [|exact H2].
      destruct (t_prune t2); [|exact H2].
      destruct (_complete_pruning t2) as [r3 t3] eqn:E3. cbn [snd].
      assert (H3 : t_root t3 = t_root t2).
      { revert E3. apply (mrel_run Rroot).
        exact (mrel__complete_pruning Rroot Rroot_refl Rroot_trans Rroot_del Rroot_refc). }
      unfold root_ok, with_pending. cbn [t_root]. rewrite H3. exact H2.
    Qed.
  End Body.

  Theorem root_ok_set k v t : root_ok BNH t -> root_ok BNH (snd (set H BNH k v t)).
  Proof. exact (wop_root_ok k (set_inner H BNH k v) (set_inner_root H BNH k v) t). Qed.

  Theorem root_ok_delete k t : root_ok BNH t -> root_ok BNH (snd (delete H BNH k t)).
  Proof. exact (wop_root_ok k (delete_inner H BNH k) (delete_inner_root H BNH k) t). Qed.
End RootOk.

(* ---- the three-outcome statements for the implementation's hash ---- *)
From PyTrie.Base Require Import Keccak_proofs.

Lemma keccak256_len32 b : (32 <= length (keccak256 b))%nat.
Proof. rewrite keccak256_length. apply Nat.le_refl. Qed.

Theorem C07_write_outcomes_set BNH k v t1 t2 : wrel t1 t2 -> (t_prune t1 = false \/ root_ok BNH t1) ->
  (fst (set keccak256 BNH k v t1) = fst (set keccak256 BNH k v t2) /\
   wrel (snd (set keccak256 BNH k v t1)) (snd (set keccak256 BNH k v t2)) /\
   t_prune (snd (set keccak256 BNH k v t1)) = t_prune t1 /\
   (root_ok BNH t1 -> root_ok BNH (snd (set keccak256 BNH k v t1)))) \/
  (exists h, set keccak256 BNH k v t1 = (Err (EMissingTrieNode h (t_root t1) k None), t1) /\
             aget (tcells t1) h = None /\ aget (tcells t2) h <> None) \/
  (exists h, t_prune t1 = true /\ fst (set keccak256 BNH k v t1) = Err EValidation /\
             aget (tcells t1) h = None /\ aget (tcells t2) h <> None).
Proof.
  intros Hw Hok.
  destruct (write_outcomes_set keccak256 BNH keccak256_nonblank k v t1 t2 Hw Hok)
    as [(Hres & Hw' & Hp)|[Hb|Hc]]; [left|right; left; exact Hb|right; right; exact Hc].
  split; [exact Hres|]. split; [exact Hw'|]. split; [exact Hp|].
  apply (root_ok_set keccak256 BNH keccak256_len32).
Qed.

Theorem C07_write_outcomes_delete BNH k t1 t2 : wrel t1 t2 -> (t_prune t1 = false \/ root_ok BNH t1) ->
  (fst (delete keccak256 BNH k t1) = fst (delete keccak256 BNH k t2) /\
   wrel (snd (delete keccak256 BNH k t1)) (snd (delete keccak256 BNH k t2)) /\
   t_prune (snd (delete keccak256 BNH k t1)) = t_prune t1 /\
   (root_ok BNH t1 -> root_ok BNH (snd (delete keccak256 BNH k t1)))) \/
  (exists h, delete keccak256 BNH k t1 = (Err (EMissingTrieNode h (t_root t1) k None), t1) /\
             aget (tcells t1) h = None /\ aget (tcells t2) h <> None) \/
  (exists h, t_prune t1 = true /\ fst (delete keccak256 BNH k t1) = Err EValidation /\
             aget (tcells t1) h = None /\ aget (tcells t2) h <> None).
Proof.
  intros Hw Hok.
  destruct (write_outcomes_delete keccak256 BNH keccak256_nonblank k t1 t2 Hw Hok)
    as [(Hres & Hw' & Hp)|[Hb|Hc]]; [left|right; left; exact Hb|right; right; exact Hc].
  split; [exact Hres|]. split; [exact Hw'|]. split; [exact Hp|].
  apply (root_ok_delete keccak256 BNH keccak256_len32).
Qed.

(* ================================================================== *)
(* 7. Examples with the real hash                                      *)
Module RetryWriteExample.
  Definition K := keccak256.
  Definition BN := keccak256 [x80].

  Definition v1 : bytes := repeat x61 32.
  Definition v2 : bytes := repeat x62 32.
  Definition v3 : bytes := repeat x63 32.
  Definition v9 : bytes := repeat x7a 33.

  (* keys 0x12, 0x13, 0x45: root branch -> branch under nibble 1 -> two leaves; leaf under nibble 4 *)
  Definition t_full : trie :=
    snd (set K BN [x45] v3 (snd (set K BN [x13] v2 (snd (set K BN [x12] v1 (empty_trie BN false)))))).
  Definition full : amap bytes := tcells t_full.
  Definition r : bytes := t_root t_full.

  Definition root_item : item :=
    match aget full r with
    | Some b => match rlp_decode b with Ok i => i | Err _ => BLANK end
    | None => BLANK
    end.
  (* the two hashed nodes above the leaf of key 0x12: the root and its child under nibble 1 *)
  Definition h1 : bytes := r.
  Definition h2 : bytes := item_bytes (branch_child root_item 1).
  (* the incomplete store: everything but those two *)
  Definition m : amap bytes := adel (adel full h1) h2.

  Example ex_setup :
    length full = 7%nat /\ length m = 5%nat /\ length h2 = 32%nat /\ bytes_eqb h1 h2 = false /\
    aget m h1 = None /\ aget m h2 = None /\
    fst (get BN [x12] (plain full r)) = Ok v1.
  Proof. vm_compute. repeat split; reflexivity. Qed.

  Example ex_sub : sub_store m full.
  Proof.
    unfold m. intros x b Hx. rewrite !aget_adel in Hx.
    destruct (bytes_eqb x h2); [discriminate Hx|]. destruct (bytes_eqb x h1); [discriminate Hx|exact Hx].
  Qed.

  (* the first attempt fails, names the root, and changes nothing *)
  Example ex_first_attempt :
    set K BN [x12] v9 (plain m r) = (Err (EMissingTrieNode h1 r [x12] None), plain m r).
  Proof. vm_compute. reflexivity. Qed.

  (* the loop asks for exactly the two missing nodes, in path order, and ends with the result,
     the root and (here) even the very store of the complete run *)
  Example ex_retry_set :
    let '(res, t', asked) := retry_set K BN 10 full (plain m r) [x12] v9 [] in
    let '(want, tw) := set K BN [x12] v9 (plain full r) in
    res = Ok tt /\ want = Ok tt /\ asked = [h1; h2] /\ t_root t' = t_root tw /\
    bytes_eqb (t_root tw) r = false /\
    fst (get BN [x12] t') = Ok v9 /\ fst (get BN [x13] t') = Ok v2 /\
    length (tcells t') = 10%nat /\ length (tcells tw) = 10%nat.
  Proof. vm_compute. repeat split; reflexivity. Qed.

  Example ex_retry_delete :
    let '(res, t', asked) := retry_delete K BN 10 full (plain m r) [x12] [] in
    let '(want, tw) := delete K BN [x12] (plain full r) in
    res = Ok tt /\ want = Ok tt /\ asked = [h1; h2] /\ t_root t' = t_root tw /\
    fst (get BN [x12] t') = Ok [] /\ fst (get BN [x13] t') = Ok v2.
  Proof. vm_compute. repeat split; reflexivity. Qed.

  (* the premises of C07_retry_set hold here, so the example is an instance of the theorem *)
  Example ex_instance :
    mh8 (fst (set K BN [x12] v9 (plain full r))) = None /\ (owed (akeys full) m < 10)%nat.
  Proof. vm_compute. split; [reflexivity|]. repeat constructor. Qed.
End RetryWriteExample.

(* A pruning trie on a sub-store can fail in _complete_pruning, non-atomically, where the
   complete store succeeds: the third outcome of C07_write_outcomes_* is real.  The complete
   store below holds the same leaf twice, once under a key that is not its hash; deleting the
   only key schedules H(leaf) for pruning; the small store has the leaf under the root key only. *)
Module PruneCounterexample.
  Definition K := keccak256.
  Definition BN := keccak256 [x80].
  Definition R0 : bytes := repeat x01 32.
  Definition leaf : item := RList [RStr [x20; x12]; RStr (repeat x76 32)].
  Definition enc := rlp_encode leaf.
  Definition m2 : amap bytes := [(R0, enc); (K enc, enc)].
  Definition m1 : amap bytes := [(R0, enc)].
  Definition t1 : trie := mkTrie (DPlain (store_of m1)) R0 true [] None.
  Definition t2 : trie := mkTrie (DPlain (store_of m2)) R0 true [] None.

  Example cx_prune_validation :
    wrel t1 t2 /\ root_ok BN t1 /\
    fst (delete K BN [x12] t2) = Ok tt /\
    fst (delete K BN [x12] t1) = Err EValidation /\
    t_root (snd (delete K BN [x12] t1)) = BN /\ bytes_eqb BN R0 = false /\
    aget m1 (K enc) = None /\ aget m2 (K enc) <> None.
  Proof.
    split.
    { exists m1, m2. repeat split. intros x b. cbn [m1 m2 aget].
      destruct (bytes_eqb x R0); [trivial|discriminate]. }
    split; [right; cbn; lia|].
    vm_compute. repeat split; try reflexivity. discriminate.
  Qed.
End PruneCounterexample.

(* Why the pruning statement needs [root_ok]: a root "hash" shorter than 32 bytes is decoded in
   place, never read from the database, yet _set_root_node asks the database whether it
   contains it.  The two stores answer differently, only the larger one schedules the old root
   for pruning, and the reference counts come apart although both calls succeed. *)
Module RootOkCounterexample.
  Definition K := keccak256.
  Definition BN := keccak256 [x80].
  Definition sleaf : item := RList [RStr [x20; x12]; RStr [x76]].
  Definition sroot : bytes := rlp_encode sleaf.        (* 5 bytes *)
  Definition t1 : trie := mkTrie (DPlain (store_of [])) sroot true [(sroot, 5%Z)] None.
  Definition t2 : trie := mkTrie (DPlain (store_of [(sroot, [x80])])) sroot true [(sroot, 5%Z)] None.

  Example cx_short_root :
    wrel t1 t2 /\ ~ root_ok BN t1 /\
    fst (set K BN [x12] [x77] t1) = Ok tt /\ fst (set K BN [x12] [x77] t2) = Ok tt /\
    zget (t_refc (snd (set K BN [x12] [x77] t1))) sroot = 5%Z /\
    zget (t_refc (snd (set K BN [x12] [x77] t2))) sroot = 4%Z.
  Proof.
    split; [exists [], [(sroot, [x80])]; repeat split; intros x b Hx; discriminate Hx|].
    split.
    { intros [Hx|Hx]; [|vm_compute in Hx; lia].
      assert (Hl : length (t_root t1) = length BN) by (rewrite Hx; reflexivity).
      vm_compute in Hl. discriminate Hl. }
    vm_compute. repeat split; reflexivity.
  Qed.
End RootOkCounterexample.

Print Assumptions write_same_or_missing_set.
Print Assumptions write_same_or_missing_delete.
Print Assumptions write_outcomes_set.
Print Assumptions write_outcomes_delete.
Print Assumptions root_ok_set.
Print Assumptions root_ok_delete.
Print Assumptions retry_write_spec.
Print Assumptions C07_retry_set_gen.
Print Assumptions C07_retry_delete_gen.
Print Assumptions C07_same_or_missing_set.
Print Assumptions C07_same_or_missing_delete.
Print Assumptions C07_same_or_missing_set_plain.
Print Assumptions C07_same_or_missing_delete_plain.
Print Assumptions C07_retry_set.
Print Assumptions C07_retry_delete.
Print Assumptions C07_write_outcomes_set.
Print Assumptions C07_write_outcomes_delete.
Print Assumptions RetryWriteExample.ex_retry_set.
Print Assumptions RetryWriteExample.ex_retry_delete.
Print Assumptions RetryWriteExample.ex_first_attempt.
Print Assumptions PruneCounterexample.cx_prune_validation.
Print Assumptions RootOkCounterexample.cx_short_root.
