(* Hexary/Refine_read.v — READ REFINEMENT from the database level (Hexary/D.v, through the
   pure mirrors of Hexary/D_read.v) to the tree level (Hexary/Tree.v, TreeTraverse.v):
   over a store that holds the encoding of every hashed sub-tree of [t] (and of [t] itself
   under its root hash), get / exists_ / traverse compute tget / texists / ttraverse. *)
From Coq Require Import List NArith ZArith Bool Lia ZifyBool.
From Coq.Init Require Import Byte.
From PyTrie.Base Require Import Bytes Bytes_proofs Result AMap AMap_proofs Nibbles Nibbles_proofs Rlp.
From PyTrie.Db Require Import ScratchDb.
From PyTrie.Hexary Require Import Raw Raw_proofs D Tree Tree_aux Tree_map TreeTraverse D_read.
Import ListNotations.
Open Scope N_scope.

(* ================================================================== *)
(* predicates over all sub-trees *)

Fixpoint all_sub (P : node -> Prop) (t : node) {struct t} : Prop :=
  P t /\
  match t with
  | NExt _ c => all_sub P c
  | NBranch cs _ =>
      (fix all (cs : list node) : Prop :=
         match cs with [] => True | c :: cs' => all_sub P c /\ all cs' end) cs
  | _ => True
  end.

Lemma all_sub_here P t : all_sub P t -> P t.
Proof. destruct t; cbn [all_sub]; intros [Hh _]; exact Hh. Qed.

Lemma all_sub_ext P p c : all_sub P (NExt p c) <-> P (NExt p c) /\ all_sub P c.
Proof. reflexivity. Qed.

Lemma all_sub_branch P cs v : all_sub P (NBranch cs v) <-> P (NBranch cs v) /\ Forall (all_sub P) cs.
Proof.
  cbn [all_sub]. split; intros [Hh Hc]; (split; [exact Hh|]); clear Hh.
  - induction cs as [|c cs IH]; [constructor|]. destruct Hc as [Hc1 Hc2].
    constructor; [exact Hc1|apply IH; exact Hc2].
  - induction Hc as [|c cs Hc1 _ IH]; [exact I|]. split; assumption.
Qed.

Lemma all_sub_and P Q t : all_sub P t -> all_sub Q t -> all_sub (fun s => P s /\ Q s) t.
Proof.
  induction t as [| p v | p c IH | cs v IH] using node_ind'.
  - cbn [all_sub]. tauto.
  - cbn [all_sub]. tauto.
  - rewrite !all_sub_ext. intros [Hp Hpc] [Hq Hqc]. split; [split; assumption|apply IH; assumption].
  - rewrite !all_sub_branch. intros [Hp Hpc] [Hq Hqc]. split; [split; assumption|]. clear Hp Hq.
    induction IH as [|c cs Hc _ IHcs]; [constructor|].
    inversion Hpc as [|? ? Hp1 Hp2]; subst. inversion Hqc as [|? ? Hq1 Hq2]; subst.
    constructor; [apply Hc; assumption|apply IHcs; assumption].
Qed.

Lemma all_sub_impl (P Q : node -> Prop) t : (forall s, P s -> Q s) -> all_sub P t -> all_sub Q t.
Proof.
  intro HPQ. induction t as [| p v | p c IH | cs v IH] using node_ind'.
  - cbn [all_sub]. intros [Hh _]. split; [apply HPQ; exact Hh|exact I].
  - cbn [all_sub]. intros [Hh _]. split; [apply HPQ; exact Hh|exact I].
  - rewrite !all_sub_ext. intros [Hh Hc]. split; [apply HPQ; exact Hh|apply IH; exact Hc].
  - rewrite !all_sub_branch. intros [Hh Hc]. split; [apply HPQ; exact Hh|]. clear Hh.
    induction IH as [|c cs Hc1 _ IHcs]; [constructor|].
    inversion Hc as [|? ? Hp1 Hp2]; subst. constructor; [apply Hc1; exact Hp1|apply IHcs; exact Hp2].
Qed.

(* every extension path is non-empty (implied by [canonical], preserved by tset / tdelete) *)
Fixpoint ext_ok (t : node) {struct t} : bool :=
  match t with
  | NExt p c => nonempty_path p && ext_ok c
  | NBranch cs _ =>
      (fix all (cs : list node) : bool :=
         match cs with [] => true | c :: cs' => ext_ok c && all cs' end) cs
  | _ => true
  end.

Lemma wf_branch cs v : wf (NBranch cs v) = Nat.eqb (length cs) 16 && forallb wf cs.
Proof.
  reflexivity.
Qed.

Lemma ext_ok_branch cs v : ext_ok (NBranch cs v) = forallb ext_ok cs.
Proof.
  reflexivity.
Qed.

Lemma canonical_ext_ok t : canonical t = true -> ext_ok t = true.
Proof.
  induction t as [| p v | p c IH | cs v IH] using node_ind'; try reflexivity.
  - cbn [canonical ext_ok]. intro Hc.
    apply andb_true_iff in Hc as [Hc Hc4]. apply andb_true_iff in Hc as [Hc Hc3].
    apply andb_true_iff in Hc as [Hc1 Hc2]. rewrite Hc2, (IH Hc4). reflexivity.
  - rewrite ext_ok_branch. cbn [canonical]. intro Hc. apply andb_true_iff in Hc as [_ Hc].
    induction IH as [|c cs Hc1 _ IHcs]; [reflexivity|].
    apply andb_true_iff in Hc as [Hc2 Hc3]. cbn [forallb]. rewrite (IHcs Hc3), andb_true_r.
    apply orb_true_iff in Hc2 as [Hb|Hb]; [destruct c; try discriminate Hb; reflexivity|apply Hc1; exact Hb].
Qed.

Lemma canonical_top_ext_ok t : canonical_top t = true -> ext_ok t = true.
Proof.
  unfold canonical_top. intro Hc. apply orb_true_iff in Hc as [Hb|Hb].
  - destruct t; try discriminate Hb; reflexivity.
  - apply canonical_ext_ok; exact Hb.
Qed.

(* ================================================================== *)
Section Refine.
  Variable H : bytes -> bytes.
  Variable BNH : bytes.
  Hypothesis H_len : forall x, length (H x) = 32%nat.
  Hypothesis BNH_def : BNH = H (rlp_encode (RStr [])).

  (* the RLP body of the node at the top of [t] *)
  Definition ebody (t : node) : bytes := rlp_encode (enc H t).

  (* ---------------- the premises ---------------- *)
  (* the store holds the encoding of every hashed sub-tree of t under its hash *)
  Definition stored_here (m : amap bytes) (s : node) : Prop :=
    Nat.ltb (length (ebody s)) 32 = false -> aget m (H (ebody s)) = Some (ebody s).
  Definition stored (m : amap bytes) (t : node) : Prop := all_sub (stored_here m) t.

  Definition represents (m : amap bytes) (root : bytes) (t : node) : Prop :=
    root = troot H t /\ (t = NBlank \/ aget m root = Some (ebody t)) /\ stored m t.

  (* the decoder reads back the encoding of t and of every sub-tree of t *)
  Definition decodable_here (s : node) : Prop := rlp_decode (ebody s) = Ok (enc H s).
  Definition decodable (t : node) : Prop := all_sub decodable_here t.

  (* no hashed sub-tree of t, and not t itself unless blank, hashes to BLANK_NODE_HASH *)
  Definition nbc_here (s : node) : Prop :=
    Nat.ltb (length (ebody s)) 32 = false -> H (ebody s) <> BNH.
  Definition no_blank_sub (t : node) : Prop := all_sub nbc_here t.
  Definition no_blank_collision (t : node) : Prop :=
    (t <> NBlank -> troot H t <> BNH) /\ no_blank_sub t.

  (* ---------------- encodings ---------------- *)
  Lemma enc_branch cs v : enc H (NBranch cs v) = RList (map (tref H) cs ++ [RStr v]).
  Proof.
    cbn [enc]. f_equal. induction cs as [|c cs IH]; [reflexivity|].
    cbn [map app]. rewrite IH. reflexivity.
  Qed.

  Lemma tref_blank : tref H NBlank = BLANK.
  Proof. reflexivity. Qed.

  Lemma enc_nonblank t : t <> NBlank -> exists x l, enc H t = RList (x :: l).
  Proof.
    intro Hn. destruct t as [| p v | p c | cs v]; [contradiction| | |].
    - eexists _, _. reflexivity.
    - eexists _, _. reflexivity.
    - rewrite enc_branch. destruct cs as [|c cs]; eexists _, _; reflexivity.
  Qed.

  Lemma tref_cases t :
    (t = NBlank /\ tref H t = BLANK) \/
    (t <> NBlank /\ Nat.ltb (length (ebody t)) 32 = true /\ tref H t = enc H t) \/
    (t <> NBlank /\ Nat.ltb (length (ebody t)) 32 = false /\ tref H t = RStr (H (ebody t))).
  Proof.
    destruct (node_eqb t NBlank) eqn:E.
    - apply node_eqb_eq in E. subst t. left. split; reflexivity.
    - right. assert (Hn : t <> NBlank) by (intro Hx; subst t; discriminate E).
      destruct (enc_nonblank t Hn) as (x & l & He).
      unfold tref, ref_of_item, ebody. rewrite He. cbn [is_blank]. rewrite <- He.
      destruct (Nat.ltb (length (rlp_encode (enc H t))) 32) eqn:El.
      + left. repeat split; assumption.
      + right. repeat split; assumption.
  Qed.

  Lemma hash_nonempty x : H x <> [].
  Proof. intro Hx. pose proof (H_len x) as Hl. rewrite Hx in Hl. discriminate Hl. Qed.

  Lemma gn_hashed_ok m b x :
    H b <> BNH -> aget m (H b) = Some b -> rlp_decode b = Ok x -> gn BNH m (RStr (H b)) = Ok x.
  Proof.
    intros Hn Hg Hd. pose proof (H_len b) as Hl. unfold gn.
    destruct (H b) as [|h0 h'] eqn:Eh; [discriminate Hl|].
    apply bytes_eqb_neq in Hn. rewrite Hn, Hl. cbn [Nat.ltb Nat.leb]. rewrite Hg. exact Hd.
  Qed.

  (* reading the reference of a sub-tree gives its raw node *)
  Lemma get_node_tref_here m t :
    stored_here m t -> decodable_here t -> nbc_here t -> gn BNH m (tref H t) = Ok (enc H t).
  Proof.
    intros Hs Hd Hn.
    destruct (tref_cases t) as [[-> Hr]|[(Hnb & Hl & Hr)|(Hnb & Hl & Hr)]]; rewrite Hr.
    - reflexivity.
    - destruct (enc_nonblank t Hnb) as (x & l & He). rewrite He. reflexivity.
    - apply gn_hashed_ok; [exact (Hn Hl)|exact (Hs Hl)|exact Hd].
  Qed.

  Theorem get_node_tref m t :
    stored m t -> decodable t -> no_blank_sub t -> gn BNH m (tref H t) = Ok (enc H t).
  Proof.
    intros Hs Hd Hn. apply get_node_tref_here; eapply all_sub_here; eassumption.
  Qed.

  (* ---------------- the invariant carried down the tree ---------------- *)
  Definition good_here (m : amap bytes) (s : node) : Prop :=
    stored_here m s /\ decodable_here s /\ nbc_here s.
  Definition good (m : amap bytes) (t : node) : Prop := all_sub (good_here m) t.

  Lemma good_intro m t : stored m t -> decodable t -> no_blank_sub t -> good m t.
  Proof.
    intros Hs Hd Hn. unfold good, good_here.
    apply all_sub_and; [exact Hs|]. apply all_sub_and; assumption.
  Qed.

  Lemma good_gn m t : good m t -> gn BNH m (tref H t) = Ok (enc H t).
  Proof.
    intro Hg. apply all_sub_here in Hg. destruct Hg as (Hs & Hd & Hn).
    apply get_node_tref_here; assumption.
  Qed.

  Lemma good_blank m : good m NBlank.
  Proof.
    split; [|exact I]. split; [|split].
    - intro Hx. discriminate Hx.
    - reflexivity.
    - intro Hx. discriminate Hx.
  Qed.

  Lemma wf_child cs v n : wf (NBranch cs v) = true -> wf (child cs n) = true.
  Proof.
    rewrite wf_branch. intro Hw. apply andb_true_iff in Hw as [_ Hw].
    apply Forall_child; [|reflexivity]. apply Forall_forall. rewrite forallb_forall in Hw. exact Hw.
  Qed.

  Lemma ext_ok_child cs v n : ext_ok (NBranch cs v) = true -> ext_ok (child cs n) = true.
  Proof.
    rewrite ext_ok_branch. intro Hw.
    apply Forall_child; [|reflexivity]. apply Forall_forall. rewrite forallb_forall in Hw. exact Hw.
  Qed.

  Lemma good_child m cs v n : good m (NBranch cs v) -> good m (child cs n).
  Proof.
    unfold good. rewrite all_sub_branch. intros [_ Hc]. apply Forall_child; [exact Hc|apply good_blank].
  Qed.

  Lemma branch_child_enc cs v n : length cs = 16%nat -> n < 16 ->
    branch_child (enc H (NBranch cs v)) n = tref H (child cs n).
  Proof.
    intros Hl Hn. rewrite enc_branch. unfold branch_child, branch_items, child.
    rewrite app_nth1 by (rewrite map_length; lia).
    rewrite <- tref_blank. apply map_nth.
  Qed.

  Lemma branch_value_enc cs v : length cs = 16%nat -> branch_value (enc H (NBranch cs v)) = RStr v.
  Proof.
    intro Hl. rewrite enc_branch. unfold branch_value, branch_items.
    rewrite app_nth2 by (rewrite map_length; lia). rewrite map_length, Hl. reflexivity.
  Qed.

  Lemma branch_enc_classified cs v : length cs = 16%nat ->
    get_node_type (enc H (NBranch cs v)) = Ok TBranch.
  Proof.
    intro Hl. rewrite enc_branch. apply branch_classified.
    rewrite app_length, map_length, Hl. reflexivity.
  Qed.

  (* ---------------- tree-level traversal, characterised ---------------- *)
  Lemma ttraverse_blank k c : ttraverse_from NBlank k c = TAt NBlank.
  Proof. destruct k; reflexivity. Qed.

  Lemma ttraverse_branch cs v r0 rt c :
    ttraverse_from (NBranch cs v) (r0 :: rt) c = ttraverse_from (child cs r0) rt (c ++ [r0]).
  Proof.
    cbn [ttraverse_from]. unfold child. generalize (N.to_nat r0) as i.
    induction cs as [|c0 cs IH]; intros [|i]; cbn [nth]; try reflexivity;
      try (rewrite ttraverse_blank; reflexivity).
    apply IH.
  Qed.

  Definition res_pair (r : tres) : item * nibbles :=
    match r with
    | TAt n => (enc H n, [])
    | TPartial _ n tail => (enc H n, tail)
    end.

  (* ---------------- A. _traverse_from over the encoding of a tree ---------------- *)
  Lemma tf_enc m t : wf t = true -> ext_ok t = true -> good m t ->
    forall rem fuel tk consumed, nibs_ok rem = true -> (length rem < fuel)%nat ->
    tf BNH m fuel (enc H t) tk rem = Ok (res_pair (ttraverse_from t rem consumed)).
  Proof.
    induction t as [| p v | p c IH | cs v IH] using node_ind';
      intros Hwf Hex Hg rem fuel tk consumed Hrem Hfuel;
      (destruct fuel as [|f]; [lia|]); cbn [tf]; unfold tstep;
      (destruct rem as [|r0 rt]; [reflexivity|]).
    - reflexivity.
    - cbn [wf] in Hwf. destruct (leaf_classified p (RStr v) Hwf) as [Ht Hk].
      cbn [enc]. rewrite Ht, Hk. cbn [ttraverse_from].
      destruct (key_starts_with p (r0 :: rt)); reflexivity.
    - cbn [wf] in Hwf. apply andb_true_iff in Hwf as [Hp Hwc].
      cbn [ext_ok] in Hex. apply andb_true_iff in Hex as [Hpne Hexc].
      apply all_sub_ext in Hg. destruct Hg as [_ Hgc].
      destruct (extension_classified p (tref H c) Hp) as [Ht Hk].
      cbn [enc]. fold (tref H c). rewrite Ht, Hk. cbn [ttraverse_from].
      pose proof (consume_common_prefix_spec p (r0 :: rt)) as Hs.
      destruct (consume_common_prefix p (r0 :: rt)) as [[cm cr] kr].
      destruct Hs as (Hs1 & Hs2 & _).
      destruct cr as [|x cr'].
      + cbn [kv_second]. unfold gnt. rewrite (good_gn m c Hgc). cbn [mt_handler].
        rewrite app_nil_r in Hs1. subst cm.
        apply IH; try assumption.
        * rewrite Hs2, nibs_ok_app in Hrem. apply andb_true_iff in Hrem as [_ Hrem]. exact Hrem.
        * rewrite Hs2 in Hfuel. rewrite app_length in Hfuel.
          destruct p as [|p0 p']; [discriminate Hpne|]. cbn [length] in Hfuel. lia.
      + destruct kr; reflexivity.
    - pose proof Hwf as Hwf'. rewrite wf_branch in Hwf'. apply andb_true_iff in Hwf' as [Hl _].
      apply Nat.eqb_eq in Hl.
      rewrite (branch_enc_classified cs v Hl).
      apply nibs_ok_cons_inv in Hrem as [Hr0 Hrt].
      rewrite (branch_child_enc cs v r0 Hl Hr0).
      unfold gnt. rewrite (good_gn m _ (good_child m cs v r0 Hg)). cbn [mt_handler].
      rewrite ttraverse_branch.
      assert (HP : forall c, In c cs \/ c = NBlank ->
                wf c = true -> ext_ok c = true -> good m c ->
                forall rem fuel tk consumed, nibs_ok rem = true -> (length rem < fuel)%nat ->
                tf BNH m fuel (enc H c) tk rem = Ok (res_pair (ttraverse_from c rem consumed))).
      { intros c0 [Hin| ->].
        - rewrite Forall_forall in IH. apply IH; exact Hin.
        - intros _ _ _ rem0 fuel0 tk0 consumed0 _ Hf0.
          destruct fuel0 as [|f0]; [lia|]. cbn [tf]. unfold tstep. rewrite ttraverse_blank.
          destruct rem0; reflexivity. }
      apply HP.
      + unfold child. destruct (Nat.lt_ge_cases (N.to_nat r0) (length cs)) as [Hlt|Hge].
        * left. apply nth_In; exact Hlt.
        * right. apply nth_overflow; exact Hge.
      + apply (wf_child cs v); exact Hwf.
      + apply (ext_ok_child cs v); exact Hex.
      + apply (good_child m cs v); exact Hg.
      + exact Hrt.
      + cbn [length] in Hfuel. lia.
  Qed.

  (* ---------------- B. _get's tail over the result of a traversal ---------------- *)
  Lemma ksw_neq_false (k p : nibbles) : key_starts_with p k = false -> nibbles_eqb k p = false.
  Proof.
    intro Hk. destruct (nibbles_eqb k p) eqn:E; [|reflexivity].
    apply nibbles_eqb_eq in E. subst k.
    rewrite <- (app_nil_r p) in Hk at 1. rewrite key_starts_with_app in Hk. discriminate Hk.
  Qed.

  Lemma get_tail_ttraverse t : wf t = true -> ext_ok t = true ->
    forall k c, get_tail (res_pair (ttraverse_from t k c)) = Ok (tget t k).
  Proof.
    assert (HB : forall k c, get_tail (res_pair (ttraverse_from NBlank k c)) = Ok (tget NBlank k)).
    { intros k c. rewrite ttraverse_blank. reflexivity. }
    induction t as [| p v | p c IH | cs v IH] using node_ind'; intros Hwf Hex k c0.
    - apply HB.
    - cbn [wf] in Hwf. destruct (leaf_classified p (RStr v) Hwf) as [Ht Hk].
      destruct k as [|r0 rt].
      + cbn [ttraverse_from res_pair get_tail enc]. rewrite Ht, Hk.
        cbn [tget kv_second item_bytes]. destruct (nibbles_eqb [] p); reflexivity.
      + cbn [ttraverse_from tget]. destruct (key_starts_with p (r0 :: rt)) eqn:Eks.
        * cbn [res_pair get_tail enc]. rewrite Ht, Hk.
          cbn [kv_second item_bytes]. destruct (nibbles_eqb (r0 :: rt) p); reflexivity.
        * rewrite (ksw_neq_false _ _ Eks). reflexivity.
    - cbn [wf] in Hwf. apply andb_true_iff in Hwf as [Hp Hwc].
      cbn [ext_ok] in Hex. apply andb_true_iff in Hex as [Hpne Hexc].
      destruct (extension_classified p (tref H c) Hp) as [Ht Hk].
      destruct k as [|r0 rt].
      + cbn [ttraverse_from res_pair get_tail enc]. fold (tref H c). rewrite Ht.
        destruct p as [|p0 p']; [discriminate Hpne|]. reflexivity.
      + cbn [ttraverse_from tget].
        pose proof (consume_common_prefix_spec p (r0 :: rt)) as Hs.
        destruct (consume_common_prefix p (r0 :: rt)) as [[cm cr] kr].
        destruct Hs as (Hs1 & Hs2 & Hs3).
        destruct cr as [|x cr'].
        * rewrite app_nil_r in Hs1. subst cm. rewrite Hs2.
          rewrite key_starts_with_app, tm_skipn_app. apply IH; assumption.
        * assert (Hno : key_starts_with (r0 :: rt) p = false).
          { destruct (key_starts_with (r0 :: rt) p) eqn:E; [|reflexivity].
            apply key_starts_with_spec in E. destruct E as [rest E].
            rewrite Hs1, Hs2, <- app_assoc in E. apply app_inv_head in E.
            cbn [app] in E. subst kr. exfalso. apply Hs3. reflexivity. }
          rewrite Hno.
          destruct kr; cbn [res_pair get_tail enc]; [fold (tref H c); rewrite Ht|]; reflexivity.
    - pose proof Hwf as Hwf'. rewrite wf_branch in Hwf'. apply andb_true_iff in Hwf' as [Hl _].
      apply Nat.eqb_eq in Hl.
      destruct k as [|r0 rt].
      + cbn [ttraverse_from res_pair get_tail]. rewrite (branch_enc_classified cs v Hl).
        rewrite (branch_value_enc cs v Hl). reflexivity.
      + rewrite ttraverse_branch, tget_branch.
        assert (HP : forall c, In c cs \/ c = NBlank -> wf c = true -> ext_ok c = true ->
                  forall k c1, get_tail (res_pair (ttraverse_from c k c1)) = Ok (tget c k)).
        { intros c1 [Hin| ->]; [rewrite Forall_forall in IH; apply IH; exact Hin|].
          intros _ _. apply HB. }
        apply HP.
        * unfold child. destruct (Nat.lt_ge_cases (N.to_nat r0) (length cs)) as [Hlt|Hge].
          -- left. apply nth_In; exact Hlt.
          -- right. apply nth_overflow; exact Hge.
        * apply (wf_child cs v); exact Hwf.
        * apply (ext_ok_child cs v); exact Hex.
  Qed.

  (* ---------------- the root ---------------- *)
  Lemma gn_BNH m : gn BNH m (RStr BNH) = Ok BLANK.
  Proof. unfold gn. destruct BNH as [|b0 b']; [reflexivity|]. rewrite bytes_eqb_refl. reflexivity. Qed.

  Lemma root_raw_ok m r t :
    represents m r t -> decodable t -> no_blank_collision t -> root_raw BNH m r = Ok (enc H t).
  Proof.
    intros (Hr & Hroot & _) Hd [Hnr _]. apply all_sub_here in Hd. unfold root_raw.
    assert (Hblank : t = NBlank -> mt_handler (Some r) [] (gn BNH m (RStr r)) = Ok (enc H t)).
    { intros ->. rewrite Hr. unfold troot. cbn [enc]. unfold BLANK. rewrite <- BNH_def, gn_BNH. reflexivity. }
    destruct (node_eqb t NBlank) eqn:E; [apply node_eqb_eq in E; exact (Hblank E)|].
    assert (Hnb : t <> NBlank) by (intro Hx; subst t; discriminate E).
    destruct Hroot as [Hx|Hg]; [contradiction|].
    subst r. unfold troot. fold (ebody t). fold (ebody t) in Hg.
    rewrite (gn_hashed_ok m (ebody t) (enc H t)); [reflexivity| |exact Hg|exact Hd].
    exact (Hnr Hnb).
  Qed.

  (* ---------------- _traverse from the root ---------------- *)
  Lemma ptrav_ok m r t tk :
    represents m r t -> wf t = true -> ext_ok t = true -> decodable t -> no_blank_collision t ->
    nibs_ok tk = true ->
    ptrav BNH m r tk = Ok (res_pair (ttraverse t tk)).
  Proof.
    intros Hrep Hwf Hex Hd Hn Htk. unfold ptrav. rewrite (root_raw_ok m r t Hrep Hd Hn).
    unfold ttraverse. apply tf_enc; try assumption.
    - apply good_intro; [apply Hrep|exact Hd|apply Hn].
    - unfold traverse_fuel. lia.
  Qed.

  (* a complete store: get never raises and agrees with the tree *)
  Theorem C01_lookup_total_D m r t :
    represents m r t -> wf t = true -> ext_ok t = true -> decodable t -> no_blank_collision t ->
    forall k, fst (get BNH k (plain m r)) = Ok (tget t (bytes_to_nibbles k)).
  Proof.
    intros Hrep Hwf Hex Hd Hn k.
    rewrite (get_eq BNH m k (plain m r) (on_plain m r)). cbn [fst t_root plain].
    unfold pget, p_get.
    rewrite (ptrav_ok m r t _ Hrep Hwf Hex Hd Hn (bytes_to_nibbles_ok k)).
    unfold ttraverse. rewrite (get_tail_ttraverse t Hwf Hex). reflexivity.
  Qed.

  Corollary exists_refines m r t :
    represents m r t -> wf t = true -> ext_ok t = true -> decodable t -> no_blank_collision t ->
    forall k, fst (exists_ BNH k (plain m r)) = Ok (texists t (bytes_to_nibbles k)).
  Proof.
    intros Hrep Hwf Hex Hd Hn k.
    pose proof (C01_lookup_total_D m r t Hrep Hwf Hex Hd Hn k) as Hg.
    rewrite (get_eq BNH m k (plain m r) (on_plain m r)) in Hg. cbn [fst t_root plain] in Hg.
    rewrite (exists_eq BNH m k (plain m r) (on_plain m r)). cbn [fst t_root plain].
    unfold pexists. rewrite Hg. unfold texists.
    destruct (tget t (bytes_to_nibbles k)); reflexivity.
  Qed.

  (* ---------------- C. traverse: annotation, partial traversals ---------------- *)
  (* the HexaryTrieNode of a tree node, field by field: sub_segments, value, suffix and node
     type are those of the tree-level annotation, raw is the encoding of the node *)
  Definition ann_hnode (t : node) : hnode :=
    mkHnode (a_segs (annotate t)) (a_value (annotate t)) (a_suffix (annotate t))
            (enc H t) (a_type (annotate t)).

  (* TAt n : the annotated node; TPartial : TraversedPartialPath(path reached, node, tail,
     simulated node) *)
  Definition traverse_spec (t : node) (p : nibbles) : result hnode :=
    match ttraverse t p with
    | TAt n => Ok (ann_hnode n)
    | TPartial reached n tail =>
        Err (ETraversedPartial reached (ann_hnode n) tail (hnode_obs (ann_hnode (simulated n tail))))
    end.

  Lemma flat_map_ext_in {A B} (f g : A -> list B) l :
    (forall a, In a l -> f a = g a) -> flat_map f l = flat_map g l.
  Proof.
    induction l as [|a l IH]; intro Hfg; [reflexivity|]. cbn [flat_map].
    rewrite (Hfg a (or_introl eq_refl)), IH; [reflexivity|].
    intros b Hb. apply Hfg. right. exact Hb.
  Qed.

  Lemma nibble_range_lt i : In i nibble_range -> i < 16.
  Proof. unfold nibble_range. cbn [In]. intro Hi. lia. Qed.

  Lemma truthy_tref c : truthy (tref H c) = negb (is_nblank c).
  Proof.
    destruct (tref_cases c) as [[-> Hr]|[(Hnb & Hl & Hr)|(Hnb & Hl & Hr)]]; rewrite Hr.
    - reflexivity.
    - destruct (enc_nonblank c Hnb) as (x & l & He). rewrite He.
      destruct c; [contradiction|reflexivity..].
    - pose proof (H_len (ebody c)) as Hlen. destruct (H (ebody c)); [discriminate Hlen|].
      destruct c; [contradiction|reflexivity..].
  Qed.

  Lemma annotate_enc n : wf n = true -> annotate_node (enc H n) = Ok (ann_hnode n).
  Proof.
    intro Hwf. destruct n as [| p v | p c | cs v].
    - reflexivity.
    - cbn [wf] in Hwf. destruct (leaf_classified p (RStr v) Hwf) as [Ht Hk].
      unfold annotate_node. cbn [enc]. rewrite Ht. cbn [rbind]. rewrite Hk. reflexivity.
    - cbn [wf] in Hwf. apply andb_true_iff in Hwf as [Hp _].
      destruct (extension_classified p (tref H c) Hp) as [Ht Hk].
      unfold annotate_node. cbn [enc]. fold (tref H c). rewrite Ht. cbn [rbind]. rewrite Hk. reflexivity.
    - rewrite wf_branch in Hwf. apply andb_true_iff in Hwf as [Hl _]. apply Nat.eqb_eq in Hl.
      unfold annotate_node. rewrite (branch_enc_classified cs v Hl). cbn [rbind].
      rewrite (branch_value_enc cs v Hl). unfold ann_hnode. cbn [annotate a_segs a_value a_suffix a_type item_bytes].
      f_equal. f_equal. apply flat_map_ext_in. intros i Hi.
      rewrite (branch_child_enc cs v i Hl (nibble_range_lt i Hi)), truthy_tref.
      destruct (is_nblank (child cs i)); reflexivity.
  Qed.

  (* what a tree-level traversal can return *)
  Definition partial_ok (n : node) (tail : nibbles) : Prop :=
    match n with
    | NLeaf p _ => nibs_ok p = true /\ key_starts_with p tail = true /\ tail <> []
    | NExt p _ => nibs_ok p = true /\ key_starts_with p tail = true /\
                  length tail <> length p /\ tail <> []
    | _ => False
    end.

  Lemma ttraverse_inv t : wf t = true -> forall k c,
    match ttraverse_from t k c with
    | TAt n => wf n = true
    | TPartial r n tail => partial_ok n tail /\ r ++ tail = c ++ k
    end.
  Proof.
    induction t as [| p v | p c IH | cs v IH] using node_ind'; intros Hwf k c0.
    - rewrite ttraverse_blank. reflexivity.
    - destruct k as [|r0 rt]; [exact Hwf|]. cbn [ttraverse_from].
      destruct (key_starts_with p (r0 :: rt)) eqn:Eks; [|reflexivity].
      cbn [wf] in Hwf. split; [|reflexivity]. cbn [partial_ok].
      split; [exact Hwf|]. split; [exact Eks|discriminate].
    - destruct k as [|r0 rt]; [exact Hwf|]. cbn [ttraverse_from].
      cbn [wf] in Hwf. apply andb_true_iff in Hwf as [Hp Hwc].
      pose proof (consume_common_prefix_spec p (r0 :: rt)) as Hs.
      destruct (consume_common_prefix p (r0 :: rt)) as [[cm cr] kr].
      destruct Hs as (Hs1 & Hs2 & _).
      destruct cr as [|x cr'].
      + rewrite app_nil_r in Hs1. subst cm.
        specialize (IH Hwc kr (c0 ++ p)).
        destruct (ttraverse_from c kr (c0 ++ p)) as [n|r n tail]; [exact IH|].
        destruct IH as [Hpo He]. split; [exact Hpo|].
        rewrite He, Hs2, app_assoc. reflexivity.
      + destruct kr as [|y kr']; [|reflexivity].
        rewrite app_nil_r in Hs2. split; [|reflexivity]. cbn [partial_ok].
        split; [exact Hp|]. rewrite Hs2. split; [|split].
        * rewrite Hs1. apply key_starts_with_app.
        * rewrite Hs1. rewrite app_length. cbn [length]. lia.
        * rewrite <- Hs2. discriminate.
    - destruct k as [|r0 rt]; [exact Hwf|]. rewrite ttraverse_branch.
      replace (c0 ++ r0 :: rt) with ((c0 ++ [r0]) ++ rt) by (rewrite <- app_assoc; reflexivity).
      pose proof (wf_child cs v r0 Hwf) as Hwc.
      unfold child in *. destruct (Nat.lt_ge_cases (N.to_nat r0) (length cs)) as [Hlt|Hge].
      + rewrite Forall_forall in IH. apply IH; [apply nth_In; exact Hlt|exact Hwc].
      + rewrite (nth_overflow cs NBlank Hge). rewrite ttraverse_blank. reflexivity.
  Qed.

  Lemma aop_ttraverse t tk : wf t = true ->
    aop tk (res_pair (ttraverse t tk)) = traverse_spec t tk.
  Proof.
    intro Hwf. pose proof (ttraverse_inv t Hwf tk []) as Hinv.
    unfold traverse_spec, ttraverse in *.
    destruct (ttraverse_from t tk []) as [n|r n tail].
    - cbn [res_pair aop]. rewrite (annotate_enc n Hinv). reflexivity.
    - destruct Hinv as [Hpo He]. cbn [app] in He. subst tk.
      cbn [res_pair aop]. rewrite used_key_app.
      destruct n as [| p v | p c | cs v]; cbn [partial_ok] in Hpo; try contradiction.
      + destruct Hpo as (Hp & Hks & Hne).
        rewrite (annotate_enc (NLeaf p v) Hp).
        destruct tail as [|x tl]; [contradiction|].
        unfold simulated_node, ann_hnode.
        cbn [annotate a_segs a_value a_suffix a_type h_segs h_suffix h_value h_raw simulated enc kv_second].
        rewrite Hks. cbn [negb].
        rewrite (compute_leaf_key_HP _ (tm_nibs_ok_skipn (length (x :: tl)) p Hp)).
        reflexivity.
      + destruct Hpo as (Hp & Hks & Hlen & Hne).
        destruct (extension_classified p (tref H c) Hp) as [Ht Hk].
        assert (Ha : annotate_node (enc H (NExt p c)) = Ok (ann_hnode (NExt p c))).
        { unfold annotate_node. cbn [enc]. fold (tref H c). rewrite Ht. cbn [rbind]. rewrite Hk. reflexivity. }
        rewrite Ha.
        destruct tail as [|x tl]; [contradiction|].
        unfold simulated_node, ann_hnode.
        cbn [annotate a_segs a_value a_suffix a_type h_segs h_suffix h_value h_raw simulated enc kv_second].
        rewrite Hks. cbn [negb].
        apply Nat.eqb_neq in Hlen. rewrite Hlen.
        rewrite (compute_extension_key_HP _ (tm_nibs_ok_skipn (length (x :: tl)) p Hp)).
        reflexivity.
  Qed.

  Theorem traverse_refines m r t :
    represents m r t -> wf t = true -> ext_ok t = true -> decodable t -> no_blank_collision t ->
    forall p, nibs_ok p = true ->
    fst (traverse BNH p (plain m r)) = traverse_spec t p.
  Proof.
    intros Hrep Hwf Hex Hd Hn p Hp.
    rewrite (traverse_eq BNH m p (plain m r) (on_plain m r)). cbn [fst t_root plain].
    unfold ptraverse. rewrite (ptrav_ok m r t p Hrep Hwf Hex Hd Hn Hp).
    apply aop_ttraverse; exact Hwf.
  Qed.

  (* ---------------- the store built from a tree ---------------- *)
  Fixpoint hashed_bodies (t : node) {struct t} : list bytes :=
    (if Nat.ltb (length (ebody t)) 32 then [] else [ebody t]) ++
    match t with
    | NExt _ c => hashed_bodies c
    | NBranch cs _ =>
        (fix go (cs : list node) : list bytes :=
           match cs with [] => [] | c :: cs' => hashed_bodies c ++ go cs' end) cs
    | _ => []
    end.

  Definition tree_bodies (t : node) : list bytes :=
    (if is_nblank t then [] else [ebody t]) ++ hashed_bodies t.

  Definition store_of_bodies (l : list bytes) : amap bytes :=
    fold_right (fun b m => aset m (H b) b) [] l.

  Definition store_of_tree (t : node) : amap bytes := store_of_bodies (tree_bodies t).

  Lemma hashed_bodies_branch cs v :
    hashed_bodies (NBranch cs v) =
    (if Nat.ltb (length (ebody (NBranch cs v))) 32 then [] else [ebody (NBranch cs v)]) ++
    flat_map hashed_bodies cs.
  Proof.
    reflexivity.
  Qed.

  Lemma hashed_here t : Nat.ltb (length (ebody t)) 32 = false -> In (ebody t) (hashed_bodies t).
  Proof. intro Hl. destruct t; cbn [hashed_bodies]; rewrite Hl; left; reflexivity. Qed.

  Lemma store_of_bodies_get l : cf H l -> forall b, In b l -> aget (store_of_bodies l) (H b) = Some b.
  Proof.
    induction l as [|b0 l IH]; intros Hcf b Hin; [contradiction|].
    cbn [store_of_bodies fold_right]. rewrite aget_aset.
    destruct (bytes_eqb (H b) (H b0)) eqn:E.
    - apply bytes_eqb_eq in E. f_equal. apply Hcf; [left; reflexivity|exact Hin|symmetry; exact E].
    - destruct Hin as [->|Hin]; [rewrite bytes_eqb_refl in E; discriminate E|].
      apply IH; [|exact Hin]. apply (cf_incl H (b0 :: l)); [|exact Hcf].
      intros x Hx. right. exact Hx.
  Qed.

  (* a property of all hashed bodies holds at every hashed sub-tree *)
  Lemma hashed_all (Q : bytes -> Prop) t :
    (forall b, In b (hashed_bodies t) -> Nat.ltb (length b) 32 = false -> Q b) ->
    all_sub (fun s => Nat.ltb (length (ebody s)) 32 = false -> Q (ebody s)) t.
  Proof.
    induction t as [| p v | p c IH | cs v IH] using node_ind'; intro Hm.
    - split; [|exact I]. intro Hl. apply Hm; [apply hashed_here|]; exact Hl.
    - split; [|exact I]. intro Hl. apply Hm; [apply hashed_here|]; exact Hl.
    - apply all_sub_ext. split.
      + intro Hl. apply Hm; [apply hashed_here|]; exact Hl.
      + apply IH. intros b Hb. apply Hm. cbn [hashed_bodies]. apply in_or_app. right. exact Hb.
    - apply all_sub_branch. split.
      + intro Hl. apply Hm; [apply hashed_here|]; exact Hl.
      + rewrite Forall_forall in IH |- *. intros c Hin. apply IH; [exact Hin|].
        intros b Hb. apply Hm. rewrite hashed_bodies_branch. apply in_or_app. right.
        apply in_flat_map. exists c. split; assumption.
  Qed.

  Lemma stored_of_bodies m t :
    (forall b, In b (hashed_bodies t) -> aget m (H b) = Some b) -> stored m t.
  Proof.
    intro Hm. unfold stored, stored_here.
    apply (hashed_all (fun b => aget m (H b) = Some b)). intros b Hb _. apply Hm. exact Hb.
  Qed.

  Lemma stored_mono m m' t : sub_store m m' -> stored m t -> stored m' t.
  Proof.
    intro Hsub. unfold stored. apply all_sub_impl. intros s Hs Hl. apply Hsub. exact (Hs Hl).
  Qed.

  Lemma represents_mono m m' r t : sub_store m m' -> represents m r t -> represents m' r t.
  Proof.
    intros Hsub (Hr & Hroot & Hs). split; [exact Hr|]. split.
    - destruct Hroot as [Hb|Hg]; [left; exact Hb|right; apply Hsub; exact Hg].
    - exact (stored_mono m m' t Hsub Hs).
  Qed.

  (* no_blank_collision follows from collision-freeness over the bodies of t and rlp(b"") *)
  Theorem no_blank_collision_of_cf t :
    decodable_here t -> cf H (rlp_encode (RStr []) :: tree_bodies t) -> no_blank_collision t.
  Proof.
    intros Hd Hcf. split.
    - intros Hnb Heq. unfold troot in Heq. fold (ebody t) in Heq. rewrite BNH_def in Heq.
      assert (He : ebody t = rlp_encode (RStr [])).
      { apply Hcf; [right|left; reflexivity|exact Heq].
        unfold tree_bodies. destruct t; [contradiction|left; reflexivity..]. }
      unfold decodable_here in Hd. rewrite He in Hd.
      destruct (enc_nonblank t Hnb) as (x & l & Hx). rewrite Hx in Hd. vm_compute in Hd. discriminate Hd.
    - unfold no_blank_sub, nbc_here. apply (hashed_all (fun b => H b <> BNH)).
      intros b Hb Hl Heq. rewrite BNH_def in Heq.
      assert (He : b = rlp_encode (RStr [])).
      { apply Hcf; [right|left; reflexivity|exact Heq].
        unfold tree_bodies. apply in_or_app. right. exact Hb. }
      rewrite He in Hl. discriminate Hl.
  Qed.

  (* [represents] is satisfiable for every tree whose node bodies do not collide *)
  Theorem represents_store_of_tree t :
    cf H (tree_bodies t) -> represents (store_of_tree t) (troot H t) t.
  Proof.
    intro Hcf. split; [reflexivity|]. split.
    - destruct t as [| p v | p c | cs v]; [left; reflexivity|right..];
        unfold troot; apply (store_of_bodies_get _ Hcf); left; reflexivity.
    - apply stored_of_bodies. intros b Hb. apply (store_of_bodies_get _ Hcf).
      unfold tree_bodies. apply in_or_app. right. exact Hb.
  Qed.

  (* everything discharged from one collision-freeness premise over the bodies of t *)
  Corollary C01_lookup_total_store_of_tree t :
    wf t = true -> ext_ok t = true -> decodable t ->
    cf H (rlp_encode (RStr []) :: tree_bodies t) ->
    forall k, fst (get BNH k (plain (store_of_tree t) (troot H t))) = Ok (tget t (bytes_to_nibbles k)).
  Proof.
    intros Hwf Hex Hd Hcf. apply C01_lookup_total_D; try assumption.
    - apply represents_store_of_tree. apply (cf_incl H (rlp_encode (RStr []) :: tree_bodies t)); [|exact Hcf].
      intros x Hx. right. exact Hx.
    - apply no_blank_collision_of_cf; [apply (all_sub_here _ _ Hd)|exact Hcf].
  Qed.

End Refine.

(* ================================================================== *)
(* Non-vacuity and counterexamples, with Keccak-256 *)
From PyTrie.Base Require Import Keccak.

Section Keccak.
  Definition K := keccak256.
  Definition BN := keccak256 [x80].

  Lemma rr_le_bytes_length : forall n x, length (le_bytes x n) = n.
  Proof. induction n as [|n IH]; intro x; cbn [le_bytes length]; [reflexivity|rewrite IH; reflexivity]. Qed.

  Lemma K_len m : length (K m) = 32%nat.
  Proof.
    unfold K, keccak256, squeeze.
    destruct (absorb_all _ kzero (kpad m)) as
      [a0 a1 a2 a3 a4 a5 a6 a7 a8 a9 a10 a11 a12 a13 a14 a15 a16 a17 a18 a19 a20 a21 a22 a23 a24].
    rewrite !app_length, !rr_le_bytes_length. reflexivity.
  Qed.

  Lemma BN_def : BN = K (rlp_encode (RStr [])).
  Proof. vm_compute. reflexivity. Qed.

  Definition put (i : N) (c : node) (cs : list node) : list node := set_child cs i c.

  (* a branch with a value, a hashed leaf child (40-byte value), an embedded leaf child, and a
     (hashed) extension over a (hashed) branch holding an embedded and a hashed leaf *)
  Definition ex_inner : node :=
    NBranch (put 0 (NLeaf [] [x63]) (put 15 (NLeaf [1; 2] (repeat x64 33)) blanks16)) [].
  Definition ex_t : node :=
    NBranch (put 1 (NLeaf [2; 3; 4] (repeat x61 40))
            (put 5 (NLeaf [6] [x62])
            (put 10 (NExt [11; 12] ex_inner) blanks16))) [x76].
  Definition ex_m : amap bytes := store_of_tree K ex_t.
  Definition ex_r : bytes := troot K ex_t.

  Ltac conj_compute :=
    vm_compute;
    repeat match goal with |- _ /\ _ => split end;
    try exact I;
    try (let E := fresh "E" in let E2 := fresh "E" in
         intro E; first [discriminate E | reflexivity | (intro E2; discriminate E2)]);
    try reflexivity.

  Example ex_shape :
    wf ex_t = true /\ ext_ok ex_t = true /\ canonical_top ex_t = true /\
    length ex_m = 5%nat /\
    (* which children are hashed / embedded *)
    (exists h, tref K (child (match ex_t with NBranch cs _ => cs | _ => [] end) 1) = RStr h) /\
    (exists l, tref K (child (match ex_t with NBranch cs _ => cs | _ => [] end) 5) = RList l) /\
    (exists h, tref K (child (match ex_t with NBranch cs _ => cs | _ => [] end) 10) = RStr h).
  Proof.
    split; [vm_compute; reflexivity|]. split; [vm_compute; reflexivity|].
    split; [vm_compute; reflexivity|]. split; [vm_compute; reflexivity|].
    split; [eexists; vm_compute; reflexivity|]. split; eexists; vm_compute; reflexivity.
  Qed.

  Example ex_represents : represents K ex_m ex_r ex_t.
  Proof.
    split; [reflexivity|]. split; [right; vm_compute; reflexivity|].
    unfold stored. conj_compute.
  Qed.

  Example ex_decodable : decodable K ex_t.
  Proof. unfold decodable. conj_compute. Qed.

  Example ex_no_blank_collision : no_blank_collision K BN ex_t.
  Proof.
    split; [intros _; vm_compute; intro E; discriminate E|].
    unfold no_blank_sub. conj_compute.
  Qed.

  (* the theorems instantiated: every key, every valid nibble path *)
  Example ex_get k : fst (get BN k (plain ex_m ex_r)) = Ok (tget ex_t (bytes_to_nibbles k)).
  Proof.
    apply (C01_lookup_total_D K BN K_len BN_def);
      [exact ex_represents|reflexivity|reflexivity|exact ex_decodable|exact ex_no_blank_collision].
  Qed.

  Example ex_traverse p : nibs_ok p = true ->
    fst (traverse BN p (plain ex_m ex_r)) = traverse_spec K ex_t p.
  Proof.
    apply (traverse_refines K BN K_len BN_def);
      [exact ex_represents|reflexivity|reflexivity|exact ex_decodable|exact ex_no_blank_collision].
  Qed.

  (* and evaluated directly, for a few keys / paths *)
  Example ex_get_eval :
    map (fun k => fst (get BN k (plain ex_m ex_r)))
        [[]; [x12; x34]; [x56]; [xab; xc0]; [xab; xcf; x12]; [xab]; [x12]; [xab; xc1]]
    = [Ok [x76]; Ok (repeat x61 40); Ok [x62]; Ok [x63]; Ok (repeat x64 33); Ok []; Ok []; Ok []].
  Proof. vm_compute. reflexivity. Qed.

  Example ex_traverse_eval :
    (* inside the extension: TraversedPartialPath; inside the hashed leaf likewise *)
    exn_tag (match fst (traverse BN [10; 11] (plain ex_m ex_r)) with Err e => e | Ok _ => Exn 0 [] end)
      = T_TraversedPartial /\
    exn_tag (match fst (traverse BN [1; 2] (plain ex_m ex_r)) with Err e => e | Ok _ => Exn 0 [] end)
      = T_TraversedPartial /\
    rmap h_type (fst (traverse BN [10; 11; 12] (plain ex_m ex_r))) = Ok TBranch /\
    rmap h_segs (fst (traverse BN [10; 11; 12] (plain ex_m ex_r))) = Ok [[0]; [15]] /\
    rmap h_type (fst (traverse BN [10] (plain ex_m ex_r))) = Ok TExt /\
    rmap h_type (fst (traverse BN [3] (plain ex_m ex_r))) = Ok TBlank.
  Proof. vm_compute. repeat split. Qed.

  (* ---- [ext_ok] is needed: an extension with an empty path ---- *)
  (* (a) the tree answers through the extension, _get stops at the extension node *)
  Definition cx1_t : node := NExt [] (NLeaf [] [x61]).
  Example cx1 :
    wf cx1_t = true /\ represents K (store_of_tree K cx1_t) (troot K cx1_t) cx1_t /\
    decodable K cx1_t /\ no_blank_collision K BN cx1_t /\
    fst (get BN [] (plain (store_of_tree K cx1_t) (troot K cx1_t))) = Ok [] /\
    tget cx1_t (bytes_to_nibbles []) = [x61].
  Proof.
    split; [reflexivity|]. split; [|split; [|split; [|split]]].
    - split; [reflexivity|]. split; [right; vm_compute; reflexivity|]. unfold stored. conj_compute.
    - unfold decodable. conj_compute.
    - split; [intros _; vm_compute; intro E; discriminate E|]. unfold no_blank_sub. conj_compute.
    - vm_compute. reflexivity.
    - reflexivity.
  Qed.

  (* (b) empty extension paths consume fuel but no key: the model's fuel bound is exceeded *)
  Definition cx2_t : node := NExt [] (NExt [] (NExt [] (NExt [] (NLeaf [1; 2] [x61])))).
  Example cx2 :
    wf cx2_t = true /\ represents K (store_of_tree K cx2_t) (troot K cx2_t) cx2_t /\
    fst (get BN [x12] (plain (store_of_tree K cx2_t) (troot K cx2_t))) = Err EOutOfFuel /\
    tget cx2_t (bytes_to_nibbles [x12]) = [x61].
  Proof.
    split; [reflexivity|]. split; [|split].
    - split; [reflexivity|]. split; [right; vm_compute; reflexivity|]. unfold stored. conj_compute.
    - vm_compute. reflexivity.
    - reflexivity.
  Qed.

  (* ---- [nibs_ok p] is needed for traverse: the "nibble" 16 selects the branch VALUE, which
     get_node then treats as a reference ---- *)
  Definition cx3_t : node := NBranch (put 1 (NLeaf [] [x62]) (put 2 (NLeaf [] [x63]) blanks16)) [x61].
  Example cx3 :
    wf cx3_t = true /\ canonical_top cx3_t = true /\
    represents K (store_of_tree K cx3_t) (troot K cx3_t) cx3_t /\
    fst (traverse BN [16] (plain (store_of_tree K cx3_t) (troot K cx3_t))) = Err EInvalidNode /\
    traverse_spec K cx3_t [16] = Ok (ann_hnode K NBlank).
  Proof.
    split; [reflexivity|]. split; [reflexivity|]. split; [|split].
    - split; [reflexivity|]. split; [right; vm_compute; reflexivity|]. unfold stored. conj_compute.
    - vm_compute. reflexivity.
    - reflexivity.
  Qed.
End Keccak.

Check get_node_tref.
Check C01_lookup_total_D.
Check exists_refines.
Check traverse_refines.
Check represents_store_of_tree.
Print Assumptions get_node_tref.
Print Assumptions C01_lookup_total_D.
Print Assumptions exists_refines.
Print Assumptions traverse_refines.
Print Assumptions represents_store_of_tree.
Print Assumptions no_blank_collision_of_cf.
Print Assumptions C01_lookup_total_store_of_tree.
Check no_blank_collision_of_cf.
Check C01_lookup_total_store_of_tree.
Print Assumptions canonical_top_ext_ok.
Print Assumptions ex_get.
Print Assumptions ex_traverse.
Print Assumptions cx1.
Print Assumptions cx2.
Print Assumptions cx3.
