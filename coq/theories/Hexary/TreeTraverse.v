(* Hexary/TreeTraverse.v — tree-level traverse (_traverse_from / traverse), node annotation,
   simulated nodes, and the ordered views used by NodeIterator (next key, items, preorder
   nodes).  Definitions only. *)
From Coq Require Import List NArith ZArith Bool.
From Coq.Init Require Import Byte.
From PyTrie.Base Require Import Bytes Result Nibbles Rlp.
From PyTrie.Hexary Require Import Raw Tree.
Import ListNotations.
Open Scope N_scope.

(* result of traverse(path): the node at the path, or "ended inside a leaf/extension" *)
Inductive tres :=
| TAt (n : node)
| TPartial (reached : nibbles) (n : node) (tail : nibbles).

Fixpoint ttraverse_from (t : node) (k : nibbles) (consumed : nibbles) {struct t} : tres :=
  match k with
  | [] => TAt t
  | r0 :: rt =>
      match t with
      | NBlank => TAt NBlank
      | NLeaf p _ => if key_starts_with p k then TPartial consumed t k else TAt NBlank
      | NExt p c =>
          let '(_, cur_rem, key_rem) := consume_common_prefix p k in
          match cur_rem, key_rem with
          | [], _ => ttraverse_from c key_rem (consumed ++ p)
          | _ :: _, [] => TPartial consumed t k
          | _ :: _, _ :: _ => TAt NBlank
          end
      | NBranch cs _ =>
          (fix pick (cs : list node) (i : nat) {struct cs} : tres :=
             match cs, i with
             | [], _ => TAt NBlank
             | c :: _, O => ttraverse_from c rt (consumed ++ [r0])
             | _ :: cs', S i' => pick cs' i'
             end) cs (N.to_nat r0)
      end
  end.

Definition ttraverse (t : node) (k : nibbles) : tres := ttraverse_from t k [].

(* the public description of a node: sub_segments, value, suffix, node type *)
Record tann := mkTann { a_segs : list nibbles; a_value : bytes; a_suffix : nibbles; a_type : ntype }.

Definition annotate (t : node) : tann :=
  match t with
  | NBlank => mkTann [] [] [] TBlank
  | NLeaf p v => mkTann [] v p TLeaf
  | NExt p _ => mkTann [p] [] [] TExt
  | NBranch cs v =>
      mkTann (flat_map (fun i => if is_nblank (child cs i) then [] else [[i]]) nibble_range) v [] TBranch
  end.

(* simulated node for a partial traversal: the leaf / extension trimmed by the tail *)
Definition simulated (t : node) (tail : nibbles) : node :=
  match t with
  | NLeaf p v => NLeaf (skipn (length tail) p) v
  | NExt p c => NExt (skipn (length tail) p) c
  | _ => t
  end.

(* what a walk sees at a prefix: the annotation of the node there, or of the simulated node *)
Definition describe (t : node) (k : nibbles) : tann :=
  match ttraverse t k with
  | TAt n => annotate n
  | TPartial _ n tail => annotate (simulated n tail)
  end.

(* ---------------- ordered views ---------------- *)
(* keys strictly greater than q, in tuple order: the least one *)
Definition least_above (J : bindings) (q : option nibbles) : option nibbles :=
  fold_left (fun best (e : nibbles * bytes) =>
               let k := fst e in
               let above := match q with None => true | Some q => nibbles_ltb q k end in
               if above then
                 match best with
                 | None => Some k
                 | Some b => if nibbles_ltb k b then Some k else best
                 end
               else best) J None.

(* preorder listing of the nodes of a tree with their prefixes: parents first, children
   left to right (NodeIterator.nodes); an extension's child is visited at prefix ++ path *)
Fixpoint tnodes (t : node) (prefix : nibbles) {struct t} : list (nibbles * node) :=
  match t with
  | NBlank => [(prefix, t)]
  | NLeaf _ _ => [(prefix, t)]
  | NExt p c => (prefix, t) :: tnodes c (prefix ++ p)
  | NBranch cs _ =>
      (prefix, t) ::
      (fix go (cs : list node) (i : N) : list (nibbles * node) :=
         match cs with
         | [] => []
         | c :: cs' => (if is_nblank c then [] else tnodes c (prefix ++ [i])) ++ go cs' (i + 1)
         end) cs 0
  end.

(* items(): for every visited node with a value, prefix ++ suffix and the value *)
Definition titems (t : node) : bindings :=
  flat_map (fun e : nibbles * node =>
              let a := annotate (snd e) in
              if nonempty (a_value a) then [(fst e ++ a_suffix a, a_value a)] else [])
           (tnodes t []).

(* ---------------- NodeIterator at tree level ---------------- *)
(* _get_next_key: the left-most key within a node (the value of a branch comes first) *)
Fixpoint tnext_key (t : node) (traversed : nibbles) {struct t} : option nibbles :=
  match t with
  | NBlank => None
  | NLeaf p v => if nonempty v then Some (traversed ++ p) else None
  | NExt p c => tnext_key c (traversed ++ p)
  | NBranch cs v =>
      if nonempty v then Some traversed
      else (fix first (cs : list node) (i : N) : option nibbles :=
              match cs with
              | [] => None
              | c :: cs' => if is_nblank c then first cs' (i + 1) else tnext_key c (traversed ++ [i])
              end) cs 0
  end.

(* _get_key_after: the least key strictly greater than [key] within a node *)
Fixpoint tkey_after (t : node) (key : nibbles) (traversed : nibbles) {struct t} : option nibbles :=
  match t with
  | NBlank => None
  | NLeaf p v => if nibbles_ltb key p then Some (traversed ++ p) else None
  | NExt p c =>
      if nibbles_ltb p (firstn (length p) key) then None
      else
        let '(_, key_rem, seg_rem) := consume_common_prefix key p in
        match seg_rem with
        | [] => tkey_after c key_rem (traversed ++ p)
        | _ => tnext_key c (traversed ++ p)
        end
  | NBranch cs v =>
      (fix scan (cs : list node) (i : N) : option nibbles :=
         match cs with
         | [] => None
         | c :: cs' =>
             if is_nblank c then scan cs' (i + 1)
             else
               match key with
               | [] => tnext_key c (traversed ++ [i])
               | k0 :: krem =>
                   if i <? k0 then scan cs' (i + 1)
                   else if i =? k0 then
                     match tkey_after c krem (traversed ++ [i]) with
                     | None => scan cs' (i + 1)
                     | Some r => Some r
                     end
                   else tnext_key c (traversed ++ [i])
               end
         end) cs 0
  end.
