(* Hexary/D_read.v — the read path of Hexary/D.v over plain stores:
   monotonicity in the store, truthful Missing* reports, determinism over
   content-addressed stores, soundness / completeness of get_from_proof. *)
From Coq Require Import List NArith ZArith Bool Lia.
From Coq.Init Require Import Byte.
From PyTrie.Base Require Import Bytes Bytes_proofs Result AMap AMap_proofs Nibbles Nibbles_proofs Rlp.
From PyTrie.Db Require Import ScratchDb.
From PyTrie.Hexary Require Import Raw D.
Import ListNotations.
Open Scope N_scope.

(* ------------------------------------------------------------------ *)
(* stepping through the state-and-error monad *)
Ltac mstep :=
  unfold bind, lift, ret, fail, getst, catch; cbn beta iota.

Section DRead.
  Variable H : bytes -> bytes.
  Variable BNH : bytes.

  Definition content_addressed (m : amap bytes) : Prop :=
    forall h b, aget m h = Some b -> h = H b.
  Definition cf (S : list bytes) : Prop :=
    forall x y, In x S -> In y S -> H x = H y -> x = y.
  Definition sub_store (m1 m2 : amap bytes) : Prop :=
    forall h b, aget m1 h = Some b -> aget m2 h = Some b.
  Definition plain (m : amap bytes) (root : bytes) : trie :=
    mkTrie (DPlain (store_of m)) root false [] None.
  Definition bodies (m : amap bytes) : list bytes := map snd m.

  (* a trie whose database is the plain dict m *)
  Definition on (m : amap bytes) (t : trie) : Prop := t_db t = DPlain (store_of m).

  Lemma on_plain m r : on m (plain m r).
  Proof. reflexivity. Qed.

  (* ================================================================ *)
  (* A. the pure read functions, and the monadic ones computed by them *)

  Definition gn (m : amap bytes) (ref : item) : result item :=
    match ref with
    | RStr [] => Ok BLANK
    | RStr h =>
        if bytes_eqb h BNH then Ok BLANK
        else if Nat.ltb (length h) 32 then rlp_decode h
        else match aget m h with
             | Some enc => rlp_decode enc
             | None => Err (EKeyError h)
             end
    | RList _ => Ok ref
    end.

  (* the handler shared by get_node_traversal / _traverse / root_node *)
  Definition mt_handler (h' : option bytes) (p : nibbles) (r : result item) : result item :=
    match r with
    | Ok x => Ok x
    | Err e => match key_error_hash e with
               | Some h => Err (EMissingTraversal (match h' with Some x => x | None => h end) p)
               | None => Err e
               end
    end.

  Definition gnt (m : amap bytes) (ptr : item) (tk rem : nibbles) : result item :=
    mt_handler None (used_key tk rem) (gn m ptr).

  Inductive tstep_out := TDone (r : item * nibbles) | TNext (child : item) (rem' : nibbles).

  Definition tstep (node : item) (rem : nibbles) : result tstep_out :=
    match rem with
    | [] => Ok (TDone (node, []))
    | r0 :: rtail =>
        match get_node_type node with
        | Err e => Err e
        | Ok TBlank => Ok (TDone (BLANK, []))
        | Ok TLeaf =>
            match extract_key node with
            | Err e => Err e
            | Ok lk => if key_starts_with lk rem then Ok (TDone (node, rem))
                       else Ok (TDone (BLANK, []))
            end
        | Ok TExt =>
            match extract_key node with
            | Err e => Err e
            | Ok ck =>
                let '(_, cur_rem, key_rem) := consume_common_prefix ck rem in
                match cur_rem, key_rem with
                | [], _ => Ok (TNext (kv_second node) key_rem)
                | _ :: _, [] => Ok (TDone (node, rem))
                | _ :: _, _ :: _ => Ok (TDone (BLANK, []))
                end
            end
        | Ok TBranch => Ok (TNext (branch_child node r0) rtail)
        end
    end.

  Fixpoint tf (m : amap bytes) (fuel : nat) (node : item) (tk rem : nibbles)
    : result (item * nibbles) :=
    match fuel with
    | O => Err EOutOfFuel
    | S f =>
        match tstep node rem with
        | Err e => Err e
        | Ok (TDone r) => Ok r
        | Ok (TNext c rem') =>
            match gnt m c tk rem' with
            | Err e => Err e
            | Ok n' => tf m f n' tk rem'
            end
        end
    end.

  Definition root_raw (m : amap bytes) (root : bytes) : result item :=
    mt_handler (Some root) [] (gn m (RStr root)).

  Definition ptrav (m : amap bytes) (root : bytes) (tk : nibbles) : result (item * nibbles) :=
    match root_raw m root with
    | Err e => Err e
    | Ok rn => tf m (traverse_fuel tk) rn tk tk
    end.

  Definition get_tail (r : item * nibbles) : result bytes :=
    let '(node, remaining) := r in
    match get_node_type node with
    | Err e => Err e
    | Ok TBlank => Ok []
    | Ok TLeaf =>
        match extract_key node with
        | Err e => Err e
        | Ok lk => if nibbles_eqb remaining lk then Ok (item_bytes (kv_second node)) else Ok []
        end
    | Ok TExt => Ok []
    | Ok TBranch =>
        match remaining with
        | _ :: _ => Err EValidation
        | [] => Ok (item_bytes (branch_value node))
        end
    end.

  Definition p_get (m : amap bytes) (root : bytes) (tk : nibbles) : result bytes :=
    match ptrav m root tk with Err e => Err e | Ok r => get_tail r end.

  Definition wrap_get {A} (root key : bytes) (r : result A) : result A :=
    match r with
    | Ok v => Ok v
    | Err e => match e with
               | Exn 9 [OB h; OL ns] => Err (Exn T_MissingTrieNode [OB h; OB root; OB key; OL ns])
               | _ => Err e
               end
    end.

  Definition pget (m : amap bytes) (root key : bytes) : result bytes :=
    wrap_get root key (p_get m root (bytes_to_nibbles key)).

  Definition pexists (m : amap bytes) (root key : bytes) : result bool :=
    match pget m root key with Err e => Err e | Ok v => Ok (negb (bytes_eqb v [])) end.

  Definition aop (tk : nibbles) (r : item * nibbles) : result hnode :=
    let '(node, remaining) := r in
    match annotate_node node with
    | Err e => Err e
    | Ok a =>
        match remaining with
        | [] => Ok a
        | _ :: _ =>
            match simulated_node a remaining with
            | Err e => Err e
            | Ok sim => Err (ETraversedPartial (used_key tk remaining) a remaining (hnode_obs sim))
            end
        end
    end.

  Definition ptraverse (m : amap bytes) (root : bytes) (tk : nibbles) : result hnode :=
    match ptrav m root tk with Err e => Err e | Ok r => aop tk r end.

  Definition ptraverse_from (m : amap bytes) (raw : item) (tk : nibbles) : result hnode :=
    match tf m (traverse_fuel tk) raw tk tk with Err e => Err e | Ok r => aop tk r end.

  Definition proot_node (m : amap bytes) (root : bytes) : result hnode :=
    match root_raw m root with Err e => Err e | Ok raw => annotate_node raw end.

  (* one step of _get_proof *)
  Inductive pstep_out := PLast | PUpd | PNext (child : item) (adv : nat).

  Definition pstep (node : item) (unproven : nibbles) : result pstep_out :=
    match get_node_type node with
    | Err e => Err e
    | Ok TBlank => Ok PLast
    | Ok TLeaf => Ok PUpd
    | Ok TExt =>
        match extract_key node with
        | Err e => Err e
        | Ok ck => if key_starts_with unproven ck then Ok (PNext (kv_second node) (length ck))
                   else Ok PUpd
        end
    | Ok TBranch =>
        match unproven with
        | [] => Ok PUpd
        | u0 :: _ => Ok (PNext (branch_child node u0) 1)
        end
    end.

  Fixpoint gp (m : amap bytes) (fuel : nat) (node : item) (tk : nibbles) (proven : nat)
           (last : list item) : result (list item) :=
    match fuel with
    | O => Err EOutOfFuel
    | S f =>
        match pstep node (skipn proven tk) with
        | Err e => Err e
        | Ok PLast => Ok last
        | Ok PUpd => Ok (last ++ [node])
        | Ok (PNext c adv) =>
            match gn m c with
            | Err e => Err e
            | Ok next => gp m f next tk (proven + adv) (last ++ [node])
            end
        end
    end.

  Definition pget_proof (m : amap bytes) (root key : bytes) : result (list item) :=
    match gn m (RStr root) with
    | Err e => Err e
    | Ok node => gp m (traverse_fuel (bytes_to_nibbles key)) node (bytes_to_nibbles key) 0 []
    end.

  (* ---- the monadic functions are these, and leave the state alone ---- *)
  Lemma get_node_eq m ref t : on m t -> get_node BNH ref t = (gn m ref, t).
  Proof.
    intro Hon. unfold get_node, gn.
    destruct ref as [b|l]; [|reflexivity].
    destruct b as [|b0 b']; [reflexivity|].
    destruct (bytes_eqb (b0 :: b') BNH); [reflexivity|].
    destruct (Nat.ltb (length (b0 :: b')) 32); [reflexivity|].
    unfold bind, db_get, lift. rewrite Hon. unfold store_get, store_of. cbn [cells].
    destruct (aget m (b0 :: b')) as [enc|]; reflexivity.
  Qed.

  Lemma get_node_traversal_eq m ptr tk rem t :
    on m t -> get_node_traversal BNH ptr tk rem t = (gnt m ptr tk rem, t).
  Proof.
    intro Hon. unfold get_node_traversal, catch, gnt, mt_handler.
    rewrite (get_node_eq m ptr t Hon).
    destruct (gn m ptr) as [x|e]; [reflexivity|].
    destruct (key_error_hash e); reflexivity.
  Qed.

  Lemma traverse_from_eq m fuel : forall node tk rem t,
    on m t -> _traverse_from BNH fuel node tk rem t = (tf m fuel node tk rem, t).
  Proof.
    induction fuel as [|f IH]; intros node tk rem t Hon; [reflexivity|].
    cbn [_traverse_from tf]. unfold tstep.
    destruct rem as [|r0 rtail]; [reflexivity|].
    mstep.
    destruct (get_node_type node) as [ty|e]; [|reflexivity].
    destruct ty.
    - reflexivity.
    - destruct (extract_key node) as [lk|e]; [|reflexivity].
      destruct (key_starts_with lk (r0 :: rtail)); reflexivity.
    - destruct (extract_key node) as [ck|e]; [|reflexivity].
      destruct (consume_common_prefix ck (r0 :: rtail)) as [[c cr] kr].
      destruct cr as [|c0 cr'].
      + rewrite (get_node_traversal_eq m _ tk kr t Hon).
        destruct (gnt m (kv_second node) tk kr) as [n'|e]; [|reflexivity].
        apply IH; exact Hon.
      + destruct kr; reflexivity.
    - rewrite (get_node_traversal_eq m _ tk rtail t Hon).
      destruct (gnt m (branch_child node r0) tk rtail) as [n'|e]; [|reflexivity].
      apply IH; exact Hon.
  Qed.

  Lemma root_catch_eq m root t : on m t ->
    catch (get_node BNH (RStr root))
          (fun e => match key_error_hash e with
                    | Some _ => Some (fail (EMissingTraversal root []))
                    | None => None
                    end) t = (root_raw m root, t).
  Proof.
    intro Hon. unfold catch, root_raw, mt_handler. rewrite (get_node_eq m _ t Hon).
    destruct (gn m (RStr root)) as [x|e]; [reflexivity|].
    destruct (key_error_hash e); reflexivity.
  Qed.

  Lemma _traverse_eq m root tk t : on m t -> _traverse BNH root tk t = (ptrav m root tk, t).
  Proof.
    intro Hon. unfold _traverse, ptrav, bind. rewrite (root_catch_eq m root t Hon).
    destruct (root_raw m root) as [rn|e]; [|reflexivity].
    apply traverse_from_eq; exact Hon.
  Qed.

  Lemma _get_eq m root tk t : on m t -> _get BNH root tk t = (p_get m root tk, t).
  Proof.
    intro Hon. unfold _get, p_get, bind. rewrite (_traverse_eq m root tk t Hon).
    destruct (ptrav m root tk) as [[node rem]|e]; [|reflexivity].
    unfold get_tail, lift, ret, fail.
    destruct (get_node_type node) as [ty|e]; [|reflexivity].
    destruct ty; try reflexivity.
    - destruct (extract_key node) as [lk|e]; [|reflexivity].
      destruct (nibbles_eqb rem lk); reflexivity.
    - destruct rem; reflexivity.
  Qed.

  Lemma get_eq m key t : on m t -> get BNH key t = (pget m (t_root t) key, t).
  Proof.
    intro Hon. unfold get, pget, bind, getst, catch, wrap_get.
    rewrite (_get_eq m _ _ t Hon).
    destruct (p_get m (t_root t) (bytes_to_nibbles key)) as [v|e]; [reflexivity|].
    destruct e as [tag args].
    repeat (first [reflexivity
                  | match goal with
                    | |- context [match ?x with _ => _ end] => is_var x; destruct x
                    end]).
  Qed.

  Lemma exists_eq m key t : on m t -> exists_ BNH key t = (pexists m (t_root t) key, t).
  Proof.
    intro Hon. unfold exists_, pexists, bind. rewrite (get_eq m key t Hon).
    destruct (pget m (t_root t) key); reflexivity.
  Qed.

  Lemma annotate_or_partial_eq tk r t : annotate_or_partial tk r t = (aop tk r, t).
  Proof.
    unfold annotate_or_partial, aop. destruct r as [node rem]. mstep.
    destruct (annotate_node node) as [a|e]; [|reflexivity].
    destruct rem as [|r0 rem']; [reflexivity|].
    destruct (simulated_node a (r0 :: rem')); reflexivity.
  Qed.

  Lemma traverse_eq m tk t : on m t -> traverse BNH tk t = (ptraverse m (t_root t) tk, t).
  Proof.
    intro Hon. unfold traverse, ptraverse, bind, getst. rewrite (_traverse_eq m _ tk t Hon).
    destruct (ptrav m (t_root t) tk) as [r|e]; [|reflexivity].
    apply annotate_or_partial_eq.
  Qed.

  Lemma traverse_from'_eq m raw tk t :
    on m t -> traverse_from BNH raw tk t = (ptraverse_from m raw tk, t).
  Proof.
    intro Hon. unfold traverse_from, ptraverse_from, bind.
    rewrite (traverse_from_eq m _ raw tk tk t Hon).
    destruct (tf m (traverse_fuel tk) raw tk tk) as [r|e]; [|reflexivity].
    apply annotate_or_partial_eq.
  Qed.

  Lemma root_node_eq m t : on m t -> root_node BNH t = (proot_node m (t_root t), t).
  Proof.
    intro Hon. unfold root_node, proot_node, bind, getst, lift.
    rewrite (root_catch_eq m (t_root t) t Hon).
    destruct (root_raw m (t_root t)); reflexivity.
  Qed.

  Lemma _get_proof_eq m fuel : forall node tk proven last t,
    on m t -> _get_proof BNH fuel node tk proven last t = (gp m fuel node tk proven last, t).
  Proof.
    induction fuel as [|f IH]; intros node tk proven last t Hon; [reflexivity|].
    cbn [_get_proof gp]. unfold pstep. mstep.
    destruct (get_node_type node) as [ty|e]; [|reflexivity].
    destruct ty; try reflexivity.
    - destruct (extract_key node) as [ck|e]; [|reflexivity].
      destruct (key_starts_with (skipn proven tk) ck); [|reflexivity].
      rewrite (get_node_eq m _ t Hon).
      destruct (gn m (kv_second node)) as [next|e]; [|reflexivity].
      apply IH; exact Hon.
    - destruct (skipn proven tk) as [|u0 u']; [reflexivity|].
      rewrite (get_node_eq m _ t Hon).
      destruct (gn m (branch_child node u0)) as [next|e]; [|reflexivity].
      apply IH; exact Hon.
  Qed.

  Lemma get_proof_eq m key t :
    on m t -> get_proof BNH key t = (pget_proof m (t_root t) key, t).
  Proof.
    intro Hon. unfold get_proof, pget_proof, bind, getst.
    rewrite (get_node_eq m _ t Hon).
    destruct (gn m (RStr (t_root t))) as [node|e]; [|reflexivity].
    apply _get_proof_eq; exact Hon.
  Qed.

  (* ================================================================ *)
  (* B. monotonicity in the store *)

  Definition miss9 {A} (m1 m2 : amap bytes) (r : result A) : Prop :=
    exists h p, r = Err (EMissingTraversal h p) /\ aget m1 h = None /\ aget m2 h <> None.

  Lemma gn_sub m1 m2 ref : sub_store m1 m2 ->
    gn m1 ref = gn m2 ref \/
    exists h, ref = RStr h /\ gn m1 ref = Err (EKeyError h) /\ aget m1 h = None /\ aget m2 h <> None.
  Proof.
    intro Hsub. unfold gn.
    destruct ref as [b|l]; [|left; reflexivity].
    destruct b as [|b0 b']; [left; reflexivity|].
    destruct (bytes_eqb (b0 :: b') BNH); [left; reflexivity|].
    destruct (Nat.ltb (length (b0 :: b')) 32); [left; reflexivity|].
    destruct (aget m1 (b0 :: b')) as [enc|] eqn:E1.
    - rewrite (Hsub _ _ E1). left; reflexivity.
    - destruct (aget m2 (b0 :: b')) as [enc2|] eqn:E2.
      + right. exists (b0 :: b'). split; [reflexivity|]. split; [reflexivity|]. split; [exact E1|]. rewrite E2; discriminate.
      + left; reflexivity.
  Qed.

  Lemma mt_handler_sub m1 m2 ref o p : sub_store m1 m2 ->
    (forall x, o = Some x -> ref = RStr x) ->
    mt_handler o p (gn m1 ref) = mt_handler o p (gn m2 ref) \/
    miss9 m1 m2 (mt_handler o p (gn m1 ref)).
  Proof.
    intros Hsub Ho. destruct (gn_sub m1 m2 ref Hsub) as [Heq|(h & Hr & He & Hn1 & Hn2)].
    - left. rewrite Heq. reflexivity.
    - right. rewrite He. cbn [mt_handler key_error_hash EKeyError T_KeyError].
      exists h, p. split; [|split; assumption].
      destruct o as [x|]; [|reflexivity].
      specialize (Ho x eq_refl). rewrite Hr in Ho. injection Ho as ->. reflexivity.
  Qed.

  Lemma gnt_sub m1 m2 ptr tk rem : sub_store m1 m2 ->
    gnt m1 ptr tk rem = gnt m2 ptr tk rem \/ miss9 m1 m2 (gnt m1 ptr tk rem).
  Proof.
    intro Hsub. unfold gnt. apply mt_handler_sub; [exact Hsub|discriminate].
  Qed.

  Lemma root_raw_sub m1 m2 root : sub_store m1 m2 ->
    root_raw m1 root = root_raw m2 root \/ miss9 m1 m2 (root_raw m1 root).
  Proof.
    intro Hsub. unfold root_raw. apply mt_handler_sub; [exact Hsub|].
    intros x Hx. injection Hx as ->. reflexivity.
  Qed.

  Lemma miss9_cast {A B} m1 m2 (r : result A) (r' : result B) :
    (forall e, r = Err e -> r' = Err e) -> miss9 m1 m2 r -> miss9 m1 m2 r'.
  Proof.
    intros Hc (h & p & Hr & Hn). exists h, p. split; [apply Hc; exact Hr|exact Hn].
  Qed.

  Lemma tf_sub m1 m2 fuel : sub_store m1 m2 -> forall node tk rem,
    tf m1 fuel node tk rem = tf m2 fuel node tk rem \/ miss9 m1 m2 (tf m1 fuel node tk rem).
  Proof.
    intro Hsub. induction fuel as [|f IH]; intros node tk rem; [left; reflexivity|].
    cbn [tf]. destruct (tstep node rem) as [[r|c rem']|e]; try (left; reflexivity).
    destruct (gnt_sub m1 m2 c tk rem' Hsub) as [Heq|Hm].
    - rewrite <- Heq. destruct (gnt m1 c tk rem') as [n'|e]; [apply IH|left; reflexivity].
    - right. revert Hm. apply miss9_cast. intros e He. rewrite He. reflexivity.
  Qed.

  Lemma ptrav_sub m1 m2 root tk : sub_store m1 m2 ->
    ptrav m1 root tk = ptrav m2 root tk \/ miss9 m1 m2 (ptrav m1 root tk).
  Proof.
    intro Hsub. unfold ptrav. destruct (root_raw_sub m1 m2 root Hsub) as [Heq|Hm].
    - rewrite <- Heq. destruct (root_raw m1 root) as [rn|e]; [apply tf_sub; exact Hsub|left; reflexivity].
    - right. revert Hm. apply miss9_cast. intros e He. rewrite He. reflexivity.
  Qed.

  Lemma p_get_sub m1 m2 root tk : sub_store m1 m2 ->
    p_get m1 root tk = p_get m2 root tk \/ miss9 m1 m2 (p_get m1 root tk).
  Proof.
    intro Hsub. unfold p_get. destruct (ptrav_sub m1 m2 root tk Hsub) as [Heq|Hm].
    - rewrite Heq. left; reflexivity.
    - right. revert Hm. apply miss9_cast. intros e He. rewrite He. reflexivity.
  Qed.

  Definition miss8 {A} (m1 m2 : amap bytes) (root key : bytes) (r : result A) : Prop :=
    exists h p, r = Err (EMissingTrieNode h root key (Some p)) /\ aget m1 h = None /\ aget m2 h <> None.

  (* the unified form: on a sub-store a read gives the same result, or reports a node
     that really is missing from the sub-store (and present in the larger one) *)
  Lemma pget_sub m1 m2 root key : sub_store m1 m2 ->
    pget m1 root key = pget m2 root key \/ miss8 m1 m2 root key (pget m1 root key).
  Proof.
    intro Hsub. unfold pget. destruct (p_get_sub m1 m2 root (bytes_to_nibbles key) Hsub) as [Heq|Hm].
    - rewrite Heq. left; reflexivity.
    - right. destruct Hm as (h & p & Hr & Hn). exists h, p. split; [|exact Hn].
      rewrite Hr. reflexivity.
  Qed.

  Lemma ptraverse_sub m1 m2 root tk : sub_store m1 m2 ->
    ptraverse m1 root tk = ptraverse m2 root tk \/ miss9 m1 m2 (ptraverse m1 root tk).
  Proof.
    intro Hsub. unfold ptraverse. destruct (ptrav_sub m1 m2 root tk Hsub) as [Heq|Hm].
    - rewrite Heq. left; reflexivity.
    - right. revert Hm. apply miss9_cast. intros e He. rewrite He. reflexivity.
  Qed.

  Lemma ptraverse_from_sub m1 m2 raw tk : sub_store m1 m2 ->
    ptraverse_from m1 raw tk = ptraverse_from m2 raw tk \/ miss9 m1 m2 (ptraverse_from m1 raw tk).
  Proof.
    intro Hsub. unfold ptraverse_from.
    destruct (tf_sub m1 m2 (traverse_fuel tk) Hsub raw tk tk) as [Heq|Hm].
    - rewrite Heq. left; reflexivity.
    - right. revert Hm. apply miss9_cast. intros e He. rewrite He. reflexivity.
  Qed.

  Lemma proot_node_sub m1 m2 root : sub_store m1 m2 ->
    proot_node m1 root = proot_node m2 root \/ miss9 m1 m2 (proot_node m1 root).
  Proof.
    intro Hsub. unfold proot_node. destruct (root_raw_sub m1 m2 root Hsub) as [Heq|Hm].
    - rewrite Heq. left; reflexivity.
    - right. revert Hm. apply miss9_cast. intros e He. rewrite He. reflexivity.
  Qed.

  Definition miss7 {A} (m1 m2 : amap bytes) (r : result A) : Prop :=
    exists h, r = Err (EKeyError h) /\ aget m1 h = None /\ aget m2 h <> None.

  Lemma gp_sub m1 m2 fuel : sub_store m1 m2 -> forall node tk proven last,
    gp m1 fuel node tk proven last = gp m2 fuel node tk proven last \/
    miss7 m1 m2 (gp m1 fuel node tk proven last).
  Proof.
    intro Hsub. induction fuel as [|f IH]; intros node tk proven last; [left; reflexivity|].
    cbn [gp]. destruct (pstep node (skipn proven tk)) as [[| |c adv]|e]; try (left; reflexivity).
    destruct (gn_sub m1 m2 c Hsub) as [Heq|(h & _ & He & Hn)].
    - rewrite <- Heq. destruct (gn m1 c) as [next|e]; [apply IH|left; reflexivity].
    - right. exists h. rewrite He. split; [reflexivity|exact Hn].
  Qed.

  Lemma pget_proof_sub m1 m2 root key : sub_store m1 m2 ->
    pget_proof m1 root key = pget_proof m2 root key \/ miss7 m1 m2 (pget_proof m1 root key).
  Proof.
    intro Hsub. unfold pget_proof.
    destruct (gn_sub m1 m2 (RStr root) Hsub) as [Heq|(h & _ & He & Hn)].
    - rewrite <- Heq. destruct (gn m1 (RStr root)) as [node|e]; [apply gp_sub; exact Hsub|left; reflexivity].
    - right. exists h. rewrite He. split; [reflexivity|exact Hn].
  Qed.

  (* ---- the theorems of part 1, on the monadic functions ---- *)
  Ltac to_pure :=
    repeat first [ rewrite (get_eq _ _ _ (on_plain _ _))
                 | rewrite (exists_eq _ _ _ (on_plain _ _))
                 | rewrite (traverse_eq _ _ _ (on_plain _ _))
                 | rewrite (traverse_from'_eq _ _ _ _ (on_plain _ _))
                 | rewrite (root_node_eq _ _ (on_plain _ _))
                 | rewrite (get_proof_eq _ _ _ (on_plain _ _)) ];
    cbn [fst t_root plain].

  Theorem read_same_or_missing_get m1 m2 r k : sub_store m1 m2 ->
    fst (get BNH k (plain m1 r)) = fst (get BNH k (plain m2 r)) \/
    exists h p, fst (get BNH k (plain m1 r)) = Err (EMissingTrieNode h r k (Some p)) /\
                aget m1 h = None /\ aget m2 h <> None.
  Proof. intro Hsub. to_pure. apply pget_sub; exact Hsub. Qed.

  Theorem read_mono_get m1 m2 r k v : sub_store m1 m2 ->
    fst (get BNH k (plain m1 r)) = Ok v -> fst (get BNH k (plain m2 r)) = Ok v.
  Proof.
    intros Hsub Hg. destruct (read_same_or_missing_get m1 m2 r k Hsub) as [Heq|(h & p & He & _)].
    - rewrite <- Heq. exact Hg.
    - rewrite He in Hg. discriminate.
  Qed.

  Theorem read_fail_get m1 m2 r k e : sub_store m1 m2 ->
    fst (get BNH k (plain m1 r)) = Err e ->
    exn_tag e = T_MissingTrieNode \/ fst (get BNH k (plain m2 r)) = Err e.
  Proof.
    intros Hsub Hg. destruct (read_same_or_missing_get m1 m2 r k Hsub) as [Heq|(h & p & He & _)].
    - right. rewrite <- Heq. exact Hg.
    - left. rewrite He in Hg. injection Hg as <-. reflexivity.
  Qed.

  Theorem read_mono_exists m1 m2 r k v : sub_store m1 m2 ->
    fst (exists_ BNH k (plain m1 r)) = Ok v -> fst (exists_ BNH k (plain m2 r)) = Ok v.
  Proof.
    intros Hsub. to_pure. unfold pexists.
    destruct (pget_sub m1 m2 r k Hsub) as [Heq|(h & p & He & _)].
    - rewrite Heq. trivial.
    - rewrite He. discriminate.
  Qed.

  Theorem read_fail_exists m1 m2 r k e : sub_store m1 m2 ->
    fst (exists_ BNH k (plain m1 r)) = Err e ->
    exn_tag e = T_MissingTrieNode \/ fst (exists_ BNH k (plain m2 r)) = Err e.
  Proof.
    intros Hsub. to_pure. unfold pexists.
    destruct (pget_sub m1 m2 r k Hsub) as [Heq|(h & p & He & _)].
    - rewrite Heq. right; assumption.
    - rewrite He. intro Hg. injection Hg as <-. left; reflexivity.
  Qed.

  Theorem read_same_or_missing_traverse m1 m2 r ns : sub_store m1 m2 ->
    fst (traverse BNH ns (plain m1 r)) = fst (traverse BNH ns (plain m2 r)) \/
    exists h p, fst (traverse BNH ns (plain m1 r)) = Err (EMissingTraversal h p) /\
                aget m1 h = None /\ aget m2 h <> None.
  Proof. intro Hsub. to_pure. apply ptraverse_sub; exact Hsub. Qed.

  Theorem read_mono_traverse m1 m2 r ns v : sub_store m1 m2 ->
    fst (traverse BNH ns (plain m1 r)) = Ok v -> fst (traverse BNH ns (plain m2 r)) = Ok v.
  Proof.
    intros Hsub Hg. destruct (read_same_or_missing_traverse m1 m2 r ns Hsub) as [Heq|(h & p & He & _)].
    - rewrite <- Heq. exact Hg.
    - rewrite He in Hg. discriminate.
  Qed.

  (* covers TraversedPartialPath: that outcome is an [Err] with tag 10, so it is reproduced *)
  Theorem read_fail_traverse m1 m2 r ns e : sub_store m1 m2 ->
    fst (traverse BNH ns (plain m1 r)) = Err e ->
    exn_tag e = T_MissingTraversal \/ fst (traverse BNH ns (plain m2 r)) = Err e.
  Proof.
    intros Hsub Hg. destruct (read_same_or_missing_traverse m1 m2 r ns Hsub) as [Heq|(h & p & He & _)].
    - right. rewrite <- Heq. exact Hg.
    - left. rewrite He in Hg. injection Hg as <-. reflexivity.
  Qed.

  Theorem read_same_or_missing_traverse_from m1 m2 r raw ns : sub_store m1 m2 ->
    fst (traverse_from BNH raw ns (plain m1 r)) = fst (traverse_from BNH raw ns (plain m2 r)) \/
    exists h p, fst (traverse_from BNH raw ns (plain m1 r)) = Err (EMissingTraversal h p) /\
                aget m1 h = None /\ aget m2 h <> None.
  Proof. intro Hsub. to_pure. apply ptraverse_from_sub; exact Hsub. Qed.

  Theorem read_mono_traverse_from m1 m2 r raw ns v : sub_store m1 m2 ->
    fst (traverse_from BNH raw ns (plain m1 r)) = Ok v ->
    fst (traverse_from BNH raw ns (plain m2 r)) = Ok v.
  Proof.
    intros Hsub Hg.
    destruct (read_same_or_missing_traverse_from m1 m2 r raw ns Hsub) as [Heq|(h & p & He & _)].
    - rewrite <- Heq. exact Hg.
    - rewrite He in Hg. discriminate.
  Qed.

  Theorem read_fail_traverse_from m1 m2 r raw ns e : sub_store m1 m2 ->
    fst (traverse_from BNH raw ns (plain m1 r)) = Err e ->
    exn_tag e = T_MissingTraversal \/ fst (traverse_from BNH raw ns (plain m2 r)) = Err e.
  Proof.
    intros Hsub Hg.
    destruct (read_same_or_missing_traverse_from m1 m2 r raw ns Hsub) as [Heq|(h & p & He & _)].
    - right. rewrite <- Heq. exact Hg.
    - left. rewrite He in Hg. injection Hg as <-. reflexivity.
  Qed.

  Theorem read_mono_root_node m1 m2 r v : sub_store m1 m2 ->
    fst (root_node BNH (plain m1 r)) = Ok v -> fst (root_node BNH (plain m2 r)) = Ok v.
  Proof.
    intros Hsub. to_pure. destruct (proot_node_sub m1 m2 r Hsub) as [Heq|(h & p & He & _)].
    - rewrite Heq. trivial.
    - rewrite He. discriminate.
  Qed.

  Theorem read_fail_root_node m1 m2 r e : sub_store m1 m2 ->
    fst (root_node BNH (plain m1 r)) = Err e ->
    exn_tag e = T_MissingTraversal \/ fst (root_node BNH (plain m2 r)) = Err e.
  Proof.
    intros Hsub. to_pure. destruct (proot_node_sub m1 m2 r Hsub) as [Heq|(h & p & He & _)].
    - rewrite Heq. right; assumption.
    - rewrite He. intro Hg. injection Hg as <-. left; reflexivity.
  Qed.

  Theorem read_mono_get_proof m1 m2 r k v : sub_store m1 m2 ->
    fst (get_proof BNH k (plain m1 r)) = Ok v -> fst (get_proof BNH k (plain m2 r)) = Ok v.
  Proof.
    intros Hsub. to_pure. destruct (pget_proof_sub m1 m2 r k Hsub) as [Heq|(h & He & _)].
    - rewrite Heq. trivial.
    - rewrite He. discriminate.
  Qed.

  (* get_proof lets the raw KeyError through *)
  Theorem read_fail_get_proof m1 m2 r k e : sub_store m1 m2 ->
    fst (get_proof BNH k (plain m1 r)) = Err e ->
    exn_tag e = T_KeyError \/ fst (get_proof BNH k (plain m2 r)) = Err e.
  Proof.
    intros Hsub. to_pure. destruct (pget_proof_sub m1 m2 r k Hsub) as [Heq|(h & He & _)].
    - rewrite Heq. right; assumption.
    - rewrite He. intro Hg. injection Hg as <-. left; reflexivity.
  Qed.

  (* ================================================================ *)
  (* C. determinism over stores that never disagree on a key *)

  Definition agree (m1 m2 : amap bytes) : Prop :=
    forall h b1 b2, aget m1 h = Some b1 -> aget m2 h = Some b2 -> b1 = b2.

  Lemma aget_app (m1 m2 : amap bytes) h :
    aget (m1 ++ m2) h = match aget m1 h with Some b => Some b | None => aget m2 h end.
  Proof.
    induction m1 as [|[k0 v0] m1 IH]; cbn [app aget]; [reflexivity|].
    destruct (bytes_eqb h k0); [reflexivity|exact IH].
  Qed.

  Lemma sub_union_l m1 m2 : sub_store m1 (m1 ++ m2).
  Proof. intros h b Hg. rewrite aget_app, Hg. reflexivity. Qed.

  Lemma sub_union_r m1 m2 : agree m1 m2 -> sub_store m2 (m1 ++ m2).
  Proof.
    intros Hag h b Hg. rewrite aget_app. destruct (aget m1 h) as [b1|] eqn:E1; [|exact Hg].
    f_equal. exact (Hag h b1 b E1 Hg).
  Qed.

  Lemma aget_In_bodies (m : amap bytes) h b : aget m h = Some b -> In b (bodies m).
  Proof.
    intro Hg. apply aget_In in Hg. unfold bodies. apply in_map_iff. exists (h, b). split; [reflexivity|exact Hg].
  Qed.

  Lemma cf_incl S S' : incl S' S -> cf S -> cf S'.
  Proof. intros Hi Hc x y Hx Hy. apply Hc; apply Hi; assumption. Qed.

  Lemma ca_cf_agree m1 m2 :
    content_addressed m1 -> content_addressed m2 -> cf (bodies m1 ++ bodies m2) -> agree m1 m2.
  Proof.
    intros Hc1 Hc2 Hcf h b1 b2 H1 H2. apply Hcf.
    - apply in_or_app; left. exact (aget_In_bodies _ _ _ H1).
    - apply in_or_app; right. exact (aget_In_bodies _ _ _ H2).
    - rewrite <- (Hc1 _ _ H1), <- (Hc2 _ _ H2). reflexivity.
  Qed.

  Lemma pget_agree m1 m2 root key v : agree m1 m2 ->
    pget m1 root key = Ok v ->
    pget m2 root key = Ok v \/
    exists h p, pget m2 root key = Err (EMissingTrieNode h root key (Some p)) /\ aget m2 h = None.
  Proof.
    intros Hag Hg.
    destruct (pget_sub m1 (m1 ++ m2) root key (sub_union_l m1 m2)) as [Heq|(h & p & He & _)];
      [|rewrite He in Hg; discriminate].
    destruct (pget_sub m2 (m1 ++ m2) root key (sub_union_r m1 m2 Hag)) as [Heq2|(h & p & He & Hn & _)].
    - left. rewrite Heq2, <- Heq. exact Hg.
    - right. exists h, p. split; assumption.
  Qed.

  Theorem read_deterministic_get_strong m1 m2 r k v :
    content_addressed m1 -> content_addressed m2 -> cf (bodies m1 ++ bodies m2) ->
    fst (get BNH k (plain m1 r)) = Ok v ->
    fst (get BNH k (plain m2 r)) = Ok v \/
    exists h p, fst (get BNH k (plain m2 r)) = Err (EMissingTrieNode h r k (Some p)) /\ aget m2 h = None.
  Proof.
    intros Hc1 Hc2 Hcf. to_pure. apply pget_agree. apply ca_cf_agree; assumption.
  Qed.

  Theorem read_deterministic_get m1 m2 r k v :
    content_addressed m1 -> content_addressed m2 -> cf (bodies m1 ++ bodies m2) ->
    fst (get BNH k (plain m1 r)) = Ok v ->
    fst (get BNH k (plain m2 r)) = Ok v \/
    exists e, fst (get BNH k (plain m2 r)) = Err e /\ exn_tag e = T_MissingTrieNode.
  Proof.
    intros Hc1 Hc2 Hcf Hg.
    destruct (read_deterministic_get_strong m1 m2 r k v Hc1 Hc2 Hcf Hg) as [Hok|(h & p & He & _)].
    - left; exact Hok.
    - right. eexists. split; [exact He|reflexivity].
  Qed.

  Theorem read_deterministic_get_eq m1 m2 r k v1 v2 :
    content_addressed m1 -> content_addressed m2 -> cf (bodies m1 ++ bodies m2) ->
    fst (get BNH k (plain m1 r)) = Ok v1 -> fst (get BNH k (plain m2 r)) = Ok v2 -> v1 = v2.
  Proof.
    intros Hc1 Hc2 Hcf Hg1 Hg2.
    destruct (read_deterministic_get m1 m2 r k v1 Hc1 Hc2 Hcf Hg1) as [Hok|(e & He & _)].
    - rewrite Hok in Hg2. injection Hg2 as ->. reflexivity.
    - rewrite He in Hg2. discriminate.
  Qed.

  (* ================================================================ *)
  (* D. get_from_proof: the store it builds, and soundness *)

  Fixpoint loadp (p : list item) : M unit :=
    match p with
    | [] => ret tt
    | n :: p' => bind (_set_raw_node H BNH n) (fun _ => loadp p')
    end.

  Lemma get_from_proof_unfold root key proof :
    get_from_proof H BNH root key proof =
    match loadp proof (empty_trie BNH false) with
    | (Err e, _) => Err e
    | (Ok _, t) =>
        match get BNH key (mkTrie (t_db t) root false [] None) with
        | (Ok v, _) => Ok v
        | (Err (Exn 8 _), _) => Err EBadTrieProof
        | (Err e, _) => Err e
        end
    end.
  Proof. reflexivity. Qed.

  (* what _set_raw_node does to the dict *)
  Definition pstore_step (acc : amap bytes) (n : item) : amap bytes :=
    if is_blank n then acc
    else let enc := rlp_encode n in
         if Nat.ltb (length enc) 32 then aset acc (H enc) enc
         else if is_blank (RStr (H enc)) then acc     (* H enc = b"" : impossible for a real hash *)
         else aset acc (H enc) enc.

  Definition pstore (acc : amap bytes) (p : list item) : amap bytes := fold_left pstore_step p acc.

  Lemma set_db_value_noprune m k v t : on m t -> t_prune t = false ->
    exists t', _set_db_value k v t = (Ok tt, t') /\ on (aset m k v) t' /\ t_prune t' = false.
  Proof.
    intros Hon Hp. unfold _set_db_value, bind, db_set. rewrite Hon.
    unfold store_of, store_set. cbn [budget cells getst].
    unfold getst. cbn [t_prune with_db]. rewrite Hp.
    eexists. split; [reflexivity|]. split; [reflexivity|exact Hp].
  Qed.

  Lemma set_raw_node_store m n t : on m t -> t_prune t = false -> validate_is_node n = Ok tt ->
    exists h t', _set_raw_node H BNH n t = (Ok h, t') /\ on (pstore_step m n) t' /\ t_prune t' = false.
  Proof.
    intros Hon Hp Hv. unfold _set_raw_node, node_to_db_mapping, pstore_step, bind, lift.
    rewrite Hv. destruct (is_blank n) eqn:Eb.
    - cbn [is_blank BLANK]. eexists _, t. split; [reflexivity|]. split; assumption.
    - destruct (Nat.ltb (length (rlp_encode n)) 32) eqn:El.
      + rewrite Eb.
        destruct (set_db_value_noprune m (H (rlp_encode n)) (rlp_encode n) t Hon Hp) as (t' & Hs & Hon' & Hp').
        rewrite Hs. eexists _, t'. split; [reflexivity|]. split; assumption.
      + destruct (is_blank (RStr (H (rlp_encode n)))) eqn:Eb'.
        * eexists _, t. split; [reflexivity|]. split; assumption.
        * cbn [item_bytes].
          destruct (set_db_value_noprune m (H (rlp_encode n)) (rlp_encode n) t Hon Hp) as (t' & Hs & Hon' & Hp').
          rewrite Hs. eexists _, t'. split; [reflexivity|]. split; assumption.
  Qed.

  Lemma loadp_store p : forall m t, on m t -> t_prune t = false ->
    Forall (fun n => validate_is_node n = Ok tt) p ->
    exists t', loadp p t = (Ok tt, t') /\ on (pstore m p) t'.
  Proof.
    induction p as [|n p IH]; intros m t Hon Hp Hall.
    - exists t. split; [reflexivity|exact Hon].
    - inversion Hall as [|? ? Hv Hall']; subst.
      destruct (set_raw_node_store m n t Hon Hp Hv) as (h & t1 & Hs & Hon1 & Hp1).
      cbn [loadp]. unfold bind. rewrite Hs.
      destruct (IH _ t1 Hon1 Hp1 Hall') as (t' & Hl & Hon').
      exists t'. split; [exact Hl|exact Hon'].
  Qed.

  Lemma pstore_step_get acc n h b : aget (pstore_step acc n) h = Some b ->
    aget acc h = Some b \/ (h = H (rlp_encode n) /\ b = rlp_encode n).
  Proof.
    unfold pstore_step. destruct (is_blank n); [left; assumption|].
    cbv zeta.
    assert (Hs : aget (aset acc (H (rlp_encode n)) (rlp_encode n)) h = Some b ->
                 aget acc h = Some b \/ (h = H (rlp_encode n) /\ b = rlp_encode n)).
    { rewrite aget_aset. destruct (bytes_eqb h (H (rlp_encode n))) eqn:E.
      - apply bytes_eqb_eq in E. intro Hg. injection Hg as <-. right. split; [exact E|reflexivity].
      - left; assumption. }
    destruct (Nat.ltb (length (rlp_encode n)) 32); [exact Hs|].
    destruct (is_blank (RStr (H (rlp_encode n)))); [left; assumption|exact Hs].
  Qed.

  Lemma pstore_get p : forall acc h b, aget (pstore acc p) h = Some b ->
    aget acc h = Some b \/ exists n, In n p /\ h = H (rlp_encode n) /\ b = rlp_encode n.
  Proof.
    induction p as [|n p IH]; intros acc h b Hg; [left; exact Hg|].
    cbn [pstore fold_left] in Hg. apply IH in Hg. destruct Hg as [Hg|(n' & Hin & Hh)].
    - apply pstore_step_get in Hg. destruct Hg as [Hg|Hh]; [left; exact Hg|].
      right. exists n. split; [left; reflexivity|exact Hh].
    - right. exists n'. split; [right; exact Hin|exact Hh].
  Qed.

  Lemma pstore_ca p : content_addressed (pstore [] p).
  Proof.
    intros h b Hg. apply pstore_get in Hg. destruct Hg as [Hg|(n & _ & -> & ->)]; [discriminate Hg|reflexivity].
  Qed.

  Lemma pstore_agree m p : content_addressed m -> cf (bodies m ++ map rlp_encode p) ->
    agree m (pstore [] p).
  Proof.
    intros Hca Hcf h b1 b2 H1 H2. apply pstore_get in H2.
    destruct H2 as [H2|(n & Hin & Hh & Hb)]; [discriminate H2|].
    apply Hcf.
    - apply in_or_app; left. exact (aget_In_bodies _ _ _ H1).
    - apply in_or_app; right. rewrite Hb. apply in_map. exact Hin.
    - rewrite <- (Hca _ _ H1), Hb. exact Hh.
  Qed.

  Lemma get_from_proof_pure root key proof :
    Forall (fun n => validate_is_node n = Ok tt) proof ->
    get_from_proof H BNH root key proof =
    match pget (pstore [] proof) root key with
    | Ok v => Ok v
    | Err (Exn 8 _) => Err EBadTrieProof
    | Err e => Err e
    end.
  Proof.
    intro Hall. rewrite get_from_proof_unfold.
    destruct (loadp_store proof [] (empty_trie BNH false) eq_refl eq_refl Hall) as (t' & Hl & Hon).
    rewrite Hl.
    rewrite (get_eq (pstore [] proof) key (mkTrie (t_db t') root false [] None) Hon).
    cbn [t_root]. reflexivity.
  Qed.

  (* uses none of Hrlp, H_len, BNH_def *)
  Theorem C03_sound m r k proof v :
    content_addressed m ->
    Forall (fun n => validate_is_node n = Ok tt) proof ->
    cf (bodies m ++ map rlp_encode proof) ->
    fst (get BNH k (plain m r)) = Ok v ->
    get_from_proof H BNH r k proof = Ok v \/ get_from_proof H BNH r k proof = Err EBadTrieProof.
  Proof.
    intros Hca Hall Hcf. to_pure. intro Hg.
    rewrite (get_from_proof_pure r k proof Hall).
    destruct (pget_agree m (pstore [] proof) r k v (pstore_agree m proof Hca Hcf) Hg)
      as [Hok|(h & p & He & _)].
    - left. rewrite Hok. reflexivity.
    - right. rewrite He. reflexivity.
  Qed.

  (* ================================================================ *)
  (* E. Missing* reports are truthful *)

  (* errors that are none of KeyError / MissingTrieNode / MissingTraversal *)
  Definition benign (e : exn) : bool :=
    negb ((exn_tag e =? 7) || (exn_tag e =? 8) || (exn_tag e =? 9)).

  Lemma take_n_err n b e : take_n n b = Err e -> e = EDecode.
  Proof.
    unfold take_n. destruct (blen b <? n); intro Hx; [|discriminate Hx].
    injection Hx as <-. reflexivity.
  Qed.

  Ltac dec_leaf IHi IHl :=
    let Hx := fresh "Hx" in
    intro Hx; try discriminate Hx;
    try (injection Hx as <-);
    try (left; reflexivity); try (right; reflexivity);
    try (left; eapply take_n_err; eassumption);
    try (eapply IHi; eassumption); try (eapply IHl; eassumption).

  Lemma rlp_dec_err fuel :
    (forall b e, rlp_dec_item fuel b = Err e -> e = EDecode \/ e = EOutOfFuel) /\
    (forall b e, rlp_dec_list fuel b = Err e -> e = EDecode \/ e = EOutOfFuel).
  Proof.
    induction fuel as [|f [IHi IHl]]; split; intros b e.
    - cbn [rlp_dec_item]. dec_leaf IHi IHl.
    - cbn [rlp_dec_list]. dec_leaf IHi IHl.
    - cbn [rlp_dec_item]. destruct b as [|x rest]; [dec_leaf IHi IHl|].
      repeat match goal with
             | |- context [if ?c then _ else _] => destruct c
             | |- context [match take_n ?a ?r with _ => _ end] =>
                 let E := fresh "E" in destruct (take_n a r) as [[? ?]|?] eqn:E
             | |- context [match rlp_dec_list f ?r with _ => _ end] =>
                 let E := fresh "E" in destruct (rlp_dec_list f r) as [?|?] eqn:E
             end; dec_leaf IHi IHl.
    - cbn [rlp_dec_list]. destruct b as [|x rest]; [dec_leaf IHi IHl|].
      destruct (rlp_dec_item f (x :: rest)) as [[it rest']|e'] eqn:E1; [|dec_leaf IHi IHl].
      destruct (rlp_dec_list f rest') as [l|e'] eqn:E2; dec_leaf IHi IHl.
  Qed.

  Lemma rlp_decode_err b e : rlp_decode b = Err e -> key_error_hash e = None /\ benign e = true.
  Proof.
    unfold rlp_decode.
    destruct (rlp_dec_item (S (S (length b))) b) as [[it [|x rest]]|e'] eqn:E; intro Hx;
      try discriminate Hx; injection Hx as <-.
    - split; reflexivity.
    - destruct (proj1 (rlp_dec_err _) _ _ E) as [->| ->]; split; reflexivity.
  Qed.

  Definition hashed (h : bytes) : Prop :=
    h <> [] /\ bytes_eqb h BNH = false /\ Nat.ltb (length h) 32 = false.

  Lemma gn_err m ref e : gn m ref = Err e ->
    (exists h, ref = RStr h /\ e = EKeyError h /\ aget m h = None /\ hashed h) \/
    (key_error_hash e = None /\ benign e = true).
  Proof.
    unfold gn. destruct ref as [b|l]; [|discriminate].
    destruct b as [|b0 b']; [discriminate|].
    destruct (bytes_eqb (b0 :: b') BNH) eqn:Eb; [discriminate|].
    destruct (Nat.ltb (length (b0 :: b')) 32) eqn:El.
    - intro Hx. right. exact (rlp_decode_err _ _ Hx).
    - destruct (aget m (b0 :: b')) as [enc|] eqn:Ea.
      + intro Hx. right. exact (rlp_decode_err _ _ Hx).
      + intro Hx. injection Hx as <-. left. exists (b0 :: b').
        split; [reflexivity|]. split; [reflexivity|]. split; [exact Ea|].
        split; [discriminate|]. split; assumption.
  Qed.

  Lemma mt_handler_err m ref o p e : mt_handler o p (gn m ref) = Err e ->
    (exists h, ref = RStr h /\ e = EMissingTraversal (match o with Some x => x | None => h end) p /\
               aget m h = None /\ hashed h) \/
    benign e = true.
  Proof.
    unfold mt_handler. destruct (gn m ref) as [x|e0] eqn:E; [discriminate|].
    destruct (gn_err m ref e0 E) as [(h & Hr & He & Hn & Hh)|[Hk Hb]].
    - subst e0. cbn [key_error_hash EKeyError T_KeyError]. intro Hx. injection Hx as <-.
      left. exists h. repeat split; try assumption; apply Hh.
    - rewrite Hk. intro Hx. injection Hx as <-. right; exact Hb.
  Qed.

  Lemma decode_key_err k e : decode_key k = Err e -> benign e = true.
  Proof.
    destruct k as [b|l]; cbn [decode_key]; [|intro Hx; injection Hx as <-; reflexivity].
    unfold decode_nibbles. destruct (bytes_to_nibbles b); intro Hx; [|discriminate Hx].
    injection Hx as <-. reflexivity.
  Qed.

  Lemma get_node_type_err n e : get_node_type n = Err e -> benign e = true.
  Proof.
    destruct n as [[|b0 b']|l]; cbn [get_node_type]; [discriminate| |].
    - intro Hx; injection Hx as <-; reflexivity.
    - destruct l as [|k [|v [|x l']]].
      + intro Hx; injection Hx as <-; reflexivity.
      + intro Hx; injection Hx as <-; reflexivity.
      + unfold rbind. destruct (decode_key k) as [ns|e'] eqn:E; [discriminate|].
        intro Hx; injection Hx as <-. exact (decode_key_err _ _ E).
      + destruct (Nat.eqb (length (k :: v :: x :: l')) 17); [discriminate|].
        intro Hx; injection Hx as <-; reflexivity.
  Qed.

  Lemma extract_key_err n e : extract_key n = Err e -> benign e = true.
  Proof.
    unfold extract_key.
    destruct n as [b|l]; [intro Hx; injection Hx as <-; reflexivity|].
    destruct l as [|k [|v [|x l']]]; try (intro Hx; injection Hx as <-; reflexivity).
    unfold rbind. destruct (decode_key k) as [ns|e'] eqn:E; [discriminate|].
    intro Hx; injection Hx as <-. exact (decode_key_err _ _ E).
  Qed.

  Lemma tstep_err node rem e : tstep node rem = Err e -> benign e = true.
  Proof.
    unfold tstep. destruct rem as [|r0 rtail]; [discriminate|].
    destruct (get_node_type node) as [ty|e'] eqn:Et;
      [|intro Hx; injection Hx as <-; exact (get_node_type_err _ _ Et)].
    destruct ty; try discriminate.
    - destruct (extract_key node) as [lk|e'] eqn:Ek;
        [|intro Hx; injection Hx as <-; exact (extract_key_err _ _ Ek)].
      destruct (key_starts_with lk (r0 :: rtail)); discriminate.
    - destruct (extract_key node) as [ck|e'] eqn:Ek;
        [|intro Hx; injection Hx as <-; exact (extract_key_err _ _ Ek)].
      destruct (consume_common_prefix ck (r0 :: rtail)) as [[c cr] kr].
      destruct cr; [discriminate|]. destruct kr; discriminate.
  Qed.

  Lemma get_tail_err r e : get_tail r = Err e -> benign e = true.
  Proof.
    unfold get_tail. destruct r as [node rem].
    destruct (get_node_type node) as [ty|e'] eqn:Et;
      [|intro Hx; injection Hx as <-; exact (get_node_type_err _ _ Et)].
    destruct ty; try discriminate.
    - destruct (extract_key node) as [lk|e'] eqn:Ek;
        [|intro Hx; injection Hx as <-; exact (extract_key_err _ _ Ek)].
      destruct (nibbles_eqb rem lk); discriminate.
    - destruct rem; [discriminate|]. intro Hx; injection Hx as <-; reflexivity.
  Qed.

  (* the path relation *)
  Definition child_at (node : item) (pre : nibbles) (c : item) : Prop :=
    (get_node_type node = Ok TBranch /\ exists i, pre = [i] /\ c = branch_child node i) \/
    (get_node_type node = Ok TExt /\ extract_key node = Ok pre /\ c = kv_second node).

  (* [ref_at m ref pre out]: starting at reference [ref], resolving references through
     get_node over the store [m], following the branch slots / fully consumed extension
     paths spelled by [pre], one arrives at the reference [out] (not yet resolved). *)
  Inductive ref_at (m : amap bytes) : item -> nibbles -> item -> Prop :=
  | ra_here ref : ref_at m ref [] ref
  | ra_step ref node pre c rest out :
      gn m ref = Ok node -> child_at node pre c -> ref_at m c rest out ->
      ref_at m ref (pre ++ rest) out.

  Lemma ref_at_snoc m a p b node pre c :
    ref_at m a p b -> gn m b = Ok node -> child_at node pre c -> ref_at m a (p ++ pre) c.
  Proof.
    intros Hra Hg Hc. induction Hra as [ref|ref node0 pre0 c0 rest out Hg0 Hc0 Hra IH].
    - cbn [app]. rewrite <- (app_nil_r pre). eapply ra_step; [exact Hg|exact Hc|apply ra_here].
    - rewrite <- app_assoc. eapply ra_step; [exact Hg0|exact Hc0|]. apply IH; exact Hg.
  Qed.

  Lemma tstep_next node rem c rem' : tstep node rem = Ok (TNext c rem') ->
    exists pre, rem = pre ++ rem' /\ child_at node pre c.
  Proof.
    unfold tstep. destruct rem as [|r0 rtail]; [discriminate|].
    destruct (get_node_type node) as [ty|e'] eqn:Et; [|discriminate].
    destruct ty; try discriminate.
    - destruct (extract_key node) as [lk|e']; [|discriminate].
      destruct (key_starts_with lk (r0 :: rtail)); discriminate.
    - destruct (extract_key node) as [ck|e'] eqn:Ek; [|discriminate].
      pose proof (consume_common_prefix_spec ck (r0 :: rtail)) as Hs.
      destruct (consume_common_prefix ck (r0 :: rtail)) as [[c0 cr] kr].
      destruct Hs as (Hs1 & Hs2 & _).
      destruct cr as [|x cr']; [|destruct kr; discriminate].
      intro Hx. injection Hx as <- <-. rewrite app_nil_r in Hs1. subst c0.
      exists ck. split; [exact Hs2|]. right. repeat split; assumption.
    - intro Hx. injection Hx as <- <-. exists [r0]. split; [reflexivity|].
      left. split; [exact Et|]. exists r0. split; reflexivity.
  Qed.

  Lemma used_key_app (done rem : nibbles) : used_key (done ++ rem) rem = done.
  Proof.
    unfold used_key. rewrite app_length.
    replace (length done + length rem - length rem)%nat with (length done + 0)%nat by lia.
    rewrite firstn_app_2. cbn [firstn]. apply app_nil_r.
  Qed.

  Definition truthful9 (m : amap bytes) (ref0 : item) (done rem : nibbles) (e : exn) : Prop :=
    exists h pre post,
      e = EMissingTraversal h (done ++ pre) /\ rem = pre ++ post /\
      ref_at m ref0 (done ++ pre) (RStr h) /\ aget m h = None /\ hashed h.

  Lemma tf_err m fuel : forall ref0 done ref node rem e,
    ref_at m ref0 done ref -> gn m ref = Ok node ->
    tf m fuel node (done ++ rem) rem = Err e ->
    benign e = true \/ truthful9 m ref0 done rem e.
  Proof.
    induction fuel as [|f IH]; intros ref0 done ref node rem e Hra Hg.
    - cbn [tf]. intro Hx; injection Hx as <-. left; reflexivity.
    - cbn [tf]. destruct (tstep node rem) as [[r|c rem']|e'] eqn:Es.
      + discriminate.
      + destruct (tstep_next _ _ _ _ Es) as (pre1 & Hrem & Hc).
        pose proof (ref_at_snoc m ref0 done ref node pre1 c Hra Hg Hc) as Hra'.
        subst rem. rewrite app_assoc.
        destruct (gnt m c ((done ++ pre1) ++ rem') rem') as [n'|e'] eqn:Eg.
        * intro Hx. unfold gnt, mt_handler in Eg.
          destruct (gn m c) as [x|e0] eqn:Egn; [|destruct (key_error_hash e0); discriminate Eg].
          injection Eg as ->.
          destruct (IH ref0 (done ++ pre1) c n' rem' e Hra' Egn Hx)
            as [Hb|(h & pre & post & He & Hr & Hra2 & Hn & Hh)]; [left; exact Hb|].
          right. exists h, (pre1 ++ pre), post. rewrite (app_assoc done pre1 pre).
          split; [exact He|]. split; [rewrite Hr; rewrite app_assoc; reflexivity|].
          split; [exact Hra2|]. split; assumption.
        * intro Hx; injection Hx as <-. unfold gnt in Eg.
          destruct (mt_handler_err m c None _ e' Eg) as [(h & Hr & He & Hn & Hh)|Hb]; [|left; exact Hb].
          right. exists h, pre1, rem'. rewrite used_key_app in He.
          split; [exact He|]. split; [reflexivity|]. subst c.
          split; [exact Hra'|]. split; assumption.
      + intro Hx; injection Hx as <-. left. exact (tstep_err _ _ _ Es).
  Qed.

  Lemma ptrav_err m root tk e : ptrav m root tk = Err e ->
    benign e = true \/ truthful9 m (RStr root) [] tk e.
  Proof.
    unfold ptrav. destruct (root_raw m root) as [rn|e'] eqn:Er.
    - unfold root_raw, mt_handler in Er.
      destruct (gn m (RStr root)) as [x|e0] eqn:Egn; [|destruct (key_error_hash e0); discriminate Er].
      injection Er as ->. intro Hx.
      exact (tf_err m _ (RStr root) [] (RStr root) rn tk e (ra_here m _) Egn Hx).
    - intro Hx; injection Hx as <-. unfold root_raw in Er.
      destruct (mt_handler_err m _ _ _ e' Er) as [(h & Hr & He & Hn & Hh)|Hb]; [|left; exact Hb].
      injection Hr as <-. right. exists root, [], tk.
      split; [exact He|]. split; [reflexivity|]. split; [apply ra_here|]. split; assumption.
  Qed.

  Lemma wrap_get_benign {A} root key e : benign e = true ->
    @wrap_get A root key (Err e) = Err e.
  Proof.
    intro Hb. destruct e as [tag args]. unfold wrap_get.
    repeat match goal with
           | |- context [match ?x with _ => _ end] => is_var x; destruct x
           end; try reflexivity; discriminate Hb.
  Qed.

  Theorem C07_truthful_get m r k h r' k' p :
    fst (get BNH k (plain m r)) = Err (Exn T_MissingTrieNode [OB h; OB r'; OB k'; OL p]) ->
    aget m h = None /\ r' = r /\ k' = k /\ hashed h /\
    exists pre post, bytes_to_nibbles k = pre ++ post /\ p = map oN pre /\
                     ref_at m (RStr r) pre (RStr h).
  Proof.
    to_pure. unfold pget, p_get.
    destruct (ptrav m r (bytes_to_nibbles k)) as [res|e] eqn:Et.
    - destruct (get_tail res) as [v|e] eqn:Eg; [discriminate|].
      rewrite (wrap_get_benign r k e (get_tail_err _ _ Eg)).
      intro Hx; injection Hx as ->. apply get_tail_err in Eg. discriminate Eg.
    - destruct (ptrav_err m r _ e Et) as [Hb|(h0 & pre & post & He & Hr & Hra & Hn & Hh)].
      + rewrite (wrap_get_benign r k e Hb). intro Hx; injection Hx as ->. discriminate Hb.
      + subst e. cbn [app wrap_get EMissingTraversal T_MissingTraversal onibs].
        intro Hx. injection Hx as <- <- <- <-.
        repeat split; try assumption; try apply Hh.
        exists pre, post. repeat split; assumption.
  Qed.

  Lemma nibbles_to_bytes_err ns e : nibbles_to_bytes ns = Err e -> benign e = true.
  Proof.
    unfold nibbles_to_bytes. destruct (negb (nibs_ok ns)); [intro Hx; injection Hx as <-; reflexivity|].
    destruct (Nat.odd (length ns)); [intro Hx; injection Hx as <-; reflexivity|discriminate].
  Qed.

  Lemma encode_nibbles_err ns e : encode_nibbles ns = Err e -> benign e = true.
  Proof. unfold encode_nibbles. apply nibbles_to_bytes_err. Qed.

  Lemma annotate_node_err n e : annotate_node n = Err e -> benign e = true.
  Proof.
    unfold annotate_node, rbind.
    destruct (get_node_type n) as [ty|e'] eqn:Et;
      [|intro Hx; injection Hx as <-; exact (get_node_type_err _ _ Et)].
    destruct ty; try discriminate;
      (destruct (extract_key n) as [k|e'] eqn:Ek; [discriminate|];
       intro Hx; injection Hx as <-; exact (extract_key_err _ _ Ek)).
  Qed.

  Lemma simulated_node_err a tail e : simulated_node a tail = Err e -> benign e = true.
  Proof.
    unfold simulated_node. destruct tail as [|t0 tail']; [intro Hx; injection Hx as <-; reflexivity|].
    destruct (h_segs a) as [|ext [|ext2 segs]].
    - destruct (negb (key_starts_with (h_suffix a) (t0 :: tail')));
        [intro Hx; injection Hx as <-; reflexivity|].
      unfold rbind, compute_leaf_key.
      destruct (encode_nibbles _) as [k|e'] eqn:Ee; [discriminate|].
      intro Hx; injection Hx as <-. exact (encode_nibbles_err _ _ Ee).
    - destruct (negb (key_starts_with ext (t0 :: tail')));
        [intro Hx; injection Hx as <-; reflexivity|].
      destruct (Nat.eqb (length (t0 :: tail')) (length ext));
        [intro Hx; injection Hx as <-; reflexivity|].
      unfold rbind, compute_extension_key.
      destruct (encode_nibbles _) as [k|e'] eqn:Ee; [discriminate|].
      intro Hx; injection Hx as <-. exact (encode_nibbles_err _ _ Ee).
    - intro Hx; injection Hx as <-; reflexivity.
  Qed.

  Lemma aop_err tk r e : aop tk r = Err e -> benign e = true.
  Proof.
    unfold aop. destruct r as [node rem].
    destruct (annotate_node node) as [a|e'] eqn:Ea;
      [|intro Hx; injection Hx as <-; exact (annotate_node_err _ _ Ea)].
    destruct rem as [|r0 rem']; [discriminate|].
    destruct (simulated_node a (r0 :: rem')) as [sim|e'] eqn:Es;
      intro Hx; injection Hx as <-; [reflexivity|exact (simulated_node_err _ _ _ Es)].
  Qed.

  Theorem C07_truthful_traverse m r ns h p :
    fst (traverse BNH ns (plain m r)) = Err (Exn T_MissingTraversal [OB h; OL p]) ->
    aget m h = None /\ hashed h /\
    exists pre post, ns = pre ++ post /\ p = map oN pre /\ ref_at m (RStr r) pre (RStr h).
  Proof.
    to_pure. unfold ptraverse.
    destruct (ptrav m r ns) as [res|e] eqn:Et.
    - intro Hx. apply aop_err in Hx. discriminate Hx.
    - intro Hx. injection Hx as ->.
      destruct (ptrav_err m r _ _ Et) as [Hb|(h0 & pre & post & He & Hr & Hra & Hn & Hh)];
        [discriminate Hb|].
      cbn [app] in He, Hra. injection He as Eh Ep. subst h0 p.
      split; [exact Hn|]. split; [exact Hh|]. exists pre, post. repeat split; assumption.
  Qed.

  (* the same for traverse_from, when the start node is given inline (a list item) *)
  Theorem C07_truthful_traverse_from m r l ns h p :
    fst (traverse_from BNH (RList l) ns (plain m r)) = Err (Exn T_MissingTraversal [OB h; OL p]) ->
    aget m h = None /\ hashed h /\
    exists pre post, ns = pre ++ post /\ p = map oN pre /\ ref_at m (RList l) pre (RStr h).
  Proof.
    to_pure. unfold ptraverse_from.
    destruct (tf m (traverse_fuel ns) (RList l) ns ns) as [res|e] eqn:Et.
    - intro Hx. apply aop_err in Hx. discriminate Hx.
    - intro Hx. injection Hx as ->.
      destruct (tf_err m _ (RList l) [] (RList l) (RList l) ns _ (ra_here m _) eq_refl Et)
        as [Hb|(h0 & pre & post & He & Hr & Hra & Hn & Hh)]; [discriminate Hb|].
      cbn [app] in He, Hra. injection He as Eh Ep. subst h0 p.
      split; [exact Hn|]. split; [exact Hh|]. exists pre, post. repeat split; assumption.
  Qed.

  (* ================================================================ *)
  (* F. a proof that withholds a node the read needs is rejected *)

  (* "the read of k from root r uses the store entry h": without it the read stops
     with MissingTrieNode(h) *)
  Definition reads_entry (m : amap bytes) (r k h : bytes) : Prop :=
    exists p, fst (get BNH k (plain (adel m h) r)) = Err (EMissingTrieNode h r k (Some p)).

  Lemma sub_adel (m : amap bytes) h : sub_store (adel m h) m.
  Proof.
    intros x b. rewrite aget_adel. destruct (bytes_eqb x h); [discriminate|trivial].
  Qed.

  Lemma pget_withheld m P root key h p : agree m P -> aget P h = None ->
    pget (adel m h) root key = Err (EMissingTrieNode h root key (Some p)) ->
    exists h' p', pget P root key = Err (EMissingTrieNode h' root key (Some p')) /\ aget P h' = None.
  Proof.
    intros Hag HP Hg.
    assert (Hag' : agree (adel m h) P).
    { intros x b1 b2 H1 H2. apply (Hag x); [exact (sub_adel m h x b1 H1)|exact H2]. }
    assert (HU : aget (adel m h ++ P) h = None).
    { rewrite aget_app, aget_adel, bytes_eqb_refl. exact HP. }
    assert (HgU : pget (adel m h ++ P) root key = Err (EMissingTrieNode h root key (Some p))).
    { destruct (pget_sub (adel m h) (adel m h ++ P) root key (sub_union_l _ _))
        as [Heq|(h1 & p1 & He & _ & Hn2)].
      - rewrite <- Heq. exact Hg.
      - rewrite He in Hg. injection Hg as -> _. contradiction. }
    destruct (pget_sub P (adel m h ++ P) root key (sub_union_r _ _ Hag'))
      as [Heq|(h1 & p1 & He & Hn1 & _)].
    - exists h, p. rewrite Heq. split; [exact HgU|exact HP].
    - exists h1, p1. split; assumption.
  Qed.

  (* uses none of Hrlp, H_len, BNH_def; the honest read need not even succeed *)
  Theorem C03_withheld m r k proof h :
    content_addressed m ->
    Forall (fun n => validate_is_node n = Ok tt) proof ->
    cf (bodies m ++ map rlp_encode proof) ->
    reads_entry m r k h ->
    (forall n, In n proof -> H (rlp_encode n) <> h) ->
    get_from_proof H BNH r k proof = Err EBadTrieProof.
  Proof.
    intros Hca Hall Hcf [p Hre] Hno. revert Hre. to_pure. intro Hre.
    rewrite (get_from_proof_pure r k proof Hall).
    assert (HP : aget (pstore [] proof) h = None).
    { destruct (aget (pstore [] proof) h) as [b|] eqn:E; [|reflexivity].
      apply pstore_get in E. destruct E as [E|(n & Hin & Hh & _)]; [discriminate E|].
      exfalso. apply (Hno n Hin). symmetry; exact Hh. }
    destruct (pget_withheld m (pstore [] proof) r k h p (pstore_agree m proof Hca Hcf) HP Hre)
      as (h' & p' & He & _).
    rewrite He. reflexivity.
  Qed.

  (* ================================================================ *)
  (* G. completeness of get_proof / get_from_proof *)

  (* every stored body is the canonical encoding of what it decodes to (true of every
     store the trie writes, given rlp_decode (rlp_encode x) = Ok x) *)
  Definition canonical_bodies (m : amap bytes) : Prop :=
    forall h b n, aget m h = Some b -> rlp_decode b = Ok n -> rlp_encode n = b.

  Definition canonical_bodiesb (m : amap bytes) : bool :=
    forallb (fun e : bytes * bytes =>
               match rlp_decode (snd e) with
               | Ok n => bytes_eqb (rlp_encode n) (snd e)
               | Err _ => true
               end) m.

  Lemma canonical_bodiesb_ok m : canonical_bodiesb m = true -> canonical_bodies m.
  Proof.
    intros Hb h b n Hg Hd. apply aget_In in Hg.
    unfold canonical_bodiesb in Hb. rewrite forallb_forall in Hb.
    specialize (Hb _ Hg). cbn [snd] in Hb. rewrite Hd in Hb. apply bytes_eqb_eq in Hb. exact Hb.
  Qed.

  (* how canonical_bodies follows from the round-trip property of RLP *)
  Lemma canonical_of_encoded m :
    (forall x, rlp_decode (rlp_encode x) = Ok x) ->
    (forall h b, aget m h = Some b -> exists n, b = rlp_encode n) ->
    canonical_bodies m.
  Proof.
    intros Hrlp Henc h b n Hg Hd. destruct (Henc h b Hg) as [n0 ->].
    rewrite Hrlp in Hd. injection Hd as ->. reflexivity.
  Qed.

  Lemma gn_mono_ok m1 m2 ref x : sub_store m1 m2 -> gn m1 ref = Ok x -> gn m2 ref = Ok x.
  Proof.
    intros Hsub Hg. destruct (gn_sub m1 m2 ref Hsub) as [Heq|(h & _ & He & _)].
    - rewrite <- Heq. exact Hg.
    - rewrite He in Hg. discriminate.
  Qed.

  Lemma ref_at_mono m1 m2 a p b : sub_store m1 m2 -> ref_at m1 a p b -> ref_at m2 a p b.
  Proof.
    intros Hsub Hra. induction Hra as [ref|ref node pre c rest out Hg Hc Hra IH].
    - apply ra_here.
    - eapply ra_step; [exact (gn_mono_ok _ _ _ _ Hsub Hg)|exact Hc|exact IH].
  Qed.

  Lemma gp_mono_ok m1 m2 fuel node tk proven last proof : sub_store m1 m2 ->
    gp m1 fuel node tk proven last = Ok proof -> gp m2 fuel node tk proven last = Ok proof.
  Proof.
    intros Hsub Hg. destruct (gp_sub m1 m2 fuel Hsub node tk proven last) as [Heq|(h & He & _)].
    - rewrite <- Heq. exact Hg.
    - rewrite He in Hg. discriminate.
  Qed.

  Lemma gp_prefix m fuel : forall node tk proven last proof,
    gp m fuel node tk proven last = Ok proof -> exists more, proof = last ++ more.
  Proof.
    induction fuel as [|f IH]; intros node tk proven last proof; cbn [gp]; [discriminate|].
    destruct (pstep node (skipn proven tk)) as [[| |c adv]|e]; try discriminate.
    - intro Hx; injection Hx as <-. exists []. symmetry; apply app_nil_r.
    - intro Hx; injection Hx as <-. exists [node]. reflexivity.
    - destruct (gn m c) as [next|e]; [|discriminate]. intro Hx.
      destruct (IH _ _ _ _ _ Hx) as (more & ->). exists ([node] ++ more). symmetry; apply app_assoc.
  Qed.

  Lemma pstep_child node pre c tl :
    child_at node pre c -> pstep node (pre ++ tl) = Ok (PNext c (length pre)).
  Proof.
    intros [[Ht (i & -> & ->)]|(Ht & Hk & ->)]; unfold pstep; rewrite Ht.
    - reflexivity.
    - rewrite Hk, key_starts_with_app. reflexivity.
  Qed.

  Lemma skipn_add_app {A} (pre rest : list A) proven : forall tk,
    skipn proven tk = pre ++ rest -> skipn (proven + length pre) tk = rest.
  Proof.
    induction proven as [|n IH]; intros tk Hs.
    - cbn [skipn Nat.add] in *. subst tk. rewrite skipn_app, skipn_all, Nat.sub_diag. reflexivity.
    - destruct tk as [|x tk'].
      + rewrite skipn_nil in *. symmetry in Hs. apply app_eq_nil in Hs. symmetry; apply Hs.
      + cbn [skipn Nat.add] in *. apply IH. exact Hs.
  Qed.

  (* _get_proof walks every path that spells a prefix of the unproven key, resolves the
     reference it ends at, and records the node found there unless it is blank *)
  Lemma gp_follows m ref pre out : ref_at m ref pre out ->
    forall fuel node tk proven last proof post,
      gn m ref = Ok node ->
      gp m fuel node tk proven last = Ok proof ->
      skipn proven tk = pre ++ post ->
      exists n', gn m out = Ok n' /\ (In n' proof \/ get_node_type n' = Ok TBlank).
  Proof.
    intro Hra. induction Hra as [ref|ref node0 pre0 c rest out Hg0 Hc Hra IH];
      intros fuel node tk proven last proof post Hg Hgp Hsk.
    - exists node. split; [exact Hg|].
      destruct fuel as [|f]; [discriminate Hgp|]. cbn [gp] in Hgp. unfold pstep in Hgp.
      destruct (get_node_type node) as [ty|e] eqn:Et; [|discriminate Hgp].
      assert (Hin : forall pf, (exists more, pf = (last ++ [node]) ++ more) -> In node pf).
      { intros pf (more & ->). apply in_or_app; left. apply in_or_app; right. left; reflexivity. }
      destruct ty.
      + right; reflexivity.
      + left. injection Hgp as <-. apply Hin. exists []. symmetry; apply app_nil_r.
      + left. destruct (extract_key node) as [ck|e]; [|discriminate Hgp].
        destruct (key_starts_with (skipn proven tk) ck).
        * destruct (gn m (kv_second node)) as [next|e]; [|discriminate Hgp].
          apply Hin. exact (gp_prefix _ _ _ _ _ _ _ Hgp).
        * injection Hgp as <-. apply Hin. exists []. symmetry; apply app_nil_r.
      + left. destruct (skipn proven tk) as [|u0 u'].
        * injection Hgp as <-. apply Hin. exists []. symmetry; apply app_nil_r.
        * destruct (gn m (branch_child node u0)) as [next|e]; [|discriminate Hgp].
          apply Hin. exact (gp_prefix _ _ _ _ _ _ _ Hgp).
    - rewrite Hg0 in Hg. injection Hg as ->.
      destruct fuel as [|f]; [discriminate Hgp|]. cbn [gp] in Hgp.
      rewrite <- app_assoc in Hsk. rewrite Hsk, (pstep_child node pre0 c _ Hc) in Hgp.
      destruct (gn m c) as [next|e] eqn:Egc; [|discriminate Hgp].
      apply (IH f next tk (proven + length pre0)%nat (last ++ [node]) proof post eq_refl Hgp).
      apply skipn_add_app. exact Hsk.
  Qed.

  Lemma gn_hashed m h : hashed h ->
    gn m (RStr h) = match aget m h with Some enc => rlp_decode enc | None => Err (EKeyError h) end.
  Proof.
    intros (Hne & Hb & Hl). unfold gn. destruct h as [|b0 b']; [contradiction|].
    rewrite Hb, Hl. reflexivity.
  Qed.

  Lemma type_blank n : get_node_type n = Ok TBlank -> n = RStr [].
  Proof.
    destruct n as [[|b0 b']|l]; cbn [get_node_type]; [reflexivity|discriminate|].
    destruct l as [|k [|v [|x l']]]; try discriminate.
    - unfold rbind. destruct (decode_key k) as [ns|e]; [|discriminate].
      destruct (is_nibbles_terminated ns); discriminate.
    - destruct (Nat.eqb (length (k :: v :: x :: l')) 17); discriminate.
  Qed.

  Lemma pstore_step_keeps acc n h : aget acc h <> None -> aget (pstore_step acc n) h <> None.
  Proof.
    intro Hn. unfold pstore_step. destruct (is_blank n); [exact Hn|]. cbv zeta.
    assert (Hs : aget (aset acc (H (rlp_encode n)) (rlp_encode n)) h <> None).
    { rewrite aget_aset. destruct (bytes_eqb h (H (rlp_encode n))); [discriminate|exact Hn]. }
    destruct (Nat.ltb (length (rlp_encode n)) 32); [exact Hs|].
    destruct (is_blank (RStr (H (rlp_encode n)))); [exact Hn|exact Hs].
  Qed.

  Lemma pstore_keeps p : forall acc h, aget acc h <> None -> aget (pstore acc p) h <> None.
  Proof.
    induction p as [|n p IH]; intros acc h Hn; [exact Hn|].
    cbn [pstore fold_left]. apply IH. apply pstore_step_keeps. exact Hn.
  Qed.

  Lemma pstore_has p : forall acc n, In n p -> is_blank n = false -> H (rlp_encode n) <> [] ->
    aget (pstore acc p) (H (rlp_encode n)) <> None.
  Proof.
    induction p as [|n0 p IH]; intros acc n Hin Hnb Hne; [destruct Hin|].
    cbn [pstore fold_left]. destruct Hin as [->|Hin]; [|apply IH; assumption].
    apply pstore_keeps. unfold pstore_step. rewrite Hnb. cbv zeta.
    assert (Hs : aget (aset acc (H (rlp_encode n)) (rlp_encode n)) (H (rlp_encode n)) <> None).
    { rewrite aget_aset, bytes_eqb_refl. discriminate. }
    destruct (Nat.ltb (length (rlp_encode n)) 32); [exact Hs|].
    destruct (H (rlp_encode n)) as [|x0 x'] eqn:EH; [contradiction|exact Hs].
  Qed.

  Lemma complete_pure m root key proof v :
    content_addressed m -> canonical_bodies m -> BNH = H (rlp_encode (RStr [])) ->
    cf (bodies m ++ map rlp_encode proof) ->
    pget m root key = Ok v -> pget_proof m root key = Ok proof ->
    pget (pstore [] proof) root key = Ok v.
  Proof.
    intros Hca Hcan HBNH Hcf Hg Hp.
    pose proof (pstore_agree m proof Hca Hcf) as Hag.
    destruct (pget_agree m _ root key v Hag Hg) as [Hok|(h & p & He & Hn)]; [exact Hok|].
    exfalso.
    assert (He' : fst (get BNH key (plain (pstore [] proof) root)) =
                  Err (Exn T_MissingTrieNode [OB h; OB root; OB key; OL (map oN p)])).
    { to_pure. exact He. }
    apply C07_truthful_get in He'.
    destruct He' as (_ & _ & _ & Hh & pre & post & Htk & _ & Hra).
    set (U := m ++ pstore [] proof).
    apply (ref_at_mono _ U _ _ _ (sub_union_r _ _ Hag)) in Hra.
    unfold pget_proof in Hp.
    destruct (gn m (RStr root)) as [node|e] eqn:Egr; [|discriminate Hp].
    apply (gn_mono_ok _ U _ _ (sub_union_l _ _)) in Egr.
    apply (gp_mono_ok _ U _ _ _ _ _ _ (sub_union_l _ _)) in Hp.
    destruct (gp_follows U _ _ _ Hra _ _ _ _ _ _ post Egr Hp Htk) as (n' & Hgn & Hin).
    rewrite (gn_hashed U h Hh) in Hgn. unfold U in Hgn. rewrite aget_app, Hn in Hgn.
    destruct (aget m h) as [b|] eqn:Eb.
    2:{ destruct (aget m h); discriminate Hgn. }
    assert (Hb : rlp_decode b = Ok n') by exact Hgn. clear Hgn.
    pose proof (Hcan _ _ _ Eb Hb) as Henc. pose proof (Hca _ _ Eb) as Hhb. rewrite <- Henc in Hhb.
    assert (Hnb : is_blank n' = false).
    { destruct (is_blank n') eqn:E; [|reflexivity]. exfalso.
      destruct n' as [[|x0 x']|l]; try discriminate E.
      rewrite <- HBNH in Hhb. destruct Hh as (_ & Hne & _). subst h.
      rewrite bytes_eqb_refl in Hne. discriminate Hne. }
    destruct Hin as [Hin|Hbl].
    - apply (pstore_has proof [] n' Hin Hnb); [|rewrite <- Hhb; exact Hn].
      rewrite <- Hhb. apply Hh.
    - apply type_blank in Hbl. subst n'. discriminate Hnb.
  Qed.

  (* uses BNH_def; not Hrlp (replaced by canonical_bodies m), not H_len *)
  Theorem C03_complete m r k proof v :
    content_addressed m -> canonical_bodies m -> BNH = H (rlp_encode (RStr [])) ->
    Forall (fun n => validate_is_node n = Ok tt) proof ->
    cf (bodies m ++ map rlp_encode proof) ->
    fst (get BNH k (plain m r)) = Ok v ->
    fst (get_proof BNH k (plain m r)) = Ok proof ->
    get_from_proof H BNH r k proof = Ok v.
  Proof.
    intros Hca Hcan HBNH Hall Hcf. to_pure. intros Hg Hp.
    rewrite (get_from_proof_pure r k proof Hall).
    rewrite (complete_pure m r k proof v Hca Hcan HBNH Hcf Hg Hp). reflexivity.
  Qed.

  (* ---- the general form: whatever the honest read gives (a value or an error) ---- *)
  Lemma pget_err m root key e : pget m root key = Err e ->
    benign e = true \/
    exists h pre post, e = EMissingTrieNode h root key (Some pre) /\
                       bytes_to_nibbles key = pre ++ post /\
                       ref_at m (RStr root) pre (RStr h) /\ aget m h = None /\ hashed h.
  Proof.
    unfold pget, p_get.
    destruct (ptrav m root (bytes_to_nibbles key)) as [res|e0] eqn:Et.
    - destruct (get_tail res) as [v|e0] eqn:Eg; [discriminate|].
      rewrite (wrap_get_benign root key e0 (get_tail_err _ _ Eg)).
      intro Hx; injection Hx as ->. left. exact (get_tail_err _ _ Eg).
    - destruct (ptrav_err m root _ e0 Et) as [Hb|(h0 & pre & post & He & Hr & Hra & Hn & Hh)].
      + rewrite (wrap_get_benign root key e0 Hb). intro Hx; injection Hx as ->. left; exact Hb.
      + subst e0. cbn [app wrap_get EMissingTraversal T_MissingTraversal onibs].
        intro Hx. injection Hx as <-. right. exists h0, pre, post.
        split; [reflexivity|]. split; [exact Hr|]. split; [exact Hra|]. split; assumption.
  Qed.

  Lemma bad_proof_benign {A} e : benign e = true ->
    match e with Exn 8 _ => @Err A EBadTrieProof | _ => Err e end = Err e.
  Proof.
    intro Hb. destruct e as [tag args].
    repeat match goal with
           | |- context [match ?x with _ => _ end] => is_var x; destruct x
           end; try reflexivity; discriminate Hb.
  Qed.

  (* a hashed reference met on the key's path resolves, when get_proof succeeded *)
  Lemma proof_path_present m root key proof h pre post :
    pget_proof m root key = Ok proof -> bytes_to_nibbles key = pre ++ post ->
    ref_at m (RStr root) pre (RStr h) ->
    exists n', gn m (RStr h) = Ok n' /\ (In n' proof \/ get_node_type n' = Ok TBlank).
  Proof.
    intros Hp Htk Hra. unfold pget_proof in Hp.
    destruct (gn m (RStr root)) as [node|e] eqn:Egr; [|discriminate Hp].
    exact (gp_follows m _ _ _ Hra _ _ _ _ _ _ post Egr Hp Htk).
  Qed.

  Lemma complete_pure_gen m root key proof :
    content_addressed m -> canonical_bodies m -> BNH = H (rlp_encode (RStr [])) ->
    cf (bodies m ++ map rlp_encode proof) ->
    pget_proof m root key = Ok proof ->
    pget (pstore [] proof) root key = pget m root key /\
    (forall e, pget m root key = Err e -> benign e = true).
  Proof.
    intros Hca Hcan HBNH Hcf Hp.
    assert (Hben : forall e, pget m root key = Err e -> benign e = true).
    { intros e He. destruct (pget_err m root key e He) as [Hb|(h & pre & post & _ & Htk & Hra & Hn & Hh)];
        [exact Hb|exfalso].
      destruct (proof_path_present m root key proof h pre post Hp Htk Hra) as (n' & Hgn & _).
      rewrite (gn_hashed m h Hh), Hn in Hgn. discriminate Hgn. }
    split; [|exact Hben].
    pose proof (pstore_agree m proof Hca Hcf) as Hag.
    set (P := pstore [] proof) in *. set (U := m ++ P).
    assert (HmU : pget m root key = pget U root key).
    { destruct (pget_sub m U root key (sub_union_l _ _)) as [Heq|(h & p & He & _)]; [exact Heq|].
      apply Hben in He. discriminate He. }
    destruct (pget_sub P U root key (sub_union_r _ _ Hag)) as [Heq|(h & p & He & Hn & _)].
    { rewrite Heq, HmU. reflexivity. }
    exfalso.
    destruct (pget_err P root key _ He) as [Hb|(h0 & pre & post & He0 & Htk & Hra & Hn0 & Hh)];
      [discriminate Hb|].
    apply (ref_at_mono _ U _ _ _ (sub_union_r _ _ Hag)) in Hra.
    assert (HpU : pget_proof U root key = Ok proof).
    { destruct (pget_proof_sub m U root key (sub_union_l _ _)) as [Heq|(h1 & He1 & _)].
      - rewrite <- Heq. exact Hp.
      - rewrite He1 in Hp. discriminate Hp. }
    destruct (proof_path_present U root key proof h0 pre post HpU Htk Hra) as (n' & Hgn & Hin).
    rewrite (gn_hashed U h0 Hh) in Hgn. unfold U in Hgn. rewrite aget_app, Hn0 in Hgn.
    destruct (aget m h0) as [b|] eqn:Eb.
    2:{ destruct (aget m h0); discriminate Hgn. }
    assert (Hb : rlp_decode b = Ok n') by exact Hgn. clear Hgn.
    pose proof (Hcan _ _ _ Eb Hb) as Henc. pose proof (Hca _ _ Eb) as Hhb. rewrite <- Henc in Hhb.
    assert (Hnb : is_blank n' = false).
    { destruct (is_blank n') eqn:E; [|reflexivity]. exfalso.
      destruct n' as [[|x0 x']|l]; try discriminate E.
      rewrite <- HBNH in Hhb. destruct Hh as (_ & Hne & _). subst h0.
      rewrite bytes_eqb_refl in Hne. discriminate Hne. }
    destruct Hin as [Hin|Hbl].
    - apply (pstore_has proof [] n' Hin Hnb); [|rewrite <- Hhb; exact Hn0].
      rewrite <- Hhb. apply Hh.
    - apply type_blank in Hbl. subst n'. discriminate Hnb.
  Qed.

  (* whenever get_proof succeeds, get_from_proof on its output returns exactly what get
     returns on the honest store (a value, or the same non-Missing error) *)
  Theorem C03_complete_gen m r k proof :
    content_addressed m -> canonical_bodies m -> BNH = H (rlp_encode (RStr [])) ->
    Forall (fun n => validate_is_node n = Ok tt) proof ->
    cf (bodies m ++ map rlp_encode proof) ->
    fst (get_proof BNH k (plain m r)) = Ok proof ->
    get_from_proof H BNH r k proof = fst (get BNH k (plain m r)).
  Proof.
    intros Hca Hcan HBNH Hall Hcf. to_pure. intros Hp.
    rewrite (get_from_proof_pure r k proof Hall).
    destruct (complete_pure_gen m r k proof Hca Hcan HBNH Hcf Hp) as [Heq Hben].
    rewrite Heq. destruct (pget m r k) as [v|e]; [reflexivity|].
    apply bad_proof_benign. apply Hben. reflexivity.
  Qed.

  (* every node of the proof is a node met on the key's path *)
  Lemma pstep_next node unproven c adv : pstep node unproven = Ok (PNext c adv) ->
    exists pre post, unproven = pre ++ post /\ adv = length pre /\ child_at node pre c.
  Proof.
    unfold pstep. destruct (get_node_type node) as [ty|e] eqn:Et; [|discriminate].
    destruct ty; try discriminate.
    - destruct (extract_key node) as [ck|e] eqn:Ek; [|discriminate].
      destruct (key_starts_with unproven ck) eqn:Eks; [|discriminate].
      intro Hx; injection Hx as <- <-.
      apply key_starts_with_spec in Eks. destruct Eks as [rest ->].
      exists ck, rest. split; [reflexivity|]. split; [reflexivity|].
      right. repeat split; assumption.
    - destruct unproven as [|u0 u']; [discriminate|].
      intro Hx; injection Hx as <- <-. exists [u0], u'.
      split; [reflexivity|]. split; [reflexivity|].
      left. split; [exact Et|]. exists u0. split; reflexivity.
  Qed.

  Lemma gp_on_path m fuel : forall ref0 done ref node tk proven last proof,
    ref_at m ref0 done ref -> gn m ref = Ok node -> tk = done ++ skipn proven tk ->
    gp m fuel node tk proven last = Ok proof ->
    forall n, In n proof ->
      In n last \/
      exists pre post ref', tk = pre ++ post /\ ref_at m ref0 pre ref' /\ gn m ref' = Ok n.
  Proof.
    induction fuel as [|f IH]; intros ref0 done ref node tk proven last proof Hra Hg Htk;
      cbn [gp]; [discriminate|].
    assert (Hnode : forall n, In n (last ++ [node]) ->
              In n last \/
              exists pre post ref', tk = pre ++ post /\ ref_at m ref0 pre ref' /\ gn m ref' = Ok n).
    { intros n Hin. apply in_app_or in Hin. destruct Hin as [Hin|[<-|[]]]; [left; exact Hin|].
      right. exists done, (skipn proven tk), ref. repeat split; assumption. }
    destruct (pstep node (skipn proven tk)) as [[| |c adv]|e] eqn:Es; try discriminate.
    - intro Hx; injection Hx as <-. intros n Hin. left; exact Hin.
    - intro Hx; injection Hx as <-. exact Hnode.
    - destruct (gn m c) as [next|e] eqn:Egc; [|discriminate]. intros Hgp n Hin.
      destruct (pstep_next _ _ _ _ Es) as (pre1 & post1 & Hsk & -> & Hc).
      assert (Htk' : tk = (done ++ pre1) ++ skipn (proven + length pre1) tk).
      { rewrite (skipn_add_app pre1 post1 proven tk Hsk), <- app_assoc, <- Hsk. exact Htk. }
      destruct (IH ref0 (done ++ pre1) c next tk _ _ proof
                   (ref_at_snoc m _ _ _ _ _ _ Hra Hg Hc) Egc Htk' Hgp n Hin) as [Hl|Hr].
      + apply Hnode. exact Hl.
      + right; exact Hr.
  Qed.

  Theorem C03_on_path m r k proof :
    fst (get_proof BNH k (plain m r)) = Ok proof ->
    forall n, In n proof ->
      exists pre post ref, bytes_to_nibbles k = pre ++ post /\ ref_at m (RStr r) pre ref /\
                           fst (get_node BNH ref (plain m r)) = Ok n.
  Proof.
    to_pure. unfold pget_proof.
    destruct (gn m (RStr r)) as [node|e] eqn:Egr; [|discriminate].
    intros Hgp n Hin.
    destruct (gp_on_path m _ (RStr r) [] (RStr r) node _ 0%nat [] proof (ra_here m _) Egr eq_refl Hgp n Hin)
      as [[]|(pre & post & ref' & Htk & Hra & Hg)].
    exists pre, post, ref'. rewrite (get_node_eq m ref' _ (on_plain m r)).
    repeat split; assumption.
  Qed.

  (* ---- a path criterion for reads_entry ---- *)
  Lemma cpl_app (ck tl : nibbles) : common_prefix_length ck (ck ++ tl) = length ck.
  Proof.
    induction ck as [|x ck IH]; [reflexivity|].
    cbn [app common_prefix_length length]. rewrite N.eqb_refl, IH. reflexivity.
  Qed.

  Lemma tstep_child node pre c tl : child_at node pre c -> pre ++ tl <> [] ->
    tstep node (pre ++ tl) = Ok (TNext c tl).
  Proof.
    intros [[Ht (i & -> & ->)]|(Ht & Hk & ->)] Hne; unfold tstep.
    - cbn [app]. rewrite Ht. reflexivity.
    - destruct (pre ++ tl) as [|r0 rtail] eqn:Er; [contradiction|]. cbn beta iota.
      rewrite Ht, Hk. rewrite <- Er. unfold consume_common_prefix. rewrite cpl_app.
      rewrite skipn_app, skipn_all, Nat.sub_diag. reflexivity.
  Qed.

  Definition tfr (m : amap bytes) (o : option bytes) (p : nibbles) (fuel : nat) (ref : item)
             (tk rem : nibbles) : result (item * nibbles) :=
    match mt_handler o p (gn m ref) with
    | Err e => Err e
    | Ok n => tf m fuel n tk rem
    end.

  Lemma tfr_missing m h ref pre : ref_at m ref pre (RStr h) -> hashed h ->
    forall o p fuel tk post res,
      (forall x, o = Some x -> ref = RStr x) -> post <> [] ->
      tfr m o p fuel ref tk (pre ++ post) = Ok res ->
      exists p', tfr (adel m h) o p fuel ref tk (pre ++ post) = Err (EMissingTraversal h p').
  Proof.
    intros Hra Hh. remember (RStr h) as out eqn:Eout.
    induction Hra as [ref|ref node pre0 c rest out Hg Hc Hra IH];
      intros o p fuel tk post res Ho Hpost Hrun.
    - subst ref. exists p. unfold tfr. rewrite (gn_hashed _ h Hh), aget_adel, bytes_eqb_refl.
      cbn [mt_handler key_error_hash EKeyError T_KeyError].
      destruct o as [x|]; [|reflexivity]. specialize (Ho x eq_refl). injection Ho as ->. reflexivity.
    - specialize (IH Eout).
      destruct (gn_sub (adel m h) m ref (sub_adel m h)) as [Heq|(h0 & Hr & He & Hn1 & Hn2)].
      + unfold tfr in *. rewrite Heq. rewrite Hg in *. cbn [mt_handler] in *.
        destruct fuel as [|f]; [discriminate Hrun|]. cbn [tf] in *.
        rewrite <- app_assoc in *.
        assert (Hne : pre0 ++ rest ++ post <> []).
        { intro Hx. apply app_eq_nil in Hx. destruct Hx as [_ Hx].
          apply app_eq_nil in Hx. destruct Hx as [_ Hx]. contradiction. }
        rewrite (tstep_child node pre0 c (rest ++ post) Hc Hne) in *.
        apply (IH None _ f tk post res); [discriminate|exact Hpost|exact Hrun].
      + assert (h0 = h) as ->.
        { rewrite aget_adel in Hn1. destruct (bytes_eqb h0 h) eqn:E; [apply bytes_eqb_eq; exact E|].
          contradiction. }
        exists p. unfold tfr. rewrite He. cbn [mt_handler key_error_hash EKeyError T_KeyError].
        destruct o as [x|]; [|reflexivity]. specialize (Ho x eq_refl). rewrite Hr in Ho.
        injection Ho as ->. reflexivity.
  Qed.

  (* if the read succeeds and h is a hashed reference on the key's path strictly before the
     end of the key, then the read uses the store entry h *)
  Theorem reads_entry_of_ref_at m r k h pre post v :
    fst (get BNH k (plain m r)) = Ok v ->
    bytes_to_nibbles k = pre ++ post -> post <> [] ->
    ref_at m (RStr r) pre (RStr h) -> hashed h ->
    reads_entry m r k h.
  Proof.
    unfold reads_entry. to_pure. unfold pget, p_get, ptrav, root_raw.
    intros Hg Htk Hpost Hra Hh. rewrite Htk in *.
    destruct (match mt_handler (Some r) [] (gn m (RStr r)) with
              | Ok rn => tf m (traverse_fuel (pre ++ post)) rn (pre ++ post) (pre ++ post)
              | Err e => Err e
              end) as [res|e] eqn:Et; [|destruct e as [tag args]; cbn in Hg;
                 repeat match type of Hg with
                        | context [match ?x with _ => _ end] => is_var x; destruct x
                        end; discriminate Hg].
    destruct (tfr_missing m h _ _ Hra Hh (Some r) [] (traverse_fuel (pre ++ post)) (pre ++ post)
                post res) as [p' Hm].
    - intros x Hx; injection Hx as ->; reflexivity.
    - exact Hpost.
    - exact Et.
    - exists p'. unfold tfr in Hm. rewrite Hm. reflexivity.
  Qed.

End DRead.

(* ------------------------------------------------------------------ *)
(* Counterexamples showing that the extra premises of C03_complete are needed
   (checked by computation; H := keccak256 unless said otherwise). *)
From PyTrie.Base Require Keccak.

Module Counterexamples.
  Import Keccak.
  Definition K := keccak256.
  Definition BN := keccak256 [x80].

  (* (a) a store body that is a non-canonical encoding of its node: the honest read
     succeeds, get_proof succeeds, but the proof is rejected *)
  Definition leaf : item := RList [RStr [x20; x12]; RStr [x76]].
  Definition nc : bytes := [xc5; x82; x20; x12; x81; x76].   (* "v" written as 81 76 *)
  Definition m_a : amap bytes := [(K nc, nc)].
  Example cx_noncanonical :
    rlp_decode nc = Ok leaf /\ rlp_encode leaf <> nc /\
    fst (get BN [x12] (plain m_a (K nc))) = Ok [x76] /\
    fst (get_proof BN [x12] (plain m_a (K nc))) = Ok [leaf] /\
    get_from_proof K BN (K nc) [x12] [leaf] = Err EBadTrieProof.
  Proof. vm_compute. repeat split; try reflexivity. discriminate. Qed.

  (* (b) a node on the path that validate_is_node rejects: get_from_proof raises
     ValidationError while get answers *)
  Definition bad : item := RList [RStr [x20; x12]; RList []].
  Definition m_b : amap bytes := [(K (rlp_encode bad), rlp_encode bad)].
  Example cx_invalid_node :
    fst (get BN [x12] (plain m_b (K (rlp_encode bad)))) = Ok [] /\
    fst (get_proof BN [x12] (plain m_b (K (rlp_encode bad)))) = Ok [bad] /\
    get_from_proof K BN (K (rlp_encode bad)) [x12] [bad] = Err EValidation.
  Proof. vm_compute. repeat split; reflexivity. Qed.

  (* (c) BNH different from H (rlp ""): a stored blank node is read by get, but is never
     part of a proof *)
  Definition BN' : bytes := repeat x00 32.
  Definition m_c : amap bytes := [(K [x80], [x80])].
  Example cx_blank_hash :
    fst (get BN' [x12] (plain m_c (K [x80]))) = Ok [] /\
    fst (get_proof BN' [x12] (plain m_c (K [x80]))) = Ok [] /\
    get_from_proof K BN' (K [x80]) [x12] [] = Err EBadTrieProof.
  Proof. vm_compute. repeat split; reflexivity. Qed.

  (* (d) a hash with collisions (everything but rlp "" hashes to 00..00): the proof
     [branch; embedded leaf] overwrites the branch by the leaf, and get_from_proof
     answers b"" where the honest trie answers b"v".  So cf is needed, for
     soundness as well as for completeness. *)
  Definition c0 : bytes := repeat x00 32.
  Definition c1 : bytes := repeat x01 32.
  Definition Hc (b : bytes) : bytes := if bytes_eqb b [x80] then c1 else c0.
  Definition lf : item := RList [RStr [x32]; RStr [x76]].
  Definition br : item := RList ([BLANK; lf] ++ repeat BLANK 15).
  Definition m_d : amap bytes := [(c0, rlp_encode br)].
  Example cx_collision :
    fst (get c1 [x12] (plain m_d c0)) = Ok [x76] /\
    fst (get_proof c1 [x12] (plain m_d c0)) = Ok [br; lf] /\
    get_from_proof Hc c1 c0 [x12] [br; lf] = Ok [].
  Proof. vm_compute. repeat split; reflexivity. Qed.
End Counterexamples.

Print Assumptions read_mono_get.
Print Assumptions read_mono_exists.
Print Assumptions read_mono_traverse.
Print Assumptions read_mono_traverse_from.
Print Assumptions read_mono_root_node.
Print Assumptions read_mono_get_proof.
Print Assumptions read_fail_get.
Print Assumptions read_fail_traverse.
Print Assumptions read_fail_traverse_from.
Print Assumptions read_same_or_missing_get.
Print Assumptions C07_truthful_get.
Print Assumptions C07_truthful_traverse.
Print Assumptions read_deterministic_get.
Print Assumptions read_deterministic_get_eq.
Print Assumptions C03_sound.
Print Assumptions C03_withheld.
Print Assumptions reads_entry_of_ref_at.
Print Assumptions C03_complete.
Print Assumptions C03_complete_gen.
Print Assumptions C03_on_path.
