(* Hexary/D.v — the database-level model ("D level") of trie/hexary.py: a state-passing,
   error-carrying mirror of HexaryTrie including its effects on the database, the
   reference counts and the pending-prune table.  Follows the source function by
   function (names kept).  Recursion through the store is on explicit fuel.
   Definitions only. *)
From Coq Require Import List NArith ZArith Bool.
From Coq.Init Require Import Byte.
From PyTrie.Base Require Import Bytes Result AMap Nibbles Rlp.
From PyTrie.Db Require Import ScratchDb.
From PyTrie.Hexary Require Import Raw.
Import ListNotations.
Open Scope N_scope.

Inductive dbT := DPlain (s : store) | DScratch (sc : scratch).

Record trie := mkTrie {
  t_db : dbT;
  t_root : bytes;
  t_prune : bool;
  t_refc : amap Z;                 (* defaultdict(int): absent = 0 *)
  t_pending : option (amap Z) }.   (* _pending_prune_keys *)

Definition with_db (t : trie) (d : dbT) := mkTrie d (t_root t) (t_prune t) (t_refc t) (t_pending t).
Definition with_root (t : trie) (r : bytes) := mkTrie (t_db t) r (t_prune t) (t_refc t) (t_pending t).
Definition with_refc (t : trie) (c : amap Z) := mkTrie (t_db t) (t_root t) (t_prune t) c (t_pending t).
Definition with_pending (t : trie) (p : option (amap Z)) := mkTrie (t_db t) (t_root t) (t_prune t) (t_refc t) p.

Definition zget (m : amap Z) (k : bytes) : Z := match aget m k with Some z => z | None => 0%Z end.

(* ------------------------------------------------------------------ *)
(* the monad: state is kept on failure (exceptions do not roll anything back) *)
Definition M (A : Type) := trie -> result A * trie.
Definition ret {A} (a : A) : M A := fun t => (Ok a, t).
Definition fail {A} (e : exn) : M A := fun t => (Err e, t).
Definition bind {A B} (m : M A) (f : A -> M B) : M B :=
  fun t => match m t with
           | (Ok a, t') => f a t'
           | (Err e, t') => (Err e, t')
           end.
Definition lift {A} (r : result A) : M A := fun t => (r, t).
Definition getst : M trie := fun t => (Ok t, t).
Definition putst (t' : trie) : M unit := fun _ => (Ok tt, t').
(* try: m except <handler matches>: handler *)
Definition catch {A} (m : M A) (h : exn -> option (M A)) : M A :=
  fun t => match m t with
           | (Ok a, t') => (Ok a, t')
           | (Err e, t') => match h e with Some k => k t' | None => (Err e, t') end
           end.

Declare Scope m_scope.
Delimit Scope m_scope with M.
Notation "x <- m ;; k" := (bind m (fun x => k))
  (at level 61, m at next level, right associativity) : m_scope.
Notation "' pat <- m ;; k" := (bind m (fun x => match x with pat => k end))
  (at level 61, pat pattern, m at next level, right associativity) : m_scope.
Notation "m ;;; k" := (bind m (fun _ => k)) (at level 61, right associativity) : m_scope.
Open Scope m_scope.

Definition key_error_hash (e : exn) : option bytes :=
  match e with Exn 7 [OB h] => Some h | _ => None end.

Definition EMissingTraversal (h : bytes) (ns : nibbles) := Exn T_MissingTraversal [OB h; onibs ns].
Definition EMissingTrieNode (h root key : bytes) (p : option nibbles) :=
  Exn T_MissingTrieNode [OB h; OB root; OB key; match p with Some ns => onibs ns | None => ONone end].
Definition ETraversedPartial (traversed : nibbles) (n : hnode) (tail : nibbles) (sim : obs) :=
  Exn T_TraversedPartial [onibs traversed; hnode_obs n; onibs tail; sim].

Section WithHash.
  Variable H : bytes -> bytes.
  Variable BNH : bytes.     (* BLANK_NODE_HASH = H (rlp "") *)

  (* ---------------- database access ---------------- *)
  Definition db_get (k : bytes) : M bytes :=
    fun t => (match t_db t with DPlain s => store_get s k | DScratch sc => sget sc k end, t).

  Definition db_set (k v : bytes) : M unit :=
    fun t => match t_db t with
             | DPlain s => match store_set s k v with
                           | Ok s' => (Ok tt, with_db t (DPlain s'))
                           | Err e => (Err e, t)
                           end
             | DScratch sc => (Ok tt, with_db t (DScratch (sset sc k v)))
             end.

  (* del self.db[key] *)
  Definition db_del (k : bytes) : M unit :=
    fun t => match t_db t with
             | DPlain s => match store_del s k with
                           | Ok s' => (Ok tt, with_db t (DPlain s'))
                           | Err e => (Err e, t)
                           end
             | DScratch sc => (Ok tt, with_db t (DScratch (sdel sc k)))
             end.

  Definition db_contains (k : bytes) : M bool :=
    fun t => (Ok (match t_db t with DPlain s => store_mem s k | DScratch sc => scontains sc k end), t).

  (* ---------------- nodes <-> database ---------------- *)
  Definition get_node (ref : item) : M item :=
    match ref with
    | RStr [] => ret BLANK
    | RStr h =>
        if bytes_eqb h BNH then ret BLANK
        else if Nat.ltb (length h) 32 then lift (rlp_decode h)
        else enc <- db_get h ;; lift (rlp_decode enc)
    | RList _ => ret ref
    end.

  (* _create_node_to_db_mapping *)
  Definition node_to_db_mapping (n : item) : result (item * option bytes) :=
    match validate_is_node n with
    | Err e => Err e
    | Ok _ =>
        if is_blank n then Ok (BLANK, None)
        else let enc := rlp_encode n in
             if Nat.ltb (length enc) 32 then Ok (n, None)
             else Ok (RStr (H enc), Some enc)
    end.

  Definition _set_db_value (k v : bytes) : M unit :=
    db_set k v ;;;
    t <- getst ;;
    if t_prune t then putst (with_refc t (aset (t_refc t) k (zget (t_refc t) k + 1)%Z)) else ret tt.

  Definition pending_inc (k : bytes) : M unit :=
    t <- getst ;;
    match t_pending t with
    | Some p => putst (with_pending t (Some (aset p k (zget p k + 1)%Z)))
    | None => fail ETypeError      (* None[key] += 1 *)
    end.

  Definition _prune_node (n : item) : M unit :=
    t <- getst ;;
    if t_prune t then
      '(k, body) <- lift (node_to_db_mapping n) ;;
      match body with
      | Some _ => pending_inc (item_bytes k)
      | None => ret tt
      end
    else ret tt.

  Definition _persist_node (n : item) : M item :=
    '(k, body) <- lift (node_to_db_mapping n) ;;
    match body with
    | Some v => _set_db_value (item_bytes k) v ;;; ret k
    | None => ret k
    end.

  Definition _set_raw_node (n : item) : M bytes :=
    '(k, body) <- lift (node_to_db_mapping n) ;;
    if is_blank k then ret BNH
    else match body with
         | None => let enc := rlp_encode k in
                   let h := H enc in
                   _set_db_value h enc ;;; ret h
         | Some v => _set_db_value (item_bytes k) v ;;; ret (item_bytes k)
         end.

  (* ---------------- reading ---------------- *)
  Definition used_key (trie_key remaining : nibbles) : nibbles :=
    firstn (length trie_key - length remaining) trie_key.

  Definition get_node_traversal (ptr : item) (trie_key remaining : nibbles) : M item :=
    catch (get_node ptr)
          (fun e => match key_error_hash e with
                    | Some h => Some (fail (EMissingTraversal h (used_key trie_key remaining)))
                    | None => None
                    end).

  Fixpoint _traverse_from (fuel : nat) (node : item) (trie_key remaining : nibbles)
    : M (item * nibbles) :=
    match fuel with
    | O => fail EOutOfFuel
    | S f =>
        match remaining with
        | [] => ret (node, [])
        | r0 :: rtail =>
            ty <- lift (get_node_type node) ;;
            match ty with
            | TBlank => ret (BLANK, [])
            | TLeaf =>
                lk <- lift (extract_key node) ;;
                if key_starts_with lk remaining then ret (node, remaining) else ret (BLANK, [])
            | TExt =>
                ck <- lift (extract_key node) ;;
                let '(_, cur_rem, key_rem) := consume_common_prefix ck remaining in
                match cur_rem, key_rem with
                | [], _ =>
                    n' <- get_node_traversal (kv_second node) trie_key key_rem ;;
                    _traverse_from f n' trie_key key_rem
                | _ :: _, [] => ret (node, remaining)        (* _PartialTraversal *)
                | _ :: _, _ :: _ => ret (BLANK, [])
                end
            | TBranch =>
                n' <- get_node_traversal (branch_child node r0) trie_key rtail ;;
                _traverse_from f n' trie_key rtail
            end
        end
    end.

  Definition traverse_fuel (k : nibbles) : nat := S (S (length k)).

  Definition _traverse (root_hash : bytes) (trie_key : nibbles) : M (item * nibbles) :=
    root_node <- catch (get_node (RStr root_hash))
                       (fun e => match key_error_hash e with
                                 | Some _ => Some (fail (EMissingTraversal root_hash []))
                                 | None => None
                                 end) ;;
    _traverse_from (traverse_fuel trie_key) root_node trie_key trie_key.

  Definition _get (root_hash : bytes) (trie_key : nibbles) : M bytes :=
    '(node, remaining) <- _traverse root_hash trie_key ;;
    ty <- lift (get_node_type node) ;;
    match ty with
    | TBlank => ret []
    | TLeaf =>
        lk <- lift (extract_key node) ;;
        if nibbles_eqb remaining lk then ret (item_bytes (kv_second node)) else ret []
    | TExt => ret []
    | TBranch =>
        match remaining with
        | _ :: _ => fail EValidation
        | [] => ret (item_bytes (branch_value node))
        end
    end.

  Definition get (key : bytes) : M bytes :=
    t <- getst ;;
    let root_hash := t_root t in
    catch (_get root_hash (bytes_to_nibbles key))
          (fun e => match e with
                    | Exn 9 [OB h; OL ns] =>
                        Some (fail (Exn T_MissingTrieNode [OB h; OB root_hash; OB key; OL ns]))
                    | _ => None
                    end).

  Definition exists_ (key : bytes) : M bool :=
    v <- get key ;; ret (negb (bytes_eqb v [])).

  Definition annotate_or_partial (trie_key : nibbles) (r : item * nibbles) : M hnode :=
    let '(node, remaining) := r in
    a <- lift (annotate_node node) ;;
    match remaining with
    | [] => ret a
    | _ :: _ =>
        let path_to_node := used_key trie_key remaining in
        sim <- lift (simulated_node a remaining) ;;
        fail (ETraversedPartial path_to_node a remaining (hnode_obs sim))
    end.

  Definition traverse (trie_key : nibbles) : M hnode :=
    t <- getst ;;
    r <- _traverse (t_root t) trie_key ;;
    annotate_or_partial trie_key r.

  Definition traverse_from (parent_raw : item) (trie_key : nibbles) : M hnode :=
    r <- _traverse_from (traverse_fuel trie_key) parent_raw trie_key trie_key ;;
    annotate_or_partial trie_key r.

  Definition root_node : M hnode :=
    t <- getst ;;
    raw <- catch (get_node (RStr (t_root t)))
                 (fun e => match key_error_hash e with
                           | Some _ => Some (fail (EMissingTraversal (t_root t) []))
                           | None => None
                           end) ;;
    lift (annotate_node raw).

  (* traverse / traverse_from as a walk uses them: a partial traversal yields the simulated
     node (exc.simulated_node); the flag says whether that happened *)
  Definition annotate_or_simulate (r : item * nibbles) : M (hnode * bool) :=
    let '(node, remaining) := r in
    a <- lift (annotate_node node) ;;
    match remaining with
    | [] => ret (a, false)
    | _ :: _ => sim <- lift (simulated_node a remaining) ;; ret (sim, true)
    end.

  Definition traverse_sim (trie_key : nibbles) : M (hnode * bool) :=
    t <- getst ;;
    r <- _traverse (t_root t) trie_key ;;
    annotate_or_simulate r.

  Definition traverse_from_sim (parent_raw : item) (trie_key : nibbles) : M (hnode * bool) :=
    r <- _traverse_from (traverse_fuel trie_key) parent_raw trie_key trie_key ;;
    annotate_or_simulate r.

  (* ---------------- read accounting (property C08: "at most one database entry per child hop") ----------------
     [ref_key ref] is the database key get_node looks up for a reference (none for blank / embedded
     references); [traverse_from_reads] lists, in order, the keys that _traverse_from looks up while it
     consumes [rem] from [node] (a failing lookup included), and [traverse_from_hops] counts its child
     hops.  The harness compares the length of the former with the number of self.db[...] reads the
     implementation makes during traverse_from (counting proxy). *)
  Definition ref_key (ref : item) : list bytes :=
    match ref with
    | RStr [] => []
    | RStr h => if bytes_eqb h BNH then [] else if Nat.ltb (length h) 32 then [] else [h]
    | RList _ => []
    end.

  Fixpoint traverse_from_reads (fuel : nat) (node : item) (rem : nibbles) (t : trie) : list bytes :=
    match fuel with
    | O => []
    | S f =>
        let follow (ref : item) (rem' : nibbles) :=
          ref_key ref ++ match get_node ref t with
                         | (Ok n', _) => traverse_from_reads f n' rem' t
                         | (Err _, _) => []
                         end in
        match rem with
        | [] => []
        | r0 :: rtail =>
            match get_node_type node with
            | Ok TExt =>
                match extract_key node with
                | Ok ck =>
                    let '(_, cur_rem, key_rem) := consume_common_prefix ck rem in
                    match cur_rem with
                    | [] => follow (kv_second node) key_rem
                    | _ :: _ => []
                    end
                | Err _ => []
                end
            | Ok TBranch => follow (branch_child node r0) rtail
            | _ => []
            end
        end
    end.

  Fixpoint traverse_from_hops (fuel : nat) (node : item) (rem : nibbles) (t : trie) : nat :=
    match fuel with
    | O => O
    | S f =>
        let follow (ref : item) (rem' : nibbles) :=
          S (match get_node ref t with
             | (Ok n', _) => traverse_from_hops f n' rem' t
             | (Err _, _) => O
             end) in
        match rem with
        | [] => O
        | r0 :: rtail =>
            match get_node_type node with
            | Ok TExt =>
                match extract_key node with
                | Ok ck =>
                    let '(_, cur_rem, key_rem) := consume_common_prefix ck rem in
                    match cur_rem with
                    | [] => follow (kv_second node) key_rem
                    | _ :: _ => O
                    end
                | Err _ => O
                end
            | Ok TBranch => follow (branch_child node r0) rtail
            | _ => O
            end
        end
    end.

  (* ---------------- writing ---------------- *)
  Definition blank17 : list item := repeat BLANK 17.

  Definition lift_bytes (r : result bytes) : M item := b <- lift r ;; ret (RStr b).

  (* _normalize_branch_node *)
  Definition _normalize_branch_node (node : item) : M item :=
    let items := branch_items node in
    if Nat.leb 2 (length (filter truthy items)) then ret node
    else if truthy (branch_value node) then
      k <- lift_bytes (compute_leaf_key []) ;; ret (RList [k; branch_value node])
    else
      match flat_map (fun i => if truthy (branch_child node i) then [i] else []) nibble_range with
      | [] => fail (Exn 22 [])          (* StopIteration: no non-blank item at all *)
      | idx :: _ =>
          let sub_hash := branch_child node idx in
          sub <- get_node sub_hash ;;
          ty <- lift (get_node_type sub) ;;
          match ty with
          | TLeaf | TExt =>
              _prune_node sub ;;;
              dk <- lift (decode_key (kv_first sub)) ;;
              k <- lift_bytes (encode_nibbles (idx :: dk)) ;;
              ret (RList [k; kv_second sub])
          | TBranch =>
              k <- lift_bytes (encode_nibbles [idx]) ;; ret (RList [k; sub_hash])
          | TBlank => fail EInvariant
          end
      end.

  Fixpoint _set (fuel : nat) (node : item) (trie_key : nibbles) (value : bytes) {struct fuel} : M item :=
    match fuel with
    | O => fail EOutOfFuel
    | S f =>
        ty <- lift (get_node_type node) ;;
        _prune_node node ;;;
        match ty with
        | TBlank => k <- lift_bytes (compute_leaf_key trie_key) ;; ret (RList [k; RStr value])
        | TLeaf | TExt =>
            (* _set_kv_node *)
            current_key <- lift (extract_key node) ;;
            let '(common, cur_rem, key_rem) := consume_common_prefix current_key trie_key in
            is_ext <- lift (is_extension_node node) ;;
            new_node <-
              match cur_rem, key_rem with
              | [], [] =>
                  is_leaf <- lift (is_leaf_node node) ;;
                  if is_leaf then ret (inl (RList [kv_first node; RStr value]))
                  else sub <- get_node (kv_second node) ;;
                       nn <- _set f sub key_rem value ;; ret (inr nn)
              | [], k0 :: ktail =>
                  if is_ext then
                    sub <- get_node (kv_second node) ;;
                    nn <- _set f sub key_rem value ;; ret (inr nn)
                  else
                    sk <- lift_bytes (compute_leaf_key ktail) ;;
                    p <- _persist_node (RList [sk; RStr value]) ;;
                    ret (inr (RList (list_set (repeat BLANK 16 ++ [kv_second node]) (N.to_nat k0) p)))
              | c0 :: ctail, _ =>
                  base <-
                    (if (Nat.eqb (length cur_rem) 1 && is_ext)%bool then
                       ret (list_set blank17 (N.to_nat c0) (kv_second node))
                     else
                       ck <- lift_bytes ((if is_ext then compute_extension_key else compute_leaf_key) ctail) ;;
                       p <- _persist_node (RList [ck; kv_second node]) ;;
                       ret (list_set blank17 (N.to_nat c0) p)) ;;
                  match key_rem with
                  | k0 :: ktail =>
                      lk <- lift_bytes (compute_leaf_key ktail) ;;
                      p <- _persist_node (RList [lk; RStr value]) ;;
                      ret (inr (RList (list_set base (N.to_nat k0) p)))
                  | [] => ret (inr (RList (list_set base 16 (RStr value))))
                  end
              end ;;
            match new_node with
            | inl n => ret n        (* early return [node[0], value] *)
            | inr nn =>
                match common with
                | _ :: _ =>
                    nk <- _persist_node nn ;;
                    ek <- lift_bytes (compute_extension_key common) ;;
                    ret (RList [ek; nk])
                | [] => ret nn
                end
            end
        | TBranch =>
            (* _set_branch_node *)
            match trie_key with
            | k0 :: ktail =>
                sub <- get_node (branch_child node k0) ;;
                nn <- _set f sub ktail value ;;
                p <- _persist_node nn ;;
                ret (branch_set node k0 p)
            | [] => ret (branch_set node 16 (RStr value))
            end
        end
    end.

  Fixpoint _delete (fuel : nat) (node : item) (trie_key : nibbles) {struct fuel} : M item :=
    match fuel with
    | O => fail EOutOfFuel
    | S f =>
        ty <- lift (get_node_type node) ;;
        _prune_node node ;;;
        match ty with
        | TBlank => ret BLANK
        | TLeaf | TExt =>
            (* _delete_kv_node *)
            current_key <- lift (extract_key node) ;;
            if negb (key_starts_with trie_key current_key) then ret node
            else
              match ty with
              | TLeaf => if nibbles_eqb trie_key current_key then ret BLANK else ret node
              | _ =>
                  let sub_key := skipn (length current_key) trie_key in
                  sub <- get_node (kv_second node) ;;
                  new_sub <- _delete f sub sub_key ;;
                  enc_new <- _persist_node new_sub ;;
                  if item_eqb enc_new (kv_second node) then ret node
                  else if is_blank new_sub then ret BLANK
                  else
                    nty <- lift (get_node_type new_sub) ;;
                    match nty with
                    | TLeaf | TExt =>
                        _prune_node new_sub ;;;
                        dk <- lift (decode_key (kv_first new_sub)) ;;
                        k <- lift_bytes (encode_nibbles (current_key ++ dk)) ;;
                        ret (RList [k; kv_second new_sub])
                    | TBranch =>
                        k <- lift_bytes (encode_nibbles current_key) ;;
                        ret (RList [k; enc_new])
                    | TBlank => fail EInvariant
                    end
              end
        | TBranch =>
            (* _delete_branch_node *)
            match trie_key with
            | [] => _normalize_branch_node (branch_set node 16 BLANK)
            | k0 :: ktail =>
                to_delete <- get_node (branch_child node k0) ;;
                sub <- _delete f to_delete ktail ;;
                enc <- _persist_node sub ;;
                if item_eqb enc (branch_child node k0) then ret node
                else
                  let node' := branch_set node k0 enc in
                  if is_blank enc then _normalize_branch_node node' else ret node'
            end
        end
    end.

  (* _complete_pruning *)
  Fixpoint complete_pruning_loop (p : list (bytes * Z)) : M unit :=
    match p with
    | [] => ret tt
    | (k, n) :: p' =>
        t <- getst ;;
        let new_count := (zget (t_refc t) k - n)%Z in
        new_count' <-
          (if (new_count <=? 0)%Z then
             catch (db_del k ;;; ret 0%Z)
                   (fun e => match key_error_hash e with
                             | Some _ => Some (fail EValidation)
                             | None => None
                             end)
           else ret new_count) ;;
        t' <- getst ;;
        (if (new_count' =? 0)%Z then putst (with_refc t' (adel (t_refc t') k))
         else putst (with_refc t' (aset (t_refc t') k new_count'))) ;;;
        complete_pruning_loop p'
    end.

  Definition _complete_pruning : M unit :=
    t <- getst ;;
    match t_pending t with
    | Some p => complete_pruning_loop p
    | None => fail ETypeError
    end.

  (* with self._prune_on_success(): body *)
  Definition _prune_on_success (body : M unit) : M unit :=
    fun t =>
      let t1 := if t_prune t then with_pending t (Some []) else t in
      match body t1 with
      | (Ok _, t2) =>
          if t_prune t2 then
            let '(r, t3) := _complete_pruning t2 in (r, with_pending t3 None)
          else (Ok tt, with_pending t2 None)
      | (Err e, t2) => (Err e, with_pending t2 None)
      end.

  Definition _set_root_node (root : item) : M unit :=
    lift (validate_is_node root) ;;;
    t <- getst ;;
    (if t_prune t then
       let old_root_hash := t_root t in
       if negb (bytes_eqb old_root_hash BNH) then
         r <- catch (n <- get_node (RStr old_root_hash) ;; ret (Some n))
                    (fun e => match key_error_hash e with
                              | Some _ => Some (ret None)
                              | None => None
                              end) ;;
         match r with
         | None => ret tt
         | Some old_root_node =>
             '(_, body) <- lift (node_to_db_mapping old_root_node) ;;
             present <- db_contains old_root_hash ;;
             match body with
             | None => if present then pending_inc old_root_hash else ret tt
             | Some _ => ret tt
             end
         end
       else ret tt
     else ret tt) ;;;
    h <- _set_raw_node root ;;
    t' <- getst ;;
    putst (with_root t' h).

  Definition write_fuel (key : bytes) : nat := S (S (S (2 * length key))).

  Definition raise_missing (key : bytes) {A} (m : M A) : M A :=
    catch m (fun e => match key_error_hash e with
                      | Some h => Some (t <- getst ;; fail (EMissingTrieNode h (t_root t) key None))
                      | None => None
                      end).

  Definition delete (key : bytes) : M unit :=
    _prune_on_success
      (new_node <- raise_missing key
                     (t <- getst ;;
                      root <- get_node (RStr (t_root t)) ;;
                      _delete (write_fuel key) root (bytes_to_nibbles key)) ;;
       _set_root_node new_node).

  Definition set (key value : bytes) : M unit :=
    _prune_on_success
      (new_node <- raise_missing key
                     (t <- getst ;;
                      root <- get_node (RStr (t_root t)) ;;
                      match value with
                      | [] => _delete (write_fuel key) root (bytes_to_nibbles key)
                      | _ => _set (write_fuel key) root (bytes_to_nibbles key) value
                      end) ;;
       _set_root_node new_node).

  (* ---------------- proofs ---------------- *)
  Fixpoint _get_proof (fuel : nat) (node : item) (trie_key : nibbles) (proven_len : nat)
           (last_proof : list item) : M (list item) :=
    match fuel with
    | O => fail EOutOfFuel
    | S f =>
        let updated := last_proof ++ [node] in
        let unproven := skipn proven_len trie_key in
        ty <- lift (get_node_type node) ;;
        match ty with
        | TBlank => ret last_proof
        | TLeaf => ret updated
        | TExt =>
            ck <- lift (extract_key node) ;;
            if key_starts_with unproven ck then
              next <- get_node (kv_second node) ;;
              _get_proof f next trie_key (proven_len + length ck) updated
            else ret updated
        | TBranch =>
            match unproven with
            | [] => ret updated
            | u0 :: _ =>
                next <- get_node (branch_child node u0) ;;
                _get_proof f next trie_key (proven_len + 1) updated
            end
        end
    end.

  Definition get_proof (key : bytes) : M (list item) :=
    t <- getst ;;
    node <- get_node (RStr (t_root t)) ;;
    _get_proof (traverse_fuel (bytes_to_nibbles key)) node (bytes_to_nibbles key) 0 [].

  Definition empty_trie (prune : bool) : trie :=
    mkTrie (DPlain (store_of [])) BNH prune [] None.

  (* classmethod get_from_proof(root_hash, key, proof); runs on a fresh trie *)
  Definition get_from_proof (root_hash key : bytes) (proof : list item) : result bytes :=
    let fix load (p : list item) : M unit :=
      match p with
      | [] => ret tt
      | n :: p' => _set_raw_node n ;;; load p'
      end in
    match load proof (empty_trie false) with
    | (Err e, _) => Err e
    | (Ok _, t) =>
        let snap := mkTrie (t_db t) root_hash false [] None in
        match get key snap with
        | (Ok v, _) => Ok v
        | (Err (Exn 8 _), _) => Err EBadTrieProof
        | (Err e, _) => Err e
        end
    end.

  (* ---------------- reference counts ---------------- *)
  Fixpoint regenerate_loop (fuel : nat) (stack : list item) (acc : amap Z) : M (amap Z) :=
    match fuel with
    | O => fail EOutOfFuel
    | S f =>
        match stack with
        | [] => ret acc
        | key :: rest =>
            match key with
            | RList _ => regenerate_loop f rest acc
            | RStr [] => regenerate_loop f rest acc
            | RStr h =>
                if bytes_eqb h BNH then regenerate_loop f rest acc
                else
                  let acc' := aset acc h (zget acc h + 1)%Z in
                  node <- get_node key ;;
                  ty <- lift (get_node_type node) ;;
                  match ty with
                  | TBlank => regenerate_loop f rest acc'
                  | TBranch => regenerate_loop f (rev (firstn 16 (branch_items node)) ++ rest) acc'
                  | TExt => regenerate_loop f (kv_second node :: rest) acc'
                  | TLeaf => regenerate_loop f rest acc'
                  end
            end
        end
    end.

  Definition regenerate_ref_count (fuel : nat) : M (amap Z) :=
    t <- getst ;; regenerate_loop fuel [RStr (t_root t)] [].

  (* ---------------- squash_changes (as repaired) and at_root ---------------- *)
  Definition outer_store (t : trie) : store :=
    match t_db t with DPlain s => s | DScratch sc => wrapped sc end.

  (* the database the block's ScratchDB wraps: the trie's own store, or — for a block opened on a
     batch trie (nested squash_changes) — what reads through that trie's scratch layer see *)
  Definition batch_base (outer : trie) : store :=
    match t_db outer with DPlain s => s | DScratch sc => store_of (read_view sc) end.

  (* entering the with-block: the trie handed to the block *)
  Definition batch_begin (outer : trie) : trie :=
    mkTrie (DScratch (scratch_new (batch_base outer))) (t_root outer) true
           (if t_prune outer then t_refc outer else []) None.

  Definition inner_scratch (inner : trie) : scratch :=
    match t_db inner with DScratch sc => sc | DPlain s => scratch_new s end.

  (* the block exited normally *)
  (* ScratchDB.batch_commit's else-branch: into a plain store (a write may fail), or into the
     enclosing batch's buffer *)
  Definition commit_db (outer inner : trie) : dbT * option exn :=
    match t_db outer with
    | DPlain _ => let '(sc', err) := scommit (t_prune outer) (inner_scratch inner) in (DPlain (wrapped sc'), err)
    | DScratch osc => (DScratch (sreplay (t_prune outer) (cache (inner_scratch inner)) osc), None)
    end.

  Definition batch_commit (outer inner : trie) : result unit * trie :=
    let '(db', err) := commit_db outer inner in
    let outer1 := with_db outer db' in
    match err with
    | Some e => (Err e, outer1)
    | None =>
        if t_prune outer then
          (Ok tt, with_root (with_refc outer1 (t_refc inner)) (t_root inner))
        else if negb (bytes_eqb (t_root outer) (t_root inner)) then
          (* memory_trie.get_node reads through the (now empty) scratch db *)
          match get_node (RStr (t_root inner)) outer1 with
          | (Ok raw, _) =>
              match _set_raw_node raw outer1 with
              | (Ok h, outer2) => (Ok tt, with_root outer2 h)
              | (Err e, outer2) => (Err e, outer2)
              end
          | (Err e, _) =>
              match key_error_hash e with
              | Some _ => (Ok tt, with_root outer1 (t_root inner))
              | None => (Err e, outer1)
              end
          end
        else (Ok tt, outer1)
    end.

  (* the block was left by an exception *)
  Definition batch_abort (outer inner : trie) : trie :=
    match t_db outer with
    | DPlain _ => with_db outer (DPlain (wrapped (sabort (inner_scratch inner))))
    | DScratch _ => outer          (* the enclosing buffer was never written by the inner block *)
    end.

  Definition at_root (t : trie) (h : bytes) : result trie :=
    if t_prune t then Err EValidation else Ok (mkTrie (t_db t) h false [] None).
End WithHash.
