(* Hexary/D_retry_prune.v — set / delete of a PRUNING trie on an incomplete database
   (C07, write half; continuation of Hexary/D_retry_write.v, which left this case open).

   D_retry_write.v proves three possible outcomes for a write of a pruning trie over a
   sub-store m1 of a store m2: the m2 outcome, the atomic MissingTrieNode report, or
   ValidationError raised by _complete_pruning when "del db[k]" fails on m1 only; it shows the
   third one on a complete store that is not content-addressed.  HERE: when m2 is the EXACT
   store of the pruning trie ([pinv] of Refine_write_prune.v: content-addressed, represents the
   tree, counts = occurrence counts, no garbage) the third outcome CANNOT occur.

   The reason (sections 1-2): every key that enters the pending-prune table during the body of
   set / delete is, at that moment, a key of the database the call runs on
   ([PK]: pending keys are database keys).  _prune_node is only ever applied
     - to the node handed to _set / _delete, which the caller has just READ by get_node (the
       root, a child reference, the child of an extension), under the very hash that _prune_node
       recomputes from the body (content-addressing + decodability of the tree's bodies:
       [read_sub]; an embedded node is shorter than 32 bytes and schedules nothing);
     - in _normalize_branch_node to the only remaining child, just read;
     - in _delete to the new sub-node AFTER _persist_node has written it;
   and _set_root_node schedules a short old root only if db_contains says it is there.  No key is
   deleted before _complete_pruning, so the invariant holds when the loop starts; the loop on
   m1 and on m2 then takes the same decisions ([prune_fold_agree]).  A node with reference
   count > 1 is pruned as often as it is read on the path, never without having been read; no
   counterexample exists: the statement asked for is TRUE.

   _set is treated without computing its result (all its reads precede all its writes:
   [set_pk]); _delete reads a sibling in _normalize_branch_node after having written, so it is
   followed symbolically on the partial store ([_delete_sub], the analogue of
   Refine_write._delete_refines with "KeyError" as a second outcome).
   The lockstep simulation of D_retry_write.v (sim_wbody_gen) supplies result and state equality
   with the complete-store run; write_refines_ps supplies the complete-store run itself.

   Main statements: prune_write_same_or_missing (one write), C07_retry_prune_gen (retry loop),
   C07_prune_history (both along any history from the empty pruning trie, two premises),
   their keccak256 instances, and PruneRetryExample (a keccak trie missing two path nodes). *)
From Coq Require Import List NArith ZArith Bool Lia ZifyBool.
From Coq.Init Require Import Byte.
From PyTrie.Base Require Import Bytes Bytes_proofs Result AMap AMap_proofs Nibbles Nibbles_proofs Rlp Rlp_proofs.
From PyTrie.Db Require Import ScratchDb.
From PyTrie.Hexary Require Import Raw Raw_proofs D Tree Tree_aux Tree_map TreeTraverse D_read Refine_read.
From PyTrie.Hexary Require Tree_canon Tree_unique Tree_traverse_proofs.
From PyTrie.Hexary Require Import D_safety D_prune Refine_write Refine_write_prune D_retry D_retry_write.
Import ListNotations.
Open Scope N_scope.

(* ================================================================== *)
(* 1. The invariant: every key of the pending table is a key of the database *)
Definition PK (pd : amap Z) (m : amap bytes) : Prop :=
  forall k, aget pd k <> None -> aget m k <> None.

Definition PKs (s : trie) : Prop :=
  exists m pd, t_db s = DPlain (store_of m) /\ t_pending s = Some pd /\ PK pd m.

Definition PKrel (s s' : trie) : Prop := PKs s -> PKs s'.
Lemma PKrel_refl s : PKrel s s.
Proof. intro Hs. exact Hs. Qed.
Lemma PKrel_trans a b c : PKrel a b -> PKrel b c -> PKrel a c.
Proof. intros Hab Hbc Ha. exact (Hbc (Hab Ha)). Qed.

(* computations that keep the invariant whatever they return *)
Definition pkm {A} (c : M A) : Prop := mrel PKrel c.

Lemma pkm_use {A} (c : M A) s : pkm c -> PKs s -> PKs (snd (c s)).
Proof. intros Hc Hs. exact (Hc s Hs). Qed.

Lemma pkm_ret {A} (a : A) : pkm (ret a).
Proof. apply (mrel_ret PKrel PKrel_refl). Qed.
Lemma pkm_fail {A} e : pkm (@fail A e).
Proof. apply (mrel_fail PKrel PKrel_refl). Qed.
Lemma pkm_lift {A} (r : result A) : pkm (lift r).
Proof. apply (mrel_lift PKrel PKrel_refl). Qed.
Lemma pkm_bind {A B} (c : M A) (f : A -> M B) : pkm c -> (forall a, pkm (f a)) -> pkm (bind c f).
Proof. apply (mrel_bind PKrel PKrel_trans). Qed.
Lemma pkm_same {A} (c : M A) : (forall s, snd (c s) = s) -> pkm c.
Proof. apply (mrel_same PKrel PKrel_refl). Qed.
Lemma pkm_lift_bytes r : pkm (lift_bytes r).
Proof. unfold lift_bytes. apply pkm_bind; [apply pkm_lift|intro; apply pkm_ret]. Qed.

Lemma PK_aset pd m k v : PK pd m -> PK pd (aset m k v).
Proof.
  intros HK x Hx. rewrite aget_aset. destruct (bytes_eqb x k); [discriminate|apply HK; exact Hx].
Qed.

Lemma pkm_sdv k v : pkm (_set_db_value k v).
Proof.
  intros s (m & pd & Hd & Hp & HK).
  destruct s as [d r p c q]. cbn [t_db t_pending] in Hd, Hp. subst d q.
  unfold _set_db_value, bind, db_set, getst, putst, ret, with_db, with_refc, store_set, store_of.
  cbn [t_db t_root t_prune t_refc t_pending budget cells fst snd].
  destruct p; cbn [snd]; exists (aset m k v), pd; cbn [t_db t_pending];
    (split; [reflexivity|]); (split; [reflexivity|]); apply PK_aset; exact HK.
Qed.

Section PK.
  Variable H : bytes -> bytes.
  Variable BNH : bytes.

  Lemma pkm_persist n : pkm (_persist_node H n).
  Proof. apply (mrel__persist_node H PKrel PKrel_refl PKrel_trans (fun e => pkm_sdv (H e) e)). Qed.

  Lemma pkm_set_raw_node n : pkm (_set_raw_node H BNH n).
  Proof. apply (mrel__set_raw_node H BNH PKrel PKrel_refl PKrel_trans (fun e => pkm_sdv (H e) e)). Qed.

  Lemma pkm_get_node ref : pkm (get_node BNH ref).
  Proof. apply pkm_same. intro s. apply D_reads_pure_get_node. Qed.

  (* the run of a computation whose first part is known to keep the invariant *)
  Lemma PKs_bind {A B} (c : M A) (f : A -> M B) s :
    PKs (snd (c s)) -> (forall a, pkm (f a)) -> PKs (snd (bind c f s)).
  Proof.
    intros Hc Hf. unfold bind. destruct (c s) as [[a|e] s1]; cbn [snd] in *; [|exact Hc].
    exact (Hf a s1 Hc).
  Qed.

  Lemma bind_err {A B} (c : M A) (f : A -> M B) s e s' : c s = (Err e, s') -> bind c f s = (Err e, s').
  Proof. intro E. unfold bind. rewrite E. reflexivity. Qed.

  (* _prune_node on a state inside an operation *)
  Lemma prune_ps n r rc pd m :
    _prune_node H n (ps r rc pd m) =
    match node_to_db_mapping H n with
    | Err e => (Err e, ps r rc pd m)
    | Ok (k, Some _) => (Ok tt, ps r rc (aset pd (item_bytes k) (zget pd (item_bytes k) + 1)%Z) m)
    | Ok (_, None) => (Ok tt, ps r rc pd m)
    end.
  Proof.
    unfold _prune_node, bind, getst, lift. cbn [t_prune ps].
    destruct (node_to_db_mapping H n) as [[k [v|]]|e]; reflexivity.
  Qed.

  Lemma PKs_ps r rc pd m : PK pd m -> PKs (ps r rc pd m).
  Proof. intro HK. exists m, pd. split; [reflexivity|]. split; [reflexivity|exact HK]. Qed.

  Lemma PKs_ps_inv r rc pd m : PKs (ps r rc pd m) -> PK pd m.
  Proof. intros (m' & pd' & Hd & Hp & HK). cbn in Hd, Hp. injection Hd as <-. injection Hp as <-. exact HK. Qed.
End PK.

(* ================================================================== *)
(* 2. _set / _delete of a pruning trie over a store that is only [within]: every key put into
      the pending table is present in the store at that moment *)
Section SubStore.
  Variable H : bytes -> bytes.
  Variable BNH : bytes.
  Hypothesis H_len : forall x, length (H x) = 32%nat.
  Hypothesis BNH_def : BNH = H (rlp_encode (RStr [])).
  Variable SB : list bytes.
  Hypothesis cfS : cf H SB.

  Notation ebody := (ebody H).
  Notation enc := (enc H).
  Notation tref := (tref H).
  Notation within := (within H SB).
  Notation inS := (inS H SB).
  Notation inS_here := (inS_here H SB).
  Notation inj_ok := (inj_ok H SB).
  Notation long := (long H).
  Notation pkm_persist := (pkm_persist H).

  (* what is needed to READ t from a store that is [within] *)
  Definition rd_here (s : node) : Prop := inS_here s /\ decodable_here H s /\ nbc_here H BNH s.
  Definition rd (t : node) : Prop := all_sub rd_here t.
  (* the top node of t, if hashed, is present *)
  Definition tk (m : amap bytes) (t : node) : Prop := long t -> aget m (H (ebody t)) <> None.

  Lemma rd_intro t : inS t -> decodable H t -> no_blank_sub H BNH t -> rd t.
  Proof.
    intros Hi Hd Hn. unfold rd, rd_here. apply all_sub_and; [exact Hi|]. apply all_sub_and; assumption.
  Qed.
  Lemma rd_here_of t : rd t -> rd_here t.
  Proof. apply all_sub_here. Qed.
  Lemma rd_ext p c : rd (NExt p c) -> rd c.
  Proof. unfold rd. rewrite all_sub_ext. intros [_ Hc]. exact Hc. Qed.
  Lemma rd_blank : rd NBlank.
  Proof.
    split; [|exact I]. split; [|split].
    - intro Hl. discriminate Hl.
    - reflexivity.
    - intro Hl. discriminate Hl.
  Qed.
  Lemma rd_child cs v i : rd (NBranch cs v) -> rd (child cs i).
  Proof. unfold rd. rewrite all_sub_branch. intros [_ Hc]. apply Forall_child; [exact Hc|apply rd_blank]. Qed.
  Lemma rd_branch_Forall cs v : rd (NBranch cs v) -> Forall rd cs.
  Proof. unfold rd. rewrite all_sub_branch. intros [_ Hc]. exact Hc. Qed.
  Lemma rd_inS t : rd t -> inS t.
  Proof. apply all_sub_impl. intros s (Hs & _ & _). exact Hs. Qed.
  Lemma rd_decodable t : rd t -> decodable H t.
  Proof. apply all_sub_impl. intros s (_ & Hs & _). exact Hs. Qed.

  Lemma tk_blank m : tk m NBlank.
  Proof. intro Hl. discriminate Hl. Qed.

  (* reading the reference of a readable tree: its node, or KeyError *)
  Lemma read_sub c r rc pd m : within m -> rd_here c ->
    (get_node BNH (tref c) (ps r rc pd m) = (Ok (enc c), ps r rc pd m) /\ tk m c) \/
    (exists h, get_node BNH (tref c) (ps r rc pd m) = (Err (EKeyError h), ps r rc pd m)).
  Proof.
    intros Hw (Hin & Hd & Hn). rewrite (get_node_eq BNH m _ (ps r rc pd m) eq_refl).
    destruct (tref_cases H c) as [[-> Hr]|[(Hnb & Hl & Hr)|(Hnb & Hl & Hr)]]; rewrite Hr.
    - left. split; [reflexivity|apply tk_blank].
    - left. destruct (enc_nonblank H c Hnb) as (x & l & He). rewrite He. split; [reflexivity|].
      intro Hx. unfold Refine_write.long in Hx. rewrite Hl in Hx. discriminate Hx.
    - assert (Hh : hashed BNH (H (ebody c))).
      { split; [apply (hash_nonempty H H_len)|]. split; [apply bytes_eqb_neq; exact (Hn Hl)|].
        rewrite H_len. reflexivity. }
      rewrite (gn_hashed BNH m _ Hh).
      destruct (aget m (H (ebody c))) as [b|] eqn:Eg.
      + left. destruct (Hw _ _ Eg) as [Hhb Hb].
        assert (Hbe : b = ebody c).
        { apply cfS; [exact Hb|exact (Hin Hl)|symmetry; exact Hhb]. }
        subst b. split; [rewrite Hd; reflexivity|]. intros _. rewrite Eg. discriminate.
      + right. exists (H (ebody c)). reflexivity.
  Qed.

  Lemma mapping_enc t : wf t = true ->
    node_to_db_mapping H (enc t) =
    Ok (if is_nblank t then (BLANK, None)
        else if Nat.ltb (length (ebody t)) 32 then (enc t, None)
        else (RStr (H (ebody t)), Some (ebody t))).
  Proof.
    intro Hwf. rewrite (node_to_db_mapping_valid H _ tt (validate_enc H H_len t Hwf)).
    rewrite (is_blank_enc H). reflexivity.
  Qed.

  (* pruning the node of a tree whose top is present *)
  Lemma prune_sub t r rc pd m : wf t = true -> PK pd m -> tk m t ->
    exists pd', _prune_node H (enc t) (ps r rc pd m) = (Ok tt, ps r rc pd' m) /\ PK pd' m.
  Proof.
    intros Hwf HK Ht. rewrite prune_ps, (mapping_enc t Hwf).
    destruct (is_nblank t); [exists pd; split; [reflexivity|exact HK]|].
    destruct (Nat.ltb (length (ebody t)) 32) eqn:El; [exists pd; split; [reflexivity|exact HK]|].
    cbn [item_bytes]. eexists. split; [reflexivity|].
    intros k Hk. rewrite aget_aset in Hk. destruct (bytes_eqb k (H (ebody t))) eqn:E.
    - apply bytes_eqb_eq in E. subst k. apply Ht. exact El.
    - apply HK. exact Hk.
  Qed.

  Lemma PK_persist pd m n : PK pd m -> PK pd (persist H m n).
  Proof.
    intro HK. unfold persist. destruct (is_blank n); [exact HK|].
    destruct (Nat.ltb (length (rlp_encode n)) 32); [exact HK|apply PK_aset; exact HK].
  Qed.

  (* persisting the node of a tree: afterwards its top is present *)
  Lemma persist_sub t r rc pd m : wf t = true -> within m -> inS_here t -> PK pd m ->
    exists m' rc', _persist_node H (enc t) (ps r rc pd m) = (Ok (tref t), ps r rc' pd m') /\
                   within m' /\ PK pd m' /\ tk m' t.
  Proof.
    intros Hwf Hw Hin HK. destruct (persist_enc_ps H H_len t r rc pd m Hwf) as (rc' & E & _).
    destruct (persist_spec H SB cfS t m Hw Hin) as (_ & H2 & H3).
    exists (persist H m (enc t)), rc'. split; [exact E|]. split; [exact H2|].
    split; [apply PK_persist; exact HK|].
    intro Hl. rewrite (H3 Hl). discriminate.
  Qed.

  Ltac pstep :=
    cbv beta;
    match goal with
    | |- pkm (ret _) => apply pkm_ret
    | |- pkm (fail _) => apply pkm_fail
    | |- pkm (lift _) => apply pkm_lift
    | |- pkm (lift_bytes _) => apply pkm_lift_bytes
    | |- pkm (_persist_node _ _) => apply pkm_persist
    | |- pkm (bind _ _) => apply pkm_bind; [|intro]
    | |- pkm (match ?x with _ => _ end) => destruct x
    end.

  (* ---------------- _set: all reads precede all writes ---------------- *)
  Lemma set_pk fuel : forall t k v r rc pd m,
    wf t = true -> rd t -> within m -> nibs_ok k = true -> PK pd m -> tk m t ->
    PKs (snd (_set H BNH fuel (enc t) k v (ps r rc pd m))).
  Proof.
    induction fuel as [|f IH]; intros t k v r rc pd m Hwf Hrd Hw Hk HK Ht;
      [apply PKs_ps; exact HK|].
    destruct (prune_sub t r rc pd m Hwf HK Ht) as (pd0 & Epr & HK0).
    pose proof (PKs_ps r rc pd0 m HK0) as Hs0.
    destruct t as [| p pv | p c | cs bv].
    - (* blank *)
      cbn [_set Tree.enc] in *. st_lift blank_classified. st_ok Epr.
      apply pkm_use; [|exact Hs0]. repeat pstep.
    - (* leaf: nothing is read *)
      cbn [wf] in Hwf.
      destruct (leaf_classified p (RStr pv) Hwf) as [Hty Hx].
      destruct (leaf_is_ext p (RStr pv) Hwf) as [Hie Hil].
      cbn [_set]. rewrite (enc_leaf H) in Epr |- *.
      st_lift Hty. st_ok Epr. st_lift Hx.
      destruct (consume_common_prefix p k) as [[common cur_rem] key_rem].
      st_lift Hie.
      destruct cur_rem as [|c0 ct]; [destruct key_rem as [|k0 kt]|].
      + st_lift Hil. apply pkm_use; [|exact Hs0]. repeat pstep.
      + apply pkm_use; [|exact Hs0]. repeat pstep.
      + apply pkm_use; [|exact Hs0]. repeat pstep.
    - (* extension *)
      cbn [wf] in Hwf. apply andb_true_iff in Hwf as [Hp Hwc].
      destruct (extension_classified p (tref c) Hp) as [Hty Hx].
      destruct (ext_is_ext p (tref c) Hp) as [Hie Hil].
      cbn [_set]. rewrite (enc_ext H) in Epr |- *.
      st_lift Hty. st_ok Epr. st_lift Hx.
      pose proof (Tree_canon.tc_ccp_ok p k) as Hok.
      destruct (consume_common_prefix p k) as [[common cur_rem] key_rem].
      destruct (Hok _ _ _ eq_refl Hp Hk) as (Hc & Hcr & Hkr). clear Hok.
      st_lift Hie. cbn [kv_second].
      pose proof (rd_ext _ _ Hrd) as Hrdc.
      destruct cur_rem as [|c0 ct]; [destruct key_rem as [|k0 kt]|].
      + st_lift Hil.
        destruct (read_sub c r rc pd0 m Hw (rd_here_of _ Hrdc)) as [[E Htc]|(h & E)].
        * st_ok E. apply PKs_bind; [apply IH; assumption|]. intro a. repeat pstep.
        * ba. rewrite (bind_err _ _ _ _ _ E). exact Hs0.
      + destruct (read_sub c r rc pd0 m Hw (rd_here_of _ Hrdc)) as [[E Htc]|(h & E)].
        * st_ok E. apply PKs_bind; [apply IH; assumption|]. intro a. repeat pstep.
        * ba. rewrite (bind_err _ _ _ _ _ E). exact Hs0.
      + apply pkm_use; [|exact Hs0]. repeat pstep.
    - (* branch *)
      pose proof Hwf as Hwf'. rewrite wf_branch in Hwf'. apply andb_true_iff in Hwf' as [Hl Hall].
      apply Nat.eqb_eq in Hl.
      cbn [_set]. st_lift (branch_enc_classified H cs bv Hl). st_ok Epr.
      destruct k as [|k0 kt]; [apply pkm_use; [|exact Hs0]; repeat pstep|].
      apply nibs_ok_cons_inv in Hk as [Hk0 Hkt].
      rewrite (branch_child_enc H cs bv k0 Hl Hk0).
      pose proof (rd_child cs bv k0 Hrd) as Hrdc.
      destruct (read_sub (child cs k0) r rc pd0 m Hw (rd_here_of _ Hrdc)) as [[E Htc]|(h & E)].
      + st_ok E. apply PKs_bind.
        * apply IH; try assumption. apply Tree_map.wf_child. exact Hall.
        * intro a. repeat pstep.
      + ba. rewrite (bind_err _ _ _ _ _ E). exact Hs0.
  Qed.

  (* ---------------- _normalize_branch_node ---------------- *)
  Definition npost (t' : node) (r : bytes) (rc : amap Z) (m : amap bytes)
             (out : result item * trie) : Prop :=
    (exists h s, out = (Err (EKeyError h), s)) \/
    (exists pd', out = (Ok (enc t'), ps r rc pd' m) /\ PK pd' m).

  Lemma npost_ok t' r rc m pd : PK pd m -> npost t' r rc m (Ok (enc t'), ps r rc pd m).
  Proof. intro HK. right. exists pd. split; [reflexivity|exact HK]. Qed.

  Lemma normalize_sub cs v r rc pd m :
    length cs = 16%nat -> forallb wf cs = true -> (1 <= count_entries cs v)%nat ->
    Forall rd cs -> within m -> PK pd m ->
    npost (normalize cs v) r rc m
          (_normalize_branch_node H BNH (enc (NBranch cs v)) (ps r rc pd m)).
  Proof.
    intros Hl Hall Hcnt Hrd Hw HK. unfold _normalize_branch_node, normalize.
    assert (Hbi : branch_items (enc (NBranch cs v)) = bitems H cs v) by (rewrite (enc_branch' H); reflexivity).
    rewrite (branch_value_enc H cs v Hl). cbv zeta. rewrite Hbi, (filter_truthy_bitems H H_len).
    destruct (Nat.leb 2 (count_entries cs v)) eqn:E2; [apply npost_ok; exact HK|].
    apply Nat.leb_gt in E2. cbn [truthy]. fold (nonempty v).
    destruct (nonempty v) eqn:Ev.
    - st_lb (compute_leaf_key_HP [] eq_refl). apply (npost_ok (NLeaf [] v)). exact HK.
    - rewrite count_entries_eq, Ev in Hcnt, E2.
      destruct (first_nonblank cs 0) as [[idx c]|] eqn:Ef;
        [|apply first_nonblank_none_count in Ef; lia].
      destruct (first_nonblank_some _ _ _ _ Ef) as (j & Hidx & Hj & Hnth & Hnb & Hoth).
      assert (Hi16 : idx < 16) by lia.
      assert (Hchild : forall n, child cs n = if n =? idx then c else NBlank).
      { intro n. unfold child. destruct (N.eqb_spec n idx) as [->|Hne].
        - subst idx. rewrite N.add_0_l, Nat2N.id. exact Hnth.
        - apply Hoth; [lia|]. intro He. apply Hne. subst idx. lia. }
      assert (Hcin : In c cs) by (rewrite <- Hnth; apply nth_In; exact Hj).
      rewrite (flat_map_single idx (fun i => truthy (branch_child (enc (NBranch cs v)) i)) Hi16).
      2:{ intros i Hi. rewrite (branch_child_enc H cs v i Hl Hi), (truthy_tref H H_len), Hchild.
          destruct (i =? idx); [rewrite Hnb|]; reflexivity. }
      rewrite (branch_child_enc H cs v idx Hl Hi16), Hchild, N.eqb_refl.
      assert (Hrdc : rd c) by (rewrite Forall_forall in Hrd; apply Hrd; exact Hcin).
      assert (Hwc : wf c = true) by (rewrite forallb_forall in Hall; apply Hall; exact Hcin).
      destruct (read_sub c r rc pd m Hw (rd_here_of _ Hrdc)) as [[E Htc]|(h & E)].
      2:{ ba. rewrite (bind_err _ _ _ _ _ E). left. eauto. }
      st_ok E.
      destruct (prune_sub c r rc pd m Hwc HK Htc) as (pd1 & Epr & HK1).
      destruct c as [| q w | q d | ds w].
      + discriminate Hnb.
      + cbn [wf] in Hwc. destruct (leaf_classified q (RStr w) Hwc) as [Ht _].
        rewrite (enc_leaf H) in Epr |- *. st_lift Ht. st_ok Epr.
        cbn [kv_first kv_second]. st_lift (decode_key_HP q true Hwc).
        assert (Hok : nibs_ok (idx :: q) = true) by (apply nibs_ok_cons_intro; assumption).
        st_lb (encode_cons_HP idx q true Hok). apply (npost_ok (NLeaf (idx :: q) w)). exact HK1.
      + cbn [wf] in Hwc. apply andb_true_iff in Hwc as [Hq Hwd].
        destruct (extension_classified q (tref d) Hq) as [Ht _].
        rewrite (enc_ext H) in Epr |- *. st_lift Ht. st_ok Epr.
        cbn [kv_first kv_second]. st_lift (decode_key_HP q false Hq).
        assert (Hok : nibs_ok (idx :: q) = true) by (apply nibs_ok_cons_intro; assumption).
        st_lb (encode_cons_HP idx q false Hok). apply (npost_ok (NExt (idx :: q) d)). exact HK1.
      + pose proof Hwc as Hwc'. rewrite wf_branch in Hwc'. apply andb_true_iff in Hwc' as [Hld _].
        apply Nat.eqb_eq in Hld. st_lift (branch_enc_classified H ds w Hld).
        assert (Hok : nibs_ok [idx] = true) by (apply nibs_ok_cons_intro; [exact Hi16|reflexivity]).
        st_lb (encode_nibbles_HP [idx] false Hok). apply (npost_ok (NExt [idx] (NBranch ds w))). exact HK.
  Qed.

  (* ---------------- _delete ---------------- *)
  Definition dpost (t' : node) (r : bytes) (out : result item * trie) : Prop :=
    (exists h s, out = (Err (EKeyError h), s)) \/
    (exists m' rc' pd', out = (Ok (enc t'), ps r rc' pd' m') /\ within m' /\ PK pd' m').

  Lemma dpost_same t r rc pd m : within m -> PK pd m -> dpost t r (Ok (enc t), ps r rc pd m).
  Proof. intros Hw HK. right. exists m, rc, pd. split; [reflexivity|]. split; assumption. Qed.

  Lemma dpost_npost t r rc m out : within m -> npost t r rc m out -> dpost t r out.
  Proof.
    intros Hw [Herr|(pd' & E & HK)]; [left; exact Herr|]. right. exists m, rc, pd'.
    split; [exact E|]. split; assumption.
  Qed.

  Notation dw_ok := (dw_ok H SB).

  Definition del_sub (t : node) : Prop :=
    forall fuel k r rc pd m,
      canonical_top t = true -> rd t -> within m -> nibs_ok k = true ->
      (length k < fuel)%nat -> dw_ok t k -> PK pd m -> tk m t ->
      dpost (tdelete t k) r (_delete H BNH fuel (enc t) k (ps r rc pd m)).

  Lemma del_sub_blank : del_sub NBlank.
  Proof.
    intros fuel k r rc pd m _ _ Hw _ Hfuel _ HK Ht. destruct fuel as [|f]; [lia|].
    destruct (prune_sub NBlank r rc pd m eq_refl HK Ht) as (pd0 & Epr & HK0). cbn [Tree.enc] in Epr.
    cbn [_delete Tree.enc tdelete]. st_lift blank_classified. st_ok Epr.
    apply (dpost_same NBlank); assumption.
  Qed.

  Lemma del_sub_leaf p pv : del_sub (NLeaf p pv).
  Proof.
    intros fuel k r rc pd m Hc _ Hw Hk Hfuel _ HK Ht. destruct fuel as [|f]; [lia|].
    pose proof (Tree_traverse_proofs.canonical_wf _ Hc) as Hwf.
    destruct (prune_sub (NLeaf p pv) r rc pd m Hwf HK Ht) as (pd0 & Epr & HK0).
    cbn [wf] in Hwf.
    destruct (leaf_classified p (RStr pv) Hwf) as [Hty Hx].
    cbn [_delete]. rewrite (enc_leaf H) in Epr |- *. st_lift Hty. st_ok Epr. st_lift Hx.
    rewrite Tree_canon.tdelete_leaf.
    destruct (nibbles_eqb k p) eqn:Ekp.
    - apply nibbles_eqb_eq in Ekp. subst k.
      assert (Hks : key_starts_with p p = true).
      { rewrite <- (app_nil_r p) at 1. apply key_starts_with_app. }
      rewrite Hks. cbn [negb]. apply (dpost_same NBlank); assumption.
    - rewrite <- (enc_leaf H).
      destruct (negb (key_starts_with k p)); apply (dpost_same (NLeaf p pv)); assumption.
  Qed.

  Lemma del_sub_ext p c : del_sub c -> del_sub (NExt p c).
  Proof.
    intros IH fuel k r rc pd m Hc Hrd Hw Hk Hfuel Hdw HK Ht. destruct fuel as [|f]; [lia|].
    destruct (canonical_top_ext_inv _ _ Hc) as (Hp & Hpne & Hcc).
    pose proof (Tree_traverse_proofs.canonical_wf _ Hc) as Hwf.
    pose proof (Tree_traverse_proofs.canonical_wf _ Hcc) as Hwc.
    pose proof (rd_ext _ _ Hrd) as Hrdc.
    destruct (prune_sub (NExt p c) r rc pd m Hwf HK Ht) as (pd0 & Epr & HK0).
    destruct (extension_classified p (tref c) Hp) as [Hty Hx].
    cbn [_delete]. rewrite (enc_ext H) in Epr |- *. st_lift Hty. st_ok Epr. st_lift Hx.
    rewrite Tree_map.tdelete_ext.
    destruct (key_starts_with k p) eqn:Eks; cbn [negb].
    2:{ rewrite <- (enc_ext H). apply (dpost_same (NExt p c)); assumption. }
    cbv zeta. cbn [kv_second].
    unfold Refine_write.dw_ok in Hdw. rewrite (dwrites_ext _ _ _ Eks) in Hdw.
    pose proof (tm_ksw_split _ _ Eks) as Hksplit.
    assert (Hk' : nibs_ok (skipn (length p) k) = true) by (apply tm_nibs_ok_skipn; exact Hk).
    assert (Hlen : (length (skipn (length p) k) < f)%nat).
    { rewrite Hksplit, app_length in Hfuel. destruct p; [contradiction|]. cbn [length] in *. lia. }
    assert (Hdwc : dw_ok c (skipn (length p) k)).
    { intros x Hx'. apply Hdw. right. exact Hx'. }
    pose proof (Hdw _ (or_introl eq_refl)) as Hinj'.
    destruct (read_sub c r rc pd0 m Hw (rd_here_of _ Hrdc)) as [[E Htc]|(h & E)].
    2:{ ba. rewrite (bind_err _ _ _ _ _ E). left. eauto. }
    st_ok E.
    destruct (IH f (skipn (length p) k) r rc pd0 m Hcc Hrdc Hw Hk' Hlen Hdwc HK0 Htc)
      as [(h & s & E1)|(m1 & rc1 & pd1 & E1 & Hw1 & HK1)].
    { ba. rewrite (bind_err _ _ _ _ _ E1). left. eauto. }
    set (c' := tdelete c (skipn (length p) k)) in *.
    st_ok E1.
    destruct Hinj' as (Hwc' & Hinc' & Hdc').
    destruct (persist_sub c' r rc1 pd1 m1 Hwc' Hw1 (inS_here_of H SB _ Hinc') HK1)
      as (m2 & rc2 & E2 & Hw2 & HK2 & Ht2).
    st_ok E2.
    destruct (node_eqb c' c) eqn:Ecc.
    - apply node_eqb_eq in Ecc. rewrite Ecc in *. rewrite item_eqb_refl. rewrite <- (enc_ext H).
      apply (dpost_same (NExt p c)); assumption.
    - assert (Hne : tref c' <> tref c).
      { intro Heq. apply (tref_inj H H_len SB cfS) in Heq.
        - rewrite Heq, node_eqb_refl in Ecc. discriminate Ecc.
        - repeat split; assumption.
        - split; [exact Hwc|]. split; [apply rd_inS; exact Hrdc|apply rd_decodable; exact Hrdc]. }
      rewrite (item_eqb_neq _ _ Hne). rewrite (is_blank_enc H).
      destruct c' as [| q w | q d | ds w]; cbn [is_nblank merge_ext].
      + apply (dpost_same NBlank); assumption.
      + destruct (prune_sub (NLeaf q w) r rc2 pd1 m2 Hwc' HK2 Ht2) as (pd2 & Epr2 & HK3).
        cbn [wf] in Hwc'. destruct (leaf_classified q (RStr w) Hwc') as [Ht' _].
        rewrite (enc_leaf H) in Epr2 |- *. st_lift Ht'. st_ok Epr2.
        cbn [kv_first kv_second]. st_lift (decode_key_HP q true Hwc').
        rewrite with_flag_app.
        assert (Hok : nibs_ok (p ++ q) = true) by (rewrite nibs_ok_app, Hp, Hwc'; reflexivity).
        st_lb (encode_nibbles_HP (p ++ q) true Hok). rewrite <- (enc_leaf H).
        apply (dpost_same (NLeaf (p ++ q) w)); assumption.
      + destruct (prune_sub (NExt q d) r rc2 pd1 m2 Hwc' HK2 Ht2) as (pd2 & Epr2 & HK3).
        cbn [wf] in Hwc'. apply andb_true_iff in Hwc' as [Hq Hwd].
        destruct (extension_classified q (tref d) Hq) as [Ht' _].
        rewrite (enc_ext H) in Epr2 |- *. st_lift Ht'. st_ok Epr2.
        cbn [kv_first kv_second]. st_lift (decode_key_HP q false Hq).
        rewrite with_flag_app.
        assert (Hok : nibs_ok (p ++ q) = true) by (rewrite nibs_ok_app, Hp, Hq; reflexivity).
        st_lb (encode_nibbles_HP (p ++ q) false Hok). rewrite <- (enc_ext H).
        apply (dpost_same (NExt (p ++ q) d)); assumption.
      + pose proof Hwc' as Hwc''. rewrite wf_branch in Hwc''. apply andb_true_iff in Hwc'' as [Hld _].
        apply Nat.eqb_eq in Hld. st_lift (branch_enc_classified H ds w Hld).
        st_lb (encode_nibbles_HP p false Hp). rewrite <- (enc_ext H).
        apply (dpost_same (NExt p (NBranch ds w))); assumption.
  Qed.

  Lemma Forall_rd_set_blank cs i : Forall rd cs -> Forall rd (set_child cs i NBlank).
  Proof. intro Hg. apply rw_Forall_list_set; [exact Hg|apply rd_blank]. Qed.

  Lemma del_sub_branch cs bv : Forall del_sub cs -> del_sub (NBranch cs bv).
  Proof.
    intros IH fuel k r rc pd m Hc Hrd Hw Hk Hfuel Hdw HK Ht. destruct fuel as [|f]; [lia|].
    destruct (canonical_top_branch_inv _ _ Hc) as (Hl & Hcnt & Hcc).
    pose proof (Tree_traverse_proofs.canonical_wf _ Hc) as Hwf.
    pose proof Hwf as Hwf'. rewrite wf_branch in Hwf'. apply andb_true_iff in Hwf' as [_ Hall].
    pose proof (rd_branch_Forall _ _ Hrd) as Hrdcs.
    destruct (prune_sub (NBranch cs bv) r rc pd m Hwf HK Ht) as (pd0 & Epr & HK0).
    cbn [_delete]. st_lift (branch_enc_classified H cs bv Hl). st_ok Epr.
    destruct k as [|k0 kt].
    - rewrite tdelete_branch_nil. change BLANK with (RStr []).
      rewrite (branch_set_value_enc H _ _ _ Hl).
      apply (dpost_npost _ r rc m); [exact Hw|].
      apply normalize_sub; try assumption.
      pose proof (count_entries_drop_value cs bv). lia.
    - apply nibs_ok_cons_inv in Hk as [Hk0 Hkt].
      assert (Hk0l : (N.to_nat k0 < length cs)%nat) by (rewrite Hl; lia).
      rewrite (tdelete_branch _ _ _ _ Hk0l). cbv zeta.
      unfold Refine_write.dw_ok in Hdw. rewrite (dwrites_branch _ _ _ _ Hk0l) in Hdw.
      rewrite (branch_child_enc H cs bv k0 Hl Hk0).
      pose proof (rd_child cs bv k0 Hrd) as Hrdc.
      assert (IHc : del_sub (child cs k0)).
      { destruct (child_in_or_blank cs k0) as [Hi| ->]; [|apply del_sub_blank].
        rewrite Forall_forall in IH. apply IH. exact Hi. }
      assert (Hccc : canonical_top (child cs k0) = true) by (apply Tree_unique.canonical_top_nth; exact Hcc).
      assert (Hdwc : dw_ok (child cs k0) kt).
      { intros x Hx'. apply Hdw. right. exact Hx'. }
      pose proof (Hdw _ (or_introl eq_refl)) as Hinj'.
      cbn [length] in Hfuel.
      destruct (read_sub (child cs k0) r rc pd0 m Hw (rd_here_of _ Hrdc)) as [[E Htc]|(h & E)].
      2:{ ba. rewrite (bind_err _ _ _ _ _ E). left. eauto. }
      st_ok E.
      destruct (IHc f kt r rc pd0 m Hccc Hrdc Hw Hkt ltac:(lia) Hdwc HK0 Htc)
        as [(h & s & E1)|(m1 & rc1 & pd1 & E1 & Hw1 & HK1)].
      { ba. rewrite (bind_err _ _ _ _ _ E1). left. eauto. }
      set (c := child cs k0) in *. set (c' := tdelete c kt) in *.
      st_ok E1.
      destruct Hinj' as (Hwc' & Hinc' & Hdc').
      destruct (persist_sub c' r rc1 pd1 m1 Hwc' Hw1 (inS_here_of H SB _ Hinc') HK1)
        as (m2 & rc2 & E2 & Hw2 & HK2 & Ht2).
      st_ok E2.
      destruct (node_eqb c' c) eqn:Ecc.
      + apply node_eqb_eq in Ecc. rewrite Ecc in *. rewrite item_eqb_refl.
        apply (dpost_same (NBranch cs bv)); assumption.
      + assert (Hne : tref c' <> tref c).
        { intro Heq. apply (tref_inj H H_len SB cfS) in Heq.
          - rewrite Heq, node_eqb_refl in Ecc. discriminate Ecc.
          - repeat split; assumption.
          - split; [apply (Tree_traverse_proofs.canonical_wf _ Hccc)|].
            split; [apply rd_inS; exact Hrdc|apply rd_decodable; exact Hrdc]. }
        rewrite (item_eqb_neq _ _ Hne). rewrite (branch_set_enc H _ _ _ _ Hl Hk0). rewrite (is_blank_tref H H_len).
        destruct (is_nblank c') eqn:Eb.
        * apply is_nblank_true in Eb. rewrite Eb in *.
          apply (dpost_npost _ r rc2 m2); [exact Hw2|].
          apply normalize_sub; try assumption.
          -- rewrite length_set_child. exact Hl.
          -- apply forallb_wf_set_child; [exact Hall|reflexivity].
          -- pose proof (count_entries_blank_child cs bv k0 Hk0l). lia.
          -- apply Forall_rd_set_blank. exact Hrdcs.
        * apply (dpost_same (NBranch (set_child cs k0 c') bv)); assumption.
  Qed.

  Theorem _delete_sub t : del_sub t.
  Proof.
    induction t as [| p pv | p c IH | cs bv IH] using node_ind'.
    - apply del_sub_blank.
    - apply del_sub_leaf.
    - apply del_sub_ext. exact IH.
    - apply del_sub_branch. exact IH.
  Qed.

  (* ---------------- the inner computation of set / delete ---------------- *)
  Definition okpk {A} (out : result A * trie) : Prop :=
    match out with (Ok _, s') => PKs s' | (Err _, _) => True end.

  Lemma okpk_of_snd {A} (out : result A * trie) : PKs (snd out) -> okpk out.
  Proof. destruct out as [[a|e] s]; cbn [snd okpk]; [intro Hs; exact Hs|trivial]. Qed.

  Lemma okpk_of_dpost t' r out : dpost t' r out -> okpk out.
  Proof.
    intros [(h & s & ->)|(m' & rc' & pd' & -> & _ & HK)]; cbn [okpk]; [exact I|apply PKs_ps; exact HK].
  Qed.

  Lemma within_sub m1 m2 : sub_store m1 m2 -> within m2 -> within m1.
  Proof. intros Hs Hw h b Hg. apply Hw, Hs, Hg. Qed.

  Lemma gn_BNH m : gn BNH m (RStr BNH) = Ok BLANK.
  Proof. unfold gn. destruct BNH as [|b0 b'] eqn:Eb; [reflexivity|]. rewrite bytes_eqb_refl. reflexivity. Qed.

  (* reading the root of the represented tree from a sub-store *)
  Lemma read_root_sub t rc pd m1 m2 :
    represents H m2 (troot H t) t -> decodable H t -> no_blank_collision H BNH t -> sub_store m1 m2 ->
    (get_node BNH (RStr (troot H t)) (ps (troot H t) rc pd m1) = (Ok (enc t), ps (troot H t) rc pd m1) /\ tk m1 t) \/
    (exists h, get_node BNH (RStr (troot H t)) (ps (troot H t) rc pd m1)
               = (Err (EKeyError h), ps (troot H t) rc pd m1)).
  Proof.
    intros (_ & Hroot & _) Hd (Hnr & _) Hsub.
    rewrite (get_node_eq BNH m1 _ (ps (troot H t) rc pd m1) eq_refl).
    destruct (node_eqb t NBlank) eqn:Eb.
    - apply node_eqb_eq in Eb. subst t. left.
      replace (troot H NBlank) with BNH by (rewrite BNH_def; reflexivity).
      rewrite gn_BNH. split; [reflexivity|apply tk_blank].
    - assert (Hnb : t <> NBlank) by (intro Hx; subst t; discriminate Eb).
      destruct Hroot as [Hx|Hg2]; [contradiction|].
      assert (Hh : hashed BNH (troot H t)).
      { split; [apply (hash_nonempty H H_len)|]. split; [apply bytes_eqb_neq; exact (Hnr Hnb)|].
        unfold troot. rewrite H_len. reflexivity. }
      rewrite (gn_hashed BNH m1 _ Hh).
      destruct (aget m1 (troot H t)) as [b|] eqn:Eg.
      + left. pose proof (Hsub _ _ Eg) as Hg. rewrite Hg2 in Hg. injection Hg as <-.
        pose proof (all_sub_here _ _ Hd) as Hdh. unfold decodable_here in Hdh. fold (ebody t) in Hdh.
        split; [rewrite Hdh; reflexivity|]. intros _. fold (ebody t) in Eg.
        change (H (ebody t)) with (troot H t). rewrite Eg. discriminate.
      + right. exists (troot H t). reflexivity.
  Qed.

  Section Inner.
    Variables (t : node) (rc : amap Z) (m1 m2 : amap bytes).
    Hypothesis Hrep : represents H m2 (troot H t) t.
    Hypothesis Hc : canonical_top t = true.
    Hypothesis Hd : decodable H t.
    Hypothesis Hn : no_blank_collision H BNH t.
    Hypothesis Hin : inS t.
    Hypothesis Hw2 : within m2.
    Hypothesis Hsub : sub_store m1 m2.

    Lemma delete_run_pk key : dw_ok t (bytes_to_nibbles key) ->
      okpk (bind getst (fun s => bind (get_node BNH (RStr (t_root s))) (fun root =>
              _delete H BNH (write_fuel key) root (bytes_to_nibbles key))) (ps (troot H t) rc [] m1)).
    Proof.
      intro Hdw. rewrite bind_getst. cbn [t_root ps].
      destruct (read_root_sub t rc [] m1 m2 Hrep Hd Hn Hsub) as [[E Ht]|(h & E)].
      2:{ rewrite (bind_err _ _ _ _ _ E). exact I. }
      st_ok E. apply (okpk_of_dpost (tdelete t (bytes_to_nibbles key)) (troot H t)).
      apply _delete_sub; try assumption.
      - apply rd_intro; [exact Hin|exact Hd|apply Hn].
      - apply (within_sub m1 m2); assumption.
      - apply bytes_to_nibbles_ok.
      - unfold write_fuel. rewrite length_bytes_to_nibbles. lia.
      - intros k Hk. exfalso. apply Hk. reflexivity.
    Qed.

    Lemma set_run_pk key v0 v' :
      okpk (bind getst (fun s => bind (get_node BNH (RStr (t_root s))) (fun root =>
              _set H BNH (write_fuel key) root (bytes_to_nibbles key) (v0 :: v'))) (ps (troot H t) rc [] m1)).
    Proof.
      rewrite bind_getst. cbn [t_root ps].
      destruct (read_root_sub t rc [] m1 m2 Hrep Hd Hn Hsub) as [[E Ht]|(h & E)].
      2:{ rewrite (bind_err _ _ _ _ _ E). exact I. }
      st_ok E. apply okpk_of_snd. apply set_pk; try assumption.
      - apply Tree_traverse_proofs.canonical_wf; exact Hc.
      - apply rd_intro; [exact Hin|exact Hd|apply Hn].
      - apply (within_sub m1 m2); assumption.
      - apply bytes_to_nibbles_ok.
      - intros k Hk. exfalso. apply Hk. reflexivity.
    Qed.

    Lemma set_inner_pk key v :
      (forall x, In x (op_writes t (top_of (key, Some v))) -> inj_ok x) ->
      okpk (set_inner H BNH key v (ps (troot H t) rc [] m1)).
    Proof.
      intro Hdw. unfold set_inner. destruct v as [|v0 v'].
      - apply delete_run_pk. exact Hdw.
      - apply set_run_pk.
    Qed.

    Lemma delete_inner_pk key :
      (forall x, In x (op_writes t (top_of (key, None))) -> inj_ok x) ->
      okpk (delete_inner H BNH key (ps (troot H t) rc [] m1)).
    Proof. intro Hdw. unfold delete_inner. apply delete_run_pk. exact Hdw. Qed.
  End Inner.

  (* ---------------- _set_root_node keeps the invariant: the old root is scheduled for pruning
     only if the database contains it ---------------- *)
  Lemma pkm_catch {A} (c : M A) hd : pkm c -> (forall e k, hd e = Some k -> pkm k) -> pkm (catch c hd).
  Proof. apply (mrel_catch PKrel PKrel_trans). Qed.

  Lemma PKs_ps0 r p c pd m : PK pd m -> PKs (mkTrie (DPlain (store_of m)) r p c (Some pd)).
  Proof. intro HK. exists m, pd. split; [reflexivity|]. split; [reflexivity|exact HK]. Qed.

  Lemma pkm_contains_inc old (body : option bytes) :
    pkm (bind (db_contains old) (fun present =>
           match body with
           | None => if present then pending_inc old else ret tt
           | Some _ => ret tt
           end)).
  Proof.
    intros s (m & pd & Hdb & Hp & HK).
    destruct s as [d r p c q]. cbn [t_db t_pending] in Hdb, Hp. subst d q.
    unfold bind, db_contains. cbn [t_db]. change (store_mem (store_of m) old) with (amem m old).
    destruct body as [b|]; [apply PKs_ps0; exact HK|].
    destruct (amem m old) eqn:Em; [|apply PKs_ps0; exact HK].
    unfold pending_inc, bind, getst, putst, with_pending. cbn [t_db t_root t_prune t_refc t_pending snd].
    apply PKs_ps0.
    intros k Hk. rewrite aget_aset in Hk. destruct (bytes_eqb k old) eqn:E.
    - apply bytes_eqb_eq in E. subst k. unfold amem in Em. destruct (aget m old); [discriminate|discriminate Em].
    - apply HK. exact Hk.
  Qed.

  Lemma pkm_old_root_part old : pkm (old_root_part H BNH old).
  Proof.
    unfold old_root_part. apply pkm_bind.
    - apply pkm_catch.
      + apply pkm_bind; [apply pkm_get_node|intro; apply pkm_ret].
      + intros e k Hk. destruct (key_error_hash e); [|discriminate Hk]. injection Hk as <-. apply pkm_ret.
    - intros [orn|]; [|apply pkm_ret].
      apply pkm_bind; [apply pkm_lift|intros [k0 body]]. apply pkm_contains_inc.
  Qed.

  Lemma pkm_set_root h : pkm (bind getst (fun t' => putst (with_root t' h))).
  Proof. intros s (m & pd & Hdb & Hp & HK). exists m, pd. repeat split; assumption. Qed.

  Lemma pkm__set_root_node n : pkm (_set_root_node H BNH n).
  Proof.
    assert (Hp : forall pr old, pkm (srn_with H BNH n pr old)).
    { intros pr old. unfold srn_with. apply pkm_bind; [apply pkm_lift|intros _].
      apply pkm_bind.
      - destruct pr; [|apply pkm_ret]. destruct (negb (bytes_eqb old BNH)); [apply pkm_old_root_part|apply pkm_ret].
      - intros _. apply pkm_bind; [apply pkm_set_raw_node|intro h; apply pkm_set_root]. }
    intros s Hs. rewrite srn_with_eq. exact (Hp _ _ s Hs).
  Qed.

  Lemma wbody_pk key (inner : M item) s :
    okpk (inner s) -> okpk (wbody H BNH key inner s).
  Proof.
    intro Hi. unfold wbody, bind, raise_missing, catch.
    destruct (inner s) as [[a|e] s1]; cbn [okpk] in Hi.
    - apply okpk_of_snd. apply pkm__set_root_node. exact Hi.
    - destruct (key_error_hash e) as [h|]; exact I.
  Qed.

  (* ---------------- _complete_pruning on two stores that agree on the pending keys -------- *)
  Lemma in_keys_aget {V} (p : amap V) k : In k (akeys p) -> aget p k <> None.
  Proof.
    induction p as [|[k0 v0] p IH]; cbn [akeys map fst aget]; [intros []|].
    intros [Hk|Hk].
    - subst k0. rewrite bytes_eqb_refl. discriminate.
    - destruct (bytes_eqb k k0); [discriminate|apply IH; exact Hk].
  Qed.

  Lemma prune_fold_agree p : forall c cs1 cs2,
    sub_store cs1 cs2 -> (forall k, In k (akeys p) -> amem cs1 k = amem cs2 k) ->
    fst (fst (prune_fold p c cs1)) = fst (fst (prune_fold p c cs2)) /\
    snd (fst (prune_fold p c cs1)) = snd (fst (prune_fold p c cs2)) /\
    sub_store (snd (prune_fold p c cs1)) (snd (prune_fold p c cs2)).
  Proof.
    induction p as [|[k n] p IH]; intros c cs1 cs2 Hsub Hag; cbn [prune_fold].
    - repeat split. exact Hsub.
    - cbn [akeys map fst] in Hag.
      destruct (zget c k - n <=? 0)%Z.
      + rewrite <- (Hag k (or_introl eq_refl)). destruct (amem cs1 k).
        * apply IH; [apply sub_adel_both; exact Hsub|].
          intros k' Hk'. rewrite !amem_adel. destruct (bytes_eqb k' k); [reflexivity|].
          apply Hag. right. exact Hk'.
        * repeat split. exact Hsub.
      + apply IH; [exact Hsub|]. intros k' Hk'. apply Hag. right. exact Hk'.
  Qed.

  (* ---------------- one write on a sub-store, generically ---------------- *)
  Section Body.
    Variable key : bytes.
    Variable inner : M item.
    Hypothesis Hsim : forall G, sim G inner.
    Hypothesis Hprune : forall t r t', inner t = (r, t') -> t_prune t' = t_prune t.
    Hypothesis Hrootp : forall t r t', inner t = (r, t') -> t_root t' = t_root t.
    Hypothesis Hfirst : forall t h,
      fst (get_node BNH (RStr (t_root t)) t) = Err (EKeyError h) -> inner t = (Err (EKeyError h), t).
    Hypothesis Hmiss : forall t e t', t_pending t = None ->
      D_retry_write.wop H BNH key inner t = (Err e, t') -> exn_tag e = T_MissingTrieNode ->
      t' = t /\ exists h, e = EMissingTrieNode h (t_root t) key None.

    Lemma missing_atomic_p t1 h r : t_pending t1 = None ->
      fst (D_retry_write.wop H BNH key inner t1) = Err (EMissingTrieNode h r key None) ->
      D_retry_write.wop H BNH key inner t1 = (Err (EMissingTrieNode h (t_root t1) key None), t1).
    Proof.
      intros Hq Hres. destruct (D_retry_write.wop H BNH key inner t1) as [r1 t1'] eqn:E.
      cbn [fst] in Hres. subst r1.
      destruct (Hmiss t1 _ t1' Hq E eq_refl) as [-> (h' & He)].
      rewrite He, <- (missing_inj _ _ _ _ _ _ He). reflexivity.
    Qed.

    Lemma wop_sub t1 t2 tf2 :
      wrel t1 t2 -> t_prune t1 = true ->
      (t_root t1 = BNH \/ hashed BNH (t_root t1)) ->
      D_retry_write.wop H BNH key inner t2 = (Ok tt, tf2) ->
      okpk (inner (with_pending t1 (Some []))) ->
      (exists tf1, D_retry_write.wop H BNH key inner t1 = (Ok tt, tf1) /\ wrel tf1 tf2) \/
      (exists h, D_retry_write.wop H BNH key inner t1
                 = (Err (EMissingTrieNode h (t_root t1) key None), t1) /\
                 aget (tcells t1) h = None /\ aget (tcells t2) h <> None).
    Proof.
      intros Hw Hp Hroot Hok2 Hpk.
      pose proof Hw as (m1 & m2 & Hd1 & Hd2 & Hsub & Hr & Hpp & Hc & Hq1 & Hq2).
      assert (Hc1 : tcells t1 = m1) by (unfold tcells, outer_store; rewrite Hd1; reflexivity).
      assert (Hc2 : tcells t2 = m2) by (unfold tcells, outer_store; rewrite Hd2; reflexivity).
      set (G0 := gap (tcells t1) (tcells t2)).
      assert (Hcase : (exists h, D_retry_write.wop H BNH key inner t1
                                 = (Err (EMissingTrieNode h (t_root t1) key None), t1) /\
                                 aget (tcells t1) h = None /\ aget (tcells t2) h <> None) \/
                      (t_root t1 = BNH \/ ~ G0 (t_root t1))).
      { destruct Hroot as [Hb|Hh]; [right; left; exact Hb|].
        destruct (aget m1 (t_root t1)) as [b|] eqn:E1.
        { right. right. intros [Hx _]. rewrite Hc1, E1 in Hx. discriminate Hx. }
        destruct (aget m2 (t_root t1)) as [b|] eqn:E2.
        2:{ right. right. intros [_ Hx]. apply Hx. rewrite Hc2. exact E2. }
        left. exists (t_root t1).
        destruct (wop_first_missing H BNH key inner Hfirst t1 m1 (t_root t1) Hd1 eq_refl Hh E1) as (r & Hres).
        split; [exact (missing_atomic_p t1 _ r Hq1 Hres)|].
        rewrite Hc1, Hc2, E2. split; [exact E1|discriminate]. }
      destruct Hcase as [Hm|Hcond]; [right; exact Hm|].
      set (s1 := with_pending t1 (Some [])) in *. set (s2 := with_pending t2 (Some [])).
      assert (Hrs : rel G0 s1 s2) by (apply rel_with_pending, wrel_rel; exact Hw).
      assert (Hcs : t_prune s1 = false \/ t_root s1 = BNH \/ ~ G0 (t_root s1)) by (right; exact Hcond).
      pose proof (sim_wbody_gen H BNH key inner Hsim Hprune Hrootp G0 s1 s2 Hrs Hcs) as Hs.
      pose proof (wbody_pk key inner s1 Hpk) as Hpk'.
      assert (Hp2 : t_prune t2 = true) by (rewrite <- Hpp; exact Hp).
      unfold D_retry_write.wop, _prune_on_success in Hok2 |- *.
      fold (wbody H BNH key inner) in Hok2 |- *. rewrite Hp2 in Hok2. rewrite Hp. fold s1. fold s2 in Hok2.
      unfold outM, outA in Hs.
      destruct (wbody H BNH key inner s1) as [r1 s1'] eqn:E1.
      destruct (wbody H BNH key inner s2) as [r2 s2'] eqn:E2. cbn [fst snd] in Hs.
      destruct Hs as [[Hres Hr']|(h & r & Hres & Hg)].
      - subst r2. destruct r1 as [u|e]; [|discriminate Hok2]. left.
        assert (Hp1' : t_prune s1' = true) by (rewrite (wbody_prune H BNH key inner Hprune _ _ _ E1); exact Hp).
        assert (Hp2' : t_prune s2' = true) by (rewrite (wbody_prune H BNH key inner Hprune _ _ _ E2); exact Hp2).
        rewrite Hp2' in Hok2. rewrite Hp1'.
        cbn [okpk] in Hpk'. destruct Hpk' as (n1 & p & Hdb1 & Hpe1 & HK).
        destruct Hr' as (n1' & n2 & Hdb1' & Hdb2 & Hsub' & _ & Hroot' & _ & Hrefc' & Hpend').
        rewrite Hdb1 in Hdb1'. injection Hdb1' as <-.
        assert (Hpe2 : t_pending s2' = Some p) by (rewrite <- Hpend'; exact Hpe1).
        rewrite (complete_pruning_unfold s1' p Hpe1), (loop_is_fold p s1' _ Hdb1).
        rewrite (complete_pruning_unfold s2' p Hpe2), (loop_is_fold p s2' _ Hdb2) in Hok2.
        cbn [cells budget store_of] in Hok2 |- *. rewrite <- Hrefc' in Hok2.
        destruct (prune_fold_agree p (t_refc s1') n1 n2 Hsub') as (Ha1 & Ha2 & Ha3).
        { intros k Hk. pose proof (HK k (in_keys_aget p k Hk)) as Hk1. unfold amem.
          destruct (aget n1 k) as [b|] eqn:Eb; [|contradiction]. rewrite (Hsub' _ _ Eb). reflexivity. }
        destruct (prune_fold p (t_refc s1') n1) as [[ok1 c1] cs1].
        destruct (prune_fold p (t_refc s1') n2) as [[ok2 c2] cs2].
        cbn [fst snd] in Ha1, Ha2, Ha3. subst ok2 c2.
        destruct ok1; [|discriminate Hok2]. injection Hok2 as <-.
        eexists. split; [reflexivity|].
        exists cs1, cs2. unfold with_pending. cbn [t_db t_root t_prune t_refc t_pending].
        split; [reflexivity|]. split; [reflexivity|]. split; [exact Ha3|]. split; [exact Hroot'|].
        split; [congruence|]. repeat split.
      - subst r1. right. exists h.
        assert (Hx : fst (D_retry_write.wop H BNH key inner t1) = Err (EMissingTrieNode h r key None)).
        { unfold D_retry_write.wop, _prune_on_success. fold (wbody H BNH key inner). rewrite Hp. fold s1.
          rewrite E1. reflexivity. }
        pose proof (missing_atomic_p t1 h r Hq1 Hx) as Hm.
        unfold D_retry_write.wop, _prune_on_success in Hm. fold (wbody H BNH key inner) in Hm.
        rewrite Hp in Hm. fold s1 in Hm. rewrite E1 in Hm.
        split; [exact Hm|exact Hg].
    Qed.
  End Body.

  (* ================================================================ *)
  (* 3. One API write of a pruning trie whose complete store is its exact store *)
  Notation pstate := (pstate H).
  Notation pinv := (pinv H SB).

  Lemma wrel_pstate m1 m2 rc t : sub_store m1 m2 -> wrel (pstate m1 rc t) (pstate m2 rc t).
  Proof. intro Hsub. exists m1, m2. repeat split. exact Hsub. Qed.

  Lemma wrel_pstate_inv t1 m2 rc t : wrel t1 (pstate m2 rc t) ->
    exists m1, t1 = pstate m1 rc t /\ sub_store m1 m2.
  Proof.
    intros (n1 & n2 & Hd1 & Hd2 & Hsub & Hr & Hp & Hc & Hq1 & Hq2).
    destruct t1 as [d r p c q]. cbn [t_db t_root t_prune t_refc t_pending Refine_write_prune.pstate] in *.
    injection Hd2 as <-. subst d r p c q. exists n1. split; [reflexivity|exact Hsub].
  Qed.

  Lemma root_cond t : troot H t = BNH \/ hashed BNH (troot H t).
  Proof.
    destruct (bytes_eqb (troot H t) BNH) eqn:E; [left; apply bytes_eqb_eq; exact E|right].
    split; [apply (hash_nonempty H H_len)|]. split; [exact E|]. unfold troot. rewrite H_len. reflexivity.
  Qed.

  Lemma H_nonblank b : H b <> [].
  Proof. apply (hash_nonempty H H_len). Qed.

  (* (1) set / delete on a sub-store of the exact store of a pruning trie: the complete-store
     outcome on related states, or the atomic MissingTrieNode report.  ValidationError from
     _complete_pruning does not occur. *)
  Theorem prune_write_same_or_missing m2 rc t (w : Refine_write.wop) m1 :
    pinv m2 rc t -> canonical_top t = true -> decodable H t -> no_blank_collision H BNH t -> inS t ->
    (forall x, In x (op_writes t (top_of w)) -> inj_ok x) ->
    inS_top H SB (tapply t (top_of w)) ->
    sub_store m1 m2 ->
    (exists m1' m2' rc',
       dwrite H BNH w (pstate m1 rc t) = (Ok tt, pstate m1' rc' (tapply t (top_of w))) /\
       dwrite H BNH w (pstate m2 rc t) = (Ok tt, pstate m2' rc' (tapply t (top_of w))) /\
       sub_store m1' m2' /\ pinv m2' rc' (tapply t (top_of w))) \/
    (exists h,
       dwrite H BNH w (pstate m1 rc t)
       = (Err (EMissingTrieNode h (troot H t) (fst w) None), pstate m1 rc t) /\
       aget m1 h = None /\ aget m2 h <> None).
  Proof.
    intros Hpinv Hc Hd Hn Hin Hdw Htop Hsub.
    destruct (write_refines_ps H BNH H_len BNH_def SB cfS m2 rc t w Hpinv Hc Hd Hn Hin Hdw Htop)
      as (m2' & rc' & E2 & Hpinv').
    pose proof Hpinv as (Hrep & Hw2 & _).
    pose proof (wrel_pstate m1 m2 rc t Hsub) as Hw.
    assert (Hfin : forall key (inner : M item),
              (forall G, sim G inner) ->
              (forall s r s', inner s = (r, s') -> t_prune s' = t_prune s) ->
              (forall s r s', inner s = (r, s') -> t_root s' = t_root s) ->
              (forall s h, fst (get_node BNH (RStr (t_root s)) s) = Err (EKeyError h) ->
                           inner s = (Err (EKeyError h), s)) ->
              (forall s e s', t_pending s = None ->
                 D_retry_write.wop H BNH key inner s = (Err e, s') -> exn_tag e = T_MissingTrieNode ->
                 s' = s /\ exists h, e = EMissingTrieNode h (t_root s) key None) ->
              D_retry_write.wop H BNH key inner (pstate m2 rc t)
              = (Ok tt, pstate m2' rc' (tapply t (top_of w))) ->
              okpk (inner (ps (troot H t) rc [] m1)) ->
              (exists m1' m2' rc',
                 D_retry_write.wop H BNH key inner (pstate m1 rc t)
                 = (Ok tt, pstate m1' rc' (tapply t (top_of w))) /\
                 D_retry_write.wop H BNH key inner (pstate m2 rc t)
                 = (Ok tt, pstate m2' rc' (tapply t (top_of w))) /\
                 sub_store m1' m2' /\ pinv m2' rc' (tapply t (top_of w))) \/
              (exists h,
                 D_retry_write.wop H BNH key inner (pstate m1 rc t)
                 = (Err (EMissingTrieNode h (troot H t) key None), pstate m1 rc t) /\
                 aget m1 h = None /\ aget m2 h <> None)).
    { intros key inner Hsim Hprune Hrootp Hfirst Hmiss Eop Hpk.
      destruct (wop_sub key inner Hsim Hprune Hrootp Hfirst Hmiss (pstate m1 rc t) (pstate m2 rc t) _
                  Hw eq_refl (root_cond t) Eop Hpk) as [(tf1 & E1 & Hw')|(h & E1 & Hg)].
      - left. destruct (wrel_pstate_inv _ _ _ _ Hw') as (m1' & -> & Hsub').
        exists m1', m2', rc'. split; [exact E1|]. split; [exact Eop|]. split; [exact Hsub'|exact Hpinv'].
      - right. exists h. split; [exact E1|exact Hg]. }
    destruct w as [k [v|]]; cbn [dwrite fst] in *.
    - apply (Hfin k (set_inner H BNH k v) (fun G => sim_set_inner H BNH G k v)
               (set_inner_prune H BNH k v) (set_inner_root H BNH k v) (set_inner_first H BNH k v)
               (set_missing H BNH H_nonblank k v) E2).
      apply (set_inner_pk t rc m1 m2); assumption.
    - apply (Hfin k (delete_inner H BNH k) (fun G => sim_delete_inner H BNH G k)
               (delete_inner_prune H BNH k) (delete_inner_root H BNH k) (delete_inner_first H BNH k)
               (delete_missing H BNH H_nonblank k) E2).
      apply (delete_inner_pk t rc m1 m2); assumption.
  Qed.

  (* the same for any state [t1] that is [wrel]-related to the exact state *)
  Corollary prune_write_same_or_missing_wrel m2 rc t (w : Refine_write.wop) t1 :
    pinv m2 rc t -> canonical_top t = true -> decodable H t -> no_blank_collision H BNH t -> inS t ->
    (forall x, In x (op_writes t (top_of w)) -> inj_ok x) ->
    inS_top H SB (tapply t (top_of w)) ->
    wrel t1 (pstate m2 rc t) ->
    (fst (dwrite H BNH w t1) = Ok tt /\ fst (dwrite H BNH w (pstate m2 rc t)) = Ok tt /\
     wrel (snd (dwrite H BNH w t1)) (snd (dwrite H BNH w (pstate m2 rc t))) /\
     exists m2' rc', snd (dwrite H BNH w (pstate m2 rc t)) = pstate m2' rc' (tapply t (top_of w)) /\
                     pinv m2' rc' (tapply t (top_of w))) \/
    (exists h, dwrite H BNH w t1 = (Err (EMissingTrieNode h (t_root t1) (fst w) None), t1) /\
               aget (tcells t1) h = None /\ aget (tcells (pstate m2 rc t)) h <> None).
  Proof.
    intros Hpinv Hc Hd Hn Hin Hdw Htop Hw.
    destruct (wrel_pstate_inv _ _ _ _ Hw) as (m1 & -> & Hsub).
    destruct (prune_write_same_or_missing m2 rc t w m1 Hpinv Hc Hd Hn Hin Hdw Htop Hsub)
      as [(m1' & m2' & rc' & E1 & E2 & Hsub' & Hpinv')|(h & E1 & Hg)].
    - left. rewrite E1, E2. cbn [fst snd]. split; [reflexivity|]. split; [reflexivity|].
      split; [apply wrel_pstate; exact Hsub'|]. exists m2', rc'. split; [reflexivity|exact Hpinv'].
    - right. exists h. split; [exact E1|exact Hg].
  Qed.
End SubStore.

(* ================================================================== *)
(* 4. The retry loop around a write whose one-step behaviour is "same or missing" against a
      FIXED complete state t2 (failures are atomic, so every retry starts from the same trie
      state over a larger sub-store of the same complete store) *)
Section RetrySpecFixed.
  Variable op : M unit.
  Variable key : bytes.
  Variable t2 : trie.
  Hypothesis Hstep : forall t1, wrel t1 t2 ->
    (fst (op t1) = fst (op t2) /\ wrel (snd (op t1)) (snd (op t2))) \/
    (exists h, op t1 = (Err (EMissingTrieNode h (t_root t1) key None), t1) /\
               aget (tcells t1) h = None /\ aget (tcells t2) h <> None).

  Lemma retry_write_spec_fixed : forall fuel t1 asked0,
    wrel t1 t2 ->
    mh8 (fst (op t2)) = None ->
    (owed (akeys (tcells t2)) (tcells t1) < fuel)%nat ->
    exists tf new,
      retry_write op fuel (tcells t2) t1 asked0 = (fst (op t2), snd (op tf), asked0 ++ new) /\
      fst (op tf) = fst (op t2) /\
      wrel (snd (op tf)) (snd (op t2)) /\
      tf = with_db t1 (DPlain (store_of (tcells tf))) /\
      wrel tf t2 /\
      (forall x, aget (tcells tf) x =
                 if existsb (bytes_eqb x) new then aget (tcells t2) x else aget (tcells t1) x) /\
      NoDup new /\
      (forall h, In h new -> aget (tcells t1) h = None /\ aget (tcells t2) h <> None) /\
      (length new <= owed (akeys (tcells t2)) (tcells t1))%nat.
  Proof.
    induction fuel as [|f IH]; intros t1 asked0 Hw Hnone Hlt; [lia|].
    cbn [retry_write].
    destruct (Hstep t1 Hw) as [(Hres & Hw')|(h & Hop & Hn1 & Hn2)].
    - destruct (op t1) as [r1 t1'] eqn:E1. cbn [fst snd] in Hres, Hw'.
      rewrite Hres, Hnone. exists t1, []. rewrite app_nil_r, E1. cbn [fst snd].
      split; [reflexivity|]. split; [exact Hres|]. split; [exact Hw'|].
      split; [symmetry; exact (with_db_self t1 t2 Hw)|]. split; [exact Hw|].
      split; [intro x; reflexivity|]. split; [constructor|]. split; [intros h []|].
      cbn [length]. lia.
    - rewrite Hop. cbv beta iota.
      change (mh8 (Err (EMissingTrieNode h (t_root t1) key None))) with (Some h). cbv beta iota.
      destruct (aget (tcells t2) h) as [b|] eqn:Eb; [|exfalso; apply Hn2; reflexivity].
      assert (Hw2 : wrel (supply t1 h b) t2) by (apply wrel_supply; assumption).
      assert (Hin : In h (akeys (tcells t2))) by (apply D_retry_write.aget_in_keys; rewrite Eb; discriminate).
      pose proof (owed_aset (akeys (tcells t2)) (tcells t1) h b Hin Hn1) as Hdec.
      assert (Hlt2 : (owed (akeys (tcells t2)) (tcells (supply t1 h b)) < f)%nat)
        by (rewrite tcells_supply; lia).
      destruct (IH (supply t1 h b) (asked0 ++ [h]) Hw2 Hnone Hlt2)
        as (tf & new & Hrun & Hres & Hwf & Htf & Hwtf & Hfr & Hnd & Hall & Hlen).
      rewrite tcells_supply in Hfr, Hall, Hlen.
      exists tf, (h :: new).
      split; [rewrite Hrun, <- app_assoc; reflexivity|].
      split; [exact Hres|]. split; [exact Hwf|].
      split; [exact Htf|]. split; [exact Hwtf|].
      split.
      { intro x. rewrite Hfr. cbn [existsb]. rewrite aget_aset.
        destruct (bytes_eqb x h) eqn:E; cbn [orb]; [|reflexivity].
        apply bytes_eqb_eq in E. subst x. rewrite Eb.
        destruct (existsb (bytes_eqb h) new); reflexivity. }
      split.
      { constructor; [|exact Hnd]. intro Hin'. destruct (Hall h Hin') as (Hx & _).
        rewrite aget_aset, bytes_eqb_refl in Hx. discriminate Hx. }
      split.
      { intros x [Hx|Hin'].
        - subst x. split; [exact Hn1|rewrite Eb; discriminate].
        - destruct (Hall x Hin') as (Hx & Hfx). split; [|exact Hfx].
          rewrite aget_aset in Hx. destruct (bytes_eqb x h); [discriminate Hx|exact Hx]. }
      cbn [length]. lia.
  Qed.
End RetrySpecFixed.

(* ================================================================== *)
(* 5. (2) The retry loop for pruning tries *)
Section RetryPrune.
  Variable H : bytes -> bytes.
  Variable BNH : bytes.
  Hypothesis H_len : forall x, length (H x) = 32%nat.
  Hypothesis BNH_def : BNH = H (rlp_encode (RStr [])).
  Variable SB : list bytes.
  Hypothesis cfS : cf H SB.

  Theorem C07_retry_prune_gen m2 rc t (w : Refine_write.wop) m1 :
    pinv H SB m2 rc t -> canonical_top t = true -> decodable H t -> no_blank_collision H BNH t ->
    inS H SB t ->
    (forall x, In x (op_writes t (top_of w)) -> inj_ok H SB x) ->
    inS_top H SB (tapply t (top_of w)) ->
    sub_store m1 m2 ->
    forall fuel, (owed (akeys m2) m1 < fuel)%nat ->
    exists m1' m2' rc' asked mf,
      retry_write (dwrite H BNH w) fuel m2 (pstate H m1 rc t) []
      = (Ok tt, pstate H m1' rc' (tapply t (top_of w)), asked) /\
      dwrite H BNH w (pstate H m2 rc t) = (Ok tt, pstate H m2' rc' (tapply t (top_of w))) /\
      pinv H SB m2' rc' (tapply t (top_of w)) /\
      sub_store m1' m2' /\
      NoDup asked /\
      (forall h, In h asked -> aget m1 h = None /\ aget m2 h <> None) /\
      (length asked <= owed (akeys m2) m1)%nat /\
      dwrite H BNH w (pstate H mf rc t) = (Ok tt, pstate H m1' rc' (tapply t (top_of w))) /\
      (forall x, aget mf x = if existsb (bytes_eqb x) asked then aget m2 x else aget m1 x).
  Proof.
    intros Hpinv Hc Hd Hn Hin Hdw Htop Hsub fuel Hlt.
    destruct (write_refines_ps H BNH H_len BNH_def SB cfS m2 rc t w Hpinv Hc Hd Hn Hin Hdw Htop)
      as (m2' & rc' & E2 & Hpinv').
    set (op := dwrite H BNH w) in *. set (t2 := pstate H m2 rc t) in *.
    assert (Hstep : forall t1, wrel t1 t2 ->
              (fst (op t1) = fst (op t2) /\ wrel (snd (op t1)) (snd (op t2))) \/
              (exists h, op t1 = (Err (EMissingTrieNode h (t_root t1) (fst w) None), t1) /\
                         aget (tcells t1) h = None /\ aget (tcells t2) h <> None)).
    { intros t1 Hw1.
      destruct (prune_write_same_or_missing_wrel H BNH H_len BNH_def SB cfS m2 rc t w t1
                  Hpinv Hc Hd Hn Hin Hdw Htop Hw1) as [(Hr1 & Hr2 & Hw' & _)|Hm].
      - left. unfold op, t2. split; [rewrite Hr1, Hr2; reflexivity|exact Hw'].
      - right. exact Hm. }
    assert (Hnone : mh8 (fst (op t2)) = None) by (rewrite E2; reflexivity).
    destruct (retry_write_spec_fixed op (fst w) t2 Hstep fuel (pstate H m1 rc t) []
                (wrel_pstate H m1 m2 rc t Hsub) Hnone Hlt)
      as (tf & new & Hrun & Hres & Hwf & Htf & Hwtf & Hfr & Hnd & Hall & Hlen).
    change (tcells t2) with m2 in *. change (tcells (pstate H m1 rc t)) with m1 in *.
    cbn [app] in Hrun. rewrite E2 in Hrun, Hres, Hwf. cbn [fst snd] in Hrun, Hres, Hwf.
    destruct (wrel_pstate_inv H _ _ _ _ Hwf) as (m1' & Em1 & Hsub').
    exists m1', m2', rc', new, (tcells tf).
    split; [rewrite Hrun, Em1; reflexivity|]. split; [exact E2|]. split; [exact Hpinv'|].
    split; [exact Hsub'|]. split; [exact Hnd|]. split; [exact Hall|]. split; [exact Hlen|].
    split; [|exact Hfr].
    change (pstate H (tcells tf) rc t) with (with_db (pstate H m1 rc t) (DPlain (store_of (tcells tf)))).
    rewrite <- Htf, <- Em1, <- Hres. destruct (op tf); reflexivity.
  Qed.
End RetryPrune.

(* ================================================================== *)
(* 6. The statements along a history from the empty pruning trie: two premises only
      (collision-freeness and the size bound over the bodies of the history followed by the
      write) *)
Section HistoryPrune.
  Variable H : bytes -> bytes.
  Variable BNH : bytes.
  Hypothesis H_len : forall x, length (H x) = 32%nat.
  Hypothesis BNH_def : BNH = H (rlp_encode (RStr [])).

  Lemma hist_trees_app a : forall t b,
    hist_trees t (a ++ b) = hist_trees t a ++ hist_trees (fold_left tapply a t) b.
  Proof.
    induction a as [|o a IH]; intros t b; cbn [app hist_trees fold_left]; [reflexivity|].
    rewrite IH, app_assoc. reflexivity.
  Qed.

  Lemma inS_of_pinv SB m rc t : pinv H SB m rc t -> inS H SB t.
  Proof.
    intros ((_ & _ & Hst) & Hw & _). unfold inS, inS_here, Refine_write.long.
    eapply all_sub_impl; [|exact Hst]. intros s Hs Hl. exact (proj2 (Hw _ _ (Hs Hl))).
  Qed.

  (* what one more write [w] after the history [ws] guarantees on a sub-store [m1] of the exact
     store [m2] reached by the history *)
  Definition after_history (ws : list Refine_write.wop) (w : Refine_write.wop)
             (m2 : amap bytes) (rc : amap Z) : Prop :=
    let t := trun (map top_of ws) in
    let t' := tapply t (top_of w) in
    forall m1, sub_store m1 m2 ->
      ((exists m1' m2' rc',
          dwrite H BNH w (pstate H m1 rc t) = (Ok tt, pstate H m1' rc' t') /\
          dwrite H BNH w (pstate H m2 rc t) = (Ok tt, pstate H m2' rc' t') /\
          sub_store m1' m2') \/
       (exists h,
          dwrite H BNH w (pstate H m1 rc t)
          = (Err (EMissingTrieNode h (troot H t) (fst w) None), pstate H m1 rc t) /\
          aget m1 h = None /\ aget m2 h <> None)) /\
      (forall fuel, (owed (akeys m2) m1 < fuel)%nat ->
         exists m1' m2' rc' asked,
           retry_write (dwrite H BNH w) fuel m2 (pstate H m1 rc t) [] = (Ok tt, pstate H m1' rc' t', asked) /\
           dwrite H BNH w (pstate H m2 rc t) = (Ok tt, pstate H m2' rc' t') /\
           sub_store m1' m2' /\ NoDup asked /\
           (forall h, In h asked -> aget m1 h = None /\ aget m2 h <> None) /\
           (length asked <= owed (akeys m2) m1)%nat).

  Theorem C07_prune_history ws (w : Refine_write.wop) :
    cf H (hist_bodies H (ws ++ [w])) ->
    Forall (fun b => blen b < 2 ^ 64) (hist_bodies H (ws ++ [w])) ->
    exists m2 rc,
      wrun H BNH ws (empty_trie BNH true)
      = (map (fun _ => Ok tt) ws, pstate H m2 rc (trun (map top_of ws))) /\
      (forall h, amem m2 h = true <-> (0 < occR H (trun (map top_of ws)) h)%Z) /\
      after_history ws w m2 rc.
  Proof.
    intros Hcf Hsmall. set (SB := hist_bodies H (ws ++ [w])) in *.
    assert (HSB : In (rlp_encode (RStr [])) SB) by (left; reflexivity).
    pose proof (hist_decodable_of_small H (ws ++ [w]) Hsmall) as Hdec.
    unfold hist_decodable in Hdec. rewrite map_app, hist_trees_app in Hdec. cbn [map hist_trees] in Hdec.
    rewrite app_nil_r in Hdec. apply Forall_app in Hdec as [Hdec1 Hdec2].
    assert (Hincl : incl (flat_map (tree_bodies H) (hist_trees NBlank (map top_of (ws ++ [w])))) SB)
      by (intros b Hb; right; exact Hb).
    rewrite map_app, hist_trees_app, flat_map_app in Hincl. cbn [map hist_trees] in Hincl.
    rewrite app_nil_r in Hincl. apply incl_app_inv in Hincl as [Hincl1 Hincl2].
    destruct (run_refines_ps H BNH H_len BNH_def SB Hcf HSB ws NBlank [] []) as (m2 & rc & E & Hpinv & Hd & Hn).
    - apply (pinv_empty H BNH BNH_def).
    - reflexivity.
    - split; [reflexivity|exact I].
    - split; [intro Hx; contradiction|]. split; [|exact I]. intro Hl. discriminate Hl.
    - apply inS_blank.
    - exact Hincl1.
    - exact Hdec1.
    - fold (trun (map top_of ws)) in E, Hpinv, Hd, Hn, Hincl2, Hdec2.
      set (t := trun (map top_of ws)) in *.
      assert (E0 : pstate H [] [] NBlank = empty_trie BNH true).
      { unfold pstate, empty_trie. rewrite BNH_def. reflexivity. }
      rewrite E0 in E.
      exists m2, rc. split; [exact E|]. split; [apply Hpinv|].
      assert (Hc : canonical_top t = true) by (apply Tree_canon.C02_canonical; apply ops_ok_top_of).
      pose proof (inS_of_pinv SB m2 rc t Hpinv) as Hin.
      cbn [flat_map] in Hincl2. apply incl_app_inv in Hincl2 as [Hincl0 Hinclw].
      inversion Hdec2 as [|xa xl Hd1 Hdw Exa]; clear Hdec2.
      assert (Htop : inS_top H SB (tapply t (top_of w))) by (apply inS_top_of_incl; exact Hincl0).
      assert (Hinj : forall x, In x (op_writes t (top_of w)) -> inj_ok H SB x).
      { intros x Hx. split; [|split].
        - apply (op_writes_wf t w); [apply Tree_traverse_proofs.canonical_wf; exact Hc|exact Hx].
        - apply inS_top_of_incl. intros b Hb. apply Hinclw. apply in_flat_map. exists x. split; assumption.
        - rewrite Forall_forall in Hdw. apply Hdw. exact Hx. }
      intros m1 Hsub. split.
      + destruct (prune_write_same_or_missing H BNH H_len BNH_def SB Hcf m2 rc t w m1
                    Hpinv Hc Hd Hn Hin Hinj Htop Hsub)
          as [(m1' & m2' & rc' & E1 & E2 & Hsub' & _)|Hm]; [left|right; exact Hm].
        exists m1', m2', rc'. split; [exact E1|]. split; [exact E2|exact Hsub'].
      + intros fuel Hlt.
        destruct (C07_retry_prune_gen H BNH H_len BNH_def SB Hcf m2 rc t w m1
                    Hpinv Hc Hd Hn Hin Hinj Htop Hsub fuel Hlt)
          as (m1' & m2' & rc' & asked & mf & Hrun & E2 & _ & Hsub' & Hnd & Hall & Hlen & _).
        exists m1', m2', rc', asked. repeat (split; [assumption|]). exact Hlen.
  Qed.
End HistoryPrune.

(* ================================================================== *)
(* 7. The statements for the implementation's hash *)
From PyTrie.Base Require Import Keccak.

Theorem C07_prune_same_or_missing SB (cfS : cf keccak256 SB) m2 rc t (w : Refine_write.wop) m1 :
  pinv keccak256 SB m2 rc t -> canonical_top t = true -> decodable keccak256 t ->
  no_blank_collision keccak256 BN t -> inS keccak256 SB t ->
  (forall x, In x (op_writes t (top_of w)) -> inj_ok keccak256 SB x) ->
  inS_top keccak256 SB (tapply t (top_of w)) ->
  sub_store m1 m2 ->
  (exists m1' m2' rc',
     dwrite keccak256 BN w (pstate keccak256 m1 rc t) = (Ok tt, pstate keccak256 m1' rc' (tapply t (top_of w))) /\
     dwrite keccak256 BN w (pstate keccak256 m2 rc t) = (Ok tt, pstate keccak256 m2' rc' (tapply t (top_of w))) /\
     sub_store m1' m2' /\ pinv keccak256 SB m2' rc' (tapply t (top_of w))) \/
  (exists h,
     dwrite keccak256 BN w (pstate keccak256 m1 rc t)
     = (Err (EMissingTrieNode h (troot keccak256 t) (fst w) None), pstate keccak256 m1 rc t) /\
     aget m1 h = None /\ aget m2 h <> None).
Proof. exact (prune_write_same_or_missing K BN K_len BN_def SB cfS m2 rc t w m1). Qed.

Theorem C07_retry_prune SB (cfS : cf keccak256 SB) m2 rc t (w : Refine_write.wop) m1 :
  pinv keccak256 SB m2 rc t -> canonical_top t = true -> decodable keccak256 t ->
  no_blank_collision keccak256 BN t -> inS keccak256 SB t ->
  (forall x, In x (op_writes t (top_of w)) -> inj_ok keccak256 SB x) ->
  inS_top keccak256 SB (tapply t (top_of w)) ->
  sub_store m1 m2 ->
  forall fuel, (owed (akeys m2) m1 < fuel)%nat ->
  exists m1' m2' rc' asked mf,
    retry_write (dwrite keccak256 BN w) fuel m2 (pstate keccak256 m1 rc t) []
    = (Ok tt, pstate keccak256 m1' rc' (tapply t (top_of w)), asked) /\
    dwrite keccak256 BN w (pstate keccak256 m2 rc t) = (Ok tt, pstate keccak256 m2' rc' (tapply t (top_of w))) /\
    pinv keccak256 SB m2' rc' (tapply t (top_of w)) /\
    sub_store m1' m2' /\
    NoDup asked /\
    (forall h, In h asked -> aget m1 h = None /\ aget m2 h <> None) /\
    (length asked <= owed (akeys m2) m1)%nat /\
    dwrite keccak256 BN w (pstate keccak256 mf rc t) = (Ok tt, pstate keccak256 m1' rc' (tapply t (top_of w))) /\
    (forall x, aget mf x = if existsb (bytes_eqb x) asked then aget m2 x else aget m1 x).
Proof. exact (C07_retry_prune_gen K BN K_len BN_def SB cfS m2 rc t w m1). Qed.

Theorem C07_prune_history_keccak ws (w : Refine_write.wop) :
  cf keccak256 (hist_bodies keccak256 (ws ++ [w])) ->
  Forall (fun b => blen b < 2 ^ 64) (hist_bodies keccak256 (ws ++ [w])) ->
  exists m2 rc,
    wrun keccak256 BN ws (empty_trie BN true)
    = (map (fun _ => Ok tt) ws, pstate keccak256 m2 rc (trun (map top_of ws))) /\
    (forall h, amem m2 h = true <-> (0 < occR keccak256 (trun (map top_of ws)) h)%Z) /\
    after_history keccak256 BN ws w m2 rc.
Proof. exact (C07_prune_history K BN K_len BN_def ws w). Qed.

(* ================================================================== *)
(* 8. (3) Non-vacuity with the real hash: a pruning trie that misses two nodes of a key's path *)
Module PruneRetryExample.
  Definition v1 : bytes := repeat x61 32.
  Definition v2 : bytes := repeat x62 32.
  Definition v3 : bytes := repeat x63 32.
  Definition v9 : bytes := repeat x7a 33.

  (* keys 0x12, 0x13, 0x45: root branch -> branch under nibble 1 -> two leaves; leaf under nibble 4 *)
  Definition ws0 : list Refine_write.wop := [([x12], Some v1); ([x13], Some v2); ([x45], Some v3)].
  Definition w9 : Refine_write.wop := ([x12], Some v9).
  Definition wd : Refine_write.wop := ([x12], None).

  Definition t_full : trie := snd (wrun K BN ws0 (empty_trie BN true)).
  Definition full : amap bytes := tcells t_full.
  Definition r : bytes := t_root t_full.

  Definition root_item : item :=
    match aget full r with
    | Some b => match rlp_decode b with Ok i => i | Err _ => BLANK end
    | None => BLANK
    end.
  (* the two hashed nodes above the leaf of key 0x12: the root and its child under nibble 1 *)
  Definition h1 : bytes := r.
  Definition h2 : bytes := item_bytes (branch_child root_item 1).
  (* the incomplete store: everything but those two *)
  Definition m : amap bytes := adel (adel full h1) h2.
  (* the same pruning trie (root, reference counts) over the incomplete store *)
  Definition t_sub : trie := with_db t_full (DPlain (store_of m)).

  Example ex_setup :
    t_prune t_full = true /\ t_pending t_full = None /\
    length full = 5%nat /\ length (t_refc t_full) = 5%nat /\ length m = 3%nat /\
    length h2 = 32%nat /\ bytes_eqb h1 h2 = false /\
    aget m h1 = None /\ aget m h2 = None /\
    fst (get BN [x12] t_full) = Ok v1.
  Proof. vm_compute. repeat split; reflexivity. Qed.

  Lemma sub_store_m : sub_store m full.
  Proof.
    unfold m. intros x b Hx. rewrite !aget_adel in Hx.
    destruct (bytes_eqb x h2); [discriminate Hx|]. destruct (bytes_eqb x h1); [discriminate Hx|exact Hx].
  Qed.

  Lemma wrel_with_db (t : trie) (m0 mf : amap bytes) :
    t_db t = DPlain (store_of mf) -> t_pending t = None -> sub_store m0 mf ->
    wrel (with_db t (DPlain (store_of m0))) t.
  Proof.
    intros Hd Hq Hsub. exists m0, mf. destruct t as [d r0 p c q]. cbn [t_db t_pending] in Hd, Hq. subst d q.
    repeat split. exact Hsub.
  Qed.

  Example ex_wrel : wrel t_sub t_full.
  Proof.
    apply (wrel_with_db t_full m full); [vm_compute; reflexivity|vm_compute; reflexivity|exact sub_store_m].
  Qed.

  (* the first attempt fails, names the root, and changes nothing *)
  Example ex_first_attempt :
    set K BN [x12] v9 t_sub = (Err (EMissingTrieNode h1 r [x12] None), t_sub).
  Proof. vm_compute. reflexivity. Qed.

  (* the loop asks for exactly the two missing nodes, in path order, and ends with the result,
     the root, the reference counts and the very store of the complete-store run: the three
     nodes of the old path (two of them supplied) have been pruned *)
  Example ex_retry_set :
    let '(res, t', asked) := retry_set K BN 10 full t_sub [x12] v9 [] in
    let '(want, tw) := set K BN [x12] v9 t_full in
    res = Ok tt /\ want = Ok tt /\ asked = [h1; h2] /\ t_root t' = t_root tw /\
    bytes_eqb (t_root tw) r = false /\
    asort (t_refc t') = asort (t_refc tw) /\ asort (tcells t') = asort (tcells tw) /\
    length (tcells tw) = 5%nat /\ amem (tcells t') h1 = false /\ amem (tcells t') h2 = false /\
    t_pending t' = None /\
    fst (get BN [x12] t') = Ok v9 /\ fst (get BN [x13] t') = Ok v2.
  Proof. vm_compute. repeat split; reflexivity. Qed.

  Example ex_retry_delete :
    let '(res, t', asked) := retry_delete K BN 10 full t_sub [x12] [] in
    let '(want, tw) := delete K BN [x12] t_full in
    res = Ok tt /\ want = Ok tt /\ asked = [h1; h2] /\ t_root t' = t_root tw /\
    asort (t_refc t') = asort (t_refc tw) /\ asort (tcells t') = asort (tcells tw) /\
    length (tcells tw) = 3%nat /\
    fst (get BN [x12] t') = Ok [] /\ fst (get BN [x13] t') = Ok v2.
  Proof. vm_compute. repeat split; reflexivity. Qed.

  (* the two premises of C07_prune_history_keccak hold for this history followed by either
     write, so the examples are instances of the theorem *)
  Example ex_premises_set :
    cf K (hist_bodies K (ws0 ++ [w9])) /\ Forall (fun b => blen b < 2 ^ 64) (hist_bodies K (ws0 ++ [w9])).
  Proof. split; [apply cf_check|apply smallb_sound]; vm_compute; reflexivity. Qed.

  Example ex_premises_delete :
    cf K (hist_bodies K (ws0 ++ [wd])) /\ Forall (fun b => blen b < 2 ^ 64) (hist_bodies K (ws0 ++ [wd])).
  Proof. split; [apply cf_check|apply smallb_sound]; vm_compute; reflexivity. Qed.

  (* ... and the state the theorem speaks about is the one used above *)
  Example ex_instance :
    exists m2 rc,
      t_full = pstate K m2 rc (trun (map top_of ws0)) /\ full = m2 /\ sub_store m m2 /\
      t_sub = pstate K m rc (trun (map top_of ws0)) /\
      after_history K BN ws0 w9 m2 rc /\ after_history K BN ws0 wd m2 rc.
  Proof.
    destruct ex_premises_set as [Hcf Hs]. destruct ex_premises_delete as [Hcfd Hsd].
    destruct (C07_prune_history_keccak ws0 w9 Hcf Hs) as (m2 & rc & E & _ & Ha).
    destruct (C07_prune_history_keccak ws0 wd Hcfd Hsd) as (m2' & rc' & E' & _ & Ha').
    change keccak256 with K in *.
    remember (trun (map top_of ws0)) as t0 eqn:Et0.
    assert (Hx : pstate K m2' rc' t0 = pstate K m2 rc t0).
    { rewrite E in E'. apply (f_equal snd) in E'. cbn [snd] in E'. symmetry. exact E'. }
    assert (Em : m2' = m2) by exact (f_equal tcells Hx).
    assert (Erc : rc' = rc) by exact (f_equal t_refc Hx).
    subst m2' rc'.
    assert (Et : t_full = pstate K m2 rc t0) by (unfold t_full; rewrite E; reflexivity).
    assert (Ef : full = m2) by (unfold full; rewrite Et; reflexivity).
    exists m2, rc. split; [exact Et|]. split; [exact Ef|]. split.
    - rewrite <- Ef. exact sub_store_m.
    - split; [unfold t_sub; rewrite Et; reflexivity|]. split; assumption.
  Qed.
End PruneRetryExample.

(* a node with reference count 2: the two identical leaves under nibbles 1 and 5.  delete(0x1234)
   prunes that one hash twice - once as the node on the path, once as the only remaining child
   in _normalize_branch_node - each time right after having read it, and the key is deleted
   once its count has dropped from 2 to 0.  The sub-store lacks the root only. *)
Module PruneDuplicateExample.
  Definition v1 : bytes := repeat x61 32.
  Definition ws : list Refine_write.wop := [([x12; x34], Some v1); ([x52; x34], Some v1)].
  Definition t_full : trie := snd (wrun K BN ws (empty_trie BN true)).
  Definition full : amap bytes := tcells t_full.
  Definition r : bytes := t_root t_full.
  Definition root_item : item :=
    match aget full r with
    | Some b => match rlp_decode b with Ok i => i | Err _ => BLANK end
    | None => BLANK
    end.
  Definition hleaf : bytes := item_bytes (branch_child root_item 1).
  Definition m : amap bytes := adel full r.
  Definition t_sub : trie := with_db t_full (DPlain (store_of m)).

  Example ex_duplicate :
    length full = 2%nat /\ zget (t_refc t_full) hleaf = 2%Z /\
    bytes_eqb (item_bytes (branch_child root_item 5)) hleaf = true /\
    let '(res, t', asked) := retry_delete K BN 10 full t_sub [x12; x34] [] in
    let '(want, tw) := delete K BN [x12; x34] t_full in
    res = Ok tt /\ want = Ok tt /\ asked = [r] /\ t_root t' = t_root tw /\
    asort (t_refc t') = asort (t_refc tw) /\ asort (tcells t') = asort (tcells tw) /\
    length (tcells tw) = 1%nat /\ amem (tcells tw) hleaf = false /\
    fst (get BN [x52; x34] t') = Ok v1.
  Proof. vm_compute. repeat split; reflexivity. Qed.
End PruneDuplicateExample.

Print Assumptions prune_write_same_or_missing.
Print Assumptions prune_write_same_or_missing_wrel.
Print Assumptions retry_write_spec_fixed.
Print Assumptions C07_retry_prune_gen.
Print Assumptions C07_prune_history.
Print Assumptions C07_prune_same_or_missing.
Print Assumptions C07_retry_prune.
Print Assumptions C07_prune_history_keccak.
Print Assumptions PruneRetryExample.ex_setup.
Print Assumptions PruneRetryExample.ex_first_attempt.
Print Assumptions PruneRetryExample.ex_retry_set.
Print Assumptions PruneRetryExample.ex_retry_delete.
Print Assumptions PruneRetryExample.ex_instance.
Print Assumptions PruneDuplicateExample.ex_duplicate.
