(* Hexary/TreeRun.v — run functions tying the T level to the implementation's roots:
   the tree-level history, and the Yellow-Paper root from the final mapping alone.
   Definitions only. *)
From Coq Require Import List NArith ZArith Bool.
From PyTrie.Base Require Import Bytes Result Nibbles Rlp Keccak.
From PyTrie.Hexary Require Import Raw Tree.
Import ListNotations.

Definition to_top (e : bytes * option bytes) : top :=
  match snd e with
  | Some v => TSet (bytes_to_nibbles (fst e)) v
  | None => TDel (bytes_to_nibbles (fst e))
  end.

(* flattened write history -> root of the tree-level result *)
Definition c02_T_run (ops : list (bytes * option bytes)) : obs :=
  OB (troot keccak256 (trun (map to_top ops))).

(* a mapping (distinct keys, non-empty values) -> Yellow-Paper root *)
Definition c02_yp_run (m : list (bytes * bytes)) : obs :=
  OB (yp_root keccak256 (map (fun e : bytes * bytes => (bytes_to_nibbles (fst e), snd e)) m)).

(* tree-level lookups after a history: results of tget for the probe keys *)
Definition c01_T_run (c : list (bytes * option bytes) * list bytes) : obs :=
  let '(ops, probes) := c in
  let t := trun (map to_top ops) in
  OL (map (fun k => OB (tget t (bytes_to_nibbles k))) probes).
