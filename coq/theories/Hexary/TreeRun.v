(* Hexary/TreeRun.v — run functions tying the T level to the implementation's roots:
   the tree-level history, and the Yellow-Paper root from the final mapping alone.
   Definitions only. *)
From Coq Require Import List NArith ZArith Bool.
From PyTrie.Base Require Import Bytes Result Nibbles Rlp Keccak.
From PyTrie.Hexary Require Import Raw Tree TreeTraverse.
Import ListNotations.

Definition to_top (e : bytes * option bytes) : top :=
  match snd e with
  | Some v => TSet (bytes_to_nibbles (fst e)) v
  | None => TDel (bytes_to_nibbles (fst e))
  end.

(* flattened write history -> root of the tree-level result *)
Definition c02_T_run (ops : list (bytes * option bytes)) : obs :=
  OB (troot keccak256 (trun (map to_top ops))).

(* a mapping (distinct keys, non-empty values) -> Yellow-Paper root *)
Definition c02_yp_run (m : list (bytes * bytes)) : obs :=
  OB (yp_root keccak256 (map (fun e : bytes * bytes => (bytes_to_nibbles (fst e), snd e)) m)).

(* tree-level lookups after a history: results of tget for the probe keys *)
Definition c01_T_run (c : list (bytes * option bytes) * list bytes) : obs :=
  let '(ops, probes) := c in
  let t := trun (map to_top ops) in
  OL (map (fun k => OB (tget t (bytes_to_nibbles k))) probes).

(* C08 specification: what a traversal must describe at each path, computed from the
   mapping alone through the Yellow-Paper tree *)
Definition tann_obs (a : tann) : obs :=
  OL [OL (map onibs (a_segs a)); OB (a_value a); onibs (a_suffix a); oN (ntype_N (a_type a))].

Definition c08_spec_run (c : list (bytes * bytes) * list nibbles) : obs :=
  let '(m, paths) := c in
  let t := yp_tree (map (fun e : bytes * bytes => (bytes_to_nibbles (fst e), snd e)) m) in
  OL (map (fun p => match ttraverse t p with
                    | TAt n => OL [OZ 0%Z; tann_obs (annotate n)]
                    | TPartial reached n tail =>
                        OL [OZ 1%Z; tann_obs (annotate (simulated n tail)); onibs reached; onibs tail;
                            tann_obs (annotate n)]
                    end) paths).

(* C10 specification: items in key order and strict successors, from the mapping alone *)
Definition c10_spec_run (c : list (bytes * bytes) * list (option bytes)) : obs :=
  let '(m, queries) := c in
  let J := map (fun e : bytes * bytes => (bytes_to_nibbles (fst e), snd e)) m in
  let t := yp_tree J in
  OL [OL (map (fun e : nibbles * bytes => OL [onibs (fst e); OB (snd e)]) (titems t));
      OL (map (fun q => match least_above J (option_map bytes_to_nibbles q) with
                        | Some k => onibs k
                        | None => ONone
                        end) queries);
      OL (map (fun e : nibbles * node => OL [onibs (fst e); tann_obs (annotate (snd e))]) (tnodes t []))].
