(* Hexary/Tree_unique.v — C02 at the T level:
   (1) a canonical tree is determined by its lookup function;
   (2) hence the tree (and its root, for any hash function) depends only on the contents;
   (3) the Yellow-Paper construction yp_tree is canonical and has the right contents;
   (4) hence the operational tree IS the Yellow-Paper tree of its contents. *)
From Coq Require Import List NArith ZArith Bool Lia ZifyBool.
From Coq.Init Require Import Byte.
From PyTrie.Base Require Import Bytes Result Nibbles Rlp Bytes_proofs.
From PyTrie.Hexary Require Import Raw Tree Tree_aux Tree_map.
From PyTrie.Hexary Require Tree_canon.
Import ListNotations.
Local Open Scope nat_scope.

(* ================================================================== *)
(* 1. canonical trees are determined by their lookup function          *)
(* ================================================================== *)

Definition stored (t : node) (q : nibbles) : Prop := nibs_ok q = true /\ tget t q <> [].

Definition agree (a b : node) : Prop := forall q, nibs_ok q = true -> tget a q = tget b q.

Lemma agree_sym a b : agree a b -> agree b a.
Proof. intros H q Hq. symmetry. apply H. exact Hq. Qed.

Lemma stored_agree a b q : agree a b -> stored a q -> stored b q.
Proof. intros Hab [Hq Hg]. split; [exact Hq|]. rewrite <- (Hab q Hq). exact Hg. Qed.

(* two stored keys that differ in their first position (one may be the empty key) *)
Definition two_heads (t : node) : Prop :=
  exists q1 q2, stored t q1 /\ stored t q2 /\ hd_error q1 <> hd_error q2.

Definition two_keys (t : node) : Prop :=
  exists q1 q2, stored t q1 /\ stored t q2 /\ q1 <> q2.

Lemma two_heads_two_keys t : two_heads t -> two_keys t.
Proof.
  intros (q1 & q2 & H1 & H2 & Hd). exists q1, q2. split; [exact H1|]. split; [exact H2|].
  intro He. apply Hd. rewrite He. reflexivity.
Qed.

(* ---------------- counting non-blank slots ---------------- *)
Lemma nb_ge1 cs i : is_nblank (nth i cs NBlank) = false -> 1 <= Tree_canon.nb cs.
Proof.
  revert i. induction cs as [|c cs IH]; intros i Hi.
  - destruct i; discriminate Hi.
  - rewrite Tree_canon.nb_cons. destruct i as [|i]; cbn [nth] in Hi.
    + unfold Tree_canon.nbw. rewrite Hi. lia.
    + specialize (IH i Hi). lia.
Qed.

Lemma nb_ge2 cs : forall i j, i <> j ->
  is_nblank (nth i cs NBlank) = false -> is_nblank (nth j cs NBlank) = false ->
  2 <= Tree_canon.nb cs.
Proof.
  induction cs as [|c cs IH]; intros i j Hij Hi Hj.
  - destruct i; discriminate Hi.
  - rewrite Tree_canon.nb_cons. destruct i as [|i]; destruct j as [|j]; cbn [nth] in Hi, Hj.
    + contradiction.
    + unfold Tree_canon.nbw. rewrite Hi. pose proof (nb_ge1 cs j Hj). lia.
    + unfold Tree_canon.nbw. rewrite Hj. pose proof (nb_ge1 cs i Hi). lia.
    + assert (Hij' : i <> j) by lia. specialize (IH i j Hij' Hi Hj). lia.
Qed.

Lemma nb_two cs : 2 <= Tree_canon.nb cs ->
  exists i j, i <> j /\ is_nblank (nth i cs NBlank) = false /\ is_nblank (nth j cs NBlank) = false.
Proof.
  induction cs as [|c cs IH]; intro H2.
  - cbn in H2. lia.
  - rewrite Tree_canon.nb_cons in H2. unfold Tree_canon.nbw in H2.
    destruct (is_nblank c) eqn:Ec.
    + destruct IH as (i & j & Hij & Hi & Hj); [lia|].
      exists (S i), (S j). split; [lia|]. split; [exact Hi | exact Hj].
    + assert (H1 : 1 <= Tree_canon.nb cs) by lia.
      destruct (Tree_canon.nb_pos cs H1) as (i & d & Hi & Hd).
      exists 0, (S i). split; [lia|]. split; [exact Ec|].
      cbn [nth]. rewrite (nth_error_nth cs i NBlank Hi). exact Hd.
Qed.

(* ---------------- what canonical branches / extensions / leaves store ---------------- *)
Lemma canonical_branch_inv cs v : canonical (NBranch cs v) = true ->
  length cs = 16 /\ 2 <= Tree_canon.nb cs + (if nonempty v then 1 else 0) /\
  forallb canonical_top cs = true.
Proof.
  rewrite Tree_canon.canonical_branch. intro Ht.
  apply andb_true_iff in Ht as [Ht Hall]. apply andb_true_iff in Ht as [Hlen Hcnt].
  apply Nat.eqb_eq in Hlen. apply Nat.leb_le in Hcnt. rewrite Tree_canon.count_entries_nb in Hcnt.
  split; [exact Hlen|]. split; [exact Hcnt | exact Hall].
Qed.

Lemma canonical_top_nth cs i : forallb canonical_top cs = true -> canonical_top (nth i cs NBlank) = true.
Proof. intro H. apply tm_forallb_nth; [exact H | reflexivity]. Qed.

(* a non-blank slot i of a canonical branch stores a key starting with nibble i *)
Lemma branch_slot_stored cs v i : canonical (NBranch cs v) = true ->
  is_nblank (nth i cs NBlank) = false ->
  exists q, stored (NBranch cs v) (N.of_nat i :: q).
Proof.
  intros Hc Hi. destruct (canonical_branch_inv _ _ Hc) as (Hlen & _ & Hall).
  assert (Hlt : i < 16).
  { destruct (Nat.lt_ge_cases i 16) as [Hlt|Hge]; [exact Hlt|].
    rewrite nth_overflow in Hi by lia. discriminate Hi. }
  pose proof (canonical_top_nth cs i Hall) as Hct.
  apply Tree_canon.canonical_top_nonblank in Hct; [|exact Hi].
  destruct (Tree_canon.canonical_nonempty _ Hct) as (q & Hq & Hg).
  exists q. split.
  - rewrite tm_nibs_ok_cons, Hq. apply andb_true_iff. split; [lia | reflexivity].
  - rewrite tget_branch. unfold child. rewrite Nat2N.id. exact Hg.
Qed.

Lemma branch_two_heads cs v : canonical (NBranch cs v) = true -> two_heads (NBranch cs v).
Proof.
  intro Hc. destruct (canonical_branch_inv _ _ Hc) as (Hlen & Hcnt & Hall).
  destruct (nonempty v) eqn:Ev.
  - assert (H1 : 1 <= Tree_canon.nb cs) by lia.
    destruct (Tree_canon.nb_pos cs H1) as (i & d & Hi & Hd).
    assert (Hnb : is_nblank (nth i cs NBlank) = false)
      by (rewrite (nth_error_nth cs i NBlank Hi); exact Hd).
    destruct (branch_slot_stored cs v i Hc Hnb) as (q & Hq).
    exists [], (N.of_nat i :: q). split; [|split; [exact Hq | discriminate]].
    split; [reflexivity|]. rewrite tget_branch_nil. destruct v; [discriminate Ev | discriminate].
  - assert (H2 : 2 <= Tree_canon.nb cs) by lia.
    destruct (nb_two cs H2) as (i & j & Hij & Hi & Hj).
    destruct (branch_slot_stored cs v i Hc Hi) as (q1 & Hq1).
    destruct (branch_slot_stored cs v j Hc Hj) as (q2 & Hq2).
    exists (N.of_nat i :: q1), (N.of_nat j :: q2). split; [exact Hq1|]. split; [exact Hq2|].
    cbn [hd_error]. intro He. injection He as He. apply Hij. lia.
Qed.

Lemma canonical_ext_inv p c : canonical (NExt p c) = true ->
  nibs_ok p = true /\ p <> [] /\ is_branch c = true /\ canonical c = true.
Proof.
  rewrite Tree_canon.canonical_ext. intro Ht.
  apply andb_true_iff in Ht as [Ht Hcc]. apply andb_true_iff in Ht as [Ht Hcb].
  apply andb_true_iff in Ht as [Hp Hpne].
  split; [exact Hp|]. split; [|split; [exact Hcb | exact Hcc]].
  destruct p; [discriminate Hpne | discriminate].
Qed.

Lemma ext_child_two_heads p c : canonical (NExt p c) = true -> two_heads c.
Proof.
  intro Hc. destruct (canonical_ext_inv _ _ Hc) as (_ & _ & Hb & Hcc).
  destruct c as [| | |cs v]; try discriminate Hb. apply branch_two_heads. exact Hcc.
Qed.

Lemma ext_stored_app p c q : nibs_ok p = true -> stored c q -> stored (NExt p c) (p ++ q).
Proof.
  intros Hp [Hq Hg]. split.
  - rewrite tm_nibs_ok_app, Hp, Hq. reflexivity.
  - rewrite tget_ext_app. exact Hg.
Qed.

Lemma ext_stored_prefix p c q : stored (NExt p c) q -> key_starts_with q p = true.
Proof.
  intros [_ Hg]. rewrite tget_ext in Hg. destruct (key_starts_with q p); [reflexivity|].
  exfalso. apply Hg. reflexivity.
Qed.

Lemma ext_two_keys p c : canonical (NExt p c) = true -> two_keys (NExt p c).
Proof.
  intro Hc. destruct (canonical_ext_inv _ _ Hc) as (Hp & _ & _ & _).
  destruct (two_heads_two_keys _ (ext_child_two_heads _ _ Hc)) as (q1 & q2 & H1 & H2 & Hd).
  exists (p ++ q1), (p ++ q2). split; [apply ext_stored_app; assumption|].
  split; [apply ext_stored_app; assumption|].
  intro He. apply app_inv_head in He. contradiction.
Qed.

Lemma leaf_stored p v q : stored (NLeaf p v) q -> q = p.
Proof.
  intros [_ Hg]. rewrite tget_leaf in Hg. destruct (nibbles_eqb q p) eqn:E.
  - apply tm_nibbles_eqb_eq. exact E.
  - exfalso. apply Hg. reflexivity.
Qed.

Lemma leaf_not_two_keys p v t : agree (NLeaf p v) t -> two_keys t -> False.
Proof.
  intros Hag (q1 & q2 & H1 & H2 & Hd). apply agree_sym in Hag.
  apply (stored_agree _ _ _ Hag) in H1, H2.
  apply leaf_stored in H1, H2. congruence.
Qed.

Lemma ext_not_two_heads p c t : p <> [] -> agree (NExt p c) t -> two_heads t -> False.
Proof.
  intros Hp Hag (q1 & q2 & H1 & H2 & Hd). apply agree_sym in Hag.
  apply (stored_agree _ _ _ Hag) in H1, H2.
  apply ext_stored_prefix in H1, H2.
  destruct p as [|x p]; [contradiction|].
  apply tm_ksw_iff in H1 as [r1 ->]. apply tm_ksw_iff in H2 as [r2 ->].
  apply Hd. reflexivity.
Qed.

(* two keys below p that split at their first position cannot both continue p' beyond p *)
Lemma split_prefix (p : nibbles) : forall p' q1 q2 r1 r2,
  p ++ q1 = p' ++ r1 -> p ++ q2 = p' ++ r2 -> hd_error q1 <> hd_error q2 ->
  exists r, p = p' ++ r.
Proof.
  induction p as [|x p IH]; intros p' q1 q2 r1 r2 E1 E2 Hd.
  - cbn [app] in E1, E2. destruct p' as [|y p'].
    + exists []. reflexivity.
    + exfalso. apply Hd. subst q1 q2. reflexivity.
  - destruct p' as [|y p'].
    + exists (x :: p). reflexivity.
    + cbn [app] in E1, E2. injection E1 as -> E1. injection E2 as E2.
      destruct (IH p' q1 q2 r1 r2 E1 E2 Hd) as [r ->]. exists r. reflexivity.
Qed.

Lemma ext_prefix p c p' d : canonical (NExt p c) = true -> agree (NExt p c) (NExt p' d) ->
  exists r, p = p' ++ r.
Proof.
  intros Hc Hag. destruct (canonical_ext_inv _ _ Hc) as (Hp & _ & _ & _).
  destruct (ext_child_two_heads _ _ Hc) as (q1 & q2 & H1 & H2 & Hd).
  apply (ext_stored_app p c q1 Hp) in H1. apply (ext_stored_app p c q2 Hp) in H2.
  apply (stored_agree _ _ _ Hag) in H1, H2. apply ext_stored_prefix in H1, H2.
  apply tm_ksw_iff in H1 as [r1 E1]. apply tm_ksw_iff in H2 as [r2 E2].
  exact (split_prefix p p' q1 q2 r1 r2 E1 E2 Hd).
Qed.

Lemma canonical_unique_aux a : forall b,
  canonical_top a = true -> canonical_top b = true -> agree a b -> a = b.
Proof.
  induction a as [|p v|p c IHc|cs v IHcs] using node_ind'; intros b Ha Hb Hag.
  - symmetry. apply Tree_canon.canonical_top_empty; [exact Hb|].
    intros q Hq. rewrite <- (Hag q Hq). reflexivity.
  - apply Tree_canon.canonical_top_nonblank in Ha; [|reflexivity].
    destruct b as [|p' v'|p' d|ds w].
    + exfalso. assert (He : NLeaf p v = NBlank); [|discriminate He].
      apply Tree_canon.canonical_top_empty; [apply Tree_canon.canonical_canonical_top; exact Ha|].
      intros q Hq. rewrite (Hag q Hq). reflexivity.
    + cbn [canonical] in Ha. apply andb_true_iff in Ha as [Hp Hv].
      pose proof (Hag p Hp) as He. rewrite !tget_leaf, tm_nibbles_eqb_refl in He.
      destruct (nibbles_eqb p p') eqn:E.
      * apply tm_nibbles_eqb_eq in E. subst p' v'. reflexivity.
      * subst v. discriminate Hv.
    + exfalso. apply (leaf_not_two_keys p v _ Hag). apply ext_two_keys.
      apply Tree_canon.canonical_top_nonblank in Hb; [exact Hb | reflexivity].
    + exfalso. apply (leaf_not_two_keys p v _ Hag). apply two_heads_two_keys, branch_two_heads.
      apply Tree_canon.canonical_top_nonblank in Hb; [exact Hb | reflexivity].
  - apply Tree_canon.canonical_top_nonblank in Ha; [|reflexivity].
    destruct (canonical_ext_inv _ _ Ha) as (Hp & Hpne & Hcb & Hcc).
    destruct b as [|p' v'|p' d|ds w].
    + exfalso. assert (He : NExt p c = NBlank); [|discriminate He].
      apply Tree_canon.canonical_top_empty; [apply Tree_canon.canonical_canonical_top; exact Ha|].
      intros q Hq. rewrite (Hag q Hq). reflexivity.
    + exfalso. apply (leaf_not_two_keys p' v' _ (agree_sym _ _ Hag)). apply ext_two_keys. exact Ha.
    + apply Tree_canon.canonical_top_nonblank in Hb; [|reflexivity].
      destruct (canonical_ext_inv _ _ Hb) as (Hp' & _ & _ & Hdc).
      destruct (ext_prefix _ _ _ _ Ha Hag) as [r Er].
      destruct (ext_prefix _ _ _ _ Hb (agree_sym _ _ Hag)) as [r' Er'].
      assert (Hr : r = []).
      { apply length_zero_iff_nil. apply (f_equal (@length N)) in Er, Er'.
        rewrite app_length in Er, Er'. lia. }
      subst r. rewrite app_nil_r in Er. subst p'. f_equal.
      apply IHc; [apply Tree_canon.canonical_canonical_top; exact Hcc
                 | apply Tree_canon.canonical_canonical_top; exact Hdc |].
      intros q Hq. rewrite <- (tget_ext_app p c q), <- (tget_ext_app p d q). apply Hag.
      rewrite tm_nibs_ok_app, Hp, Hq. reflexivity.
    + exfalso. apply (ext_not_two_heads p c _ Hpne Hag). apply branch_two_heads.
      apply Tree_canon.canonical_top_nonblank in Hb; [exact Hb | reflexivity].
  - apply Tree_canon.canonical_top_nonblank in Ha; [|reflexivity].
    destruct b as [|p' v'|p' d|ds w].
    + exfalso. assert (He : NBranch cs v = NBlank); [|discriminate He].
      apply Tree_canon.canonical_top_empty; [apply Tree_canon.canonical_canonical_top; exact Ha|].
      intros q Hq. rewrite (Hag q Hq). reflexivity.
    + exfalso. apply (leaf_not_two_keys p' v' _ (agree_sym _ _ Hag)).
      apply two_heads_two_keys, branch_two_heads. exact Ha.
    + exfalso. apply Tree_canon.canonical_top_nonblank in Hb; [|reflexivity].
      destruct (canonical_ext_inv _ _ Hb) as (_ & Hpne & _ & _).
      apply (ext_not_two_heads p' d _ Hpne (agree_sym _ _ Hag)). apply branch_two_heads. exact Ha.
    + apply Tree_canon.canonical_top_nonblank in Hb; [|reflexivity].
      destruct (canonical_branch_inv _ _ Ha) as (Hlen & _ & Hall).
      destruct (canonical_branch_inv _ _ Hb) as (Hlen' & _ & Hall').
      f_equal.
      * apply (nth_ext cs ds NBlank NBlank); [congruence|].
        intros i Hi. rewrite Hlen in Hi.
        assert (HP : forall b, canonical_top (nth i cs NBlank) = true -> canonical_top b = true ->
                               agree (nth i cs NBlank) b -> nth i cs NBlank = b).
        { pose proof (Forall_child _ cs (N.of_nat i) IHcs) as HF. unfold child in HF.
          rewrite Nat2N.id in HF. apply HF.
          intros b0 _ Hb0 Hag0. symmetry. apply Tree_canon.canonical_top_empty; [exact Hb0|].
          intros q Hq. rewrite <- (Hag0 q Hq). reflexivity. }
        apply HP; [apply canonical_top_nth; exact Hall | apply canonical_top_nth; exact Hall'|].
        intros q Hq.
        assert (Hiq : nibs_ok (N.of_nat i :: q) = true).
        { rewrite tm_nibs_ok_cons, Hq. apply andb_true_iff. split; [lia | reflexivity]. }
        pose proof (Hag _ Hiq) as He. rewrite !tget_branch in He. unfold child in He.
        rewrite Nat2N.id in He. exact He.
      * apply (Hag [] eq_refl).
Qed.

Theorem canonical_unique a b : canonical_top a = true -> canonical_top b = true ->
   (forall q, nibs_ok q = true -> tget a q = tget b q) -> a = b.
Proof. intros Ha Hb Hag. apply canonical_unique_aux; assumption. Qed.

(* ================================================================== *)
(* 2. history independence                                             *)
(* ================================================================== *)

Theorem C02_history_independent_T ops1 ops2 : ops_ok ops1 -> ops_ok ops2 ->
   (forall q, nibs_ok q = true -> spec_run ops1 q = spec_run ops2 q) -> trun ops1 = trun ops2.
Proof.
  intros H1 H2 Hs. apply canonical_unique.
  - apply Tree_canon.C02_canonical. exact H1.
  - apply Tree_canon.C02_canonical. exact H2.
  - intros q Hq. rewrite !C01_map_T by assumption. apply Hs. exact Hq.
Qed.

Corollary C02_history_independent H ops1 ops2 : ops_ok ops1 -> ops_ok ops2 ->
   (forall q, nibs_ok q = true -> spec_run ops1 q = spec_run ops2 q) ->
   troot H (trun ops1) = troot H (trun ops2).
Proof. intros H1 H2 Hs. rewrite (C02_history_independent_T ops1 ops2 H1 H2 Hs). reflexivity. Qed.

Corollary C02_empty H ops : ops_ok ops -> (forall q, nibs_ok q = true -> spec_run ops q = []) ->
   troot H (trun ops) = H (rlp_encode (RStr [])).
Proof.
  intros Hops Hs.
  assert (He : trun ops = NBlank).
  { apply Tree_canon.canonical_top_empty; [apply Tree_canon.C02_canonical; exact Hops|].
    intros q Hq. rewrite C01_map_T by assumption. apply Hs. exact Hq. }
  rewrite He. reflexivity.
Qed.

(* ================================================================== *)
(* 3. the Yellow-Paper construction                                    *)
(* ================================================================== *)

Definition good_bindings (J : bindings) : Prop :=
   NoDup (map fst J) /\ Forall (fun e => nibs_ok (fst e) = true /\ snd e <> []) J.

Definition is_prefix (p k : nibbles) : Prop := exists r, k = p ++ r.

Lemma is_prefix_refl k : is_prefix k k.
Proof. exists []. symmetry. apply app_nil_r. Qed.

Lemma is_prefix_trans a b c : is_prefix a b -> is_prefix b c -> is_prefix a c.
Proof. intros [r ->] [s ->]. exists (r ++ s). symmetry. apply app_assoc. Qed.

(* ---------------- lcp / common_prefix_all ---------------- *)
Lemma lcp_prefix_l a : forall b, is_prefix (lcp a b) a.
Proof.
  induction a as [|x a IH]; intros [|y b]; cbn [lcp]; try (eexists; reflexivity).
  destruct (x =? y)%N; [|eexists; reflexivity].
  destruct (IH b) as [r Hr]. exists r. cbn [app]. f_equal. exact Hr.
Qed.

Lemma lcp_prefix_r a : forall b, is_prefix (lcp a b) b.
Proof.
  induction a as [|x a IH]; intros [|y b]; cbn [lcp]; try (eexists; reflexivity).
  destruct (N.eqb_spec x y) as [->|_]; [|eexists; reflexivity].
  destruct (IH b) as [r Hr]. exists r. cbn [app]. f_equal. exact Hr.
Qed.

Lemma lcp_app (p : nibbles) a b : lcp (p ++ a) (p ++ b) = p ++ lcp a b.
Proof.
  induction p as [|x p IH]; cbn [app lcp]; [reflexivity|].
  rewrite N.eqb_refl, IH. reflexivity.
Qed.

Lemma lcp_nil a b : lcp a b = [] -> a = [] \/ b = [] \/ hd_error a <> hd_error b.
Proof.
  destruct a as [|x a]; [left; reflexivity|]. destruct b as [|y b]; [right; left; reflexivity|].
  cbn [lcp]. destruct (N.eqb_spec x y) as [->|Hne]; [discriminate|].
  intros _. right; right. cbn [hd_error]. congruence.
Qed.

Lemma lcp_cons a b x r : lcp a b = x :: r -> hd_error a = Some x.
Proof.
  destruct a as [|x' a]; [discriminate|]. destruct b as [|y b]; [discriminate|].
  cbn [lcp]. destruct (x' =? y)%N; [|discriminate]. intro H. injection H as -> _. reflexivity.
Qed.

Definition cfold (J : bindings) (k : nibbles) : nibbles :=
  fold_left (fun acc (e : nibbles * bytes) => lcp acc (fst e)) J k.

Lemma cfold_cons e J k : cfold (e :: J) k = cfold J (lcp k (fst e)).
Proof. reflexivity. Qed.

Lemma cpa_cons k v J : common_prefix_all ((k, v) :: J) = cfold J k.
Proof. reflexivity. Qed.

Lemma cfold_prefix J : forall k,
  is_prefix (cfold J k) k /\ forall e, In e J -> is_prefix (cfold J k) (fst e).
Proof.
  induction J as [|e0 J IH]; intros k.
  - split; [apply is_prefix_refl | intros e []].
  - rewrite cfold_cons. destruct (IH (lcp k (fst e0))) as [H1 H2]. split.
    + apply (is_prefix_trans _ _ _ H1). apply lcp_prefix_l.
    + intros e [<-|Hin]; [|apply H2; exact Hin].
      apply (is_prefix_trans _ _ _ H1). apply lcp_prefix_r.
Qed.

Lemma cpa_prefix J e : In e J -> is_prefix (common_prefix_all J) (fst e).
Proof.
  destruct J as [|[k v] J]; [intros []|]. rewrite cpa_cons.
  destruct (cfold_prefix J k) as [H1 H2]. intros [<-|Hin]; [exact H1 | apply H2; exact Hin].
Qed.

Lemma cfold_nil J : forall k, cfold J k = [] ->
  k = [] \/ exists e, In e J /\ hd_error (fst e) <> hd_error k.
Proof.
  induction J as [|e0 J IH]; intros k Hk.
  - left. exact Hk.
  - rewrite cfold_cons in Hk. destruct (lcp k (fst e0)) as [|x r] eqn:El.
    + destruct (lcp_nil _ _ El) as [H|[H|H]].
      * left. exact H.
      * destruct k as [|y k]; [left; reflexivity|]. right. exists e0.
        split; [left; reflexivity|]. rewrite H. discriminate.
      * right. exists e0. split; [left; reflexivity|]. intro He. apply H. symmetry. exact He.
    + pose proof (lcp_cons _ _ _ _ El) as Hhd.
      destruct (IH _ Hk) as [H|(e & Hin & Hd)]; [discriminate H|].
      right. exists e. split; [right; exact Hin|]. rewrite Hhd. exact Hd.
Qed.

(* ---------------- adding / stripping a common prefix ---------------- *)
Definition addp (p : nibbles) (J : bindings) : bindings :=
  map (fun e : nibbles * bytes => (p ++ fst e, snd e)) J.

Lemma strip_addp p J : (forall e, In e J -> is_prefix p (fst e)) -> J = addp p (strip (length p) J).
Proof.
  intro Hp. unfold addp, strip. rewrite map_map. cbn [fst snd].
  rewrite <- (map_id J) at 1. apply map_ext_in. intros [k v] Hin.
  destruct (Hp _ Hin) as [r Hr]. cbn [fst snd] in *. subst k. rewrite tm_skipn_app. reflexivity.
Qed.

Lemma cfold_addp p J : forall k, cfold (addp p J) (p ++ k) = p ++ cfold J k.
Proof.
  induction J as [|e J IH]; intros k; [reflexivity|].
  cbn [addp map]. rewrite !cfold_cons. cbn [fst]. rewrite lcp_app. apply IH.
Qed.

Lemma cpa_addp p J : J <> [] -> common_prefix_all (addp p J) = p ++ common_prefix_all J.
Proof.
  destruct J as [|[k v] J]; [intro H; contradiction|]. intros _.
  cbn [addp map fst snd]. rewrite !cpa_cons. apply cfold_addp.
Qed.

Lemma lookup_cons k v J q : lookup ((k, v) :: J) q = if nibbles_eqb q k then v else lookup J q.
Proof. reflexivity. Qed.

Lemma lookup_addp p J q :
  lookup (addp p J) q = if key_starts_with q p then lookup J (skipn (length p) q) else [].
Proof.
  induction J as [|[k v] J IH].
  - cbn. destruct (key_starts_with q p); reflexivity.
  - cbn [addp map fst snd]. rewrite !lookup_cons. fold (addp p J). rewrite IH.
    destruct (key_starts_with q p) eqn:Eq.
    + apply tm_ksw_iff in Eq as [q' ->]. rewrite tm_eqb_app, tm_skipn_app. reflexivity.
    + rewrite tm_eqb_noprefix by exact Eq. reflexivity.
Qed.

Lemma lookup_strip p J q : (forall e, In e J -> is_prefix p (fst e)) ->
  lookup J q =
  if key_starts_with q p then lookup (strip (length p) J) (skipn (length p) q) else [].
Proof. intro Hp. rewrite (strip_addp p J Hp) at 1. apply lookup_addp. Qed.

Lemma cpa_strip J : J <> [] ->
  common_prefix_all (strip (length (common_prefix_all J)) J) = [].
Proof.
  intro Hne. set (p := common_prefix_all J).
  assert (Hp : forall e, In e J -> is_prefix p (fst e)) by (intros e; apply cpa_prefix).
  assert (Hs : strip (length p) J <> []).
  { destruct J; [contradiction | discriminate]. }
  pose proof (cpa_addp p _ Hs) as He. rewrite <- (strip_addp p J Hp) in He. fold p in He.
  rewrite <- (app_nil_r p) in He at 1. apply app_inv_head in He. symmetry. exact He.
Qed.

Lemma good_strip p J : (forall e, In e J -> is_prefix p (fst e)) ->
  good_bindings J -> good_bindings (strip (length p) J).
Proof.
  intros Hp [Hnd Hall]. split.
  - rewrite (strip_addp p J Hp) in Hnd. unfold addp in Hnd. rewrite map_map in Hnd. cbn [fst] in Hnd.
    rewrite <- (map_map fst (app p)) in Hnd. apply NoDup_map_inv in Hnd. exact Hnd.
  - unfold strip. rewrite Forall_forall in Hall |- *. intros e He.
    apply in_map_iff in He as ([k v] & <- & Hin). cbn [fst snd].
    destruct (Hall _ Hin) as [Hk Hv]. cbn [fst snd] in Hk, Hv.
    split; [apply tm_nibs_ok_skipn; exact Hk | exact Hv].
Qed.

(* ---------------- the partition on the next nibble ---------------- *)
Lemma below_cons_nil v J i : below (([], v) :: J) i = below J i.
Proof. reflexivity. Qed.

Lemma below_cons x k v J i :
  below ((x :: k, v) :: J) i = if (x =? i)%N then (k, v) :: below J i else below J i.
Proof. unfold below. cbn [flat_map fst snd]. destruct (x =? i)%N; reflexivity. Qed.

Lemma in_below J i k v : In (k, v) (below J i) <-> In (i :: k, v) J.
Proof.
  induction J as [|[k0 v0] J IH]; [reflexivity|].
  destruct k0 as [|x k0].
  - rewrite below_cons_nil, IH. cbn [In]. split; [intro H; right; exact H|].
    intros [H|H]; [discriminate H | exact H].
  - rewrite below_cons. destruct (N.eqb_spec x i) as [->|Hne]; cbn [In]; rewrite IH.
    + split; (intros [H|H]; [left; injection H as -> ->; reflexivity | right; exact H]).
    + split; [intro H; right; exact H|]. intros [H|H]; [injection H as Hx _ _; contradiction | exact H].
Qed.

Lemma lookup_below J i q : lookup (below J i) q = lookup J (i :: q).
Proof.
  induction J as [|[k0 v0] J IH]; [reflexivity|].
  destruct k0 as [|x k0].
  - rewrite below_cons_nil, lookup_cons. cbn [nibbles_eqb]. exact IH.
  - rewrite below_cons, lookup_cons. cbn [nibbles_eqb]. rewrite (N.eqb_sym i x).
    destruct (x =? i)%N; cbn [andb]; [|exact IH].
    rewrite lookup_cons, IH. reflexivity.
Qed.

Lemma good_below J i : good_bindings J -> good_bindings (below J i).
Proof.
  intros [Hnd Hall]. split.
  - clear Hall. induction J as [|[k0 v0] J IH]; [constructor|].
    cbn [map fst] in Hnd. inversion Hnd as [|k0' l Hnin Hnd']; subst k0' l.
    destruct k0 as [|x k0].
    + rewrite below_cons_nil. apply IH. exact Hnd'.
    + rewrite below_cons. destruct (N.eqb_spec x i) as [->|Hne]; [|apply IH; exact Hnd'].
      cbn [map fst]. constructor; [|apply IH; exact Hnd'].
      intro Hin. apply in_map_iff in Hin as ([k v] & Hk & Hin). cbn [fst] in Hk. subst k.
      apply in_below in Hin. apply Hnin. apply in_map_iff. exists (i :: k0, v). split; [reflexivity | exact Hin].
  - rewrite Forall_forall in Hall |- *. intros [k v] Hin. apply in_below in Hin.
    destruct (Hall _ Hin) as [Hk Hv]. cbn [fst snd] in *.
    rewrite tm_nibs_ok_cons in Hk. apply andb_true_iff in Hk as [_ Hk]. split; assumption.
Qed.

Lemma lookup_in_nonempty J k v :
  Forall (fun e : nibbles * bytes => nibs_ok (fst e) = true /\ snd e <> []) J ->
  In (k, v) J -> lookup J k <> [].
Proof.
  intros Hall. induction Hall as [|[k0 v0] J [_ Hv0] _ IH]; intros Hin; [destruct Hin|].
  rewrite lookup_cons. destruct (nibbles_eqb k k0) eqn:E; [exact Hv0|].
  destruct Hin as [He|Hin]; [|apply IH; exact Hin].
  injection He as -> _. rewrite tm_nibbles_eqb_refl in E. discriminate E.
Qed.

(* ---------------- key lengths and fuel ---------------- *)
Definition short (f : nat) (J : bindings) : Prop :=
  Forall (fun e : nibbles * bytes => length (fst e) < f) J.

Lemma short_strip (p : nibbles) f J : p <> [] -> (forall e, In e J -> is_prefix p (fst e)) ->
  short (S f) J -> short f (strip (length p) J).
Proof.
  intros Hn Hp Hs. unfold short, strip in *. rewrite Forall_forall in Hs |- *. intros e He.
  apply in_map_iff in He as ([k v] & <- & Hin). specialize (Hs _ Hin).
  destruct (Hp _ Hin) as [r Hr]. cbn [fst] in *. subst k.
  rewrite tm_skipn_app. rewrite app_length in Hs.
  destruct p as [|x p]; [contradiction|]. cbn [length] in Hs. lia.
Qed.

Lemma short_below i f J : short (S f) J -> short f (below J i).
Proof.
  intros Hs. unfold short in *. rewrite Forall_forall in Hs |- *. intros [k v] Hin.
  apply in_below in Hin. specialize (Hs _ Hin). cbn [fst length] in *. lia.
Qed.

Lemma fuel_fold J : forall m,
  m <= fold_left (fun m (e : nibbles * bytes) => Nat.max m (length (fst e))) J m /\
  forall e, In e J ->
    length (fst e) <= fold_left (fun m (e : nibbles * bytes) => Nat.max m (length (fst e))) J m.
Proof.
  induction J as [|e0 J IH]; intros m; cbn [fold_left].
  - split; [lia | intros e []].
  - destruct (IH (Nat.max m (length (fst e0)))) as [H1 H2]. split; [lia|].
    intros e [<-|Hin]; [lia | apply H2; exact Hin].
Qed.

Lemma short_yp_fuel J : short (yp_fuel J) J.
Proof.
  unfold short, yp_fuel. apply Forall_forall. intros e Hin.
  destruct (fuel_fold J 0) as [_ H2]. specialize (H2 e Hin). lia.
Qed.

(* ---------------- unfolding yp_build ---------------- *)
Lemma yp_build_two f e1 e2 J :
  yp_build (S f) (e1 :: e2 :: J) =
  match common_prefix_all (e1 :: e2 :: J) with
  | [] => NBranch (map (fun i => yp_build f (below (e1 :: e2 :: J) i)) nibble_range)
                  (lookup (e1 :: e2 :: J) [])
  | cp => NExt cp (yp_build f (strip (length cp) (e1 :: e2 :: J)))
  end.
Proof. destruct e1 as [k1 v1]. reflexivity. Qed.

Lemma nth_map_range (F : N -> node) n : (n < 16)%N ->
  nth (N.to_nat n) (map F nibble_range) NBlank = F n.
Proof.
  intro Hn.
  assert (Hc : (n = 0 \/ n = 1 \/ n = 2 \/ n = 3 \/ n = 4 \/ n = 5 \/ n = 6 \/ n = 7 \/
               n = 8 \/ n = 9 \/ n = 10 \/ n = 11 \/ n = 12 \/ n = 13 \/ n = 14 \/ n = 15)%N) by lia.
  repeat (destruct Hc as [->|Hc]; [reflexivity|]). subst n. reflexivity.
Qed.

Lemma yp_build_branch f J : 2 <= length J -> common_prefix_all J = [] -> 1 <= f ->
  is_branch (yp_build f J) = true.
Proof.
  intros HJ Hcp Hf. destruct f as [|f]; [lia|].
  destruct J as [|e1 [|e2 J]]; cbn [length] in HJ; try lia.
  rewrite yp_build_two, Hcp. reflexivity.
Qed.

Lemma short_pos f J : short f J -> J <> [] -> 1 <= f.
Proof.
  intros Hs Hne. destruct J as [|e J]; [contradiction|].
  inversion Hs as [|e' J' He _]; subst. lia.
Qed.

(* two bindings falling into different ones of the 17 entries of a branch *)
Lemma two_slots e1 e2 J :
  NoDup (map fst (e1 :: e2 :: J)) -> common_prefix_all (e1 :: e2 :: J) = [] ->
  exists a b, In a (e1 :: e2 :: J) /\ In b (e1 :: e2 :: J) /\ hd_error (fst a) <> hd_error (fst b).
Proof.
  destruct e1 as [k1 v1]. intros Hnd Hcp. rewrite cpa_cons in Hcp.
  destruct (cfold_nil _ _ Hcp) as [->|(e & Hin & Hd)].
  - exists ([], v1), e2. split; [left; reflexivity|]. split; [right; left; reflexivity|].
    cbn [map fst] in Hnd. inversion Hnd as [|x l Hnin _]; subst x l.
    destruct (fst e2) as [|y k2]; [exfalso; apply Hnin; left; reflexivity | discriminate].
  - exists e, (k1, v1). split; [right; exact Hin|]. split; [left; reflexivity | exact Hd].
Qed.

Lemma branch_count J cs : good_bindings J ->
  (forall x k v, In (x :: k, v) J -> is_nblank (nth (N.to_nat x) cs NBlank) = false) ->
  (exists a b, In a J /\ In b J /\ hd_error (fst a) <> hd_error (fst b)) ->
  2 <= count_entries cs (lookup J []).
Proof.
  intros [_ Hall] Hslot ([k1 v1] & [k2 v2] & H1 & H2 & Hd). cbn [fst] in Hd.
  rewrite Tree_canon.count_entries_nb.
  assert (Hnil : forall v, In ([], v) J -> nonempty (lookup J []) = true).
  { intros v Hin. pose proof (lookup_in_nonempty J [] v Hall Hin) as Hne.
    destruct (lookup J []); [contradiction | reflexivity]. }
  destruct k1 as [|x k1]; destruct k2 as [|y k2].
  - exfalso. apply Hd. reflexivity.
  - rewrite (Hnil _ H1). pose proof (nb_ge1 cs _ (Hslot _ _ _ H2)). lia.
  - rewrite (Hnil _ H2). pose proof (nb_ge1 cs _ (Hslot _ _ _ H1)). lia.
  - assert (Hxy : N.to_nat x <> N.to_nat y).
    { intro He. apply N2Nat.inj in He. apply Hd. subst y. reflexivity. }
    pose proof (nb_ge2 cs _ _ Hxy (Hslot _ _ _ H1) (Hslot _ _ _ H2)). lia.
Qed.

(* ---------------- the main induction on fuel ---------------- *)
Lemma yp_build_ok f : forall J, good_bindings J -> short f J ->
  canonical_top (yp_build f J) = true /\
  (J <> [] -> is_nblank (yp_build f J) = false) /\
  (forall q, nibs_ok q = true -> tget (yp_build f J) q = lookup J q).
Proof.
  induction f as [|f IH]; intros J HJ Hs.
  - assert (J = []) as ->.
    { destruct J as [|e J]; [reflexivity|]. inversion Hs as [|e' J' He _]; subst. lia. }
    cbn. split; [reflexivity|]. split; [intro H; contradiction | reflexivity].
  - destruct J as [|[k1 v1] [|e2 J]].
    + cbn. split; [reflexivity|]. split; [intro H; contradiction | reflexivity].
    + cbn [yp_build]. destruct HJ as [_ Hall]. inversion Hall as [|e' J' [Hk Hv] _]; subst e' J'.
      cbn [fst snd] in Hk, Hv. split; [|split].
      * unfold canonical_top. cbn [is_nblank canonical orb]. rewrite Hk.
        destruct v1; [contradiction | reflexivity].
      * intros _. reflexivity.
      * intros q _. rewrite tget_leaf, lookup_cons. cbn [lookup]. reflexivity.
    + rewrite yp_build_two. set (JJ := (k1, v1) :: e2 :: J) in *.
      assert (Hne : JJ <> []) by discriminate.
      destruct (common_prefix_all JJ) as [|x cp'] eqn:Ecp.
      * (* branch *)
        set (F := fun i => yp_build f (below JJ i)).
        assert (HF : forall i, canonical_top (F i) = true /\
                               (below JJ i <> [] -> is_nblank (F i) = false) /\
                               (forall q, nibs_ok q = true -> tget (F i) q = lookup (below JJ i) q)).
        { intro i. apply IH; [apply good_below; exact HJ | apply short_below; exact Hs]. }
        split; [|split].
        -- apply Tree_canon.canonical_canonical_top. rewrite Tree_canon.canonical_branch.
           apply andb_true_iff. split; [apply andb_true_iff; split|].
           ++ rewrite map_length. reflexivity.
           ++ apply Nat.leb_le. apply branch_count; [exact HJ | |].
              ** intros y k v Hin. destruct HJ as [_ Hall]. rewrite Forall_forall in Hall.
                 destruct (Hall _ Hin) as [Hk _]. cbn [fst] in Hk. apply nibs_ok_lt in Hk.
                 rewrite nth_map_range by exact Hk. apply (HF y).
                 apply in_below in Hin. intro He. rewrite He in Hin. destruct Hin.
              ** apply two_slots; [apply HJ | exact Ecp].
           ++ apply forallb_forall. intros c Hc. apply in_map_iff in Hc as (i & <- & _). apply (HF i).
        -- intros _. reflexivity.
        -- intros q Hq. destruct q as [|n q]; [reflexivity|].
           pose proof (nibs_ok_lt _ _ Hq) as Hn.
           rewrite tm_nibs_ok_cons in Hq. apply andb_true_iff in Hq as [_ Hq].
           rewrite tget_branch. unfold child. rewrite nth_map_range by exact Hn.
           destruct (HF n) as (_ & _ & Hg). rewrite Hg by exact Hq. apply lookup_below.
      * (* extension *)
        set (cp := x :: cp') in *.
        assert (Hp : forall e, In e JJ -> is_prefix cp (fst e)).
        { intros e He. rewrite <- Ecp. apply cpa_prefix. exact He. }
        pose proof (cpa_strip JJ Hne) as Hcs. rewrite Ecp in Hcs.
        assert (Hgs : good_bindings (strip (length cp) JJ)) by (apply good_strip; assumption).
        assert (Hss : short f (strip (length cp) JJ)).
        { apply short_strip; [discriminate | exact Hp | exact Hs]. }
        destruct (IH _ Hgs Hss) as (Hct & Hnb & Hg).
        assert (Hcpok : nibs_ok cp = true).
        { destruct (Hp (k1, v1)) as [r Hr]; [left; reflexivity|]. cbn [fst] in Hr.
          destruct HJ as [_ Hall]. inversion Hall as [|e' J' [Hk _] _]; subst e' J'.
          cbn [fst] in Hk. rewrite Hr, tm_nibs_ok_app in Hk. apply andb_true_iff in Hk as [Hk _]. exact Hk. }
        assert (Hbr : is_branch (yp_build f (strip (length cp) JJ)) = true).
        { apply yp_build_branch; [unfold strip; rewrite map_length; cbn [JJ length]; lia | exact Hcs |].
          apply (short_pos _ _ Hss). unfold JJ. discriminate. }
        assert (Hnb' : is_nblank (yp_build f (strip (length cp) JJ)) = false).
        { apply Hnb. unfold JJ. discriminate. }
        split; [|split].
        -- apply Tree_canon.canonical_canonical_top. rewrite Tree_canon.canonical_ext.
           rewrite Hcpok, Hbr. cbn [cp nonempty_path andb].
           apply Tree_canon.canonical_top_nonblank; assumption.
        -- intros _. reflexivity.
        -- intros q Hq. rewrite tget_ext, (lookup_strip cp JJ q Hp).
           destruct (key_starts_with q cp); [|reflexivity].
           apply Hg. apply tm_nibs_ok_skipn. exact Hq.
Qed.

Theorem yp_canonical J : good_bindings J -> canonical_top (yp_tree J) = true.
Proof. intro HJ. apply (yp_build_ok (yp_fuel J) J HJ (short_yp_fuel J)). Qed.

Theorem yp_lookup J q : good_bindings J -> nibs_ok q = true -> tget (yp_tree J) q = lookup J q.
Proof. intros HJ Hq. apply (yp_build_ok (yp_fuel J) J HJ (short_yp_fuel J)). exact Hq. Qed.

(* ================================================================== *)
(* 4. the operational tree is the Yellow-Paper tree of its contents    *)
(* ================================================================== *)

Theorem C02_yellow_paper_T ops J : ops_ok ops -> good_bindings J ->
   (forall q, nibs_ok q = true -> lookup J q = spec_run ops q) -> trun ops = yp_tree J.
Proof.
  intros Hops HJ Hs. apply canonical_unique.
  - apply Tree_canon.C02_canonical. exact Hops.
  - apply yp_canonical. exact HJ.
  - intros q Hq. rewrite C01_map_T, yp_lookup by assumption. symmetry. apply Hs. exact Hq.
Qed.

Corollary C02_yellow_paper H ops J : ops_ok ops -> good_bindings J ->
   (forall q, nibs_ok q = true -> lookup J q = spec_run ops q) ->
   troot H (trun ops) = yp_root H J.
Proof. intros Hops HJ Hs. unfold yp_root. rewrite (C02_yellow_paper_T ops J Hops HJ Hs). reflexivity. Qed.

(* ---------------- the hypotheses are satisfiable: a concrete history ---------------- *)
Definition ex_ops : list top :=
  [ TSet [1;2;3]%N [x61];          (* insert *)
    TSet [1;2]%N [x62];            (* a proper prefix of the first key *)
    TSet [1;2;4]%N [x63];          (* shares the prefix 1,2 *)
    TSet [5]%N [x64];
    TSet [1;2;3]%N [x65; x66];     (* overwrite *)
    TDel [5]%N;                    (* delete *)
    TSet [1;3;0]%N [x67];
    TSet [1;2;4;7]%N [];           (* set(k, b"") of an absent key: routed to delete, no effect *)
    TDel [9;9]%N ].                (* delete of an absent key *)

Definition ex_J : bindings :=
  [ ([1;3;0]%N, [x67]); ([1;2]%N, [x62]); ([1;2;3]%N, [x65; x66]); ([1;2;4]%N, [x63]) ].

Definition ex_probes : list nibbles :=
  [ []; [1]%N; [1;2]%N; [1;2;3]%N; [1;2;4]%N; [1;2;4;7]%N; [5]%N; [1;3;0]%N; [1;3]%N; [9;9]%N ].

Example C02_example :
  ops_ok ex_ops /\ good_bindings ex_J /\
  Forall (fun q => nibs_ok q = true /\ lookup ex_J q = spec_run ex_ops q) ex_probes /\
  trun ex_ops = yp_tree ex_J /\
  canonical_top (trun ex_ops) = true.
Proof.
  split; [repeat constructor|].
  split.
  { split.
    - cbn [ex_J map fst]. repeat (constructor; [cbn [In]; intuition discriminate|]). constructor.
    - repeat (constructor; [split; [reflexivity | discriminate]|]). constructor. }
  split; [repeat (constructor; [split; vm_compute; reflexivity|]); constructor|].
  split; vm_compute; reflexivity.
Qed.

Print Assumptions canonical_unique.
Print Assumptions C02_history_independent_T.
Print Assumptions C02_history_independent.
Print Assumptions C02_empty.
Print Assumptions yp_canonical.
Print Assumptions yp_lookup.
Print Assumptions C02_yellow_paper_T.
Print Assumptions C02_yellow_paper.
Print Assumptions C02_example.
