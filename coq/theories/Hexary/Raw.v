(* Hexary/Raw.v — raw hexary nodes (RLP items) and the node helpers of
   trie/utils/nodes.py, trie/validation.py (validate_is_node) and
   trie/exceptions.py (simulated node).  Definitions only. *)
From Coq Require Import List NArith ZArith Bool.
From Coq.Init Require Import Byte.
From PyTrie.Base Require Import Bytes Result Nibbles Rlp.
Import ListNotations.
Open Scope N_scope.
Open Scope res_scope.

Definition BLANK : item := RStr [].

Definition is_blank (n : item) : bool :=
  match n with RStr [] => true | _ => false end.

(* Python truthiness of a node item: non-empty bytes or non-empty list *)
Definition truthy (n : item) : bool :=
  match n with RStr [] => false | RList [] => false | _ => true end.

Inductive ntype := TBlank | TLeaf | TExt | TBranch.

Definition ntype_N (t : ntype) : N :=
  match t with TBlank => 0 | TLeaf => 1 | TExt => 2 | TBranch => 3 end.

(* decode_nibbles applied to the first item of a 2-item node *)
Definition decode_key (k : item) : result nibbles :=
  match k with
  | RStr b => decode_nibbles b
  | RList _ => Err ETypeError
  end.

Definition get_node_type (n : item) : result ntype :=
  match n with
  | RStr [] => Ok TBlank
  | RList [k; _] =>
      let! ns := decode_key k in
      Ok (if is_nibbles_terminated ns then TLeaf else TExt)
  | RList l => if Nat.eqb (length l) 17 then Ok TBranch else Err EInvalidNode
  | RStr _ => Err EInvalidNode
  end.

Definition is_leaf_node (n : item) : result bool :=
  match n with
  | RList [k; _] => let! ns := decode_key k in Ok (is_nibbles_terminated ns)
  | _ => Ok false
  end.

Definition is_extension_node (n : item) : result bool :=
  match n with
  | RList [k; _] => let! ns := decode_key k in Ok (negb (is_nibbles_terminated ns))
  | _ => Ok false
  end.

Definition extract_key (n : item) : result nibbles :=
  match n with
  | RList [k; _] => let! ns := decode_key k in Ok (remove_nibbles_terminator ns)
  | _ => Err EValueError    (* tuple unpacking fails *)
  end.

Definition compute_leaf_key (ns : nibbles) : result bytes :=
  encode_nibbles (add_nibbles_terminator ns).
Definition compute_extension_key (ns : nibbles) : result bytes :=
  encode_nibbles ns.

Definition kv_second (n : item) : item :=
  match n with RList [_; v] => v | _ => BLANK end.
Definition kv_first (n : item) : item :=
  match n with RList [k; _] => k | _ => BLANK end.

Definition branch_items (n : item) : list item :=
  match n with RList l => l | _ => [] end.
Definition branch_child (n : item) (i : N) : item := nth (N.to_nat i) (branch_items n) BLANK.
Definition branch_value (n : item) : item := nth 16 (branch_items n) BLANK.

Fixpoint list_set {A} (l : list A) (i : nat) (x : A) : list A :=
  match l, i with
  | [], _ => []
  | _ :: l', O => x :: l'
  | y :: l', S i' => y :: list_set l' i' x
  end.

Definition branch_set (n : item) (i : N) (x : item) : item :=
  RList (list_set (branch_items n) (N.to_nat i) x).

Definition item_bytes (x : item) : bytes := match x with RStr b => b | RList _ => [] end.

(* validate_is_node *)
Definition validate_is_bytes_item (x : item) : result unit :=
  match x with RStr _ => Ok tt | RList _ => Err EValidation end.

Fixpoint validate_is_node (n : item) {struct n} : result unit :=
  match n with
  | RStr [] => Ok tt
  | RStr _ => Err EValidation
  | RList [k; v] =>
      let! _ := validate_is_bytes_item k in
      match v with
      | RList _ => validate_is_node v
      | RStr _ => Ok tt
      end
  | RList l =>
      if Nat.eqb (length l) 17 then
        let! _ := validate_is_bytes_item (nth 16 l BLANK) in
        (fix go (cs : list item) (k : nat) {struct cs} : result unit :=
           match cs, k with
           | [], _ => Ok tt
           | _, O => Ok tt
           | c :: cs', S k' =>
               let! _ := match c with
                         | RStr [] => Ok tt
                         | RList _ => validate_is_node c
                         | RStr b => if Nat.eqb (length b) 32 then Ok tt else Err EValidation
                         end in
               go cs' k'
           end) l 16%nat
      else Err EValidation
  end.

(* ------------------------------------------------------------------ *)
(* HexaryTrieNode: sub_segments, value, suffix, raw, node_type *)
Record hnode := mkHnode {
  h_segs : list nibbles; h_value : bytes; h_suffix : nibbles; h_raw : item; h_type : ntype }.

Definition hnode_obs (h : hnode) : obs :=
  OL [OL (map onibs (h_segs h)); OB (h_value h); onibs (h_suffix h); item_obs (h_raw h);
      oN (ntype_N (h_type h))].

Definition nibble_range : list N := [0;1;2;3;4;5;6;7;8;9;10;11;12;13;14;15].

Definition annotate_node (n : item) : result hnode :=
  let! t := get_node_type n in
  match t with
  | TLeaf =>
      let! k := extract_key n in
      Ok (mkHnode [] (item_bytes (kv_second n)) k n TLeaf)
  | TBranch =>
      let segs := flat_map (fun i => if truthy (branch_child n i) then [[i]] else []) nibble_range in
      Ok (mkHnode segs (item_bytes (branch_value n)) [] n TBranch)
  | TExt =>
      let! k := extract_key n in
      Ok (mkHnode [k] [] [] n TExt)
  | TBlank => Ok (mkHnode [] [] [] n TBlank)
  end.

(* TraversedPartialPath._make_simulated_node *)
Definition simulated_node (actual : hnode) (tail : nibbles) : result hnode :=
  match tail with
  | [] => Err EValueError
  | _ =>
      match h_segs actual with
      | [] =>
          if negb (key_starts_with (h_suffix actual) tail) then Err EValidation
          else
            let trimmed := skipn (length tail) (h_suffix actual) in
            let! k := compute_leaf_key trimmed in
            Ok (mkHnode [] (h_value actual) trimmed
                        (RList [RStr k; kv_second (h_raw actual)]) TLeaf)
      | [ext] =>
          if negb (key_starts_with ext tail) then Err EValidation
          else if Nat.eqb (length tail) (length ext) then Err EValidation
          else
            let trimmed := skipn (length tail) ext in
            let! k := compute_extension_key trimmed in
            Ok (mkHnode [trimmed] (h_value actual) (h_suffix actual)
                        (RList [RStr k; kv_second (h_raw actual)]) TExt)
      | _ => Err EValidation
      end
  end.
