(* Hexary/Refine_batch.v — squash_changes at the database level: a trie over a ScratchDB layer
   simulates the pruning machine of Hexary/Refine_write_prune.v over a plain store, and what
   batch_commit makes of it (C01 / C02 / C05 commit clause / C06 for batched histories).

   THE TWO VIEWS OF A SCRATCH LAYER.
     vis sc     what a READ sees: the wrapped store overlaid with the [Some v] entries of the cache;
                a DELETED entry reads through to the wrapped store;
     cview sc   what [scommit true] writes back: DELETED entries are absent.
   vis sc is a super-store of cview sc; they differ exactly at DELETED keys that the wrapped
   store holds.

   THE SIMULATION ([brel D W tp ts]).  tp is a trie over a plain non-failing store mp, ts a trie
   over a scratch layer sc whose wrapped store is W; root, prune flag and pending table agree;
     I1  every [Some v] cache entry is an entry of mp;
     I2  mp is a sub-store of vis sc                        (everything tp can read, ts can read);
     I3  counts of ts <= counts of tp, with equality outside D;
     I4  outside D, mp = cview sc.
   D is the set of keys at which the inner trie may UNDERCOUNT: empty for the batch of a pruning
   outer trie (the batch trie starts with the exact counts), the keys of the wrapped store for
   the batch of a non-pruning outer trie (the batch trie starts with empty counts).
   Every function of D.v that succeeds on tp succeeds on ts with the same result, and the
   relation is kept ([sim]).  Only success is transported: ts can read MORE than tp.
   (_set_root_node / set / delete need the old root to be readable on the plain side, [root_in];
   _complete_pruning needs, where D is not empty, that plain entries at keys of D are the wrapped
   store's entries, [loop_pre]: content addressing + collision-freeness give it.)

   RESULTS (H is never assumed injective; cf H SB over the executable body lists of Refine_write):
     sim_get_node, sim__set, sim__delete, sim_get, sim_at_dwrite, brel_cview, brel_vis, brel_visible
                               the simulation and what it says about the visible store;
     batch_run, inner_get      a whole with-block over the pruning machine; reads inside the block;
     batch_commit_ps           PRUNING outer trie: all writes of the block succeed, the commit succeeds and
                               the outer trie is again in an exact state [pinv] for the new tree
                               (database = exactly its nodes, counts = occurrences);
     batch_commit_np           NON-PRUNING outer trie: all writes succeed, the commit succeeds, the new
                               store represents the new tree, is a super-store of the old one, and every
                               key it ADDS is a node of the FINAL tree (no intermediate node is added);
     hstep_abort               an aborted block changes nothing (from D_safety.C05_abort_restores);
     C01_D_pruning_batched, C01_D_nonpruning_batched
                               histories of direct writes, committed and aborted batches from the
                               empty trie: state = the tree of the writes that took effect, get = spec,
                               root = yp_root, and for pruning tries counts / database exact. *)
From Coq Require Import List NArith ZArith Bool Lia ZifyBool.
From Coq.Init Require Import Byte.
From PyTrie.Base Require Import Bytes Bytes_proofs Result AMap AMap_proofs Nibbles Nibbles_proofs Rlp Rlp_proofs.
From PyTrie.Db Require Import ScratchDb ScratchDb_proofs.
From PyTrie.Hexary Require Import Raw Raw_proofs D Tree Tree_aux Tree_map TreeTraverse D_read Refine_read.
From PyTrie.Hexary Require Tree_canon Tree_unique Tree_traverse_proofs D_safety.
From PyTrie.Hexary Require Import D_prune Refine_write Refine_write_prune.
Import ListNotations.
Open Scope N_scope.

(* ================================================================== *)
(* 0. the two views of a scratch layer *)

Definition cview (sc : scratch) (k : bytes) : option bytes :=
  match aget (cache sc) k with
  | Some (Some v) => Some v
  | Some None => None
  | None => aget (cells (wrapped sc)) k
  end.

Definition visg (sc : scratch) (k : bytes) : option bytes :=
  match aget (cache sc) k with
  | Some (Some v) => Some v
  | _ => aget (cells (wrapped sc)) k
  end.

(* the visible store as a finite map *)
Definition tabulate (f : bytes -> option bytes) (l : list bytes) : amap bytes :=
  flat_map (fun k => match f k with Some v => [(k, v)] | None => [] end) l.

Definition vis (sc : scratch) : amap bytes :=
  tabulate (visg sc) (akeys (cache sc) ++ akeys (cells (wrapped sc))).

Lemma aget_tabulate f l k :
  aget (tabulate f l) k = if existsb (bytes_eqb k) l then f k else None.
Proof.
  induction l as [|k0 l IH]; [reflexivity|].
  unfold tabulate in *. cbn [flat_map existsb].
  destruct (f k0) as [v|] eqn:Ef; cbn [app aget].
  - destruct (bytes_eqb k k0) eqn:E; cbn [orb].
    + apply bytes_eqb_eq in E. subst k0. symmetry. exact Ef.
    + exact IH.
  - rewrite IH. destruct (bytes_eqb k k0) eqn:E; cbn [orb]; [|reflexivity].
    apply bytes_eqb_eq in E. subst k0. rewrite Ef. destruct (existsb (bytes_eqb k) l); reflexivity.
Qed.

Lemma existsb_eqb_false k l : existsb (bytes_eqb k) l = false -> ~ In k l.
Proof.
  intros He Hin. assert (Ht : existsb (bytes_eqb k) l = true).
  { apply existsb_exists. exists k. split; [exact Hin|apply bytes_eqb_refl]. }
  rewrite Ht in He. discriminate He.
Qed.

Lemma aget_vis sc k : aget (vis sc) k = visg sc k.
Proof.
  unfold vis. rewrite aget_tabulate.
  destruct (existsb (bytes_eqb k) (akeys (cache sc) ++ akeys (cells (wrapped sc)))) eqn:E; [reflexivity|].
  apply existsb_eqb_false in E. unfold visg.
  rewrite (aget_notin (cache sc) k) by (intro Hx; apply E; apply in_or_app; left; exact Hx).
  rewrite (aget_notin (cells (wrapped sc)) k) by (intro Hx; apply E; apply in_or_app; right; exact Hx).
  reflexivity.
Qed.

(* the commit view as a finite map *)
Definition cstore (sc : scratch) : amap bytes :=
  tabulate (cview sc) (akeys (cache sc) ++ akeys (cells (wrapped sc))).

Lemma aget_cstore sc k : aget (cstore sc) k = cview sc k.
Proof.
  unfold cstore. rewrite aget_tabulate.
  destruct (existsb (bytes_eqb k) (akeys (cache sc) ++ akeys (cells (wrapped sc)))) eqn:E; [reflexivity|].
  apply existsb_eqb_false in E. unfold cview.
  rewrite (aget_notin (cache sc) k) by (intro Hx; apply E; apply in_or_app; left; exact Hx).
  rewrite (aget_notin (cells (wrapped sc)) k) by (intro Hx; apply E; apply in_or_app; right; exact Hx).
  reflexivity.
Qed.

Lemma cview_visg sc k v : cview sc k = Some v -> visg sc k = Some v.
Proof. unfold cview, visg. destruct (aget (cache sc) k) as [[x|]|]; [tauto|discriminate|tauto]. Qed.

(* the two views differ exactly at DELETED keys held by the wrapped store *)
Lemma visg_cview sc k :
  visg sc k = match cview sc k with
              | Some v => Some v
              | None => match aget (cache sc) k with
                        | Some None => aget (cells (wrapped sc)) k
                        | _ => None
                        end
              end.
Proof.
  unfold cview, visg. destruct (aget (cache sc) k) as [[x|]|]; try reflexivity.
  destruct (aget (cells (wrapped sc)) k); reflexivity.
Qed.

Lemma sget_visg sc k : sget sc k = match visg sc k with Some v => Ok v | None => Err (EKeyError k) end.
Proof. unfold sget, visg, store_get. destruct (aget (cache sc) k) as [[x|]|]; reflexivity. Qed.

Lemma scontains_visg sc k : scontains sc k = match visg sc k with Some _ => true | None => false end.
Proof. unfold scontains, visg, store_mem, amem. destruct (aget (cache sc) k) as [[x|]|]; reflexivity. Qed.

Lemma visg_new w k : visg (scratch_new w) k = aget (cells w) k.
Proof. reflexivity. Qed.

Lemma cview_new w k : cview (scratch_new w) k = aget (cells w) k.
Proof. reflexivity. Qed.

Lemma visg_sset sc k v k' : visg (sset sc k v) k' = if bytes_eqb k' k then Some v else visg sc k'.
Proof. unfold visg, sset. cbn [cache wrapped]. rewrite aget_aset. destruct (bytes_eqb k' k); reflexivity. Qed.

Lemma cview_sset sc k v k' : cview (sset sc k v) k' = if bytes_eqb k' k then Some v else cview sc k'.
Proof. unfold cview, sset. cbn [cache wrapped]. rewrite aget_aset. destruct (bytes_eqb k' k); reflexivity. Qed.

Lemma visg_sdel sc k k' :
  visg (sdel sc k) k' = if bytes_eqb k' k then aget (cells (wrapped sc)) k' else visg sc k'.
Proof. unfold visg, sdel. cbn [cache wrapped]. rewrite aget_aset. destruct (bytes_eqb k' k); reflexivity. Qed.

Lemma cview_sdel sc k k' : cview (sdel sc k) k' = if bytes_eqb k' k then None else cview sc k'.
Proof. unfold cview, sdel. cbn [cache wrapped]. rewrite aget_aset. destruct (bytes_eqb k' k); reflexivity. Qed.

(* commit on a non-failing wrapped store *)
Lemma scommit_views dd sc :
  budget (wrapped sc) = None -> NoDup (akeys (cache sc)) ->
  exists w', scommit dd sc = (mkScratch w' [], None) /\ budget w' = None /\
             forall k, aget (cells w') k = if dd then cview sc k else visg sc k.
Proof.
  intros Hb Hnd. unfold scommit.
  pose proof (apply_cache_spec dd (cache sc) (wrapped sc) Hb Hnd) as Hs.
  destruct (apply_cache dd (cache sc) (wrapped sc)) as [w' e]. destruct Hs as (-> & Hb' & Hg).
  exists w'. split; [reflexivity|]. split; [exact Hb'|].
  intro k. rewrite (Hg k). unfold cview, visg.
  destruct (aget (cache sc) k) as [[x|]|]; destruct dd; reflexivity.
Qed.

(* ================================================================== *)
(* small facts about count tables *)
Lemma cpos_adel c k : cpos c -> cpos (adel c k).
Proof.
  intros Hc h z Hg. rewrite aget_adel in Hg. destruct (bytes_eqb h k); [discriminate Hg|]. exact (Hc h z Hg).
Qed.

Lemma cpos_aset_pos c k z : cpos c -> (0 < z)%Z -> cpos (aset c k z).
Proof.
  intros Hc Hz h x Hg. rewrite aget_aset in Hg. destruct (bytes_eqb h k).
  - injection Hg as <-. exact Hz.
  - exact (Hc h x Hg).
Qed.

(* ================================================================== *)
(* 1. THE SIMULATION *)
Section Sim.
  Variable H : bytes -> bytes.
  Variable BNH : bytes.
  Variable D : bytes -> bool.
  Variable W : store.

  Record srel (mp : amap bytes) (sc : scratch) (cp cs : amap Z) : Prop := mk_srel {
    sr_wrapped : wrapped sc = W;
    sr_nodup : NoDup (akeys (cache sc));
    sr_cpos : cpos cs;
    sr_I1 : forall k v, aget (cache sc) k = Some (Some v) -> aget mp k = Some v;
    sr_I2 : forall k v, aget mp k = Some v -> visg sc k = Some v;
    sr_I3 : forall k, (zget cs k <= zget cp k)%Z;
    sr_I3e : forall k, D k = false -> zget cs k = zget cp k;
    sr_I4 : forall k, D k = false -> aget mp k = cview sc k }.

  Definition brel (tp ts : trie) : Prop :=
    exists mp sc,
      t_db tp = DPlain (store_of mp) /\ t_db ts = DScratch sc /\
      t_root ts = t_root tp /\ t_prune ts = t_prune tp /\ t_pending ts = t_pending tp /\
      srel mp sc (t_refc tp) (t_refc ts).

  Definition sim_at {A} (tp ts : trie) (mp ms : M A) : Prop :=
    forall a tp', mp tp = (Ok a, tp') -> exists ts', ms ts = (Ok a, ts') /\ brel tp' ts'.

  Definition sim {A} (m : M A) : Prop := forall tp ts, brel tp ts -> sim_at tp ts m m.

  Lemma brel_root tp ts : brel tp ts -> t_root ts = t_root tp.
  Proof. intros (mp & sc & _ & _ & Hr & _). exact Hr. Qed.
  Lemma brel_prune tp ts : brel tp ts -> t_prune ts = t_prune tp.
  Proof. intros (mp & sc & _ & _ & _ & Hr & _). exact Hr. Qed.
  Lemma brel_pending tp ts : brel tp ts -> t_pending ts = t_pending tp.
  Proof. intros (mp & sc & _ & _ & _ & _ & Hr & _). exact Hr. Qed.

  (* a trie over a scratch layer is related to the same trie over the layer's commit view ... *)
  Lemma brel_cview sc mp r p rc pd :
    wrapped sc = W -> NoDup (akeys (cache sc)) -> cpos rc -> (forall k, aget mp k = cview sc k) ->
    brel (mkTrie (DPlain (store_of mp)) r p rc pd) (mkTrie (DScratch sc) r p rc pd).
  Proof.
    intros Hw Hnd Hcp Hm. exists mp, sc. cbn [t_db t_root t_prune t_pending t_refc].
    repeat (split; [reflexivity|]). constructor.
    - exact Hw.
    - exact Hnd.
    - exact Hcp.
    - intros k v Hg. rewrite Hm. unfold cview. rewrite Hg. reflexivity.
    - intros k v Hg. apply cview_visg. rewrite <- Hm. exact Hg.
    - intro k. lia.
    - intros k _. reflexivity.
    - intros k _. apply Hm.
  Qed.

  (* ... which is its visible store as long as the cache holds no DELETED marker *)
  Definition no_deleted (sc : scratch) : Prop := forall k, aget (cache sc) k <> Some None.

  Lemma brel_vis sc r p rc pd :
    wrapped sc = W -> NoDup (akeys (cache sc)) -> cpos rc -> no_deleted sc ->
    brel (mkTrie (DPlain (store_of (vis sc))) r p rc pd) (mkTrie (DScratch sc) r p rc pd).
  Proof.
    intros Hw Hnd Hcp Hno. apply brel_cview; try assumption.
    intro k. rewrite aget_vis. unfold visg, cview. specialize (Hno k).
    destruct (aget (cache sc) k) as [[v|]|]; [reflexivity|contradiction|reflexivity].
  Qed.

  (* where the counts are exact (D k = false) the plain store is the commit view, and the visible store
     of the scratch layer is the plain store EXCEPT that a deleted key stays visible iff the wrapped
     store holds it *)
  Lemma brel_visible tp ts :
    brel tp ts ->
    exists mp sc, t_db tp = DPlain (store_of mp) /\ t_db ts = DScratch sc /\ wrapped sc = W /\
      sub_store mp (vis sc) /\
      forall k, D k = false ->
        aget (vis sc) k = match aget mp k with
                          | Some v => Some v
                          | None => match aget (cache sc) k with
                                    | Some None => aget (cells W) k
                                    | _ => None
                                    end
                          end.
  Proof.
    intros (mp & sc & Hdp & Hds & _ & _ & _ & Hs). exists mp, sc.
    split; [exact Hdp|]. split; [exact Hds|]. split; [exact (sr_wrapped _ _ _ _ Hs)|]. split.
    - intros k v Hg. rewrite aget_vis. exact (sr_I2 _ _ _ _ Hs k v Hg).
    - intros k Hd. rewrite aget_vis, visg_cview, (sr_I4 _ _ _ _ Hs k Hd), (sr_wrapped _ _ _ _ Hs). reflexivity.
  Qed.

  (* ---------------- the monad ---------------- *)
  Lemma sim_ret {A} (a : A) : sim (ret a).
  Proof. intros tp ts Hr x tp' E. injection E as <- <-. exists ts. split; [reflexivity|exact Hr]. Qed.

  Lemma sim_fail {A} e : sim (@fail A e).
  Proof. intros tp ts Hr x tp' E. discriminate E. Qed.

  Lemma sim_lift {A} (r : result A) : sim (lift r).
  Proof.
    intros tp ts Hr x tp' E. unfold lift in *. injection E as E <-. subst r.
    exists ts. split; [reflexivity|exact Hr].
  Qed.

  Lemma sim_at_bind {A B} tp ts (mp ms : M A) (fp fs : A -> M B) :
    sim_at tp ts mp ms ->
    (forall a tp1 ts1, brel tp1 ts1 -> sim_at tp1 ts1 (fp a) (fs a)) ->
    sim_at tp ts (bind mp fp) (bind ms fs).
  Proof.
    intros Hm Hf b tp' E. unfold bind in E |- *.
    destruct (mp tp) as [[a|e] t1] eqn:Em; [|discriminate E].
    destruct (Hm a t1 Em) as (t1s & Es & Hr1). rewrite Es. exact (Hf a t1 t1s Hr1 b tp' E).
  Qed.

  Lemma sim_bind {A B} (m : M A) (f : A -> M B) : sim m -> (forall a, sim (f a)) -> sim (bind m f).
  Proof.
    intros Hm Hf tp ts Hr. apply sim_at_bind; [exact (Hm tp ts Hr)|].
    intros a tp1 ts1 Hr1. exact (Hf a tp1 ts1 Hr1).
  Qed.

  Lemma sim_bind_lift {A B} (r : result A) (f : A -> M B) :
    (forall a, r = Ok a -> sim (f a)) -> sim (bind (lift r) f).
  Proof.
    intros Hf tp ts Hr b tp' E. unfold bind, lift in E |- *. destruct r as [a|e]; [|discriminate E].
    exact (Hf a eq_refl tp ts Hr b tp' E).
  Qed.

  Lemma sim_getst {B} (f : trie -> M B) :
    (forall tp ts, brel tp ts -> sim_at tp ts (f tp) (f ts)) -> sim (bind getst f).
  Proof. intros Hf tp ts Hr b tp' E. exact (Hf tp ts Hr b tp' E). Qed.

  (* a handler that re-raises cannot turn a failure into a success *)
  Definition reraises {A} (h : exn -> option (M A)) : Prop :=
    forall e k, h e = Some k -> forall t, exists e' t', k t = (Err e', t').

  Lemma sim_catch {A} (m : M A) h : sim m -> reraises h -> sim (catch m h).
  Proof.
    intros Hm Hh tp ts Hr a tp' E. unfold catch in E |- *.
    destruct (m tp) as [[x|e] t1] eqn:Em.
    - injection E as <- <-. destruct (Hm tp ts Hr x t1 Em) as (ts' & Es & Hr'). rewrite Es.
      exists ts'. split; [reflexivity|exact Hr'].
    - destruct (h e) as [k|] eqn:Eh; [|discriminate E].
      destruct (Hh e k Eh t1) as (e' & t' & Ek). rewrite Ek in E. discriminate E.
  Qed.

  Ltac handler_inv Hk :=
    repeat match type of Hk with
           | context [match ?x with _ => _ end] => destruct x
           end;
    try discriminate Hk; injection Hk as <-.

  Ltac reraise_solve :=
    let e := fresh "e" in let k := fresh "k" in let Hk := fresh "Hk" in let t := fresh "t" in
    intros e k Hk; handler_inv Hk; intro t; eexists; eexists; reflexivity.

  Ltac sstep :=
    cbv beta;
    match goal with
    | |- sim (ret _) => apply sim_ret
    | |- sim (fail _) => apply sim_fail
    | |- sim (lift _) => apply sim_lift
    | |- sim (bind getst _) => solve [auto with sim nocore]
    | |- sim (bind (lift _) _) => apply sim_bind_lift; intros ? ?
    | |- sim (bind _ _) => apply sim_bind; [|intro]
    | |- sim (catch _ _) => apply sim_catch; [|reraise_solve]
    | |- sim (match ?x with _ => _ end) => destruct x
    | |- sim (let '(_, _) := ?x in _) => destruct x
    | |- _ => solve [auto with sim nocore]
    end.

  (* ---------------- primitive effects ---------------- *)
  Lemma sim_db_get k : sim (db_get k).
  Proof.
    intros tp ts (mp & sc & Hdp & Hds & Hr) v tp' E.
    unfold db_get in E |- *. rewrite Hdp in E. rewrite Hds.
    unfold store_get, store_of in E. cbn [cells] in E.
    destruct (aget mp k) as [x|] eqn:Eg; [|discriminate E]. injection E as <- <-.
    destruct Hr as (Hr1 & Hr2 & Hr3 & Hs).
    rewrite sget_visg, (sr_I2 _ _ _ _ Hs k x Eg).
    exists ts. split; [reflexivity|]. exists mp, sc. repeat (split; [assumption|]). exact Hs.
  Qed.

  Lemma srel_set mp sc cp cs k v :
    srel mp sc cp cs -> srel (aset mp k v) (sset sc k v) cp cs.
  Proof.
    intros Hs. constructor.
    - exact (sr_wrapped _ _ _ _ Hs).
    - cbn [sset cache]. apply akeys_aset_nodup. exact (sr_nodup _ _ _ _ Hs).
    - exact (sr_cpos _ _ _ _ Hs).
    - intros k' v'. cbn [sset cache]. rewrite !aget_aset. destruct (bytes_eqb k' k).
      + intro E. injection E as <-. reflexivity.
      + apply (sr_I1 _ _ _ _ Hs).
    - intros k' v'. rewrite aget_aset, visg_sset. destruct (bytes_eqb k' k); [tauto|apply (sr_I2 _ _ _ _ Hs)].
    - exact (sr_I3 _ _ _ _ Hs).
    - exact (sr_I3e _ _ _ _ Hs).
    - intros k' Hd. rewrite aget_aset, cview_sset. destruct (bytes_eqb k' k); [reflexivity|apply (sr_I4 _ _ _ _ Hs); exact Hd].
  Qed.

  Lemma srel_inc mp sc cp cs k :
    srel mp sc cp cs -> srel mp sc (aset cp k (zget cp k + 1)%Z) (aset cs k (zget cs k + 1)%Z).
  Proof.
    intros Hs. constructor; try (destruct Hs; assumption).
    - apply cpos_aset_inc. exact (sr_cpos _ _ _ _ Hs).
    - intro h. rewrite !zget_aset. pose proof (sr_I3 _ _ _ _ Hs h) as Hh. pose proof (sr_I3 _ _ _ _ Hs k) as Hk.
      destruct (bytes_eqb h k); lia.
    - intros h Hd. rewrite !zget_aset. pose proof (sr_I3e _ _ _ _ Hs h Hd) as Hh.
      destruct (bytes_eqb h k) eqn:E; [|exact Hh]. apply bytes_eqb_eq in E. subst h. lia.
  Qed.

  Lemma sim_sdv k v : sim (_set_db_value k v).
  Proof.
    intros tp ts (mp & sc & Hdp & Hds & Hr1 & Hr2 & Hr3 & Hs) u tp' E.
    destruct tp as [dbp rp pp cp pdp]. destruct ts as [dbs rs prs cs pds].
    cbn [t_db t_root t_prune t_pending t_refc] in *. subst dbp dbs rs prs pds.
    unfold _set_db_value, bind, db_set, getst, putst, ret, with_db, with_refc in E |- *.
    cbn [t_db t_root t_prune t_pending t_refc store_set store_of budget cells] in E |- *.
    destruct pp.
    - injection E as <- <-. eexists. split; [reflexivity|].
      exists (aset mp k v), (sset sc k v). cbn [t_db t_root t_prune t_pending t_refc].
      repeat (split; [reflexivity|]). apply srel_inc. apply srel_set. exact Hs.
    - injection E as <- <-. eexists. split; [reflexivity|].
      exists (aset mp k v), (sset sc k v). cbn [t_db t_root t_prune t_pending t_refc].
      repeat (split; [reflexivity|]). apply srel_set. exact Hs.
  Qed.

  Lemma brel_fields tp ts (fp fs : trie -> trie) :
    brel tp ts ->
    t_db (fp tp) = t_db tp -> t_db (fs ts) = t_db ts ->
    t_refc (fp tp) = t_refc tp -> t_refc (fs ts) = t_refc ts ->
    t_root (fs ts) = t_root (fp tp) -> t_prune (fs ts) = t_prune (fp tp) ->
    t_pending (fs ts) = t_pending (fp tp) ->
    brel (fp tp) (fs ts).
  Proof.
    intros (mp & sc & Hdp & Hds & _ & _ & _ & Hs) E1 E2 E3 E4 E5 E6 E7.
    exists mp, sc. rewrite E1, E2, E3, E4. repeat (split; [assumption|]). exact Hs.
  Qed.

  Lemma sim_pinc k : sim (pending_inc k).
  Proof.
    intros tp ts Hr u tp' E. unfold pending_inc, bind, getst in E |- *.
    rewrite (brel_pending _ _ Hr). destruct (t_pending tp) as [p|] eqn:Ep; [|discriminate E].
    unfold putst in E |- *. injection E as <- <-. eexists. split; [reflexivity|].
    apply (brel_fields tp ts (fun t => with_pending t (Some (aset p k (zget p k + 1)%Z)))
                             (fun t => with_pending t (Some (aset p k (zget p k + 1)%Z)))); try reflexivity;
      try exact Hr; cbn [with_pending t_root t_prune].
    - apply (brel_root _ _ Hr).
    - apply (brel_prune _ _ Hr).
  Qed.

  Lemma sim_modify_root h : sim (bind getst (fun t' => putst (with_root t' h))).
  Proof.
    intros tp ts Hr u tp' E. unfold bind, getst, putst in E |- *. injection E as <- <-.
    eexists. split; [reflexivity|].
    apply (brel_fields tp ts (fun t => with_root t h) (fun t => with_root t h)); try reflexivity; try exact Hr;
      cbn [with_root t_prune t_pending].
    - apply (brel_prune _ _ Hr).
    - apply (brel_pending _ _ Hr).
  Qed.

  Hint Resolve sim_db_get sim_sdv sim_pinc sim_modify_root : sim.

  (* ---------------- reads ---------------- *)
  Lemma sim_get_node ref : sim (get_node BNH ref).
  Proof. unfold get_node. repeat sstep. Qed.
  Hint Resolve sim_get_node : sim.

  Lemma sim_get_node_traversal p k r : sim (get_node_traversal BNH p k r).
  Proof. unfold get_node_traversal. repeat sstep. Qed.
  Hint Resolve sim_get_node_traversal : sim.

  Lemma sim__traverse_from fuel : forall n k r, sim (_traverse_from BNH fuel n k r).
  Proof. induction fuel as [|f IH]; intros n k r; cbn [_traverse_from]; repeat sstep. Qed.
  Hint Resolve sim__traverse_from : sim.

  Lemma sim__traverse rh k : sim (_traverse BNH rh k).
  Proof. unfold _traverse. repeat sstep. Qed.
  Hint Resolve sim__traverse : sim.

  Lemma sim__get rh k : sim (_get BNH rh k).
  Proof. unfold _get. repeat sstep. Qed.
  Hint Resolve sim__get : sim.

  Lemma sim_at_of_sim {A} (m : M A) tp ts : sim m -> brel tp ts -> sim_at tp ts m m.
  Proof. intros Hm Hr. exact (Hm tp ts Hr). Qed.

  Ltac to_sim :=
    match goal with
    | Hr : brel ?tp ?ts |- sim_at ?tp ?ts _ _ => apply sim_at_of_sim; [|exact Hr]
    end.

  Lemma sim_get key : sim (get BNH key).
  Proof.
    unfold get. apply sim_getst. intros tp ts Hr. rewrite (brel_root _ _ Hr).
    generalize (t_root tp). intro r0. to_sim. repeat sstep.
  Qed.

  Lemma sim_exists key : sim (exists_ BNH key).
  Proof. unfold exists_. apply sim_bind; [apply sim_get|intro; apply sim_ret]. Qed.

  (* ---------------- writes ---------------- *)
  Lemma sim_lift_bytes r : sim (lift_bytes r).
  Proof. unfold lift_bytes. repeat sstep. Qed.
  Hint Resolve sim_lift_bytes : sim.

  Lemma sim__prune_node n : sim (_prune_node H n).
  Proof.
    unfold _prune_node. apply sim_getst. intros tp ts Hr. rewrite (brel_prune _ _ Hr).
    generalize (t_prune tp). intro p0. to_sim. repeat sstep.
  Qed.
  Hint Resolve sim__prune_node : sim.

  Lemma sim__persist_node n : sim (_persist_node H n).
  Proof. unfold _persist_node. repeat sstep. Qed.
  Hint Resolve sim__persist_node : sim.

  Lemma sim__set_raw_node n : sim (_set_raw_node H BNH n).
  Proof. unfold _set_raw_node. repeat sstep. Qed.
  Hint Resolve sim__set_raw_node : sim.

  Lemma sim__normalize_branch_node n : sim (_normalize_branch_node H BNH n).
  Proof. unfold _normalize_branch_node. repeat sstep. Qed.
  Hint Resolve sim__normalize_branch_node : sim.

  Lemma sim__set fuel : forall n k v, sim (_set H BNH fuel n k v).
  Proof. induction fuel as [|f IH]; intros n k v; cbn [_set]; repeat sstep. Qed.
  Hint Resolve sim__set : sim.

  Lemma sim__delete fuel : forall n k, sim (_delete H BNH fuel n k).
  Proof. induction fuel as [|f IH]; intros n k; cbn [_delete]; repeat sstep. Qed.
  Hint Resolve sim__delete : sim.

  Lemma sim_raise_missing key {A} (m : M A) : sim m -> sim (raise_missing key m).
  Proof. intro Hm. unfold raise_missing. repeat sstep. Qed.

  Lemma sim_set_inner key value : sim (D_safety.set_inner H BNH key value).
  Proof.
    unfold D_safety.set_inner. apply sim_getst. intros tp ts Hr. rewrite (brel_root _ _ Hr).
    generalize (t_root tp). intro r0. to_sim. repeat sstep.
  Qed.

  Lemma sim_delete_inner key : sim (D_safety.delete_inner H BNH key).
  Proof.
    unfold D_safety.delete_inner. apply sim_getst. intros tp ts Hr. rewrite (brel_root _ _ Hr).
    generalize (t_root tp). intro r0. to_sim. repeat sstep.
  Qed.

  (* ---------------- _set_root_node: the old root must be readable on the plain side ---------------- *)
  Definition pmem (t : trie) (k : bytes) : bool :=
    match t_db t with DPlain s => amem (cells s) k | DScratch _ => false end.

  Definition root_in (t : trie) : Prop := bytes_eqb (t_root t) BNH = true \/ pmem t (t_root t) = true.

  Lemma sim_at_bind' {A B} tp ts (mp ms : M A) (fp fs : A -> M B) :
    sim_at tp ts mp ms ->
    (forall a tp1 ts1, mp tp = (Ok a, tp1) -> brel tp1 ts1 -> sim_at tp1 ts1 (fp a) (fs a)) ->
    sim_at tp ts (bind mp fp) (bind ms fs).
  Proof.
    intros Hm Hf b tp' E. unfold bind in E |- *.
    destruct (mp tp) as [[a|e] t1] eqn:Em; [|discriminate E].
    destruct (Hm a t1 Em) as (t1s & Es & Hr1). rewrite Es. exact (Hf a t1 t1s eq_refl Hr1 b tp' E).
  Qed.

  Lemma sim_at_bind_lift {A B} tp ts (r : result A) (f : A -> M B) :
    (forall a, r = Ok a -> sim_at tp ts (f a) (f a)) -> sim_at tp ts (bind (lift r) f) (bind (lift r) f).
  Proof.
    intros Hf b tp' E. unfold bind, lift in E |- *. destruct r as [a|e]; [|discriminate E].
    exact (Hf a eq_refl b tp' E).
  Qed.

  Lemma sim_at_getst {B} tp ts (f : trie -> M B) :
    sim_at tp ts (f tp) (f ts) -> sim_at tp ts (bind getst f) (bind getst f).
  Proof. intros Hf b tp' E. exact (Hf b tp' E). Qed.

  Lemma sim_at_catch_nokey {A} tp ts (m : M A) h :
    sim_at tp ts m m -> (forall e t1, m tp = (Err e, t1) -> h e = None) ->
    sim_at tp ts (catch m h) (catch m h).
  Proof.
    intros Hm Hn a tp' E. unfold catch in E |- *. destruct (m tp) as [[x|e] t1] eqn:Em.
    - injection E as <- <-. destruct (Hm x t1 Em) as (ts' & Es & Hr'). rewrite Es.
      exists ts'. split; [reflexivity|exact Hr'].
    - rewrite (Hn e t1 eq_refl) in E. discriminate E.
  Qed.

  Lemma gn_present_nokey mp h e : amem mp h = true -> gn BNH mp (RStr h) = Err e -> key_error_hash e = None.
  Proof.
    unfold gn, amem. intros Hm Hg. destruct h as [|h0 h']; [discriminate Hg|].
    destruct (bytes_eqb (h0 :: h') BNH); [discriminate Hg|].
    destruct (Nat.ltb (length (h0 :: h')) 32); [apply rlp_decode_err in Hg; apply Hg|].
    destruct (aget mp (h0 :: h')); [apply rlp_decode_err in Hg; apply Hg|discriminate Hm].
  Qed.

  Lemma sim_at_db_contains tp ts k :
    brel tp ts -> pmem tp k = true -> sim_at tp ts (db_contains k) (db_contains k).
  Proof.
    intros Hr Hm b tp' E. pose proof Hr as (mp & sc & Hdp & Hds & _ & _ & _ & Hs).
    unfold db_contains in E |- *. unfold pmem in Hm. rewrite Hdp in E, Hm. rewrite Hds.
    unfold store_mem in E. rewrite Hm in E. injection E as <- <-.
    cbn [store_of cells] in Hm. unfold amem in Hm. destruct (aget mp k) as [v|] eqn:Eg; [|discriminate Hm].
    rewrite scontains_visg, (sr_I2 _ _ _ _ Hs k v Eg). exists ts. split; [reflexivity|exact Hr].
  Qed.

  Lemma sim_at__set_root_node n tp ts :
    brel tp ts -> root_in tp -> sim_at tp ts (_set_root_node H BNH n) (_set_root_node H BNH n).
  Proof.
    intros Hr Hroot. unfold _set_root_node.
    apply sim_at_bind_lift. intros u _. apply sim_at_getst.
    rewrite (brel_prune _ _ Hr), (brel_root _ _ Hr).
    destruct (t_prune tp); [|to_sim; repeat sstep].
    destruct (bytes_eqb (t_root tp) BNH) eqn:Eb; cbn [negb]; [to_sim; repeat sstep|].
    destruct Hroot as [Hx|Hroot]; [rewrite Hx in Eb; discriminate Eb|].
    set (old := t_root tp) in *. clearbody old.
    apply sim_at_bind; [|intros a tp1 ts1 Hr1; to_sim; repeat sstep].
    pose proof Hr as (mp & sc & Hdp & Hds & _ & _ & _ & Hs).
    assert (Hon : on mp tp) by exact Hdp.
    apply sim_at_bind'.
    - apply sim_at_catch_nokey.
      + apply sim_at_of_sim; [repeat sstep|exact Hr].
      + intros e t1 E. unfold bind in E. rewrite (get_node_eq BNH mp _ tp Hon) in E.
        destruct (gn BNH mp (RStr old)) as [x|e0] eqn:Eg; [discriminate E|]. injection E as <- _.
        unfold pmem in Hroot. rewrite Hdp in Hroot. rewrite (gn_present_nokey mp old e0 Hroot Eg). reflexivity.
    - intros r tp1 ts1 E1 Hr1.
      assert (Htp1 : tp1 = tp).
      { unfold catch, bind in E1. rewrite (get_node_eq BNH mp _ tp Hon) in E1.
        destruct (gn BNH mp (RStr old)) as [x|e0]; cbn in E1.
        - injection E1 as _ <-. reflexivity.
        - destruct (key_error_hash e0); cbn in E1; injection E1 as _ <-; reflexivity. }
      subst tp1. destruct r as [node|]; [|to_sim; repeat sstep].
      apply sim_at_bind_lift. intros [k0 body] _.
      apply sim_at_bind; [apply sim_at_db_contains; assumption|].
      intros present tp2 ts2 Hr2. to_sim. repeat sstep.
  Qed.

  Lemma sim_at_body tp ts key (inner : M item) :
    brel tp ts -> sim inner ->
    (forall a tp1, inner tp = (Ok a, tp1) -> root_in tp1) ->
    sim_at tp ts (bind (raise_missing key inner) (fun n => _set_root_node H BNH n))
                 (bind (raise_missing key inner) (fun n => _set_root_node H BNH n)).
  Proof.
    intros Hr Hin Hroot. apply sim_at_bind'.
    - apply sim_at_of_sim; [apply sim_raise_missing; exact Hin|exact Hr].
    - intros a tp1 ts1 E Hr1. apply sim_at__set_root_node; [exact Hr1|].
      apply (Hroot a). unfold raise_missing, catch in E.
      destruct (inner tp) as [[x|e] t1]; [exact E|].
      destruct (key_error_hash e); [|discriminate E]. cbn in E. discriminate E.
  Qed.

  (* ---------------- _complete_pruning ---------------- *)
  Fixpoint sprune_fold (p : amap Z) (c : amap Z) (sc : scratch) : amap Z * scratch :=
    match p with
    | [] => (c, sc)
    | (k, n) :: p' =>
        let new := (zget c k - n)%Z in
        if (new <=? 0)%Z then sprune_fold p' (adel c k) (sdel sc k)
        else sprune_fold p' (aset c k new) sc
    end.

  Lemma sloop_is_fold p : forall t sc,
    t_db t = DScratch sc ->
    complete_pruning_loop p t =
    (let '(c, sc') := sprune_fold p (t_refc t) sc in
     (Ok tt, mkTrie (DScratch sc') (t_root t) (t_prune t) c (t_pending t))).
  Proof.
    induction p as [|[k n] p IH]; intros t sc Hd;
      destruct t as [d r pr c pe]; cbn [t_db] in Hd; subst d.
    - reflexivity.
    - cbn [complete_pruning_loop sprune_fold t_refc t_root t_prune t_pending].
      unfold bind at 1. unfold getst at 1. cbv beta iota. cbn [t_refc].
      destruct (zget c k - n <=? 0)%Z eqn:En.
      + unfold bind at 1. unfold catch, bind, db_del, ret. cbn [t_db].
        unfold with_db, getst, putst, with_refc. cbn [Z.eqb t_db t_root t_prune t_refc t_pending].
        erewrite IH; [|reflexivity].
        cbn [t_db t_root t_prune t_refc t_pending]. reflexivity.
      + unfold bind at 1. unfold ret at 1. unfold bind at 1. unfold getst at 1. cbv beta iota.
        assert (Hz : (zget c k - n =? 0)%Z = false) by lia.
        rewrite Hz. unfold bind, putst, with_refc. cbn [t_db t_root t_prune t_refc t_pending].
        erewrite IH; [|reflexivity].
        cbn [t_db t_root t_prune t_refc t_pending]. reflexivity.
  Qed.

  Lemma srel_del_both mp sc cp cs k :
    srel mp sc cp cs -> srel (adel mp k) (sdel sc k) (adel cp k) (adel cs k).
  Proof.
    intro Hs. constructor.
    - exact (sr_wrapped _ _ _ _ Hs).
    - cbn [sdel cache]. apply akeys_aset_nodup. exact (sr_nodup _ _ _ _ Hs).
    - apply cpos_adel. exact (sr_cpos _ _ _ _ Hs).
    - intros k' v'. cbn [sdel cache]. rewrite aget_aset, aget_adel. destruct (bytes_eqb k' k); [discriminate|].
      apply (sr_I1 _ _ _ _ Hs).
    - intros k' v'. rewrite aget_adel, visg_sdel. destruct (bytes_eqb k' k); [discriminate|].
      apply (sr_I2 _ _ _ _ Hs).
    - intro h. rewrite !zget_adel. pose proof (sr_I3 _ _ _ _ Hs h). destruct (bytes_eqb h k); lia.
    - intros h Hd. rewrite !zget_adel. destruct (bytes_eqb h k); [reflexivity|]. apply (sr_I3e _ _ _ _ Hs h Hd).
    - intros h Hd. rewrite aget_adel, cview_sdel. destruct (bytes_eqb h k); [reflexivity|]. apply (sr_I4 _ _ _ _ Hs h Hd).
  Qed.

  Lemma srel_del_s mp sc cp cs k n :
    srel mp sc cp cs -> (zget cs k - n <= 0)%Z -> (0 < zget cp k - n)%Z ->
    (forall v, D k = true -> aget mp k = Some v -> aget (cells W) k = Some v) ->
    srel mp (sdel sc k) (aset cp k (zget cp k - n)%Z) (adel cs k).
  Proof.
    intros Hs Hle Hlt Hw.
    assert (HD : D k = true).
    { destruct (D k) eqn:E; [reflexivity|]. pose proof (sr_I3e _ _ _ _ Hs k E). lia. }
    constructor.
    - exact (sr_wrapped _ _ _ _ Hs).
    - cbn [sdel cache]. apply akeys_aset_nodup. exact (sr_nodup _ _ _ _ Hs).
    - apply cpos_adel. exact (sr_cpos _ _ _ _ Hs).
    - intros k' v'. cbn [sdel cache]. rewrite aget_aset. destruct (bytes_eqb k' k); [discriminate|].
      apply (sr_I1 _ _ _ _ Hs).
    - intros k' v' Hg. rewrite visg_sdel. destruct (bytes_eqb k' k) eqn:E; [|apply (sr_I2 _ _ _ _ Hs); exact Hg].
      apply bytes_eqb_eq in E. subst k'. rewrite (sr_wrapped _ _ _ _ Hs). apply Hw; assumption.
    - intro h. rewrite zget_adel, zget_aset. pose proof (sr_I3 _ _ _ _ Hs h). destruct (bytes_eqb h k); lia.
    - intros h Hd. rewrite zget_adel, zget_aset. destruct (bytes_eqb h k) eqn:E; [|apply (sr_I3e _ _ _ _ Hs h Hd)].
      apply bytes_eqb_eq in E. subst h. rewrite HD in Hd. discriminate Hd.
    - intros h Hd. rewrite cview_sdel. destruct (bytes_eqb h k) eqn:E; [|apply (sr_I4 _ _ _ _ Hs h Hd)].
      apply bytes_eqb_eq in E. subst h. rewrite HD in Hd. discriminate Hd.
  Qed.

  Lemma srel_dec_both mp sc cp cs k n :
    srel mp sc cp cs -> (0 < zget cs k - n)%Z ->
    srel mp sc (aset cp k (zget cp k - n)%Z) (aset cs k (zget cs k - n)%Z).
  Proof.
    intros Hs Hlt. constructor; try (destruct Hs; assumption).
    - apply cpos_aset_pos; [exact (sr_cpos _ _ _ _ Hs)|exact Hlt].
    - intro h. rewrite !zget_aset. pose proof (sr_I3 _ _ _ _ Hs h). pose proof (sr_I3 _ _ _ _ Hs k).
      destruct (bytes_eqb h k); lia.
    - intros h Hd. rewrite !zget_aset. pose proof (sr_I3e _ _ _ _ Hs h Hd) as Hh.
      destruct (bytes_eqb h k) eqn:E; [|exact Hh]. apply bytes_eqb_eq in E. subst h. lia.
  Qed.

  (* what the loop needs where the inner trie undercounts: the plain entries at keys of D are the
     wrapped store's entries (content addressing + collision-freeness give this) *)
  Definition agrees_on_D (mp : amap bytes) : Prop :=
    forall k v, D k = true -> aget mp k = Some v -> aget (cells W) k = Some v.

  Lemma fold_sim p : forall mp sc cp cs,
    srel mp sc cp cs -> agrees_on_D mp ->
    forall cp' mp', prune_fold p cp mp = (true, cp', mp') ->
    srel mp' (snd (sprune_fold p cs sc)) cp' (fst (sprune_fold p cs sc)).
  Proof.
    induction p as [|[k n] p IH]; intros mp sc cp cs Hs Hag cp' mp' E.
    - cbn in E. injection E as <- <-. exact Hs.
    - cbn [prune_fold sprune_fold] in E |- *. pose proof (sr_I3 _ _ _ _ Hs k) as H3.
      destruct (zget cp k - n <=? 0)%Z eqn:Ep.
      + destruct (amem mp k) eqn:Em; [|discriminate E].
        assert (Es : (zget cs k - n <=? 0)%Z = true) by lia. rewrite Es.
        apply (IH (adel mp k) (sdel sc k) (adel cp k) (adel cs k)); [apply srel_del_both; exact Hs| |exact E].
        intros h v Hd Hg. rewrite aget_adel in Hg. destruct (bytes_eqb h k); [discriminate Hg|].
        exact (Hag h v Hd Hg).
      + destruct (zget cs k - n <=? 0)%Z eqn:Es.
        * apply (IH mp (sdel sc k) (aset cp k (zget cp k - n)%Z) (adel cs k)); [|exact Hag|exact E].
          apply srel_del_s; [exact Hs|lia|lia|]. intros v Hd Hg. exact (Hag k v Hd Hg).
        * apply (IH mp sc (aset cp k (zget cp k - n)%Z) (aset cs k (zget cs k - n)%Z)); [|exact Hag|exact E].
          apply srel_dec_both; [exact Hs|lia].
  Qed.

  Definition pcell (t : trie) (k : bytes) : option bytes :=
    match t_db t with DPlain s => aget (cells s) k | DScratch _ => None end.

  Definition loop_pre (t : trie) : Prop :=
    forall k v, D k = true -> pcell t k = Some v -> aget (cells W) k = Some v.

  Lemma sim_at_loop p tp ts :
    brel tp ts -> loop_pre tp -> sim_at tp ts (complete_pruning_loop p) (complete_pruning_loop p).
  Proof.
    intros (mp & sc & Hdp & Hds & Hr1 & Hr2 & Hr3 & Hs) Hpre u tp' E.
    rewrite (loop_is_fold p tp (store_of mp) Hdp) in E. rewrite (sloop_is_fold p ts sc Hds).
    cbn [store_of cells budget] in E.
    destruct (prune_fold p (t_refc tp) mp) as [[ok cp'] mp'] eqn:Ef.
    destruct ok; [|discriminate E]. injection E as <- <-.
    assert (Hag : agrees_on_D mp).
    { intros k v Hd Hg. apply (Hpre k v Hd). unfold pcell. rewrite Hdp. exact Hg. }
    pose proof (fold_sim p mp sc (t_refc tp) (t_refc ts) Hs Hag cp' mp' Ef) as Hs'.
    destruct (sprune_fold p (t_refc ts) sc) as [cs' sc'] eqn:Esf. cbn [fst snd] in Hs'.
    eexists. split; [reflexivity|].
    exists mp', sc'. cbn [t_db t_root t_prune t_pending t_refc].
    split; [reflexivity|]. split; [reflexivity|]. split; [exact Hr1|]. split; [exact Hr2|]. split; [exact Hr3|exact Hs'].
  Qed.

  Lemma brel_with_pending tp ts pd : brel tp ts -> brel (with_pending tp pd) (with_pending ts pd).
  Proof.
    intro Hr. apply (brel_fields tp ts (fun t => with_pending t pd) (fun t => with_pending t pd));
      try reflexivity; try exact Hr; cbn [with_pending t_root t_prune].
    - apply (brel_root _ _ Hr).
    - apply (brel_prune _ _ Hr).
  Qed.

  (* with self._prune_on_success(): body, on a pruning trie *)
  Lemma sim_at_pos (body : M unit) tp ts :
    brel tp ts -> t_prune tp = true ->
    sim_at (with_pending tp (Some [])) (with_pending ts (Some [])) body body ->
    (forall u t2, body (with_pending tp (Some [])) = (Ok u, t2) -> loop_pre t2) ->
    sim_at tp ts (_prune_on_success body) (_prune_on_success body).
  Proof.
    intros Hr Hpr Hb Hpre a tp' E. unfold _prune_on_success in E |- *.
    rewrite (brel_prune _ _ Hr). rewrite Hpr in E |- *.
    destruct (body (with_pending tp (Some []))) as [[u|e] t2p] eqn:Eb; [|discriminate E].
    destruct (Hb u t2p Eb) as (t2s & Es & Hr2). rewrite Es.
    rewrite (brel_prune _ _ Hr2). destruct (t_prune t2p).
    - unfold _complete_pruning, bind, getst in E |- *. rewrite (brel_pending _ _ Hr2).
      destruct (t_pending t2p) as [p|]; [|discriminate E].
      destruct (complete_pruning_loop p t2p) as [r t3p] eqn:El. injection E as -> <-.
      destruct (sim_at_loop p t2p t2s Hr2 (Hpre u t2p eq_refl) a t3p El) as (t3s & Els & Hr3).
      rewrite Els. eexists. split; [reflexivity|]. apply brel_with_pending. exact Hr3.
    - injection E as <- <-. eexists. split; [reflexivity|]. apply brel_with_pending. exact Hr2.
  Qed.

  (* ---------------- one API write ---------------- *)
  (* the keys of a plain store and the root are kept by everything before _set_root_node *)
  Definition Rmono (t t' : trie) : Prop :=
    t_root t' = t_root t /\ forall k, pmem t k = true -> pmem t' k = true.

  Lemma Rmono_refl t : Rmono t t.
  Proof. split; [reflexivity|tauto]. Qed.

  Lemma Rmono_trans a b c : Rmono a b -> Rmono b c -> Rmono a c.
  Proof. intros [H1 H2] [H3 H4]. split; [congruence|]. intros k Hk. apply H4, H2, Hk. Qed.

  Lemma Rmono_sdv k v : D_safety.mrel Rmono (_set_db_value k v).
  Proof.
    intro t. unfold _set_db_value, bind, db_set, getst, putst, ret, Rmono, pmem.
    destruct (t_db t) as [s|sc] eqn:Ed.
    - destruct (store_set s k v) as [s'|e] eqn:Es; cbn [snd].
      + destruct (t_prune (with_db t (DPlain s'))); cbn [snd with_refc with_db t_db t_root];
          (split; [reflexivity|]); intros h Hh; rewrite (D_safety.store_set_cells _ _ _ _ Es), amem_aset, Hh;
          apply orb_true_r.
      + rewrite Ed. split; [reflexivity|tauto].
    - cbn [snd]. destruct (t_prune (with_db t (DScratch (sset sc k v)))); cbn [snd with_refc with_db t_db t_root];
        (split; [reflexivity|]); intros h Hh; discriminate Hh.
  Qed.

  Lemma Rmono_pinc k : D_safety.mrel Rmono (pending_inc k).
  Proof.
    intro t. unfold pending_inc, bind, getst, putst, fail, Rmono, pmem.
    destruct (t_pending t); cbn [snd with_pending t_db t_root]; split; try reflexivity; tauto.
  Qed.

  Lemma root_in_mono t t' : Rmono t t' -> root_in t -> root_in t'.
  Proof.
    intros [Hr Hk] [Hb|Hm]; unfold root_in; rewrite Hr; [left; exact Hb|right; apply Hk; exact Hm].
  Qed.

  Definition wbody (w : wop) : M unit :=
    match w with
    | (k, Some v) => D_safety.set_body H BNH k v
    | (k, None) => D_safety.delete_body H BNH k
    end.

  Lemma dwrite_unfold w : dwrite H BNH w = _prune_on_success (wbody w).
  Proof. destruct w as [k [v|]]; reflexivity. Qed.

  Lemma sim_at_wbody w tp ts : brel tp ts -> root_in tp -> sim_at tp ts (wbody w) (wbody w).
  Proof.
    intros Hr Hroot. destruct w as [k [v|]]; cbn [wbody]; unfold D_safety.set_body, D_safety.delete_body;
      (apply sim_at_body; [exact Hr| |]).
    - apply sim_set_inner.
    - intros a tp1 E. apply (root_in_mono tp); [|exact Hroot].
      exact (D_safety.mrel_run _ _ _ _ _
               (D_safety.mrel_set_inner H BNH Rmono Rmono_refl Rmono_trans (fun enc => Rmono_sdv (H enc) enc) Rmono_pinc k v) E).
    - apply sim_delete_inner.
    - intros a tp1 E. apply (root_in_mono tp); [|exact Hroot].
      exact (D_safety.mrel_run _ _ _ _ _
               (D_safety.mrel_delete_inner H BNH Rmono Rmono_refl Rmono_trans (fun enc => Rmono_sdv (H enc) enc) Rmono_pinc k) E).
  Qed.

  Lemma root_in_with_pending t pd : root_in t -> root_in (with_pending t pd).
  Proof. intro Hx. exact Hx. Qed.

  Theorem sim_at_dwrite w tp ts :
    brel tp ts -> t_prune tp = true -> root_in tp ->
    (forall u t2, wbody w (with_pending tp (Some [])) = (Ok u, t2) -> loop_pre t2) ->
    sim_at tp ts (dwrite H BNH w) (dwrite H BNH w).
  Proof.
    intros Hr Hpr Hroot Hpre. rewrite dwrite_unfold. apply sim_at_pos; [exact Hr|exact Hpr| |exact Hpre].
    apply sim_at_wbody; [apply brel_with_pending; exact Hr|apply root_in_with_pending; exact Hroot].
  Qed.
End Sim.

(* ================================================================== *)
(* 2. A batch over the pruning machine of Refine_write_prune *)
Section Batch.
  Variable H : bytes -> bytes.
  Variable BNH : bytes.
  Hypothesis H_len : forall x, length (H x) = 32%nat.
  Hypothesis BNH_def : BNH = H (rlp_encode (RStr [])).
  Variable SB : list bytes.
  Hypothesis cfS : cf H SB.

  Notation good := (good H BNH).
  Notation within := (within H SB).
  Notation inS := (inS H SB).
  Notation inS_top := (inS_top H SB).
  Notation inj_ok := (inj_ok H SB).
  Notation pinv := (pinv H SB).
  Notation pstate := (pstate H).
  Notation cntA := (cntA H).
  Notation cntP := (cntP H).

  (* write_refines_ps, with the state at the end of the body (before _complete_pruning) exposed *)
  Lemma write_ps_expose m rc t w :
    pinv m rc t -> canonical_top t = true -> decodable H t -> no_blank_collision H BNH t -> inS t ->
    (forall x, In x (op_writes t (top_of w)) -> inj_ok x) ->
    inS_top (tapply t (top_of w)) ->
    exists m1 rc1 p1 m' rc',
      wbody H BNH w (ps (troot H t) rc [] m) = (Ok tt, ps (troot H (tapply t (top_of w))) rc1 p1 m1) /\
      within m1 /\
      dwrite H BNH w (pstate m rc t) = (Ok tt, pstate m' rc' (tapply t (top_of w))) /\
      pinv m' rc' (tapply t (top_of w)).
  Proof.
    intros Hpinv Hc Hd Hn Hin Hdw Htop.
    pose proof Hpinv as (Hrep & Hw & _).
    pose proof (Tree_traverse_proofs.canonical_wf _ Hc) as Hwf.
    assert (Hgood : good m t) by (apply good_intro; [apply Hrep|exact Hd|apply Hn]).
    assert (Hdel : forall key, (forall x, In x (dwrites t (bytes_to_nibbles key)) -> inj_ok x) ->
              wpq H SB m rc [] (tdelete t (bytes_to_nibbles key))
                (fun h => (cntP h (tdelete t (bytes_to_nibbles key)) - cntA h t)%Z) (troot H t)
                (bind getst (fun s => bind (get_node BNH (RStr (t_root s))) (fun root =>
                   _delete H BNH (write_fuel key) root (bytes_to_nibbles key))) (ps (troot H t) rc [] m))).
    { intros key Hdwk. rewrite bind_getst. cbn [t_root ps].
      rewrite (bind_ok _ _ _ _ _ (get_root_ps H BNH H_len BNH_def m _ t rc [] Hrep Hd Hn)).
      apply (_delete_refines_ps H BNH H_len SB cfS); try assumption.
      - apply bytes_to_nibbles_ok.
      - unfold write_fuel. rewrite length_bytes_to_nibbles. lia. }
    destruct w as [k [[|v0 v']|]]; cbn [dwrite top_of tapply op_writes wbody] in *.
    - destruct (body_ps H BNH H_len BNH_def SB cfS (D_safety.set_inner H BNH k []) k m rc t (tdelete t (bytes_to_nibbles k)))
        as (m1 & rc1 & p1 & Eb & Hs1 & Hw1 & Hrep1 & Hd1); try assumption.
      + apply wf_tdelete; [exact Hwf|apply bytes_to_nibbles_ok].
      + apply (Hdel k Hdw).
      + destruct (op_ps H SB (D_safety.set_body H BNH k []) m rc t _ m1 rc1 p1 Hpinv (bk_set_body H BNH k []) Eb Hw1 Hrep1 Hd1)
          as (m' & rc' & E & Hp').
        exists m1, rc1, p1, m', rc'. split; [exact Eb|]. split; [exact Hw1|]. split; [exact E|exact Hp'].
    - destruct (body_ps H BNH H_len BNH_def SB cfS (D_safety.set_inner H BNH k (v0 :: v')) k m rc t (tset t (bytes_to_nibbles k) (v0 :: v')))
        as (m1 & rc1 & p1 & Eb & Hs1 & Hw1 & Hrep1 & Hd1); try assumption.
      + apply wf_tset; [exact Hwf|apply bytes_to_nibbles_ok].
      + unfold D_safety.set_inner. rewrite bind_getst. cbn [t_root ps].
        rewrite (bind_ok _ _ _ _ _ (get_root_ps H BNH H_len BNH_def m _ t rc [] Hrep Hd Hn)).
        apply (_set_refines_ps H BNH H_len SB cfS); try assumption.
        * apply canonical_top_ext_ok; exact Hc.
        * apply bytes_to_nibbles_ok.
        * unfold write_fuel. rewrite length_bytes_to_nibbles. lia.
        * apply Htop.
      + destruct (op_ps H SB (D_safety.set_body H BNH k (v0 :: v')) m rc t _ m1 rc1 p1 Hpinv (bk_set_body H BNH k (v0 :: v')) Eb Hw1 Hrep1 Hd1)
          as (m' & rc' & E & Hp').
        exists m1, rc1, p1, m', rc'. split; [exact Eb|]. split; [exact Hw1|]. split; [exact E|exact Hp'].
    - destruct (body_ps H BNH H_len BNH_def SB cfS (D_safety.delete_inner H BNH k) k m rc t (tdelete t (bytes_to_nibbles k)))
        as (m1 & rc1 & p1 & Eb & Hs1 & Hw1 & Hrep1 & Hd1); try assumption.
      + apply wf_tdelete; [exact Hwf|apply bytes_to_nibbles_ok].
      + apply (Hdel k Hdw).
      + destruct (op_ps H SB (D_safety.delete_body H BNH k) m rc t _ m1 rc1 p1 Hpinv (bk_delete_body H BNH k) Eb Hw1 Hrep1 Hd1)
          as (m' & rc' & E & Hp').
        exists m1, rc1, p1, m', rc'. split; [exact Eb|]. split; [exact Hw1|]. split; [exact E|exact Hp'].
  Qed.

  Lemma troot_blank : troot H NBlank = BNH.
  Proof. rewrite BNH_def. reflexivity. Qed.

  Lemma root_in_pstate m rc t : represents H m (troot H t) t -> root_in BNH (pstate m rc t).
  Proof.
    intros (_ & [Hb|Hg] & _).
    - left. subst t. cbn [t_root Refine_write_prune.pstate]. rewrite troot_blank. apply bytes_eqb_refl.
    - right. unfold pmem. cbn [t_db t_root Refine_write_prune.pstate store_of cells]. unfold amem. rewrite Hg. reflexivity.
  Qed.

  Section Inner.
    (* the batch trie: undercounting allowed on D, a subset of the keys of the wrapped store W *)
    Variable D : bytes -> bool.
    Variable W : store.
    Hypothesis D_sub : forall k, D k = true -> amem (cells W) k = true.
    Hypothesis W_within : within (cells W).

    Lemma loop_pre_within r rc pd m1 : within m1 -> loop_pre D W (ps r rc pd m1).
    Proof.
      intros Hw1 k v Hd Hg. unfold pcell in Hg. cbn [t_db ps store_of cells] in Hg.
      specialize (D_sub k Hd). unfold amem in D_sub.
      destruct (aget (cells W) k) as [v0|] eqn:E0; [|discriminate D_sub].
      destruct (Hw1 k v Hg) as [Hk Hv]. destruct (W_within k v0 E0) as [Hk0 Hv0].
      f_equal. apply cfS; [exact Hv0|exact Hv|congruence].
    Qed.

    (* one write inside the block *)
    Lemma batch_step m rc t w ts :
      pinv m rc t -> canonical_top t = true -> decodable H t -> no_blank_collision H BNH t -> inS t ->
      (forall x, In x (op_writes t (top_of w)) -> inj_ok x) ->
      inS_top (tapply t (top_of w)) ->
      brel D W (pstate m rc t) ts ->
      exists m' rc' ts',
        dwrite H BNH w ts = (Ok tt, ts') /\
        brel D W (pstate m' rc' (tapply t (top_of w))) ts' /\
        pinv m' rc' (tapply t (top_of w)).
    Proof.
      intros Hpinv Hc Hd Hn Hin Hdw Htop Hr.
      destruct (write_ps_expose m rc t w Hpinv Hc Hd Hn Hin Hdw Htop)
        as (m1 & rc1 & p1 & m' & rc' & Eb & Hw1 & E & Hp').
      destruct (sim_at_dwrite H BNH D W w (pstate m rc t) ts Hr eq_refl) with (a := tt) (tp' := pstate m' rc' (tapply t (top_of w)))
        as (ts' & Es & Hr').
      - apply root_in_pstate. apply Hpinv.
      - intros u t2 E2. change (with_pending (pstate m rc t) (Some [])) with (ps (troot H t) rc [] m) in E2.
        rewrite Eb in E2. injection E2 as _ <-. apply loop_pre_within. exact Hw1.
      - exact E.
      - exists m', rc', ts'. split; [exact Es|]. split; [exact Hr'|exact Hp'].
    Qed.

    (* reads inside the block see the tree of the writes made so far *)
    Lemma inner_get m rc t ts k :
      pinv m rc t -> canonical_top t = true -> decodable H t -> no_blank_collision H BNH t ->
      brel D W (pstate m rc t) ts ->
      fst (get BNH k ts) = Ok (tget t (bytes_to_nibbles k)).
    Proof.
      intros Hpinv Hc Hd Hn Hr. destruct Hpinv as (Hrep & _).
      pose proof (C01_lookup_total_D H BNH H_len BNH_def m _ t Hrep
                    (Tree_traverse_proofs.canonical_wf _ Hc) (canonical_top_ext_ok _ Hc) Hd Hn k) as Hg.
      rewrite (get_eq BNH m k (plain m (troot H t)) (on_plain m _)) in Hg. cbn [fst t_root plain] in Hg.
      assert (Ep : get BNH k (pstate m rc t) = (Ok (tget t (bytes_to_nibbles k)), pstate m rc t)).
      { rewrite (get_eq BNH m k (pstate m rc t) eq_refl). cbn [t_root Refine_write_prune.pstate]. rewrite Hg. reflexivity. }
      destruct (sim_get BNH D W k (pstate m rc t) ts Hr _ _ Ep) as (ts' & Es & _). rewrite Es. reflexivity.
    Qed.

    (* the whole block *)
    Lemma batch_run (HSB : In (rlp_encode (RStr [])) SB) ws : forall t m rc ts,
      pinv m rc t -> canonical_top t = true -> decodable H t ->
      no_blank_collision H BNH t -> inS t ->
      incl (flat_map (tree_bodies H) (hist_trees t (map top_of ws))) SB ->
      Forall (decodable H) (hist_trees t (map top_of ws)) ->
      brel D W (pstate m rc t) ts ->
      exists m' rc' ts',
        wrun H BNH ws ts = (map (fun _ => Ok tt) ws, ts') /\
        brel D W (pstate m' rc' (fold_left tapply (map top_of ws) t)) ts' /\
        pinv m' rc' (fold_left tapply (map top_of ws) t) /\
        canonical_top (fold_left tapply (map top_of ws) t) = true /\
        decodable H (fold_left tapply (map top_of ws) t) /\
        no_blank_collision H BNH (fold_left tapply (map top_of ws) t) /\
        inS (fold_left tapply (map top_of ws) t).
    Proof.
      induction ws as [|w ws IH]; intros t m rc ts Hpinv Hc Hd Hn Hin Hincl Hdec Hr.
      - exists m, rc, ts. cbn [wrun map fold_left]. repeat (split; [first [reflexivity|assumption]|]). exact Hin.
      - cbn [map hist_trees] in Hincl, Hdec. rewrite flat_map_app in Hincl. rewrite Forall_app in Hdec.
        destruct Hdec as [Hdec1 Hdec2].
        apply incl_app_inv in Hincl as [Hincl1 Hincl2]. cbn [flat_map] in Hincl1.
        apply incl_app_inv in Hincl1 as [Hincl0 Hincl1].
        inversion Hdec1 as [|xa xl Hd1 Hdw Exa]; clear Hdec1.
        set (t1 := tapply t (top_of w)) in *.
        assert (Htop1 : inS_top t1) by (apply inS_top_of_incl; exact Hincl0).
        assert (Hc1 : canonical_top t1 = true).
        { apply Tree_canon.canonical_tapply; [exact Hc|]. exact (op_ok_top_of w). }
        assert (Hn1 : no_blank_collision H BNH t1).
        { apply (no_blank_collision_of_cf H BNH BNH_def); [apply (all_sub_here _ _ Hd1)|].
          apply (cf_incl H SB); [|exact cfS]. intros b [<-|Hb]; [exact HSB|apply Hincl0; exact Hb]. }
        assert (Hinj : forall x, In x (op_writes t (top_of w)) -> inj_ok x).
        { intros x Hx. split; [|split].
          - apply (op_writes_wf t w); [apply Tree_traverse_proofs.canonical_wf; exact Hc|exact Hx].
          - apply inS_top_of_incl. intros b Hb. apply Hincl1. apply in_flat_map. exists x. split; assumption.
          - rewrite Forall_forall in Hdw. apply Hdw. exact Hx. }
        destruct (batch_step m rc t w ts Hpinv Hc Hd Hn Hin Hinj Htop1 Hr) as (m1 & rc1 & ts1 & E1 & Hr1 & Hpinv1).
        destruct (IH t1 m1 rc1 ts1 Hpinv1 Hc1 Hd1 Hn1 (proj2 Htop1) Hincl2 Hdec2 Hr1)
          as (m2 & rc2 & ts2 & E2 & Hr2 & Hpinv2 & Hc2 & Hd2 & Hn2 & Hin2).
        exists m2, rc2, ts2. cbn [wrun map fold_left]. fold t1. rewrite E1. cbv beta iota. rewrite E2.
        split; [reflexivity|]. repeat (split; [assumption|]). exact Hin2.
    Qed.
  End Inner.

  (* ---------------- 2a. PRUNING outer trie: the batch trie starts with the exact counts ---------------- *)
  Definition Dnone : bytes -> bool := fun _ => false.

  Lemma brel_begin_ps m rc t :
    pinv m rc t -> brel Dnone (store_of m) (pstate m rc t) (batch_begin (pstate m rc t)).
  Proof.
    intros (_ & _ & Hcp & _). exists m, (scratch_new (store_of m)).
    cbn [batch_begin batch_base t_db t_root t_prune t_refc t_pending Refine_write_prune.pstate].
    repeat (split; [reflexivity|]). constructor.
    - reflexivity.
    - constructor.
    - exact Hcp.
    - intros k v Hg. discriminate Hg.
    - intros k v Hg. rewrite visg_new. exact Hg.
    - intro k. lia.
    - intros k _. reflexivity.
    - intros k _. reflexivity.
  Qed.

  Lemma pinv_ext m rc t m' rc' :
    pinv m rc t -> (forall k, aget m' k = aget m k) -> cpos rc' -> (forall k, zget rc' k = zget rc k) ->
    pinv m' rc' t.
  Proof.
    intros (Hrep & Hw & _ & Hrc & Hsup) Hm Hcp Hz. split; [|split; [|split; [exact Hcp|split]]].
    - apply (represents_mono H m m'); [|exact Hrep]. intros h b Hg. rewrite Hm. exact Hg.
    - intros h b Hg. rewrite Hm in Hg. exact (Hw h b Hg).
    - intro h. rewrite Hz. apply Hrc.
    - intro h. unfold amem. rewrite Hm. apply Hsup.
  Qed.

  Lemma store_eta w : budget w = None -> w = store_of (cells w).
  Proof. destruct w as [c b]. cbn. intros ->. reflexivity. Qed.

  (* C05 commit clause and C06 for a batch on a pruning trie: after the with-block the outer trie is
     again in an exact state (database = exactly the nodes of the new tree, counts = occurrences) *)
  Theorem batch_commit_ps (HSB : In (rlp_encode (RStr [])) SB) ws t m rc :
    pinv m rc t -> canonical_top t = true -> decodable H t ->
    no_blank_collision H BNH t -> inS t ->
    incl (flat_map (tree_bodies H) (hist_trees t (map top_of ws))) SB ->
    Forall (decodable H) (hist_trees t (map top_of ws)) ->
    let t' := fold_left tapply (map top_of ws) t in
    exists inner m' rc',
      wrun H BNH ws (batch_begin (pstate m rc t)) = (map (fun _ => Ok tt) ws, inner) /\
      batch_commit H BNH (pstate m rc t) inner = (Ok tt, pstate m' rc' t') /\
      pinv m' rc' t' /\ canonical_top t' = true /\ decodable H t' /\ no_blank_collision H BNH t' /\ inS t'.
  Proof.
    intros Hpinv Hc Hd Hn Hin Hincl Hdec t'.
    assert (HDs : forall k, Dnone k = true -> amem (cells (store_of m)) k = true) by (intros k Hk; discriminate Hk).
    assert (HWw : within (cells (store_of m))) by apply Hpinv.
    destruct (batch_run Dnone (store_of m) HDs HWw HSB ws t m rc (batch_begin (pstate m rc t))
                Hpinv Hc Hd Hn Hin Hincl Hdec (brel_begin_ps m rc t Hpinv))
      as (mn & rcn & inner & Erun & Hr & Hpn & Hcn & Hdn & Hnn & Hinn).
    - fold t' in Erun, Hr, Hpn, Hcn, Hdn, Hnn, Hinn.
      destruct Hr as (mp & sc & Hdp & Hds & Hr1 & Hr2 & Hr3 & Hs).
      cbn [t_db Refine_write_prune.pstate] in Hdp. injection Hdp as <-.
      cbn [t_root t_refc Refine_write_prune.pstate] in Hr1, Hs.
      destruct (scommit_views true sc) as (w' & Ec & Hb' & Hg).
      { rewrite (sr_wrapped _ _ _ _ _ _ Hs). reflexivity. }
      { exact (sr_nodup _ _ _ _ _ _ Hs). }
      exists inner, (cells w'), (t_refc inner). split; [exact Erun|]. split.
      + unfold batch_commit, commit_db, inner_scratch. cbn [t_db t_prune Refine_write_prune.pstate]. rewrite Hds. rewrite Ec.
        cbn [t_prune Refine_write_prune.pstate with_db with_refc with_root t_db t_root t_refc t_pending wrapped].
        rewrite Hr1. rewrite (store_eta w' Hb') at 1. reflexivity.
      + split; [|repeat (split; [assumption|]); exact Hinn].
        apply (pinv_ext mn rcn); [exact Hpn| |exact (sr_cpos _ _ _ _ _ _ Hs)|].
        * intro k. rewrite (Hg k). symmetry. apply (sr_I4 _ _ _ _ _ _ Hs). reflexivity.
        * intro k. apply (sr_I3e _ _ _ _ _ _ Hs). reflexivity.
  Qed.

  (* ---------------- 2b. NON-PRUNING outer trie: the batch trie starts with EMPTY counts ---------------- *)
  (* every key with a positive occurrence count is stored *)
  Lemma hit_stored m t h : stored_here H m t -> (0 < hit H h t)%Z -> amem m h = true.
  Proof.
    intros Hs. unfold hit. destruct (Nat.ltb (length (ebody H t)) 32) eqn:El; cbn [negb andb]; [lia|].
    destruct (bytes_eqb h (H (ebody H t))) eqn:E; [|lia]. intros _.
    apply bytes_eqb_eq in E. subst h. unfold amem. rewrite (Hs El). reflexivity.
  Qed.

  Lemma cntA_stored m t h : stored H m t -> (0 < cntA h t)%Z -> amem m h = true.
  Proof.
    unfold stored. induction t as [| p v | p c IH | cs v IH] using node_ind'; intros Hs Hpos.
    - rewrite cntA_blank in Hpos. lia.
    - rewrite cntA_leaf in Hpos. apply (hit_stored m (NLeaf p v)); [apply (all_sub_here _ _ Hs)|exact Hpos].
    - rewrite cntA_ext in Hpos. apply all_sub_ext in Hs. destruct Hs as [Hh Hc].
      destruct (Z_lt_le_dec 0 (hit H h (NExt p c))) as [Hp|Hp]; [apply (hit_stored m (NExt p c)); assumption|].
      apply IH; [exact Hc|lia].
    - rewrite cntA_branch in Hpos. apply all_sub_branch in Hs. destruct Hs as [Hh Hc].
      destruct (Z_lt_le_dec 0 (hit H h (NBranch cs v))) as [Hp|Hp]; [apply (hit_stored m (NBranch cs v)); assumption|].
      assert (Hsum : (0 < sumA H h cs)%Z) by lia. clear Hpos Hp Hh.
      induction IH as [|c cs IHc _ IHcs]; cbn [Refine_write_prune.sumA] in Hsum; [lia|].
      inversion Hc as [|? ? Hc1 Hc2]; subst.
      destruct (Z_lt_le_dec 0 (cntA h c)) as [Hp|Hp]; [apply IHc; assumption|].
      apply IHcs; [exact Hc2|lia].
  Qed.

  Lemma occR_stored m t h : represents H m (troot H t) t -> (0 < occR H t h)%Z -> amem m h = true.
  Proof.
    intros (_ & Hroot & Hst) Hpos. rewrite occR_eq in Hpos.
    destruct (Z_lt_le_dec 0 (cntP h t)) as [Hp|Hp].
    - apply (cntA_stored m t); [exact Hst|]. rewrite (cntA_P H h t). pose proof (hit_range H h t). lia.
    - unfold rootbit in Hpos. destruct (is_nblank t) eqn:Eb; [lia|].
      destruct (bytes_eqb h (troot H t)) eqn:E; [|lia]. apply bytes_eqb_eq in E. subst h.
      destruct Hroot as [Hx|Hg]; [subst t; discriminate Eb|]. unfold amem. rewrite Hg. reflexivity.
  Qed.

  Lemma aget_filter_key {V} (f : bytes -> bool) (m : amap V) k :
    aget (filter (fun e => f (fst e)) m) k = if f k then aget m k else None.
  Proof.
    induction m as [|[k0 v0] m IH]; [destruct (f k); reflexivity|].
    cbn [filter fst]. destruct (f k0) eqn:E0; cbn [aget]; destruct (bytes_eqb k k0) eqn:E.
    - apply bytes_eqb_eq in E. subst k0. rewrite E0. reflexivity.
    - exact IH.
    - apply bytes_eqb_eq in E. subst k0. rewrite IH, E0. reflexivity.
    - exact IH.
  Qed.

  Lemma aget_map_keys (g : bytes -> Z) l k :
    aget (map (fun x => (x, g x)) l) k = if existsb (bytes_eqb k) l then Some (g k) else None.
  Proof.
    induction l as [|x l IH]; [reflexivity|]. cbn [map aget existsb].
    destruct (bytes_eqb k x) eqn:E; cbn [orb]; [|exact IH]. apply bytes_eqb_eq in E. subst x. reflexivity.
  Qed.

  Lemma existsb_filter (f : bytes -> bool) l k :
    existsb (bytes_eqb k) (filter f l) = f k && existsb (bytes_eqb k) l.
  Proof.
    induction l as [|x l IH]; [rewrite andb_false_r; reflexivity|]. cbn [filter existsb].
    destruct (f x) eqn:Ex; cbn [existsb]; rewrite IH.
    - destruct (bytes_eqb k x) eqn:E; cbn [orb]; [|reflexivity]. apply bytes_eqb_eq in E. subst x. rewrite Ex. reflexivity.
    - destruct (bytes_eqb k x) eqn:E; cbn [orb]; [|reflexivity]. apply bytes_eqb_eq in E. subst x. rewrite Ex. reflexivity.
  Qed.

  Lemma existsb_akeys {V} (m : amap V) k : existsb (bytes_eqb k) (akeys m) = amem m k.
  Proof.
    unfold amem. induction m as [|[k0 v0] m IH]; [reflexivity|]. cbn [akeys map fst existsb aget].
    destruct (bytes_eqb k k0); [reflexivity|exact IH].
  Qed.

  (* the exact state of a tree, carved out of any store that represents it *)
  Definition exact_store (m : amap bytes) (t : node) : amap bytes :=
    filter (fun e => (0 <? occR H t (fst e))%Z) m.
  Definition exact_counts (m : amap bytes) (t : node) : amap Z :=
    map (fun k => (k, occR H t k)) (filter (fun k => (0 <? occR H t k)%Z) (akeys m)).

  Lemma aget_exact_store m t k :
    aget (exact_store m t) k = if (0 <? occR H t k)%Z then aget m k else None.
  Proof. exact (aget_filter_key (fun k => (0 <? occR H t k)%Z) m k). Qed.

  Lemma zget_exact_counts m t h :
    represents H m (troot H t) t -> zget (exact_counts m t) h = occR H t h.
  Proof.
    intro Hrep. unfold zget, exact_counts. rewrite aget_map_keys, existsb_filter, existsb_akeys.
    pose proof (occR_nonneg H t h) as Hnn.
    destruct (0 <? occR H t h)%Z eqn:E; cbn [andb]; [|lia].
    rewrite (occR_stored m t h Hrep) by lia. reflexivity.
  Qed.

  Lemma pinv_exact m t :
    represents H m (troot H t) t -> within m -> pinv (exact_store m t) (exact_counts m t) t.
  Proof.
    intros Hrep Hw. split; [|split; [|split; [|split]]].
    - apply (represents_keep H m); [exact Hrep|]. intros h b Hg Hpos.
      rewrite aget_exact_store. destruct (0 <? occR H t h)%Z eqn:E; [exact Hg|lia].
    - intros h b Hg. rewrite aget_exact_store in Hg.
      destruct (0 <? occR H t h)%Z; [exact (Hw h b Hg)|discriminate Hg].
    - intros h z Hg. unfold exact_counts in Hg. rewrite aget_map_keys, existsb_filter in Hg.
      destruct (0 <? occR H t h)%Z eqn:E; cbn [andb] in Hg; [|discriminate Hg].
      destruct (existsb (bytes_eqb h) (akeys m)); [|discriminate Hg]. injection Hg as <-. lia.
    - intro h. apply zget_exact_counts. exact Hrep.
    - intro h. unfold amem. rewrite aget_exact_store.
      destruct (0 <? occR H t h)%Z eqn:E.
      + split; [intros _; lia|]. intros _. pose proof (occR_stored m t h Hrep ltac:(lia)) as Hm.
        unfold amem in Hm. exact Hm.
      + split; [discriminate|lia].
  Qed.

  Definition Dkeys (m : amap bytes) : bytes -> bool := fun k => amem m k.

  Lemma brel_begin_np m t :
    represents H m (troot H t) t ->
    brel (Dkeys m) (store_of m) (pstate (exact_store m t) (exact_counts m t) t) (batch_begin (plain m (troot H t))).
  Proof.
    intro Hrep. exists (exact_store m t), (scratch_new (store_of m)).
    cbn [batch_begin batch_base t_db t_root t_prune t_refc t_pending Refine_write_prune.pstate plain].
    repeat (split; [reflexivity|]). constructor.
    - reflexivity.
    - constructor.
    - intros h z Hg. discriminate Hg.
    - intros k v Hg. discriminate Hg.
    - intros k v Hg. rewrite visg_new. cbn [store_of cells].
      rewrite aget_exact_store in Hg. destruct (0 <? occR H t k)%Z; [exact Hg|discriminate Hg].
    - intro k. rewrite (zget_exact_counts m t k Hrep). cbn. apply occR_nonneg.
    - intros k Hd. rewrite (zget_exact_counts m t k Hrep). cbn [zget aget].
      pose proof (occR_nonneg H t k) as Hnn.
      destruct (Z_lt_le_dec 0 (occR H t k)) as [Hp|Hp]; [|lia].
      unfold Dkeys in Hd. rewrite (occR_stored m t k Hrep Hp) in Hd. discriminate Hd.
    - intros k Hd. rewrite cview_new. cbn [store_of cells]. unfold Dkeys, amem in Hd.
      rewrite aget_exact_store.
      destruct (aget m k); [discriminate Hd|]. destruct (0 <? occR H t k)%Z; reflexivity.
  Qed.

  Lemma inS_top_of_represents m t : represents H m (troot H t) t -> within m -> inS t -> inS_top t.
  Proof.
    intros (_ & [Hb|Hg] & _) Hw Hin; (split; [|exact Hin]); intro Hnb; [contradiction|].
    exact (proj2 (Hw _ _ Hg)).
  Qed.

  (* C05 commit clause for a batch on a NON-PRUNING trie.  The block's writes all succeed, the
     commit succeeds, the new state represents the new tree, nothing that was in the database is
     removed or changed, and every key the commit ADDS is a node of the FINAL tree (positive
     occurrence count): nodes that served only intermediate states of the block are not added. *)
  Theorem batch_commit_np (HSB : In (rlp_encode (RStr [])) SB) ws t m :
    represents H m (troot H t) t -> within m ->
    canonical_top t = true -> decodable H t -> no_blank_collision H BNH t -> inS t ->
    incl (flat_map (tree_bodies H) (hist_trees t (map top_of ws))) SB ->
    Forall (decodable H) (hist_trees t (map top_of ws)) ->
    let t' := fold_left tapply (map top_of ws) t in
    exists inner m',
      wrun H BNH ws (batch_begin (plain m (troot H t))) = (map (fun _ => Ok tt) ws, inner) /\
      batch_commit H BNH (plain m (troot H t)) inner = (Ok tt, plain m' (troot H t')) /\
      represents H m' (troot H t') t' /\ within m' /\ sub_store m m' /\
      (forall k, amem m' k = true -> amem m k = false -> (0 < occR H t' k)%Z) /\
      canonical_top t' = true /\ decodable H t' /\ no_blank_collision H BNH t' /\ inS t'.
  Proof.
    intros Hrep Hw Hc Hd Hn Hin Hincl Hdec t'.
    assert (HDs : forall k, Dkeys m k = true -> amem (cells (store_of m)) k = true) by (intros k Hk; exact Hk).
    destruct (batch_run (Dkeys m) (store_of m) HDs Hw HSB ws t (exact_store m t) (exact_counts m t)
                (batch_begin (plain m (troot H t)))
                (pinv_exact m t Hrep Hw) Hc Hd Hn Hin Hincl Hdec (brel_begin_np m t Hrep))
      as (mn & rcn & inner & Erun & Hr & Hpn & Hcn & Hdn & Hnn & Hinn).
    fold t' in Erun, Hr, Hpn, Hcn, Hdn, Hnn, Hinn.
    destruct Hr as (mp & sc & Hdp & Hds & Hr1 & Hr2 & Hr3 & Hs).
    cbn [t_db Refine_write_prune.pstate] in Hdp. injection Hdp as <-.
    cbn [t_root t_refc Refine_write_prune.pstate] in Hr1, Hs.
    destruct Hpn as (Hrepn & Hwn & _ & _ & Hsupn).
    destruct (scommit_views false sc) as (w' & Ec & Hb' & Hg).
    { rewrite (sr_wrapped _ _ _ _ _ _ Hs). reflexivity. }
    { exact (sr_nodup _ _ _ _ _ _ Hs). }
    set (m1 := cells w').
    assert (Hg1 : forall k, aget m1 k = visg sc k) by exact Hg.
    assert (Hsubn : sub_store mn m1).
    { intros h b Hgn. rewrite Hg1. exact (sr_I2 _ _ _ _ _ _ Hs h b Hgn). }
    assert (Hwrap : forall k, aget (cells (wrapped sc)) k = aget m k).
    { intro k. rewrite (sr_wrapped _ _ _ _ _ _ Hs). reflexivity. }
    assert (Hcases : forall k v, aget m1 k = Some v -> aget m k = Some v \/ aget mn k = Some v).
    { intros k v Hk. rewrite Hg1 in Hk. unfold visg in Hk.
      destruct (aget (cache sc) k) as [[x|]|] eqn:Eca.
      - right. injection Hk as <-. exact (sr_I1 _ _ _ _ _ _ Hs k x Eca).
      - left. rewrite <- Hwrap. exact Hk.
      - left. rewrite <- Hwrap. exact Hk. }
    assert (Hw1 : within m1).
    { intros k v Hk. destruct (Hcases k v Hk) as [Hx|Hx]; [exact (Hw k v Hx)|exact (Hwn k v Hx)]. }
    assert (Hsub1 : sub_store m m1).
    { intros k v Hk. rewrite Hg1. unfold visg.
      destruct (aget (cache sc) k) as [[x|]|] eqn:Eca; [|rewrite Hwrap; exact Hk|rewrite Hwrap; exact Hk].
      pose proof (sr_I1 _ _ _ _ _ _ Hs k x Eca) as Hx.
      destruct (Hw k v Hk) as [Hkv Hv]. destruct (Hwn k x Hx) as [Hkx Hxs].
      f_equal. apply cfS; [exact Hxs|exact Hv|congruence]. }
    assert (Hadd1 : forall k, amem m1 k = true -> amem m k = false -> (0 < occR H t' k)%Z).
    { intros k Hk1 Hk0. unfold amem in Hk1, Hk0. destruct (aget m1 k) as [v|] eqn:Ek; [|discriminate Hk1].
      destruct (Hcases k v Ek) as [Hx|Hx]; [rewrite Hx in Hk0; discriminate Hk0|].
      apply Hsupn. unfold amem. rewrite Hx. reflexivity. }
    assert (Hrep1 : represents H m1 (troot H t') t') by (apply (represents_mono H mn m1); assumption).
    assert (Hwf' : wf t' = true) by (apply Tree_traverse_proofs.canonical_wf; exact Hcn).
    assert (Hout1 : with_db (plain m (troot H t)) (DPlain (wrapped (mkScratch w' []))) = np (troot H t) [] None m1).
    { unfold with_db, np, plain. cbn [t_root t_prune t_refc t_pending wrapped]. rewrite (store_eta w' Hb') at 1. reflexivity. }
    exists inner. unfold batch_commit, commit_db, inner_scratch. cbn [t_db t_prune plain]. rewrite Hds. rewrite Ec, Hout1.
    cbn [t_root plain np]. rewrite Hr1.
    destruct (bytes_eqb (troot H t) (troot H t')) eqn:Er; cbn [negb].
    - (* the root did not change *)
      apply bytes_eqb_eq in Er. exists m1. split; [exact Erun|]. split; [rewrite Er; reflexivity|].
      repeat (split; [assumption|]). exact Hinn.
    - (* the root node is re-saved *)
      rewrite (get_node_np BNH _ (troot H t) [] None m1).
      rewrite (mt_handler_ok _ _ _ _ (root_raw_ok H BNH H_len BNH_def m1 _ t' Hrep1 Hdn Hnn)).
      rewrite (_set_raw_node_np H BNH H_len BNH_def t' (troot H t) [] None m1 Hwf').
      assert (Htop' : inS_top t') by (apply (inS_top_of_represents m1); assumption).
      destruct (root_store_spec H SB cfS m1 t' Hw1 Htop' (stored_sub_of H m1 t' (proj2 (proj2 Hrep1))))
        as (Hs2 & Hw2 & Hrep2).
      exists (root_store H m1 t'). split; [exact Erun|]. split; [reflexivity|].
      split; [exact Hrep2|]. split; [exact Hw2|]. split; [eapply sub_store_trans; eassumption|].
      split; [|repeat (split; [assumption|]); exact Hinn].
      intros k Hk1 Hk0. unfold root_store in Hk1. destruct (is_nblank t') eqn:Eb; [exact (Hadd1 k Hk1 Hk0)|].
      rewrite amem_aset in Hk1. destruct (bytes_eqb k (troot H t')) eqn:Ek; [|exact (Hadd1 k Hk1 Hk0)].
      rewrite occR_eq. unfold rootbit. rewrite Eb, Ek. pose proof (cntP_nonneg H k t'). lia.
  Qed.
End Batch.

(* ================================================================== *)
(* 4. Histories that mix direct writes and batches *)
Inductive hop := W (w : wop) | Batch (ws : list wop) (abort : bool).

(* the writes of a history that take effect *)
Fixpoint flat (hs : list hop) : list wop :=
  match hs with
  | [] => []
  | W w :: hs' => w :: flat hs'
  | Batch ws false :: hs' => ws ++ flat hs'
  | Batch _ true :: hs' => flat hs'
  end.

Definition all_ok (rs : list (result unit)) : bool :=
  forallb (fun r => match r with Ok _ => true | Err _ => false end) rs.

Lemma all_ok_map {A} (l : list A) : all_ok (map (fun _ => Ok tt) l) = true.
Proof. induction l as [|x l IH]; [reflexivity|exact IH]. Qed.

Lemma hist_trees_app t o1 : forall o2,
  hist_trees t (o1 ++ o2) = hist_trees t o1 ++ hist_trees (fold_left tapply o1 t) o2.
Proof.
  revert t. induction o1 as [|o o1 IH]; intros t o2; [reflexivity|].
  cbn [app hist_trees fold_left]. rewrite IH, app_assoc. reflexivity.
Qed.

Section Histories.
  Variable H : bytes -> bytes.
  Variable BNH : bytes.
  Hypothesis H_len : forall x, length (H x) = 32%nat.
  Hypothesis BNH_def : BNH = H (rlp_encode (RStr [])).

  (* [with trie.squash_changes() as b: <ws on b>; (raise, if abort)]: the block is left by an
     exception when one of its writes fails or when [abort] is set *)
  Definition hstep (h : hop) (s : trie) : result unit * trie :=
    match h with
    | W w => dwrite H BNH w s
    | Batch ws ab =>
        let '(rs, inner) := wrun H BNH ws (batch_begin s) in
        if all_ok rs && negb ab then batch_commit H BNH s inner
        else (Err EAbort, batch_abort s inner)
    end.

  Fixpoint hrun (hs : list hop) (s : trie) : list (result unit) * trie :=
    match hs with
    | [] => ([], s)
    | h :: hs' =>
        let '(r, s1) := hstep h s in
        let '(rs, s2) := hrun hs' s1 in (r :: rs, s2)
    end.

  Definition hexpect (h : hop) : result unit :=
    match h with Batch _ true => Err EAbort | _ => Ok tt end.

  Definition dop_of (w : wop) : D_safety.dop :=
    match w with (k, Some v) => D_safety.DSet k v | (k, None) => D_safety.DDelete k end.

  Lemma wrun_drun ws : forall s, snd (wrun H BNH ws s) = D_safety.drun H BNH (map dop_of ws) s.
  Proof.
    induction ws as [|w ws IH]; intro s; [reflexivity|].
    cbn [wrun map D_safety.drun]. destruct (dwrite H BNH w s) as [r s1] eqn:E1.
    specialize (IH s1). destruct (wrun H BNH ws s1) as [rs s2]. cbn [snd] in *. rewrite IH.
    f_equal. destruct w as [k [v|]]; cbn [dop_of D_safety.dstep dwrite] in *; rewrite E1; reflexivity.
  Qed.

  (* C05, abort clause, in the vocabulary of histories *)
  Lemma hstep_abort ws s st :
    t_db s = DPlain st -> hstep (Batch ws true) s = (Err EAbort, s).
  Proof.
    intro Hd. cbn [hstep]. destruct (wrun H BNH ws (batch_begin s)) as [rs inner] eqn:E.
    rewrite andb_false_r. f_equal.
    replace inner with (snd (wrun H BNH ws (batch_begin s))) by (rewrite E; reflexivity).
    rewrite wrun_drun. apply (D_safety.C05_abort_restores H BNH s st _ Hd).
  Qed.

  Section WithS.
    Variable SB : list bytes.
    Hypothesis cfS : cf H SB.
    Hypothesis HSB : In (rlp_encode (RStr [])) SB.

    Lemma hrun_refines_ps hs : forall t m rc,
      pinv H SB m rc t -> canonical_top t = true -> decodable H t ->
      no_blank_collision H BNH t -> inS H SB t ->
      incl (flat_map (tree_bodies H) (hist_trees t (map top_of (flat hs)))) SB ->
      Forall (decodable H) (hist_trees t (map top_of (flat hs))) ->
      exists m' rc',
        hrun hs (pstate H m rc t)
        = (map hexpect hs, pstate H m' rc' (fold_left tapply (map top_of (flat hs)) t)) /\
        pinv H SB m' rc' (fold_left tapply (map top_of (flat hs)) t) /\
        decodable H (fold_left tapply (map top_of (flat hs)) t) /\
        no_blank_collision H BNH (fold_left tapply (map top_of (flat hs)) t).
    Proof.
      induction hs as [|h hs IH]; intros t m rc Hpinv Hc Hd Hn Hin Hincl Hdec.
      - exists m, rc. cbn [hrun map flat fold_left]. split; [reflexivity|]. split; [exact Hpinv|]. split; assumption.
      - (* the writes of this hop that take effect *)
        set (ws := match h with W w => [w] | Batch ws false => ws | Batch _ true => [] end).
        assert (Hflat : flat (h :: hs) = ws ++ flat hs).
        { subst ws. destruct h as [w|ws0 [|]]; reflexivity. }
        rewrite Hflat in Hincl, Hdec |- *. rewrite map_app in Hincl, Hdec |- *.
        rewrite hist_trees_app in Hincl, Hdec. rewrite fold_left_app.
        rewrite flat_map_app in Hincl. apply incl_app_inv in Hincl as [Hincl1 Hincl2].
        rewrite Forall_app in Hdec. destruct Hdec as [Hdec1 Hdec2].
        destruct (batch_commit_ps H BNH H_len BNH_def SB cfS HSB ws t m rc Hpinv Hc Hd Hn Hin Hincl1 Hdec1)
          as (inner & m1 & rc1 & Erun & Ecommit & Hpinv1 & Hc1 & Hd1 & Hn1 & Hin1).
        set (t1 := fold_left tapply (map top_of ws) t) in *.
        assert (Estep : exists m1' rc1', hstep h (pstate H m rc t) = (hexpect h, pstate H m1' rc1' t1) /\ pinv H SB m1' rc1' t1).
        { subst ws. destruct h as [w|ws0 [|]].
          - (* a direct write *)
            destruct (run_refines_ps H BNH H_len BNH_def SB cfS HSB [w] t m rc Hpinv Hc Hd Hn Hin Hincl1 Hdec1)
              as (m1' & rc1' & E & Hp' & _).
            exists m1', rc1'. split; [|exact Hp']. cbn [wrun map] in E. cbn [hstep hexpect].
            destruct (dwrite H BNH w (pstate H m rc t)) as [r s1]. injection E as -> ->. reflexivity.
          - (* an aborted batch *)
            exists m, rc. split; [|exact Hpinv]. apply (hstep_abort ws0 _ (store_of m)). reflexivity.
          - (* a committed batch *)
            exists m1, rc1. split; [|exact Hpinv1]. cbn [hstep hexpect]. rewrite Erun, all_ok_map. exact Ecommit. }
        destruct Estep as (m1' & rc1' & Estep & Hpinv1').
        destruct (IH t1 m1' rc1' Hpinv1' Hc1 Hd1 Hn1 Hin1 Hincl2 Hdec2) as (m2 & rc2 & E2 & Hpinv2 & Hd2 & Hn2).
        exists m2, rc2. cbn [hrun map]. rewrite Estep, E2. split; [reflexivity|]. split; [exact Hpinv2|]. split; assumption.
    Qed.

    Lemma hrun_refines_np hs : forall t m,
      represents H m (troot H t) t -> within H SB m -> canonical_top t = true -> decodable H t ->
      no_blank_collision H BNH t -> inS H SB t ->
      incl (flat_map (tree_bodies H) (hist_trees t (map top_of (flat hs)))) SB ->
      Forall (decodable H) (hist_trees t (map top_of (flat hs))) ->
      exists m',
        hrun hs (plain m (troot H t))
        = (map hexpect hs, plain m' (troot H (fold_left tapply (map top_of (flat hs)) t))) /\
        sub_store m m' /\ within H SB m' /\
        represents H m' (troot H (fold_left tapply (map top_of (flat hs)) t))
                   (fold_left tapply (map top_of (flat hs)) t) /\
        decodable H (fold_left tapply (map top_of (flat hs)) t) /\
        no_blank_collision H BNH (fold_left tapply (map top_of (flat hs)) t).
    Proof.
      induction hs as [|h hs IH]; intros t m Hrep Hw Hc Hd Hn Hin Hincl Hdec.
      - exists m. cbn [hrun map flat fold_left]. split; [reflexivity|]. split; [apply sub_store_refl|].
        split; [exact Hw|]. split; [exact Hrep|]. split; assumption.
      - set (ws := match h with W w => [w] | Batch ws false => ws | Batch _ true => [] end).
        assert (Hflat : flat (h :: hs) = ws ++ flat hs).
        { subst ws. destruct h as [w|ws0 [|]]; reflexivity. }
        rewrite Hflat in Hincl, Hdec |- *. rewrite map_app in Hincl, Hdec |- *.
        rewrite hist_trees_app in Hincl, Hdec. rewrite fold_left_app.
        rewrite flat_map_app in Hincl. apply incl_app_inv in Hincl as [Hincl1 Hincl2].
        rewrite Forall_app in Hdec. destruct Hdec as [Hdec1 Hdec2].
        destruct (batch_commit_np H BNH H_len BNH_def SB cfS HSB ws t m Hrep Hw Hc Hd Hn Hin Hincl1 Hdec1)
          as (inner & m1 & Erun & Ecommit & Hrep1 & Hw1 & Hsub1 & _ & Hc1 & Hd1 & Hn1 & Hin1).
        set (t1 := fold_left tapply (map top_of ws) t) in *.
        assert (Estep : exists m1', hstep h (plain m (troot H t)) = (hexpect h, plain m1' (troot H t1)) /\
                                     sub_store m m1' /\ within H SB m1' /\ represents H m1' (troot H t1) t1).
        { subst ws. destruct h as [w|ws0 [|]].
          - destruct (run_refines H BNH H_len BNH_def SB cfS HSB [w] t m Hrep Hc Hd Hn Hw Hin Hincl1 Hdec1)
              as (m1' & E & Hs' & Hw' & Hrep' & _).
            exists m1'. split; [|split; [exact Hs'|split; [exact Hw'|exact Hrep']]]. cbn [wrun map] in E. cbn [hstep hexpect].
            destruct (dwrite H BNH w (plain m (troot H t))) as [r s1]. injection E as -> ->. reflexivity.
          - exists m. split; [apply (hstep_abort ws0 _ (store_of m)); reflexivity|].
            split; [apply sub_store_refl|]. split; [exact Hw|exact Hrep].
          - exists m1. split; [|split; [exact Hsub1|split; [exact Hw1|exact Hrep1]]].
            cbn [hstep hexpect]. rewrite Erun, all_ok_map. exact Ecommit. }
        destruct Estep as (m1' & Estep & Hsub1' & Hw1' & Hrep1').
        destruct (IH t1 m1' Hrep1' Hw1' Hc1 Hd1 Hn1 Hin1 Hincl2 Hdec2) as (m2 & E2 & Hs2 & Hw2 & Hrep2 & Hd2 & Hn2).
        exists m2. cbn [hrun map]. rewrite Estep, E2. split; [reflexivity|].
        split; [eapply sub_store_trans; eassumption|]. split; [exact Hw2|]. split; [exact Hrep2|]. split; assumption.
    Qed.
  End WithS.

  (* C01_D / C02_D for histories with batches, NON-PRUNING tries *)
  Theorem C01_D_nonpruning_batched hs :
    cf H (hist_bodies H (flat hs)) -> Forall (fun b => blen b < 2 ^ 64) (hist_bodies H (flat hs)) ->
    let ops := map top_of (flat hs) in
    exists m,
      hrun hs (empty_trie BNH false) = (map hexpect hs, plain m (troot H (trun ops))) /\
      represents H m (troot H (trun ops)) (trun ops) /\
      content_addressed H m /\
      (forall k, fst (get BNH k (plain m (troot H (trun ops)))) = Ok (spec_run ops (bytes_to_nibbles k))) /\
      (forall J, Tree_unique.good_bindings J ->
         (forall q, nibs_ok q = true -> lookup J q = spec_run ops q) ->
         t_root (plain m (troot H (trun ops))) = yp_root H J).
  Proof.
    intros Hcf Hsmall ops.
    assert (HSB : In (rlp_encode (RStr [])) (hist_bodies H (flat hs))) by (left; reflexivity).
    pose proof (hist_decodable_of_small H (flat hs) Hsmall) as Hdec.
    destruct (hrun_refines_np (hist_bodies H (flat hs)) Hcf HSB hs NBlank []) as (m & E & _ & Hw & Hrep & Hd & Hn).
    - replace (troot H NBlank) with BNH by (rewrite BNH_def; reflexivity). apply (represents_empty H BNH BNH_def).
    - intros h b Hg. discriminate Hg.
    - reflexivity.
    - split; [reflexivity|exact I].
    - split; [intro Hx; contradiction|]. split; [|exact I]. intro Hl. discriminate Hl.
    - apply inS_blank.
    - intros b Hb. right. exact Hb.
    - exact Hdec.
    - fold ops in E, Hrep, Hd, Hn. fold (trun ops) in E, Hrep, Hd, Hn.
      replace (troot H NBlank) with BNH in E by (rewrite BNH_def; reflexivity).
      exists m. split; [exact E|]. split; [exact Hrep|].
      pose proof (ops_ok_top_of (flat hs)) as Hops. fold ops in Hops.
      assert (Hc : canonical_top (trun ops) = true) by (apply Tree_canon.C02_canonical; exact Hops).
      split; [intros h b Hg; apply (Hw h b Hg)|]. split.
      + intro k.
        rewrite (C01_lookup_total_D H BNH H_len BNH_def m _ (trun ops) Hrep).
        * f_equal. apply C01_map_T; [exact Hops|apply bytes_to_nibbles_ok].
        * apply Tree_traverse_proofs.canonical_wf; exact Hc.
        * apply canonical_top_ext_ok; exact Hc.
        * exact Hd.
        * exact Hn.
      + intros J HJ Hl. cbn [t_root plain]. apply Tree_unique.C02_yellow_paper; assumption.
  Qed.

  (* C01_D / C02_D / C06_exact for histories with batches, PRUNING tries: from the empty pruning trie,
     every direct write and every committed batch succeeds, aborted batches change nothing, and
     the state is the exact state of the tree of the writes that took effect *)
  Theorem C01_D_pruning_batched hs :
    cf H (hist_bodies H (flat hs)) -> Forall (fun b => blen b < 2 ^ 64) (hist_bodies H (flat hs)) ->
    let ops := map top_of (flat hs) in
    exists m rc,
      hrun hs (empty_trie BNH true) = (map hexpect hs, pstate H m rc (trun ops)) /\
      represents H m (troot H (trun ops)) (trun ops) /\
      content_addressed H m /\
      (forall h, zget rc h = occR H (trun ops) h) /\
      (forall h, amem m h = true <-> (0 < occR H (trun ops) h)%Z) /\
      (forall k, fst (get BNH k (pstate H m rc (trun ops))) = Ok (spec_run ops (bytes_to_nibbles k))) /\
      (forall J, Tree_unique.good_bindings J ->
         (forall q, nibs_ok q = true -> lookup J q = spec_run ops q) ->
         t_root (pstate H m rc (trun ops)) = yp_root H J).
  Proof.
    intros Hcf Hsmall ops.
    assert (HSB : In (rlp_encode (RStr [])) (hist_bodies H (flat hs))) by (left; reflexivity).
    pose proof (hist_decodable_of_small H (flat hs) Hsmall) as Hdec.
    destruct (hrun_refines_ps (hist_bodies H (flat hs)) Hcf HSB hs NBlank [] []) as (m & rc & E & Hpinv & Hd & Hn).
    - apply (pinv_empty H BNH BNH_def).
    - reflexivity.
    - split; [reflexivity|exact I].
    - split; [intro Hx; contradiction|]. split; [|exact I]. intro Hl. discriminate Hl.
    - apply inS_blank.
    - intros b Hb. right. exact Hb.
    - exact Hdec.
    - fold ops in E, Hpinv, Hd, Hn. fold (trun ops) in E, Hpinv, Hd, Hn.
      assert (E0 : pstate H [] [] NBlank = empty_trie BNH true).
      { unfold pstate, empty_trie. rewrite BNH_def. reflexivity. }
      rewrite E0 in E. destruct Hpinv as (Hrep & Hw & _ & Hrc & Hsup).
      exists m, rc. split; [exact E|]. split; [exact Hrep|].
      pose proof (ops_ok_top_of (flat hs)) as Hops. fold ops in Hops.
      assert (Hc : canonical_top (trun ops) = true) by (apply Tree_canon.C02_canonical; exact Hops).
      split; [intros h b Hg; apply (Hw h b Hg)|]. split; [exact Hrc|]. split; [exact Hsup|]. split.
      + intro k.
        rewrite (get_eq BNH m k (pstate H m rc (trun ops)) eq_refl).
        pose proof (C01_lookup_total_D H BNH H_len BNH_def m _ (trun ops) Hrep
                      (Tree_traverse_proofs.canonical_wf _ Hc) (canonical_top_ext_ok _ Hc) Hd Hn k) as Hg.
        rewrite (get_eq BNH m k (plain m (troot H (trun ops))) (on_plain m _)) in Hg.
        cbn [fst t_root plain pstate] in Hg |- *. rewrite Hg. f_equal.
        apply C01_map_T; [exact Hops|apply bytes_to_nibbles_ok].
      + intros J HJ Hl. cbn [t_root pstate]. apply Tree_unique.C02_yellow_paper; assumption.
  Qed.
End Histories.

(* ================================================================== *)
(* Non-vacuity with Keccak-256: a history with direct writes, committed batches and an aborted batch
   whose effective writes are the example history of Refine_write.v *)
Section BatchExamples.
  Definition ex_hs : list hop :=
    [ W ([x12; x34], Some (repeat x61 40));
      Batch [ ([x12; x35], Some (repeat x62 40)); ([x12], Some [x78]); ([x56; x78], Some [x73; x68]) ] false;
      Batch [ ([x12; x34], None); ([xaa], Some (repeat x64 50)) ] true;
      Batch [ ([x12; x35], None); ([x12; x34], Some (repeat x63 33)); ([x12], None) ] false;
      W ([x56; x78], Some []);
      Batch [ ([x99; x99], None); ([x12; x34], None) ] false ].

  Example ex_hs_flat : flat ex_hs = ex_ws.
  Proof. reflexivity. Qed.

  Example ex_hs_pruning :
    exists m rc,
      hrun K BN ex_hs (empty_trie BN true) = (map hexpect ex_hs, pstate K m rc (trun (map top_of (flat ex_hs)))) /\
      (forall h, zget rc h = occR K (trun (map top_of (flat ex_hs))) h) /\
      (forall h, amem m h = true <-> (0 < occR K (trun (map top_of (flat ex_hs))) h)%Z).
  Proof.
    destruct (C01_D_pruning_batched K BN K_len BN_def ex_hs) as (m & rc & E & _ & _ & Hrc & Hsup & _).
    - rewrite ex_hs_flat. exact ex_ws_cf.
    - rewrite ex_hs_flat. exact ex_ws_small.
    - exists m, rc. split; [exact E|]. split; [exact Hrc|exact Hsup].
  Qed.

  Example ex_hs_nonpruning :
    exists m,
      hrun K BN ex_hs (empty_trie BN false) = (map hexpect ex_hs, plain m (troot K (trun (map top_of (flat ex_hs))))) /\
      represents K m (troot K (trun (map top_of (flat ex_hs)))) (trun (map top_of (flat ex_hs))).
  Proof.
    destruct (C01_D_nonpruning_batched K BN K_len BN_def ex_hs) as (m & E & Hrep & _).
    - rewrite ex_hs_flat. exact ex_ws_cf.
    - rewrite ex_hs_flat. exact ex_ws_small.
    - exists m. split; assumption.
  Qed.

  (* the same facts evaluated directly at every prefix of the history, for both kinds of trie:
     results as expected, root = tree-level root; pruning: every node of the tree is in the database
     and the database has no other entry; non-pruning: every node of the tree is in the database *)
  Example ex_hs_eval :
    forallb (fun n =>
      let hs := firstn n ex_hs in
      let t := trun (map top_of (flat hs)) in
      let '(rs, s) := hrun K BN hs (empty_trie BN true) in
      let '(rs', s') := hrun K BN hs (empty_trie BN false) in
      obs_eqb (OL (map (res_obs (fun _ => ONone)) rs)) (OL (map (res_obs (fun _ => ONone)) (map hexpect hs))) &&
      obs_eqb (OL (map (res_obs (fun _ => ONone)) rs')) (OL (map (res_obs (fun _ => ONone)) (map hexpect hs))) &&
      bytes_eqb (t_root s) (troot K t) && bytes_eqb (t_root s') (troot K t) &&
      match t_db s, t_db s' with
      | DPlain st, DPlain st' =>
          forallb (fun b => amem (cells st) (K b)) (tree_bodies K t) &&
          Nat.eqb (length (cells st)) (length (dedupe (map K (tree_bodies K t)))) &&
          Nat.eqb (length (t_refc s)) (length (cells st)) &&
          forallb (fun b => amem (cells st') (K b)) (tree_bodies K t)
      | _, _ => false
      end) (seq 0 7) = true.
  Proof. vm_compute. reflexivity. Qed.

  (* read-through, on a non-pruning outer trie: the block deletes a key, so pre-existing nodes get a
     DELETED marker in the cache (the batch trie's counts started empty) while the wrapped store still
     holds them; [scommit false] ignores the markers: nothing that was in the database is lost *)
  Example ex_read_through :
    let outer := snd (wrun K BN [([x12; x34], Some (repeat x61 40)); ([x12; x35], Some (repeat x62 40))]
                          (empty_trie BN false)) in
    let inner := snd (wrun K BN [([x12; x34], None)] (batch_begin outer)) in
    match t_db inner, t_db outer, t_db (snd (batch_commit K BN outer inner)) with
    | DScratch sc, DPlain st, DPlain st' =>
        existsb (fun e => match snd e with None => amem (cells st) (fst e) | Some _ => false end) (cache sc) &&
        forallb (fun e => amem (cells st') (fst e)) (cells st) &&
        bytes_eqb (t_root (snd (batch_commit K BN outer inner)))
                  (troot K (trun (map top_of [([x12; x34], Some (repeat x61 40)); ([x12; x35], Some (repeat x62 40));
                                              ([x12; x34], None)])))
    | _, _, _ => false
    end = true.
  Proof. vm_compute. reflexivity. Qed.
End BatchExamples.

Check sim_get_node. Check sim__set. Check sim__delete. Check sim_get. Check sim_at_dwrite.
Check brel_cview. Check brel_vis. Check brel_visible.
Check batch_commit_ps. Check batch_commit_np.
Check C01_D_pruning_batched. Check C01_D_nonpruning_batched.
Print Assumptions sim__set.
Print Assumptions sim__delete.
Print Assumptions sim_get.
Print Assumptions sim_at_dwrite.
Print Assumptions brel_visible.
Print Assumptions inner_get.
Print Assumptions batch_commit_ps.
Print Assumptions batch_commit_np.
Print Assumptions C01_D_pruning_batched.
Print Assumptions C01_D_nonpruning_batched.
Print Assumptions ex_hs_pruning.
Print Assumptions ex_hs_nonpruning.
