(* Hexary/Refine_write.v — WRITE REFINEMENT from the database level (Hexary/D.v) to the tree
   level (Hexary/Tree.v) for NON-PRUNING tries over a plain, non-failing store:
   _set / _delete on the encoding of a tree return the encoding of tset / tdelete, and the
   store afterwards holds every hashed sub-tree of the result; set / delete move a state that
   represents t to a state that represents tapply t op; every history from the empty trie.

   THE PREMISES.  H is never assumed injective.  Everything is relative to a finite list SB of
   node bodies with [cf H SB] (no two DIFFERENT bodies of SB have the same hash):
     within SB m     the store is content-addressed and holds only bodies of SB
     inS SB t        every hashed sub-tree of t has its body in SB (inS_top: the root body too)
     good m t        (Refine_read) every hashed sub-tree of t is stored, decodable, and does not hash
                     to BLANK_NODE_HASH: what is needed to READ t
     _set            needs wf t, ext_ok t (extension paths non-empty: fuel), good m t, inS (tset t k v)
     _delete         needs canonical_top t (a branch that ends up with no entry at all makes the code
                     raise StopIteration where the tree level returns NBlank: cxw1), good m t, inS t,
                     and for every tree x of [dwrites t k] : wf x, inS x, decodable x.
                     [dwrites t k] are the intermediate results tdelete c k' at the nodes c on the
                     path: _delete PERSISTS each of them before it compares its reference with the
                     old one (item_eqb enc_new (kv_second node): reference equality must imply tree
                     equality, tref_inj, which is where collision-freeness enters a second time) and
                     before it possibly merges it into the parent; a merged one stays in a
                     non-pruning database as garbage (cxw3).
   For histories SB is [hist_bodies ws]: rlp(b"") and the bodies of every tree of [hist_trees]
   (the trees trun (prefix) and the dwrites of every deleting step).  [decodable] is PROVED for
   canonical trees whose bodies are shorter than 2^64 bytes (decodable_canonical: the decoder's
   fuel length+2 suffices because an embedded node is shorter than 32 bytes, which bounds the
   nesting of embedded nodes), so the history theorem has exactly two premises:
   cf H (hist_bodies ws) and Forall (fun b => blen b < 2^64) (hist_bodies ws).
   PRUNING tries: Hexary/Refine_write_prune.v. *)
From Coq Require Import List NArith ZArith Bool Lia ZifyBool.
From Coq.Init Require Import Byte.
From PyTrie.Base Require Import Bytes Bytes_proofs Result AMap AMap_proofs Nibbles Nibbles_proofs Rlp Rlp_proofs.
From PyTrie.Db Require Import ScratchDb.
From PyTrie.Hexary Require Import Raw Raw_proofs D Tree Tree_aux Tree_map TreeTraverse D_read Refine_read.
From PyTrie.Hexary Require Tree_canon Tree_unique Tree_traverse_proofs.
Import ListNotations.
Open Scope N_scope.

(* ================================================================== *)
(* small list facts *)
Lemma rw_map_list_set {A B} (f : A -> B) (l : list A) : forall i x,
  map f (list_set l i x) = list_set (map f l) i (f x).
Proof.
  induction l as [|y l IH]; intros [|i] x; cbn [list_set map]; try reflexivity.
  rewrite IH. reflexivity.
Qed.

Lemma rw_list_set_app1 {A} (l1 l2 : list A) : forall i x, (i < length l1)%nat ->
  list_set (l1 ++ l2) i x = list_set l1 i x ++ l2.
Proof.
  induction l1 as [|y l1 IH]; intros i x Hi; cbn [length] in Hi; [lia|].
  destruct i as [|i]; cbn [list_set app]; [reflexivity|]. rewrite IH by lia. reflexivity.
Qed.

Lemma rw_list_set_app2 {A} (l1 l2 : list A) : forall i x, (length l1 <= i)%nat ->
  list_set (l1 ++ l2) i x = l1 ++ list_set l2 (i - length l1) x.
Proof.
  induction l1 as [|y l1 IH]; intros i x Hi; cbn [length] in *.
  - cbn [app]. rewrite Nat.sub_0_r. reflexivity.
  - destruct i as [|i]; [lia|]. cbn [list_set app Nat.sub]. rewrite IH by lia. reflexivity.
Qed.

Lemma rw_Forall_list_set {A} (P : A -> Prop) (l : list A) : forall i x,
  Forall P l -> P x -> Forall P (list_set l i x).
Proof.
  induction l as [|y l IH]; intros [|i] x Hl Hx; cbn [list_set]; try exact Hl.
  - inversion Hl as [|? ? Hy Hl']; subst. constructor; assumption.
  - inversion Hl as [|? ? Hy Hl']; subst. constructor; [exact Hy|apply IH; assumption].
Qed.

(* ================================================================== *)
(* the state of a non-pruning trie over the plain non-failing store m *)
Definition np (r : bytes) (rc : amap Z) (pd : option (amap Z)) (m : amap bytes) : trie :=
  mkTrie (DPlain (store_of m)) r false rc pd.

Lemma bind_ok {A B} (m : M A) (f : A -> M B) s a s' : m s = (Ok a, s') -> bind m f s = f a s'.
Proof. intro E. unfold bind. rewrite E. reflexivity. Qed.

Lemma bind_assoc {A B C} (m : M A) (f : A -> M B) (g : B -> M C) s :
  bind (bind m f) g s = bind m (fun a => bind (f a) g) s.
Proof. unfold bind. destruct (m s) as [[a|e] s']; reflexivity. Qed.

(* ---------------- monadic stepping ---------------- *)
Lemma bind_lift_ok {A B} (x : result A) (a : A) (f : A -> M B) s :
  x = Ok a -> bind (lift x) f s = f a s.
Proof. intros ->. reflexivity. Qed.

Lemma bind_lb_ok {B} (x : result bytes) (b : bytes) (f : item -> M B) s :
  x = Ok b -> bind (lift_bytes x) f s = f (RStr b) s.
Proof. intros ->. reflexivity. Qed.

Lemma bind_ret {A B} (a : A) (f : A -> M B) s : bind (ret a) f s = f a s.
Proof. reflexivity. Qed.

Lemma bind_getst {B} (f : trie -> M B) s : bind getst f s = f s s.
Proof. reflexivity. Qed.

Ltac ba := cbv beta iota; repeat rewrite bind_assoc.
Ltac st_lift E := ba; rewrite (bind_lift_ok _ _ _ _ E); ba.
Ltac st_lb E := ba; rewrite (bind_lb_ok _ _ _ _ E); ba.
Ltac st_ok E := ba; rewrite (bind_ok _ _ _ _ _ E); ba.
Ltac st_ret := ba; rewrite bind_ret; ba.

(* ================================================================== *)
(* the intermediate results of a delete: at every node on the path below t, the result of the
   recursive call is PERSISTED by _delete before it is (possibly) merged into its parent; these
   are exactly the trees whose top node is written in addition to sub-trees of the result *)
Fixpoint dwrites (t : node) (k : nibbles) {struct t} : list node :=
  match t with
  | NExt p c =>
      if key_starts_with k p
      then tdelete c (skipn (length p) k) :: dwrites c (skipn (length p) k)
      else []
  | NBranch cs _ =>
      match k with
      | [] => []
      | n :: k' =>
          (fix pick (cs : list node) (i : nat) {struct cs} : list node :=
             match cs, i with
             | [], _ => []
             | c :: _, O => tdelete c k' :: dwrites c k'
             | _ :: cs', Datatypes.S i' => pick cs' i'
             end) cs (N.to_nat n)
      end
  | _ => []
  end.

Lemma dwrites_ext p c k : key_starts_with k p = true ->
  dwrites (NExt p c) k = tdelete c (skipn (length p) k) :: dwrites c (skipn (length p) k).
Proof. intro Hk. cbn [dwrites]. rewrite Hk. reflexivity. Qed.

Lemma dwrites_branch cs v n k' : (N.to_nat n < length cs)%nat ->
  dwrites (NBranch cs v) (n :: k') = tdelete (child cs n) k' :: dwrites (child cs n) k'.
Proof.
  intro Hn. cbn [dwrites]. unfold child. revert Hn. generalize (N.to_nat n) as i.
  induction cs as [|c cs IH]; intros i Hi; cbn [length] in Hi; [lia|].
  destruct i as [|i]; cbn [nth]; [reflexivity|]. apply IH. lia.
Qed.

Lemma item_eqb_neq a b : a <> b -> item_eqb a b = false.
Proof.
  intro Hne. destruct (item_eqb a b) eqn:E; [|reflexivity].
  apply item_eqb_eq in E. contradiction.
Qed.

Lemma with_flag_app p q t : p ++ with_flag q t = with_flag (p ++ q) t.
Proof. destruct t; cbn [with_flag]; [rewrite app_assoc|]; reflexivity. Qed.

Lemma dwrites_wf t : forall k, wf t = true -> nibs_ok k = true ->
  forall x, In x (dwrites t k) -> wf x = true.
Proof.
  induction t as [| p pv | p c IH | cs bv IH] using node_ind'; intros k Hwf Hk x Hx.
  - destruct Hx.
  - destruct Hx.
  - cbn [dwrites] in Hx. destruct (key_starts_with k p) eqn:Eks; [|destruct Hx].
    cbn [wf] in Hwf. apply andb_true_iff in Hwf as [Hp Hwc].
    assert (Hk' : nibs_ok (skipn (length p) k) = true) by (apply tm_nibs_ok_skipn; exact Hk).
    destruct Hx as [<-|Hx]; [apply wf_tdelete; assumption|]. apply (IH _ Hwc Hk' _ Hx).
  - destruct k as [|n k']; [destruct Hx|].
    apply wf_branch_iff in Hwf as [Hlen Hall].
    apply nibs_ok_cons_inv in Hk as [Hn Hk'].
    rewrite dwrites_branch in Hx by (rewrite Hlen; lia).
    assert (Hwc : wf (child cs n) = true) by (apply Tree_map.wf_child; exact Hall).
    destruct Hx as [<-|Hx]; [apply wf_tdelete; assumption|].
    unfold child in *. destruct (Nat.lt_ge_cases (N.to_nat n) (length cs)) as [Hlt|Hge].
    + rewrite Forall_forall in IH. apply (IH _ (nth_In cs NBlank Hlt) _ Hwc Hk' _ Hx).
    + rewrite (nth_overflow cs NBlank Hge) in Hx. destruct Hx.
Qed.

Lemma dwrites_canonical t : forall k, canonical_top t = true -> nibs_ok k = true ->
  forall x, In x (dwrites t k) -> canonical_top x = true.
Proof.
  induction t as [| p pv | p c IH | cs bv IH] using node_ind'; intros k Hc Hk x Hx.
  - destruct Hx.
  - destruct Hx.
  - cbn [dwrites] in Hx. destruct (key_starts_with k p) eqn:Eks; [|destruct Hx].
    apply Tree_canon.canonical_top_nonblank in Hc; [|reflexivity].
    rewrite Tree_canon.canonical_ext in Hc. apply andb_true_iff in Hc as [_ H4].
    apply Tree_canon.canonical_canonical_top in H4.
    assert (Hk' : nibs_ok (skipn (length p) k) = true) by (apply tm_nibs_ok_skipn; exact Hk).
    destruct Hx as [<-|Hx]; [apply Tree_canon.canonical_tdelete; assumption|]. apply (IH _ H4 Hk' _ Hx).
  - destruct k as [|n k']; [destruct Hx|].
    apply Tree_canon.canonical_top_nonblank in Hc; [|reflexivity].
    rewrite Tree_canon.canonical_branch in Hc.
    apply andb_true_iff in Hc as [Hc Hall]. apply andb_true_iff in Hc as [Hlen _].
    apply Nat.eqb_eq in Hlen.
    apply nibs_ok_cons_inv in Hk as [Hn Hk'].
    rewrite dwrites_branch in Hx by (rewrite Hlen; lia).
    assert (Hcc : canonical_top (child cs n) = true) by (apply Tree_unique.canonical_top_nth; exact Hall).
    destruct Hx as [<-|Hx]; [apply Tree_canon.canonical_tdelete; assumption|].
    unfold child in *. destruct (Nat.lt_ge_cases (N.to_nat n) (length cs)) as [Hlt|Hge].
    + rewrite Forall_forall in IH. apply (IH _ (nth_In cs NBlank Hlt) _ Hcc Hk' _ Hx).
    + rewrite (nth_overflow cs NBlank Hge) in Hx. destruct Hx.
Qed.

(* the trees written by one operation besides the sub-trees of its result *)
Definition op_writes (t : node) (o : top) : list node :=
  match o with
  | TSet k [] => dwrites t k
  | TSet k (_ :: _) => []
  | TDel k => dwrites t k
  end.

(* every tree whose nodes are written along a history that starts at t *)
Fixpoint hist_trees (t : node) (ops : list top) : list node :=
  match ops with
  | [] => []
  | o :: ops' => (tapply t o :: op_writes t o) ++ hist_trees (tapply t o) ops'
  end.

(* API writes: (key, Some value) = set, (key, None) = delete *)
Definition wop := (bytes * option bytes)%type.
Definition top_of (w : wop) : top :=
  match w with
  | (k, Some v) => TSet (bytes_to_nibbles k) v
  | (k, None) => TDel (bytes_to_nibbles k)
  end.

Lemma op_ok_top_of w : op_ok (top_of w).
Proof. destruct w as [k [v|]]; cbn [top_of op_ok]; apply bytes_to_nibbles_ok. Qed.

Lemma hist_trees_canonical ws : forall t, canonical_top t = true ->
  Forall (fun x => canonical_top x = true) (hist_trees t (map top_of ws)).
Proof.
  induction ws as [|w ws IH]; intros t Hc; [constructor|].
  cbn [map hist_trees].
  assert (Hc1 : canonical_top (tapply t (top_of w)) = true).
  { apply Tree_canon.canonical_tapply; [exact Hc|exact (op_ok_top_of w)]. }
  apply Forall_app. split; [|apply IH; exact Hc1].
  constructor; [exact Hc1|]. apply Forall_forall. intros x Hx.
  destruct w as [k [[|v0 v']|]]; cbn [top_of op_writes] in Hx.
  - apply (dwrites_canonical t _ Hc (bytes_to_nibbles_ok k) _ Hx).
  - destruct Hx.
  - apply (dwrites_canonical t _ Hc (bytes_to_nibbles_ok k) _ Hx).
Qed.

Lemma ops_ok_top_of ws : ops_ok (map top_of ws).
Proof. unfold ops_ok. apply Forall_forall. intros o Ho. apply in_map_iff in Ho as (w & <- & _). apply op_ok_top_of. Qed.

(* ================================================================== *)
(* the RLP decoder reads back the encoding of every canonical tree: its fuel (length + 2)
   suffices because embedded nodes are shorter than 32 bytes, which bounds their nesting *)
Definition fits (c : nat) (x : item) : Prop := (item_fuel x <= length (rlp_encode x) + c)%nat.

Lemma fits_mono c c' x : (c <= c')%nat -> fits c x -> fits c' x.
Proof. unfold fits. lia. Qed.

Lemma fits_str b : fits 0 (RStr b).
Proof. unfold fits. pose proof (rlp_encode_length_pos (RStr b)). cbn [item_fuel]. lia. Qed.

Fixpoint lfits (c : nat) (l : list item) : Prop :=
  match l with
  | [] => True
  | y :: l' => (item_fuel y <= length (rlp_encode y) + length l' + c)%nat /\ lfits c l'
  end.

Lemma payload_length_ge l : (length l <= length (rlp_payload l))%nat.
Proof.
  induction l as [|y l IH]; [cbn; lia|]. cbn [rlp_payload length]. rewrite app_length.
  pose proof (rlp_encode_length_pos y). lia.
Qed.

Lemma list_fuel_lfits c l : lfits c l -> (list_fuel l <= length (rlp_payload l) + 1 + c)%nat.
Proof.
  induction l as [|y l IH]; intro Hl; [cbn; lia|].
  destruct Hl as [Hy Hl]. specialize (IH Hl). cbn [list_fuel rlp_payload]. rewrite app_length.
  pose proof (rlp_encode_length_pos y). pose proof (payload_length_ge l). lia.
Qed.

Lemma fits_list c l : lfits c l -> fits (1 + c) (RList l).
Proof.
  intro Hl. unfold fits. rewrite item_fuel_list, rlp_encode_list, app_length.
  pose proof (list_fuel_lfits c l Hl). pose proof (rlp_len_prefix_length_pos 192 (blen (rlp_payload l))). lia.
Qed.

Lemma list_length_ge l : (1 + length l <= length (rlp_encode (RList l)))%nat.
Proof.
  rewrite rlp_encode_list, app_length.
  pose proof (payload_length_ge l). pose proof (rlp_len_prefix_length_pos 192 (blen (rlp_payload l))). lia.
Qed.

Lemma payload_length_in y l : In y l -> (length (rlp_encode y) + length l <= 1 + length (rlp_payload l))%nat.
Proof.
  induction l as [|z l IH]; intro Hin; [destruct Hin|]. cbn [rlp_payload length]. rewrite app_length.
  destruct Hin as [->|Hin].
  - pose proof (payload_length_ge l). lia.
  - specialize (IH Hin). pose proof (rlp_encode_length_pos z). lia.
Qed.

Lemma list_length_in y l : In y l -> (length (rlp_encode y) + length l <= length (rlp_encode (RList l)))%nat.
Proof.
  intro Hin. rewrite rlp_encode_list, app_length.
  pose proof (payload_length_in y l Hin). pose proof (rlp_len_prefix_length_pos 192 (blen (rlp_payload l))). lia.
Qed.

Lemma fits_kv c k r : fits c r -> fits (1 + c) (RList [RStr k; r]).
Proof.
  intro Hr. apply fits_list. cbn [lfits length]. split; [|split; [|exact I]].
  - pose proof (fits_str k) as Hk. unfold fits in Hk. lia.
  - unfold fits in Hr. lia.
Qed.

Lemma lfits_refs c (rs : list item) v : Forall (fits (1 + c)) rs -> lfits c (rs ++ [RStr v]).
Proof.
  intro Hrs. induction Hrs as [|y rs Hy _ IH]; cbn [app lfits].
  - split; [|exact I]. pose proof (fits_str v) as Hv. unfold fits in Hv. cbn [length]. lia.
  - split; [|exact IH]. unfold fits in Hy. rewrite app_length. cbn [length]. lia.
Qed.

Section Decodable.
  Variable H : bytes -> bytes.
  Hypothesis H_len : forall x, length (H x) = 32%nat.

  Definition short (t : node) : Prop := Nat.ltb (length (ebody H t)) 32 = true.

  Lemma fits_tref c t : (short t -> fits c (enc H t)) -> fits c (tref H t).
  Proof.
    intro Hf. destruct (tref_cases H t) as [[-> Hr]|[(Hnb & Hl & Hr)|(Hnb & Hl & Hr)]]; rewrite Hr.
    - apply (fits_mono 0); [lia|apply fits_str].
    - apply Hf. exact Hl.
    - apply (fits_mono 0); [lia|apply fits_str].
  Qed.

  Lemma fits_branch c cs v : Forall (fun x => fits (1 + c) (tref H x)) cs -> fits (1 + c) (enc H (NBranch cs v)).
  Proof.
    intro Hcs. rewrite enc_branch. apply fits_list. apply lfits_refs.
    apply Forall_forall. intros r Hr. apply in_map_iff in Hr as (x & <- & Hx).
    rewrite Forall_forall in Hcs. apply Hcs. exact Hx.
  Qed.

  Lemma branch_length_ge cs v : length cs = 16%nat -> (18 <= length (ebody H (NBranch cs v)))%nat.
  Proof.
    intro Hl. unfold ebody. rewrite enc_branch.
    pose proof (list_length_ge (map (tref H) cs ++ [RStr v])) as Hg.
    rewrite app_length, map_length, Hl in Hg. cbn [length] in Hg. lia.
  Qed.

  (* an embedded extension over an embedded branch makes the enclosing branch long *)
  Lemma branch_with_ext_long cs v q d ds w :
    length cs = 16%nat -> In (NExt q (NBranch ds w)) cs -> length ds = 16%nat ->
    short (NExt q (NBranch ds w)) -> short (NBranch ds w) -> d = NBranch ds w ->
    (37 <= length (ebody H (NBranch cs v)))%nat.
  Proof.
    intros Hl Hin Hld Hsx Hsd ->.
    set (x := NExt q (NBranch ds w)) in *.
    assert (Hx : tref H x = enc H x).
    { destruct (tref_cases H x) as [[Hb _]|[(_ & _ & Hr)|(_ & Hlx & _)]];
        [discriminate Hb|exact Hr|unfold short in Hsx; rewrite Hsx in Hlx; discriminate Hlx]. }
    assert (Hd : tref H (NBranch ds w) = enc H (NBranch ds w)).
    { destruct (tref_cases H (NBranch ds w)) as [[Hb _]|[(_ & _ & Hr)|(_ & Hlx & _)]];
        [discriminate Hb|exact Hr|unfold short in Hsd; rewrite Hsd in Hlx; discriminate Hlx]. }
    assert (Hlenx : (20 <= length (rlp_encode (enc H x)))%nat).
    { unfold x. change (enc H (NExt q (NBranch ds w))) with (RList [RStr (HP q false); tref H (NBranch ds w)]).
      rewrite Hd.
      pose proof (list_length_in (enc H (NBranch ds w)) [RStr (HP q false); enc H (NBranch ds w)]
                    (or_intror (or_introl eq_refl))) as Hg.
      pose proof (branch_length_ge ds w Hld) as Hb. unfold ebody in Hb. cbn [length] in Hg. lia. }
    unfold ebody. rewrite enc_branch.
    pose proof (list_length_in (enc H x) (map (tref H) cs ++ [RStr v])) as Hg.
    rewrite app_length, map_length, Hl in Hg. cbn [length] in Hg.
    assert (Hi : In (enc H x) (map (tref H) cs ++ [RStr v])).
    { apply in_or_app. left. rewrite <- Hx. apply in_map. exact Hin. }
    specialize (Hg Hi). lia.
  Qed.

  Definition fuel_ok (t : node) : Prop :=
    fits 2 (enc H t) /\ (is_branch t = true -> short t -> fits 1 (enc H t)).

  Lemma fuel_ok_leaf p v : fuel_ok (NLeaf p v).
  Proof.
    split; [|intro Hx; discriminate Hx].
    apply (fits_mono 1); [lia|]. apply (fits_kv 0). apply fits_str.
  Qed.

  Lemma canonical_fuel_ok t : canonical t = true -> fuel_ok t.
  Proof.
    induction t as [| p v | p c IH | cs v IH] using node_ind'; intro Hc.
    - discriminate Hc.
    - apply fuel_ok_leaf.
    - rewrite Tree_canon.canonical_ext in Hc.
      apply andb_true_iff in Hc as [Hc H4]. apply andb_true_iff in Hc as [Hc H3].
      destruct (IH H4) as [_ IH2].
      split; [|intro Hx; discriminate Hx].
      change (enc H (NExt p c)) with (RList [RStr (HP p false); tref H c]).
      apply (fits_kv 1). apply fits_tref. intro Hs. apply IH2; assumption.
    - rewrite Tree_canon.canonical_branch in Hc.
      apply andb_true_iff in Hc as [Hc Hall]. apply andb_true_iff in Hc as [Hl _].
      apply Nat.eqb_eq in Hl. rewrite forallb_forall in Hall. rewrite Forall_forall in IH.
      split.
      + apply (fits_branch 1). apply Forall_forall. intros x Hx. apply fits_tref. intros _.
        specialize (Hall x Hx). unfold canonical_top in Hall. apply orb_true_iff in Hall as [Hb|Hcx].
        * destruct x; try discriminate Hb. apply (fits_mono 0); [lia|apply fits_str].
        * apply (IH x Hx Hcx).
      + intros _ Hshort. apply (fits_branch 0). apply Forall_forall. intros x Hx. apply fits_tref. intro Hsx.
        specialize (Hall x Hx). unfold canonical_top in Hall. apply orb_true_iff in Hall as [Hb|Hcx].
        * destruct x; try discriminate Hb. apply (fits_mono 0); [lia|apply fits_str].
        * destruct x as [| q w | q d | ds w].
          -- discriminate Hcx.
          -- apply (fits_kv 0). apply fits_str.
          -- change (enc H (NExt q d)) with (RList [RStr (HP q false); tref H d]).
             apply (fits_kv 0). apply fits_tref. intro Hsd. exfalso.
             rewrite Tree_canon.canonical_ext in Hcx.
             apply andb_true_iff in Hcx as [Hcx Hcd]. apply andb_true_iff in Hcx as [_ Hbd].
             destruct d as [| | |ds w]; try discriminate Hbd.
             rewrite Tree_canon.canonical_branch in Hcd.
             apply andb_true_iff in Hcd as [Hcd _]. apply andb_true_iff in Hcd as [Hld _].
             apply Nat.eqb_eq in Hld.
             pose proof (branch_with_ext_long cs v q _ ds w Hl Hx Hld Hsx Hsd eq_refl) as Hlong.
             unfold short in Hshort. apply Nat.ltb_lt in Hshort. lia.
          -- apply (IH _ Hx Hcx); [reflexivity|exact Hsx].
  Qed.

  Definition body_small (t : node) : Prop := blen (ebody H t) < 2 ^ 64.

  Lemma decodable_here_canonical t : canonical_top t = true -> body_small t -> decodable_here H t.
  Proof.
    intros Hc Hs. unfold decodable_here. unfold canonical_top in Hc. apply orb_true_iff in Hc as [Hb|Hc].
    - destruct t; try discriminate Hb. reflexivity.
    - apply rlp_decode_encode.
      + apply item_small_of_length. exact Hs.
      + destruct (canonical_fuel_ok t Hc) as [Hf _]. unfold fits in Hf. lia.
  Qed.

  Lemma canonical_all_sub t : canonical_top t = true -> all_sub (fun s => canonical_top s = true) t.
  Proof.
    induction t as [| p v | p c IH | cs v IH] using node_ind'; intro Hc.
    - split; [reflexivity|exact I].
    - split; [exact Hc|exact I].
    - apply all_sub_ext. split; [exact Hc|]. apply IH.
      apply Tree_canon.canonical_top_nonblank in Hc; [|reflexivity].
      rewrite Tree_canon.canonical_ext in Hc. apply andb_true_iff in Hc as [_ H4].
      apply Tree_canon.canonical_canonical_top. exact H4.
    - apply all_sub_branch. split; [exact Hc|].
      apply Tree_canon.canonical_top_nonblank in Hc; [|reflexivity].
      rewrite Tree_canon.canonical_branch in Hc. apply andb_true_iff in Hc as [_ Hall].
      rewrite forallb_forall in Hall. rewrite Forall_forall in IH |- *.
      intros x Hx. apply (IH x Hx). apply Hall. exact Hx.
  Qed.

  (* all hashed bodies (and the root body) of t are small: then so is every sub-tree body *)
  Lemma small_all_sub t : (forall b, In b (hashed_bodies H t) -> blen b < 2 ^ 64) -> all_sub body_small t.
  Proof.
    intro Hb.
    assert (Ha : all_sub (fun s => Nat.ltb (length (ebody H s)) 32 = false -> blen (ebody H s) < 2 ^ 64) t).
    { apply (hashed_all H (fun b => blen b < 2 ^ 64)). intros b Hin _. apply Hb. exact Hin. }
    eapply all_sub_impl; [|exact Ha]. intros s Hs. unfold body_small.
    destruct (Nat.ltb (length (ebody H s)) 32) eqn:El; [|apply Hs; exact El].
    apply Nat.ltb_lt in El. unfold blen. rewrite two64. lia.
  Qed.

  Theorem decodable_canonical t :
    canonical_top t = true -> (forall b, In b (tree_bodies H t) -> blen b < 2 ^ 64) -> decodable H t.
  Proof.
    intros Hc Hb. unfold decodable.
    assert (Hs : all_sub body_small t).
    { apply small_all_sub. intros b Hin. apply Hb. unfold tree_bodies. apply in_or_app. right. exact Hin. }
    pose proof (all_sub_and _ _ _ (canonical_all_sub t Hc) Hs) as Ha.
    eapply all_sub_impl; [|exact Ha]. intros s [H1 H2]. apply decodable_here_canonical; assumption.
  Qed.
End Decodable.

Section RefineWrite.
  Variable H : bytes -> bytes.
  Variable BNH : bytes.
  Hypothesis H_len : forall x, length (H x) = 32%nat.
  Hypothesis BNH_def : BNH = H (rlp_encode (RStr [])).

  Notation ebody := (ebody H).
  Notation enc := (enc H).
  Notation tref := (tref H).

  (* ---------------- primitive effects on a non-pruning plain state ---------------- *)
  Lemma get_node_np ref r rc pd m : get_node BNH ref (np r rc pd m) = (gn BNH m ref, np r rc pd m).
  Proof. apply get_node_eq. reflexivity. Qed.

  Lemma _prune_node_np n r rc pd m : _prune_node H n (np r rc pd m) = (Ok tt, np r rc pd m).
  Proof. reflexivity. Qed.

  (* what _persist_node does to the store *)
  Definition persist (m : amap bytes) (n : item) : amap bytes :=
    if is_blank n then m
    else if Nat.ltb (length (rlp_encode n)) 32 then m
    else aset m (H (rlp_encode n)) (rlp_encode n).

  Lemma _persist_node_np n r rc pd m : validate_is_node n = Ok tt ->
    _persist_node H n (np r rc pd m) = (Ok (ref_of_item H n), np r rc pd (persist m n)).
  Proof.
    intro Hv. unfold _persist_node, node_to_db_mapping, ref_of_item, persist. rewrite Hv.
    destruct (is_blank n); [reflexivity|].
    destruct (Nat.ltb (length (rlp_encode n)) 32); reflexivity.
  Qed.

  (* ---------------- encodings are valid nodes ---------------- *)
  Lemma validate_ref c : validate_is_node (enc c) = Ok tt ->
    match tref c with
    | RStr [] => Ok tt
    | RList l => validate_is_node (RList l)
    | RStr b => if Nat.eqb (length b) 32 then Ok tt else Err EValidation
    end = Ok tt.
  Proof.
    intro Hv. destruct (tref_cases H c) as [[-> Hr]|[(Hnb & Hl & Hr)|(Hnb & Hl & Hr)]]; rewrite Hr.
    - reflexivity.
    - destruct (enc_nonblank H c Hnb) as (x & l & He). rewrite He in Hv |- *. exact Hv.
    - pose proof (H_len (ebody c)) as Hlen. destruct (H (ebody c)) as [|h0 h']; [discriminate Hlen|].
      rewrite Hlen. reflexivity.
  Qed.

  Lemma validate_kv k c : validate_is_node (enc c) = Ok tt ->
    validate_is_node (RList [RStr k; tref c]) = Ok tt.
  Proof.
    intro Hv. pose proof (validate_ref c Hv) as Hr. cbn [validate_is_node validate_is_bytes_item rbind].
    destruct (tref c) as [b|l]; [reflexivity|exact Hr].
  Qed.

  Definition vgo17 : list item -> nat -> result unit :=
    fix go (cs : list item) (k : nat) {struct cs} : result unit :=
      match cs, k with
      | [], _ => Ok tt
      | _, O => Ok tt
      | c :: cs', S k' =>
          match match c with
                | RStr [] => Ok tt
                | RList _ => validate_is_node c
                | RStr b => if Nat.eqb (length b) 32 then Ok tt else Err EValidation
                end with
          | Ok _ => go cs' k'
          | Err e => Err e
          end
      end.

  Lemma validate_branch_items l : length l = 17%nat ->
    validate_is_node (RList l) =
    match validate_is_bytes_item (nth 16 l BLANK) with Ok _ => vgo17 l 16%nat | Err e => Err e end.
  Proof.
    intro Hl. destruct l as [|a [|b [|c l]]]; try discriminate Hl.
    cbn [validate_is_node]. rewrite Hl. reflexivity.
  Qed.

  Lemma vgo17_refs cs : Forall (fun c => validate_is_node (enc c) = Ok tt) cs ->
    forall tl, vgo17 (map tref cs ++ tl) (length cs) = Ok tt.
  Proof.
    intro Hcs. induction Hcs as [|c cs Hc _ IH]; intros tl.
    - cbn [map app length]. destruct tl; reflexivity.
    - cbn [map app length vgo17]. fold vgo17.
      pose proof (validate_ref c Hc) as Hr.
      destruct (tref c) as [[|b0 b']|l]; [apply IH|rewrite Hr; apply IH|rewrite Hr; apply IH].
  Qed.

  Lemma validate_enc t : wf t = true -> validate_is_node (enc t) = Ok tt.
  Proof.
    induction t as [| p v | p c IH | cs v IH] using node_ind'; intro Hwf.
    - reflexivity.
    - reflexivity.
    - cbn [wf] in Hwf. apply andb_true_iff in Hwf as [_ Hwc].
      change (enc (NExt p c)) with (RList [RStr (HP p false); tref c]).
      apply validate_kv. apply IH. exact Hwc.
    - rewrite wf_branch in Hwf. apply andb_true_iff in Hwf as [Hl Hall]. apply Nat.eqb_eq in Hl.
      rewrite enc_branch. rewrite validate_branch_items by (rewrite app_length, map_length, Hl; reflexivity).
      rewrite app_nth2 by (rewrite map_length; lia). rewrite map_length, Hl. cbn [Nat.sub nth validate_is_bytes_item].
      rewrite <- Hl. apply (vgo17_refs cs).
      rewrite forallb_forall in Hall. rewrite Forall_forall in IH |- *.
      intros c Hin. apply IH; [exact Hin|apply Hall; exact Hin].
  Qed.

  Lemma persist_enc t r rc pd m : wf t = true ->
    _persist_node H (enc t) (np r rc pd m) = (Ok (tref t), np r rc pd (persist m (enc t))).
  Proof. intro Hwf. apply _persist_node_np. apply validate_enc. exact Hwf. Qed.

  (* ---------------- classification of kv nodes ---------------- *)
  Lemma leaf_is_ext p x : nibs_ok p = true ->
    is_extension_node (RList [RStr (HP p true); x]) = Ok false /\ is_leaf_node (RList [RStr (HP p true); x]) = Ok true.
  Proof.
    intro Hp. unfold is_extension_node, is_leaf_node, decode_key.
    rewrite (decode_nibbles_HP p true Hp). cbn [rbind with_flag].
    rewrite is_term_snoc, N.eqb_refl. split; reflexivity.
  Qed.

  Lemma ext_is_ext p x : nibs_ok p = true ->
    is_extension_node (RList [RStr (HP p false); x]) = Ok true /\ is_leaf_node (RList [RStr (HP p false); x]) = Ok false.
  Proof.
    intro Hp. unfold is_extension_node, is_leaf_node, decode_key.
    rewrite (decode_nibbles_HP p false Hp). cbn [rbind with_flag].
    rewrite (is_term_ok p Hp). split; reflexivity.
  Qed.

  Lemma sub_store_refl (m : amap bytes) : sub_store m m.
  Proof. intros h b Hg. exact Hg. Qed.

  Lemma sub_store_trans (a b c : amap bytes) : sub_store a b -> sub_store b c -> sub_store a c.
  Proof. intros Hab Hbc h x Hg. apply Hbc, Hab, Hg. Qed.

  (* ================================================================ *)
  Section WithS.
    (* the finite set of node bodies among which H is collision-free *)
    Variable SB : list bytes.
    Hypothesis cfS : cf H SB.

    (* the store is content-addressed and holds only bodies from S *)
    Definition within (m : amap bytes) : Prop :=
      forall h b, aget m h = Some b -> h = H b /\ In b SB.

    Definition long (t : node) : Prop := Nat.ltb (length (ebody t)) 32 = false.
    Definition inS_here (s : node) : Prop := long s -> In (ebody s) SB.
    Definition inS (t : node) : Prop := all_sub inS_here t.

    Lemma within_aset m b : within m -> In b SB ->
      sub_store m (aset m (H b) b) /\ within (aset m (H b) b) /\ aget (aset m (H b) b) (H b) = Some b.
    Proof.
      intros Hw Hb. split; [|split].
      - intros h x Hg. rewrite aget_aset. destruct (bytes_eqb h (H b)) eqn:E; [|exact Hg].
        apply bytes_eqb_eq in E. subst h. destruct (Hw _ _ Hg) as [Hh Hx].
        f_equal. apply cfS; [exact Hb|exact Hx|exact Hh].
      - intros h x. rewrite aget_aset. destruct (bytes_eqb h (H b)) eqn:E.
        + apply bytes_eqb_eq in E. intro Hg. injection Hg as <-. split; [exact E|exact Hb].
        + apply Hw.
      - rewrite aget_aset, bytes_eqb_refl. reflexivity.
    Qed.

    Definition stored_sub (m : amap bytes) (t : node) : Prop :=
      match t with
      | NExt _ c => stored H m c
      | NBranch cs _ => Forall (stored H m) cs
      | _ => True
      end.

    Lemma stored_intro m t : stored_here H m t -> stored_sub m t -> stored H m t.
    Proof.
      intros Hh Hs. unfold stored. destruct t as [| p v | p c | cs v].
      - split; [exact Hh|exact I].
      - split; [exact Hh|exact I].
      - apply all_sub_ext. split; [exact Hh|exact Hs].
      - apply all_sub_branch. split; [exact Hh|exact Hs].
    Qed.

    Lemma stored_sub_of m t : stored H m t -> stored_sub m t.
    Proof.
      unfold stored. destruct t as [| p v | p c | cs v]; intro Hs; try exact I.
      - apply all_sub_ext in Hs. apply Hs.
      - apply all_sub_branch in Hs. apply Hs.
    Qed.

    Lemma stored_sub_mono m m' t : sub_store m m' -> stored_sub m t -> stored_sub m' t.
    Proof.
      intro Hsub. destruct t as [| p v | p c | cs v]; cbn [stored_sub]; try (intros _; exact I).
      - apply stored_mono. exact Hsub.
      - intro Hf. eapply Forall_impl; [|exact Hf]. intros c. apply stored_mono. exact Hsub.
    Qed.

    Lemma persist_spec t m : within m -> inS_here t ->
      sub_store m (persist m (enc t)) /\ within (persist m (enc t)) /\ stored_here H (persist m (enc t)) t.
    Proof.
      intros Hw Hin. unfold persist, stored_here. fold (ebody t).
      destruct (is_blank (enc t)) eqn:Eb.
      - split; [apply sub_store_refl|]. split; [exact Hw|].
        destruct t; try discriminate Eb. intro Hl. discriminate Hl.
      - destruct (Nat.ltb (length (ebody t)) 32) eqn:El.
        + split; [apply sub_store_refl|]. split; [exact Hw|]. intro Hx. discriminate Hx.
        + destruct (within_aset m (ebody t) Hw (Hin El)) as (H1 & H2 & H3).
          split; [exact H1|]. split; [exact H2|]. intros _. exact H3.
    Qed.

    (* persisting the encoding of a tree whose proper sub-trees are stored *)
    Lemma persist_step t r rc pd m : wf t = true -> within m -> inS_here t -> stored_sub m t ->
      exists m', _persist_node H (enc t) (np r rc pd m) = (Ok (tref t), np r rc pd m') /\
                 sub_store m m' /\ within m' /\ stored H m' t.
    Proof.
      intros Hwf Hw Hin Hs. exists (persist m (enc t)).
      destruct (persist_spec t m Hw Hin) as (H1 & H2 & H3).
      split; [apply persist_enc; exact Hwf|]. split; [exact H1|]. split; [exact H2|].
      apply stored_intro; [exact H3|]. apply (stored_sub_mono m); assumption.
    Qed.

    (* ---------------- branch encodings ---------------- *)
    Definition bitems (cs : list node) (v : bytes) : list item := map tref cs ++ [RStr v].

    Lemma enc_branch' cs v : enc (NBranch cs v) = RList (bitems cs v).
    Proof. apply enc_branch. Qed.

    Lemma blank17_bitems : blank17 = bitems blanks16 [].
    Proof. reflexivity. Qed.

    Lemma blank16_bitems x : repeat BLANK 16 ++ [x] = map tref blanks16 ++ [x].
    Proof. reflexivity. Qed.

    Lemma bitems_set_child cs v i c : length cs = 16%nat -> i < 16 ->
      list_set (bitems cs v) (N.to_nat i) (tref c) = bitems (set_child cs i c) v.
    Proof.
      intros Hl Hi. unfold bitems, set_child.
      rewrite rw_list_set_app1 by (rewrite map_length; lia). rewrite rw_map_list_set. reflexivity.
    Qed.

    Lemma bitems_set_value cs v w : length cs = 16%nat ->
      list_set (bitems cs v) 16 (RStr w) = bitems cs w.
    Proof.
      intro Hl. unfold bitems. rewrite rw_list_set_app2 by (rewrite map_length; lia).
      rewrite map_length, Hl. reflexivity.
    Qed.

    Lemma enc_ext p c : enc (NExt p c) = RList [RStr (HP p false); tref c].
    Proof. reflexivity. Qed.

    Lemma enc_leaf p v : enc (NLeaf p v) = RList [RStr (HP p true); RStr v].
    Proof. reflexivity. Qed.

    (* ---------------- facts about inS / stored on pieces ---------------- *)
    Lemma inS_here_of t : inS t -> inS_here t.
    Proof. apply all_sub_here. Qed.

    Lemma inS_blank : inS NBlank.
    Proof. split; [|exact I]. intro Hl. discriminate Hl. Qed.

    Lemma stored_blank m : stored H m NBlank.
    Proof. split; [|exact I]. intro Hl. discriminate Hl. Qed.

    Lemma inS_child cs v i : inS (NBranch cs v) -> inS (child cs i).
    Proof.
      unfold inS. rewrite all_sub_branch. intros [_ Hc]. apply Forall_child; [exact Hc|apply inS_blank].
    Qed.

    Lemma inS_set_child_inv cs v i c : (N.to_nat i < length cs)%nat ->
      inS (NBranch (set_child cs i c) v) -> inS c.
    Proof.
      intros Hi Hin. pose proof (inS_child _ _ i Hin) as Hc.
      rewrite child_set_child in Hc by exact Hi. rewrite N.eqb_refl in Hc. exact Hc.
    Qed.

    Lemma inS_wrap_inv common n : inS (wrap common n) -> inS n.
    Proof.
      destruct common as [|c0 ct]; cbn [wrap]; [intro Hx; exact Hx|].
      unfold inS. rewrite all_sub_ext. intros [_ Hn]. exact Hn.
    Qed.

    Lemma Forall_stored_blanks16 m : Forall (stored H m) blanks16.
    Proof. unfold blanks16. apply Forall_forall. intros x Hx. apply repeat_spec in Hx. subst x. apply stored_blank. Qed.

    Lemma Forall_stored_set_child m cs i c :
      Forall (stored H m) cs -> stored H m c -> Forall (stored H m) (set_child cs i c).
    Proof. intros Hcs Hc. apply rw_Forall_list_set; assumption. Qed.

    (* ---------------- wrapping the new node into an extension ---------------- *)
    Lemma wrap_step common n r rc pd m :
      nibs_ok common = true -> wf n = true -> within m -> inS (wrap common n) -> stored_sub m n ->
      exists m',
        (match common with
         | _ :: _ =>
             bind (_persist_node H (enc n)) (fun nk =>
             bind (lift_bytes (compute_extension_key common)) (fun ek => ret (RList [ek; nk])))
         | [] => ret (enc n)
         end) (np r rc pd m) = (Ok (enc (wrap common n)), np r rc pd m') /\
        sub_store m m' /\ within m' /\ stored_sub m' (wrap common n).
    Proof.
      intros Hc Hwf Hw Hin Hs. destruct common as [|c0 ct].
      - exists m. cbn [wrap]. split; [reflexivity|]. split; [apply sub_store_refl|]. split; assumption.
      - pose proof (inS_wrap_inv _ _ Hin) as Hn.
        destruct (persist_step n r rc pd m Hwf Hw (inS_here_of _ Hn) Hs) as (m' & E & Hsub & Hw' & Hst).
        exists m'. rewrite (bind_ok _ _ _ _ _ E).
        rewrite (bind_lb_ok _ _ _ _ (compute_extension_key_HP _ Hc)).
        cbn [wrap]. split; [reflexivity|]. split; [exact Hsub|]. split; [exact Hw'|exact Hst].
    Qed.

    (* ---------------- _set on a blank node and on a leaf ---------------- *)
    Lemma _set_blank fuel k v r rc pd m : nibs_ok k = true ->
      _set H BNH (S fuel) (enc NBlank) k v (np r rc pd m) = (Ok (enc (NLeaf k v)), np r rc pd m).
    Proof.
      intro Hk. cbn [_set Tree.enc]. rewrite (bind_lift_ok _ TBlank) by reflexivity.
      rewrite (bind_ok _ _ _ _ _ (_prune_node_np _ r rc pd m)).
      rewrite (bind_lb_ok _ _ _ _ (compute_leaf_key_HP _ Hk)). reflexivity.
    Qed.

    (* the post-condition shared by all cases *)
    Definition wpost (m : amap bytes) (t' : node) (r : bytes) (rc : amap Z) (pd : option (amap Z))
               (out : result item * trie) : Prop :=
      exists m', out = (Ok (enc t'), np r rc pd m') /\ sub_store m m' /\ within m' /\ stored_sub m' t'.

    Lemma wpost_mono m0 m t' r rc pd out : sub_store m0 m -> wpost m t' r rc pd out -> wpost m0 t' r rc pd out.
    Proof.
      intros Hsub (m' & E & H1 & H2 & H3). exists m'. split; [exact E|].
      split; [eapply sub_store_trans; eassumption|]. split; assumption.
    Qed.

    (* the new leaf [NLeaf kt v] persisted *)
    Lemma new_leaf_step kt v r rc pd m : nibs_ok kt = true -> within m -> inS (NLeaf kt v) ->
      exists m', _persist_node H (RList [RStr (HP kt true); RStr v]) (np r rc pd m)
                 = (Ok (tref (NLeaf kt v)), np r rc pd m') /\
                 sub_store m m' /\ within m' /\ stored H m' (NLeaf kt v).
    Proof.
      intros Hk Hw Hin. apply (persist_step (NLeaf kt v)); [exact Hk|exact Hw|apply inS_here_of; exact Hin|exact I].
    Qed.

    Lemma inS_split_old c0 old key_rem v : c0 < 16 -> nibs_ok key_rem = true ->
      (forall k0 kt, key_rem = k0 :: kt -> c0 <> k0) -> inS (split_branch c0 old key_rem v) -> inS old.
    Proof.
      intros Hc0 Hkr Hne. unfold split_branch. destruct key_rem as [|k0 kt]; intro Hin.
      - apply (inS_set_child_inv blanks16 v c0); [rewrite length_blanks16; lia|exact Hin].
      - pose proof (inS_child _ _ c0 Hin) as Hc. apply nibs_ok_cons_inv in Hkr as [Hk0 _].
        rewrite child_set_child in Hc by (rewrite length_set_child, length_blanks16; lia).
        destruct (N.eqb_spec c0 k0) as [He|_]; [exfalso; exact (Hne k0 kt eq_refl He)|].
        rewrite child_set_child in Hc by (rewrite length_blanks16; lia).
        rewrite N.eqb_refl in Hc. exact Hc.
    Qed.

    (* the branch built when a key/value node is split *)
    Lemma split_step c0 old key_rem v common r rc pd m m1 (basec : M (list item)) :
      basec (np r rc pd m) = (Ok (list_set blank17 (N.to_nat c0) (tref old)), np r rc pd m1) ->
      sub_store m m1 -> within m1 -> stored H m1 old -> wf old = true ->
      c0 < 16 -> nibs_ok key_rem = true -> nibs_ok common = true ->
      inS (wrap common (split_branch c0 old key_rem v)) ->
      wpost m (wrap common (split_branch c0 old key_rem v)) r rc pd
        (bind (bind basec (fun base =>
                 match key_rem with
                 | k0 :: ktail =>
                     bind (lift_bytes (compute_leaf_key ktail)) (fun lk =>
                     bind (_persist_node H (RList [lk; RStr v])) (fun p =>
                     ret (inr (A:=item) (RList (list_set base (N.to_nat k0) p)))))
                 | [] => ret (inr (RList (list_set base 16 (RStr v))))
                 end))
              (fun new_node : item + item =>
                 match new_node with
                 | inl n => ret n
                 | inr nn =>
                     match common with
                     | _ :: _ =>
                         bind (_persist_node H nn) (fun nk =>
                         bind (lift_bytes (compute_extension_key common)) (fun ek =>
                         ret (RList [ek; nk])))
                     | [] => ret nn
                     end
                 end) (np r rc pd m)).
    Proof.
      intros Eb Hs1 Hw1 Hst1 Hwo Hc0 Hkr Hc Hin.
      apply (wpost_mono m m1); [exact Hs1|].
      st_ok Eb. rewrite blank17_bitems, (bitems_set_child _ _ _ _ length_blanks16 Hc0).
      pose proof (inS_wrap_inv _ _ Hin) as Hin1.
      pose proof (wf_split_branch c0 old key_rem v Hwo Hkr) as Hwfs.
      assert (Hl1 : length (set_child blanks16 c0 old) = 16%nat) by (rewrite length_set_child; reflexivity).
      unfold split_branch in *. destruct key_rem as [|k0 kt].
      - st_ret. rewrite (bitems_set_value _ _ _ Hl1), <- enc_branch'.
        apply wrap_step; [exact Hc|exact Hwfs|exact Hw1|exact Hin|].
        cbn [stored_sub]. apply Forall_stored_set_child; [apply Forall_stored_blanks16|exact Hst1].
      - apply nibs_ok_cons_inv in Hkr as [Hk0 Hkt].
        assert (Hinl : inS (NLeaf kt v)).
        { apply (inS_set_child_inv (set_child blanks16 c0 old) [] k0); [rewrite Hl1; lia|exact Hin1]. }
        st_lb (compute_leaf_key_HP _ Hkt).
        destruct (new_leaf_step kt v r rc pd m1 Hkt Hw1 Hinl) as (m2 & E2 & Hs2 & Hw2 & Hst2).
        st_ok E2. st_ret.
        rewrite (bitems_set_child _ _ _ _ Hl1 Hk0), <- enc_branch'.
        apply (wpost_mono m1 m2); [exact Hs2|].
        apply wrap_step; [exact Hc|exact Hwfs|exact Hw2|exact Hin|].
        cbn [stored_sub]. apply Forall_stored_set_child; [|exact Hst2].
        apply Forall_stored_set_child; [apply Forall_stored_blanks16|].
        apply (stored_mono H m1); assumption.
    Qed.

    Lemma _set_leaf p pv fuel k v r rc pd m :
      nibs_ok p = true -> nibs_ok k = true -> within m -> inS (tset (NLeaf p pv) k v) ->
      wpost m (tset (NLeaf p pv) k v) r rc pd
            (_set H BNH (S fuel) (enc (NLeaf p pv)) k v (np r rc pd m)).
    Proof.
      intros Hp Hk Hw Hin.
      destruct (leaf_classified p (RStr pv) Hp) as [Ht Hx].
      destruct (leaf_is_ext p (RStr pv) Hp) as [Hie Hil].
      rewrite Tree_canon.tset_leaf in Hin |- *. cbn [_set]. rewrite enc_leaf.
      st_lift Ht. st_ok (_prune_node_np (RList [RStr (HP p true); RStr pv]) r rc pd m). st_lift Hx.
      pose proof (Tree_canon.tc_ccp_ok p k) as Hok.
      pose proof (Tree_canon.tc_ccp p k) as Hsp.
      destruct (consume_common_prefix p k) as [[common cur_rem] key_rem].
      destruct (Hok _ _ _ eq_refl Hp Hk) as (Hc & Hcr & Hkr). clear Hok.
      destruct (Hsp _ _ _ eq_refl) as (_ & _ & Hne). clear Hsp.
      st_lift Hie.
      destruct cur_rem as [|c0 ct].
      - destruct key_rem as [|k0 kt].
        + st_lift Hil. cbn [kv_first]. st_ret.
          exists m. split; [reflexivity|]. split; [apply sub_store_refl|]. split; [exact Hw|exact I].
        + apply nibs_ok_cons_inv in Hkr as [Hk0 Hkt].
          pose proof (inS_wrap_inv _ _ Hin) as Hin1.
          assert (Hinl : inS (NLeaf kt v)).
          { apply (inS_set_child_inv blanks16 pv k0); [rewrite length_blanks16; lia|exact Hin1]. }
          st_lb (compute_leaf_key_HP _ Hkt).
          destruct (new_leaf_step kt v r rc pd m Hkt Hw Hinl) as (m1 & E1 & Hs1 & Hw1 & Hst1).
          st_ok E1. cbn [kv_second]. st_ret.
          rewrite blank16_bitems. fold (bitems blanks16 pv).
          rewrite (bitems_set_child _ _ _ _ length_blanks16 Hk0). rewrite <- enc_branch'.
          apply (wpost_mono m m1); [exact Hs1|].
          apply wrap_step; [exact Hc| |exact Hw1|exact Hin|].
          * rewrite wf_branch, length_set_child, length_blanks16. cbn [Nat.eqb andb].
            apply forallb_wf_set_child; [apply forallb_wf_blanks16|exact Hkt].
          * cbn [stored_sub]. apply Forall_stored_set_child; [apply Forall_stored_blanks16|exact Hst1].
      - apply nibs_ok_cons_inv in Hcr as [Hc0 Hct].
        rewrite andb_false_r. cbn [kv_second].
        assert (Hino : inS (NLeaf ct pv)).
        { apply (inS_split_old c0 _ key_rem v Hc0 Hkr); [|apply (inS_wrap_inv common); exact Hin].
          intros k0 kt Hkk. apply (Hne c0 k0 ct kt eq_refl Hkk). }
        destruct (new_leaf_step ct pv r rc pd m Hct Hw Hino) as (m1 & E1 & Hs1 & Hw1 & Hst1).
        apply (split_step c0 (NLeaf ct pv) key_rem v common r rc pd m m1); try assumption.
        st_lb (compute_leaf_key_HP _ Hct). st_ok E1. reflexivity.
    Qed.

    (* ---------------- the invariant on the tree that is read ---------------- *)
    Notation good := (good H BNH).

    Lemma good_stored m t : good m t -> stored H m t.
    Proof. apply all_sub_impl. intros s (Hs & _ & _). exact Hs. Qed.

    Lemma good_ext m p c : good m (NExt p c) -> good m c.
    Proof. unfold Refine_read.good. rewrite all_sub_ext. intros [_ Hc]. exact Hc. Qed.

    Lemma good_mono m m' t : sub_store m m' -> good m t -> good m' t.
    Proof.
      intro Hsub. apply all_sub_impl. intros s (Hs & Hd & Hn). split; [|split; assumption].
      intro Hl. apply Hsub. exact (Hs Hl).
    Qed.

    Lemma get_node_good t r rc pd m : good m t ->
      get_node BNH (tref t) (np r rc pd m) = (Ok (enc t), np r rc pd m).
    Proof. intro Hg. rewrite get_node_np, (good_gn H BNH H_len m t Hg). reflexivity. Qed.

    Definition set_spec (t : node) : Prop :=
      forall fuel k v r rc pd m,
        wf t = true -> ext_ok t = true -> good m t -> within m -> nibs_ok k = true ->
        (length k < fuel)%nat -> inS (tset t k v) ->
        wpost m (tset t k v) r rc pd (_set H BNH fuel (enc t) k v (np r rc pd m)).

    Lemma _set_ext p c : set_spec c -> set_spec (NExt p c).
    Proof.
      intros IH fuel k v r rc pd m Hwf Hex Hg Hw Hk Hfuel Hin.
      destruct fuel as [|f]; [lia|].
      cbn [wf] in Hwf. apply andb_true_iff in Hwf as [Hp Hwc].
      cbn [ext_ok] in Hex. apply andb_true_iff in Hex as [Hpne Hexc].
      pose proof (good_ext _ _ _ Hg) as Hgc.
      destruct (extension_classified p (tref c) Hp) as [Ht Hx].
      destruct (ext_is_ext p (tref c) Hp) as [Hie Hil].
      rewrite Tree_canon.tset_ext in Hin |- *. cbn [_set]. rewrite enc_ext.
      st_lift Ht. st_ok (_prune_node_np (RList [RStr (HP p false); tref c]) r rc pd m). st_lift Hx.
      pose proof (Tree_canon.tc_ccp_ok p k) as Hok.
      pose proof (Tree_canon.tc_ccp p k) as Hsp.
      destruct (consume_common_prefix p k) as [[common cur_rem] key_rem].
      destruct (Hok _ _ _ eq_refl Hp Hk) as (Hc & Hcr & Hkr). clear Hok.
      destruct (Hsp _ _ _ eq_refl) as (Hp1 & Hk1 & Hne). clear Hsp.
      st_lift Hie. cbn [kv_second].
      destruct cur_rem as [|c0 ct].
      - (* the key runs through the extension: recursion *)
        rewrite app_nil_r in Hp1. subst common.
        assert (Hlen : (length key_rem < f)%nat).
        { rewrite Hk1, app_length in Hfuel. destruct p; [discriminate Hpne|]. cbn [length] in Hfuel. lia. }
        pose proof (inS_wrap_inv _ _ Hin) as Hin1.
        destruct (IH f key_rem v r rc pd m Hwc Hexc Hgc Hw Hkr Hlen Hin1) as (m1 & E1 & Hs1 & Hw1 & Hst1).
        destruct key_rem as [|k0 kt]; [st_lift Hil|];
          (st_ok (get_node_good c r rc pd m Hgc); st_ok E1; st_ret;
           apply (wpost_mono m m1); [exact Hs1|];
           apply wrap_step; [exact Hp|apply wf_tset; assumption|exact Hw1|exact Hin|exact Hst1]).
      - apply nibs_ok_cons_inv in Hcr as [Hc0 Hct].
        assert (Hne' : forall k0 kt, key_rem = k0 :: kt -> c0 <> k0).
        { intros k0 kt Hkk. apply (Hne c0 k0 ct kt eq_refl Hkk). }
        destruct ct as [|c1 ct']; pose proof (inS_wrap_inv _ _ Hin) as Hin1.
        + (* one nibble of the extension path left: the child goes into the branch *)
          cbn [length Nat.eqb andb].
          apply (split_step c0 c key_rem v common r rc pd m m); try assumption.
          * reflexivity.
          * apply sub_store_refl.
          * apply good_stored; exact Hgc.
        + cbn [length Nat.eqb andb].
          assert (Hino : inS (NExt (c1 :: ct') c)).
          { apply (inS_split_old c0 _ key_rem v Hc0 Hkr Hne'). exact Hin1. }
          assert (Hwo : wf (NExt (c1 :: ct') c) = true) by (cbn [wf]; rewrite Hct, Hwc; reflexivity).
          destruct (persist_step (NExt (c1 :: ct') c) r rc pd m Hwo Hw (inS_here_of _ Hino))
            as (m1 & E1 & Hs1 & Hw1 & Hst1).
          { cbn [stored_sub]. apply good_stored; exact Hgc. }
          apply (split_step c0 (NExt (c1 :: ct') c) key_rem v common r rc pd m m1); try assumption.
          st_lb (compute_extension_key_HP _ Hct). rewrite <- enc_ext. st_ok E1. reflexivity.
    Qed.

    Lemma good_branch_stored m cs v : good m (NBranch cs v) -> Forall (stored H m) cs.
    Proof.
      intro Hg. apply good_stored in Hg. unfold stored in Hg. apply all_sub_branch in Hg. apply Hg.
    Qed.

    Lemma child_in_or_blank cs (i : N) : In (child cs i) cs \/ child cs i = NBlank.
    Proof.
      unfold child. destruct (Nat.lt_ge_cases (N.to_nat i) (length cs)) as [Hlt|Hge].
      - left. apply nth_In. exact Hlt.
      - right. apply nth_overflow. exact Hge.
    Qed.

    Lemma branch_set_enc cs bv i c : length cs = 16%nat -> i < 16 ->
      branch_set (enc (NBranch cs bv)) i (tref c) = enc (NBranch (set_child cs i c) bv).
    Proof.
      intros Hl Hi. rewrite !enc_branch'. unfold branch_set, branch_items.
      rewrite (bitems_set_child _ _ _ _ Hl Hi). reflexivity.
    Qed.

    Lemma branch_set_value_enc cs bv w : length cs = 16%nat ->
      branch_set (enc (NBranch cs bv)) 16 (RStr w) = enc (NBranch cs w).
    Proof.
      intro Hl. rewrite !enc_branch'. unfold branch_set, branch_items.
      change (N.to_nat 16) with 16%nat. rewrite (bitems_set_value _ _ _ Hl). reflexivity.
    Qed.

    Lemma set_spec_blank : set_spec NBlank.
    Proof.
      intros fuel k v r rc pd m _ _ _ Hw Hk Hfuel _. destruct fuel as [|f]; [lia|].
      rewrite _set_blank by exact Hk. exists m. split; [reflexivity|].
      split; [apply sub_store_refl|]. split; [exact Hw|exact I].
    Qed.

    Lemma _set_branch cs bv : Forall set_spec cs -> set_spec (NBranch cs bv).
    Proof.
      intros IH fuel k v r rc pd m Hwf Hex Hg Hw Hk Hfuel Hin.
      destruct fuel as [|f]; [lia|].
      pose proof Hwf as Hwf'. rewrite wf_branch in Hwf'. apply andb_true_iff in Hwf' as [Hl Hall].
      apply Nat.eqb_eq in Hl.
      cbn [_set]. st_lift (branch_enc_classified H cs bv Hl).
      st_ok (_prune_node_np (enc (NBranch cs bv)) r rc pd m).
      destruct k as [|k0 kt].
      - rewrite tset_branch_nil. rewrite (branch_set_value_enc _ _ _ Hl).
        exists m. split; [reflexivity|]. split; [apply sub_store_refl|]. split; [exact Hw|].
        cbn [stored_sub]. apply (good_branch_stored _ _ _ Hg).
      - apply nibs_ok_cons_inv in Hk as [Hk0 Hkt].
        rewrite tset_branch in Hin |- * by (rewrite Hl; lia).
        rewrite (branch_child_enc H cs bv k0 Hl Hk0).
        pose proof (good_child H BNH m cs bv k0 Hg) as Hgc.
        st_ok (get_node_good (child cs k0) r rc pd m Hgc).
        assert (IHc : set_spec (child cs k0)).
        { destruct (child_in_or_blank cs k0) as [Hi| ->]; [|apply set_spec_blank].
          rewrite Forall_forall in IH. apply IH. exact Hi. }
        assert (Hinc : inS (tset (child cs k0) kt v)).
        { apply (inS_set_child_inv cs bv k0); [rewrite Hl; lia|exact Hin]. }
        cbn [length] in Hfuel.
        destruct (IHc f kt v r rc pd m (Tree_map.wf_child _ _ Hall) (ext_ok_child cs bv k0 Hex) Hgc Hw Hkt
                      ltac:(lia) Hinc) as (m1 & E1 & Hs1 & Hw1 & Hst1).
        st_ok E1.
        destruct (persist_step (tset (child cs k0) kt v) r rc pd m1) as (m2 & E2 & Hs2 & Hw2 & Hst2);
          [apply wf_tset; [apply Tree_map.wf_child; exact Hall|exact Hkt]|exact Hw1|apply inS_here_of; exact Hinc|exact Hst1|].
        st_ok E2. rewrite (branch_set_enc _ _ _ _ Hl Hk0).
        exists m2. split; [reflexivity|]. split; [eapply sub_store_trans; eassumption|].
        split; [exact Hw2|]. cbn [stored_sub].
        apply Forall_stored_set_child; [|exact Hst2].
        pose proof (good_branch_stored _ _ _ Hg) as Hcs.
        eapply Forall_impl; [|exact Hcs]. intros c Hc. apply (stored_mono H m); [|exact Hc].
        eapply sub_store_trans; eassumption.
    Qed.

    (* the raw-node algorithm on the encoding of a tree computes the encoding of tset *)
    Theorem _set_refines t : set_spec t.
    Proof.
      induction t as [| p pv | p c IH | cs bv IH] using node_ind'.
      - apply set_spec_blank.
      - intros fuel k v r rc pd m Hwf _ _ Hw Hk Hfuel Hin. destruct fuel as [|f]; [lia|].
        apply _set_leaf; assumption.
      - apply _set_ext. exact IH.
      - apply _set_branch. exact IH.
    Qed.

    (* ---------------- the root ---------------- *)
    Definition root_store (m : amap bytes) (t : node) : amap bytes :=
      if is_nblank t then m else aset m (troot H t) (ebody t).

    Lemma _set_raw_node_item n r rc pd m : validate_is_node n = Ok tt -> is_blank n = false ->
      _set_raw_node H BNH n (np r rc pd m)
      = (Ok (H (rlp_encode n)), np r rc pd (aset m (H (rlp_encode n)) (rlp_encode n))).
    Proof.
      intros Hv Hb. unfold _set_raw_node, node_to_db_mapping. rewrite Hv, Hb.
      destruct (Nat.ltb (length (rlp_encode n)) 32).
      - st_lift (eq_refl (Ok (n, @None bytes))). rewrite Hb. reflexivity.
      - st_lift (eq_refl (Ok (RStr (H (rlp_encode n)), Some (rlp_encode n)))).
        pose proof (H_len (rlp_encode n)) as Hlen. cbn [is_blank item_bytes].
        destruct (H (rlp_encode n)) as [|h0 h']; [discriminate Hlen|]. reflexivity.
    Qed.

    Lemma _set_raw_node_np t r rc pd m : wf t = true ->
      _set_raw_node H BNH (enc t) (np r rc pd m) = (Ok (troot H t), np r rc pd (root_store m t)).
    Proof.
      intro Hwf. unfold root_store. destruct (is_nblank t) eqn:Eb.
      - destruct t; try discriminate Eb. unfold troot. cbn [Tree.enc]. unfold BLANK. rewrite <- BNH_def. reflexivity.
      - apply _set_raw_node_item; [apply validate_enc; exact Hwf|].
        destruct t as [| p v | p c | cs v]; [discriminate Eb|reflexivity|reflexivity|].
        rewrite enc_branch. reflexivity.
    Qed.

    Lemma _set_root_node_np t r rc pd m : wf t = true ->
      _set_root_node H BNH (enc t) (np r rc pd m) = (Ok tt, np (troot H t) rc pd (root_store m t)).
    Proof.
      intro Hwf. unfold _set_root_node. st_lift (validate_enc t Hwf).
      rewrite bind_getst. cbn [t_prune np]. st_ret.
      st_ok (_set_raw_node_np t r rc pd m Hwf). reflexivity.
    Qed.

    (* the whole tree lies in S: the root body too *)
    Definition inS_top (t : node) : Prop := (t <> NBlank -> In (ebody t) SB) /\ inS t.

    Lemma root_store_spec m t : within m -> inS_top t -> stored_sub m t ->
      sub_store m (root_store m t) /\ within (root_store m t) /\
      represents H (root_store m t) (troot H t) t.
    Proof.
      intros Hw [Hroot Hin] Hst. unfold root_store.
      destruct t as [| p v | p c | cs v].
      - cbn [is_nblank]. split; [apply sub_store_refl|]. split; [exact Hw|].
        split; [reflexivity|]. split; [left; reflexivity|apply stored_blank].
      - destruct (within_aset m _ Hw (Hroot ltac:(discriminate))) as (H1 & H2 & H3).
        cbn [is_nblank]. split; [exact H1|]. split; [exact H2|]. split; [reflexivity|].
        split; [right; exact H3|]. apply stored_intro; [intros _; exact H3|exact I].
      - destruct (within_aset m _ Hw (Hroot ltac:(discriminate))) as (H1 & H2 & H3).
        cbn [is_nblank]. split; [exact H1|]. split; [exact H2|]. split; [reflexivity|].
        split; [right; exact H3|]. apply stored_intro; [intros _; exact H3|].
        apply (stored_sub_mono m); assumption.
      - destruct (within_aset m _ Hw (Hroot ltac:(discriminate))) as (H1 & H2 & H3).
        cbn [is_nblank]. split; [exact H1|]. split; [exact H2|]. split; [reflexivity|].
        split; [right; exact H3|]. apply stored_intro; [intros _; exact H3|].
        apply (stored_sub_mono m); assumption.
    Qed.

    Lemma mt_handler_ok h p x (y : item) : mt_handler h p x = Ok y -> x = Ok y.
    Proof.
      unfold mt_handler. destruct x as [x|e]; [intro E; exact E|].
      destruct (key_error_hash e); discriminate.
    Qed.

    Lemma get_root_np m r t rc pd : represents H m r t -> decodable H t -> no_blank_collision H BNH t ->
      get_node BNH (RStr r) (np r rc pd m) = (Ok (enc t), np r rc pd m).
    Proof.
      intros Hrep Hd Hn. rewrite get_node_np.
      rewrite (mt_handler_ok _ _ _ _ (root_raw_ok H BNH H_len BNH_def m r t Hrep Hd Hn)). reflexivity.
    Qed.

    (* a write: the inner computation [inner] returns the encoding of t' ... *)
    Lemma write_np (inner : M item) key m r t' :
      wf t' = true -> inS_top t' ->
      wpost m t' r [] None (inner (np r [] None m)) ->
      exists m', _prune_on_success
                   (bind (raise_missing key inner) (fun new_node => _set_root_node H BNH new_node))
                   (plain m r)
                 = (Ok tt, plain m' (troot H t')) /\
                 sub_store m m' /\ within m' /\ represents H m' (troot H t') t'.
    Proof.
      intros Hwf Htop (m1 & E1 & Hs1 & Hw1 & Hst1).
      destruct (root_store_spec m1 t' Hw1 Htop Hst1) as (Hs2 & Hw2 & Hrep).
      exists (root_store m1 t'). split; [|split; [eapply sub_store_trans; eassumption|split; assumption]].
      unfold _prune_on_success. change (t_prune (plain m r)) with false. cbv iota zeta.
      change (plain m r) with (np r [] None m).
      assert (Erm : raise_missing key inner (np r [] None m) = (Ok (enc t'), np r [] None m1)).
      { unfold raise_missing, catch. rewrite E1. reflexivity. }
      rewrite (bind_ok _ _ _ _ _ Erm). rewrite (_set_root_node_np t' r [] None m1 Hwf). reflexivity.
    Qed.

    Lemma length_bytes_to_nibbles b : length (bytes_to_nibbles b) = (2 * length b)%nat.
    Proof. induction b as [|x b IH]; cbn [bytes_to_nibbles length]; [reflexivity|rewrite IH; lia]. Qed.

    Theorem set_refines m r t key value :
      represents H m r t -> wf t = true -> ext_ok t = true -> decodable H t ->
      no_blank_collision H BNH t -> within m -> value <> [] ->
      inS_top (tset t (bytes_to_nibbles key) value) ->
      exists m', set H BNH key value (plain m r)
                 = (Ok tt, plain m' (troot H (tset t (bytes_to_nibbles key) value))) /\
                 sub_store m m' /\ within m' /\
                 represents H m' (troot H (tset t (bytes_to_nibbles key) value))
                            (tset t (bytes_to_nibbles key) value).
    Proof.
      intros Hrep Hwf Hex Hd Hn Hw Hv Htop. unfold set.
      apply write_np; [apply wf_tset; [exact Hwf|apply bytes_to_nibbles_ok]|exact Htop|].
      rewrite bind_getst. cbn [t_root np]. st_ok (get_root_np m r t [] None Hrep Hd Hn).
      destruct value as [|v0 v']; [contradiction|].
      apply _set_refines; try assumption.
      - apply good_intro; [apply Hrep|exact Hd|apply Hn].
      - apply bytes_to_nibbles_ok.
      - unfold write_fuel. rewrite length_bytes_to_nibbles. lia.
      - apply Htop.
    Qed.

    (* ================================================================ *)
    (* references are injective on trees whose hashed bodies lie in S *)
    Definition inj_ok (t : node) : Prop := wf t = true /\ inS t /\ decodable H t.

    Lemma inj_ok_ext p c : inj_ok (NExt p c) -> inj_ok c.
    Proof.
      intros (Hwf & Hin & Hd). cbn [wf] in Hwf. apply andb_true_iff in Hwf as [_ Hwc].
      unfold inS in Hin. unfold decodable in Hd. rewrite all_sub_ext in Hin, Hd.
      split; [exact Hwc|]. split; [apply Hin|apply Hd].
    Qed.

    Lemma inj_ok_branch cs v : inj_ok (NBranch cs v) -> length cs = 16%nat /\ Forall inj_ok cs.
    Proof.
      intros (Hwf & Hin & Hd). rewrite wf_branch in Hwf. apply andb_true_iff in Hwf as [Hl Hall].
      apply Nat.eqb_eq in Hl. split; [exact Hl|].
      unfold inS in Hin. unfold decodable in Hd. rewrite all_sub_branch in Hin, Hd.
      destruct Hin as [_ Hin]. destruct Hd as [_ Hd].
      rewrite forallb_forall in Hall. rewrite Forall_forall in Hin, Hd |- *.
      intros c Hc. split; [apply Hall; exact Hc|]. split; [apply Hin; exact Hc|apply Hd; exact Hc].
    Qed.

    Definition enc_inj_at (a : node) : Prop :=
      forall b, inj_ok a -> inj_ok b -> enc a = enc b -> a = b.

    Lemma tref_inj_of a b : enc_inj_at a -> inj_ok a -> inj_ok b -> tref a = tref b -> a = b.
    Proof.
      intros Hinj Ha Hb Heq.
      destruct (tref_cases H a) as [[Ea Hra]|[(Hna & Hla & Hra)|(Hna & Hla & Hra)]];
        destruct (tref_cases H b) as [[Eb Hrb]|[(Hnb & Hlb & Hrb)|(Hnb & Hlb & Hrb)]];
        rewrite Hra, Hrb in Heq.
      - subst a b. reflexivity.
      - destruct (enc_nonblank H b Hnb) as (x & l & He). rewrite He in Heq. discriminate Heq.
      - injection Heq as Heq. exfalso. apply (hash_nonempty H H_len (ebody b)). symmetry. exact Heq.
      - destruct (enc_nonblank H a Hna) as (x & l & He). rewrite He in Heq. discriminate Heq.
      - apply Hinj; assumption.
      - destruct (enc_nonblank H a Hna) as (x & l & He). rewrite He in Heq. discriminate Heq.
      - injection Heq as Heq. exfalso. apply (hash_nonempty H H_len (ebody a)). exact Heq.
      - destruct (enc_nonblank H b Hnb) as (x & l & He). rewrite He in Heq. discriminate Heq.
      - injection Heq as Heq.
        destruct Ha as (Hwa & Hia & Hda). destruct Hb as (Hwb & Hib & Hdb).
        assert (Hbody : ebody a = ebody b).
        { apply cfS; [apply (inS_here_of _ Hia Hla)|apply (inS_here_of _ Hib Hlb)|exact Heq]. }
        apply Hinj; [repeat split; assumption..|].
        pose proof (all_sub_here _ _ Hda) as H1. pose proof (all_sub_here _ _ Hdb) as H2.
        unfold decodable_here in H1, H2. fold (ebody a) in H1. fold (ebody b) in H2.
        rewrite Hbody, H2 in H1. injection H1 as H1. symmetry. exact H1.
    Qed.

    Lemma bitems_inj cs v ds w : length cs = length ds -> bitems cs v = bitems ds w ->
      map tref cs = map tref ds /\ v = w.
    Proof.
      intros Hl Heq. unfold bitems in Heq. apply app_inj_tail in Heq as [H1 H2].
      injection H2 as H2. split; assumption.
    Qed.

    Lemma enc_inj a : enc_inj_at a.
    Proof.
      induction a as [| p v | p c IH | cs v IH] using node_ind'; intros b Ha Hb Heq.
      - destruct b as [| q w | q d | ds w]; [reflexivity|discriminate Heq..|].
        rewrite enc_branch in Heq. discriminate Heq.
      - destruct Ha as (Hwa & _). cbn [wf] in Hwa.
        destruct b as [| q w | q d | ds w]; [discriminate Heq| | |].
        + destruct Hb as (Hwb & _). cbn [wf] in Hwb. rewrite !enc_leaf in Heq. injection Heq as Hk Hv.
          destruct (HP_injective p q true true Hwa Hwb Hk) as [-> _]. subst w. reflexivity.
        + destruct Hb as (Hwb & _). cbn [wf] in Hwb. apply andb_true_iff in Hwb as [Hq _].
          rewrite enc_leaf, enc_ext in Heq. injection Heq as Hk _.
          destruct (HP_injective p q true false Hwa Hq Hk) as [_ Hx]. discriminate Hx.
        + destruct (inj_ok_branch _ _ Hb) as [Hl _]. rewrite enc_leaf, enc_branch' in Heq.
          injection Heq as Heq. apply (f_equal (@length item)) in Heq.
          unfold bitems in Heq. rewrite app_length, map_length, Hl in Heq. discriminate Heq.
      - pose proof (inj_ok_ext _ _ Ha) as Hac. destruct Ha as (Hwa & _). cbn [wf] in Hwa.
        apply andb_true_iff in Hwa as [Hp _].
        destruct b as [| q w | q d | ds w]; [discriminate Heq| | |].
        + destruct Hb as (Hwb & _). cbn [wf] in Hwb. rewrite enc_leaf, enc_ext in Heq. injection Heq as Hk _.
          destruct (HP_injective p q false true Hp Hwb Hk) as [_ Hx]. discriminate Hx.
        + pose proof (inj_ok_ext _ _ Hb) as Hbd. destruct Hb as (Hwb & _). cbn [wf] in Hwb.
          apply andb_true_iff in Hwb as [Hq _]. rewrite !enc_ext in Heq. injection Heq as Hk Hr.
          destruct (HP_injective p q false false Hp Hq Hk) as [-> _].
          f_equal. apply (tref_inj_of c d IH Hac Hbd Hr).
        + destruct (inj_ok_branch _ _ Hb) as [Hl _]. rewrite enc_ext, enc_branch' in Heq.
          injection Heq as Heq. apply (f_equal (@length item)) in Heq.
          unfold bitems in Heq. rewrite app_length, map_length, Hl in Heq. discriminate Heq.
      - destruct (inj_ok_branch _ _ Ha) as [Hla Hca].
        destruct b as [| q w | q d | ds w].
        + rewrite enc_branch in Heq. discriminate Heq.
        + rewrite enc_leaf, enc_branch' in Heq.
          injection Heq as Heq. apply (f_equal (@length item)) in Heq.
          unfold bitems in Heq. rewrite app_length, map_length, Hla in Heq. discriminate Heq.
        + rewrite enc_ext, enc_branch' in Heq.
          injection Heq as Heq. apply (f_equal (@length item)) in Heq.
          unfold bitems in Heq. rewrite app_length, map_length, Hla in Heq. discriminate Heq.
        + destruct (inj_ok_branch _ _ Hb) as [Hlb Hcb]. rewrite !enc_branch' in Heq. injection Heq as Heq.
          apply bitems_inj in Heq as [Hm ->]; [|rewrite Hla, Hlb; reflexivity]. f_equal.
          clear Hla Hlb Ha Hb. revert ds Hcb Hm.
          induction IH as [|c cs Hc _ IHcs]; intros ds Hcb Hm.
          * destruct ds; [reflexivity|discriminate Hm].
          * destruct ds as [|d ds]; [discriminate Hm|]. cbn [map] in Hm. injection Hm as H1 H2.
            inversion Hca as [|? ? Hc1 Hc2]; subst. inversion Hcb as [|? ? Hd1 Hd2]; subst.
            f_equal; [apply (tref_inj_of c d Hc Hc1 Hd1 H1)|apply IHcs; assumption].
    Qed.

    Lemma tref_inj a b : inj_ok a -> inj_ok b -> tref a = tref b -> a = b.
    Proof. apply tref_inj_of. apply enc_inj. Qed.

    (* ================================================================ *)
    (* _normalize_branch_node *)
    Lemma filter_truthy_refs cs :
      length (filter truthy (map tref cs)) = length (filter (fun c => negb (is_nblank c)) cs).
    Proof.
      induction cs as [|c cs IH]; [reflexivity|]. cbn [map filter].
      rewrite (truthy_tref H H_len). destruct (negb (is_nblank c)); cbn [length]; rewrite IH; reflexivity.
    Qed.

    Lemma filter_truthy_bitems cs v : length (filter truthy (bitems cs v)) = count_entries cs v.
    Proof.
      unfold bitems, count_entries. rewrite filter_app, app_length, filter_truthy_refs.
      f_equal. destruct v; reflexivity.
    Qed.

    Lemma flat_map_single idx (f : N -> bool) : idx < 16 -> (forall i, i < 16 -> f i = (i =? idx)) ->
      flat_map (fun i => if f i then [i] else []) nibble_range = [idx].
    Proof.
      intros Hi Hf. unfold nibble_range. cbn [flat_map]. rewrite !Hf by lia.
      assert (Hc : idx = 0 \/ idx = 1 \/ idx = 2 \/ idx = 3 \/ idx = 4 \/ idx = 5 \/ idx = 6 \/ idx = 7 \/
                   idx = 8 \/ idx = 9 \/ idx = 10 \/ idx = 11 \/ idx = 12 \/ idx = 13 \/ idx = 14 \/ idx = 15) by lia.
      repeat (destruct Hc as [->|Hc]; [reflexivity|]). subst idx. reflexivity.
    Qed.

    Lemma first_nonblank_none_count cs : forall i0, first_nonblank cs i0 = None -> nbcount cs = 0%nat.
    Proof.
      induction cs as [|c cs IH]; intros i0 Hf; [reflexivity|].
      cbn [first_nonblank] in Hf. rewrite nbcount_cons. destruct (is_nblank c); [|discriminate Hf].
      apply (IH _ Hf).
    Qed.

    Lemma with_flag_cons x q t : with_flag (x :: q) t = x :: with_flag q t.
    Proof. destruct t; reflexivity. Qed.

    Lemma encode_cons_HP x q t : nibs_ok (x :: q) = true ->
      encode_nibbles (x :: with_flag q t) = Ok (HP (x :: q) t).
    Proof. intro Hok. rewrite <- with_flag_cons. apply encode_nibbles_HP. exact Hok. Qed.

    Lemma decode_key_HP q t : nibs_ok q = true -> decode_key (RStr (HP q t)) = Ok (with_flag q t).
    Proof. intro Hq. unfold decode_key. apply decode_nibbles_HP. exact Hq. Qed.

    Lemma normalize_np cs v r rc pd m :
      length cs = 16%nat -> forallb wf cs = true -> (1 <= count_entries cs v)%nat ->
      Forall (good m) cs ->
      _normalize_branch_node H BNH (enc (NBranch cs v)) (np r rc pd m)
      = (Ok (enc (normalize cs v)), np r rc pd m).
    Proof.
      intros Hl Hall Hcnt Hg. unfold _normalize_branch_node, normalize.
      assert (Hbi : branch_items (enc (NBranch cs v)) = bitems cs v) by (rewrite enc_branch'; reflexivity).
      rewrite (branch_value_enc H cs v Hl). cbv zeta. rewrite Hbi, filter_truthy_bitems.
      destruct (Nat.leb 2 (count_entries cs v)) eqn:E2; [reflexivity|].
      apply Nat.leb_gt in E2. cbn [truthy]. fold (nonempty v).
      destruct (nonempty v) eqn:Ev.
      - st_lb (compute_leaf_key_HP [] eq_refl). reflexivity.
      - rewrite count_entries_eq, Ev in Hcnt, E2.
        destruct (first_nonblank cs 0) as [[idx c]|] eqn:Ef;
          [|apply first_nonblank_none_count in Ef; lia].
        destruct (first_nonblank_some _ _ _ _ Ef) as (j & Hidx & Hj & Hnth & Hnb & Hoth).
        assert (Hi16 : idx < 16) by lia.
        assert (Hchild : forall n, child cs n = if n =? idx then c else NBlank).
        { intro n. unfold child. destruct (N.eqb_spec n idx) as [->|Hne].
          - subst idx. rewrite N.add_0_l, Nat2N.id. exact Hnth.
          - apply Hoth; [lia|]. intro He. apply Hne. subst idx. lia. }
        assert (Hcin : In c cs) by (rewrite <- Hnth; apply nth_In; exact Hj).
        rewrite (flat_map_single idx (fun i => truthy (branch_child (enc (NBranch cs v)) i)) Hi16).
        2:{ intros i Hi. rewrite (branch_child_enc H cs v i Hl Hi), (truthy_tref H H_len), Hchild.
            destruct (i =? idx); [rewrite Hnb|]; reflexivity. }
        rewrite (branch_child_enc H cs v idx Hl Hi16), Hchild, N.eqb_refl.
        assert (Hgc : good m c) by (rewrite Forall_forall in Hg; apply Hg; exact Hcin).
        assert (Hwc : wf c = true) by (rewrite forallb_forall in Hall; apply Hall; exact Hcin).
        st_ok (get_node_good c r rc pd m Hgc).
        destruct c as [| q w | q d | ds w].
        + discriminate Hnb.
        + cbn [wf] in Hwc. destruct (leaf_classified q (RStr w) Hwc) as [Ht _].
          rewrite enc_leaf. st_lift Ht. st_ok (_prune_node_np (RList [RStr (HP q true); RStr w]) r rc pd m).
          cbn [kv_first kv_second]. st_lift (decode_key_HP q true Hwc).
          assert (Hok : nibs_ok (idx :: q) = true) by (apply nibs_ok_cons_intro; assumption).
          st_lb (encode_cons_HP idx q true Hok). reflexivity.
        + cbn [wf] in Hwc. apply andb_true_iff in Hwc as [Hq Hwd].
          destruct (extension_classified q (tref d) Hq) as [Ht _].
          rewrite enc_ext. st_lift Ht. st_ok (_prune_node_np (RList [RStr (HP q false); tref d]) r rc pd m).
          cbn [kv_first kv_second]. st_lift (decode_key_HP q false Hq).
          assert (Hok : nibs_ok (idx :: q) = true) by (apply nibs_ok_cons_intro; assumption).
          st_lb (encode_cons_HP idx q false Hok). reflexivity.
        + pose proof Hwc as Hwc'. rewrite wf_branch in Hwc'. apply andb_true_iff in Hwc' as [Hld _].
          apply Nat.eqb_eq in Hld. st_lift (branch_enc_classified H ds w Hld).
          assert (Hok : nibs_ok [idx] = true) by (apply nibs_ok_cons_intro; [exact Hi16|reflexivity]).
          st_lb (encode_nibbles_HP [idx] false Hok). reflexivity.
    Qed.

    Lemma stored_sub_normalize m cs v : Forall (stored H m) cs -> stored_sub m (normalize cs v).
    Proof.
      intro Hs. unfold normalize. destruct (Nat.leb 2 (count_entries cs v)); [exact Hs|].
      destruct (nonempty v); [exact I|].
      destruct (first_nonblank cs 0) as [[idx c]|] eqn:Ef; [|exact I].
      destruct (first_nonblank_some _ _ _ _ Ef) as (j & _ & Hj & Hnth & _ & _).
      assert (Hc : stored H m c).
      { rewrite Forall_forall in Hs. apply Hs. rewrite <- Hnth. apply nth_In. exact Hj. }
      destruct c as [| q w | q d | ds w]; cbn [stored_sub].
      - exact Hc.
      - exact I.
      - apply stored_sub_of in Hc. exact Hc.
      - exact Hc.
    Qed.

    (* ================================================================ *)
    (* _delete *)
    Lemma good_decodable m t : good m t -> decodable H t.
    Proof. apply all_sub_impl. intros s (_ & Hd & _). exact Hd. Qed.

    Lemma good_branch_Forall m cs v : good m (NBranch cs v) -> Forall (good m) cs.
    Proof. unfold Refine_read.good. rewrite all_sub_branch. intros [_ Hc]. exact Hc. Qed.

    Lemma is_blank_tref c : is_blank (tref c) = is_nblank c.
    Proof.
      destruct (tref_cases H c) as [[-> Hr]|[(Hnb & Hl & Hr)|(Hnb & Hl & Hr)]]; rewrite Hr.
      - reflexivity.
      - destruct (enc_nonblank H c Hnb) as (x & l & He). rewrite He.
        destruct c; [contradiction|reflexivity..].
      - pose proof (H_len (ebody c)) as Hlen. destruct (H (ebody c)); [discriminate Hlen|].
        destruct c; [contradiction|reflexivity..].
    Qed.

    Lemma is_blank_enc c : is_blank (enc c) = is_nblank c.
    Proof. destruct c as [| q w | q d | ds w]; reflexivity. Qed.

    Definition dw_ok (t : node) (k : nibbles) : Prop := forall x, In x (dwrites t k) -> inj_ok x.

    Definition del_spec (t : node) : Prop :=
      forall fuel k r rc pd m,
        canonical_top t = true -> good m t -> inS t -> within m -> nibs_ok k = true ->
        (length k < fuel)%nat -> dw_ok t k ->
        wpost m (tdelete t k) r rc pd (_delete H BNH fuel (enc t) k (np r rc pd m)).

    Lemma wpost_same m t r rc pd : within m -> stored_sub m t ->
      wpost m t r rc pd (Ok (enc t), np r rc pd m).
    Proof.
      intros Hw Hs. exists m. split; [reflexivity|]. split; [apply sub_store_refl|]. split; assumption.
    Qed.

    Lemma del_spec_blank : del_spec NBlank.
    Proof.
      intros fuel k r rc pd m _ _ _ Hw _ Hfuel _. destruct fuel as [|f]; [lia|].
      cbn [_delete Tree.enc tdelete]. st_lift blank_classified.
      st_ok (_prune_node_np BLANK r rc pd m). apply (wpost_same m NBlank); [exact Hw|exact I].
    Qed.

    Lemma del_spec_leaf p pv : del_spec (NLeaf p pv).
    Proof.
      intros fuel k r rc pd m Hc _ _ Hw Hk Hfuel _. destruct fuel as [|f]; [lia|].
      pose proof (Tree_traverse_proofs.canonical_wf _ Hc) as Hwf. cbn [wf] in Hwf.
      destruct (leaf_classified p (RStr pv) Hwf) as [Ht Hx].
      cbn [_delete]. rewrite enc_leaf. st_lift Ht.
      st_ok (_prune_node_np (RList [RStr (HP p true); RStr pv]) r rc pd m). st_lift Hx.
      rewrite Tree_canon.tdelete_leaf.
      destruct (nibbles_eqb k p) eqn:Ekp.
      - apply nibbles_eqb_eq in Ekp. subst k.
        assert (Hks : key_starts_with p p = true).
        { rewrite <- (app_nil_r p) at 1. apply key_starts_with_app. }
        rewrite Hks. cbn [negb]. apply (wpost_same m NBlank); [exact Hw|exact I].
      - destruct (negb (key_starts_with k p)); apply (wpost_same m (NLeaf p pv)); (exact Hw || exact I).
    Qed.

    Lemma canonical_top_ext_inv p c : canonical_top (NExt p c) = true ->
      nibs_ok p = true /\ p <> [] /\ canonical_top c = true.
    Proof.
      intro Hc. apply Tree_canon.canonical_top_nonblank in Hc; [|reflexivity].
      rewrite Tree_canon.canonical_ext in Hc.
      apply andb_true_iff in Hc as [Hc H4]. apply andb_true_iff in Hc as [Hc H3].
      apply andb_true_iff in Hc as [H1 H2].
      split; [exact H1|]. split; [intros ->; discriminate H2|].
      apply Tree_canon.canonical_canonical_top. exact H4.
    Qed.

    Lemma inS_ext_inv p c : inS (NExt p c) -> inS c.
    Proof. unfold inS. rewrite all_sub_ext. intros [_ Hc]. exact Hc. Qed.

    Lemma stored_ext_inv m p c : stored H m (NExt p c) -> stored H m c.
    Proof. unfold stored. rewrite all_sub_ext. intros [_ Hc]. exact Hc. Qed.

    Lemma del_spec_ext p c : del_spec c -> del_spec (NExt p c).
    Proof.
      intros IH fuel k r rc pd m Hc Hg Hin Hw Hk Hfuel Hdw. destruct fuel as [|f]; [lia|].
      destruct (canonical_top_ext_inv _ _ Hc) as (Hp & Hpne & Hcc).
      pose proof (Tree_traverse_proofs.canonical_wf _ Hcc) as Hwc.
      pose proof (good_ext _ _ _ Hg) as Hgc.
      destruct (extension_classified p (tref c) Hp) as [Ht Hx].
      cbn [_delete]. rewrite enc_ext. st_lift Ht.
      st_ok (_prune_node_np (RList [RStr (HP p false); tref c]) r rc pd m). st_lift Hx.
      rewrite Tree_map.tdelete_ext.
      assert (Hst : stored_sub m (NExt p c)) by (cbn [stored_sub]; apply good_stored; exact Hgc).
      destruct (key_starts_with k p) eqn:Eks; cbn [negb].
      2:{ rewrite <- enc_ext. apply wpost_same; assumption. }
      cbv zeta. cbn [kv_second].
      rewrite (dwrites_ext _ _ _ Eks) in Hdw || (unfold dw_ok in Hdw; rewrite (dwrites_ext _ _ _ Eks) in Hdw).
      pose proof (tm_ksw_split _ _ Eks) as Hksplit.
      assert (Hk' : nibs_ok (skipn (length p) k) = true) by (apply tm_nibs_ok_skipn; exact Hk).
      assert (Hlen : (length (skipn (length p) k) < f)%nat).
      { rewrite Hksplit, app_length in Hfuel. destruct p; [contradiction|]. cbn [length] in *. lia. }
      assert (Hdwc : dw_ok c (skipn (length p) k)).
      { intros x Hx'. apply Hdw. right. exact Hx'. }
      pose proof (Hdw _ (or_introl eq_refl)) as Hinj'.
      pose proof (IH f (skipn (length p) k) r rc pd m Hcc Hgc (inS_ext_inv _ _ Hin) Hw Hk' Hlen Hdwc)
        as (m1 & E1 & Hs1 & Hw1 & Hst1).
      set (c' := tdelete c (skipn (length p) k)) in *.
      st_ok (get_node_good c r rc pd m Hgc). st_ok E1.
      destruct Hinj' as (Hwc' & Hinc' & Hdc').
      destruct (persist_step c' r rc pd m1 Hwc' Hw1 (inS_here_of _ Hinc') Hst1) as (m2 & E2 & Hs2 & Hw2 & Hst2).
      st_ok E2.
      assert (Hs12 : sub_store m m2) by (eapply sub_store_trans; eassumption).
      apply (wpost_mono m m2); [exact Hs12|].
      destruct (node_eqb c' c) eqn:Ecc.
      - apply node_eqb_eq in Ecc. rewrite Ecc. rewrite item_eqb_refl. rewrite <- enc_ext.
        apply wpost_same; [exact Hw2|]. apply (stored_sub_mono m); assumption.
      - assert (Hne : tref c' <> tref c).
        { intro Heq. apply tref_inj in Heq.
          - rewrite Heq, node_eqb_refl in Ecc. discriminate Ecc.
          - repeat split; assumption.
          - split; [exact Hwc|]. split; [apply (inS_ext_inv _ _ Hin)|apply (good_decodable _ _ Hgc)]. }
        rewrite (item_eqb_neq _ _ Hne). rewrite is_blank_enc.
        destruct c' as [| q w | q d | ds w]; cbn [is_nblank merge_ext].
        + apply (wpost_same m2 NBlank); [exact Hw2|exact I].
        + cbn [wf] in Hwc'. destruct (leaf_classified q (RStr w) Hwc') as [Ht' _].
          rewrite enc_leaf. st_lift Ht'. st_ok (_prune_node_np (RList [RStr (HP q true); RStr w]) r rc pd m2).
          cbn [kv_first kv_second]. st_lift (decode_key_HP q true Hwc').
          rewrite with_flag_app.
          assert (Hok : nibs_ok (p ++ q) = true) by (rewrite nibs_ok_app, Hp, Hwc'; reflexivity).
          st_lb (encode_nibbles_HP (p ++ q) true Hok). rewrite <- enc_leaf.
          apply wpost_same; [exact Hw2|exact I].
        + cbn [wf] in Hwc'. apply andb_true_iff in Hwc' as [Hq Hwd].
          destruct (extension_classified q (tref d) Hq) as [Ht' _].
          rewrite enc_ext. st_lift Ht'. st_ok (_prune_node_np (RList [RStr (HP q false); tref d]) r rc pd m2).
          cbn [kv_first kv_second]. st_lift (decode_key_HP q false Hq).
          rewrite with_flag_app.
          assert (Hok : nibs_ok (p ++ q) = true) by (rewrite nibs_ok_app, Hp, Hq; reflexivity).
          st_lb (encode_nibbles_HP (p ++ q) false Hok). rewrite <- enc_ext.
          apply wpost_same; [exact Hw2|]. cbn [stored_sub]. apply (stored_ext_inv _ _ _ Hst2).
        + pose proof Hwc' as Hwc''. rewrite wf_branch in Hwc''. apply andb_true_iff in Hwc'' as [Hld _].
          apply Nat.eqb_eq in Hld. st_lift (branch_enc_classified H ds w Hld).
          st_lb (encode_nibbles_HP p false Hp). rewrite <- enc_ext.
          apply wpost_same; [exact Hw2|exact Hst2].
    Qed.

    Lemma canonical_top_branch_inv cs v : canonical_top (NBranch cs v) = true ->
      length cs = 16%nat /\ (2 <= count_entries cs v)%nat /\ forallb canonical_top cs = true.
    Proof.
      intro Hc. apply Tree_canon.canonical_top_nonblank in Hc; [|reflexivity].
      rewrite Tree_canon.canonical_branch in Hc.
      apply andb_true_iff in Hc as [Hc H3]. apply andb_true_iff in Hc as [H1 H2].
      apply Nat.eqb_eq in H1. apply Nat.leb_le in H2. auto.
    Qed.

    Lemma count_entries_drop_value cs v : (count_entries cs v <= S (count_entries cs []))%nat.
    Proof. rewrite !count_entries_eq. destruct (nonempty v); cbn [nonempty]; lia. Qed.

    Lemma count_entries_blank_child cs v i : (N.to_nat i < length cs)%nat ->
      (count_entries cs v <= S (count_entries (set_child cs i NBlank) v))%nat.
    Proof.
      intro Hi. rewrite !Tree_canon.count_entries_nb. unfold set_child.
      destruct (nth_error cs (N.to_nat i)) as [c|] eqn:En.
      - pose proof (Tree_canon.nb_list_set cs _ c NBlank En) as Hnb.
        pose proof (Tree_canon.nbw_le c) as Hle. cbn in Hnb. lia.
      - apply nth_error_None in En. lia.
    Qed.

    Lemma Forall_good_set_blank m cs i : Forall (good m) cs -> Forall (good m) (set_child cs i NBlank).
    Proof. intro Hg. apply rw_Forall_list_set; [exact Hg|apply good_blank]. Qed.

    Lemma del_spec_branch cs bv : Forall del_spec cs -> del_spec (NBranch cs bv).
    Proof.
      intros IH fuel k r rc pd m Hc Hg Hin Hw Hk Hfuel Hdw. destruct fuel as [|f]; [lia|].
      destruct (canonical_top_branch_inv _ _ Hc) as (Hl & Hcnt & Hcc).
      pose proof (Tree_traverse_proofs.canonical_wf _ Hc) as Hwf.
      pose proof Hwf as Hwf'. rewrite wf_branch in Hwf'. apply andb_true_iff in Hwf' as [_ Hall].
      pose proof (good_branch_Forall _ _ _ Hg) as Hgcs.
      pose proof (good_branch_stored _ _ _ Hg) as Hscs.
      cbn [_delete]. st_lift (branch_enc_classified H cs bv Hl).
      st_ok (_prune_node_np (enc (NBranch cs bv)) r rc pd m).
      destruct k as [|k0 kt].
      - rewrite tdelete_branch_nil. change BLANK with (RStr []).
        rewrite (branch_set_value_enc _ _ _ Hl).
        rewrite normalize_np; [|exact Hl|exact Hall| |exact Hgcs].
        + apply wpost_same; [exact Hw|]. apply stored_sub_normalize. exact Hscs.
        + pose proof (count_entries_drop_value cs bv). lia.
      - apply nibs_ok_cons_inv in Hk as [Hk0 Hkt].
        assert (Hk0l : (N.to_nat k0 < length cs)%nat) by (rewrite Hl; lia).
        rewrite (tdelete_branch _ _ _ _ Hk0l). cbv zeta.
        unfold dw_ok in Hdw. rewrite (dwrites_branch _ _ _ _ Hk0l) in Hdw.
        rewrite (branch_child_enc H cs bv k0 Hl Hk0).
        pose proof (good_child H BNH m cs bv k0 Hg) as Hgc.
        assert (IHc : del_spec (child cs k0)).
        { destruct (child_in_or_blank cs k0) as [Hi| ->]; [|apply del_spec_blank].
          rewrite Forall_forall in IH. apply IH. exact Hi. }
        assert (Hccc : canonical_top (child cs k0) = true) by (apply Tree_unique.canonical_top_nth; exact Hcc).
        assert (Hdwc : dw_ok (child cs k0) kt).
        { intros x Hx'. apply Hdw. right. exact Hx'. }
        pose proof (Hdw _ (or_introl eq_refl)) as Hinj'.
        cbn [length] in Hfuel.
        pose proof (IHc f kt r rc pd m Hccc Hgc (inS_child _ _ k0 Hin) Hw Hkt ltac:(lia) Hdwc)
          as (m1 & E1 & Hs1 & Hw1 & Hst1).
        set (c := child cs k0) in *. set (c' := tdelete c kt) in *.
        st_ok (get_node_good c r rc pd m Hgc). st_ok E1.
        destruct Hinj' as (Hwc' & Hinc' & Hdc').
        destruct (persist_step c' r rc pd m1 Hwc' Hw1 (inS_here_of _ Hinc') Hst1) as (m2 & E2 & Hs2 & Hw2 & Hst2).
        st_ok E2.
        assert (Hs12 : sub_store m m2) by (eapply sub_store_trans; eassumption).
        apply (wpost_mono m m2); [exact Hs12|].
        assert (Hscs2 : Forall (stored H m2) cs).
        { eapply Forall_impl; [|exact Hscs]. intros x Hx'. apply (stored_mono H m); assumption. }
        destruct (node_eqb c' c) eqn:Ecc.
        + apply node_eqb_eq in Ecc. rewrite Ecc. rewrite item_eqb_refl.
          apply wpost_same; [exact Hw2|exact Hscs2].
        + assert (Hne : tref c' <> tref c).
          { intro Heq. apply tref_inj in Heq.
            - rewrite Heq, node_eqb_refl in Ecc. discriminate Ecc.
            - repeat split; assumption.
            - split; [apply (Tree_traverse_proofs.canonical_wf _ Hccc)|].
              split; [apply (inS_child _ _ k0 Hin)|apply (good_decodable _ _ Hgc)]. }
          rewrite (item_eqb_neq _ _ Hne). rewrite (branch_set_enc _ _ _ _ Hl Hk0). rewrite is_blank_tref.
          destruct (is_nblank c') eqn:Eb.
          * apply is_nblank_true in Eb. rewrite Eb.
            rewrite normalize_np.
            -- apply wpost_same; [exact Hw2|]. apply stored_sub_normalize.
               apply Forall_stored_set_child; [exact Hscs2|apply stored_blank].
            -- rewrite length_set_child. exact Hl.
            -- apply forallb_wf_set_child; [exact Hall|reflexivity].
            -- pose proof (count_entries_blank_child cs bv k0 Hk0l). lia.
            -- apply Forall_good_set_blank. eapply Forall_impl; [|exact Hgcs].
               intros x Hx'. apply (good_mono m); assumption.
          * apply wpost_same; [exact Hw2|]. cbn [stored_sub].
            apply Forall_stored_set_child; [exact Hscs2|exact Hst2].
    Qed.

    (* the raw-node algorithm on the encoding of a canonical tree computes the encoding of tdelete *)
    Theorem _delete_refines t : del_spec t.
    Proof.
      induction t as [| p pv | p c IH | cs bv IH] using node_ind'.
      - apply del_spec_blank.
      - apply del_spec_leaf.
      - apply del_spec_ext. exact IH.
      - apply del_spec_branch. exact IH.
    Qed.

    Theorem delete_inner_refines m r t key :
      represents H m r t -> canonical_top t = true -> decodable H t ->
      no_blank_collision H BNH t -> within m -> inS t ->
      dw_ok t (bytes_to_nibbles key) ->
      wpost m (tdelete t (bytes_to_nibbles key)) r [] None
        (bind getst (fun s => bind (get_node BNH (RStr (t_root s))) (fun root =>
           _delete H BNH (write_fuel key) root (bytes_to_nibbles key))) (np r [] None m)).
    Proof.
      intros Hrep Hc Hd Hn Hw Hin Hdw.
      rewrite bind_getst. cbn [t_root np]. st_ok (get_root_np m r t [] None Hrep Hd Hn).
      apply _delete_refines; try assumption.
      - apply good_intro; [apply Hrep|exact Hd|apply Hn].
      - apply bytes_to_nibbles_ok.
      - unfold write_fuel. rewrite length_bytes_to_nibbles. lia.
    Qed.

    Theorem delete_refines m r t key :
      represents H m r t -> canonical_top t = true -> decodable H t ->
      no_blank_collision H BNH t -> within m -> inS t ->
      dw_ok t (bytes_to_nibbles key) ->
      inS_top (tdelete t (bytes_to_nibbles key)) ->
      exists m', delete H BNH key (plain m r)
                 = (Ok tt, plain m' (troot H (tdelete t (bytes_to_nibbles key)))) /\
                 sub_store m m' /\ within m' /\
                 represents H m' (troot H (tdelete t (bytes_to_nibbles key)))
                            (tdelete t (bytes_to_nibbles key)).
    Proof.
      intros Hrep Hc Hd Hn Hw Hin Hdw Htop. unfold delete.
      apply write_np; [|exact Htop|apply delete_inner_refines; assumption].
      apply wf_tdelete; [apply Tree_traverse_proofs.canonical_wf; exact Hc|apply bytes_to_nibbles_ok].
    Qed.

    (* set(key, b"") is a delete *)
    Theorem set_empty_refines m r t key :
      represents H m r t -> canonical_top t = true -> decodable H t ->
      no_blank_collision H BNH t -> within m -> inS t ->
      dw_ok t (bytes_to_nibbles key) ->
      inS_top (tdelete t (bytes_to_nibbles key)) ->
      exists m', set H BNH key [] (plain m r)
                 = (Ok tt, plain m' (troot H (tdelete t (bytes_to_nibbles key)))) /\
                 sub_store m m' /\ within m' /\
                 represents H m' (troot H (tdelete t (bytes_to_nibbles key)))
                            (tdelete t (bytes_to_nibbles key)).
    Proof.
      intros Hrep Hc Hd Hn Hw Hin Hdw Htop. unfold set.
      apply write_np; [|exact Htop|apply delete_inner_refines; assumption].
      apply wf_tdelete; [apply Tree_traverse_proofs.canonical_wf; exact Hc|apply bytes_to_nibbles_ok].
    Qed.

    (* one API write *)
    Definition dwrite (w : wop) : M unit :=
      match w with
      | (k, Some v) => set H BNH k v
      | (k, None) => delete H BNH k
      end.

    Theorem write_refines m r t w :
      represents H m r t -> canonical_top t = true -> decodable H t ->
      no_blank_collision H BNH t -> within m -> inS t ->
      (forall x, In x (op_writes t (top_of w)) -> inj_ok x) ->
      inS_top (tapply t (top_of w)) ->
      exists m', dwrite w (plain m r) = (Ok tt, plain m' (troot H (tapply t (top_of w)))) /\
                 sub_store m m' /\ within m' /\
                 represents H m' (troot H (tapply t (top_of w))) (tapply t (top_of w)).
    Proof.
      intros Hrep Hc Hd Hn Hw Hin Hdw Htop.
      destruct w as [k [[|v0 v']|]]; cbn [dwrite top_of tapply op_writes] in *.
      - apply set_empty_refines; assumption.
      - apply set_refines; try assumption.
        + apply Tree_traverse_proofs.canonical_wf; exact Hc.
        + apply canonical_top_ext_ok; exact Hc.
        + discriminate.
      - apply delete_refines; assumption.
    Qed.

  End WithS.

  (* ================================================================ *)
  (* histories of API writes *)
  Fixpoint wrun (ws : list wop) (s : trie) : list (result unit) * trie :=
    match ws with
    | [] => ([], s)
    | w :: ws' =>
        let '(r, s1) := dwrite w s in
        let '(rs, s2) := wrun ws' s1 in (r :: rs, s2)
    end.

  Lemma inS_top_of_incl SB t : incl (tree_bodies H t) SB -> inS_top SB t.
  Proof.
    intro Hi. split.
    - intro Hnb. apply Hi. unfold tree_bodies. apply in_or_app. left.
      destruct t; [contradiction|left; reflexivity..].
    - unfold inS, inS_here, long. apply (hashed_all H (fun b => In b SB)).
      intros b Hb _. apply Hi. unfold tree_bodies. apply in_or_app. right. exact Hb.
  Qed.

  Lemma op_writes_wf t w : wf t = true -> forall x, In x (op_writes t (top_of w)) -> wf x = true.
  Proof.
    intros Hwf x Hx. destruct w as [k [[|v0 v']|]]; cbn [top_of op_writes] in Hx.
    - apply (dwrites_wf t _ Hwf (bytes_to_nibbles_ok k) _ Hx).
    - destruct Hx.
    - apply (dwrites_wf t _ Hwf (bytes_to_nibbles_ok k) _ Hx).
  Qed.

  Lemma represents_empty : represents H [] BNH NBlank.
  Proof.
    split; [rewrite BNH_def; reflexivity|]. split; [left; reflexivity|].
    split; [|exact I]. intro Hl. discriminate Hl.
  Qed.

  Lemma run_refines SB (cfS : cf H SB) (HSB : In (rlp_encode (RStr [])) SB) ws : forall t m,
    represents H m (troot H t) t -> canonical_top t = true -> decodable H t ->
    no_blank_collision H BNH t -> within SB m -> inS SB t ->
    incl (flat_map (tree_bodies H) (hist_trees t (map top_of ws))) SB ->
    Forall (decodable H) (hist_trees t (map top_of ws)) ->
    exists m',
      wrun ws (plain m (troot H t))
      = (map (fun _ => Ok tt) ws, plain m' (troot H (fold_left tapply (map top_of ws) t))) /\
      sub_store m m' /\ within SB m' /\
      represents H m' (troot H (fold_left tapply (map top_of ws) t)) (fold_left tapply (map top_of ws) t) /\
      decodable H (fold_left tapply (map top_of ws) t) /\
      no_blank_collision H BNH (fold_left tapply (map top_of ws) t).
  Proof.
    induction ws as [|w ws IH]; intros t m Hrep Hc Hd Hn Hw Hin Hincl Hdec.
    - exists m. cbn [wrun map fold_left]. split; [reflexivity|]. split; [apply sub_store_refl|].
      split; [exact Hw|]. split; [exact Hrep|]. split; [exact Hd|exact Hn].
    - cbn [map hist_trees] in Hincl, Hdec. rewrite flat_map_app in Hincl. rewrite Forall_app in Hdec.
      destruct Hdec as [Hdec1 Hdec2].
      apply incl_app_inv in Hincl as [Hincl1 Hincl2]. cbn [flat_map] in Hincl1.
      apply incl_app_inv in Hincl1 as [Hincl0 Hincl1].
      inversion Hdec1 as [|? ? Hd1 Hdw]; subst.
      set (t1 := tapply t (top_of w)) in *.
      assert (Htop1 : inS_top SB t1) by (apply inS_top_of_incl; exact Hincl0).
      assert (Hc1 : canonical_top t1 = true).
      { apply Tree_canon.canonical_tapply; [exact Hc|]. exact (op_ok_top_of w). }
      assert (Hn1 : no_blank_collision H BNH t1).
      { apply (no_blank_collision_of_cf H BNH BNH_def); [apply (all_sub_here _ _ Hd1)|].
        apply (cf_incl H SB); [|exact cfS]. intros b [<-|Hb]; [exact HSB|apply Hincl0; exact Hb]. }
      assert (Hinj : forall x, In x (op_writes t (top_of w)) -> inj_ok SB x).
      { intros x Hx. split; [|split].
        - apply (op_writes_wf t w); [apply Tree_traverse_proofs.canonical_wf; exact Hc|exact Hx].
        - apply inS_top_of_incl. intros b Hb. apply Hincl1. apply in_flat_map. exists x. split; assumption.
        - rewrite Forall_forall in Hdw. apply Hdw. exact Hx. }
      destruct (write_refines SB cfS m (troot H t) t w Hrep Hc Hd Hn Hw Hin Hinj Htop1)
        as (m1 & E1 & Hs1 & Hw1 & Hrep1).
      destruct (IH t1 m1 Hrep1 Hc1 Hd1 Hn1 Hw1 (proj2 Htop1) Hincl2 Hdec2)
        as (m2 & E2 & Hs2 & Hw2 & Hrep2 & Hd2 & Hn2).
      exists m2. cbn [wrun map fold_left]. fold t1. rewrite E1. cbv beta iota. fold t1. rewrite E2.
      split; [reflexivity|]. split; [eapply sub_store_trans; eassumption|].
      split; [exact Hw2|]. split; [exact Hrep2|]. split; [exact Hd2|exact Hn2].
  Qed.

  (* the node bodies among which H must be collision-free along a history *)
  Definition hist_bodies (ws : list wop) : list bytes :=
    rlp_encode (RStr []) :: flat_map (tree_bodies H) (hist_trees NBlank (map top_of ws)).

  Definition hist_decodable (ws : list wop) : Prop :=
    Forall (decodable H) (hist_trees NBlank (map top_of ws)).

  Theorem C01_D_nonpruning ws :
    cf H (hist_bodies ws) -> hist_decodable ws ->
    let ops := map top_of ws in
    exists m,
      wrun ws (empty_trie BNH false) = (map (fun _ => Ok tt) ws, plain m (troot H (trun ops))) /\
      represents H m (troot H (trun ops)) (trun ops) /\
      content_addressed H m /\
      (forall k, fst (get BNH k (plain m (troot H (trun ops)))) = Ok (spec_run ops (bytes_to_nibbles k))) /\
      (forall J, Tree_unique.good_bindings J ->
         (forall q, nibs_ok q = true -> lookup J q = spec_run ops q) ->
         t_root (plain m (troot H (trun ops))) = yp_root H J).
  Proof.
    intros Hcf Hdec ops.
    assert (HSB : In (rlp_encode (RStr [])) (hist_bodies ws)) by (left; reflexivity).
    destruct (run_refines (hist_bodies ws) Hcf HSB ws NBlank []) as (m & E & _ & Hw & Hrep & Hd & Hn).
    - replace (troot H NBlank) with BNH by (rewrite BNH_def; reflexivity). apply represents_empty.
    - reflexivity.
    - split; [reflexivity|exact I].
    - split; [intro Hx; contradiction|]. split; [|exact I]. intro Hl. discriminate Hl.
    - intros h b Hg. discriminate Hg.
    - apply inS_blank.
    - intros b Hb. right. exact Hb.
    - exact Hdec.
    - fold ops in E, Hrep. fold (trun ops) in E, Hrep.
      replace (troot H NBlank) with BNH in E by (rewrite BNH_def; reflexivity).
      exists m. split; [exact E|]. split; [exact Hrep|].
      pose proof (ops_ok_top_of ws) as Hops. fold ops in Hops.
      assert (Hc : canonical_top (trun ops) = true) by (apply Tree_canon.C02_canonical; exact Hops).
      split; [intros h b Hg; apply (Hw h b Hg)|]. split.
      + intro k.
        rewrite (C01_lookup_total_D H BNH H_len BNH_def m _ (trun ops) Hrep).
        * f_equal. apply C01_map_T; [exact Hops|apply bytes_to_nibbles_ok].
        * apply Tree_traverse_proofs.canonical_wf; exact Hc.
        * apply canonical_top_ext_ok; exact Hc.
        * exact Hd.
        * exact Hn.
      + intros J HJ Hl. cbn [t_root plain]. apply Tree_unique.C02_yellow_paper; assumption.
  Qed.

  (* with canonicity, decodability follows from a size bound on the same bodies *)
  Lemma hist_decodable_of_small ws :
    Forall (fun b => blen b < 2 ^ 64) (hist_bodies ws) -> hist_decodable ws.
  Proof.
    intro Hs. unfold hist_decodable. pose proof (hist_trees_canonical ws NBlank eq_refl) as Hc.
    rewrite Forall_forall in Hc, Hs |- *. intros x Hx. apply decodable_canonical; [apply Hc; exact Hx|].
    intros b Hb. apply Hs. right. apply in_flat_map. exists x. split; assumption.
  Qed.

  Theorem C01_D_nonpruning_small ws :
    cf H (hist_bodies ws) -> Forall (fun b => blen b < 2 ^ 64) (hist_bodies ws) ->
    let ops := map top_of ws in
    exists m,
      wrun ws (empty_trie BNH false) = (map (fun _ => Ok tt) ws, plain m (troot H (trun ops))) /\
      represents H m (troot H (trun ops)) (trun ops) /\
      content_addressed H m /\
      (forall k, fst (get BNH k (plain m (troot H (trun ops)))) = Ok (spec_run ops (bytes_to_nibbles k))) /\
      (forall J, Tree_unique.good_bindings J ->
         (forall q, nibs_ok q = true -> lookup J q = spec_run ops q) ->
         t_root (plain m (troot H (trun ops))) = yp_root H J).
  Proof. intros Hcf Hs. apply C01_D_nonpruning; [exact Hcf|apply hist_decodable_of_small; exact Hs]. Qed.

End RefineWrite.

Check _set_refines.
Check _delete_refines.
Check set_refines.
Check delete_refines.
Check write_refines.
Check C01_D_nonpruning.
Print Assumptions _set_refines.
Print Assumptions _delete_refines.
Print Assumptions set_refines.
Print Assumptions delete_refines.
Print Assumptions write_refines.
Print Assumptions C01_D_nonpruning.
Check decodable_canonical.
Print Assumptions decodable_canonical.
Check C01_D_nonpruning_small.
Print Assumptions C01_D_nonpruning_small.

(* ================================================================== *)
(* Non-vacuity and necessity of the premises, with Keccak-256 *)
From PyTrie.Base Require Import Keccak.

Section WriteExamples.
  (* a boolean check of collision-freeness over a list of (body, hash) pairs *)
  Definition cf_pairs (l : list (bytes * bytes)) : bool :=
    forallb (fun x => forallb (fun y => implb (bytes_eqb (snd x) (snd y)) (bytes_eqb (fst x) (fst y))) l) l.

  Lemma cf_check (H : bytes -> bytes) (S : list bytes) :
    cf_pairs (map (fun b => (b, H b)) S) = true -> cf H S.
  Proof.
    unfold cf_pairs. rewrite forallb_forall. intros Hc x y Hx Hy Heq.
    specialize (Hc (x, H x) (in_map _ _ _ Hx)). rewrite forallb_forall in Hc.
    specialize (Hc (y, H y) (in_map _ _ _ Hy)). cbn [fst snd] in Hc.
    rewrite Heq, bytes_eqb_refl in Hc. cbn [implb] in Hc. apply bytes_eqb_eq. exact Hc.
  Qed.

  Definition smallb (l : list bytes) : bool := forallb (fun b => blen b <? 2 ^ 64) l.
  Lemma smallb_sound l : smallb l = true -> Forall (fun b => blen b < 2 ^ 64) l.
  Proof.
    unfold smallb. rewrite forallb_forall. intro Hl. apply Forall_forall. intros b Hb.
    apply N.ltb_lt. apply Hl. exact Hb.
  Qed.

  (* a history exercising: leaf split into extension + branch, extension split (key ends inside the
     path, one nibble left), top-level split, delete with branch normalisation into a leaf,
     delete of a branch value with merge through two levels, set(k, b"") routed to delete,
     delete of an absent key, overwrite *)
  Definition ex_ws : list wop :=
    [ ([x12; x34], Some (repeat x61 40));
      ([x12; x35], Some (repeat x62 40));
      ([x12], Some [x78]);
      ([x56; x78], Some [x73; x68]);
      ([x12; x35], None);
      ([x12; x34], Some (repeat x63 33));
      ([x12], None);
      ([x56; x78], Some []);
      ([x99; x99], None);
      ([x12; x34], None) ].

  Example ex_ws_cf : cf K (hist_bodies K ex_ws).
  Proof. apply cf_check. vm_compute. reflexivity. Qed.

  Example ex_ws_small : Forall (fun b => blen b < 2 ^ 64) (hist_bodies K ex_ws).
  Proof. apply smallb_sound. vm_compute. reflexivity. Qed.

  (* the premises hold for this history, so the theorem applies ... *)
  Example ex_ws_theorem :
    exists m,
      wrun K BN ex_ws (empty_trie BN false)
      = (map (fun _ => Ok tt) ex_ws, plain m (troot K (trun (map top_of ex_ws)))) /\
      represents K m (troot K (trun (map top_of ex_ws))) (trun (map top_of ex_ws)).
  Proof.
    destruct (C01_D_nonpruning_small K BN K_len BN_def ex_ws ex_ws_cf ex_ws_small) as (m & E & Hr & _).
    exists m. split; assumption.
  Qed.

  (* ... and, evaluated directly, the D-level run ends in the root of the T-level run at every
     prefix of the history *)
  Example ex_ws_eval :
    forallb (fun n =>
      let ws := firstn n ex_ws in
      let '(rs, s) := wrun K BN ws (empty_trie BN false) in
      forallb (fun r => match r with Ok _ => true | Err _ => false end) rs &&
      bytes_eqb (t_root s) (troot K (trun (map top_of ws)))) (seq 0 11) = true.
  Proof. vm_compute. reflexivity. Qed.

  (* the trees of the history really contain hashed and embedded nodes, extensions and branches *)
  Example ex_ws_shapes :
    map (fun n => match trun (map top_of (firstn n ex_ws)) with
                  | NBlank => 0 | NLeaf _ _ => 1 | NExt _ _ => 2 | NBranch _ _ => 3 end) (seq 0 11)
    = [0; 1; 2; 2; 3; 3; 3; 3; 1; 1; 0].
  Proof. vm_compute. reflexivity. Qed.
End WriteExamples.

Section WriteCounterexamples.
  (* (1) [canonical_top] is needed for _delete: on a well-formed but NON-canonical tree (a branch
     whose only entry is one leaf) the tree level returns NBlank, the database level raises
     StopIteration (tag 22) inside _normalize_branch_node.  Such trees are not reachable by
     histories (Tree_canon.C02_canonical), so this is a difference on unreachable inputs only. *)
  Definition cxw1_t : node := NBranch (put 1 (NLeaf [] [x61]) blanks16) [].
  Example cxw1 :
    wf cxw1_t = true /\ ext_ok cxw1_t = true /\ canonical_top cxw1_t = false /\
    tdelete cxw1_t [1] = NBlank /\
    fst (_delete K BN 5 (enc K cxw1_t) [1] (np BN [] None [])) = Err (Exn 22 []).
  Proof. vm_compute. repeat split. Qed.

  (* (2) collision-freeness is needed: with the constant "hash" every hashed node collides with
     BLANK_NODE_HASH; after set(k, v) with a 40-byte value the root (a hashed leaf) reads as the
     blank node and the value is lost, while the tree level returns it. *)
  Definition Hc (_ : bytes) : bytes := repeat x00 32.
  Definition BNc : bytes := Hc (rlp_encode (RStr [])).
  Example cxw2 :
    let s := snd (set Hc BNc [x12] (repeat x61 40) (empty_trie BNc false)) in
    (forall x, length (Hc x) = 32%nat) /\
    fst (set Hc BNc [x12] (repeat x61 40) (empty_trie BNc false)) = Ok tt /\
    fst (get BNc [x12] s) = Ok [] /\
    tget (tset NBlank (bytes_to_nibbles [x12]) (repeat x61 40)) (bytes_to_nibbles [x12]) = repeat x61 40.
  Proof. cbv zeta. split; [intro x; reflexivity|]. vm_compute. repeat split. Qed.

  (* (3) the bodies persisted-then-merged by _delete ([dwrites]) are really written: after the
     delete below the store keeps a node that is not a sub-tree of the resulting tree (the
     intermediate leaf that is merged into its parent extension), which is why the
     collision-freeness premise ranges over [hist_trees] and not only over the trees [trun]. *)
  Definition cxw3_ws : list wop :=
    [ ([x12; x34], Some (repeat x61 40)); ([x12; x35], Some (repeat x62 40)); ([x12; x35], None) ].
  Example cxw3 :
    let '(_, s) := wrun K BN cxw3_ws (empty_trie BN false) in
    let t := trun (map top_of cxw3_ws) in
    let garbage := NLeaf [4] (repeat x61 40) in
    t = NLeaf [1; 2; 3; 4] (repeat x61 40) /\
    existsb (node_eqb garbage) (hist_trees NBlank (map top_of cxw3_ws)) = true /\
    match t_db s with
    | DPlain st => store_mem st (K (ebody K garbage))
    | DScratch _ => false
    end = true.
  Proof. vm_compute. repeat split. Qed.
End WriteCounterexamples.

Print Assumptions ex_ws_theorem.
Print Assumptions cxw1.
Print Assumptions cxw2.
Print Assumptions cxw3.
