(* Hexary/Raw_proofs.v — node-key helpers of Hexary/Raw.v against HP *)
From Coq Require Import List NArith Bool Lia.
From Coq.Init Require Import Byte.
From PyTrie.Base Require Import Bytes Bytes_proofs Result Nibbles Nibbles_proofs Rlp.
From PyTrie.Hexary Require Import Raw.
Import ListNotations.
Open Scope N_scope.

Theorem compute_leaf_key_HP ns : nibs_ok ns = true -> compute_leaf_key ns = Ok (HP ns true).
Proof.
  intro Hok. unfold compute_leaf_key. rewrite (add_term_ok ns Hok).
  exact (encode_nibbles_HP ns true Hok).
Qed.

Theorem compute_extension_key_HP ns :
  nibs_ok ns = true -> compute_extension_key ns = Ok (HP ns false).
Proof.
  intro Hok. unfold compute_extension_key. exact (encode_nibbles_HP ns false Hok).
Qed.

Theorem leaf_classified ns v : nibs_ok ns = true ->
   get_node_type (RList [RStr (HP ns true); v]) = Ok TLeaf /\
   extract_key (RList [RStr (HP ns true); v]) = Ok ns.
Proof.
  intro Hok. unfold get_node_type, extract_key, decode_key.
  rewrite (decode_nibbles_HP ns true Hok). cbn [rbind with_flag].
  rewrite is_term_snoc, N.eqb_refl, remove_term_snoc. split; reflexivity.
Qed.

Theorem extension_classified ns v : nibs_ok ns = true ->
   get_node_type (RList [RStr (HP ns false); v]) = Ok TExt /\
   extract_key (RList [RStr (HP ns false); v]) = Ok ns.
Proof.
  intro Hok. unfold get_node_type, extract_key, decode_key.
  rewrite (decode_nibbles_HP ns false Hok). cbn [rbind with_flag].
  rewrite (is_term_ok ns Hok), (remove_term_ok ns Hok). split; reflexivity.
Qed.

Theorem branch_classified l : length l = 17%nat -> get_node_type (RList l) = Ok TBranch.
Proof.
  intro Hlen.
  destruct l as [|a [|b [|c l]]]; try discriminate Hlen.
  unfold get_node_type. rewrite Hlen. reflexivity.
Qed.

Theorem blank_classified : get_node_type (RStr []) = Ok TBlank.
Proof. reflexivity. Qed.

Print Assumptions compute_leaf_key_HP.
Print Assumptions compute_extension_key_HP.
Print Assumptions leaf_classified.
Print Assumptions extension_classified.
Print Assumptions branch_classified.
Print Assumptions blank_classified.
