(* Hexary/Tree_map.v — the tree-level algorithms tset / tdelete / tget implement a finite
   map over all nibble paths. *)
From Coq Require Import List NArith ZArith Bool Lia ZifyBool.
From PyTrie.Base Require Import Bytes Result Nibbles Bytes_proofs.
From PyTrie.Hexary Require Import Raw Tree Tree_aux.
Import ListNotations.
Open Scope N_scope.

(* ================= induction principle ================= *)
Fixpoint node_ind' (P : node -> Prop)
  (HB : P NBlank) (HL : forall p v, P (NLeaf p v))
  (HE : forall p c, P c -> P (NExt p c))
  (HBr : forall cs v, Forall P cs -> P (NBranch cs v)) (t : node) {struct t} : P t :=
  match t with
  | NBlank => HB
  | NLeaf p v => HL p v
  | NExt p c => HE p c (node_ind' P HB HL HE HBr c)
  | NBranch cs v =>
      HBr cs v ((fix go (cs : list node) : Forall P cs :=
                   match cs with
                   | [] => Forall_nil P
                   | c :: cs' => Forall_cons c (node_ind' P HB HL HE HBr c) (go cs')
                   end) cs)
  end.

(* ================= node_eqb ================= *)
Definition nodes_eqb : list node -> list node -> bool :=
  fix go (cs ds : list node) : bool :=
    match cs, ds with
    | [], [] => true
    | c :: cs', d :: ds' => node_eqb c d && go cs' ds'
    | _, _ => false
    end.

Lemma node_eqb_branch cs v ds w :
  node_eqb (NBranch cs v) (NBranch ds w) = nodes_eqb cs ds && bytes_eqb v w.
Proof. reflexivity. Qed.

Lemma nodes_eqb_eq cs :
  Forall (fun c => forall b, node_eqb c b = true <-> c = b) cs ->
  forall ds, nodes_eqb cs ds = true <-> cs = ds.
Proof.
  intro HF. induction HF as [|c cs Hc _ IH]; intros [|d ds]; cbn [nodes_eqb];
    split; intro Hab; try reflexivity; try discriminate.
  - apply andb_true_iff in Hab as [H1 H2]. apply Hc in H1. apply IH in H2. congruence.
  - injection Hab as -> ->. apply andb_true_iff. split; [apply Hc | apply IH]; reflexivity.
Qed.

Lemma node_eqb_eq a b : node_eqb a b = true <-> a = b.
Proof.
  revert b. induction a as [|p v|p c IH|cs v IH] using node_ind'; intros b.
  - destruct b; cbn [node_eqb]; split; intro Hab; try reflexivity; discriminate.
  - destruct b as [|q w|q d|ds w]; cbn [node_eqb]; split; intro Hab; try discriminate.
    + apply andb_true_iff in Hab as [H1 H2].
      apply tm_nibbles_eqb_eq in H1. apply bytes_eqb_eq in H2. congruence.
    + injection Hab as -> ->. rewrite tm_nibbles_eqb_refl, bytes_eqb_refl. reflexivity.
  - destruct b as [|q w|q d|ds w]; cbn [node_eqb]; split; intro Hab; try discriminate.
    + apply andb_true_iff in Hab as [H1 H2].
      apply tm_nibbles_eqb_eq in H1. apply IH in H2. congruence.
    + injection Hab as -> ->. rewrite tm_nibbles_eqb_refl. cbn [andb]. apply IH. reflexivity.
  - destruct b as [|q w|q d|ds w]; try (cbn [node_eqb]; split; intro Hab; discriminate).
    rewrite node_eqb_branch. split; intro Hab.
    + apply andb_true_iff in Hab as [H1 H2].
      apply (nodes_eqb_eq cs IH) in H1. apply bytes_eqb_eq in H2. congruence.
    + injection Hab as -> ->. rewrite bytes_eqb_refl.
      rewrite (proj2 (nodes_eqb_eq ds IH ds) eq_refl). reflexivity.
Qed.

Lemma node_eqb_refl a : node_eqb a a = true.
Proof. apply node_eqb_eq; reflexivity. Qed.

(* ================= child / set_child ================= *)
Lemma child_set_child cs i c n : (N.to_nat i < length cs)%nat ->
  child (set_child cs i c) n = if n =? i then c else child cs n.
Proof.
  intro Hi. unfold child, set_child. rewrite tm_nth_list_set by exact Hi.
  destruct (N.eqb_spec n i) as [->|Hne].
  - rewrite Nat.eqb_refl. reflexivity.
  - destruct (Nat.eqb_spec (N.to_nat n) (N.to_nat i)) as [He|_]; [|reflexivity].
    apply N2Nat.inj in He. contradiction.
Qed.

Lemma length_set_child cs i c : length (set_child cs i c) = length cs.
Proof. apply tm_length_list_set. Qed.

Lemma child_blanks16 n : child blanks16 n = NBlank.
Proof.
  unfold child, blanks16.
  destruct (Nat.lt_ge_cases (N.to_nat n) 16) as [Hlt|Hge].
  - apply nth_repeat.
  - apply nth_overflow. rewrite repeat_length. exact Hge.
Qed.

Lemma length_blanks16 : length blanks16 = 16%nat.
Proof. reflexivity. Qed.

Lemma set_child_same cs n : set_child cs n (child cs n) = cs.
Proof. apply tm_list_set_same. Qed.

Lemma Forall_child (P : node -> Prop) cs n : Forall P cs -> P NBlank -> P (child cs n).
Proof.
  intros HF HB. unfold child. generalize (N.to_nat n) as i.
  induction HF as [|c cs Hc _ IH]; intros [|i]; cbn [nth]; auto.
Qed.

(* ================= characterising lemmas hiding the inner fixes ================= *)
Lemma tget_branch_nil cs v : tget (NBranch cs v) [] = v.
Proof. reflexivity. Qed.

Lemma tget_branch cs v n k : tget (NBranch cs v) (n :: k) = tget (child cs n) k.
Proof.
  cbn [tget]. unfold child. generalize (N.to_nat n) as i.
  induction cs as [|c cs IH]; intros [|i]; cbn [nth]; try reflexivity.
  apply IH.
Qed.

Lemma tset_branch_nil cs bv v : tset (NBranch cs bv) [] v = NBranch cs v.
Proof. reflexivity. Qed.

Lemma tset_branch cs bv n k v : (N.to_nat n < length cs)%nat ->
  tset (NBranch cs bv) (n :: k) v = NBranch (set_child cs n (tset (child cs n) k v)) bv.
Proof.
  intro Hn. cbn [tset]. f_equal. unfold child, set_child.
  revert Hn. generalize (N.to_nat n) as i.
  induction cs as [|c cs IH]; intros i Hi; cbn [length] in Hi; [lia|].
  destruct i as [|i]; cbn [nth list_set]; [reflexivity|].
  f_equal. apply IH. lia.
Qed.

Definition del_upd (k' : nibbles) : list node -> nat -> option (node * node) * list node :=
  fix upd (cs : list node) (i : nat) {struct cs} : option (node * node) * list node :=
    match cs, i with
    | [], _ => (None, [])
    | c :: cs', O => let c' := tdelete c k' in (Some (c, c'), c' :: cs')
    | c :: cs', S i' => let '(r, l) := upd cs' i' in (r, c :: l)
    end.

Lemma del_upd_spec k' cs : forall i, (i < length cs)%nat ->
  del_upd k' cs i =
  (Some (nth i cs NBlank, tdelete (nth i cs NBlank) k'),
   list_set cs i (tdelete (nth i cs NBlank) k')).
Proof.
  induction cs as [|c cs IH]; intros i Hi; cbn [length] in Hi; [lia|].
  destruct i as [|i]; cbn [del_upd nth list_set]; [reflexivity|].
  fold (del_upd k'). rewrite IH by lia. reflexivity.
Qed.

Lemma tdelete_branch_nil cs bv : tdelete (NBranch cs bv) [] = normalize cs [].
Proof. reflexivity. Qed.

Lemma tdelete_branch cs bv n k : (N.to_nat n < length cs)%nat ->
  tdelete (NBranch cs bv) (n :: k) =
  let c := child cs n in
  let c' := tdelete c k in
  if node_eqb c' c then NBranch cs bv
  else if is_nblank c' then normalize (set_child cs n c') bv
  else NBranch (set_child cs n c') bv.
Proof.
  intro Hn.
  change (tdelete (NBranch cs bv) (n :: k)) with
    (match del_upd k cs (N.to_nat n) with
     | (None, _) => NBranch cs bv
     | (Some (old, new), cs') =>
         if node_eqb new old then NBranch cs bv
         else if is_nblank new then normalize cs' bv
         else NBranch cs' bv
     end).
  rewrite del_upd_spec by exact Hn. reflexivity.
Qed.

(* ================= wf ================= *)
Lemma wf_branch cs v : wf (NBranch cs v) = Nat.eqb (length cs) 16 && forallb wf cs.
Proof.
  reflexivity.
Qed.

Lemma wf_branch_iff cs v :
  wf (NBranch cs v) = true <-> length cs = 16%nat /\ forallb wf cs = true.
Proof. rewrite wf_branch, andb_true_iff, Nat.eqb_eq. reflexivity. Qed.

Lemma wf_child cs n : forallb wf cs = true -> wf (child cs n) = true.
Proof. intro H. unfold child. apply tm_forallb_nth; [exact H | reflexivity]. Qed.

Lemma wf_wrap c n : wf (wrap c n) = nibs_ok c && wf n.
Proof. destruct c as [|x c]; reflexivity. Qed.

Lemma forallb_wf_blanks16 : forallb wf blanks16 = true.
Proof. reflexivity. Qed.

Lemma forallb_wf_set_child cs i c :
  forallb wf cs = true -> wf c = true -> forallb wf (set_child cs i c) = true.
Proof. intros H1 H2. apply tm_forallb_list_set; assumption. Qed.

Lemma wf_split_branch c0 sub kr v :
  wf sub = true -> nibs_ok kr = true -> wf (split_branch c0 sub kr v) = true.
Proof.
  intros Hs Hk. unfold split_branch. destruct kr as [|k0 kt].
  - apply wf_branch_iff. rewrite length_set_child. split; [reflexivity|].
    apply forallb_wf_set_child; [reflexivity | exact Hs].
  - rewrite tm_nibs_ok_cons in Hk. apply andb_true_iff in Hk as [_ Hkt].
    apply wf_branch_iff. rewrite !length_set_child. split; [reflexivity|].
    apply forallb_wf_set_child; [|exact Hkt].
    apply forallb_wf_set_child; [reflexivity | exact Hs].
Qed.

(* ================= tget of wrap / ext ================= *)
Lemma tget_wrap c n q :
  tget (wrap c n) q = if key_starts_with q c then tget n (skipn (length c) q) else [].
Proof.
  destruct c as [|x c]; [|reflexivity].
  cbn [wrap length skipn]. rewrite tm_ksw_nil. reflexivity.
Qed.

Lemma tget_ext p c q :
  tget (NExt p c) q = if key_starts_with q p then tget c (skipn (length p) q) else [].
Proof. reflexivity. Qed.

Lemma tget_leaf p v q : tget (NLeaf p v) q = if nibbles_eqb q p then v else [].
Proof. reflexivity. Qed.

Lemma tget_ext_app p c q : tget (NExt p c) (p ++ q) = tget c q.
Proof. rewrite tget_ext, tm_ksw_app, tm_skipn_app. reflexivity. Qed.

(* the branch created by a split *)
Lemma tget_split_branch c0 sub kr v q :
  c0 < 16 -> nibs_ok kr = true ->
  match kr with k0 :: _ => k0 <> c0 | [] => True end ->
  tget (split_branch c0 sub kr v) q =
  if nibbles_eqb q kr then v
  else match q with [] => [] | n :: q' => if n =? c0 then tget sub q' else [] end.
Proof.
  intros Hc0 Hkr Hd. unfold split_branch.
  assert (Hc0' : (N.to_nat c0 < length blanks16)%nat) by (rewrite length_blanks16; lia).
  destruct kr as [|k0 kt].
  - destruct q as [|n q'].
    + reflexivity.
    + rewrite tget_branch, child_set_child by exact Hc0'.
      cbn [nibbles_eqb]. destruct (n =? c0); [reflexivity|].
      rewrite child_blanks16. reflexivity.
  - rewrite tm_nibs_ok_cons in Hkr. apply andb_true_iff in Hkr as [Hk0 _].
    destruct q as [|n q'].
    + reflexivity.
    + rewrite tget_branch, child_set_child
        by (rewrite length_set_child, length_blanks16; lia).
      cbn [nibbles_eqb]. destruct (N.eqb_spec n k0) as [->|Hne].
      * cbn [andb]. rewrite tget_leaf.
        destruct (nibbles_eqb q' kt); [reflexivity|].
        destruct (N.eqb_spec k0 c0) as [He|_]; [contradiction | reflexivity].
      * cbn [andb]. rewrite child_set_child by exact Hc0'.
        destruct (n =? c0); [reflexivity|]. rewrite child_blanks16. reflexivity.
Qed.

(* ================= tset: lookup ================= *)
Lemma nibs_ok_lt x a : nibs_ok (x :: a) = true -> x < 16.
Proof. rewrite tm_nibs_ok_cons. intro H. apply andb_true_iff in H as [H _]. lia. Qed.

Lemma tget_tset_leaf p pv k v q :
  nibs_ok p = true -> nibs_ok k = true ->
  tget (tset (NLeaf p pv) k v) q = if nibbles_eqb q k then v else tget (NLeaf p pv) q.
Proof.
  intros Hp Hk. cbn [tset].
  destruct (consume_common_prefix p k) as [[common cur] kr] eqn:E.
  apply tm_ccp in E as (Ep & Ek & Hd). subst p k.
  rewrite tm_nibs_ok_app in Hp, Hk.
  apply andb_true_iff in Hp as [_ Hcur]. apply andb_true_iff in Hk as [_ Hkr].
  destruct cur as [|c0 ct].
  - destruct kr as [|k0 kt].
    + rewrite !tget_leaf. destruct (nibbles_eqb q (common ++ [])); reflexivity.
    + rewrite tget_wrap, tget_leaf.
      destruct (key_starts_with q common) eqn:Eq.
      * apply tm_ksw_iff in Eq as [q' ->].
        rewrite tm_skipn_app, !tm_eqb_app.
        pose proof (nibs_ok_lt _ _ Hkr) as Hk0.
        destruct q' as [|n q''].
        { reflexivity. }
        rewrite tget_branch, child_set_child by (rewrite length_blanks16; lia).
        cbn [nibbles_eqb]. destruct (n =? k0).
        { cbn [andb]. rewrite tget_leaf. destruct (nibbles_eqb q'' kt); reflexivity. }
        cbn [andb]. rewrite child_blanks16. reflexivity.
      * rewrite !tm_eqb_noprefix by exact Eq. reflexivity.
  - rewrite tget_wrap, tget_leaf.
    destruct (key_starts_with q common) eqn:Eq.
    + apply tm_ksw_iff in Eq as [q' ->].
      rewrite tm_skipn_app, !tm_eqb_app.
      rewrite tget_split_branch.
      * destruct (nibbles_eqb q' kr); [reflexivity|].
        destruct q' as [|n q'']; [reflexivity|].
        cbn [nibbles_eqb]. rewrite tget_leaf. destruct (n =? c0); reflexivity.
      * apply (nibs_ok_lt _ _ Hcur).
      * exact Hkr.
      * destruct kr as [|k0 kt]; [exact I|]. intro He. apply Hd. symmetry. exact He.
    + rewrite !tm_eqb_noprefix by exact Eq. reflexivity.
Qed.

Lemma tget_tset_ext p c k v q :
  (forall k v q, wf c = true -> nibs_ok k = true -> nibs_ok q = true ->
                 tget (tset c k v) q = if nibbles_eqb q k then v else tget c q) ->
  nibs_ok p = true -> wf c = true -> nibs_ok k = true -> nibs_ok q = true ->
  tget (tset (NExt p c) k v) q = if nibbles_eqb q k then v else tget (NExt p c) q.
Proof.
  intros IH Hp Hc Hk Hq. cbn [tset].
  destruct (consume_common_prefix p k) as [[common cur] kr] eqn:E.
  apply tm_ccp in E as (Ep & Ek & Hd). subst p k.
  rewrite tm_nibs_ok_app in Hp, Hk.
  apply andb_true_iff in Hp as [_ Hcur]. apply andb_true_iff in Hk as [_ Hkr].
  (* all three cases produce [wrap common X] *)
  assert (Hsplit : forall sub,
             (forall q', tget sub q' = tget (NExt (tl cur) c) q') ->
             cur <> [] ->
             tget (wrap common (split_branch (hd 0 cur) sub kr v)) q =
             if nibbles_eqb q (common ++ kr) then v else tget (NExt (common ++ cur) c) q).
  { intros sub Hsub Hne. destruct cur as [|c0 ct]; [contradiction|]. cbn [hd tl] in *.
    rewrite tget_wrap, tget_ext.
    destruct (key_starts_with q common) eqn:Eq.
    - apply tm_ksw_iff in Eq as [q' ->].
      rewrite tm_skipn_app, tm_eqb_app, tm_ksw_app_app, tm_ksw_app, tm_skipn_app.
      cbn [andb].
      rewrite tget_split_branch.
      + destruct (nibbles_eqb q' kr); [reflexivity|].
        destruct q' as [|n q'']; [reflexivity|].
        rewrite tm_ksw_cons. rewrite Hsub, tget_ext.
        destruct (N.eqb_spec n c0) as [->|Hne'].
        * cbn [andb]. rewrite app_length, <- tm_skipn_skipn, tm_skipn_app.
          cbn [length skipn]. reflexivity.
        * reflexivity.
      + apply (nibs_ok_lt _ _ Hcur).
      + exact Hkr.
      + destruct kr as [|k0 kt]; [exact I|]. intro He. apply Hd. symmetry. exact He.
    - rewrite tm_eqb_noprefix by exact Eq.
      rewrite tm_ksw_app_app, Eq. reflexivity. }
  destruct cur as [|c0 ct].
  - rewrite tget_wrap, app_nil_r, tget_ext.
    destruct (key_starts_with q common) eqn:Eq.
    + pose proof Eq as Eq'. apply tm_ksw_iff in Eq' as [q' ->].
      rewrite tm_skipn_app, tm_eqb_app.
      rewrite tm_nibs_ok_app in Hq. apply andb_true_iff in Hq as [_ Hq'].
      apply IH; assumption.
    + rewrite tm_eqb_noprefix by exact Eq. reflexivity.
  - destruct ct as [|c1 ct].
    + apply (Hsplit c); [|discriminate].
      intro q'. cbn [tl]. rewrite tget_ext, tm_ksw_nil. reflexivity.
    + apply (Hsplit (NExt (c1 :: ct) c)); [|discriminate].
      intro q'. reflexivity.
Qed.

Theorem tget_tset t k v q : wf t = true -> nibs_ok k = true -> nibs_ok q = true ->
  tget (tset t k v) q = if nibbles_eqb q k then v else tget t q.
Proof.
  revert k v q. induction t as [|p pv|p c IH|cs bv IH] using node_ind'; intros k v q Hwf Hk Hq.
  - reflexivity.
  - apply tget_tset_leaf; assumption.
  - cbn [wf] in Hwf. apply andb_true_iff in Hwf as [Hp Hc].
    apply tget_tset_ext; assumption.
  - apply wf_branch_iff in Hwf as [Hlen Hall].
    destruct k as [|n k'].
    + rewrite tset_branch_nil. destruct q as [|m q']; [reflexivity|].
      rewrite !tget_branch. reflexivity.
    + pose proof (nibs_ok_lt _ _ Hk) as Hn.
      rewrite tm_nibs_ok_cons in Hk. apply andb_true_iff in Hk as [_ Hk'].
      rewrite tset_branch by lia.
      destruct q as [|m q']; [reflexivity|].
      rewrite tm_nibs_ok_cons in Hq. apply andb_true_iff in Hq as [_ Hq'].
      rewrite !tget_branch, child_set_child by lia.
      cbn [nibbles_eqb]. destruct (N.eqb_spec m n) as [->|Hne]; [|reflexivity].
      cbn [andb].
      apply (Forall_child _ cs n IH).
      * intros k0 v0 q0 _ _ _. reflexivity.
      * apply wf_child; exact Hall.
      * exact Hk'.
      * exact Hq'.
Qed.

(* ================= tset: wf ================= *)
Theorem wf_tset t k v : wf t = true -> nibs_ok k = true -> wf (tset t k v) = true.
Proof.
  revert k v. induction t as [|p pv|p c IH|cs bv IH] using node_ind'; intros k v Hwf Hk.
  - exact Hk.
  - cbn [wf] in Hwf. cbn [tset].
    destruct (consume_common_prefix p k) as [[common cur] kr] eqn:E.
    apply tm_ccp in E as (Ep & Ek & _). subst p k.
    rewrite tm_nibs_ok_app in Hwf, Hk.
    apply andb_true_iff in Hwf as [Hcom Hcur]. apply andb_true_iff in Hk as [_ Hkr].
    destruct cur as [|c0 ct].
    + destruct kr as [|k0 kt].
      * cbn [wf]. rewrite tm_nibs_ok_app, Hcom. reflexivity.
      * rewrite wf_wrap, Hcom. cbn [andb].
        rewrite tm_nibs_ok_cons in Hkr. apply andb_true_iff in Hkr as [_ Hkt].
        apply wf_branch_iff. rewrite length_set_child. split; [reflexivity|].
        apply forallb_wf_set_child; [reflexivity | exact Hkt].
    + rewrite wf_wrap, Hcom. cbn [andb].
      rewrite tm_nibs_ok_cons in Hcur. apply andb_true_iff in Hcur as [_ Hct].
      apply wf_split_branch; assumption.
  - cbn [wf] in Hwf. apply andb_true_iff in Hwf as [Hp Hc]. cbn [tset].
    destruct (consume_common_prefix p k) as [[common cur] kr] eqn:E.
    apply tm_ccp in E as (Ep & Ek & _). subst p k.
    rewrite tm_nibs_ok_app in Hp, Hk.
    apply andb_true_iff in Hp as [Hcom Hcur]. apply andb_true_iff in Hk as [_ Hkr].
    destruct cur as [|c0 ct].
    + rewrite wf_wrap, Hcom. cbn [andb]. apply IH; assumption.
    + rewrite tm_nibs_ok_cons in Hcur. apply andb_true_iff in Hcur as [_ Hct].
      destruct ct as [|c1 ct].
      * rewrite wf_wrap, Hcom. cbn [andb]. apply wf_split_branch; assumption.
      * rewrite wf_wrap, Hcom. cbn [andb]. apply wf_split_branch; [|assumption].
        cbn [wf]. rewrite Hct, Hc. reflexivity.
  - apply wf_branch_iff in Hwf as [Hlen Hall].
    destruct k as [|n k'].
    + rewrite tset_branch_nil. apply wf_branch_iff. split; assumption.
    + pose proof (nibs_ok_lt _ _ Hk) as Hn.
      rewrite tm_nibs_ok_cons in Hk. apply andb_true_iff in Hk as [_ Hk'].
      rewrite tset_branch by lia.
      apply wf_branch_iff. rewrite length_set_child. split; [exact Hlen|].
      apply forallb_wf_set_child; [exact Hall|].
      apply (Forall_child _ cs n IH).
      * intros k0 v0 _ Hk0. exact Hk0.
      * apply wf_child; exact Hall.
      * exact Hk'.
Qed.

(* ================= normalize ================= *)
Definition nbcount (cs : list node) : nat :=
  length (filter (fun c => negb (is_nblank c)) cs).

Lemma count_entries_eq cs v :
  count_entries cs v = (nbcount cs + (if nonempty v then 1 else 0))%nat.
Proof. reflexivity. Qed.

Lemma nbcount_cons c cs :
  nbcount (c :: cs) = if is_nblank c then nbcount cs else S (nbcount cs).
Proof. unfold nbcount. cbn [filter]. destruct (is_nblank c); reflexivity. Qed.

Lemma is_nblank_true c : is_nblank c = true -> c = NBlank.
Proof. destruct c; intro H; [reflexivity | discriminate..]. Qed.

Lemma nbcount_zero cs : nbcount cs = 0%nat -> forall i, nth i cs NBlank = NBlank.
Proof.
  induction cs as [|c cs IH]; intros H0 i.
  - destruct i; reflexivity.
  - rewrite nbcount_cons in H0. destruct (is_nblank c) eqn:Ec; [|discriminate].
    destruct i as [|i]; cbn [nth]; [apply is_nblank_true; exact Ec | apply IH; exact H0].
Qed.

Lemma first_nonblank_none cs : forall i0, first_nonblank cs i0 = None ->
  forall i, nth i cs NBlank = NBlank.
Proof.
  induction cs as [|c cs IH]; intros i0 Hf i.
  - destruct i; reflexivity.
  - cbn [first_nonblank] in Hf. destruct (is_nblank c) eqn:Ec; [|discriminate].
    destruct i as [|i]; cbn [nth]; [apply is_nblank_true; exact Ec | apply (IH _ Hf)].
Qed.

Lemma first_nonblank_some cs : forall i0 idx c, first_nonblank cs i0 = Some (idx, c) ->
  exists j, idx = i0 + N.of_nat j /\ (j < length cs)%nat /\ nth j cs NBlank = c /\
            is_nblank c = false /\
            ((nbcount cs <= 1)%nat -> forall j', j' <> j -> nth j' cs NBlank = NBlank).
Proof.
  induction cs as [|c0 cs IH]; intros i0 idx c Hf; cbn [first_nonblank] in Hf; [discriminate|].
  destruct (is_nblank c0) eqn:Ec.
  - destruct (IH _ _ _ Hf) as (j & Hidx & Hj & Hnth & Hnb & Hoth).
    exists (S j). split; [lia|]. split; [cbn [length]; lia|]. split; [exact Hnth|].
    split; [exact Hnb|].
    intros Hcnt j' Hj'. rewrite nbcount_cons, Ec in Hcnt.
    destruct j' as [|j']; cbn [nth]; [apply is_nblank_true; exact Ec|].
    apply Hoth; [exact Hcnt | lia].
  - injection Hf as <- <-. exists 0%nat. split; [lia|]. split; [cbn [length]; lia|].
    split; [reflexivity|]. split; [exact Ec|].
    intros Hcnt j' Hj'. rewrite nbcount_cons, Ec in Hcnt.
    destruct j' as [|j']; [lia|]. cbn [nth]. apply nbcount_zero. lia.
Qed.

Lemma nonempty_false v : nonempty v = false -> v = [].
Proof. destruct v; intro H; [reflexivity | discriminate]. Qed.

Lemma tget_normalize cs v q : tget (normalize cs v) q = tget (NBranch cs v) q.
Proof.
  unfold normalize. destruct (Nat.leb 2 (count_entries cs v)) eqn:E2; [reflexivity|].
  apply Nat.leb_gt in E2. rewrite count_entries_eq in E2.
  destruct (nonempty v) eqn:Ev.
  - assert (Hall : forall i, nth i cs NBlank = NBlank) by (apply nbcount_zero; lia).
    destruct q as [|n q']; [reflexivity|].
    rewrite tget_branch. unfold child. rewrite Hall. reflexivity.
  - apply nonempty_false in Ev. subst v.
    destruct (first_nonblank cs 0) as [[idx c]|] eqn:Ef.
    + destruct (first_nonblank_some _ _ _ _ Ef) as (j & Hidx & Hj & Hnth & Hnb & Hoth).
      assert (Hchild : forall n, child cs n = if n =? idx then c else NBlank).
      { intro n. unfold child. destruct (N.eqb_spec n idx) as [->|Hne].
        - subst idx. rewrite N.add_0_l, Nat2N.id. exact Hnth.
        - apply Hoth; [lia|]. intro He. apply Hne. subst idx. lia. }
      destruct q as [|n q'].
      * destruct c; reflexivity.
      * rewrite tget_branch, Hchild.
        destruct c as [|p w|p d|ds w].
        { discriminate Hnb. }
        { rewrite tget_leaf. cbn [nibbles_eqb]. destruct (n =? idx); reflexivity. }
        { rewrite tget_ext, tm_ksw_cons. destruct (n =? idx); reflexivity. }
        { rewrite tget_ext, tm_ksw_cons, tm_ksw_nil. destruct (n =? idx); reflexivity. }
    + assert (Hall : forall i, nth i cs NBlank = NBlank) by (apply (first_nonblank_none _ _ Ef)).
      destruct q as [|n q']; [reflexivity|].
      rewrite tget_branch. unfold child. rewrite Hall. reflexivity.
Qed.

Lemma wf_normalize cs v :
  length cs = 16%nat -> forallb wf cs = true -> wf (normalize cs v) = true.
Proof.
  intros Hlen Hall. unfold normalize.
  destruct (Nat.leb 2 (count_entries cs v)); [apply wf_branch_iff; split; assumption|].
  destruct (nonempty v); [reflexivity|].
  destruct (first_nonblank cs 0) as [[idx c]|] eqn:Ef; [|reflexivity].
  destruct (first_nonblank_some _ _ _ _ Ef) as (j & Hidx & Hj & Hnth & _ & _).
  assert (Hlt : (idx <? 16) = true) by lia.
  assert (Hc : wf c = true) by (subst c; apply tm_forallb_nth; [exact Hall | reflexivity]).
  destruct c as [|p w|p d|ds w].
  - cbn [wf]. rewrite tm_nibs_ok_cons, Hlt. reflexivity.
  - cbn [wf] in *. rewrite tm_nibs_ok_cons, Hlt, Hc. reflexivity.
  - cbn [wf] in Hc |- *. rewrite tm_nibs_ok_cons, Hlt. exact Hc.
  - change (wf (NExt [idx] (NBranch ds w)) = true).
    cbn [wf] in Hc |- *. rewrite tm_nibs_ok_cons, Hlt. exact Hc.
Qed.

(* ================= tdelete on an extension ================= *)
Definition merge_ext (p : nibbles) (c' : node) : node :=
  match c' with
  | NBlank => NBlank
  | NLeaf q w => NLeaf (p ++ q) w
  | NExt q d => NExt (p ++ q) d
  | NBranch _ _ => NExt p c'
  end.

Lemma tdelete_ext p c k :
  tdelete (NExt p c) k =
  if negb (key_starts_with k p) then NExt p c
  else let c' := tdelete c (skipn (length p) k) in
       if node_eqb c' c then NExt p c else merge_ext p c'.
Proof. reflexivity. Qed.

Lemma tget_merge_ext p c' q : tget (merge_ext p c') q = tget (NExt p c') q.
Proof.
  destruct c' as [|q0 w|q0 d|ds w]; cbn [merge_ext].
  - rewrite tget_ext. destruct (key_starts_with q p); reflexivity.
  - rewrite tget_leaf, tget_ext. destruct (key_starts_with q p) eqn:Eq.
    + apply tm_ksw_iff in Eq as [q' ->]. rewrite tm_eqb_app, tm_skipn_app. reflexivity.
    + rewrite tm_eqb_noprefix by exact Eq. reflexivity.
  - rewrite !tget_ext, tm_ksw_app_app. destruct (key_starts_with q p); [|reflexivity].
    cbn [andb]. rewrite app_length, tm_skipn_skipn. reflexivity.
  - reflexivity.
Qed.

Lemma wf_merge_ext p c' : nibs_ok p = true -> wf c' = true -> wf (merge_ext p c') = true.
Proof.
  intros Hp Hc. destruct c' as [|q0 w|q0 d|ds w]; cbn [merge_ext].
  - reflexivity.
  - cbn [wf] in *. rewrite tm_nibs_ok_app, Hp, Hc. reflexivity.
  - cbn [wf] in *. rewrite tm_nibs_ok_app, Hp. exact Hc.
  - change (nibs_ok p && wf (NBranch ds w) = true). rewrite Hp, Hc. reflexivity.
Qed.

(* ================= tdelete: lookup ================= *)
Theorem tget_tdelete t k q : wf t = true -> nibs_ok k = true -> nibs_ok q = true ->
  tget (tdelete t k) q = if nibbles_eqb q k then [] else tget t q.
Proof.
  revert k q. induction t as [|p pv|p c IH|cs bv IH] using node_ind'; intros k q Hwf Hk Hq.
  - cbn. destruct (nibbles_eqb q k); reflexivity.
  - cbn [tdelete]. destruct (nibbles_eqb k p) eqn:E.
    + apply tm_nibbles_eqb_eq in E. subst k. rewrite tget_leaf.
      destruct (nibbles_eqb q p); reflexivity.
    + rewrite tget_leaf. destruct (nibbles_eqb q k) eqn:E2; [|reflexivity].
      apply tm_nibbles_eqb_eq in E2. subst q. rewrite E. reflexivity.
  - cbn [wf] in Hwf. apply andb_true_iff in Hwf as [Hp Hc].
    rewrite tdelete_ext. destruct (key_starts_with k p) eqn:Ek; cbn [negb].
    + apply tm_ksw_iff in Ek as [k' ->]. rewrite tm_skipn_app. cbv zeta.
      rewrite tm_nibs_ok_app in Hk. apply andb_true_iff in Hk as [_ Hk'].
      destruct (node_eqb (tdelete c k') c) eqn:En.
      * apply node_eqb_eq in En.
        destruct (nibbles_eqb q (p ++ k')) eqn:Eq; [|reflexivity].
        apply tm_nibbles_eqb_eq in Eq. subst q. rewrite tget_ext_app.
        pose proof (IH k' k' Hc Hk' Hk') as Hkk.
        rewrite tm_nibbles_eqb_refl, En in Hkk. exact Hkk.
      * rewrite tget_merge_ext, !tget_ext.
        destruct (key_starts_with q p) eqn:Eq.
        { apply tm_ksw_iff in Eq as [q' ->].
          rewrite tm_nibs_ok_app in Hq. apply andb_true_iff in Hq as [_ Hq'].
          rewrite tm_skipn_app, tm_eqb_app. apply IH; assumption. }
        { rewrite tm_eqb_noprefix by exact Eq. reflexivity. }
    + destruct (nibbles_eqb q k) eqn:Eq; [|reflexivity].
      apply tm_nibbles_eqb_eq in Eq. subst q. rewrite tget_ext, Ek. reflexivity.
  - apply wf_branch_iff in Hwf as [Hlen Hall].
    destruct k as [|n k'].
    + rewrite tdelete_branch_nil, tget_normalize.
      destruct q as [|m q']; [reflexivity|]. rewrite !tget_branch. reflexivity.
    + pose proof (nibs_ok_lt _ _ Hk) as Hn.
      rewrite tm_nibs_ok_cons in Hk. apply andb_true_iff in Hk as [_ Hk'].
      rewrite tdelete_branch by lia. cbv zeta.
      assert (IHc : forall q', nibs_ok q' = true ->
                 tget (tdelete (child cs n) k') q' =
                 if nibbles_eqb q' k' then [] else tget (child cs n) q').
      { intros q' Hq'. apply (Forall_child _ cs n IH).
        - intros k0 q0 _ _ _. cbn. destruct (nibbles_eqb q0 k0); reflexivity.
        - apply wf_child; exact Hall.
        - exact Hk'.
        - exact Hq'. }
      assert (Hmain : tget (NBranch (set_child cs n (tdelete (child cs n) k')) bv) q =
                      if nibbles_eqb q (n :: k') then [] else tget (NBranch cs bv) q).
      { destruct q as [|m q']; [reflexivity|].
        rewrite tm_nibs_ok_cons in Hq. apply andb_true_iff in Hq as [_ Hq'].
        rewrite !tget_branch, child_set_child by lia. cbn [nibbles_eqb].
        destruct (N.eqb_spec m n) as [->|Hne]; [|reflexivity].
        cbn [andb]. apply IHc; exact Hq'. }
      destruct (node_eqb (tdelete (child cs n) k') (child cs n)) eqn:En.
      * apply node_eqb_eq in En. rewrite En, set_child_same in Hmain. exact Hmain.
      * destruct (is_nblank (tdelete (child cs n) k')).
        { rewrite tget_normalize. exact Hmain. }
        { exact Hmain. }
Qed.

(* ================= tdelete: wf ================= *)
Theorem wf_tdelete t k : wf t = true -> nibs_ok k = true -> wf (tdelete t k) = true.
Proof.
  revert k. induction t as [|p pv|p c IH|cs bv IH] using node_ind'; intros k Hwf Hk.
  - reflexivity.
  - cbn [tdelete]. destruct (nibbles_eqb k p); [reflexivity | exact Hwf].
  - rewrite tdelete_ext. destruct (key_starts_with k p) eqn:Ek; cbn [negb]; [|exact Hwf].
    cbv zeta. destruct (node_eqb (tdelete c (skipn (length p) k)) c); [exact Hwf|].
    cbn [wf] in Hwf. apply andb_true_iff in Hwf as [Hp Hc].
    apply wf_merge_ext; [exact Hp|]. apply IH; [exact Hc|].
    apply tm_nibs_ok_skipn; exact Hk.
  - pose proof Hwf as Hwf0. apply wf_branch_iff in Hwf as [Hlen Hall].
    destruct k as [|n k'].
    + rewrite tdelete_branch_nil. apply wf_normalize; assumption.
    + pose proof (nibs_ok_lt _ _ Hk) as Hn.
      rewrite tm_nibs_ok_cons in Hk. apply andb_true_iff in Hk as [_ Hk'].
      rewrite tdelete_branch by lia. cbv zeta.
      assert (Hc' : wf (tdelete (child cs n) k') = true).
      { apply (Forall_child _ cs n IH).
        - intros k0 _ _. reflexivity.
        - apply wf_child; exact Hall.
        - exact Hk'. }
      destruct (node_eqb (tdelete (child cs n) k') (child cs n)); [exact Hwf0|].
      assert (Hall' : forallb wf (set_child cs n (tdelete (child cs n) k')) = true)
        by (apply forallb_wf_set_child; assumption).
      destruct (is_nblank (tdelete (child cs n) k')).
      * apply wf_normalize; [rewrite length_set_child; exact Hlen | exact Hall'].
      * apply wf_branch_iff. rewrite length_set_child. split; assumption.
Qed.

(* ================= histories ================= *)
Definition ops_ok (ops : list top) : Prop :=
  Forall (fun o => match o with TSet k _ => nibs_ok k = true | TDel k => nibs_ok k = true end) ops.

Definition op_ok (o : top) : Prop :=
  match o with TSet k _ => nibs_ok k = true | TDel k => nibs_ok k = true end.

Lemma wf_tapply t o : wf t = true -> op_ok o -> wf (tapply t o) = true.
Proof.
  intros Hwf Ho. destruct o as [k v|k]; cbn [tapply op_ok] in *.
  - destruct v as [|b v]; [apply wf_tdelete | apply wf_tset]; assumption.
  - apply wf_tdelete; assumption.
Qed.

Lemma tget_tapply t o q : wf t = true -> op_ok o -> nibs_ok q = true ->
  tget (tapply t o) q = spec_apply (tget t) o q.
Proof.
  intros Hwf Ho Hq. destruct o as [k v|k]; cbn [tapply op_ok spec_apply] in *.
  - destruct v as [|b v]; [apply tget_tdelete | apply tget_tset]; assumption.
  - apply tget_tdelete; assumption.
Qed.

Lemma spec_apply_ext m1 m2 o q : m1 q = m2 q -> spec_apply m1 o q = spec_apply m2 o q.
Proof. intro H. destruct o as [k v|k]; cbn [spec_apply]; rewrite H; reflexivity. Qed.

(* generalised over the starting tree and the starting map *)
Lemma run_gen ops : forall t0 m0, ops_ok ops -> wf t0 = true ->
  (forall q, nibs_ok q = true -> tget t0 q = m0 q) ->
  wf (fold_left tapply ops t0) = true /\
  forall q, nibs_ok q = true -> tget (fold_left tapply ops t0) q = fold_left spec_apply ops m0 q.
Proof.
  induction ops as [|o ops IH]; intros t0 m0 Hops Hwf Hm.
  - cbn [fold_left]. split; [exact Hwf | exact Hm].
  - inversion Hops as [|o' ops' Ho Hops']; subst o' ops'. cbn [fold_left].
    apply IH.
    + exact Hops'.
    + apply wf_tapply; assumption.
    + intros q Hq. rewrite tget_tapply by assumption.
      apply spec_apply_ext. apply Hm; exact Hq.
Qed.

Theorem trun_wf ops : ops_ok ops -> wf (trun ops) = true.
Proof.
  intro Hops. unfold trun.
  apply (run_gen ops NBlank (fun _ => []) Hops eq_refl). intros q _. reflexivity.
Qed.

Theorem C01_map_T ops q : ops_ok ops -> nibs_ok q = true -> tget (trun ops) q = spec_run ops q.
Proof.
  intros Hops Hq. unfold trun, spec_run.
  apply (run_gen ops NBlank (fun _ => []) Hops eq_refl); [|exact Hq]. intros q' _. reflexivity.
Qed.

Theorem C01_exists_T ops q : ops_ok ops -> nibs_ok q = true ->
  texists (trun ops) q = nonempty (spec_run ops q).
Proof. intros Hops Hq. unfold texists. rewrite C01_map_T by assumption. reflexivity. Qed.

Print Assumptions node_ind'.
Print Assumptions node_eqb_eq.
Print Assumptions tget_tset.
Print Assumptions wf_tset.
Print Assumptions tget_tdelete.
Print Assumptions wf_tdelete.
Print Assumptions trun_wf.
Print Assumptions C01_map_T.
Print Assumptions C01_exists_T.
