(* Hexary/D_reads.v — read accounting of traverse_from (property C08, last clause):
   [traverse_from_reads] (Hexary/D.v) lists the database keys the traversal looks up.
   Proved here, for every store, start node and segment:
     * at most one key per child hop                                   (reads_le_hops);
     * the traversal depends on the database ONLY at those keys: on any other store that agrees
       with this one at the listed keys it returns the same result (value or exception) and
       looks up the same keys                                           (reads_only);
     * a hop through an embedded (< 32-byte) or blank reference reads nothing (by definition of
       [ref_key]); a hashed reference is looked up once. *)
From Coq Require Import List NArith ZArith Bool Lia.
From Coq.Init Require Import Byte.
From PyTrie.Base Require Import Bytes Bytes_proofs Result AMap AMap_proofs Nibbles Nibbles_proofs Rlp.
From PyTrie.Db Require Import ScratchDb.
From PyTrie.Hexary Require Import Raw D D_read.
Import ListNotations.
Open Scope N_scope.

Section DReads.
  Variable BNH : bytes.

  Lemma gn_agree m m' ref :
    (forall h, In h (ref_key BNH ref) -> aget m' h = aget m h) -> gn BNH m' ref = gn BNH m ref.
  Proof.
    intro Hag. unfold gn, ref_key in *.
    destruct ref as [b|l]; [|reflexivity].
    destruct b as [|b0 b']; [reflexivity|].
    destruct (bytes_eqb (b0 :: b') BNH); [reflexivity|].
    destruct (Nat.ltb (length (b0 :: b')) 32); [reflexivity|].
    rewrite (Hag (b0 :: b')); [reflexivity | left; reflexivity].
  Qed.

  Lemma ref_key_le1 ref : (length (ref_key BNH ref) <= 1)%nat.
  Proof.
    unfold ref_key. destruct ref as [b|l]; [|cbn; lia].
    destruct b as [|b0 b']; [cbn; lia|].
    destruct (bytes_eqb (b0 :: b') BNH); [cbn; lia|].
    destruct (Nat.ltb (length (b0 :: b')) 32); cbn; lia.
  Qed.

  (* at most one database key per child hop *)
  Lemma reads_le_hops fuel : forall node rem t,
    (length (traverse_from_reads BNH fuel node rem t) <= traverse_from_hops BNH fuel node rem t)%nat.
  Proof.
    induction fuel as [|f IH]; intros node rem t; [cbn; lia|].
    cbn [traverse_from_reads traverse_from_hops].
    destruct rem as [|r0 rtail]; [cbn; lia|].
    destruct (get_node_type node) as [ty|e]; [|cbn; lia].
    destruct ty; try (cbn; lia).
    - destruct (extract_key node) as [ck|e]; [|cbn; lia].
      destruct (consume_common_prefix ck (r0 :: rtail)) as [[c cr] kr].
      destruct cr as [|c0 cr']; [|cbn; lia].
      rewrite app_length. pose proof (ref_key_le1 (kv_second node)) as H1.
      destruct (get_node BNH (kv_second node) t) as [[n'|e] t1].
      + specialize (IH n' kr t). lia.
      + cbn [length]. lia.
    - rewrite app_length. pose proof (ref_key_le1 (branch_child node r0)) as H1.
      destruct (get_node BNH (branch_child node r0) t) as [[n'|e] t1].
      + specialize (IH n' rtail t). lia.
      + cbn [length]. lia.
  Qed.

  (* ... and there are at most |segment| + 2 hops (the traversal's own iteration bound), whatever the nodes look like *)
  Lemma hops_le_fuel fuel : forall node rem t, (traverse_from_hops BNH fuel node rem t <= fuel)%nat.
  Proof.
    induction fuel as [|f IH]; intros node rem t; [cbn; lia|].
    cbn [traverse_from_hops].
    destruct rem as [|r0 rtail]; [lia|].
    destruct (get_node_type node) as [ty|e]; [|lia].
    destruct ty; try lia.
    - destruct (extract_key node) as [ck|e]; [|lia].
      destruct (consume_common_prefix ck (r0 :: rtail)) as [[c cr] kr].
      destruct cr as [|c0 cr']; [|lia].
      destruct (get_node BNH (kv_second node) t) as [[n'|e] t1]; [specialize (IH n' kr t)|]; lia.
    - destruct (get_node BNH (branch_child node r0) t) as [[n'|e] t1]; [specialize (IH n' rtail t)|]; lia.
  Qed.

  (* the traversal depends on the store only at the keys it lists *)
  Lemma reads_only fuel : forall node tk rem m m' t t', on m t -> on m' t' ->
    (forall h, In h (traverse_from_reads BNH fuel node rem t) -> aget m' h = aget m h) ->
    tf BNH m' fuel node tk rem = tf BNH m fuel node tk rem /\
    traverse_from_reads BNH fuel node rem t' = traverse_from_reads BNH fuel node rem t.
  Proof.
    induction fuel as [|f IH]; intros node tk rem m m' t t' Hon Hon' Hag; [split; reflexivity|].
    cbn [traverse_from_reads tf] in *. unfold tstep.
    destruct rem as [|r0 rtail]; [split; reflexivity|].
    destruct (get_node_type node) as [ty|e]; [|split; reflexivity].
    destruct ty; try (split; reflexivity).
    - destruct (extract_key node) as [lk|e]; [|split; reflexivity].
      destruct (key_starts_with lk (r0 :: rtail)); split; reflexivity.
    - destruct (extract_key node) as [ck|e]; [|split; reflexivity].
      destruct (consume_common_prefix ck (r0 :: rtail)) as [[c cr] kr].
      destruct cr as [|c0 cr']; [|destruct kr; split; reflexivity].
      rewrite (get_node_eq BNH m _ t Hon) in *. rewrite (get_node_eq BNH m' _ t' Hon').
      assert (Hg : gn BNH m' (kv_second node) = gn BNH m (kv_second node)).
      { apply gn_agree. intros h Hh. apply Hag. apply in_or_app. left; exact Hh. }
      unfold gnt. rewrite Hg.
      destruct (gn BNH m (kv_second node)) as [n'|e]; cbn [mt_handler].
      + destruct (IH n' tk kr m m' t t' Hon Hon') as [E1 E2].
        { intros h Hh. apply Hag. apply in_or_app. right; exact Hh. }
        rewrite E1, E2. split; reflexivity.
      + destruct (key_error_hash e); split; reflexivity.
    - rewrite (get_node_eq BNH m _ t Hon) in *. rewrite (get_node_eq BNH m' _ t' Hon').
      assert (Hg : gn BNH m' (branch_child node r0) = gn BNH m (branch_child node r0)).
      { apply gn_agree. intros h Hh. apply Hag. apply in_or_app. left; exact Hh. }
      unfold gnt. rewrite Hg.
      destruct (gn BNH m (branch_child node r0)) as [n'|e]; cbn [mt_handler].
      + destruct (IH n' tk rtail m m' t t' Hon Hon') as [E1 E2].
        { intros h Hh. apply Hag. apply in_or_app. right; exact Hh. }
        rewrite E1, E2. split; reflexivity.
      + destruct (key_error_hash e); split; reflexivity.
  Qed.

  (* the public entry point *)
  Definition tf_reads (m : amap bytes) (raw : item) (seg : nibbles) : list bytes :=
    traverse_from_reads BNH (traverse_fuel seg) raw seg (plain m []).

  Lemma reads_root_irrelevant fuel : forall node rem m r r',
    traverse_from_reads BNH fuel node rem (plain m r) = traverse_from_reads BNH fuel node rem (plain m r').
  Proof.
    induction fuel as [|f IH]; intros node rem m r r'; [reflexivity|].
    cbn [traverse_from_reads].
    destruct rem as [|r0 rtail]; [reflexivity|].
    destruct (get_node_type node) as [ty|e]; [|reflexivity].
    destruct ty; try reflexivity.
    - destruct (extract_key node) as [ck|e]; [|reflexivity].
      destruct (consume_common_prefix ck (r0 :: rtail)) as [[c cr] kr].
      destruct cr as [|c0 cr']; [|reflexivity].
      rewrite (get_node_eq BNH m _ (plain m r) (on_plain m r)), (get_node_eq BNH m _ (plain m r') (on_plain m r')).
      destruct (gn BNH m (kv_second node)); [rewrite (IH _ _ m r r')|]; reflexivity.
    - rewrite (get_node_eq BNH m _ (plain m r) (on_plain m r)), (get_node_eq BNH m _ (plain m r') (on_plain m r')).
      destruct (gn BNH m (branch_child node r0)); [rewrite (IH _ _ m r r')|]; reflexivity.
  Qed.

  Theorem traverse_from_reads_one_per_hop m r raw seg :
    (length (traverse_from_reads BNH (traverse_fuel seg) raw seg (plain m r))
     <= traverse_from_hops BNH (traverse_fuel seg) raw seg (plain m r))%nat.
  Proof. apply reads_le_hops. Qed.

  Theorem traverse_from_reads_bound m r raw seg :
    (length (traverse_from_reads BNH (traverse_fuel seg) raw seg (plain m r)) <= S (S (length seg)))%nat.
  Proof.
    eapply Nat.le_trans; [apply reads_le_hops|]. apply (hops_le_fuel (traverse_fuel seg)).
  Qed.

  Theorem traverse_from_reads_only m m' r r' raw seg :
    (forall h, In h (traverse_from_reads BNH (traverse_fuel seg) raw seg (plain m r)) -> aget m' h = aget m h) ->
    fst (traverse_from BNH raw seg (plain m' r')) = fst (traverse_from BNH raw seg (plain m r)) /\
    traverse_from_reads BNH (traverse_fuel seg) raw seg (plain m' r') =
    traverse_from_reads BNH (traverse_fuel seg) raw seg (plain m r).
  Proof.
    intro Hag.
    rewrite (traverse_from'_eq BNH m' raw seg _ (on_plain m' r')), (traverse_from'_eq BNH m raw seg _ (on_plain m r)).
    cbn [fst]. unfold ptraverse_from.
    destruct (reads_only (traverse_fuel seg) raw seg seg m m' (plain m r) (plain m' r') (on_plain m r) (on_plain m' r') Hag)
      as [E1 E2].
    rewrite E1, E2. split; reflexivity.
  Qed.

  (* in particular: deleting every OTHER entry of the database changes nothing *)
  Corollary traverse_from_needs_only_its_reads m r raw seg :
    let keys := traverse_from_reads BNH (traverse_fuel seg) raw seg (plain m r) in
    forall m', (forall h, In h keys -> aget m' h = aget m h) ->
    fst (traverse_from BNH raw seg (plain m' r)) = fst (traverse_from BNH raw seg (plain m r)).
  Proof. intros keys m' Hag. apply (traverse_from_reads_only m m' r r raw seg Hag). Qed.
End DReads.
