(* Hexary/Tree_canon.v — the canonical shape of the tree model is an invariant of
   every operation history (C02 at the T level). *)
From Coq Require Import List NArith ZArith Bool Lia ZifyBool.
From Coq.Init Require Import Byte.
From PyTrie.Base Require Import Bytes Result Nibbles Rlp Bytes_proofs.
From PyTrie.Hexary Require Import Raw Tree.
Import ListNotations.
Local Open Scope nat_scope.

(* ------------------------------------------------------------------ *)
(* induction principle and decidable equality                          *)

Lemma node_ind' (P : node -> Prop) :
  P NBlank -> (forall p v, P (NLeaf p v)) -> (forall p c, P c -> P (NExt p c)) ->
  (forall cs v, Forall P cs -> P (NBranch cs v)) -> forall t, P t.
Proof.
  intros HB HL HE HBr.
  fix IH 1. intros [|p v|p c|cs v].
  - exact HB.
  - apply HL.
  - apply HE, IH.
  - apply HBr. induction cs as [|c cs IHcs]; constructor; [apply IH | exact IHcs].
Qed.

Lemma tc_nibbles_eqb_eq a : forall b, nibbles_eqb a b = true <-> a = b.
Proof.
  induction a as [|x a IH]; intros [|y b]; cbn [nibbles_eqb]; split; intro H;
    try reflexivity; try discriminate.
  - apply andb_true_iff in H as [H1 H2]. apply N.eqb_eq in H1. apply IH in H2. congruence.
  - injection H as -> ->. rewrite N.eqb_refl. apply IH. reflexivity.
Qed.

Lemma tc_nibbles_eqb_refl a : nibbles_eqb a a = true.
Proof. apply tc_nibbles_eqb_eq. reflexivity. Qed.

Fixpoint nodes_eqb (cs ds : list node) : bool :=
  match cs, ds with
  | [], [] => true
  | c :: cs', d :: ds' => node_eqb c d && nodes_eqb cs' ds'
  | _, _ => false
  end.

Lemma node_eqb_branch cs v ds w :
  node_eqb (NBranch cs v) (NBranch ds w) = nodes_eqb cs ds && bytes_eqb v w.
Proof. reflexivity. Qed.

Lemma node_eqb_eq_aux a : forall b, node_eqb a b = true <-> a = b.
Proof.
  induction a as [|p v|p c IHc|cs v IHcs] using node_ind'; intros b.
  - destruct b; cbn [node_eqb]; split; intro H; try reflexivity; discriminate.
  - destruct b as [|q w|q d|ds w]; cbn [node_eqb]; split; intro H; try discriminate.
    + apply andb_true_iff in H as [H1 H2].
      apply tc_nibbles_eqb_eq in H1. apply bytes_eqb_eq in H2. congruence.
    + injection H as -> ->. rewrite tc_nibbles_eqb_refl, bytes_eqb_refl. reflexivity.
  - destruct b as [|q w|q d|ds w]; cbn [node_eqb]; split; intro H; try discriminate.
    + apply andb_true_iff in H as [H1 H2].
      apply tc_nibbles_eqb_eq in H1. apply IHc in H2. congruence.
    + injection H as -> ->. rewrite tc_nibbles_eqb_refl. apply andb_true_iff; split; [reflexivity|].
      apply IHc. reflexivity.
  - destruct b as [|q w|q d|ds w]; try (cbn [node_eqb]; split; intro H; discriminate).
    rewrite node_eqb_branch.
    assert (Hgo : forall ds', nodes_eqb cs ds' = true <-> cs = ds').
    { clear ds. induction IHcs as [|c cs Hc _ IH]; intros [|d ds']; cbn [nodes_eqb];
        split; intro H; try reflexivity; try discriminate.
      - apply andb_true_iff in H as [H1 H2]. apply Hc in H1. apply IH in H2. congruence.
      - injection H as -> ->. apply andb_true_iff; split; [apply Hc | apply IH]; reflexivity. }
    split; intro H.
    + apply andb_true_iff in H as [H1 H2]. apply Hgo in H1. apply bytes_eqb_eq in H2. congruence.
    + injection H as -> ->. apply andb_true_iff; split; [apply Hgo; reflexivity | apply bytes_eqb_refl].
Qed.

Lemma node_eqb_eq a b : node_eqb a b = true <-> a = b.
Proof. apply node_eqb_eq_aux. Qed.

(* ------------------------------------------------------------------ *)
(* nibble lemmas                                                        *)

Lemma tc_nibs_ok_app a b : nibs_ok (a ++ b) = nibs_ok a && nibs_ok b.
Proof. apply forallb_app. Qed.

Lemma tc_nibs_ok_cons x a : nibs_ok (x :: a) = (x <? 16)%N && nibs_ok a.
Proof. reflexivity. Qed.

Lemma tc_nibs_ok_skipn n : forall k, nibs_ok k = true -> nibs_ok (skipn n k) = true.
Proof.
  induction n as [|n IH]; intros [|x k] H; cbn [skipn]; try assumption.
  apply IH. rewrite tc_nibs_ok_cons in H. apply andb_true_iff in H. tauto.
Qed.

Lemma tc_key_starts_with_app p : forall q, key_starts_with (p ++ q) p = true.
Proof.
  induction p as [|x p IH]; intro q; cbn [app key_starts_with]; [destruct q; reflexivity|].
  rewrite N.eqb_refl, IH. reflexivity.
Qed.

Lemma tc_key_starts_with_iff partial : forall full,
  key_starts_with full partial = true <-> exists rest, full = partial ++ rest.
Proof.
  induction partial as [|x p IH]; intros full.
  - split; [intros _; exists full; reflexivity | intros _; destruct full; reflexivity].
  - destruct full as [|f full]; cbn [key_starts_with].
    + split; [discriminate | intros [rest H]; discriminate].
    + split.
      * intro H. apply andb_true_iff in H as [H1 H2]. apply N.eqb_eq in H1. subst f.
        apply IH in H2 as [rest ->]. exists rest. reflexivity.
      * intros [rest H]. cbn [app] in H. injection H as -> ->.
        rewrite N.eqb_refl. cbn [andb]. apply IH. exists rest. reflexivity.
Qed.

Lemma tc_skipn_app {A} (p : list A) : forall q, skipn (length p) (p ++ q) = q.
Proof. induction p as [|x p IH]; intro q; cbn [length app skipn]; [reflexivity | apply IH]. Qed.

Lemma tc_ccp l : forall r c lr rr,
  consume_common_prefix l r = (c, lr, rr) ->
  l = c ++ lr /\ r = c ++ rr /\
  (forall x y lr' rr', lr = x :: lr' -> rr = y :: rr' -> x <> y).
Proof.
  unfold consume_common_prefix.
  induction l as [|x l IH]; intros r c lr rr H.
  - cbn [common_prefix_length firstn skipn] in H. injection H as <- <- <-.
    repeat split. intros x y lr' rr' H; discriminate.
  - destruct r as [|y r].
    + cbn [common_prefix_length firstn skipn] in H. injection H as <- <- <-.
      repeat split. intros x' y' lr' rr' _ H; discriminate.
    + cbn [common_prefix_length] in H. destruct (x =? y)%N eqn:E.
      * apply N.eqb_eq in E. subst y. cbn [firstn skipn] in H. injection H as <- <- <-.
        destruct (IH r _ _ _ eq_refl) as (H1 & H2 & H3).
        repeat split.
        -- cbn [app]. f_equal. exact H1.
        -- cbn [app]. f_equal. exact H2.
        -- exact H3.
      * cbn [firstn skipn] in H. injection H as <- <- <-.
        repeat split. intros x' y' lr' rr' Hx Hy. injection Hx as <- _. injection Hy as <- _.
        apply N.eqb_neq. exact E.
Qed.

Lemma tc_ccp_ok l r c lr rr :
  consume_common_prefix l r = (c, lr, rr) -> nibs_ok l = true -> nibs_ok r = true ->
  nibs_ok c = true /\ nibs_ok lr = true /\ nibs_ok rr = true.
Proof.
  intros H Hl Hr. apply tc_ccp in H as (H1 & H2 & _). subst l r.
  rewrite tc_nibs_ok_app in Hl, Hr.
  apply andb_true_iff in Hl as [? ?]. apply andb_true_iff in Hr as [? ?]. auto.
Qed.

(* ------------------------------------------------------------------ *)
(* list_set, counting non-blank slots                                   *)

Lemma tc_list_set_length {A} (l : list A) : forall i x, length (list_set l i x) = length l.
Proof.
  induction l as [|y l IH]; intros [|i] x; cbn [list_set length]; try reflexivity.
  rewrite IH. reflexivity.
Qed.

Lemma tc_nth_error_list_set_neq {A} (l : list A) : forall i j x,
  i <> j -> nth_error (list_set l i x) j = nth_error l j.
Proof.
  induction l as [|y l IH]; intros [|i] [|j] x Hij; cbn [list_set nth_error]; try reflexivity.
  - contradiction.
  - apply IH. intro He. apply Hij. f_equal. exact He.
Qed.

Lemma tc_forallb_list_set {A} (f : A -> bool) (l : list A) : forall i x,
  forallb f l = true -> f x = true -> forallb f (list_set l i x) = true.
Proof.
  induction l as [|y l IH]; intros [|i] x Hl Hx; cbn [list_set forallb] in *; try reflexivity.
  - apply andb_true_iff in Hl as [_ Hl]. rewrite Hx, Hl. reflexivity.
  - apply andb_true_iff in Hl as [Hy Hl]. rewrite Hy. cbn [andb]. apply IH; assumption.
Qed.

Definition nb (cs : list node) : nat := length (filter (fun c => negb (is_nblank c)) cs).
Definition nbw (c : node) : nat := if is_nblank c then 0 else 1.

Lemma count_entries_nb cs v : count_entries cs v = nb cs + (if nonempty v then 1 else 0).
Proof. reflexivity. Qed.

Lemma nb_cons c cs : nb (c :: cs) = nbw c + nb cs.
Proof. unfold nb, nbw. cbn [filter]. destruct (is_nblank c); reflexivity. Qed.

Lemma nbw_le c : nbw c <= 1.
Proof. unfold nbw. destruct (is_nblank c); lia. Qed.

Lemma nb_list_set cs : forall i c x,
  nth_error cs i = Some c -> nb (list_set cs i x) + nbw c = nb cs + nbw x.
Proof.
  induction cs as [|y cs IH]; intros [|i] c x H; cbn [nth_error list_set] in *; try discriminate.
  - injection H as ->. rewrite !nb_cons. lia.
  - rewrite !nb_cons. specialize (IH i c x H). lia.
Qed.

Lemma nb_pos cs : 1 <= nb cs -> exists i c, nth_error cs i = Some c /\ is_nblank c = false.
Proof.
  induction cs as [|y cs IH]; intro H.
  - cbn in H. lia.
  - destruct (is_nblank y) eqn:E.
    + rewrite nb_cons in H. unfold nbw in H. rewrite E in H.
      destruct (IH H) as (i & c & Hi & Hc). exists (S i), c. split; assumption.
    + exists 0, y. split; [reflexivity | exact E].
Qed.

Lemma blanks16_nth i : i < 16 -> nth_error blanks16 i = Some NBlank.
Proof. intro H. do 16 (destruct i as [|i]; [reflexivity|]). lia. Qed.

(* ------------------------------------------------------------------ *)
(* unfolding lemmas for the nested fixpoints                            *)

Lemma canonical_branch cs v :
  canonical (NBranch cs v) =
  Nat.eqb (length cs) 16 && Nat.leb 2 (count_entries cs v) && forallb canonical_top cs.
Proof.
  reflexivity.
Qed.

Lemma canonical_ext p c :
  canonical (NExt p c) = nibs_ok p && nonempty_path p && is_branch c && canonical c.
Proof. reflexivity. Qed.

Lemma canonical_not_blank c : canonical c = true -> is_nblank c = false.
Proof. destruct c; cbn; intro H; try reflexivity; discriminate. Qed.

Lemma canonical_canonical_top c : canonical c = true -> canonical_top c = true.
Proof. intro H. unfold canonical_top. rewrite H. apply orb_true_r. Qed.

Lemma canonical_top_nonblank c : canonical_top c = true -> is_nblank c = false -> canonical c = true.
Proof. unfold canonical_top. intros H E. rewrite E in H. exact H. Qed.

Section SetUpd.
  Context (k' : nibbles) (v : bytes).
  Fixpoint set_upd (cs : list node) (i : nat) {struct cs} : list node :=
    match cs, i with
    | [], _ => []
    | c :: cs', O => tset c k' v :: cs'
    | c :: cs', S i' => c :: set_upd cs' i'
    end.
End SetUpd.

Lemma set_upd_spec k' v cs : forall i,
  set_upd k' v cs i =
  match nth_error cs i with Some c => list_set cs i (tset c k' v) | None => cs end.
Proof.
  induction cs as [|c cs IH]; intros [|i]; cbn [set_upd nth_error list_set]; try reflexivity.
  rewrite IH. destruct (nth_error cs i); reflexivity.
Qed.

Lemma tset_branch_nil cs bv v : tset (NBranch cs bv) [] v = NBranch cs v.
Proof. reflexivity. Qed.

Lemma tset_branch_cons cs bv n k' v :
  tset (NBranch cs bv) (n :: k') v = NBranch (set_upd k' v cs (N.to_nat n)) bv.
Proof. reflexivity. Qed.

Lemma tset_leaf p pv k v :
  tset (NLeaf p pv) k v =
  let '(common, cur_rem, key_rem) := consume_common_prefix p k in
  match cur_rem, key_rem with
  | [], [] => NLeaf p v
  | [], k0 :: kt => wrap common (NBranch (set_child blanks16 k0 (NLeaf kt v)) pv)
  | c0 :: ct, _ => wrap common (split_branch c0 (NLeaf ct pv) key_rem v)
  end.
Proof. reflexivity. Qed.

Lemma tset_ext p c k v :
  tset (NExt p c) k v =
  let '(common, cur_rem, key_rem) := consume_common_prefix p k in
  match cur_rem with
  | [] => wrap common (tset c key_rem v)
  | [c0] => wrap common (split_branch c0 c key_rem v)
  | c0 :: ct => wrap common (split_branch c0 (NExt ct c) key_rem v)
  end.
Proof. reflexivity. Qed.

Section DelUpd.
  Context (k' : nibbles).
  Fixpoint del_upd (cs : list node) (i : nat) {struct cs}
    : option (node * node) * list node :=
    match cs, i with
    | [], _ => (None, [])
    | c :: cs', O => let c' := tdelete c k' in (Some (c, c'), c' :: cs')
    | c :: cs', S i' => let '(r, l) := del_upd cs' i' in (r, c :: l)
    end.
End DelUpd.

Lemma del_upd_spec k' cs : forall i,
  del_upd k' cs i =
  match nth_error cs i with
  | Some c => (Some (c, tdelete c k'), list_set cs i (tdelete c k'))
  | None => (None, cs)
  end.
Proof.
  induction cs as [|c cs IH]; intros [|i]; cbn [del_upd nth_error list_set]; try reflexivity.
  rewrite IH. destruct (nth_error cs i); reflexivity.
Qed.

Lemma tdelete_leaf p pv k :
  tdelete (NLeaf p pv) k = if nibbles_eqb k p then NBlank else NLeaf p pv.
Proof. reflexivity. Qed.

Lemma tdelete_ext p c k :
  tdelete (NExt p c) k =
  if negb (key_starts_with k p) then NExt p c
  else
    let c' := tdelete c (skipn (length p) k) in
    if node_eqb c' c then NExt p c
    else match c' with
         | NBlank => NBlank
         | NLeaf q w => NLeaf (p ++ q) w
         | NExt q d => NExt (p ++ q) d
         | NBranch _ _ => NExt p c'
         end.
Proof. reflexivity. Qed.

Lemma tdelete_branch_nil cs bv : tdelete (NBranch cs bv) [] = normalize cs [].
Proof. reflexivity. Qed.

Lemma tdelete_branch_cons cs bv n k' :
  tdelete (NBranch cs bv) (n :: k') =
  match del_upd k' cs (N.to_nat n) with
  | (None, _) => NBranch cs bv
  | (Some (old, new), cs') =>
      if node_eqb new old then NBranch cs bv
      else if is_nblank new then normalize cs' bv
      else NBranch cs' bv
  end.
Proof. reflexivity. Qed.

Lemma tget_branch_cons cs v n k' :
  tget (NBranch cs v) (n :: k') =
  match nth_error cs (N.to_nat n) with Some c => tget c k' | None => [] end.
Proof.
  cbn [tget]. generalize (N.to_nat n) as i.
  induction cs as [|c cs IH]; intros [|i]; cbn [nth_error]; try reflexivity.
  apply IH.
Qed.

(* ------------------------------------------------------------------ *)
(* building blocks of _set                                              *)

Lemma canonical_wrap common n :
  nibs_ok common = true -> is_branch n = true -> canonical n = true ->
  canonical (wrap common n) = true.
Proof.
  intros Hc Hb Hn. destruct common as [|x common]; cbn [wrap]; [exact Hn|].
  cbn [canonical nonempty_path]. rewrite Hc, Hb, Hn. reflexivity.
Qed.

Lemma canonical_branch1 k0 sub bv :
  (k0 <? 16)%N = true -> canonical sub = true -> nonempty bv = true ->
  canonical (NBranch (set_child blanks16 k0 sub) bv) = true.
Proof.
  intros Hk Hs Hv. rewrite canonical_branch. unfold set_child.
  assert (Hn : nth_error blanks16 (N.to_nat k0) = Some NBlank) by (apply blanks16_nth; lia).
  rewrite tc_list_set_length, count_entries_nb, Hv.
  pose proof (nb_list_set blanks16 _ _ sub Hn) as Hc.
  unfold nbw in Hc. rewrite (canonical_not_blank _ Hs) in Hc. cbn [is_nblank] in Hc.
  change (nb blanks16) with 0 in Hc.
  rewrite tc_forallb_list_set; [|reflexivity|apply canonical_canonical_top; exact Hs].
  change (length blanks16) with 16.
  apply andb_true_iff; split; [|reflexivity].
  apply andb_true_iff; split; [reflexivity|]. apply Nat.leb_le. lia.
Qed.

Lemma is_branch_split_branch c0 sub key_rem v : is_branch (split_branch c0 sub key_rem v) = true.
Proof. unfold split_branch. destruct key_rem; reflexivity. Qed.

Lemma canonical_split_branch c0 sub key_rem v :
  (c0 <? 16)%N = true -> canonical sub = true -> nibs_ok key_rem = true -> nonempty v = true ->
  (forall k0 kt, key_rem = k0 :: kt -> c0 <> k0) ->
  canonical (split_branch c0 sub key_rem v) = true.
Proof.
  intros Hc Hs Hk Hv Hd. unfold split_branch. destruct key_rem as [|k0 kt].
  - apply canonical_branch1; assumption.
  - specialize (Hd k0 kt eq_refl).
    rewrite tc_nibs_ok_cons in Hk. apply andb_true_iff in Hk as [Hk0 Hkt].
    rewrite canonical_branch. unfold set_child.
    assert (Hn : nth_error blanks16 (N.to_nat c0) = Some NBlank) by (apply blanks16_nth; lia).
    assert (Hn2 : nth_error (list_set blanks16 (N.to_nat c0) sub) (N.to_nat k0) = Some NBlank).
    { rewrite tc_nth_error_list_set_neq by lia. apply blanks16_nth. lia. }
    rewrite !tc_list_set_length, count_entries_nb.
    pose proof (nb_list_set blanks16 _ _ sub Hn) as Hc1.
    pose proof (nb_list_set _ _ _ (NLeaf kt v) Hn2) as Hc2.
    unfold nbw in Hc1, Hc2. rewrite (canonical_not_blank _ Hs) in Hc1. cbn [is_nblank] in Hc1, Hc2.
    change (nb blanks16) with 0 in Hc1.
    rewrite tc_forallb_list_set.
    + change (length blanks16) with 16.
      apply andb_true_iff; split; [|reflexivity].
      apply andb_true_iff; split; [reflexivity|]. apply Nat.leb_le. cbn [nonempty]. lia.
    + apply tc_forallb_list_set; [reflexivity | apply canonical_canonical_top; exact Hs].
    + unfold canonical_top. cbn [is_nblank orb canonical]. rewrite Hkt, Hv. reflexivity.
Qed.

Lemma is_branch_tset_branch cs bv k v : is_branch (tset (NBranch cs bv) k v) = true.
Proof. destruct k; reflexivity. Qed.

(* ------------------------------------------------------------------ *)
(* canonical_tset                                                       *)

Lemma canonical_tset_aux v : nonempty v = true ->
  forall t k, canonical_top t = true -> nibs_ok k = true -> canonical (tset t k v) = true.
Proof.
  intros Hv t.
  induction t as [|p pv|p c IHc|cs bv IHcs] using node_ind'; intros k Ht Hk.
  - (* blank *)
    cbn [tset canonical]. rewrite Hk, Hv. reflexivity.
  - (* leaf *)
    unfold canonical_top in Ht. cbn [is_nblank orb canonical] in Ht.
    apply andb_true_iff in Ht as [Hp Hpv].
    rewrite tset_leaf.
    destruct (consume_common_prefix p k) as [[common cur_rem] key_rem] eqn:E.
    destruct (tc_ccp_ok _ _ _ _ _ E Hp Hk) as (Hco & Hcu & Hke).
    destruct (tc_ccp _ _ _ _ _ E) as (E1 & E2 & Hd).
    destruct cur_rem as [|c0 ct].
    + destruct key_rem as [|k0 kt].
      * cbn [canonical]. rewrite Hp, Hv. reflexivity.
      * rewrite tc_nibs_ok_cons in Hke. apply andb_true_iff in Hke as [Hk0 Hkt].
        apply canonical_wrap; [exact Hco | reflexivity |].
        apply canonical_branch1; [exact Hk0 | | exact Hpv].
        cbn [canonical]. rewrite Hkt, Hv. reflexivity.
    + rewrite tc_nibs_ok_cons in Hcu. apply andb_true_iff in Hcu as [Hc0 Hct].
      apply canonical_wrap; [exact Hco | apply is_branch_split_branch |].
      apply canonical_split_branch; try assumption.
      * cbn [canonical]. rewrite Hct, Hpv. reflexivity.
      * intros k0 kt Hkr. apply (Hd c0 k0 ct kt eq_refl Hkr).
  - (* extension *)
    unfold canonical_top in Ht. cbn [is_nblank orb canonical] in Ht.
    apply andb_true_iff in Ht as [Ht Hcc]. apply andb_true_iff in Ht as [Ht Hcb].
    apply andb_true_iff in Ht as [Hp Hpne].
    rewrite tset_ext.
    destruct (consume_common_prefix p k) as [[common cur_rem] key_rem] eqn:E.
    destruct (tc_ccp_ok _ _ _ _ _ E Hp Hk) as (Hco & Hcu & Hke).
    destruct (tc_ccp _ _ _ _ _ E) as (E1 & E2 & Hd).
    destruct cur_rem as [|c0 ct].
    + apply canonical_wrap; [exact Hco | |].
      * destruct c as [| | |cs bv]; try discriminate. apply is_branch_tset_branch.
      * apply IHc; [apply canonical_canonical_top; exact Hcc | exact Hke].
    + rewrite tc_nibs_ok_cons in Hcu. apply andb_true_iff in Hcu as [Hc0 Hct].
      destruct ct as [|c1 ct].
      * apply canonical_wrap; [exact Hco | apply is_branch_split_branch |].
        apply canonical_split_branch; try assumption.
        intros k0 kt Hkr. apply (Hd c0 k0 [] kt eq_refl Hkr).
      * apply canonical_wrap; [exact Hco | apply is_branch_split_branch |].
        apply canonical_split_branch; try assumption.
        -- cbn [canonical nonempty_path]. rewrite Hct, Hcb, Hcc. reflexivity.
        -- intros k0 kt Hkr. apply (Hd c0 k0 (c1 :: ct) kt eq_refl Hkr).
  - (* branch *)
    unfold canonical_top in Ht. cbn [is_nblank orb] in Ht.
    rewrite canonical_branch in Ht.
    apply andb_true_iff in Ht as [Ht Hall]. apply andb_true_iff in Ht as [Hlen Hcnt].
    apply Nat.eqb_eq in Hlen. apply Nat.leb_le in Hcnt. rewrite count_entries_nb in Hcnt.
    destruct k as [|n k'].
    + rewrite tset_branch_nil, canonical_branch, count_entries_nb, Hlen, Hall, Hv.
      apply andb_true_iff; split; [|reflexivity].
      apply andb_true_iff; split; [reflexivity|]. apply Nat.leb_le.
      destruct (nonempty bv); lia.
    + rewrite tc_nibs_ok_cons in Hk. apply andb_true_iff in Hk as [Hn Hk'].
      rewrite tset_branch_cons, set_upd_spec.
      destruct (nth_error cs (N.to_nat n)) as [c|] eqn:En.
      * assert (Hin : In c cs) by (eapply nth_error_In; exact En).
        assert (Hnew : canonical (tset c k' v) = true).
        { rewrite Forall_forall in IHcs. apply IHcs; [exact Hin | | exact Hk'].
          rewrite forallb_forall in Hall. apply Hall. exact Hin. }
        pose proof (nb_list_set cs _ _ (tset c k' v) En) as Hc.
        pose proof (nbw_le c) as Hle.
        unfold nbw at 2 in Hc. rewrite (canonical_not_blank _ Hnew) in Hc.
        rewrite canonical_branch, count_entries_nb, tc_list_set_length, Hlen.
        rewrite tc_forallb_list_set; [|exact Hall|apply canonical_canonical_top; exact Hnew].
        apply andb_true_iff; split; [|reflexivity].
        apply andb_true_iff; split; [reflexivity|]. apply Nat.leb_le. lia.
      * rewrite canonical_branch, count_entries_nb, Hlen, Hall.
        apply andb_true_iff; split; [|reflexivity].
        apply andb_true_iff; split; [reflexivity|]. apply Nat.leb_le. lia.
Qed.

Theorem canonical_tset t k v :
  canonical_top t = true -> nibs_ok k = true -> nonempty v = true ->
  canonical (tset t k v) = true.
Proof. intros Ht Hk Hv. apply canonical_tset_aux; assumption. Qed.

(* ------------------------------------------------------------------ *)
(* _normalize_branch_node                                               *)

Lemma first_nonblank_spec cs : forall i,
  match first_nonblank cs i with
  | None => nb cs = 0
  | Some (idx, c) =>
      is_nblank c = false /\ In c cs /\ (i <= idx < i + N.of_nat (length cs))%N
  end.
Proof.
  induction cs as [|y cs IH]; intro i; cbn [first_nonblank].
  - reflexivity.
  - destruct (is_nblank y) eqn:E.
    + specialize (IH (i + 1)%N). destruct (first_nonblank cs (i + 1)) as [[idx c]|].
      * destruct IH as (H1 & H2 & H3). split; [exact H1|]. split; [right; exact H2|].
        cbn [length]. lia.
      * rewrite nb_cons. unfold nbw. rewrite E. exact IH.
    + split; [exact E|]. split; [left; reflexivity|]. cbn [length]. lia.
Qed.

Lemma canonical_normalize cs v :
  length cs = 16 -> forallb canonical_top cs = true -> 1 <= count_entries cs v ->
  canonical (normalize cs v) = true.
Proof.
  intros Hlen Hall Hcnt. unfold normalize.
  destruct (Nat.leb 2 (count_entries cs v)) eqn:E2.
  - rewrite canonical_branch, Hlen, E2, Hall. reflexivity.
  - destruct (nonempty v) eqn:Ev.
    + cbn [canonical]. rewrite Ev. reflexivity.
    + pose proof (first_nonblank_spec cs 0%N) as Hf.
      destruct (first_nonblank cs 0) as [[idx c]|].
      * destruct Hf as (Hnb & Hin & Hidx).
        rewrite forallb_forall in Hall. specialize (Hall c Hin).
        apply canonical_top_nonblank in Hall; [|exact Hnb].
        assert (Hi : (idx <? 16)%N = true) by lia.
        destruct c as [|q w|q d|ds w].
        -- discriminate.
        -- cbn [canonical] in Hall |- *. rewrite tc_nibs_ok_cons, Hi. exact Hall.
        -- cbn [canonical nonempty_path] in Hall |- *.
           apply andb_true_iff in Hall as [Hall Hcc]. apply andb_true_iff in Hall as [Hall Hcb].
           apply andb_true_iff in Hall as [Hq _].
           rewrite tc_nibs_ok_cons, Hi, Hq, Hcb, Hcc. reflexivity.
        -- rewrite canonical_ext, tc_nibs_ok_cons, Hi, Hall. reflexivity.
      * rewrite count_entries_nb, Ev, Hf in Hcnt. lia.
Qed.

(* ------------------------------------------------------------------ *)
(* canonical_tdelete                                                    *)

Lemma canonical_tdelete_aux t :
  forall k, canonical_top t = true -> nibs_ok k = true -> canonical_top (tdelete t k) = true.
Proof.
  induction t as [|p pv|p c IHc|cs bv IHcs] using node_ind'; intros k Ht Hk.
  - reflexivity.
  - rewrite tdelete_leaf. destruct (nibbles_eqb k p); [reflexivity | exact Ht].
  - rewrite tdelete_ext.
    destruct (key_starts_with k p) eqn:Eks; cbn [negb]; [|exact Ht].
    cbv zeta.
    destruct (node_eqb (tdelete c (skipn (length p) k)) c) eqn:Eeq; [exact Ht|].
    pose proof Ht as Ht'.
    unfold canonical_top in Ht'. cbn [is_nblank orb canonical] in Ht'.
    apply andb_true_iff in Ht' as [Ht' Hcc]. apply andb_true_iff in Ht' as [Ht' Hcb].
    apply andb_true_iff in Ht' as [Hp Hpne].
    assert (Hc' : canonical_top (tdelete c (skipn (length p) k)) = true).
    { apply IHc; [apply canonical_canonical_top; exact Hcc | apply tc_nibs_ok_skipn; exact Hk]. }
    destruct (tdelete c (skipn (length p) k)) as [|q w|q d|ds w].
    + reflexivity.
    + unfold canonical_top in Hc' |- *. cbn [is_nblank orb canonical] in Hc' |- *.
      apply andb_true_iff in Hc' as [Hq Hw].
      rewrite tc_nibs_ok_app, Hp, Hq, Hw. reflexivity.
    + unfold canonical_top in Hc' |- *. cbn [is_nblank orb canonical] in Hc' |- *.
      apply andb_true_iff in Hc' as [Hc' Hdc]. apply andb_true_iff in Hc' as [Hc' Hdb].
      apply andb_true_iff in Hc' as [Hq _].
      rewrite tc_nibs_ok_app, Hp, Hq, Hdb, Hdc.
      destruct p as [|x p]; [discriminate | reflexivity].
    + unfold canonical_top in Hc' |- *. cbn [is_nblank orb] in Hc'.
      cbn [is_nblank orb canonical is_branch].
      rewrite Hp, Hpne. cbn [andb]. exact Hc'.
  - pose proof Ht as Ht'.
    unfold canonical_top in Ht'. cbn [is_nblank orb] in Ht'.
    rewrite canonical_branch in Ht'.
    apply andb_true_iff in Ht' as [Ht' Hall]. apply andb_true_iff in Ht' as [Hlen Hcnt].
    apply Nat.eqb_eq in Hlen. apply Nat.leb_le in Hcnt. rewrite count_entries_nb in Hcnt.
    destruct k as [|n k'].
    + rewrite tdelete_branch_nil. apply canonical_canonical_top.
      apply canonical_normalize; [exact Hlen | exact Hall |].
      rewrite count_entries_nb. cbn [nonempty]. destruct (nonempty bv); lia.
    + rewrite tc_nibs_ok_cons in Hk. apply andb_true_iff in Hk as [Hn Hk'].
      rewrite tdelete_branch_cons, del_upd_spec.
      destruct (nth_error cs (N.to_nat n)) as [old|] eqn:En; [|exact Ht].
      destruct (node_eqb (tdelete old k') old) eqn:Eeq; [exact Ht|].
      assert (Hin : In old cs) by (eapply nth_error_In; exact En).
      assert (Hnew : canonical_top (tdelete old k') = true).
      { rewrite Forall_forall in IHcs. apply IHcs; [exact Hin | | exact Hk'].
        rewrite forallb_forall in Hall. apply Hall. exact Hin. }
      pose proof (nb_list_set cs _ _ (tdelete old k') En) as Hc.
      pose proof (nbw_le old) as Hle.
      assert (Hall' : forallb canonical_top (list_set cs (N.to_nat n) (tdelete old k')) = true)
        by (apply tc_forallb_list_set; assumption).
      unfold nbw at 2 in Hc.
      destruct (is_nblank (tdelete old k')) eqn:Enb.
      * apply canonical_canonical_top. apply canonical_normalize.
        -- rewrite tc_list_set_length. exact Hlen.
        -- exact Hall'.
        -- rewrite count_entries_nb. lia.
      * apply canonical_canonical_top.
        rewrite canonical_branch, count_entries_nb, tc_list_set_length, Hlen, Hall'.
        apply andb_true_iff; split; [|reflexivity].
        apply andb_true_iff; split; [reflexivity|]. apply Nat.leb_le. lia.
Qed.

Theorem canonical_tdelete t k :
  canonical_top t = true -> nibs_ok k = true -> canonical_top (tdelete t k) = true.
Proof. apply canonical_tdelete_aux. Qed.

(* ------------------------------------------------------------------ *)
(* histories                                                            *)

Definition ops_ok (ops : list top) : Prop :=
  Forall (fun o => match o with TSet k _ => nibs_ok k = true | TDel k => nibs_ok k = true end) ops.

Lemma canonical_tapply t o :
  canonical_top t = true ->
  match o with TSet k _ => nibs_ok k = true | TDel k => nibs_ok k = true end ->
  canonical_top (tapply t o) = true.
Proof.
  intros Ht Ho. destruct o as [k [|b v]|k]; cbn [tapply].
  - apply canonical_tdelete; assumption.
  - apply canonical_canonical_top. apply canonical_tset; [assumption | assumption | reflexivity].
  - apply canonical_tdelete; assumption.
Qed.

Lemma canonical_fold ops : forall t,
  canonical_top t = true -> ops_ok ops -> canonical_top (fold_left tapply ops t) = true.
Proof.
  induction ops as [|o ops IH]; intros t Ht Hops; cbn [fold_left].
  - exact Ht.
  - inversion Hops as [|o' ops' Ho Hops']; subst.
    apply IH; [|exact Hops']. apply canonical_tapply; assumption.
Qed.

Theorem C02_canonical ops : ops_ok ops -> canonical_top (trun ops) = true.
Proof. intro H. unfold trun. apply canonical_fold; [reflexivity | exact H]. Qed.

(* ------------------------------------------------------------------ *)
(* a canonical tree stores something                                    *)

Theorem canonical_nonempty t :
  canonical t = true -> exists q, nibs_ok q = true /\ tget t q <> [].
Proof.
  induction t as [|p v|p c IHc|cs v IHcs] using node_ind'; intro Ht.
  - discriminate.
  - cbn [canonical] in Ht. apply andb_true_iff in Ht as [Hp Hv].
    exists p. split; [exact Hp|]. cbn [tget]. rewrite tc_nibbles_eqb_refl.
    destruct v; [discriminate | discriminate].
  - cbn [canonical] in Ht.
    apply andb_true_iff in Ht as [Ht Hcc]. apply andb_true_iff in Ht as [Ht Hcb].
    apply andb_true_iff in Ht as [Hp _].
    destruct (IHc Hcc) as (q & Hq & Hg).
    exists (p ++ q). split.
    + rewrite tc_nibs_ok_app, Hp, Hq. reflexivity.
    + cbn [tget]. rewrite tc_key_starts_with_app, tc_skipn_app. exact Hg.
  - rewrite canonical_branch in Ht.
    apply andb_true_iff in Ht as [Ht Hall]. apply andb_true_iff in Ht as [Hlen Hcnt].
    apply Nat.eqb_eq in Hlen. apply Nat.leb_le in Hcnt. rewrite count_entries_nb in Hcnt.
    assert (Hnb : 1 <= nb cs) by (destruct (nonempty v); lia).
    destruct (nb_pos cs Hnb) as (i & c & Hi & Hc).
    assert (Hin : In c cs) by (eapply nth_error_In; exact Hi).
    assert (Hlt : i < 16).
    { rewrite <- Hlen. apply nth_error_Some. rewrite Hi. discriminate. }
    rewrite forallb_forall in Hall. specialize (Hall c Hin).
    apply canonical_top_nonblank in Hall; [|exact Hc].
    rewrite Forall_forall in IHcs. destruct (IHcs c Hin Hall) as (q & Hq & Hg).
    exists (N.of_nat i :: q). split.
    + rewrite tc_nibs_ok_cons, Hq. apply andb_true_iff; split; [|reflexivity]. lia.
    + rewrite tget_branch_cons, Nat2N.id, Hi. exact Hg.
Qed.

Theorem canonical_top_empty t :
  canonical_top t = true -> (forall q, nibs_ok q = true -> tget t q = []) -> t = NBlank.
Proof.
  intros Ht Hall. destruct (is_nblank t) eqn:E.
  - destruct t; try discriminate. reflexivity.
  - apply canonical_top_nonblank in Ht; [|exact E].
    destruct (canonical_nonempty t Ht) as (q & Hq & Hg).
    exfalso. apply Hg. apply Hall. exact Hq.
Qed.

Print Assumptions node_ind'.
Print Assumptions node_eqb_eq.
Print Assumptions canonical_tset.
Print Assumptions canonical_tdelete.
Print Assumptions C02_canonical.
Print Assumptions canonical_nonempty.
Print Assumptions canonical_top_empty.
