(* Hexary/D_prune.v — the BOOKKEEPING LAYER of property C06 (pruning keeps the database
   exactly the set of reachable hashed nodes, reference counts = occurrence counts).

   What is proved here is everything that can be said about the reference-count /
   pending-prune machinery of the D-level model WITHOUT knowing which nodes the tree-level
   algorithms touch:
     1. the exact effect of [complete_pruning_loop] / [_complete_pruning],
     2. the exact effect of [_set_db_value],
     3. the exact effect of [_prune_node] / [pending_inc],
     4. the algebraic law of [_prune_on_success]:  counts' = max 0 (counts1 - pend1),
        store' = store1 minus the keys whose count dropped to <= 0,
     5. [exact] ("counts = occurrence multiset, database = its support") is preserved by an
        operation whose body persists with multiplicities [inc] and requests prunes [dec],
     6. every key counted by [regenerate_ref_count] was successfully read.

   WHAT REMAINS for the full property C06 (not proved here, needs the simulation with the
   tree-level algorithms): that the traversal of [_set] / [_delete] SCHEDULES THE RIGHT EVENTS,
   i.e. that for every hashed key h
        inc h  =  number of occurrences of h gained,   dec h = number of occurrences lost
   by the tree-level update (old trie -> new trie), so that [occ + inc - dec] is the
   occurrence function of the new trie. *)
From Coq Require Import List NArith ZArith Bool Lia ZifyBool.
From Coq.Init Require Import Byte.
From PyTrie.Base Require Import Bytes Bytes_proofs Result AMap AMap_proofs Nibbles Rlp.
From PyTrie.Db Require Import ScratchDb ScratchDb_proofs.
From PyTrie.Hexary Require Import Raw D D_safety.
Import ListNotations.
Local Open Scope Z_scope.

(* ================================================================== *)
(* 0. Counting maps                                                    *)

(* the number of prune requests recorded for [h] in a pending table (0 if absent) *)
Definition pend (p : amap Z) (h : bytes) : Z := zget p h.

(* every recorded request count is positive (true of every table built by [pending_inc]
   from the empty table) *)
Definition ppos (p : amap Z) : Prop := forall k n, aget p k = Some n -> 0 < n.

Lemma ppos_nil : ppos [].
Proof. intros k n Hg. discriminate Hg. Qed.

Lemma zget_aset (m : amap Z) k v h :
  zget (aset m k v) h = if bytes_eqb h k then v else zget m h.
Proof. unfold zget. rewrite aget_aset. destruct (bytes_eqb h k); reflexivity. Qed.

Lemma zget_adel (m : amap Z) k h :
  zget (adel m k) h = if bytes_eqb h k then 0 else zget m h.
Proof. unfold zget. rewrite aget_adel. destruct (bytes_eqb h k); reflexivity. Qed.

Lemma amem_aset {V} (m : amap V) k v h :
  amem (aset m k v) h = if bytes_eqb h k then true else amem m h.
Proof. unfold amem. rewrite aget_aset. destruct (bytes_eqb h k); reflexivity. Qed.

Lemma amem_adel {V} (m : amap V) k h :
  amem (adel m k) h = if bytes_eqb h k then false else amem m h.
Proof. unfold amem. rewrite aget_adel. destruct (bytes_eqb h k); reflexivity. Qed.

Lemma aget_cons {V} (k : bytes) (v : V) m h :
  aget ((k, v) :: m) h = if bytes_eqb h k then Some v else aget m h.
Proof. reflexivity. Qed.

Lemma zget_cons k (v : Z) m h :
  zget ((k, v) :: m) h = if bytes_eqb h k then v else zget m h.
Proof. unfold zget. rewrite aget_cons. destruct (bytes_eqb h k); reflexivity. Qed.

Lemma amem_cons {V} (k : bytes) (v : V) m h :
  amem ((k, v) :: m) h = if bytes_eqb h k then true else amem m h.
Proof. unfold amem. rewrite aget_cons. destruct (bytes_eqb h k); reflexivity. Qed.

Lemma amem_notin {V} (m : amap V) k : ~ In k (akeys m) -> amem m k = false.
Proof. intro Hn. unfold amem. rewrite (aget_notin m k Hn). reflexivity. Qed.

Lemma zget_notin (m : amap Z) k : ~ In k (akeys m) -> zget m k = 0.
Proof. intro Hn. unfold zget. rewrite (aget_notin m k Hn). reflexivity. Qed.

Lemma aget_in_keys {V} (m : amap V) k v : aget m k = Some v -> In k (akeys m).
Proof. intro Hg. apply aget_In in Hg. apply (in_map fst) in Hg. exact Hg. Qed.

Lemma In_aget_nodup {V} (m : amap V) k v : NoDup (akeys m) -> In (k, v) m -> aget m k = Some v.
Proof.
  induction m as [|[k0 v0] m IH]; cbn; intros Hnd Hin; [contradiction|].
  inversion Hnd as [|? ? Hnotin Hnd']; subst.
  destruct Hin as [Heq|Hin].
  - injection Heq as -> ->. rewrite bytes_eqb_refl. reflexivity.
  - destruct (bytes_eqb k k0) eqn:E.
    + apply bytes_eqb_eq in E. subst k0. exfalso. apply Hnotin.
      apply (in_map fst) in Hin. exact Hin.
    + apply IH; assumption.
Qed.

Lemma ppos_amem p h : ppos p -> amem p h = (pend p h >? 0).
Proof.
  intro Hp. unfold amem, pend, zget. destruct (aget p h) as [n|] eqn:E.
  - specialize (Hp h n E). lia.
  - reflexivity.
Qed.

(* a reference-count table that stores no zero and no negative count *)
Definition cpos (c : amap Z) : Prop := forall h z, aget c h = Some z -> 0 < z.

Lemma cpos_zget c h : cpos c -> 0 <= zget c h.
Proof.
  intro Hc. unfold zget. destruct (aget c h) as [z|] eqn:E; [|lia].
  specialize (Hc h z E). lia.
Qed.

(* ================================================================== *)
(* 1. complete_pruning_loop                                            *)

(* an entry of the pending table that makes the loop fail: its count drops to <= 0 but the
   key is not in the database *)
Definition offending (c : amap Z) (cs : amap bytes) (e : bytes * Z) : bool :=
  (zget c (fst e) - snd e <=? 0) && negb (amem cs (fst e)).

(* the entries processed before the first offending one (all of them if there is none) *)
Fixpoint ok_prefix (c : amap Z) (cs : amap bytes) (p : amap Z) : amap Z :=
  match p with
  | [] => []
  | e :: p' => if offending c cs e then [] else e :: ok_prefix c cs p'
  end.

(* the pure content of the loop *)
Fixpoint prune_fold (p : amap Z) (c : amap Z) (cs : amap bytes) : bool * amap Z * amap bytes :=
  match p with
  | [] => (true, c, cs)
  | (k, n) :: p' =>
      let new := zget c k - n in
      if new <=? 0 then
        if amem cs k then prune_fold p' (adel c k) (adel cs k) else (false, c, cs)
      else prune_fold p' (aset c k new) cs
  end.

Lemma key_error_hash_KeyError k : key_error_hash (EKeyError k) = Some k.
Proof. reflexivity. Qed.

Lemma loop_is_fold p : forall t s,
  t_db t = DPlain s ->
  complete_pruning_loop p t =
  (let '(ok, c, cs) := prune_fold p (t_refc t) (cells s) in
   (if ok then Ok tt else Err EValidation,
    mkTrie (DPlain (mkStore cs (budget s))) (t_root t) (t_prune t) c (t_pending t))).
Proof.
  induction p as [|[k n] p IH]; intros t s Hd;
    destruct t as [d r pr c pe]; destruct s as [cs b]; cbn [t_db] in Hd; subst d.
  - reflexivity.
  - cbn [complete_pruning_loop prune_fold t_refc t_root t_prune t_pending cells budget].
    unfold bind at 1. unfold getst at 1. cbv beta iota. cbn [t_refc].
    destruct (zget c k - n <=? 0) eqn:En.
    + unfold bind at 1. unfold catch, bind, db_del, ret. cbn [t_db]. unfold store_del. cbn [cells budget].
      destruct (amem cs k) eqn:Em.
      * unfold with_db, getst, putst, with_refc. cbn [Z.eqb t_db t_root t_prune t_refc t_pending].
        erewrite IH; [|reflexivity].
        cbn [t_db t_root t_prune t_refc t_pending cells budget]. reflexivity.
      * rewrite key_error_hash_KeyError. unfold fail. reflexivity.
    + unfold bind at 1. unfold ret at 1. unfold bind at 1. unfold getst at 1. cbv beta iota.
      assert (Hz : (zget c k - n =? 0) = false) by lia.
      rewrite Hz. unfold bind, putst, with_refc. cbn [t_db t_root t_prune t_refc t_pending].
      erewrite IH; [|reflexivity].
      cbn [t_db t_root t_prune t_refc t_pending cells budget]. reflexivity.
Qed.

Lemma offending_ext c cs c2 cs2 k n :
  zget c2 k = zget c k -> amem cs2 k = amem cs k ->
  offending c2 cs2 (k, n) = offending c cs (k, n).
Proof. intros Hz Hm. unfold offending. cbn [fst snd]. rewrite Hz, Hm. reflexivity. Qed.

Lemma ok_prefix_ext c cs c2 cs2 p :
  (forall k, In k (akeys p) -> zget c2 k = zget c k /\ amem cs2 k = amem cs k) ->
  ok_prefix c2 cs2 p = ok_prefix c cs p /\
  existsb (offending c2 cs2) p = existsb (offending c cs) p.
Proof.
  induction p as [|[k n] p IH]; intro Hk; [split; reflexivity|].
  cbn [ok_prefix existsb].
  destruct (Hk k (or_introl eq_refl)) as [Hz Hm].
  rewrite (offending_ext c cs c2 cs2 k n Hz Hm).
  destruct IH as [IH1 IH2]; [intros k' Hin; apply Hk; right; exact Hin|].
  rewrite IH1, IH2. split; reflexivity.
Qed.

Lemma ok_prefix_keys c cs p k : ~ In k (akeys p) -> ~ In k (akeys (ok_prefix c cs p)).
Proof.
  induction p as [|[k0 n0] p IH]; cbn [ok_prefix akeys map]; intro Hn; [exact Hn|].
  destruct (offending c cs (k0, n0)); [cbn; tauto|].
  cbn [akeys map fst] in *. intros [Heq|Hin]; [apply Hn; left; exact Heq|].
  apply IH; [|exact Hin]. intro Hin'. apply Hn. right. exact Hin'.
Qed.

Lemma ok_prefix_nodup c cs p : NoDup (akeys p) -> NoDup (akeys (ok_prefix c cs p)).
Proof.
  induction p as [|[k0 n0] p IH]; cbn [ok_prefix akeys map]; intro Hnd; [exact Hnd|].
  destruct (offending c cs (k0, n0)); [constructor|].
  inversion Hnd as [|? ? Hnotin Hnd']; subst. cbn [akeys map fst].
  constructor; [apply ok_prefix_keys; exact Hnotin|apply IH; exact Hnd'].
Qed.

Lemma ok_prefix_all c cs p : existsb (offending c cs) p = false -> ok_prefix c cs p = p.
Proof.
  induction p as [|e p IH]; cbn [ok_prefix existsb]; intro Hx; [reflexivity|].
  apply orb_false_iff in Hx. destruct Hx as [He Hx]. rewrite He, (IH Hx). reflexivity.
Qed.

(* the pointwise description of the result of processing the entries [q] *)
Definition counts_after (q : amap Z) (c c' : amap Z) : Prop :=
  forall h, zget c' h = if amem q h then Z.max 0 (zget c h - pend q h) else zget c h.

Definition cells_after (q : amap Z) (c : amap Z) (cs cs' : amap bytes) : Prop :=
  forall h, aget cs' h = if amem q h && (zget c h - pend q h <=? 0) then None else aget cs h.

Definition stored_after (q : amap Z) (c c' : amap Z) : Prop :=
  forall h z, aget c' h = Some z -> 0 < z \/ (amem q h = false /\ aget c h = Some z).

Lemma prune_fold_spec p : NoDup (akeys p) -> forall c cs,
  exists c' cs',
    prune_fold p c cs = (negb (existsb (offending c cs) p), c', cs') /\
    counts_after (ok_prefix c cs p) c c' /\
    cells_after (ok_prefix c cs p) c cs cs' /\
    stored_after (ok_prefix c cs p) c c'.
Proof.
  induction p as [|[k n] p IH]; intros Hnd c cs.
  - exists c, cs. cbn. split; [reflexivity|]. split; [|split].
    + intro h. reflexivity.
    + intro h. reflexivity.
    + intros h z Hg. right. split; [reflexivity|exact Hg].
  - inversion Hnd as [|? ? Hnotin Hnd']; subst. cbn [akeys map fst] in Hnotin.
    cbn [prune_fold ok_prefix existsb].
    assert (Ho : offending c cs (k, n) = (zget c k - n <=? 0) && negb (amem cs k)) by reflexivity.
    rewrite Ho. clear Ho.
    destruct (zget c k - n <=? 0) eqn:En.
    + destruct (amem cs k) eqn:Em; cbn [andb negb orb].
      * (* deleted *)
        destruct (IH Hnd' (adel c k) (adel cs k)) as (c' & cs' & Hf & Hc & Hs & Hp).
        destruct (ok_prefix_ext c cs (adel c k) (adel cs k) p) as [Hq Hx].
        { intros k' Hin. rewrite zget_adel, amem_adel.
          destruct (bytes_eqb k' k) eqn:E; [|split; reflexivity].
          apply bytes_eqb_eq in E. subst k'. contradiction. }
        rewrite Hq in Hc, Hs, Hp. rewrite Hx in Hf.
        pose proof (ok_prefix_keys c cs p k Hnotin) as Hnq.
        exists c', cs'. split; [exact Hf|]. split; [|split].
        -- intro h. rewrite (Hc h), amem_cons. unfold pend. rewrite zget_cons, zget_adel.
           destruct (bytes_eqb h k) eqn:E; [|reflexivity].
           apply bytes_eqb_eq in E. subst h. rewrite (amem_notin _ _ Hnq). lia.
        -- intro h. rewrite (Hs h), amem_cons. unfold pend. rewrite zget_cons, zget_adel, aget_adel.
           destruct (bytes_eqb h k) eqn:E; [|reflexivity].
           apply bytes_eqb_eq in E. subst h. rewrite (amem_notin _ _ Hnq). cbn [andb].
           rewrite En. reflexivity.
        -- intros h z Hg. destruct (Hp h z Hg) as [Hz|[Hm Hg']]; [left; exact Hz|].
           rewrite aget_adel in Hg'. destruct (bytes_eqb h k) eqn:E; [discriminate Hg'|].
           right. rewrite amem_cons, E. split; assumption.
      * (* failure *)
        exists c, cs. split; [reflexivity|]. split; [|split].
        -- intro h. reflexivity.
        -- intro h. reflexivity.
        -- intros h z Hg. right. split; [reflexivity|exact Hg].
    + cbn [andb orb].
      destruct (IH Hnd' (aset c k (zget c k - n)) cs) as (c' & cs' & Hf & Hc & Hs & Hp).
      destruct (ok_prefix_ext c cs (aset c k (zget c k - n)) cs p) as [Hq Hx].
      { intros k' Hin. rewrite zget_aset.
        destruct (bytes_eqb k' k) eqn:E; [|split; reflexivity].
        apply bytes_eqb_eq in E. subst k'. contradiction. }
      rewrite Hq in Hc, Hs, Hp. rewrite Hx in Hf.
      pose proof (ok_prefix_keys c cs p k Hnotin) as Hnq.
      exists c', cs'. split; [exact Hf|]. split; [|split].
      * intro h. rewrite (Hc h), amem_cons. unfold pend. rewrite zget_cons, zget_aset.
        destruct (bytes_eqb h k) eqn:E; [|reflexivity].
        apply bytes_eqb_eq in E. subst h. rewrite (amem_notin _ _ Hnq). lia.
      * intro h. rewrite (Hs h), amem_cons. unfold pend. rewrite zget_cons, zget_aset.
        destruct (bytes_eqb h k) eqn:E; [|reflexivity].
        apply bytes_eqb_eq in E. subst h. rewrite (amem_notin _ _ Hnq). cbn [andb].
        rewrite En. reflexivity.
      * intros h z Hg. destruct (Hp h z Hg) as [Hz|[Hm Hg']]; [left; exact Hz|].
        rewrite aget_aset in Hg'. destruct (bytes_eqb h k) eqn:E.
        -- injection Hg' as <-. left. lia.
        -- right. rewrite amem_cons, E. split; assumption.
Qed.

(* [t'] (over the store [s']) is [t] (over [s]) after the entries [q] have been processed *)
Definition pruned_by (q : amap Z) (t : trie) (s : store) (t' : trie) (s' : store) : Prop :=
  t_db t' = DPlain s' /\ budget s' = budget s /\
  t_root t' = t_root t /\ t_prune t' = t_prune t /\
  counts_after q (t_refc t) (t_refc t') /\
  cells_after q (t_refc t) (cells s) (cells s') /\
  stored_after q (t_refc t) (t_refc t').

(* 1, total form.  On a plain store the loop never depends on the write budget.  It stops at
   the first offending entry (insertion order) with ValidationError; the state reached is the
   one after the entries before it — nothing is rolled back. *)
Theorem complete_pruning_spec t s p :
  t_db t = DPlain s -> NoDup (akeys p) ->
  exists t' s',
    complete_pruning_loop p t =
      (if existsb (offending (t_refc t) (cells s)) p then Err EValidation else Ok tt, t') /\
    t_pending t' = t_pending t /\
    pruned_by (ok_prefix (t_refc t) (cells s) p) t s t' s'.
Proof.
  intros Hd Hnd. rewrite (loop_is_fold p t s Hd).
  destruct (prune_fold_spec p Hnd (t_refc t) (cells s)) as (c' & cs' & Hf & Hc & Hs & Hp).
  rewrite Hf. eexists. exists (mkStore cs' (budget s)). split.
  - destruct (existsb (offending (t_refc t) (cells s)) p); reflexivity.
  - cbn [t_pending]. split; [reflexivity|]. unfold pruned_by.
    cbn [t_db t_root t_prune t_refc cells budget]. repeat split; assumption.
Qed.

Lemma no_offending c cs p :
  (forall k n, In (k, n) p -> zget c k - n <= 0 -> amem cs k = true) ->
  existsb (offending c cs) p = false.
Proof.
  induction p as [|[k n] p IH]; intro Hpres; [reflexivity|].
  cbn [existsb]. rewrite IH; [|intros k' n' Hin; apply Hpres; right; exact Hin].
  unfold offending. cbn [fst snd]. rewrite orb_false_r.
  destruct (zget c k - n <=? 0) eqn:En; [|reflexivity].
  rewrite (Hpres k n (or_introl eq_refl)); [reflexivity|lia].
Qed.

(* 1, success case *)
Theorem complete_pruning_ok t s p :
  t_db t = DPlain s -> NoDup (akeys p) ->
  (forall k n, In (k, n) p -> zget (t_refc t) k - n <= 0 -> amem (cells s) k = true) ->
  exists t' s',
    complete_pruning_loop p t = (Ok tt, t') /\
    t_pending t' = t_pending t /\
    pruned_by p t s t' s'.
Proof.
  intros Hd Hnd Hpres.
  destruct (complete_pruning_spec t s p Hd Hnd) as (t' & s' & Hl & Hpe & Hpb).
  pose proof (no_offending _ _ _ Hpres) as Hx.
  rewrite Hx in Hl. rewrite (ok_prefix_all _ _ _ Hx) in Hpb.
  exists t', s'. split; [exact Hl|split; [exact Hpe|exact Hpb]].
Qed.

(* 1, success case, in the form of the informal statement: valid for the tables the
   implementation builds (all request counts positive) over count tables that store no
   count <= 0. *)
Theorem complete_pruning_ok_pos t s p :
  t_db t = DPlain s -> NoDup (akeys p) -> ppos p -> cpos (t_refc t) ->
  (forall k n, In (k, n) p -> zget (t_refc t) k - n <= 0 -> amem (cells s) k = true) ->
  exists t' s',
    complete_pruning_loop p t = (Ok tt, t') /\
    t_db t' = DPlain s' /\ budget s' = budget s /\
    t_root t' = t_root t /\ t_prune t' = t_prune t /\ t_pending t' = t_pending t /\
    (forall h, zget (t_refc t') h = Z.max 0 (zget (t_refc t) h - pend p h)) /\
    (forall h, aget (cells s') h =
               if (pend p h >? 0) && (zget (t_refc t) h - pend p h <=? 0) then None
               else aget (cells s) h) /\
    cpos (t_refc t').
Proof.
  intros Hd Hnd Hpp Hcp Hpres.
  destruct (complete_pruning_ok t s p Hd Hnd Hpres)
    as (t' & s' & Hl & Hpe & Hd' & Hb & Hr & Hpr & Hc & Hs & Hst).
  exists t', s'. repeat (split; [assumption|]). split; [|split].
  - intro h. rewrite (Hc h). destruct (amem p h) eqn:Em; [reflexivity|].
    rewrite (ppos_amem p h Hpp) in Em. pose proof (cpos_zget _ h Hcp) as Hz.
    assert (Hp0 : pend p h = 0).
    { unfold pend, zget in *. destruct (aget p h) as [n|] eqn:E; [|reflexivity].
      specialize (Hpp h n E). lia. }
    lia.
  - intro h. rewrite (Hs h), (ppos_amem p h Hpp). reflexivity.
  - intros h z Hg. destruct (Hst h z Hg) as [Hz|[_ Hg']]; [exact Hz|exact (Hcp h z Hg')].
Qed.

Lemma ok_prefix_split c cs p1 e p2 :
  Forall (fun e' => offending c cs e' = false) p1 -> offending c cs e = true ->
  ok_prefix c cs (p1 ++ e :: p2) = p1 /\ existsb (offending c cs) (p1 ++ e :: p2) = true.
Proof.
  intros Hall He. induction Hall as [|e' p1 He' Hall IH]; cbn [app ok_prefix existsb].
  - rewrite He. split; reflexivity.
  - rewrite He'. destruct IH as [IH1 IH2]. rewrite IH1, IH2. split; reflexivity.
Qed.

(* 1, failure case: [k] is the first key (insertion order) whose count drops to <= 0 while it
   is missing from the database.  ValidationError; the entries before [k] have been processed
   (their counts lowered, their database entries deleted), [k] and the rest are untouched. *)
Theorem complete_pruning_fails t s p1 k n p2 :
  t_db t = DPlain s -> NoDup (akeys (p1 ++ (k, n) :: p2)) ->
  (forall k' n', In (k', n') p1 -> zget (t_refc t) k' - n' <= 0 -> amem (cells s) k' = true) ->
  zget (t_refc t) k - n <= 0 -> amem (cells s) k = false ->
  exists t' s',
    complete_pruning_loop (p1 ++ (k, n) :: p2) t = (Err EValidation, t') /\
    t_pending t' = t_pending t /\
    pruned_by p1 t s t' s'.
Proof.
  intros Hd Hnd Hpres Hk Hm.
  destruct (complete_pruning_spec t s _ Hd Hnd) as (t' & s' & Hl & Hpe & Hpb).
  destruct (ok_prefix_split (t_refc t) (cells s) p1 (k, n) p2) as [Hq Hx].
  - apply Forall_forall. intros [k' n'] Hin. unfold offending. cbn [fst snd].
    destruct (zget (t_refc t) k' - n' <=? 0) eqn:En; [|reflexivity].
    rewrite (Hpres k' n' Hin); [reflexivity|lia].
  - unfold offending. cbn [fst snd]. rewrite Hm. cbn [negb]. lia.
  - rewrite Hx in Hl. rewrite Hq in Hpb. exists t', s'. split; [exact Hl|split; [exact Hpe|exact Hpb]].
Qed.

(* The informal statement of 1 is FALSE without [ppos] / [cpos]:
   (a) an entry with request count 0 for a key whose count is 0 deletes that key from the
       database although [pend p k >? 0] is false;
   (b) a (never produced) negative stored count of a key that is not in [p] is kept, it is
       not replaced by [Z.max 0 _]. *)
Example complete_pruning_needs_ppos :
  let k := [x01] in
  let t := mkTrie (DPlain (store_of [(k, [x02])])) [] true [] None in
  let p := [(k, 0)] in
  exists t', complete_pruning_loop p t = (Ok tt, t') /\
    t_db t' = DPlain (store_of []) /\ (pend p k >? 0) = false.
Proof. eexists. vm_compute. repeat split. Qed.

Example complete_pruning_needs_cpos :
  let k := [x01] in
  let t := mkTrie (DPlain (store_of [])) [] true [(k, -1)] None in
  exists t', complete_pruning_loop [] t = (Ok tt, t') /\
    zget (t_refc t') k = -1 /\ Z.max 0 (zget (t_refc t) k - pend [] k) = 0.
Proof. eexists. vm_compute. repeat split. Qed.

Lemma with_pending_same t : with_pending t (t_pending t) = t.
Proof. destruct t; reflexivity. Qed.

Lemma ppos_aset_inc p k : ppos p -> ppos (aset p k (zget p k + 1)).
Proof.
  intros Hp h n Hg. rewrite aget_aset in Hg. destruct (bytes_eqb h k) eqn:E.
  - injection Hg as <-. unfold zget. destruct (aget p k) as [z|] eqn:Ez; [|lia].
    specialize (Hp k z Ez). lia.
  - exact (Hp h n Hg).
Qed.

Lemma cpos_aset_inc c k : cpos c -> cpos (aset c k (zget c k + 1)).
Proof. exact (ppos_aset_inc c k). Qed.

(* ================================================================== *)
(* 2. _set_db_value                                                    *)

Theorem set_db_value_spec k v t s :
  t_db t = DPlain s -> budget s = None ->
  exists t',
    _set_db_value k v t = (Ok tt, t') /\
    t_db t' = DPlain (mkStore (aset (cells s) k v) None) /\
    t_root t' = t_root t /\ t_prune t' = t_prune t /\ t_pending t' = t_pending t /\
    (forall h, aget (aset (cells s) k v) h = if bytes_eqb h k then Some v else aget (cells s) h) /\
    (forall h, zget (t_refc t') h =
               if t_prune t && bytes_eqb h k then zget (t_refc t) h + 1 else zget (t_refc t) h) /\
    (t_prune t = false -> t_refc t' = t_refc t) /\
    (cpos (t_refc t) -> cpos (t_refc t')).
Proof.
  intros Hd Hb. destruct t as [d r pr c pe]. destruct s as [cs b]. cbn in Hd, Hb. subst d b.
  unfold _set_db_value, bind, db_set, getst, putst, ret, store_set.
  cbn [t_db budget cells with_db t_prune t_root t_refc t_pending].
  destruct pr; eexists; (split; [reflexivity|]);
    cbn [with_refc t_db t_root t_prune t_refc t_pending andb];
    repeat (split; [reflexivity|]).
  - split; [intro h; apply aget_aset|]. split; [|split].
    + intro h. rewrite zget_aset. destruct (bytes_eqb h k) eqn:E; [|reflexivity].
      apply bytes_eqb_eq in E. subst h. reflexivity.
    + discriminate.
    + apply cpos_aset_inc.
  - split; [intro h; apply aget_aset|]. split; [|split].
    + intro h. reflexivity.
    + reflexivity.
    + intro Hc. exact Hc.
Qed.

(* ================================================================== *)
(* 3. pending_inc and _prune_node                                      *)

Theorem pending_inc_spec k t p :
  t_pending t = Some p ->
  exists p',
    pending_inc k t = (Ok tt, with_pending t (Some p')) /\
    (forall h, pend p' h = pend p h + if bytes_eqb h k then 1 else 0) /\
    (NoDup (akeys p) -> NoDup (akeys p')) /\ (ppos p -> ppos p').
Proof.
  intro Hp. exists (aset p k (zget p k + 1)). split; [|split; [|split]].
  - unfold pending_inc, bind, getst, putst. rewrite Hp. reflexivity.
  - intro h. unfold pend. rewrite zget_aset. destruct (bytes_eqb h k) eqn:E; [|lia].
    apply bytes_eqb_eq in E. subst h. reflexivity.
  - apply akeys_aset_nodup.
  - apply ppos_aset_inc.
Qed.

Lemma pending_inc_None k t : t_pending t = None -> pending_inc k t = (Err ETypeError, t).
Proof. intro Hp. unfold pending_inc, bind, getst, fail. rewrite Hp. reflexivity. Qed.

Lemma rlp_encode_blank_short n : is_blank n = true -> Nat.ltb (length (rlp_encode n)) 32 = true.
Proof. intro Hb. apply is_blank_eq in Hb. subst n. reflexivity. Qed.

Section Prune.
  Variable H : bytes -> bytes.
  Variable BNH : bytes.

  (* what _create_node_to_db_mapping answers, in one line *)
  Lemma node_to_db_mapping_valid n u :
    validate_is_node n = Ok u ->
    node_to_db_mapping H n =
    Ok (if is_blank n then (BLANK, None)
        else if Nat.ltb (length (rlp_encode n)) 32 then (n, None)
        else (RStr (H (rlp_encode n)), Some (rlp_encode n))).
  Proof.
    intro Hv. unfold node_to_db_mapping. rewrite Hv.
    destruct (is_blank n); [reflexivity|].
    destruct (Nat.ltb (length (rlp_encode n)) 32); reflexivity.
  Qed.

  (* 3: on a pruning trie inside an operation, pruning a valid node adds ONE request for the
     hash of its RLP exactly when that RLP is >= 32 bytes long; nothing else changes. *)
  Theorem prune_node_spec n u t p :
    t_prune t = true -> t_pending t = Some p -> validate_is_node n = Ok u ->
    exists p',
      _prune_node H n t = (Ok tt, with_pending t (Some p')) /\
      (forall h, pend p' h =
                 pend p h + if Nat.leb 32 (length (rlp_encode n)) && bytes_eqb h (H (rlp_encode n))
                            then 1 else 0) /\
      (NoDup (akeys p) -> NoDup (akeys p')) /\ (ppos p -> ppos p').
  Proof.
    intros Hpr Hp Hv. unfold _prune_node. unfold bind at 1. unfold getst at 1. cbv beta iota.
    rewrite Hpr. unfold bind, lift. rewrite (node_to_db_mapping_valid n u Hv).
    destruct (is_blank n) eqn:Eb.
    - pose proof (rlp_encode_blank_short n Eb) as Hs.
      exists p. rewrite <- Hp, with_pending_same. split; [reflexivity|]. split; [|split; trivial].
      intro h. assert (Hl : Nat.leb 32 (length (rlp_encode n)) = false) by lia.
      rewrite Hl. cbn [andb]. lia.
    - destruct (Nat.ltb (length (rlp_encode n)) 32) eqn:El.
      + exists p. rewrite <- Hp, with_pending_same. split; [reflexivity|]. split; [|split; trivial].
        intro h. assert (Hl : Nat.leb 32 (length (rlp_encode n)) = false) by lia.
        rewrite Hl. cbn [andb]. lia.
      + cbn [item_bytes].
        destruct (pending_inc_spec (H (rlp_encode n)) t p Hp) as (p' & Hi & Hc & Hnd & Hpp).
        exists p'. split; [exact Hi|]. split; [|split; assumption].
        intro h. rewrite (Hc h). assert (Hl : Nat.leb 32 (length (rlp_encode n)) = true) by lia.
        rewrite Hl. cbn [andb]. reflexivity.
  Qed.

  (* the other cases of _prune_node *)
  Lemma prune_node_off n t : t_prune t = false -> _prune_node H n t = (Ok tt, t).
  Proof. intro Hpr. unfold _prune_node, bind, getst. rewrite Hpr. reflexivity. Qed.

  Lemma prune_node_invalid n e t :
    t_prune t = true -> validate_is_node n = Err e -> _prune_node H n t = (Err e, t).
  Proof.
    intros Hpr Hv. unfold _prune_node, bind, getst, lift, node_to_db_mapping.
    rewrite Hpr, Hv. reflexivity.
  Qed.
End Prune.

(* ================================================================== *)
(* 4. _prune_on_success: the algebraic law                             *)

Lemma complete_pruning_unfold t p :
  t_pending t = Some p -> _complete_pruning t = complete_pruning_loop p t.
Proof. intro Hp. unfold _complete_pruning, bind, getst. rewrite Hp. reflexivity. Qed.

Lemma pruned_by_with_pending q t s t' s' pe :
  pruned_by q t s t' s' -> pruned_by q t s (with_pending t' pe) s'.
Proof. intro Hp. exact Hp. Qed.

(* total form: whatever the body did (it succeeded and left a pruning trie over a plain store
   with pending table [p1]), the operation ends with the loop of 1 run on [p1] *)
Theorem prune_on_success_spec (body : M unit) t u t1 s1 p1 :
  t_prune t = true ->
  body (with_pending t (Some [])) = (Ok u, t1) ->
  t_prune t1 = true -> t_db t1 = DPlain s1 -> t_pending t1 = Some p1 -> NoDup (akeys p1) ->
  exists t' s',
    _prune_on_success body t =
      (if existsb (offending (t_refc t1) (cells s1)) p1 then Err EValidation else Ok tt, t') /\
    t_pending t' = None /\
    pruned_by (ok_prefix (t_refc t1) (cells s1) p1) t1 s1 t' s'.
Proof.
  intros Hpr Hb Hpr1 Hd1 Hp1 Hnd.
  destruct (complete_pruning_spec t1 s1 p1 Hd1 Hnd) as (t3 & s3 & Hl & _ & Hpb).
  exists (with_pending t3 None), s3. split; [|split; [reflexivity|exact Hpb]].
  unfold _prune_on_success. rewrite Hpr, Hb, Hpr1.
  rewrite (complete_pruning_unfold t1 p1 Hp1), Hl. reflexivity.
Qed.

(* 4, success case in the form of the informal statement:
     final counts = max 0 (counts after the body - prune requests),
     final store  = store after the body minus the requested keys whose count dropped to <= 0,
     the root is the one the body installed, the pending table is cleared. *)
Theorem prune_on_success_ok (body : M unit) t u t1 s1 p1 :
  t_prune t = true ->
  body (with_pending t (Some [])) = (Ok u, t1) ->
  t_prune t1 = true -> t_db t1 = DPlain s1 -> t_pending t1 = Some p1 ->
  NoDup (akeys p1) -> ppos p1 -> cpos (t_refc t1) ->
  (forall k n, In (k, n) p1 -> zget (t_refc t1) k - n <= 0 -> amem (cells s1) k = true) ->
  exists t' s',
    _prune_on_success body t = (Ok tt, t') /\
    t_db t' = DPlain s' /\ budget s' = budget s1 /\
    t_root t' = t_root t1 /\ t_prune t' = true /\ t_pending t' = None /\
    (forall h, zget (t_refc t') h = Z.max 0 (zget (t_refc t1) h - pend p1 h)) /\
    (forall h, aget (cells s') h =
               if (pend p1 h >? 0) && (zget (t_refc t1) h - pend p1 h <=? 0) then None
               else aget (cells s1) h) /\
    cpos (t_refc t').
Proof.
  intros Hpr Hb Hpr1 Hd1 Hp1 Hnd Hpp Hcp Hpres.
  destruct (complete_pruning_ok_pos t1 s1 p1 Hd1 Hnd Hpp Hcp Hpres)
    as (t3 & s3 & Hl & Hd3 & Hb3 & Hr3 & Hpr3 & _ & Hc & Hs & Hcp3).
  exists (with_pending t3 None), s3.
  split.
  - unfold _prune_on_success. rewrite Hpr, Hb, Hpr1.
    rewrite (complete_pruning_unfold t1 p1 Hp1), Hl. reflexivity.
  - cbn [with_pending t_db t_root t_prune t_refc t_pending].
    repeat (split; [first [assumption|reflexivity|congruence]|]). exact Hcp3.
Qed.

(* the remaining cases of _prune_on_success *)
Lemma prune_on_success_body_err (body : M unit) t e t2 :
  t_prune t = true -> body (with_pending t (Some [])) = (Err e, t2) ->
  _prune_on_success body t = (Err e, with_pending t2 None).
Proof. intros Hpr Hb. unfold _prune_on_success. rewrite Hpr, Hb. reflexivity. Qed.

Lemma prune_on_success_off (body : M unit) t :
  t_prune t = false ->
  _prune_on_success body t =
  match body t with
  | (Ok _, t2) => if t_prune t2 then let '(r, t3) := _complete_pruning t2 in (r, with_pending t3 None)
                  else (Ok tt, with_pending t2 None)
  | (Err e, t2) => (Err e, with_pending t2 None)
  end.
Proof. intro Hpr. unfold _prune_on_success. rewrite Hpr. reflexivity. Qed.

(* ================================================================== *)
(* 5. Exactness is preserved, given the schedule                       *)

(* "the counts are the occurrence function [occ], the database is exactly its support" *)
Definition exact (t : trie) (occ : bytes -> Z) : Prop :=
  exists s, t_db t = DPlain s /\
    (forall h, zget (t_refc t) h = occ h) /\
    (forall h, amem (cells s) h = true <-> 0 < occ h) /\
    (forall h, 0 <= occ h).

Lemma amem_false_pend p h : amem p h = false -> pend p h = 0.
Proof. unfold amem, pend, zget. destruct (aget p h); [discriminate|reflexivity]. Qed.

Lemma amem_true_pend p h : ppos p -> amem p h = true -> 0 < pend p h.
Proof.
  intros Hpp. unfold amem, pend, zget. destruct (aget p h) as [n|] eqn:E; [|discriminate].
  intros _. exact (Hpp h n E).
Qed.

(* If the body of an operation, started in an exact state, performs persists with
   multiplicities [inc] and prune requests with multiplicities [dec], and never requests more
   prunes of a key than that key has references (dec <= occ + inc), then the operation
   succeeds and the state is exact for [occ + inc - dec].

   THIS IS THE BOOKKEEPING HALF OF C06.  What is NOT proved here, and is what remains for the
   full property, is THE SCHEDULE: that for the bodies of [set] and [delete]
        inc h = occurrences of h gained,  dec h = occurrences of h lost
   by the tree-level update, i.e. that [fun h => occ h + inc h - dec h] is the occurrence
   function of the new trie (what regenerate_ref_count recomputes from the new root). *)
Theorem exact_counts_preserved (body : M unit) t occ s u t1 s1 p1 inc dec :
  exact t occ -> t_prune t = true -> t_db t = DPlain s ->
  body (with_pending t (Some [])) = (Ok u, t1) ->
  t_prune t1 = true -> t_db t1 = DPlain s1 -> t_pending t1 = Some p1 ->
  NoDup (akeys p1) -> ppos p1 ->
  (forall h, 0 <= inc h) ->
  (forall h, zget (t_refc t1) h = zget (t_refc t) h + inc h) ->
  (forall h, 0 < inc h -> amem (cells s1) h = true) ->
  (forall h, inc h = 0 -> amem (cells s1) h = amem (cells s) h) ->
  (forall h, pend p1 h = dec h) ->
  (forall h, dec h <= occ h + inc h) ->
  exists t',
    _prune_on_success body t = (Ok tt, t') /\
    exact t' (fun h => occ h + inc h - dec h) /\
    t_root t' = t_root t1 /\ t_prune t' = true /\ t_pending t' = None.
Proof.
  intros (s0 & Hd0 & Hoc & Hsup & Hnn) Hpr Hd Hb Hpr1 Hd1 Hp1 Hnd Hpp Hinc Hrc Hnew Hold Hdec Hle.
  rewrite Hd in Hd0. injection Hd0 as <-.
  assert (Hc1 : forall h, zget (t_refc t1) h = occ h + inc h).
  { intro h. rewrite Hrc, Hoc. reflexivity. }
  assert (Hpres1 : forall h, 0 < occ h + inc h -> amem (cells s1) h = true).
  { intros h Hh. pose proof (Hinc h) as Hi.
    destruct (Z.eq_dec (inc h) 0) as [E|E].
    - rewrite (Hold h E). apply Hsup. lia.
    - apply Hnew. lia. }
  assert (Habs1 : forall h, amem (cells s1) h = true -> 0 < occ h + inc h).
  { intros h Hm. pose proof (Hinc h) as Hi. pose proof (Hnn h) as Ho.
    destruct (Z.eq_dec (inc h) 0) as [E|E]; [|lia].
    rewrite (Hold h E) in Hm. apply Hsup in Hm. lia. }
  destruct (prune_on_success_spec body t u t1 s1 p1 Hpr Hb Hpr1 Hd1 Hp1 Hnd)
    as (t' & s' & Hrun & Hpe' & Hd' & Hb' & Hr' & Hpr' & Hc & Hs & _).
  assert (Hx : existsb (offending (t_refc t1) (cells s1)) p1 = false).
  { apply no_offending. intros k n Hin Hk.
    pose proof (In_aget_nodup p1 k n Hnd Hin) as Hg.
    assert (Hpk : pend p1 k = n) by (unfold pend, zget; rewrite Hg; reflexivity).
    pose proof (Hpp k n Hg) as Hn. pose proof (Hle k) as Hl. rewrite <- Hdec, Hpk in Hl.
    rewrite Hc1 in Hk. apply Hpres1. lia. }
  rewrite Hx in Hrun. rewrite (ok_prefix_all _ _ _ Hx) in Hc, Hs.
  exists t'. split; [exact Hrun|]. split; [|split; [exact Hr'|split; [congruence|exact Hpe']]].
  exists s'. split; [exact Hd'|]. split; [|split].
  - intro h. rewrite (Hc h), Hc1, Hdec. pose proof (Hle h) as Hl.
    destruct (amem p1 h) eqn:Em; [lia|].
    apply amem_false_pend in Em. rewrite Hdec in Em. lia.
  - intro h. unfold amem at 1. rewrite (Hs h), Hc1, Hdec. pose proof (Hle h) as Hl.
    destruct (amem p1 h) eqn:Em; cbn [andb].
    + pose proof (amem_true_pend p1 h Hpp Em) as Hdp. rewrite Hdec in Hdp.
      destruct (occ h + inc h - dec h <=? 0) eqn:El.
      * split; [discriminate|lia].
      * fold (amem (cells s1) h). split; [intros _; lia|]. intros _. apply Hpres1. lia.
    + apply amem_false_pend in Em. rewrite Hdec in Em.
      fold (amem (cells s1) h). split.
      * intro Hm. apply Habs1 in Hm. lia.
      * intro Hh. apply Hpres1. lia.
  - intro h. pose proof (Hle h). lia.
Qed.

(* [ppos p1] cannot be dropped from [exact_counts_preserved]: a request with count 0 for a key
   that has no reference (occ = inc = dec = 0, so dec <= occ + inc) makes the loop try to
   delete a key that is not in the database, and the operation fails. *)
Example exact_counts_needs_ppos :
  let k := [x01] in
  let t := mkTrie (DPlain (store_of [])) [] true [] None in
  let body : M unit := fun t => (Ok tt, with_pending t (Some [(k, 0)])) in
  exact t (fun _ => 0) /\
  _prune_on_success body t = (Err EValidation, t).
Proof.
  split.
  - exists (store_of []). split; [reflexivity|]. split; [intro; reflexivity|].
    split; [|intro; lia]. intro h. cbn. split; [discriminate|lia].
  - vm_compute. reflexivity.
Qed.

(* ================================================================== *)
(* 4'/5'. The bodies of set and delete: shape of their bookkeeping      *)

(* the state inside an operation of a pruning trie over a plain, non-failing store *)
Definition inop (t : trie) (s : store) (p : amap Z) : Prop :=
  t_prune t = true /\ t_db t = DPlain s /\ budget s = None /\ t_pending t = Some p /\
  NoDup (akeys p) /\ ppos p.

(* what any sequence of the primitive effects used by the bodies does to such a state:
   it stays such a state; counts and requests only go up; a database cell either is untouched
   or belongs to a key whose count went up, and then it is present *)
Definition bk (t t' : trie) : Prop :=
  forall s p, inop t s p ->
  exists s' p', inop t' s' p' /\
    (cpos (t_refc t) -> cpos (t_refc t')) /\
    (forall h, zget (t_refc t) h <= zget (t_refc t') h) /\
    (forall h, pend p h <= pend p' h) /\
    (forall h, zget (t_refc t) h < zget (t_refc t') h -> aget (cells s') h <> None) /\
    (forall h, zget (t_refc t) h = zget (t_refc t') h -> aget (cells s') h = aget (cells s) h).

Lemma bk_refl t : bk t t.
Proof.
  intros s p Hin. exists s, p. split; [exact Hin|]. split; [tauto|].
  split; [intro; lia|]. split; [intro; lia|]. split; [intros h Hh; lia|]. intros h _. reflexivity.
Qed.

Lemma bk_trans a b c : bk a b -> bk b c -> bk a c.
Proof.
  intros Hab Hbc s p Hin.
  destruct (Hab s p Hin) as (s1 & p1 & Hin1 & Hcp1 & Hr1 & Hp1 & Hn1 & He1).
  destruct (Hbc s1 p1 Hin1) as (s2 & p2 & Hin2 & Hcp2 & Hr2 & Hp2 & Hn2 & He2).
  exists s2, p2. split; [exact Hin2|]. split; [tauto|].
  split; [intro h; specialize (Hr1 h); specialize (Hr2 h); lia|].
  split; [intro h; specialize (Hp1 h); specialize (Hp2 h); lia|].
  split; intros h Hh; specialize (Hr1 h); specialize (Hr2 h).
  - destruct (Z.eq_dec (zget (t_refc b) h) (zget (t_refc c) h)) as [E|E].
    + rewrite (He2 h E). apply Hn1. lia.
    + apply Hn2. lia.
  - rewrite (He2 h), (He1 h); [reflexivity|lia|lia].
Qed.

Lemma bk_sdv k v : mrel bk (_set_db_value k v).
Proof.
  intros t s p (Hpr & Hd & Hb & Hp & Hnd & Hpp).
  destruct (set_db_value_spec k v t s Hd Hb)
    as (t' & E & Hd' & Hr' & Hpr' & Hp' & Hcs & Hz & _ & Hcp).
  rewrite E. cbn [snd].
  exists (mkStore (aset (cells s) k v) None), p. split.
  - unfold inop. cbn [budget]. repeat split; try congruence; assumption.
  - split; [exact Hcp|].
    split; [intro h; rewrite (Hz h); destruct (t_prune t && bytes_eqb h k); lia|].
    split; [intro; lia|].
    cbn [cells]. split; intros h; rewrite (Hcs h), (Hz h), Hpr; cbn [andb];
      destruct (bytes_eqb h k); intro Hh; first [discriminate|reflexivity|lia].
Qed.

Lemma bk_pinc k : mrel bk (pending_inc k).
Proof.
  intros t s p (Hpr & Hd & Hb & Hp & Hnd & Hpp).
  destruct (pending_inc_spec k t p Hp) as (p' & E & Hc & Hnd' & Hpp').
  rewrite E. cbn [snd]. exists s, p'. split.
  - unfold inop. cbn [with_pending t_db t_prune t_pending]. repeat split; auto.
  - cbn [with_pending t_refc]. split; [tauto|]. split; [intro; lia|].
    split; [intro h; rewrite (Hc h); destruct (bytes_eqb h k); lia|].
    split; [intros h Hh; lia|]. intros h _. reflexivity.
Qed.

Lemma bk_root t h : bk t (with_root t h).
Proof.
  intros s p Hin. exists s, p. split; [exact Hin|]. split; [tauto|].
  split; [intro; cbn; lia|]. split; [intro; lia|].
  cbn [with_root t_refc]. split; [intros h' Hh; lia|]. intros h' _. reflexivity.
Qed.

Section Bodies.
  Variable H : bytes -> bytes.
  Variable BNH : bytes.

  Lemma bk_set_body key value : mrel bk (set_body H BNH key value).
  Proof. apply (mrel_set_body H BNH bk bk_refl bk_trans (fun enc => bk_sdv (H enc) enc) bk_pinc bk_root). Qed.

  Lemma bk_delete_body key : mrel bk (delete_body H BNH key).
  Proof. apply (mrel_delete_body H BNH bk bk_refl bk_trans (fun enc => bk_sdv (H enc) enc) bk_pinc bk_root). Qed.

  (* 4 + 5 for any computation built from the primitive effects (in particular the bodies of
     set and delete), on a pruning trie over a plain non-failing store.  Everything about the
     bookkeeping is discharged; the ONE remaining hypothesis is that no key is scheduled for
     more prunes than it has references after the persists ([pend p1 <= counts of t1]).
     The conclusion determines the new occurrence function as [counts of t1 - pend p1];
     that this IS the occurrence function of the new trie is the schedule (see 5). *)
  Theorem op_exact_step (body : M unit) t occ s u t1 :
    mrel bk body ->
    exact t occ -> t_prune t = true -> t_db t = DPlain s -> budget s = None ->
    body (with_pending t (Some [])) = (Ok u, t1) ->
    exists s1 p1,
      inop t1 s1 p1 /\
      (forall h, zget (t_refc t) h <= zget (t_refc t1) h) /\
      (forall h, zget (t_refc t) h < zget (t_refc t1) h -> aget (cells s1) h <> None) /\
      (forall h, zget (t_refc t) h = zget (t_refc t1) h -> aget (cells s1) h = aget (cells s) h) /\
      ((forall h, pend p1 h <= zget (t_refc t1) h) ->
       exists t',
         _prune_on_success body t = (Ok tt, t') /\
         exact t' (fun h => zget (t_refc t1) h - pend p1 h) /\
         t_root t' = t_root t1 /\ t_prune t' = true /\ t_pending t' = None).
  Proof.
    intros Hbk Hex Hpr Hd Hb Hrun.
    assert (Hin : inop (with_pending t (Some [])) s []).
    { unfold inop. cbn [with_pending t_db t_prune t_pending akeys map].
      repeat split; try assumption; [constructor|apply ppos_nil]. }
    pose proof (Hbk (with_pending t (Some [])) s [] Hin) as Hk. rewrite Hrun in Hk. cbn [snd] in Hk.
    destruct Hk as (s1 & p1 & Hin1 & _ & Hr & _ & Hn & He). cbn [with_pending t_refc] in Hr, Hn, He.
    exists s1, p1. split; [exact Hin1|]. split; [exact Hr|]. split; [exact Hn|]. split; [exact He|].
    intro Hle. destruct Hin1 as (Hpr1 & Hd1 & Hb1 & Hp1 & Hnd1 & Hpp1).
    pose proof Hex as (s0 & Hd0 & Hoc & Hsup & Hnn).
    destruct (exact_counts_preserved body t occ s u t1 s1 p1
                (fun h => zget (t_refc t1) h - zget (t_refc t) h) (pend p1))
      as (t' & Hok & Hex' & Hrest); try assumption.
    - intro h. specialize (Hr h). lia.
    - intro h. lia.
    - intros h Hh. cbv beta in Hh. assert (Hne : aget (cells s1) h <> None) by (apply Hn; lia).
      unfold amem. destruct (aget (cells s1) h); [reflexivity|contradiction].
    - intros h Hh. cbv beta in Hh. unfold amem. rewrite (He h); [reflexivity|lia].
    - intro h. reflexivity.
    - intro h. rewrite <- Hoc. specialize (Hle h). lia.
    - exists t'. split; [exact Hok|]. split; [|exact Hrest].
      destruct Hex' as (s' & Hd' & Hoc' & Hsup' & Hnn'). exists s'. split; [exact Hd'|].
      split; [|split].
      + intro h. rewrite Hoc', <- Hoc. lia.
      + intro h. rewrite Hsup', <- Hoc. lia.
      + intro h. specialize (Hnn' h). rewrite <- Hoc in Hnn'. lia.
  Qed.

  Corollary set_exact_step key value t occ s u t1 :
    exact t occ -> t_prune t = true -> t_db t = DPlain s -> budget s = None ->
    set_body H BNH key value (with_pending t (Some [])) = (Ok u, t1) ->
    exists s1 p1,
      inop t1 s1 p1 /\
      ((forall h, pend p1 h <= zget (t_refc t1) h) ->
       exists t',
         set H BNH key value t = (Ok tt, t') /\
         exact t' (fun h => zget (t_refc t1) h - pend p1 h) /\
         t_root t' = t_root t1 /\ t_prune t' = true /\ t_pending t' = None).
  Proof.
    intros Hex Hpr Hd Hb Hrun.
    destruct (op_exact_step _ t occ s u t1 (bk_set_body key value) Hex Hpr Hd Hb Hrun)
      as (s1 & p1 & Hin & _ & _ & _ & Hk).
    exists s1, p1. split; [exact Hin|]. rewrite set_unfold. exact Hk.
  Qed.

  Corollary delete_exact_step key t occ s u t1 :
    exact t occ -> t_prune t = true -> t_db t = DPlain s -> budget s = None ->
    delete_body H BNH key (with_pending t (Some [])) = (Ok u, t1) ->
    exists s1 p1,
      inop t1 s1 p1 /\
      ((forall h, pend p1 h <= zget (t_refc t1) h) ->
       exists t',
         delete H BNH key t = (Ok tt, t') /\
         exact t' (fun h => zget (t_refc t1) h - pend p1 h) /\
         t_root t' = t_root t1 /\ t_prune t' = true /\ t_pending t' = None).
  Proof.
    intros Hex Hpr Hd Hb Hrun.
    destruct (op_exact_step _ t occ s u t1 (bk_delete_body key) Hex Hpr Hd Hb Hrun)
      as (s1 & p1 & Hin & _ & _ & _ & Hk).
    exists s1, p1. split; [exact Hin|]. rewrite delete_unfold. exact Hk.
  Qed.
End Bodies.

(* ================================================================== *)
(* 6. regenerate_ref_count only counts keys it has read                *)
Section Regen.
  Variable BNH : bytes.

  (* [h] is a key regenerate_ref_count counts and whose node it fetched successfully *)
  Definition readable (t : trie) (h : bytes) : Prop :=
    h <> [] /\ h <> BNH /\ exists node, get_node BNH (RStr h) t = (Ok node, t).

  Lemma regenerate_loop_read fuel : forall stack acc t m t',
    regenerate_loop BNH fuel stack acc t = (Ok m, t') ->
    ((forall h, zget acc h <> 0 -> readable t h) /\ cpos acc) ->
    (forall h, zget m h <> 0 -> readable t h) /\ cpos m.
  Proof.
    induction fuel as [|f IH]; intros stack acc t m t' Hrun Hacc; cbn [regenerate_loop] in Hrun.
    - discriminate Hrun.
    - destruct stack as [|key rest].
      + unfold ret in Hrun. injection Hrun as <- <-. exact Hacc.
      + destruct key as [[|b0 b]|l].
        * exact (IH _ _ _ _ _ Hrun Hacc).
        * destruct (bytes_eqb (b0 :: b) BNH) eqn:Eb; [exact (IH _ _ _ _ _ Hrun Hacc)|].
          unfold bind at 1 in Hrun.
          destruct (get_node BNH (RStr (b0 :: b)) t) as [[node|e] t1] eqn:Eg; [|discriminate Hrun].
          pose proof (D_reads_pure_get_node BNH (RStr (b0 :: b)) t) as Hpure.
          rewrite Eg in Hpure. cbn [snd] in Hpure. subst t1.
          unfold bind at 1 in Hrun. unfold lift at 1 in Hrun.
          assert (Hacc' : (forall h, zget (aset acc (b0 :: b) (zget acc (b0 :: b) + 1)) h <> 0 ->
                                     readable t h) /\
                          cpos (aset acc (b0 :: b) (zget acc (b0 :: b) + 1))).
          { destruct Hacc as [Hr Hc]. split; [|apply cpos_aset_inc; exact Hc].
            intros h Hh. rewrite zget_aset in Hh. destruct (bytes_eqb h (b0 :: b)) eqn:E.
            - apply bytes_eqb_eq in E. subst h. split; [discriminate|]. split.
              + intro Heq. rewrite Heq, bytes_eqb_refl in Eb. discriminate Eb.
              + exists node. exact Eg.
            - exact (Hr h Hh). }
          destruct (get_node_type node) as [ty|e]; [|discriminate Hrun].
          destruct ty; exact (IH _ _ _ _ _ Hrun Hacc').
        * exact (IH _ _ _ _ _ Hrun Hacc).
  Qed.

  Theorem regenerate_keys_read fuel t m t' :
    regenerate_ref_count BNH fuel t = (Ok m, t') ->
    (forall h, zget m h <> 0 -> readable t h) /\
    (forall h z, aget m h = Some z -> 0 < z).
  Proof.
    unfold regenerate_ref_count, bind, getst. intro Hrun.
    apply (regenerate_loop_read _ _ _ _ _ _ Hrun). split.
    - intros h Hh. exfalso. apply Hh. reflexivity.
    - intros h z Hg. discriminate Hg.
  Qed.

  (* a readable key of hash length is a key of the database *)
  Lemma readable_present t s h :
    t_db t = DPlain s -> readable t h -> (32 <= length h)%nat -> aget (cells s) h <> None.
  Proof.
    intros Hd (Hne & Hnb & node & Hg) Hlen. unfold get_node in Hg.
    destruct h as [|b0 b]; [contradiction|].
    destruct (bytes_eqb (b0 :: b) BNH) eqn:Eb.
    { apply bytes_eqb_eq in Eb. contradiction. }
    assert (Hl : Nat.ltb (length (b0 :: b)) 32 = false) by lia.
    rewrite Hl in Hg. unfold bind, db_get in Hg. rewrite Hd in Hg. unfold store_get in Hg.
    destruct (aget (cells s) (b0 :: b)); [discriminate|discriminate Hg].
  Qed.

  (* 6.  Every key in the regenerated table has a positive count, and every such key that has
     the length of a hash is a key of the database.  (For keys shorter than 32 bytes the
     statement is false for the model as it stands — see [regenerate_counts_unread_short_key]
     below: get_node decodes a short reference in place and never reads the database.) *)
  Theorem regenerate_keys_present fuel t s m t' :
    t_db t = DPlain s ->
    regenerate_ref_count BNH fuel t = (Ok m, t') ->
    forall h, aget m h <> None -> (32 <= length h)%nat -> aget (cells s) h <> None.
  Proof.
    intros Hd Hrun h Hm Hlen. destruct (regenerate_keys_read _ _ _ _ Hrun) as [Hr Hp].
    apply (readable_present t s h Hd); [|exact Hlen]. apply Hr.
    unfold zget. destruct (aget m h) as [z|] eqn:E; [|contradiction].
    specialize (Hp h z E). lia.
  Qed.

  Corollary regenerate_keys_present_nz fuel t s m t' :
    t_db t = DPlain s ->
    regenerate_ref_count BNH fuel t = (Ok m, t') ->
    forall h, zget m h <> 0 -> (32 <= length h)%nat -> aget (cells s) h <> None.
  Proof.
    intros Hd Hrun h Hz. apply (regenerate_keys_present fuel t s m t' Hd Hrun).
    intro E. apply Hz. unfold zget. rewrite E. reflexivity.
  Qed.
End Regen.

(* ================================================================== *)
(* 7. A decision procedure for [exact] against a finite count table    *)

Definition exactb (t : trie) (m : amap Z) : bool :=
  match t_db t with
  | DPlain s =>
      forallb (fun h => zget (t_refc t) h =? zget m h) (akeys (t_refc t) ++ akeys m) &&
      forallb (fun h => Bool.eqb (amem (cells s) h) (0 <? zget m h)) (akeys (cells s) ++ akeys m) &&
      forallb (fun e : bytes * Z => 0 <=? snd e) m
  | DScratch _ => false
  end.

Lemma exactb_sound t m : exactb t m = true -> exact t (zget m).
Proof.
  unfold exactb. destruct (t_db t) as [s|sc] eqn:Hd; [|discriminate].
  intro Hb. apply andb_true_iff in Hb. destruct Hb as [Hb H3].
  apply andb_true_iff in Hb. destruct Hb as [H1 H2].
  rewrite forallb_forall in H1, H2, H3.
  exists s. split; [exact Hd|]. split; [|split].
  - intro h.
    destruct (aget (t_refc t) h) as [z|] eqn:E1.
    { apply Z.eqb_eq. apply H1. apply in_or_app. left. exact (aget_in_keys _ _ _ E1). }
    destruct (aget m h) as [z|] eqn:E2.
    { apply Z.eqb_eq. apply H1. apply in_or_app. right. exact (aget_in_keys _ _ _ E2). }
    unfold zget. rewrite E1, E2. reflexivity.
  - intro h.
    assert (Hin : In h (akeys (cells s) ++ akeys m) ->
                  (amem (cells s) h = true <-> 0 < zget m h)).
    { intro Hin. specialize (H2 h Hin). apply eqb_prop in H2. rewrite H2. lia. }
    destruct (aget (cells s) h) as [b|] eqn:E1.
    { apply Hin. apply in_or_app. left. exact (aget_in_keys _ _ _ E1). }
    destruct (aget m h) as [z|] eqn:E2.
    { apply Hin. apply in_or_app. right. exact (aget_in_keys _ _ _ E2). }
    unfold amem, zget. rewrite E1, E2. split; [discriminate|lia].
  - intro h. unfold zget. destruct (aget m h) as [z|] eqn:E; [|lia].
    apply aget_In in E. specialize (H3 (h, z) E). cbn [snd] in H3. lia.
Qed.

(* check [exact] against what regenerate_ref_count recomputes *)
Definition regen_exactb (BNH : bytes) (fuel : nat) (t : trie) : bool :=
  match regenerate_ref_count BNH fuel t with
  | (Ok m, _) => exactb t m
  | (Err _, _) => false
  end.

Lemma regen_exactb_sound BNH fuel t :
  regen_exactb BNH fuel t = true ->
  exists m, regenerate_ref_count BNH fuel t = (Ok m, t) /\ exact t (zget m).
Proof.
  unfold regen_exactb. pose proof (D_reads_pure_regenerate_ref_count BNH fuel t) as Hpure.
  destruct (regenerate_ref_count BNH fuel t) as [[m|e] t'] eqn:E; [|discriminate].
  cbn [snd] in Hpure. subst t'. intro Hb. exists m. split; [reflexivity|].
  apply exactb_sound. exact Hb.
Qed.

(* ================================================================== *)
(* 8. Concrete instances with the real Keccak-256                      *)
From PyTrie.Base Require Import Keccak.
Local Open Scope Z_scope.

Module C06_examples.
  Definition K := keccak256.
  Definition BN : bytes := keccak256 [x80].

  (* -- 6 is false for keys shorter than 32 bytes -------------------- *)
  (* the three bytes c2 20 01 are the RLP of the leaf [[0x20], [0x01]]: used as a child
     reference (or as root "hash") they are decoded in place, counted, and never read *)
  Definition short_ref : bytes := [xc2; x20; x01].
  Definition junk_branch : item :=
    RList (RStr short_ref :: repeat BLANK 15 ++ [RStr (repeat x61 40)]).
  Definition junk_trie : trie :=
    mkTrie (DPlain (store_of [(K (rlp_encode junk_branch), rlp_encode junk_branch)]))
           (K (rlp_encode junk_branch)) true [] None.

  Example regenerate_counts_unread_short_key :
    exists m t', regenerate_ref_count BN 100 junk_trie = (Ok m, t') /\
                 zget m short_ref = 1 /\
                 aget (cells (outer_store junk_trie)) short_ref = None.
  Proof.
    eexists. eexists. split; [vm_compute; reflexivity|]. split; vm_compute; reflexivity.
  Qed.

  Example regenerate_counts_unread_short_root :
    exists m t', regenerate_ref_count BN 100 (mkTrie (DPlain (store_of [])) short_ref true [] None)
                 = (Ok m, t') /\ zget m short_ref = 1.
  Proof. eexists. eexists. split; [vm_compute; reflexivity|]. vm_compute. reflexivity. Qed.

  (* -- a pruning history with a shared node ------------------------- *)
  Definition v40 : bytes := repeat x61 40.
  Definition w40 : bytes := repeat x62 40.
  Definition k1 : bytes := [x00; x11].
  Definition k2 : bytes := [x10; x11].
  Definition k3 : bytes := [x20; x11].
  (* keys 0x0011 and 0x1011 with the same 40-byte value: the root branch holds, in slots 0
     and 1, the SAME leaf (key nibbles 0,1,1, value v40), one database entry, count 2 *)
  Definition hist : list dop := [DSet k1 v40; DSet k2 v40; DSet k3 w40; DDelete k1].
  Definition shared_leaf : item := RList [RStr [x30; x11]; RStr v40].
  Definition hL : bytes := K (rlp_encode shared_leaf).

  (* run a history, remembering whether every call returned normally *)
  Fixpoint run_ok (ops : list dop) (t : trie) : bool * trie :=
    match ops with
    | [] => (true, t)
    | o :: ops' =>
        match dstep K BN o t with
        | (Ok _, t') => run_ok ops' t'
        | (Err _, t') => (false, t')
        end
    end.

  Definition after (n : nat) : trie := snd (run_ok (firstn n hist) (empty_trie BN true)).

  Lemma history_runs : fst (run_ok hist (empty_trie BN true)) = true.
  Proof. vm_compute. reflexivity. Qed.

  Lemma history_exact :
    forallb (fun n => regen_exactb BN 100 (after n)) [1; 2; 3; 4]%nat = true.
  Proof. vm_compute. reflexivity. Qed.

  Lemma history_counts :
    zget (t_refc (after 2)) hL = 2 /\
    zget (t_refc (after 3)) hL = 2 /\
    zget (t_refc (after 4)) hL = 1 /\
    amem (cells (outer_store (after 4))) hL = true.
  Proof.
    split; [vm_compute; reflexivity|]. split; [vm_compute; reflexivity|].
    split; [vm_compute; reflexivity|]. vm_compute; reflexivity.
  Qed.

  (* After each of the four operations [exact] holds with the regenerated counts; the shared
     leaf has count 2 while both keys are present and count 1 (still in the database) after one
     of them is deleted. *)
  Example C06_shared_node_history :
    fst (run_ok hist (empty_trie BN true)) = true /\
    (forall n, In n [1; 2; 3; 4]%nat ->
       exists m, regenerate_ref_count BN 100 (after n) = (Ok m, after n) /\
                 exact (after n) (zget m)) /\
    zget (t_refc (after 2)) hL = 2 /\
    zget (t_refc (after 3)) hL = 2 /\
    zget (t_refc (after 4)) hL = 1 /\
    amem (cells (outer_store (after 4))) hL = true.
  Proof.
    split; [exact history_runs|]. split.
    - intros n Hn. apply regen_exactb_sound.
      exact (proj1 (forallb_forall _ _) history_exact n Hn).
    - exact history_counts.
  Qed.
End C06_examples.

Print Assumptions complete_pruning_spec.
Print Assumptions complete_pruning_ok_pos.
Print Assumptions complete_pruning_fails.
Print Assumptions set_db_value_spec.
Print Assumptions prune_node_spec.
Print Assumptions prune_on_success_spec.
Print Assumptions prune_on_success_ok.
Print Assumptions exact_counts_preserved.
Print Assumptions set_exact_step.
Print Assumptions delete_exact_step.
Print Assumptions regenerate_keys_present.
Print Assumptions C06_examples.C06_shared_node_history.
Print Assumptions C06_examples.regenerate_counts_unread_short_key.
