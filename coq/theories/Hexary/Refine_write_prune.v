(* Hexary/Refine_write_prune.v — WRITE REFINEMENT for PRUNING tries (continuation of
   Hexary/Refine_write.v): over a plain non-failing store, _set / _delete on the encoding of a
   tree return the encoding of tset / tdelete AND schedule exactly the right reference-count
   events ("the schedule" left open by Hexary/D_prune.v): for every key h,
      (count of h after the body) - (prune requests for h) = occurrences of h in the new tree.
   Hence set / delete keep the database EXACTLY the set of nodes of the current tree with
   reference counts = occurrence counts, and every history from the empty pruning trie does. *)
From Coq Require Import List NArith ZArith Bool Lia ZifyBool.
From Coq.Init Require Import Byte.
From PyTrie.Base Require Import Bytes Bytes_proofs Result AMap AMap_proofs Nibbles Nibbles_proofs Rlp Rlp_proofs.
From PyTrie.Db Require Import ScratchDb.
From PyTrie.Hexary Require Import Raw Raw_proofs D Tree Tree_aux Tree_map TreeTraverse D_read Refine_read.
From PyTrie.Hexary Require Tree_canon Tree_unique Tree_traverse_proofs D_safety.
From PyTrie.Hexary Require Import D_prune Refine_write.
Import ListNotations.
Open Scope N_scope.

(* lia on a goal over Z, with only the Z (in)equalities of the context kept (the contexts of the
   case analyses below are large and make plain lia slow) *)
Ltac zlia :=
  repeat match goal with
         | Hx : ?T |- _ =>
             lazymatch T with
             | @eq Z _ _ => fail
             | Z.le _ _ => fail
             | Z.lt _ _ => fail
             | _ => clear Hx
             end
         end; lia.

(* the state of a pruning trie inside an operation over the plain non-failing store m *)
Definition ps (r : bytes) (rc pd : amap Z) (m : amap bytes) : trie :=
  mkTrie (DPlain (store_of m)) r true rc (Some pd).

Section Counting.
  Variable H : bytes -> bytes.

  (* is the top node of t stored under the key h? *)
  Definition hit (h : bytes) (t : node) : Z :=
    if negb (Nat.ltb (length (ebody H t)) 32) && bytes_eqb h (H (ebody H t)) then 1%Z else 0%Z.

  (* occurrences of the key h among ALL hashed sub-trees of t (the unfolded tree, with multiplicity) *)
  Fixpoint cntA (h : bytes) (t : node) {struct t} : Z :=
    (hit h t +
     match t with
     | NExt _ c => cntA h c
     | NBranch cs _ =>
         (fix sum (cs : list node) : Z :=
            match cs with [] => 0 | c :: cs' => cntA h c + sum cs' end) cs
     | _ => 0
     end)%Z.

  Fixpoint sumA (h : bytes) (cs : list node) : Z :=
    match cs with [] => 0%Z | c :: cs' => (cntA h c + sumA h cs')%Z end.

  (* ... among the PROPER sub-trees *)
  Definition cntP (h : bytes) (t : node) : Z := (cntA h t - hit h t)%Z.

  Lemma hit_blank h : hit h NBlank = 0%Z.
  Proof. reflexivity. Qed.

  Lemma hit_range h t : (0 <= hit h t <= 1)%Z.
  Proof. unfold hit. destruct (_ && _); lia. Qed.

  Lemma cntA_blank h : cntA h NBlank = 0%Z.
  Proof. reflexivity. Qed.

  Lemma cntA_leaf h p v : cntA h (NLeaf p v) = hit h (NLeaf p v).
  Proof. cbn [cntA]. lia. Qed.

  Lemma cntA_ext h p c : cntA h (NExt p c) = (hit h (NExt p c) + cntA h c)%Z.
  Proof. reflexivity. Qed.

  Lemma cntA_branch h cs v : cntA h (NBranch cs v) = (hit h (NBranch cs v) + sumA h cs)%Z.
  Proof.
    cbn [cntA]. f_equal. induction cs as [|c cs IH]; [reflexivity|]. cbn [sumA]. rewrite IH. reflexivity.
  Qed.

  Lemma cntP_leaf h p v : cntP h (NLeaf p v) = 0%Z.
  Proof. unfold cntP. rewrite cntA_leaf. lia. Qed.

  Lemma cntP_blank h : cntP h NBlank = 0%Z.
  Proof. reflexivity. Qed.

  Lemma cntP_ext h p c : cntP h (NExt p c) = cntA h c.
  Proof. unfold cntP. rewrite cntA_ext. lia. Qed.

  Lemma cntP_branch h cs v : cntP h (NBranch cs v) = sumA h cs.
  Proof. unfold cntP. rewrite cntA_branch. lia. Qed.

  Lemma cntA_P h t : cntA h t = (cntP h t + hit h t)%Z.
  Proof. unfold cntP. lia. Qed.

  Lemma cntA_nonneg h t : (0 <= cntA h t)%Z.
  Proof.
    induction t as [| p v | p c IH | cs v IH] using node_ind'.
    - cbn. lia.
    - rewrite cntA_leaf. apply hit_range.
    - rewrite cntA_ext. pose proof (hit_range h (NExt p c)). lia.
    - rewrite cntA_branch.
      assert (Hs : (0 <= sumA h cs)%Z) by (induction IH as [|c cs Hc _ IHcs]; cbn [sumA]; lia).
      pose proof (hit_range h (NBranch cs v)). lia.
  Qed.

  Lemma cntP_nonneg h t : (0 <= cntP h t)%Z.
  Proof.
    destruct t as [| p v | p c | cs v].
    - cbn. lia.
    - rewrite cntP_leaf. lia.
    - rewrite cntP_ext. apply cntA_nonneg.
    - rewrite cntP_branch. induction cs as [|c cs IH]; cbn [sumA]; [lia|]. pose proof (cntA_nonneg h c). lia.
  Qed.

  Lemma sumA_blanks16 h : sumA h blanks16 = 0%Z.
  Proof. reflexivity. Qed.

  Lemma sumA_set_child h cs i c : (N.to_nat i < length cs)%nat ->
    sumA h (set_child cs i c) = (sumA h cs - cntA h (child cs i) + cntA h c)%Z.
  Proof.
    unfold set_child, child. generalize (N.to_nat i) as j. induction cs as [|x cs IH]; intros j Hj; cbn [length] in Hj; [lia|].
    destruct j as [|j]; cbn [list_set nth sumA]; [lia|]. rewrite IH by lia. lia.
  Qed.

  Lemma cntP_wrap h common n :
    cntP h (wrap common n) = (cntP h n + match common with [] => 0 | _ => hit h n end)%Z.
  Proof. destruct common as [|c0 ct]; cbn [wrap]; [lia|]. rewrite cntP_ext, cntA_P. reflexivity. Qed.

  (* the root is stored even when short: occurrences of h in the database of the trie t *)
  Definition occR (t : node) (h : bytes) : Z :=
    (cntP h t + if is_nblank t then 0 else if bytes_eqb h (troot H t) then 1 else 0)%Z.

  Lemma occR_nonneg t h : (0 <= occR t h)%Z.
  Proof. unfold occR. pose proof (cntP_nonneg h t). destruct (is_nblank t); [lia|]. destruct (bytes_eqb h (troot H t)); lia. Qed.
End Counting.

Section PruneWrite.
  Variable H : bytes -> bytes.
  Variable BNH : bytes.
  Hypothesis H_len : forall x, length (H x) = 32%nat.
  Hypothesis BNH_def : BNH = H (rlp_encode (RStr [])).
  Variable SB : list bytes.
  Hypothesis cfS : cf H SB.

  Notation ebody := (ebody H).
  Notation enc := (enc H).
  Notation tref := (tref H).
  Notation good := (good H BNH).
  Notation within := (within H SB).
  Notation inS := (inS H SB).
  Notation inS_here := (inS_here H SB).
  Notation inS_top := (inS_top H SB).
  Notation stored := (stored H).
  Notation stored_sub := (stored_sub H).
  Notation inj_ok := (inj_ok H SB).
  Notation hit := (hit H).
  Notation cntA := (cntA H).
  Notation cntP := (cntP H).
  Notation sumA := (sumA H).
  Notation bitems := (bitems H).

  (* the net bookkeeping of a key: references counted minus prunes requested *)
  Definition dl (rc pd : amap Z) (h : bytes) : Z := (zget rc h - pend pd h)%Z.

  (* ---------------- primitive effects on a pruning state ---------------- *)
  Lemma get_node_ps ref r rc pd m : get_node BNH ref (ps r rc pd m) = (gn BNH m ref, ps r rc pd m).
  Proof. apply get_node_eq. reflexivity. Qed.

  Lemma get_node_good_ps t r rc pd m : good m t ->
    get_node BNH (tref t) (ps r rc pd m) = (Ok (enc t), ps r rc pd m).
  Proof. intro Hg. rewrite get_node_ps, (good_gn H BNH H_len m t Hg). reflexivity. Qed.

  Lemma hit_long h t : Nat.ltb (length (ebody t)) 32 = false ->
    hit h t = if bytes_eqb h (H (ebody t)) then 1%Z else 0%Z.
  Proof. intro Hl. unfold Refine_write_prune.hit. rewrite Hl. reflexivity. Qed.

  Lemma hit_short h t : Nat.ltb (length (ebody t)) 32 = true -> hit h t = 0%Z.
  Proof. intro Hl. unfold Refine_write_prune.hit. rewrite Hl. reflexivity. Qed.

  Lemma prune_enc_ps t r rc pd m : wf t = true ->
    exists pd', _prune_node H (enc t) (ps r rc pd m) = (Ok tt, ps r rc pd' m) /\
                (forall h, pend pd' h = (pend pd h + hit h t)%Z).
  Proof.
    intro Hwf.
    destruct (prune_node_spec H (enc t) tt (ps r rc pd m) pd eq_refl eq_refl (validate_enc H H_len t Hwf))
      as (pd' & E & Hp & _).
    exists pd'. split; [exact E|]. intro h. rewrite (Hp h). f_equal.
    unfold Refine_write_prune.hit, Refine_read.ebody.
    destruct (Nat.ltb (length (rlp_encode (enc t))) 32) eqn:El.
    - assert (Hx : Nat.leb 32 (length (rlp_encode (enc t))) = false) by lia. rewrite Hx. reflexivity.
    - assert (Hx : Nat.leb 32 (length (rlp_encode (enc t))) = true) by lia. rewrite Hx. reflexivity.
  Qed.

  Lemma persist_enc_ps t r rc pd m : wf t = true ->
    exists rc', _persist_node H (enc t) (ps r rc pd m) = (Ok (tref t), ps r rc' pd (persist H m (enc t))) /\
                (forall h, zget rc' h = (zget rc h + hit h t)%Z).
  Proof.
    intro Hwf. unfold _persist_node, node_to_db_mapping, Tree.tref, ref_of_item, persist.
    rewrite (validate_enc H H_len t Hwf).
    destruct (is_blank (enc t)) eqn:Eb.
    - exists rc. split; [reflexivity|]. intro h.
      rewrite is_blank_enc in Eb. destruct t; try discriminate Eb. cbn. lia.
    - destruct (Nat.ltb (length (rlp_encode (enc t))) 32) eqn:El.
      + exists rc. split; [reflexivity|]. intro h. rewrite (hit_short h t El). lia.
      + exists (aset rc (H (rlp_encode (enc t))) (zget rc (H (rlp_encode (enc t))) + 1)%Z).
        split; [reflexivity|]. intro h. rewrite zget_aset, (hit_long h t El). unfold Refine_read.ebody.
        destruct (bytes_eqb h (H (rlp_encode (enc t)))) eqn:E; [|lia].
        apply bytes_eqb_eq in E. subst h. reflexivity.
  Qed.

  (* the post-condition: result, store as for non-pruning tries, and the net bookkeeping D *)
  Definition wpq (m : amap bytes) (rc pd : amap Z) (t' : node) (D : bytes -> Z) (r : bytes)
             (out : result item * trie) : Prop :=
    exists m' rc' pd', out = (Ok (enc t'), ps r rc' pd' m') /\ sub_store m m' /\ within m' /\
                       stored_sub m' t' /\ (forall h, dl rc' pd' h = (dl rc pd h + D h)%Z).

  Lemma wpq_frame m0 rc0 pd0 m rc pd t' D0 D D' r out :
    sub_store m0 m -> (forall h, dl rc pd h = (dl rc0 pd0 h + D0 h)%Z) ->
    wpq m rc pd t' D r out -> (forall h, (D0 h + D h = D' h)%Z) -> wpq m0 rc0 pd0 t' D' r out.
  Proof.
    intros Hsub H0 (m' & rc' & pd' & E & H1 & H2 & H3 & H4) HD. exists m', rc', pd'.
    split; [exact E|]. split; [eapply sub_store_trans; eassumption|]. split; [exact H2|]. split; [exact H3|].
    intro h. rewrite (H4 h), (H0 h), <- (HD h). lia.
  Qed.

  Lemma wpq_same m rc pd t r D : within m -> stored_sub m t -> (forall h, D h = 0%Z) ->
    wpq m rc pd t D r (Ok (enc t), ps r rc pd m).
  Proof.
    intros Hw Hs HD. exists m, rc, pd. split; [reflexivity|]. split; [apply sub_store_refl|].
    split; [exact Hw|]. split; [exact Hs|]. intro h. rewrite (HD h). lia.
  Qed.

  (* persisting the encoding of a tree whose proper sub-trees are stored *)
  Lemma persist_step_ps t r rc pd m : wf t = true -> within m -> inS_here t -> stored_sub m t ->
    exists m' rc', _persist_node H (enc t) (ps r rc pd m) = (Ok (tref t), ps r rc' pd m') /\
                   sub_store m m' /\ within m' /\ stored m' t /\
                   (forall h, dl rc' pd h = (dl rc pd h + hit h t)%Z).
  Proof.
    intros Hwf Hw Hin Hs. destruct (persist_enc_ps t r rc pd m Hwf) as (rc' & E & Hrc).
    exists (persist H m (enc t)), rc'.
    destruct (persist_spec H SB cfS t m Hw Hin) as (H1 & H2 & H3).
    split; [exact E|]. split; [exact H1|]. split; [exact H2|]. split.
    - apply stored_intro; [exact H3|]. apply (stored_sub_mono H m); assumption.
    - intro h. unfold dl. rewrite (Hrc h). lia.
  Qed.

  Lemma new_leaf_step_ps kt v r rc pd m : nibs_ok kt = true -> within m -> inS (NLeaf kt v) ->
    exists m' rc', _persist_node H (RList [RStr (HP kt true); RStr v]) (ps r rc pd m)
                   = (Ok (tref (NLeaf kt v)), ps r rc' pd m') /\
                   sub_store m m' /\ within m' /\ stored m' (NLeaf kt v) /\
                   (forall h, dl rc' pd h = (dl rc pd h + hit h (NLeaf kt v))%Z).
  Proof.
    intros Hk Hw Hin. apply (persist_step_ps (NLeaf kt v)); [exact Hk|exact Hw|apply inS_here_of; exact Hin|exact I].
  Qed.

  (* ---------------- wrapping the new node into an extension ---------------- *)
  Lemma wrap_step_ps common n r rc pd m :
    nibs_ok common = true -> wf n = true -> within m -> inS (wrap common n) -> stored_sub m n ->
    wpq m rc pd (wrap common n) (fun h => (cntP h (wrap common n) - cntP h n)%Z) r
      ((match common with
        | _ :: _ =>
            bind (_persist_node H (enc n)) (fun nk =>
            bind (lift_bytes (compute_extension_key common)) (fun ek => ret (RList [ek; nk])))
        | [] => ret (enc n)
        end) (ps r rc pd m)).
  Proof.
    intros Hc Hwf Hw Hin Hs. destruct common as [|c0 ct].
    - cbn [wrap]. apply wpq_same; [exact Hw|exact Hs|intro h; lia].
    - pose proof (inS_wrap_inv H SB _ _ Hin) as Hn.
      destruct (persist_step_ps n r rc pd m Hwf Hw (inS_here_of H SB _ Hn) Hs) as (m' & rc' & E & Hsub & Hw' & Hst & Hd).
      exists m', rc', pd. st_ok E. st_lb (compute_extension_key_HP _ Hc).
      cbn [wrap]. split; [reflexivity|]. split; [exact Hsub|]. split; [exact Hw'|]. split; [exact Hst|].
      intro h. rewrite (Hd h), cntP_ext, cntA_P. lia.
  Qed.
  (* ---------------- the branch built when a key/value node is split ---------------- *)
  Lemma cntP_split h c0 old key_rem v : c0 < 16 -> nibs_ok key_rem = true ->
    cntP h (split_branch c0 old key_rem v) =
    (cntA h old + match key_rem with k0 :: kt => if (k0 =? c0)%N then - cntA h old + hit h (NLeaf kt v) else hit h (NLeaf kt v) | [] => 0 end)%Z.
  Proof.
    intros Hc0 Hkr. unfold split_branch. destruct key_rem as [|k0 kt].
    - rewrite cntP_branch, sumA_set_child by (rewrite length_blanks16; lia).
      rewrite child_blanks16, sumA_blanks16, cntA_blank. lia.
    - apply nibs_ok_cons_inv in Hkr as [Hk0 _].
      rewrite cntP_branch, sumA_set_child by (rewrite length_set_child, length_blanks16; lia).
      rewrite sumA_set_child by (rewrite length_blanks16; lia).
      rewrite child_set_child by (rewrite length_blanks16; lia).
      rewrite !child_blanks16, sumA_blanks16, cntA_blank, cntA_leaf.
      destruct (k0 =? c0)%N; rewrite ?cntA_blank; lia.
  Qed.

  Lemma split_step_ps c0 old key_rem v common r rc pd m rc1 pd1 m1 D0 (basec : M (list item)) :
    basec (ps r rc pd m) = (Ok (list_set blank17 (N.to_nat c0) (tref old)), ps r rc1 pd1 m1) ->
    (forall h, dl rc1 pd1 h = (dl rc pd h + D0 h)%Z) ->
    sub_store m m1 -> within m1 -> stored m1 old -> wf old = true ->
    c0 < 16 -> nibs_ok key_rem = true -> nibs_ok common = true ->
    (forall k0 kt, key_rem = k0 :: kt -> c0 <> k0) ->
    inS (wrap common (split_branch c0 old key_rem v)) ->
    wpq m rc pd (wrap common (split_branch c0 old key_rem v))
      (fun h => (D0 h + cntP h (wrap common (split_branch c0 old key_rem v)) - cntA h old)%Z) r
      (bind (bind basec (fun base =>
               match key_rem with
               | k0 :: ktail =>
                   bind (lift_bytes (compute_leaf_key ktail)) (fun lk =>
                   bind (_persist_node H (RList [lk; RStr v])) (fun p =>
                   ret (inr (A:=item) (RList (list_set base (N.to_nat k0) p)))))
               | [] => ret (inr (RList (list_set base 16 (RStr v))))
               end))
            (fun new_node : item + item =>
               match new_node with
               | inl n => ret n
               | inr nn =>
                   match common with
                   | _ :: _ =>
                       bind (_persist_node H nn) (fun nk =>
                       bind (lift_bytes (compute_extension_key common)) (fun ek =>
                       ret (RList [ek; nk])))
                   | [] => ret nn
                   end
               end) (ps r rc pd m)).
  Proof.
    intros Eb Hd0 Hs1 Hw1 Hst1 Hwo Hc0 Hkr Hc Hne Hin.
    st_ok Eb. rewrite (blank17_bitems H), (bitems_set_child H _ _ _ _ length_blanks16 Hc0).
    pose proof (inS_wrap_inv H SB _ _ Hin) as Hin1.
    pose proof (wf_split_branch c0 old key_rem v Hwo Hkr) as Hwfs.
    pose proof (cntP_split) as Hsplit.
    assert (Hl1 : length (set_child blanks16 c0 old) = 16%nat) by (rewrite length_set_child; reflexivity).
    destruct key_rem as [|k0 kt].
    - st_ret. unfold split_branch in *. rewrite (bitems_set_value H _ _ _ Hl1), <- (enc_branch' H).
      eapply (wpq_frame m rc pd m1 rc1 pd1); [exact Hs1|exact Hd0| |].
      + apply wrap_step_ps; [exact Hc|exact Hwfs|exact Hw1|exact Hin|].
        cbn [Refine_write.stored_sub]. apply Forall_stored_set_child; [apply Forall_stored_blanks16|exact Hst1].
      + intro h. cbv beta. rewrite (Hsplit h c0 old [] v Hc0 eq_refl). unfold split_branch. lia.
    - pose proof Hkr as Hkr'. apply nibs_ok_cons_inv in Hkr' as [Hk0 Hkt].
      assert (Hinl : inS (NLeaf kt v)).
      { unfold split_branch in Hin1.
        apply (inS_set_child_inv H SB (set_child blanks16 c0 old) [] k0); [rewrite Hl1; lia|exact Hin1]. }
      st_lb (compute_leaf_key_HP _ Hkt).
      destruct (new_leaf_step_ps kt v r rc1 pd1 m1 Hkt Hw1 Hinl) as (m2 & rc2 & E2 & Hs2 & Hw2 & Hst2 & Hd2).
      st_ok E2. st_ret.
      rewrite (bitems_set_child H _ _ _ _ Hl1 Hk0), <- (enc_branch' H).
      change (NBranch (set_child (set_child blanks16 c0 old) k0 (NLeaf kt v)) []) with (split_branch c0 old (k0 :: kt) v).
      eapply (wpq_frame m rc pd m2 rc2 pd1 _ (fun h => (D0 h + hit h (NLeaf kt v))%Z)).
      + eapply sub_store_trans; eassumption.
      + intro h. rewrite (Hd2 h), (Hd0 h). lia.
      + apply wrap_step_ps; [exact Hc|exact Hwfs|exact Hw2|exact Hin|].
        unfold split_branch. cbn [Refine_write.stored_sub]. apply Forall_stored_set_child; [|exact Hst2].
        apply Forall_stored_set_child; [apply Forall_stored_blanks16|].
        apply (stored_mono H m1); assumption.
      + intro h. cbv beta. rewrite (Hsplit h c0 old (k0 :: kt) v Hc0 Hkr).
        destruct (N.eqb_spec k0 c0) as [He|_]; [exfalso; apply (Hne k0 kt eq_refl); symmetry; exact He|]. lia.
  Qed.

  (* ---------------- _set on a leaf ---------------- *)
  Lemma _set_leaf_ps p pv fuel k v r rc pd m :
    nibs_ok p = true -> nibs_ok k = true -> within m -> inS (tset (NLeaf p pv) k v) ->
    wpq m rc pd (tset (NLeaf p pv) k v)
        (fun h => (cntP h (tset (NLeaf p pv) k v) - cntA h (NLeaf p pv))%Z) r
        (_set H BNH (S fuel) (enc (NLeaf p pv)) k v (ps r rc pd m)).
  Proof.
    intros Hp Hk Hw Hin.
    destruct (leaf_classified p (RStr pv) Hp) as [Ht Hx].
    destruct (leaf_is_ext p (RStr pv) Hp) as [Hie Hil].
    destruct (prune_enc_ps (NLeaf p pv) r rc pd m Hp) as (pd0 & Epr & Hpd0).
    rewrite Tree_canon.tset_leaf in Hin |- *. cbn [_set]. rewrite enc_leaf in Epr |- *.
    st_lift Ht. st_ok Epr. st_lift Hx.
    pose proof (Tree_canon.tc_ccp_ok p k) as Hok.
    pose proof (Tree_canon.tc_ccp p k) as Hsp.
    destruct (consume_common_prefix p k) as [[common cur_rem] key_rem].
    destruct (Hok _ _ _ eq_refl Hp Hk) as (Hc & Hcr & Hkr). clear Hok.
    destruct (Hsp _ _ _ eq_refl) as (_ & _ & Hne). clear Hsp.
    st_lift Hie.
    assert (Hd0 : forall h, dl rc pd0 h = (dl rc pd h + - hit h (NLeaf p pv))%Z).
    { intro h. unfold dl. rewrite (Hpd0 h). lia. }
    destruct cur_rem as [|c0 ct].
    - destruct key_rem as [|k0 kt].
      + st_lift Hil. cbn [kv_first]. st_ret. rewrite <- (enc_leaf H).
        eapply (wpq_frame m rc pd m rc pd0); [apply sub_store_refl|exact Hd0| |].
        * apply (wpq_same m rc pd0 (NLeaf p v) r (fun _ => 0%Z)); [exact Hw|exact I|reflexivity].
        * intro h. cbv beta. rewrite cntP_leaf, cntA_leaf. lia.
      + apply nibs_ok_cons_inv in Hkr as [Hk0 Hkt].
        pose proof (inS_wrap_inv H SB _ _ Hin) as Hin1.
        assert (Hinl : inS (NLeaf kt v)).
        { apply (inS_set_child_inv H SB blanks16 pv k0); [rewrite length_blanks16; lia|exact Hin1]. }
        st_lb (compute_leaf_key_HP _ Hkt).
        destruct (new_leaf_step_ps kt v r rc pd0 m Hkt Hw Hinl) as (m1 & rc1 & E1 & Hs1 & Hw1 & Hst1 & Hd1).
        st_ok E1. cbn [kv_second]. st_ret.
        rewrite (blank16_bitems H). fold (bitems blanks16 pv).
        rewrite (bitems_set_child H _ _ _ _ length_blanks16 Hk0). rewrite <- (enc_branch' H).
        eapply (wpq_frame m rc pd m1 rc1 pd0 _ (fun h => (- hit h (NLeaf p pv) + hit h (NLeaf kt v))%Z)).
        * exact Hs1.
        * intro h. rewrite (Hd1 h), (Hd0 h). lia.
        * apply wrap_step_ps; [exact Hc| |exact Hw1|exact Hin|].
          -- rewrite wf_branch, length_set_child, length_blanks16. cbn [Nat.eqb andb].
             apply forallb_wf_set_child; [apply forallb_wf_blanks16|exact Hkt].
          -- cbn [Refine_write.stored_sub]. apply Forall_stored_set_child; [apply Forall_stored_blanks16|exact Hst1].
        * intro h. cbv beta. rewrite cntP_branch, sumA_set_child by (rewrite length_blanks16; lia).
          rewrite child_blanks16, sumA_blanks16, cntA_blank, !cntA_leaf. lia.
    - apply nibs_ok_cons_inv in Hcr as [Hc0 Hct].
      rewrite andb_false_r. cbn [kv_second].
      assert (Hne' : forall k0 kt, key_rem = k0 :: kt -> c0 <> k0).
      { intros k0 kt Hkk. apply (Hne c0 k0 ct kt eq_refl Hkk). }
      assert (Hino : inS (NLeaf ct pv)).
      { apply (inS_split_old H SB c0 _ key_rem v Hc0 Hkr Hne'). apply (inS_wrap_inv H SB common). exact Hin. }
      destruct (new_leaf_step_ps ct pv r rc pd0 m Hct Hw Hino) as (m1 & rc1 & E1 & Hs1 & Hw1 & Hst1 & Hd1).
      eapply (wpq_frame m rc pd m rc pd0 _ (fun h => (- hit h (NLeaf p pv))%Z));
        [apply sub_store_refl|exact Hd0| |].
      + apply (split_step_ps c0 (NLeaf ct pv) key_rem v common r rc pd0 m rc1 pd0 m1
                 (fun h => hit h (NLeaf ct pv))); try assumption.
        st_lb (compute_leaf_key_HP _ Hct). st_ok E1. reflexivity.
      + intro h. cbv beta. rewrite !cntA_leaf. lia.
  Qed.

  (* ---------------- _set ---------------- *)
  Definition set_spec_ps (t : node) : Prop :=
    forall fuel k v r rc pd m,
      wf t = true -> ext_ok t = true -> good m t -> within m -> nibs_ok k = true ->
      (length k < fuel)%nat -> inS (tset t k v) ->
      wpq m rc pd (tset t k v) (fun h => (cntP h (tset t k v) - cntA h t)%Z) r
          (_set H BNH fuel (enc t) k v (ps r rc pd m)).

  Lemma set_spec_ps_blank : set_spec_ps NBlank.
  Proof.
    intros fuel k v r rc pd m _ _ _ Hw Hk Hfuel _. destruct fuel as [|f]; [lia|].
    cbn [_set Tree.enc tset]. st_lift blank_classified.
    destruct (prune_enc_ps NBlank r rc pd m eq_refl) as (pd0 & Epr & Hpd0). cbn [Tree.enc] in Epr.
    st_ok Epr. st_lb (compute_leaf_key_HP _ Hk). rewrite <- (enc_leaf H).
    exists m, rc, pd0. split; [reflexivity|]. split; [apply sub_store_refl|]. split; [exact Hw|]. split; [exact I|].
    intro h. unfold dl. rewrite (Hpd0 h), cntP_leaf, cntA_blank, hit_blank. lia.
  Qed.

  Lemma _set_ext_ps p c : set_spec_ps c -> set_spec_ps (NExt p c).
  Proof.
    intros IH fuel k v r rc pd m Hwf Hex Hg Hw Hk Hfuel Hin.
    destruct fuel as [|f]; [lia|].
    destruct (prune_enc_ps (NExt p c) r rc pd m Hwf) as (pd0 & Epr & Hpd0).
    cbn [wf] in Hwf. apply andb_true_iff in Hwf as [Hp Hwc].
    cbn [ext_ok] in Hex. apply andb_true_iff in Hex as [Hpne Hexc].
    pose proof (good_ext H BNH _ _ _ Hg) as Hgc.
    destruct (extension_classified p (tref c) Hp) as [Ht Hx].
    destruct (ext_is_ext p (tref c) Hp) as [Hie Hil].
    rewrite Tree_canon.tset_ext in Hin |- *. cbn [_set]. rewrite enc_ext in Epr |- *.
    st_lift Ht. st_ok Epr. st_lift Hx.
    pose proof (Tree_canon.tc_ccp_ok p k) as Hok.
    pose proof (Tree_canon.tc_ccp p k) as Hsp.
    destruct (consume_common_prefix p k) as [[common cur_rem] key_rem].
    destruct (Hok _ _ _ eq_refl Hp Hk) as (Hc & Hcr & Hkr). clear Hok.
    destruct (Hsp _ _ _ eq_refl) as (Hp1 & Hk1 & Hne). clear Hsp.
    st_lift Hie. cbn [kv_second].
    assert (Hd0 : forall h, dl rc pd0 h = (dl rc pd h + - hit h (NExt p c))%Z).
    { intro h. unfold dl. rewrite (Hpd0 h). zlia. }
    destruct cur_rem as [|c0 ct].
    - rewrite app_nil_r in Hp1. subst common.
      assert (Hlen : (length key_rem < f)%nat).
      { rewrite Hk1, app_length in Hfuel. destruct p; [discriminate Hpne|]. cbn [length] in Hfuel. lia. }
      pose proof (inS_wrap_inv H SB _ _ Hin) as Hin1.
      destruct (IH f key_rem v r rc pd0 m Hwc Hexc Hgc Hw Hkr Hlen Hin1)
        as (m1 & rc1 & pd1 & E1 & Hs1 & Hw1 & Hst1 & Hd1).
      destruct key_rem as [|k0 kt]; [st_lift Hil|];
        (st_ok (get_node_good_ps c r rc pd0 m Hgc); st_ok E1; st_ret;
         eapply (wpq_frame m rc pd m1 rc1 pd1 _ (fun h => (dl rc1 pd1 h - dl rc pd h)%Z));
         [exact Hs1
         |intro h; lia
         |apply wrap_step_ps; [exact Hp|apply wf_tset; assumption|exact Hw1|exact Hin|exact Hst1]
         |intro h; cbv beta; rewrite (Hd1 h), (Hd0 h), cntA_ext; lia]).
    - apply nibs_ok_cons_inv in Hcr as [Hc0 Hct].
      assert (Hne' : forall k0 kt, key_rem = k0 :: kt -> c0 <> k0).
      { intros k0 kt Hkk. apply (Hne c0 k0 ct kt eq_refl Hkk). }
      destruct ct as [|c1 ct']; pose proof (inS_wrap_inv H SB _ _ Hin) as Hin1.
      + cbn [length Nat.eqb andb].
        eapply (wpq_frame m rc pd m rc pd0 _ (fun h => (- hit h (NExt p c))%Z));
          [apply sub_store_refl|exact Hd0| |].
        * apply (split_step_ps c0 c key_rem v common r rc pd0 m rc pd0 m (fun _ => 0%Z)); try assumption.
          -- reflexivity.
          -- intro h. zlia.
          -- apply sub_store_refl.
          -- apply (good_stored H BNH); exact Hgc.
        * intro h. cbv beta. rewrite cntA_ext. zlia.
      + cbn [length Nat.eqb andb].
        assert (Hino : inS (NExt (c1 :: ct') c)).
        { apply (inS_split_old H SB c0 _ key_rem v Hc0 Hkr Hne'). exact Hin1. }
        assert (Hwo : wf (NExt (c1 :: ct') c) = true) by (cbn [wf]; rewrite Hct, Hwc; reflexivity).
        destruct (persist_step_ps (NExt (c1 :: ct') c) r rc pd0 m Hwo Hw (inS_here_of H SB _ Hino))
          as (m1 & rc1 & E1 & Hs1 & Hw1 & Hst1 & Hd1).
        { cbn [Refine_write.stored_sub]. apply (good_stored H BNH); exact Hgc. }
        eapply (wpq_frame m rc pd m rc pd0 _ (fun h => (- hit h (NExt p c))%Z));
          [apply sub_store_refl|exact Hd0| |].
        * apply (split_step_ps c0 (NExt (c1 :: ct') c) key_rem v common r rc pd0 m rc1 pd0 m1
                   (fun h => hit h (NExt (c1 :: ct') c))); try assumption.
          st_lb (compute_extension_key_HP _ Hct). rewrite <- (enc_ext H). st_ok E1. reflexivity.
        * intro h. cbv beta. rewrite !cntA_ext. zlia.
  Qed.

  Lemma _set_branch_ps cs bv : Forall set_spec_ps cs -> set_spec_ps (NBranch cs bv).
  Proof.
    intros IH fuel k v r rc pd m Hwf Hex Hg Hw Hk Hfuel Hin.
    destruct fuel as [|f]; [lia|].
    destruct (prune_enc_ps (NBranch cs bv) r rc pd m Hwf) as (pd0 & Epr & Hpd0).
    pose proof Hwf as Hwf'. rewrite wf_branch in Hwf'. apply andb_true_iff in Hwf' as [Hl Hall].
    apply Nat.eqb_eq in Hl.
    cbn [_set]. st_lift (branch_enc_classified H cs bv Hl). st_ok Epr.
    assert (Hd0 : forall h, dl rc pd0 h = (dl rc pd h + - hit h (NBranch cs bv))%Z).
    { intro h. unfold dl. rewrite (Hpd0 h). lia. }
    destruct k as [|k0 kt].
    - rewrite tset_branch_nil. rewrite (branch_set_value_enc H _ _ _ Hl).
      exists m, rc, pd0. split; [reflexivity|]. split; [apply sub_store_refl|]. split; [exact Hw|].
      split; [cbn [Refine_write.stored_sub]; apply (good_branch_stored H BNH _ _ _ Hg)|].
      intro h. rewrite (Hd0 h), !cntP_branch, cntA_branch. lia.
    - apply nibs_ok_cons_inv in Hk as [Hk0 Hkt].
      assert (Hk0l : (N.to_nat k0 < length cs)%nat) by (rewrite Hl; lia).
      rewrite tset_branch in Hin |- * by exact Hk0l.
      rewrite (branch_child_enc H cs bv k0 Hl Hk0).
      pose proof (good_child H BNH m cs bv k0 Hg) as Hgc.
      st_ok (get_node_good_ps (child cs k0) r rc pd0 m Hgc).
      assert (IHc : set_spec_ps (child cs k0)).
      { destruct (child_in_or_blank cs k0) as [Hi| ->]; [|apply set_spec_ps_blank].
        rewrite Forall_forall in IH. apply IH. exact Hi. }
      assert (Hinc : inS (tset (child cs k0) kt v)).
      { apply (inS_set_child_inv H SB cs bv k0); [exact Hk0l|exact Hin]. }
      cbn [length] in Hfuel.
      destruct (IHc f kt v r rc pd0 m (Tree_map.wf_child _ _ Hall) (ext_ok_child cs bv k0 Hex) Hgc Hw Hkt
                    ltac:(lia) Hinc) as (m1 & rc1 & pd1 & E1 & Hs1 & Hw1 & Hst1 & Hd1).
      st_ok E1.
      destruct (persist_step_ps (tset (child cs k0) kt v) r rc1 pd1 m1) as (m2 & rc2 & E2 & Hs2 & Hw2 & Hst2 & Hd2);
        [apply wf_tset; [apply Tree_map.wf_child; exact Hall|exact Hkt]|exact Hw1|apply inS_here_of; exact Hinc|exact Hst1|].
      st_ok E2. rewrite (branch_set_enc H _ _ _ _ Hl Hk0).
      exists m2, rc2, pd1. split; [reflexivity|]. split; [eapply sub_store_trans; eassumption|].
      split; [exact Hw2|]. split.
      + cbn [Refine_write.stored_sub]. apply Forall_stored_set_child; [|exact Hst2].
        pose proof (good_branch_stored H BNH _ _ _ Hg) as Hcs.
        eapply Forall_impl; [|exact Hcs]. intros c Hc. apply (stored_mono H m); [|exact Hc].
        eapply sub_store_trans; eassumption.
      + intro h. rewrite (Hd2 h), (Hd1 h), (Hd0 h), !cntP_branch, cntA_branch, (sumA_set_child H h _ _ _ Hk0l), (cntA_P H h (tset _ _ _)). lia.
  Qed.

  Theorem _set_refines_ps t : set_spec_ps t.
  Proof.
    induction t as [| p pv | p c IH | cs bv IH] using node_ind'.
    - apply set_spec_ps_blank.
    - intros fuel k v r rc pd m Hwf _ _ Hw Hk Hfuel Hin. destruct fuel as [|f]; [lia|].
      apply _set_leaf_ps; assumption.
    - apply _set_ext_ps. exact IH.
    - apply _set_branch_ps. exact IH.
  Qed.

  (* ---------------- _normalize_branch_node ---------------- *)
  Lemma sumA_single cs idx c h : length cs = 16%nat -> idx < 16 ->
    (forall n, child cs n = if n =? idx then c else NBlank) -> sumA h cs = cntA h c.
  Proof.
    intros Hl Hi Hch.
    assert (Hcs : cs = set_child blanks16 idx c).
    { apply (nth_ext _ _ NBlank NBlank); [rewrite length_set_child, length_blanks16; exact Hl|].
      intros j Hj. rewrite Hl in Hj.
      pose proof (Hch (N.of_nat j)) as H1. unfold child in H1. rewrite Nat2N.id in H1. rewrite H1.
      pose proof (child_set_child blanks16 idx c (N.of_nat j)) as H2. unfold child in H2. rewrite Nat2N.id in H2.
      rewrite H2 by (rewrite length_blanks16; lia).
      destruct (N.of_nat j =? idx); [reflexivity|].
      pose proof (child_blanks16 (N.of_nat j)) as H3. unfold child in H3. rewrite Nat2N.id in H3.
      symmetry. exact H3. }
    rewrite Hcs, sumA_set_child by (rewrite length_blanks16; lia).
    rewrite child_blanks16, sumA_blanks16, cntA_blank. lia.
  Qed.

  Lemma normalize_ps cs v r rc pd m :
    length cs = 16%nat -> forallb wf cs = true -> (1 <= count_entries cs v)%nat ->
    Forall (good m) cs ->
    exists pd',
      _normalize_branch_node H BNH (enc (NBranch cs v)) (ps r rc pd m)
      = (Ok (enc (normalize cs v)), ps r rc pd' m) /\
      (forall h, pend pd' h = (pend pd h + sumA h cs - cntP h (normalize cs v))%Z).
  Proof.
    intros Hl Hall Hcnt Hg. unfold _normalize_branch_node, normalize.
    assert (Hbi : branch_items (enc (NBranch cs v)) = bitems cs v) by (rewrite (enc_branch' H); reflexivity).
    rewrite (branch_value_enc H cs v Hl). cbv zeta. rewrite Hbi, (filter_truthy_bitems H H_len).
    destruct (Nat.leb 2 (count_entries cs v)) eqn:E2.
    { exists pd. split; [reflexivity|]. intro h. rewrite cntP_branch. lia. }
    apply Nat.leb_gt in E2. cbn [truthy]. fold (nonempty v).
    destruct (nonempty v) eqn:Ev.
    - exists pd. split; [st_lb (compute_leaf_key_HP [] eq_refl); reflexivity|].
      intro h. rewrite cntP_leaf. rewrite count_entries_eq, Ev in E2.
      assert (Hz : nbcount cs = 0%nat) by lia.
      assert (Hs : sumA h cs = 0%Z).
      { pose proof (nbcount_zero cs Hz) as Hb. clear - Hb.
        induction cs as [|c cs IH]; [reflexivity|]. cbn [sumA].
        rewrite IH by (intro i; apply (Hb (S i))). pose proof (Hb 0%nat) as H0. cbn [nth] in H0. subst c. reflexivity. }
      rewrite Hs. lia.
    - rewrite count_entries_eq, Ev in Hcnt, E2.
      destruct (first_nonblank cs 0) as [[idx c]|] eqn:Ef;
        [|apply first_nonblank_none_count in Ef; lia].
      destruct (first_nonblank_some _ _ _ _ Ef) as (j & Hidx & Hj & Hnth & Hnb & Hoth).
      assert (Hi16 : idx < 16) by lia.
      assert (Hchild : forall n, child cs n = if n =? idx then c else NBlank).
      { intro n. unfold child. destruct (N.eqb_spec n idx) as [->|Hne].
        - subst idx. rewrite N.add_0_l, Nat2N.id. exact Hnth.
        - apply Hoth; [lia|]. intro He. apply Hne. subst idx. lia. }
      assert (Hcin : In c cs) by (rewrite <- Hnth; apply nth_In; exact Hj).
      rewrite (flat_map_single idx (fun i => truthy (branch_child (enc (NBranch cs v)) i)) Hi16).
      2:{ intros i Hi. rewrite (branch_child_enc H cs v i Hl Hi), (truthy_tref H H_len), Hchild.
          destruct (i =? idx); [rewrite Hnb|]; reflexivity. }
      rewrite (branch_child_enc H cs v idx Hl Hi16), Hchild, N.eqb_refl.
      assert (Hgc : good m c) by (rewrite Forall_forall in Hg; apply Hg; exact Hcin).
      assert (Hwc : wf c = true) by (rewrite forallb_forall in Hall; apply Hall; exact Hcin).
      pose proof (sumA_single cs idx c) as Hsum.
      destruct (prune_enc_ps c r rc pd m Hwc) as (pd1 & Epr & Hpd1).
      destruct c as [| q w | q d | ds w].
      + discriminate Hnb.
      + exists pd1. split.
        * st_ok (get_node_good_ps (NLeaf q w) r rc pd m Hgc).
          cbn [wf] in Hwc. destruct (leaf_classified q (RStr w) Hwc) as [Ht _].
          rewrite enc_leaf in Epr |- *. st_lift Ht. st_ok Epr.
          cbn [kv_first kv_second]. st_lift (decode_key_HP q true Hwc).
          assert (Hok : nibs_ok (idx :: q) = true) by (apply nibs_ok_cons_intro; assumption).
          st_lb (encode_cons_HP idx q true Hok). reflexivity.
        * intro h. rewrite (Hpd1 h), (Hsum h Hl Hi16 Hchild), cntP_leaf, cntA_leaf. lia.
      + exists pd1. split.
        * st_ok (get_node_good_ps (NExt q d) r rc pd m Hgc).
          cbn [wf] in Hwc. apply andb_true_iff in Hwc as [Hq Hwd].
          destruct (extension_classified q (tref d) Hq) as [Ht _].
          rewrite enc_ext in Epr |- *. st_lift Ht. st_ok Epr.
          cbn [kv_first kv_second]. st_lift (decode_key_HP q false Hq).
          assert (Hok : nibs_ok (idx :: q) = true) by (apply nibs_ok_cons_intro; assumption).
          st_lb (encode_cons_HP idx q false Hok). reflexivity.
        * intro h. rewrite (Hpd1 h), (Hsum h Hl Hi16 Hchild), cntP_ext, cntA_ext. lia.
      + exists pd. split.
        * st_ok (get_node_good_ps (NBranch ds w) r rc pd m Hgc).
          pose proof Hwc as Hwc'. rewrite wf_branch in Hwc'. apply andb_true_iff in Hwc' as [Hld _].
          apply Nat.eqb_eq in Hld. st_lift (branch_enc_classified H ds w Hld).
          assert (Hok : nibs_ok [idx] = true) by (apply nibs_ok_cons_intro; [exact Hi16|reflexivity]).
          st_lb (encode_nibbles_HP [idx] false Hok). reflexivity.
        * intro h. rewrite (Hsum h Hl Hi16 Hchild), cntP_ext. lia.
  Qed.

  (* ---------------- _delete ---------------- *)
  Notation dw_ok := (dw_ok H SB).

  Definition del_spec_ps (t : node) : Prop :=
    forall fuel k r rc pd m,
      canonical_top t = true -> good m t -> inS t -> within m -> nibs_ok k = true ->
      (length k < fuel)%nat -> dw_ok t k ->
      wpq m rc pd (tdelete t k) (fun h => (cntP h (tdelete t k) - cntA h t)%Z) r
          (_delete H BNH fuel (enc t) k (ps r rc pd m)).

  (* returning a node unchanged after its top was scheduled for pruning *)
  Lemma wpq_pruned m rc pd pd0 told t' r :
    (forall h, pend pd0 h = (pend pd h + hit h told)%Z) -> within m -> stored_sub m t' ->
    (forall h, (cntP h t' - cntA h told = - hit h told)%Z) ->
    wpq m rc pd t' (fun h => (cntP h t' - cntA h told)%Z) r (Ok (enc t'), ps r rc pd0 m).
  Proof.
    intros Hpd Hw Hs Hc. exists m, rc, pd0. split; [reflexivity|]. split; [apply sub_store_refl|].
    split; [exact Hw|]. split; [exact Hs|]. intro h. unfold dl. rewrite (Hpd h), (Hc h). lia.
  Qed.

  Lemma del_spec_ps_blank : del_spec_ps NBlank.
  Proof.
    intros fuel k r rc pd m _ _ _ Hw _ Hfuel _. destruct fuel as [|f]; [lia|].
    destruct (prune_enc_ps NBlank r rc pd m eq_refl) as (pd0 & Epr & Hpd0). cbn [Tree.enc] in Epr.
    cbn [_delete Tree.enc tdelete]. st_lift blank_classified. st_ok Epr.
    apply (wpq_pruned m rc pd pd0 NBlank NBlank); [exact Hpd0|exact Hw|exact I|intro h; reflexivity].
  Qed.

  Lemma del_spec_ps_leaf p pv : del_spec_ps (NLeaf p pv).
  Proof.
    intros fuel k r rc pd m Hc _ _ Hw Hk Hfuel _. destruct fuel as [|f]; [lia|].
    pose proof (Tree_traverse_proofs.canonical_wf _ Hc) as Hwf.
    destruct (prune_enc_ps (NLeaf p pv) r rc pd m Hwf) as (pd0 & Epr & Hpd0).
    cbn [wf] in Hwf.
    destruct (leaf_classified p (RStr pv) Hwf) as [Ht Hx].
    cbn [_delete]. rewrite enc_leaf in Epr |- *. st_lift Ht. st_ok Epr. st_lift Hx.
    rewrite Tree_canon.tdelete_leaf.
    destruct (nibbles_eqb k p) eqn:Ekp.
    - apply nibbles_eqb_eq in Ekp. subst k.
      assert (Hks : key_starts_with p p = true).
      { rewrite <- (app_nil_r p) at 1. apply key_starts_with_app. }
      rewrite Hks. cbn [negb].
      apply (wpq_pruned m rc pd pd0 (NLeaf p pv) NBlank); [exact Hpd0|exact Hw|exact I|].
      intro h. rewrite cntP_blank, cntA_leaf. lia.
    - rewrite <- (enc_leaf H).
      destruct (negb (key_starts_with k p));
        (apply (wpq_pruned m rc pd pd0 (NLeaf p pv) (NLeaf p pv)); [exact Hpd0|exact Hw|exact I|];
         intro h; rewrite cntP_leaf, cntA_leaf; lia).
  Qed.

  Lemma del_spec_ps_ext p c : del_spec_ps c -> del_spec_ps (NExt p c).
  Proof.
    intros IH fuel k r rc pd m Hc Hg Hin Hw Hk Hfuel Hdw. destruct fuel as [|f]; [lia|].
    destruct (canonical_top_ext_inv _ _ Hc) as (Hp & Hpne & Hcc).
    pose proof (Tree_traverse_proofs.canonical_wf _ Hc) as Hwf.
    pose proof (Tree_traverse_proofs.canonical_wf _ Hcc) as Hwc.
    pose proof (good_ext H BNH _ _ _ Hg) as Hgc.
    destruct (prune_enc_ps (NExt p c) r rc pd m Hwf) as (pd0 & Epr & Hpd0).
    destruct (extension_classified p (tref c) Hp) as [Ht Hx].
    cbn [_delete]. rewrite enc_ext in Epr |- *. st_lift Ht. st_ok Epr. st_lift Hx.
    rewrite Tree_map.tdelete_ext.
    assert (Hst : stored_sub m (NExt p c)) by (cbn [Refine_write.stored_sub]; apply (good_stored H BNH); exact Hgc).
    assert (Hd0 : forall h, dl rc pd0 h = (dl rc pd h + - hit h (NExt p c))%Z).
    { intro h. unfold dl. rewrite (Hpd0 h). lia. }
    destruct (key_starts_with k p) eqn:Eks; cbn [negb].
    2:{ rewrite <- (enc_ext H). apply (wpq_pruned m rc pd pd0 (NExt p c) (NExt p c)); [exact Hpd0|exact Hw|exact Hst|].
        intro h. unfold Refine_write_prune.cntP. zlia. }
    cbv zeta. cbn [kv_second].
    unfold Refine_write.dw_ok in Hdw. rewrite (dwrites_ext _ _ _ Eks) in Hdw.
    pose proof (tm_ksw_split _ _ Eks) as Hksplit.
    assert (Hk' : nibs_ok (skipn (length p) k) = true) by (apply tm_nibs_ok_skipn; exact Hk).
    assert (Hlen : (length (skipn (length p) k) < f)%nat).
    { rewrite Hksplit, app_length in Hfuel. destruct p; [contradiction|]. cbn [length] in *. lia. }
    assert (Hdwc : dw_ok c (skipn (length p) k)).
    { intros x Hx'. apply Hdw. right. exact Hx'. }
    pose proof (Hdw _ (or_introl eq_refl)) as Hinj'.
    pose proof (IH f (skipn (length p) k) r rc pd0 m Hcc Hgc (inS_ext_inv H SB _ _ Hin) Hw Hk' Hlen Hdwc)
      as (m1 & rc1 & pd1 & E1 & Hs1 & Hw1 & Hst1 & Hd1).
    set (c' := tdelete c (skipn (length p) k)) in *.
    st_ok (get_node_good_ps c r rc pd0 m Hgc). st_ok E1.
    destruct Hinj' as (Hwc' & Hinc' & Hdc').
    destruct (persist_step_ps c' r rc1 pd1 m1 Hwc' Hw1 (inS_here_of H SB _ Hinc') Hst1)
      as (m2 & rc2 & E2 & Hs2 & Hw2 & Hst2 & Hd2).
    st_ok E2.
    assert (Hs12 : sub_store m m2) by (eapply sub_store_trans; eassumption).
    assert (Hd02 : forall h, dl rc2 pd1 h = (dl rc pd h - hit h (NExt p c) + cntA h c' - cntA h c)%Z).
    { intro h. rewrite (Hd2 h), (Hd1 h), (Hd0 h), (cntA_P H h c'). zlia. }
    destruct (node_eqb c' c) eqn:Ecc.
    - apply node_eqb_eq in Ecc. rewrite Ecc in *. rewrite item_eqb_refl. rewrite <- (enc_ext H).
      exists m2, rc2, pd1. split; [reflexivity|]. split; [exact Hs12|]. split; [exact Hw2|].
      split; [apply (stored_sub_mono H m); assumption|].
      intro h. rewrite (Hd02 h). unfold Refine_write_prune.cntP. zlia.
    - assert (Hne : tref c' <> tref c).
      { intro Heq. apply (tref_inj H H_len SB cfS) in Heq.
        - rewrite Heq, node_eqb_refl in Ecc. discriminate Ecc.
        - repeat split; assumption.
        - split; [exact Hwc|]. split; [apply (inS_ext_inv H SB _ _ Hin)|apply (good_decodable H BNH _ _ Hgc)]. }
      rewrite (item_eqb_neq _ _ Hne). rewrite is_blank_enc.
      destruct c' as [| q w | q d | ds w]; cbn [is_nblank merge_ext].
      + exists m2, rc2, pd1. split; [reflexivity|]. split; [exact Hs12|]. split; [exact Hw2|]. split; [exact I|].
        intro h. rewrite (Hd02 h), cntP_blank, cntA_blank, cntA_ext. zlia.
      + destruct (prune_enc_ps (NLeaf q w) r rc2 pd1 m2 Hwc') as (pd2 & Epr2 & Hpd2).
        cbn [wf] in Hwc'. destruct (leaf_classified q (RStr w) Hwc') as [Ht' _].
        rewrite enc_leaf in Epr2 |- *. st_lift Ht'. st_ok Epr2.
        cbn [kv_first kv_second]. st_lift (decode_key_HP q true Hwc').
        rewrite with_flag_app.
        assert (Hok : nibs_ok (p ++ q) = true) by (rewrite nibs_ok_app, Hp, Hwc'; reflexivity).
        st_lb (encode_nibbles_HP (p ++ q) true Hok). rewrite <- (enc_leaf H).
        exists m2, rc2, pd2. split; [reflexivity|]. split; [exact Hs12|]. split; [exact Hw2|]. split; [exact I|].
        intro h. pose proof (Hd02 h) as Hx2. unfold dl in *. rewrite (Hpd2 h), cntP_leaf, cntA_ext.
        rewrite cntA_leaf in Hx2. zlia.
      + destruct (prune_enc_ps (NExt q d) r rc2 pd1 m2 Hwc') as (pd2 & Epr2 & Hpd2).
        cbn [wf] in Hwc'. apply andb_true_iff in Hwc' as [Hq Hwd].
        destruct (extension_classified q (tref d) Hq) as [Ht' _].
        rewrite enc_ext in Epr2 |- *. st_lift Ht'. st_ok Epr2.
        cbn [kv_first kv_second]. st_lift (decode_key_HP q false Hq).
        rewrite with_flag_app.
        assert (Hok : nibs_ok (p ++ q) = true) by (rewrite nibs_ok_app, Hp, Hq; reflexivity).
        st_lb (encode_nibbles_HP (p ++ q) false Hok). rewrite <- (enc_ext H).
        exists m2, rc2, pd2. split; [reflexivity|]. split; [exact Hs12|]. split; [exact Hw2|].
        split; [cbn [Refine_write.stored_sub]; apply (stored_ext_inv H _ _ _ Hst2)|].
        intro h. pose proof (Hd02 h) as Hx2. unfold dl in *. rewrite (Hpd2 h), cntP_ext, cntA_ext.
        rewrite cntA_ext in Hx2. zlia.
      + pose proof Hwc' as Hwc''. rewrite wf_branch in Hwc''. apply andb_true_iff in Hwc'' as [Hld _].
        apply Nat.eqb_eq in Hld. st_lift (branch_enc_classified H ds w Hld).
        st_lb (encode_nibbles_HP p false Hp). rewrite <- (enc_ext H).
        exists m2, rc2, pd1. split; [reflexivity|]. split; [exact Hs12|]. split; [exact Hw2|]. split; [exact Hst2|].
        intro h. rewrite (Hd02 h), cntP_ext, cntA_ext. zlia.
  Qed.

  Lemma del_spec_ps_branch cs bv : Forall del_spec_ps cs -> del_spec_ps (NBranch cs bv).
  Proof.
    intros IH fuel k r rc pd m Hc Hg Hin Hw Hk Hfuel Hdw. destruct fuel as [|f]; [lia|].
    destruct (canonical_top_branch_inv _ _ Hc) as (Hl & Hcnt & Hcc).
    pose proof (Tree_traverse_proofs.canonical_wf _ Hc) as Hwf.
    pose proof Hwf as Hwf'. rewrite wf_branch in Hwf'. apply andb_true_iff in Hwf' as [_ Hall].
    pose proof (good_branch_Forall H BNH _ _ _ Hg) as Hgcs.
    pose proof (good_branch_stored H BNH _ _ _ Hg) as Hscs.
    destruct (prune_enc_ps (NBranch cs bv) r rc pd m Hwf) as (pd0 & Epr & Hpd0).
    cbn [_delete]. st_lift (branch_enc_classified H cs bv Hl). st_ok Epr.
    assert (Hd0 : forall h, dl rc pd0 h = (dl rc pd h + - hit h (NBranch cs bv))%Z).
    { intro h. unfold dl. rewrite (Hpd0 h). lia. }
    destruct k as [|k0 kt].
    - rewrite tdelete_branch_nil. change BLANK with (RStr []).
      rewrite (branch_set_value_enc H _ _ _ Hl).
      destruct (normalize_ps cs [] r rc pd0 m Hl Hall) as (pd1 & En & Hpd1); [|exact Hgcs|].
      { pose proof (count_entries_drop_value cs bv). lia. }
      rewrite En. exists m, rc, pd1. split; [reflexivity|]. split; [apply sub_store_refl|]. split; [exact Hw|].
      split; [apply stored_sub_normalize; exact Hscs|].
      intro h. pose proof (Hd0 h) as Hx. unfold dl in *. rewrite (Hpd1 h), cntA_branch. lia.
    - apply nibs_ok_cons_inv in Hk as [Hk0 Hkt].
      assert (Hk0l : (N.to_nat k0 < length cs)%nat) by (rewrite Hl; lia).
      rewrite (tdelete_branch _ _ _ _ Hk0l). cbv zeta.
      unfold Refine_write.dw_ok in Hdw. rewrite (dwrites_branch _ _ _ _ Hk0l) in Hdw.
      rewrite (branch_child_enc H cs bv k0 Hl Hk0).
      pose proof (good_child H BNH m cs bv k0 Hg) as Hgc.
      assert (IHc : del_spec_ps (child cs k0)).
      { destruct (child_in_or_blank cs k0) as [Hi| ->]; [|apply del_spec_ps_blank].
        rewrite Forall_forall in IH. apply IH. exact Hi. }
      assert (Hccc : canonical_top (child cs k0) = true) by (apply Tree_unique.canonical_top_nth; exact Hcc).
      assert (Hdwc : dw_ok (child cs k0) kt).
      { intros x Hx'. apply Hdw. right. exact Hx'. }
      pose proof (Hdw _ (or_introl eq_refl)) as Hinj'.
      cbn [length] in Hfuel.
      pose proof (IHc f kt r rc pd0 m Hccc Hgc (inS_child H SB _ _ k0 Hin) Hw Hkt ltac:(lia) Hdwc)
        as (m1 & rc1 & pd1 & E1 & Hs1 & Hw1 & Hst1 & Hd1).
      pose proof (sumA_set_child H) as Hsum.
      set (c := child cs k0) in *. set (c' := tdelete c kt) in *.
      st_ok (get_node_good_ps c r rc pd0 m Hgc). st_ok E1.
      destruct Hinj' as (Hwc' & Hinc' & Hdc').
      destruct (persist_step_ps c' r rc1 pd1 m1 Hwc' Hw1 (inS_here_of H SB _ Hinc') Hst1)
        as (m2 & rc2 & E2 & Hs2 & Hw2 & Hst2 & Hd2).
      st_ok E2.
      assert (Hs12 : sub_store m m2) by (eapply sub_store_trans; eassumption).
      assert (Hd02 : forall h, dl rc2 pd1 h = (dl rc pd h - hit h (NBranch cs bv) + cntA h c' - cntA h c)%Z).
      { intro h. rewrite (Hd2 h), (Hd1 h), (Hd0 h), (cntA_P H h c'). zlia. }
      assert (Hscs2 : Forall (stored m2) cs).
      { eapply Forall_impl; [|exact Hscs]. intros x Hx'. apply (stored_mono H m); assumption. }
      destruct (node_eqb c' c) eqn:Ecc.
      + apply node_eqb_eq in Ecc. rewrite Ecc in *. rewrite item_eqb_refl.
        exists m2, rc2, pd1. split; [reflexivity|]. split; [exact Hs12|]. split; [exact Hw2|].
        split; [exact Hscs2|].
        intro h. rewrite (Hd02 h). unfold Refine_write_prune.cntP. zlia.
      + assert (Hne : tref c' <> tref c).
        { intro Heq. apply (tref_inj H H_len SB cfS) in Heq.
          - rewrite Heq, node_eqb_refl in Ecc. discriminate Ecc.
          - repeat split; assumption.
          - split; [apply (Tree_traverse_proofs.canonical_wf _ Hccc)|].
            split; [apply (inS_child H SB _ _ k0 Hin)|apply (good_decodable H BNH _ _ Hgc)]. }
        rewrite (item_eqb_neq _ _ Hne). rewrite (branch_set_enc H _ _ _ _ Hl Hk0). rewrite (is_blank_tref H H_len).
        destruct (is_nblank c') eqn:Eb.
        * apply is_nblank_true in Eb. rewrite Eb in *.
          destruct (normalize_ps (set_child cs k0 NBlank) bv r rc2 pd1 m2) as (pd2 & En & Hpd2).
          -- rewrite length_set_child. exact Hl.
          -- apply forallb_wf_set_child; [exact Hall|reflexivity].
          -- pose proof (count_entries_blank_child cs bv k0 Hk0l). lia.
          -- apply Forall_good_set_blank. eapply Forall_impl; [|exact Hgcs].
             intros x Hx'. apply (good_mono H BNH m); assumption.
          -- rewrite En. exists m2, rc2, pd2. split; [reflexivity|]. split; [exact Hs12|]. split; [exact Hw2|].
             split; [apply stored_sub_normalize; apply Forall_stored_set_child; [exact Hscs2|apply stored_blank]|].
             intro h. pose proof (Hd02 h) as Hx. unfold dl in *.
             rewrite (Hpd2 h), (Hsum h _ _ _ Hk0l), cntA_branch. fold c. rewrite cntA_blank in *. zlia.
        * exists m2, rc2, pd1. split; [reflexivity|]. split; [exact Hs12|]. split; [exact Hw2|].
          split; [cbn [Refine_write.stored_sub]; apply Forall_stored_set_child; [exact Hscs2|exact Hst2]|].
          intro h. rewrite (Hd02 h), cntP_branch, (Hsum h _ _ _ Hk0l), cntA_branch. fold c. zlia.
  Qed.

  Theorem _delete_refines_ps t : del_spec_ps t.
  Proof.
    induction t as [| p pv | p c IH | cs bv IH] using node_ind'.
    - apply del_spec_ps_blank.
    - apply del_spec_ps_leaf.
    - apply del_spec_ps_ext. exact IH.
    - apply del_spec_ps_branch. exact IH.
  Qed.

  (* ================================================================ *)
  (* the root *)
  Definition rootbit (t : node) (h : bytes) : Z :=
    if is_nblank t then 0%Z else if bytes_eqb h (troot H t) then 1%Z else 0%Z.

  Lemma occR_eq t h : occR H t h = (cntP h t + rootbit t h)%Z.
  Proof. reflexivity. Qed.

  Lemma hit_rootbit t h : Nat.ltb (length (ebody t)) 32 = false -> hit h t = rootbit t h.
  Proof.
    intro Hl. rewrite (hit_long h t Hl). unfold rootbit.
    destruct t; [discriminate Hl|reflexivity..].
  Qed.

  Lemma _set_raw_node_ps t r rc pd m : wf t = true ->
    exists rc', _set_raw_node H BNH (enc t) (ps r rc pd m) = (Ok (troot H t), ps r rc' pd (root_store H m t)) /\
                (forall h, zget rc' h = (zget rc h + rootbit t h)%Z).
  Proof.
    intro Hwf. unfold root_store, rootbit. destruct (is_nblank t) eqn:Eb.
    - destruct t; try discriminate Eb. exists rc. split.
      + unfold troot. cbn [Tree.enc]. unfold BLANK. rewrite <- BNH_def. reflexivity.
      + intro h. lia.
    - assert (Hb : is_blank (enc t) = false) by (rewrite is_blank_enc; exact Eb).
      exists (aset rc (troot H t) (zget rc (troot H t) + 1)%Z). split.
      + unfold _set_raw_node, node_to_db_mapping. rewrite (validate_enc H H_len t Hwf), Hb.
        unfold troot, Refine_read.ebody.
        destruct (Nat.ltb (length (rlp_encode (enc t))) 32).
        * st_lift (eq_refl (Ok (enc t, @None bytes))). rewrite Hb. reflexivity.
        * st_lift (eq_refl (Ok (RStr (H (rlp_encode (enc t))), Some (rlp_encode (enc t))))).
          pose proof (H_len (rlp_encode (enc t))) as Hlen. cbn [is_blank item_bytes].
          destruct (H (rlp_encode (enc t))) as [|h0 h']; [discriminate Hlen|]. reflexivity.
      + intro h. rewrite zget_aset. destruct (bytes_eqb h (troot H t)) eqn:E; [|lia].
        apply bytes_eqb_eq in E. subst h. reflexivity.
  Qed.

  Lemma get_root_ps m r t rc pd : represents H m r t -> decodable H t -> no_blank_collision H BNH t ->
    get_node BNH (RStr r) (ps r rc pd m) = (Ok (enc t), ps r rc pd m).
  Proof.
    intros Hrep Hd Hn. rewrite get_node_ps.
    rewrite (mt_handler_ok _ _ _ _ (root_raw_ok H BNH H_len BNH_def m r t Hrep Hd Hn)). reflexivity.
  Qed.

  (* _set_root_node on a pruning trie whose old root is the tree t (still readable) *)
  Lemma _set_root_node_ps t t' rc pd m :
    represents H m (troot H t) t -> decodable H t -> no_blank_collision H BNH t ->
    wf t = true -> wf t' = true ->
    exists rc' pd',
      _set_root_node H BNH (enc t') (ps (troot H t) rc pd m)
      = (Ok tt, ps (troot H t') rc' pd' (root_store H m t')) /\
      (forall h, dl rc' pd' h = (dl rc pd h + rootbit t' h - (rootbit t h - hit h t))%Z).
  Proof.
    intros Hrep Hd Hn Hwf Hwf'.
    unfold _set_root_node. st_lift (validate_enc H H_len t' Hwf').
    rewrite bind_getst. cbn [t_prune t_root ps].
    destruct (bytes_eqb (troot H t) BNH) eqn:Er; cbn [negb].
    - (* the old tree is blank *)
      apply bytes_eqb_eq in Er.
      assert (Hb : t = NBlank).
      { destruct (node_eqb t NBlank) eqn:E; [apply node_eqb_eq in E; exact E|].
        exfalso. apply (proj1 Hn); [intro Hx; subst t; discriminate E|exact Er]. }
      subst t. st_ret. destruct (_set_raw_node_ps t' (troot H NBlank) rc pd m Hwf') as (rc' & Eraw & Hrc').
      st_ok Eraw. rewrite bind_getst. exists rc', pd. split; [reflexivity|].
      intro h. unfold dl. rewrite (Hrc' h). cbn. lia.
    - assert (Hnb : t <> NBlank).
      { intros ->. unfold troot in Er. cbn [Tree.enc] in Er. unfold BLANK in Er.
        rewrite <- BNH_def, bytes_eqb_refl in Er. discriminate Er. }
      assert (Hpres : amem m (troot H t) = true).
      { destruct Hrep as (_ & [Hx|Hx] & _); [contradiction|]. unfold amem. rewrite Hx. reflexivity. }
      assert (Eget : catch (bind (get_node BNH (RStr (troot H t))) (fun n => ret (Some n)))
                       (fun e => match key_error_hash e with Some _ => Some (ret None) | None => None end)
                       (ps (troot H t) rc pd m) = (Ok (Some (enc t)), ps (troot H t) rc pd m)).
      { unfold catch. rewrite (bind_ok _ _ _ _ _ (get_root_ps m _ t rc pd Hrep Hd Hn)). reflexivity. }
      st_ok Eget.
      assert (Hb : is_blank (enc t) = false).
      { rewrite is_blank_enc. destruct t; [contradiction|reflexivity..]. }
      unfold node_to_db_mapping at 1. rewrite (validate_enc H H_len t Hwf), Hb.
      destruct (Nat.ltb (length (rlp_encode (enc t))) 32) eqn:El.
      + (* short old root: one prune request for the root key *)
        st_lift (eq_refl (Ok (enc t, @None bytes))).
        assert (Ec : db_contains (troot H t) (ps (troot H t) rc pd m) = (Ok true, ps (troot H t) rc pd m)).
        { unfold db_contains. cbn [t_db ps]. unfold store_mem, store_of. cbn [cells]. rewrite Hpres. reflexivity. }
        st_ok Ec.
        destruct (pending_inc_spec (troot H t) (ps (troot H t) rc pd m) pd eq_refl) as (pd' & Ei & Hpd' & _).
        change (with_pending (ps (troot H t) rc pd m) (Some pd')) with (ps (troot H t) rc pd' m) in Ei.
        st_ok Ei. destruct (_set_raw_node_ps t' (troot H t) rc pd' m Hwf') as (rc' & Eraw & Hrc'). st_ok Eraw. rewrite bind_getst. exists rc', pd'. split; [reflexivity|].
        intro h. unfold dl. rewrite (Hrc' h), (Hpd' h), (hit_short h t El). unfold rootbit.
        destruct t; [contradiction|cbn [is_nblank]; destruct (bytes_eqb h _); lia..].
      + st_lift (eq_refl (Ok (RStr (H (rlp_encode (enc t))), Some (rlp_encode (enc t))))).
        assert (Ec : db_contains (troot H t) (ps (troot H t) rc pd m) = (Ok true, ps (troot H t) rc pd m)).
        { unfold db_contains. cbn [t_db ps]. unfold store_mem, store_of. cbn [cells]. rewrite Hpres. reflexivity. }
        st_ok Ec. st_ret. destruct (_set_raw_node_ps t' (troot H t) rc pd m Hwf') as (rc' & Eraw & Hrc'). st_ok Eraw. rewrite bind_getst. exists rc', pd. split; [reflexivity|].
        intro h. unfold dl. rewrite (Hrc' h), (hit_rootbit t h El). lia.
  Qed.

  (* ================================================================ *)
  (* the body of an operation: inner computation + _set_root_node *)
  Lemma body_ps (inner : M item) key m rc t t' :
    represents H m (troot H t) t -> decodable H t -> no_blank_collision H BNH t ->
    wf t = true -> wf t' = true -> inS_top t' ->
    wpq m rc [] t' (fun h => (cntP h t' - cntA h t)%Z) (troot H t) (inner (ps (troot H t) rc [] m)) ->
    exists m1 rc1 p1,
      bind (raise_missing key inner) (fun new_node => _set_root_node H BNH new_node) (ps (troot H t) rc [] m)
      = (Ok tt, ps (troot H t') rc1 p1 m1) /\
      sub_store m m1 /\ within m1 /\ represents H m1 (troot H t') t' /\
      (forall h, dl rc1 p1 h = (zget rc h + occR H t' h - occR H t h)%Z).
  Proof.
    intros Hrep Hd Hn Hwf Hwf' Htop (m1 & rc1 & pd1 & E1 & Hs1 & Hw1 & Hst1 & Hd1).
    destruct (root_store_spec H SB cfS m1 t' Hw1 Htop Hst1) as (Hs2 & Hw2 & Hrep2).
    pose proof (represents_mono H m m1 _ t Hs1 Hrep) as Hrep1.
    destruct (_set_root_node_ps t t' rc1 pd1 m1 Hrep1 Hd Hn Hwf Hwf') as (rc2 & pd2 & E2 & Hd2).
    exists (root_store H m1 t'), rc2, pd2.
    assert (Erm : raise_missing key inner (ps (troot H t) rc [] m) = (Ok (enc t'), ps (troot H t) rc1 pd1 m1)).
    { unfold raise_missing, catch. rewrite E1. reflexivity. }
    split; [rewrite (bind_ok _ _ _ _ _ Erm); exact E2|].
    split; [eapply sub_store_trans; eassumption|]. split; [exact Hw2|]. split; [exact Hrep2|].
    intro h. rewrite (Hd2 h), (Hd1 h), !occR_eq. unfold dl, pend. cbn [zget aget].
    rewrite (cntA_P H h t). lia.
  Qed.

  (* ---------------- every hashed sub-tree is counted ---------------- *)
  Lemma sumA_ge h cs c : In c cs -> (cntA h c <= sumA h cs)%Z.
  Proof.
    induction cs as [|x cs IH]; intro Hin; [destruct Hin|]. cbn [Refine_write_prune.sumA].
    destruct Hin as [->|Hin].
    - assert (0 <= sumA h cs)%Z; [|lia].
      clear. induction cs as [|y cs IH]; cbn [Refine_write_prune.sumA]; [lia|]. pose proof (cntA_nonneg H h y). lia.
    - specialize (IH Hin). pose proof (cntA_nonneg H h x). lia.
  Qed.

  Lemma counted t :
    all_sub (fun s => Nat.ltb (length (ebody s)) 32 = false -> (0 < cntA (H (ebody s)) t)%Z) t.
  Proof.
    induction t as [| p v | p c IH | cs v IH] using node_ind'.
    - split; [|exact I]. intro Hl. discriminate Hl.
    - split; [|exact I]. intro Hl. rewrite cntA_leaf, (hit_long _ _ Hl), bytes_eqb_refl. lia.
    - apply all_sub_ext. split.
      + intro Hl. rewrite cntA_ext, (hit_long _ _ Hl), bytes_eqb_refl. pose proof (cntA_nonneg H (H (ebody (NExt p c))) c). lia.
      + eapply all_sub_impl; [|exact IH]. intros s Hs Hl. specialize (Hs Hl). rewrite cntA_ext.
        pose proof (hit_range H (H (ebody s)) (NExt p c)). lia.
    - apply all_sub_branch. split.
      + intro Hl. rewrite cntA_branch, (hit_long _ _ Hl), bytes_eqb_refl.
        assert (0 <= sumA (H (ebody (NBranch cs v))) cs)%Z; [|lia].
        generalize (H (ebody (NBranch cs v))) as h. intro h. clear.
        induction cs as [|y cs IH]; cbn [Refine_write_prune.sumA]; [lia|]. pose proof (cntA_nonneg H h y). lia.
      + rewrite Forall_forall in IH |- *. intros c Hc. eapply all_sub_impl; [|exact (IH c Hc)].
        intros s Hs Hl. specialize (Hs Hl). rewrite cntA_branch.
        pose proof (hit_range H (H (ebody s)) (NBranch cs v)). pose proof (sumA_ge (H (ebody s)) cs c Hc). lia.
  Qed.

  Lemma cntA_le_occR t h : (cntA h t <= occR H t h)%Z.
  Proof.
    rewrite occR_eq, (cntA_P H h t). unfold rootbit.
    destruct (Nat.ltb (length (ebody t)) 32) eqn:El.
    - rewrite (hit_short h t El). destruct (is_nblank t); [lia|]. destruct (bytes_eqb h (troot H t)); lia.
    - rewrite (hit_rootbit t h El). unfold rootbit. lia.
  Qed.

  Lemma represents_keep m1 m' t :
    represents H m1 (troot H t) t ->
    (forall h b, aget m1 h = Some b -> (0 < occR H t h)%Z -> aget m' h = Some b) ->
    represents H m' (troot H t) t.
  Proof.
    intros (_ & Hroot & Hst) Hk. split; [reflexivity|]. split.
    - destruct (is_nblank t) eqn:Eb; [left; apply is_nblank_true; exact Eb|].
      destruct Hroot as [Hb|Hg]; [subst t; discriminate Eb|]. right. apply (Hk _ _ Hg).
      rewrite occR_eq. unfold rootbit. pose proof (cntP_nonneg H (troot H t) t).
      rewrite Eb, bytes_eqb_refl. lia.
    - unfold Refine_read.stored in *.
      pose proof (all_sub_and _ _ _ Hst (counted t)) as Ha.
      eapply all_sub_impl; [|exact Ha]. intros s [Hs Hc] Hl. apply (Hk _ _ (Hs Hl)).
      pose proof (cntA_le_occR t (H (ebody s))). specialize (Hc Hl). lia.
  Qed.

  (* ================================================================ *)
  (* the invariant of a pruning trie between operations: the database is EXACTLY the set of nodes
     of the tree t, reference counts are occurrence counts *)
  Definition pstate (m : amap bytes) (rc : amap Z) (t : node) : trie :=
    mkTrie (DPlain (store_of m)) (troot H t) true rc None.

  Definition pinv (m : amap bytes) (rc : amap Z) (t : node) : Prop :=
    represents H m (troot H t) t /\ within m /\ cpos rc /\
    (forall h, zget rc h = occR H t h) /\
    (forall h, amem m h = true <-> (0 < occR H t h)%Z).

  Theorem op_ps (body : M unit) m rc t t' m1 rc1 p1 :
    pinv m rc t -> D_safety.mrel bk body ->
    body (ps (troot H t) rc [] m) = (Ok tt, ps (troot H t') rc1 p1 m1) ->
    within m1 -> represents H m1 (troot H t') t' ->
    (forall h, dl rc1 p1 h = (zget rc h + occR H t' h - occR H t h)%Z) ->
    exists m' rc', _prune_on_success body (pstate m rc t) = (Ok tt, pstate m' rc' t') /\ pinv m' rc' t'.
  Proof.
    intros (Hrep & Hw & Hcp & Hrc & Hsup) Hbk Eb Hw1 Hrep1 Hd.
    assert (Hocc : forall h, (zget rc1 h - pend p1 h = occR H t' h)%Z).
    { intro h. pose proof (Hd h) as Hx. unfold dl in Hx. rewrite (Hrc h) in Hx. lia. }
    (* bookkeeping facts from the bk relation *)
    pose proof (Hbk (ps (troot H t) rc [] m)) as Hk. rewrite Eb in Hk. cbn [snd] in Hk.
    destruct (Hk (store_of m) []) as (s' & p' & Hin' & Hcp1 & Hmono & _ & Hnew & Hsame).
    { unfold inop. cbn [t_prune t_db t_pending ps budget store_of akeys map].
      repeat split; try reflexivity; [constructor|apply ppos_nil]. }
    destruct Hin' as (_ & Hdb' & _ & Hpe' & Hnd & Hpp). cbn [t_db t_pending ps] in Hdb', Hpe'.
    injection Hdb' as <-. injection Hpe' as <-. cbn [t_refc ps cells store_of] in *.
    specialize (Hcp1 Hcp).
    assert (Hpres : forall k n, In (k, n) p1 -> (zget rc1 k - n <= 0)%Z -> amem m1 k = true).
    { intros k n Hin Hle. pose proof (In_aget_nodup p1 k n Hnd Hin) as Hg.
      assert (Hpk : pend p1 k = n) by (unfold pend, zget; rewrite Hg; reflexivity).
      pose proof (Hpp k n Hg) as Hn. pose proof (Hocc k) as Ho. pose proof (occR_nonneg H t' k) as Hnn.
      pose proof (Hmono k) as Hm.
      destruct (Z.eq_dec (zget rc k) (zget rc1 k)) as [E|E].
      - unfold amem. rewrite (Hsame k E). fold (amem m k). apply Hsup. rewrite <- Hrc. lia.
      - assert (Hne : aget m1 k <> None) by (apply Hnew; lia).
        unfold amem. destruct (aget m1 k); [reflexivity|contradiction]. }
    destruct (prune_on_success_ok body (pstate m rc t) tt (ps (troot H t') rc1 p1 m1) (store_of m1) p1)
      as (tf & sf & Erun & Hdbf & Hbf & Hrf & Hprf & Hpef & Hcf & Hsf & Hcpf);
      try reflexivity; try assumption.
    destruct tf as [dbf rf prf rcf pef]. destruct sf as [mf bf].
    cbn [t_db t_root t_prune t_pending t_refc cells budget ps store_of] in *. subst dbf bf rf prf pef.
    exists mf, rcf. split; [exact Erun|].
    assert (Hrcf : forall h, zget rcf h = occR H t' h).
    { intro h. rewrite (Hcf h), (Hocc h). pose proof (occR_nonneg H t' h). lia. }
    assert (Hkeep : forall h b, aget m1 h = Some b -> (0 < occR H t' h)%Z -> aget mf h = Some b).
    { intros h b Hg Hpos. rewrite (Hsf h). rewrite (Hocc h).
      destruct (occR H t' h <=? 0)%Z eqn:El; [lia|]. rewrite andb_false_r. exact Hg. }
    split; [apply (represents_keep m1); assumption|]. split; [|split; [exact Hcpf|split; [exact Hrcf|]]].
    - intros h b Hg. rewrite (Hsf h) in Hg.
      destruct ((pend p1 h >? 0)%Z && (zget rc1 h - pend p1 h <=? 0)%Z); [discriminate Hg|]. apply (Hw1 h b Hg).
    - intro h. unfold amem. rewrite (Hsf h). rewrite (Hocc h).
      pose proof (Hocc h) as Ho. pose proof (Hmono h) as Hm. pose proof (occR_nonneg H t' h) as Hnn.
      assert (Hppos : (0 <= pend p1 h)%Z).
      { unfold pend, zget. destruct (aget p1 h) as [n|] eqn:E; [pose proof (Hpp h n E); lia|lia]. }
      assert (Hin1 : (0 < zget rc1 h)%Z -> aget m1 h <> None).
      { intro Hpos. destruct (Z.eq_dec (zget rc h) (zget rc1 h)) as [E|E].
        - rewrite (Hsame h E). assert (Ha : amem m h = true) by (apply Hsup; rewrite <- Hrc; lia).
          unfold amem in Ha. destruct (aget m h); [discriminate|discriminate Ha].
        - apply Hnew. lia. }
      assert (Hout1 : aget m1 h <> None -> (0 < zget rc1 h)%Z).
      { intro Hne. destruct (Z.eq_dec (zget rc h) (zget rc1 h)) as [E|E].
        - rewrite (Hsame h E) in Hne. assert (Ha : amem m h = true) by (unfold amem; destruct (aget m h); [reflexivity|contradiction]).
          apply Hsup in Ha. rewrite <- Hrc in Ha. lia.
        - pose proof (cpos_zget rc h Hcp). lia. }
      destruct (occR H t' h <=? 0)%Z eqn:El.
      + destruct (pend p1 h >? 0)%Z eqn:Ep; cbn [andb].
        * split; [discriminate|lia].
        * split; [|lia]. intro Ha. assert (Hne : aget m1 h <> None) by (destruct (aget m1 h); [discriminate|discriminate Ha]).
          apply Hout1 in Hne. lia.
      + rewrite andb_false_r. split; [intros _; lia|]. intros _.
        assert (Hne : aget m1 h <> None) by (apply Hin1; lia).
        destruct (aget m1 h); [reflexivity|contradiction].
  Qed.

  (* ================================================================ *)
  (* one API write on a pruning trie *)
  Theorem write_refines_ps m rc t w :
    pinv m rc t -> canonical_top t = true -> decodable H t -> no_blank_collision H BNH t -> inS t ->
    (forall x, In x (op_writes t (top_of w)) -> inj_ok x) ->
    inS_top (tapply t (top_of w)) ->
    exists m' rc',
      dwrite H BNH w (pstate m rc t) = (Ok tt, pstate m' rc' (tapply t (top_of w))) /\
      pinv m' rc' (tapply t (top_of w)).
  Proof.
    intros Hpinv Hc Hd Hn Hin Hdw Htop.
    pose proof Hpinv as (Hrep & Hw & _).
    pose proof (Tree_traverse_proofs.canonical_wf _ Hc) as Hwf.
    assert (Hgood : good m t) by (apply good_intro; [apply Hrep|exact Hd|apply Hn]).
    assert (Hdel : forall key, (forall x, In x (dwrites t (bytes_to_nibbles key)) -> inj_ok x) ->
              wpq m rc [] (tdelete t (bytes_to_nibbles key))
                (fun h => (cntP h (tdelete t (bytes_to_nibbles key)) - cntA h t)%Z) (troot H t)
                (bind getst (fun s => bind (get_node BNH (RStr (t_root s))) (fun root =>
                   _delete H BNH (write_fuel key) root (bytes_to_nibbles key))) (ps (troot H t) rc [] m))).
    { intros key Hdwk. rewrite bind_getst. cbn [t_root ps]. st_ok (get_root_ps m _ t rc [] Hrep Hd Hn).
      apply _delete_refines_ps; try assumption.
      - apply bytes_to_nibbles_ok.
      - unfold write_fuel. rewrite length_bytes_to_nibbles. lia. }
    destruct w as [k [[|v0 v']|]]; cbn [dwrite top_of tapply op_writes] in *.
    - (* set(k, b"") *)
      rewrite D_safety.set_unfold.
      destruct (body_ps (D_safety.set_inner H BNH k []) k m rc t (tdelete t (bytes_to_nibbles k)))
        as (m1 & rc1 & p1 & Eb & Hs1 & Hw1 & Hrep1 & Hd1); try assumption.
      + apply wf_tdelete; [exact Hwf|apply bytes_to_nibbles_ok].
      + apply (Hdel k Hdw).
      + apply (op_ps (D_safety.set_body H BNH k []) m rc t _ m1 rc1 p1); try assumption.
        apply bk_set_body.
    - (* set(k, v), v non-empty *)
      rewrite D_safety.set_unfold.
      destruct (body_ps (D_safety.set_inner H BNH k (v0 :: v')) k m rc t (tset t (bytes_to_nibbles k) (v0 :: v')))
        as (m1 & rc1 & p1 & Eb & Hs1 & Hw1 & Hrep1 & Hd1); try assumption.
      + apply wf_tset; [exact Hwf|apply bytes_to_nibbles_ok].
      + unfold D_safety.set_inner. rewrite bind_getst. cbn [t_root ps].
        st_ok (get_root_ps m _ t rc [] Hrep Hd Hn).
        apply _set_refines_ps; try assumption.
        * apply canonical_top_ext_ok; exact Hc.
        * apply bytes_to_nibbles_ok.
        * unfold write_fuel. rewrite length_bytes_to_nibbles. lia.
        * apply Htop.
      + apply (op_ps (D_safety.set_body H BNH k (v0 :: v')) m rc t _ m1 rc1 p1); try assumption.
        apply bk_set_body.
    - (* delete(k) *)
      rewrite D_safety.delete_unfold.
      destruct (body_ps (D_safety.delete_inner H BNH k) k m rc t (tdelete t (bytes_to_nibbles k)))
        as (m1 & rc1 & p1 & Eb & Hs1 & Hw1 & Hrep1 & Hd1); try assumption.
      + apply wf_tdelete; [exact Hwf|apply bytes_to_nibbles_ok].
      + apply (Hdel k Hdw).
      + apply (op_ps (D_safety.delete_body H BNH k) m rc t _ m1 rc1 p1); try assumption.
        apply bk_delete_body.
  Qed.

End PruneWrite.

(* ================================================================== *)
(* histories of API writes on a pruning trie *)
Section PruneHistory.
  Variable H : bytes -> bytes.
  Variable BNH : bytes.
  Hypothesis H_len : forall x, length (H x) = 32%nat.
  Hypothesis BNH_def : BNH = H (rlp_encode (RStr [])).

  Lemma pinv_empty SB : pinv H SB [] [] NBlank.
  Proof.
    split; [replace (troot H NBlank) with BNH by (rewrite BNH_def; reflexivity);
            apply (represents_empty H BNH BNH_def)|].
    split; [intros h b Hg; discriminate Hg|].
    split; [intros h z Hg; discriminate Hg|].
    split; [intro h; reflexivity|]. intro h. cbn. split; [discriminate|lia].
  Qed.

  Lemma run_refines_ps SB (cfS : cf H SB) (HSB : In (rlp_encode (RStr [])) SB) ws : forall t m rc,
    pinv H SB m rc t -> canonical_top t = true -> decodable H t ->
    no_blank_collision H BNH t -> inS H SB t ->
    incl (flat_map (tree_bodies H) (hist_trees t (map top_of ws))) SB ->
    Forall (decodable H) (hist_trees t (map top_of ws)) ->
    exists m' rc',
      wrun H BNH ws (pstate H m rc t)
      = (map (fun _ => Ok tt) ws, pstate H m' rc' (fold_left tapply (map top_of ws) t)) /\
      pinv H SB m' rc' (fold_left tapply (map top_of ws) t) /\
      decodable H (fold_left tapply (map top_of ws) t) /\
      no_blank_collision H BNH (fold_left tapply (map top_of ws) t).
  Proof.
    induction ws as [|w ws IH]; intros t m rc Hpinv Hc Hd Hn Hin Hincl Hdec.
    - exists m, rc. cbn [wrun map fold_left]. split; [reflexivity|]. split; [exact Hpinv|]. split; assumption.
    - cbn [map hist_trees] in Hincl, Hdec. rewrite flat_map_app in Hincl. rewrite Forall_app in Hdec.
      destruct Hdec as [Hdec1 Hdec2].
      apply incl_app_inv in Hincl as [Hincl1 Hincl2]. cbn [flat_map] in Hincl1.
      apply incl_app_inv in Hincl1 as [Hincl0 Hincl1].
      inversion Hdec1 as [|xa xl Hd1 Hdw Exa]; clear Hdec1.
      set (t1 := tapply t (top_of w)) in *.
      assert (Htop1 : inS_top H SB t1) by (apply inS_top_of_incl; exact Hincl0).
      assert (Hc1 : canonical_top t1 = true).
      { apply Tree_canon.canonical_tapply; [exact Hc|]. exact (op_ok_top_of w). }
      assert (Hn1 : no_blank_collision H BNH t1).
      { apply (no_blank_collision_of_cf H BNH BNH_def); [apply (all_sub_here _ _ Hd1)|].
        apply (cf_incl H SB); [|exact cfS]. intros b [<-|Hb]; [exact HSB|apply Hincl0; exact Hb]. }
      assert (Hinj : forall x, In x (op_writes t (top_of w)) -> inj_ok H SB x).
      { intros x Hx. split; [|split].
        - apply (op_writes_wf t w); [apply Tree_traverse_proofs.canonical_wf; exact Hc|exact Hx].
        - apply inS_top_of_incl. intros b Hb. apply Hincl1. apply in_flat_map. exists x. split; assumption.
        - rewrite Forall_forall in Hdw. apply Hdw. exact Hx. }
      destruct (write_refines_ps H BNH H_len BNH_def SB cfS m rc t w Hpinv Hc Hd Hn Hin Hinj Htop1)
        as (m1 & rc1 & E1 & Hpinv1).
      destruct (IH t1 m1 rc1 Hpinv1 Hc1 Hd1 Hn1 (proj2 Htop1) Hincl2 Hdec2)
        as (m2 & rc2 & E2 & Hpinv2 & Hd2 & Hn2).
      exists m2, rc2. cbn [wrun map fold_left]. fold t1. rewrite E1. cbv beta iota. fold t1. rewrite E2.
      split; [reflexivity|]. split; [exact Hpinv2|]. split; assumption.
  Qed.

  (* C01 / C06 at database level for PRUNING tries: after every history of writes from the empty
     pruning trie the state represents the tree-level result, reads agree with the map
     specification, reference counts are the occurrence counts of the tree and the database
     holds exactly the nodes of the tree (no garbage) *)
  Theorem C01_D_pruning ws :
    cf H (hist_bodies H ws) -> Forall (fun b => blen b < 2 ^ 64) (hist_bodies H ws) ->
    let ops := map top_of ws in
    exists m rc,
      wrun H BNH ws (empty_trie BNH true) = (map (fun _ => Ok tt) ws, pstate H m rc (trun ops)) /\
      represents H m (troot H (trun ops)) (trun ops) /\
      content_addressed H m /\
      (forall h, zget rc h = occR H (trun ops) h) /\
      (forall h, amem m h = true <-> (0 < occR H (trun ops) h)%Z) /\
      (forall k, fst (get BNH k (pstate H m rc (trun ops))) = Ok (spec_run ops (bytes_to_nibbles k))) /\
      (forall J, Tree_unique.good_bindings J ->
         (forall q, nibs_ok q = true -> lookup J q = spec_run ops q) ->
         t_root (pstate H m rc (trun ops)) = yp_root H J).
  Proof.
    intros Hcf Hsmall ops.
    assert (HSB : In (rlp_encode (RStr [])) (hist_bodies H ws)) by (left; reflexivity).
    pose proof (hist_decodable_of_small H ws Hsmall) as Hdec.
    destruct (run_refines_ps (hist_bodies H ws) Hcf HSB ws NBlank [] []) as (m & rc & E & Hpinv & Hd & Hn).
    - apply pinv_empty.
    - reflexivity.
    - split; [reflexivity|exact I].
    - split; [intro Hx; contradiction|]. split; [|exact I]. intro Hl. discriminate Hl.
    - apply inS_blank.
    - intros b Hb. right. exact Hb.
    - exact Hdec.
    - fold ops in E, Hpinv, Hd, Hn. fold (trun ops) in E, Hpinv, Hd, Hn.
      assert (E0 : pstate H [] [] NBlank = empty_trie BNH true).
      { unfold pstate, empty_trie. rewrite BNH_def. reflexivity. }
      rewrite E0 in E. destruct Hpinv as (Hrep & Hw & _ & Hrc & Hsup).
      exists m, rc. split; [exact E|]. split; [exact Hrep|].
      pose proof (ops_ok_top_of ws) as Hops. fold ops in Hops.
      assert (Hc : canonical_top (trun ops) = true) by (apply Tree_canon.C02_canonical; exact Hops).
      split; [intros h b Hg; apply (Hw h b Hg)|]. split; [exact Hrc|]. split; [exact Hsup|]. split.
      + intro k.
        rewrite (get_eq BNH m k (pstate H m rc (trun ops)) eq_refl).
        pose proof (C01_lookup_total_D H BNH H_len BNH_def m _ (trun ops) Hrep
                      (Tree_traverse_proofs.canonical_wf _ Hc) (canonical_top_ext_ok _ Hc) Hd Hn k) as Hg.
        rewrite (get_eq BNH m k (plain m (troot H (trun ops))) (on_plain m _)) in Hg.
        cbn [fst t_root plain pstate] in Hg |- *. rewrite Hg. f_equal.
        apply C01_map_T; [exact Hops|apply bytes_to_nibbles_ok].
      + intros J HJ Hl. cbn [t_root pstate]. apply Tree_unique.C02_yellow_paper; assumption.
  Qed.
End PruneHistory.

Check _set_refines_ps.
Check _delete_refines_ps.
Check write_refines_ps.
Check C01_D_pruning.
Print Assumptions _set_refines_ps.
Print Assumptions _delete_refines_ps.
Print Assumptions write_refines_ps.
Print Assumptions C01_D_pruning.

(* ================================================================== *)
(* the pruning theorem instantiated with Keccak-256 on the example history of Refine_write.v,
   and the same facts evaluated directly at every prefix of that history *)
Section PruneExamples.
  Example ex_ws_pruning :
    exists m rc,
      wrun K BN ex_ws (empty_trie BN true)
      = (map (fun _ => Ok tt) ex_ws, pstate K m rc (trun (map top_of ex_ws))) /\
      (forall h, zget rc h = occR K (trun (map top_of ex_ws)) h) /\
      (forall h, amem m h = true <-> (0 < occR K (trun (map top_of ex_ws)) h)%Z).
  Proof.
    destruct (C01_D_pruning K BN K_len BN_def ex_ws ex_ws_cf ex_ws_small) as (m & rc & E & _ & _ & Hrc & Hsup & _).
    exists m, rc. split; [exact E|]. split; [exact Hrc|exact Hsup].
  Qed.

  Fixpoint dedupe (l : list bytes) : list bytes :=
    match l with
    | [] => []
    | x :: l' => if existsb (bytes_eqb x) l' then dedupe l' else x :: dedupe l'
    end.

  (* at every prefix: all calls succeed, the root is the tree-level root, every node of the tree is
     in the database, the database has no other entry, and the stored counts are positive *)
  Example ex_ws_pruning_eval :
    forallb (fun n =>
      let ws := firstn n ex_ws in
      let t := trun (map top_of ws) in
      let '(rs, s) := wrun K BN ws (empty_trie BN true) in
      forallb (fun r => match r with Ok _ => true | Err _ => false end) rs &&
      bytes_eqb (t_root s) (troot K t) &&
      match t_db s with
      | DPlain st =>
          forallb (fun b => amem (cells st) (K b)) (tree_bodies K t) &&
          Nat.eqb (length (cells st)) (length (dedupe (map K (tree_bodies K t)))) &&
          Nat.eqb (length (t_refc s)) (length (cells st))
      | DScratch _ => false
      end) (seq 0 11) = true.
  Proof. vm_compute. reflexivity. Qed.
End PruneExamples.

Print Assumptions ex_ws_pruning.
