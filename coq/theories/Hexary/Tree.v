(* Hexary/Tree.v — the tree-level model ("T level") of HexaryTrie: the same case analysis
   as _set / _set_kv_node / _set_branch_node / _delete / _delete_kv_node /
   _delete_branch_node / _normalize_branch_node / _traverse_from / _get, with the pair
   "read the child a reference points to" / "turn a node into a reference" erased:
   children are sub-trees.  Structural recursion, no hashes, no fuel.
   Also: the encoding of a tree into raw nodes (tref / troot), its contents, the
   canonical-shape predicate and the Yellow-Paper construction yp_build.
   Definitions only. *)
From Coq Require Import List NArith ZArith Bool.
From Coq.Init Require Import Byte.
From PyTrie.Base Require Import Bytes Result Nibbles Rlp.
From PyTrie.Hexary Require Import Raw.
Import ListNotations.
Open Scope N_scope.

Inductive node :=
| NBlank
| NLeaf (p : nibbles) (v : bytes)
| NExt (p : nibbles) (c : node)
| NBranch (cs : list node) (v : bytes).

Fixpoint node_eqb (a b : node) {struct a} : bool :=
  match a, b with
  | NBlank, NBlank => true
  | NLeaf p v, NLeaf q w => nibbles_eqb p q && bytes_eqb v w
  | NExt p c, NExt q d => nibbles_eqb p q && node_eqb c d
  | NBranch cs v, NBranch ds w =>
      (fix go (cs ds : list node) : bool :=
         match cs, ds with
         | [], [] => true
         | c :: cs', d :: ds' => node_eqb c d && go cs' ds'
         | _, _ => false
         end) cs ds && bytes_eqb v w
  | _, _ => false
  end.

Definition is_nblank (t : node) : bool := match t with NBlank => true | _ => false end.
Definition nonempty (v : bytes) : bool := match v with [] => false | _ => true end.

Definition blanks16 : list node := repeat NBlank 16.
Definition child (cs : list node) (i : N) : node := nth (N.to_nat i) cs NBlank.
Definition set_child (cs : list node) (i : N) (c : node) : list node := list_set cs (N.to_nat i) c.

(* extension over a non-empty common prefix, or the node itself *)
Definition wrap (common : nibbles) (n : node) : node :=
  match common with [] => n | _ => NExt common n end.

(* ---------------- lookup: _traverse_from + _get ---------------- *)
Fixpoint tget (t : node) (k : nibbles) {struct t} : bytes :=
  match t with
  | NBlank => []
  | NLeaf p v => if nibbles_eqb k p then v else []
  | NExt p c => if key_starts_with k p then tget c (skipn (length p) k) else []
  | NBranch cs v =>
      match k with
      | [] => v
      | n :: k' =>
          (fix pick (cs : list node) (i : nat) {struct cs} : bytes :=
             match cs, i with
             | [], _ => []
             | c :: _, O => tget c k'
             | _ :: cs', S i' => pick cs' i'
             end) cs (N.to_nat n)
      end
  end.

Definition texists (t : node) (k : nibbles) : bool := nonempty (tget t k).

(* ---------------- _set ---------------- *)
(* the branch built when a key/value node is split: the old remainder goes to one slot,
   the new key either to another slot or into the branch value *)
Definition split_branch (old_slot : N) (old_sub : node) (key_rem : nibbles) (v : bytes) : node :=
  let base := set_child blanks16 old_slot old_sub in
  match key_rem with
  | k0 :: kt => NBranch (set_child base k0 (NLeaf kt v)) []
  | [] => NBranch base v
  end.

Fixpoint tset (t : node) (k : nibbles) (v : bytes) {struct t} : node :=
  match t with
  | NBlank => NLeaf k v
  | NLeaf p pv =>
      let '(common, cur_rem, key_rem) := consume_common_prefix p k in
      match cur_rem, key_rem with
      | [], [] => NLeaf p v
      | [], k0 :: kt =>
          wrap common (NBranch (set_child blanks16 k0 (NLeaf kt v)) pv)
      | c0 :: ct, _ => wrap common (split_branch c0 (NLeaf ct pv) key_rem v)
      end
  | NExt p c =>
      let '(common, cur_rem, key_rem) := consume_common_prefix p k in
      match cur_rem with
      | [] => wrap common (tset c key_rem v)
      | [c0] => wrap common (split_branch c0 c key_rem v)
      | c0 :: ct => wrap common (split_branch c0 (NExt ct c) key_rem v)
      end
  | NBranch cs bv =>
      match k with
      | [] => NBranch cs v
      | n :: k' =>
          NBranch ((fix upd (cs : list node) (i : nat) {struct cs} : list node :=
                      match cs, i with
                      | [], _ => []
                      | c :: cs', O => tset c k' v :: cs'
                      | c :: cs', S i' => c :: upd cs' i'
                      end) cs (N.to_nat n)) bv
      end
  end.

(* ---------------- _normalize_branch_node ---------------- *)
Definition count_entries (cs : list node) (v : bytes) : nat :=
  length (filter (fun c => negb (is_nblank c)) cs) + (if nonempty v then 1 else 0).

Fixpoint first_nonblank (cs : list node) (i : N) : option (N * node) :=
  match cs with
  | [] => None
  | c :: cs' => if is_nblank c then first_nonblank cs' (i + 1) else Some (i, c)
  end.

Definition normalize (cs : list node) (v : bytes) : node :=
  if Nat.leb 2 (count_entries cs v) then NBranch cs v
  else if nonempty v then NLeaf [] v
  else match first_nonblank cs 0 with
       | None => NBlank
       | Some (idx, NLeaf q w) => NLeaf (idx :: q) w
       | Some (idx, NExt q d) => NExt (idx :: q) d
       | Some (idx, c) => NExt [idx] c
       end.

(* ---------------- _delete ---------------- *)
Fixpoint tdelete (t : node) (k : nibbles) {struct t} : node :=
  match t with
  | NBlank => NBlank
  | NLeaf p pv => if nibbles_eqb k p then NBlank else t
  | NExt p c =>
      if negb (key_starts_with k p) then t
      else
        let c' := tdelete c (skipn (length p) k) in
        if node_eqb c' c then t
        else match c' with
             | NBlank => NBlank
             | NLeaf q w => NLeaf (p ++ q) w
             | NExt q d => NExt (p ++ q) d
             | NBranch _ _ => NExt p c'
             end
  | NBranch cs bv =>
      match k with
      | [] => normalize cs []
      | n :: k' =>
          (* (old child, new child, updated list) at index n *)
          let r := (fix upd (cs : list node) (i : nat) {struct cs} : option (node * node) * list node :=
                      match cs, i with
                      | [], _ => (None, [])
                      | c :: cs', O => let c' := tdelete c k' in (Some (c, c'), c' :: cs')
                      | c :: cs', S i' => let '(r, l) := upd cs' i' in (r, c :: l)
                      end) cs (N.to_nat n) in
          match r with
          | (None, _) => t
          | (Some (old, new), cs') =>
              if node_eqb new old then t
              else if is_nblank new then normalize cs' bv
              else NBranch cs' bv
          end
      end
  end.

(* ---------------- histories and the map specification ---------------- *)
Inductive top := TSet (k : nibbles) (v : bytes) | TDel (k : nibbles).

(* set(k, b"") is routed to delete *)
Definition tapply (t : node) (o : top) : node :=
  match o with
  | TSet k [] => tdelete t k
  | TSet k v => tset t k v
  | TDel k => tdelete t k
  end.

Definition trun (ops : list top) : node := fold_left tapply ops NBlank.

Definition spec_apply (m : nibbles -> bytes) (o : top) : nibbles -> bytes :=
  match o with
  | TSet k v => fun q => if nibbles_eqb q k then v else m q
  | TDel k => fun q => if nibbles_eqb q k then [] else m q
  end.

Definition spec_run (ops : list top) : nibbles -> bytes :=
  fold_left spec_apply ops (fun _ => []).

(* ---------------- well-formedness and canonical shape ---------------- *)
Fixpoint wf (t : node) {struct t} : bool :=
  match t with
  | NBlank => true
  | NLeaf p _ => nibs_ok p
  | NExt p c => nibs_ok p && wf c
  | NBranch cs _ =>
      Nat.eqb (length cs) 16 &&
      (fix all (cs : list node) : bool :=
         match cs with [] => true | c :: cs' => wf c && all cs' end) cs
  end.

Definition is_branch (t : node) : bool := match t with NBranch _ _ => true | _ => false end.

Definition nonempty_path (p : nibbles) : bool := match p with [] => false | _ => true end.

(* canonical below the root: no blank except as a branch slot *)
Fixpoint canonical (t : node) {struct t} : bool :=
  match t with
  | NBlank => false
  | NLeaf p v => nibs_ok p && nonempty v
  | NExt p c => nibs_ok p && nonempty_path p && is_branch c && canonical c
  | NBranch cs v =>
      Nat.eqb (length cs) 16 && Nat.leb 2 (count_entries cs v) &&
      (fix all (cs : list node) : bool :=
         match cs with
         | [] => true
         | c :: cs' => (is_nblank c || canonical c) && all cs'
         end) cs
  end.

Definition canonical_top (t : node) : bool := is_nblank t || canonical t.

(* ---------------- encoding into raw nodes ---------------- *)
Section Enc.
  Variable H : bytes -> bytes.

  Definition ref_of_item (e : item) : item :=
    if is_blank e then BLANK
    else let r := rlp_encode e in
         if Nat.ltb (length r) 32 then e else RStr (H r).

  Fixpoint enc (t : node) {struct t} : item :=
    match t with
    | NBlank => BLANK
    | NLeaf p v => RList [RStr (HP p true); RStr v]
    | NExt p c => RList [RStr (HP p false); ref_of_item (enc c)]
    | NBranch cs v =>
        RList ((fix go (cs : list node) : list item :=
                  match cs with
                  | [] => [RStr v]
                  | c :: cs' => ref_of_item (enc c) :: go cs'
                  end) cs)
    end.

  Definition tref (t : node) : item := ref_of_item (enc t).
  Definition troot (t : node) : bytes := H (rlp_encode (enc t)).
End Enc.

(* ---------------- contents and the Yellow-Paper construction ---------------- *)
Definition bindings := list (nibbles * bytes).

Fixpoint contents (t : node) {struct t} : bindings :=
  match t with
  | NBlank => []
  | NLeaf p v => if nonempty v then [(p, v)] else []
  | NExt p c => map (fun e : nibbles * bytes => (p ++ fst e, snd e)) (contents c)
  | NBranch cs v =>
      (if nonempty v then [([], v)] else []) ++
      (fix go (cs : list node) (i : N) : bindings :=
         match cs with
         | [] => []
         | c :: cs' => map (fun e : nibbles * bytes => (i :: fst e, snd e)) (contents c) ++ go cs' (i + 1)
         end) cs 0
  end.

Fixpoint lookup (J : bindings) (q : nibbles) : bytes :=
  match J with
  | [] => []
  | (k, v) :: J' => if nibbles_eqb q k then v else lookup J' q
  end.

(* longest common prefix of all keys of a non-empty binding list *)
Fixpoint lcp (a b : nibbles) : nibbles :=
  match a, b with
  | x :: a', y :: b' => if x =? y then x :: lcp a' b' else []
  | _, _ => []
  end.
Definition common_prefix_all (J : bindings) : nibbles :=
  match J with
  | [] => []
  | (k, _) :: J' => fold_left (fun acc (e : nibbles * bytes) => lcp acc (fst e)) J' k
  end.

Definition strip (n : nat) (J : bindings) : bindings :=
  map (fun e : nibbles * bytes => (skipn n (fst e), snd e)) J.
Definition below (J : bindings) (i : N) : bindings :=
  flat_map (fun e : nibbles * bytes =>
              match fst e with x :: k' => if x =? i then [(k', snd e)] else [] | [] => [] end) J.

(* Yellow Paper (D.2) c(J, i) written top-down over the keys with the first i nibbles
   already stripped: one key -> leaf; a non-empty common prefix -> extension; otherwise
   a 16-way partition on the next nibble plus the value of the exhausted key. *)
Fixpoint yp_build (fuel : nat) (J : bindings) : node :=
  match fuel with
  | O => NBlank
  | S f =>
      match J with
      | [] => NBlank
      | [(k, v)] => NLeaf k v
      | _ =>
          match common_prefix_all J with
          | [] => NBranch (map (fun i => yp_build f (below J i)) nibble_range) (lookup J [])
          | cp => NExt cp (yp_build f (strip (length cp) J))
          end
      end
  end.

Definition yp_fuel (J : bindings) : nat :=
  S (S (fold_left (fun m (e : nibbles * bytes) => Nat.max m (length (fst e))) J O)).

Definition yp_tree (J : bindings) : node := yp_build (yp_fuel J) J.
Definition yp_root (H : bytes -> bytes) (J : bindings) : bytes := troot H (yp_tree J).
