(* Hexary/D_retry.v — the retry loop around a read on an incomplete store (C07, last clause):
   "retrying after supplying only the reported node always converges to the correct result,
    asking for each node at most once."

   On MissingTrieNode / MissingTraversal naming h, the caller copies full[h] into its store
   and tries again.  Proved here for [get] and [traverse] over plain stores m ⊆ full:
   the loop stops after at most |path_refs| rounds with exactly the complete-store result;
   every requested hash was absent from the initial store, present in the complete one, is a
   hashed reference on the key's path in the complete store, and is requested once; the
   final store is the initial one plus exactly the requested entries.

   The termination argument: [path_refs full r tk] is the list of hashed references the
   traversal of the COMPLETE store resolves for the key.  A read on m ⊆ full follows the same
   path as long as nodes are present (tf_subP), so every reported hash is in that list; the
   number of list members absent from the current store strictly decreases each round.

   NOT proved (needs write-path reasoning, deliberately not attempted): the analogous
   statement for [set] / [delete], whose MissingTrieNode carries prefix = None
   (D.raise_missing).  The atomicity of a failed set/delete is in D_safety / Properties/C07. *)
From Coq Require Import List NArith ZArith Bool Lia.
From Coq.Init Require Import Byte.
From PyTrie.Base Require Import Bytes Bytes_proofs Result AMap AMap_proofs Nibbles Nibbles_proofs Rlp.
From PyTrie.Db Require Import ScratchDb.
From PyTrie.Hexary Require Import Raw D D_read.
Import ListNotations.
Open Scope N_scope.

(* ------------------------------------------------------------------ *)
(* list facts *)
Lemma filter_len_le {A} (p q : A -> bool) (l : list A) :
  (forall x, p x = true -> q x = true) ->
  (length (filter p l) <= length (filter q l))%nat.
Proof.
  intro Hpq. induction l as [|a l IH]; [apply Nat.le_refl|].
  cbn [filter]. destruct (p a) eqn:Ep.
  - rewrite (Hpq a Ep). cbn [length]. lia.
  - destruct (q a); cbn [length]; lia.
Qed.

Lemma filter_len_lt {A} (p q : A -> bool) (l : list A) (x : A) :
  (forall y, p y = true -> q y = true) -> In x l -> p x = false -> q x = true ->
  (length (filter p l) < length (filter q l))%nat.
Proof.
  intros Hpq Hin Hpx Hqx. induction l as [|a l IH]; [destruct Hin|].
  cbn [filter]. destruct Hin as [->|Hin].
  - rewrite Hpx, Hqx. cbn [length]. pose proof (filter_len_le p q l Hpq). lia.
  - specialize (IH Hin). destruct (p a) eqn:Ep.
    + rewrite (Hpq a Ep). cbn [length]. lia.
    + destruct (q a); cbn [length]; lia.
Qed.

Lemma filter_len_all {A} (p : A -> bool) (l : list A) : (length (filter p l) <= length l)%nat.
Proof.
  induction l as [|a l IH]; [apply Nat.le_refl|].
  cbn [filter]. destruct (p a); cbn [length]; lia.
Qed.

(* ------------------------------------------------------------------ *)
(* sub-stores and aset *)
Lemma sub_aset_full (m full : amap bytes) h b :
  sub_store m full -> aget full h = Some b -> sub_store (aset m h b) full.
Proof.
  intros Hsub Hb x v. rewrite aget_aset. destruct (bytes_eqb x h) eqn:E.
  - apply bytes_eqb_eq in E. subst x. intro Hx. injection Hx as <-. exact Hb.
  - apply Hsub.
Qed.

Lemma sub_aset_fresh (m : amap bytes) h b : aget m h = None -> sub_store m (aset m h b).
Proof.
  intros Hn x v Hx. rewrite aget_aset. destruct (bytes_eqb x h) eqn:E; [|exact Hx].
  apply bytes_eqb_eq in E. subst x. rewrite Hn in Hx. discriminate Hx.
Qed.

(* ================================================================== *)
(* A. the retry loop, abstractly *)
Section Loop.
  Context {A : Type}.
  Variable rd : amap bytes -> result A.        (* the read, as a function of the store *)
  Variable mh : result A -> option bytes.      (* "this result is a Missing* report naming h" *)
  Variable nf : bytes -> exn.                  (* what the loop raises when full lacks h too *)
  Variable full : amap bytes.
  Variable P : list bytes.                     (* the hashes the read of [full] depends on *)

  Fixpoint retry_loop (fuel : nat) (m : amap bytes) (asked : list bytes)
    : result A * amap bytes * list bytes :=
    match fuel with
    | O => (Err EOutOfFuel, m, asked)
    | S f =>
        match mh (rd m) with
        | Some h =>
            match aget full h with
            | Some b => retry_loop f (aset m h b) (asked ++ [h])
            | None => (Err (nf h), m, asked)
            end
        | None => (rd m, m, asked)
        end
    end.

  Definition absent (m : amap bytes) (h : bytes) : bool :=
    match aget m h with None => true | Some _ => false end.

  (* the measure: members of P not yet in the store *)
  Definition owed (m : amap bytes) : nat := length (filter (absent m) P).

  Lemma owed_le m : (owed m <= length P)%nat.
  Proof. apply filter_len_all. Qed.

  Lemma owed_aset m h b : In h P -> aget m h = None -> (owed (aset m h b) < owed m)%nat.
  Proof.
    intros Hin Hn. unfold owed. apply (filter_len_lt _ _ P h).
    - intros y. unfold absent. rewrite aget_aset. destruct (bytes_eqb y h); [discriminate|trivial].
    - exact Hin.
    - unfold absent. rewrite aget_aset, bytes_eqb_refl. reflexivity.
    - unfold absent. rewrite Hn. reflexivity.
  Qed.

  (* same result as on [full], or a report naming a member of P that is absent here *)
  Hypothesis HR : forall m, sub_store m full ->
    rd m = rd full \/
    exists h, mh (rd m) = Some h /\ aget m h = None /\ aget full h <> None /\ In h P.
  (* a report on [full] itself is truthful *)
  Hypothesis HT : forall h, mh (rd full) = Some h -> aget full h = None.

  Lemma retry_loop_spec : forall fuel m asked0,
    sub_store m full -> (owed m < fuel)%nat ->
    exists res m' new,
      retry_loop fuel m asked0 = (res, m', asked0 ++ new) /\
      ((mh (rd full) = None /\ res = rd full) \/
       (exists h, mh (rd full) = Some h /\ aget full h = None /\ res = Err (nf h))) /\
      rd m' = rd full /\
      NoDup new /\
      (forall h, In h new -> aget m h = None /\ aget full h <> None /\ In h P) /\
      sub_store m m' /\ sub_store m' full /\
      (forall x, aget m' x = if existsb (bytes_eqb x) new then aget full x else aget m x) /\
      (length new <= owed m)%nat.
  Proof.
    induction fuel as [|f IH]; intros m asked0 Hsub Hlt; [lia|].
    cbn [retry_loop].
    destruct (HR m Hsub) as [Heq|(h & Hmh & Hn & Hf & HP)].
    - (* this attempt already reads like the complete store *)
      assert (Htail : NoDup (@nil bytes) /\
                (forall h, In h (@nil bytes) -> aget m h = None /\ aget full h <> None /\ In h P) /\
                sub_store m m /\ sub_store m full /\
                (forall x, aget m x = if existsb (bytes_eqb x) [] then aget full x else aget m x) /\
                (length (@nil bytes) <= owed m)%nat).
      { split; [constructor|]. split; [intros h []|]. split; [intros x v Hx; exact Hx|].
        split; [exact Hsub|]. split; [intro x; reflexivity|]. cbn [length]. lia. }
      rewrite Heq. destruct (mh (rd full)) as [h|] eqn:Emh.
      + rewrite (HT h eq_refl).
        exists (Err (nf h)), m, []. rewrite app_nil_r. split; [reflexivity|].
        split; [right; exists h; split; [reflexivity|]; split; [exact (HT h eq_refl)|reflexivity]|].
        split; [exact Heq|exact Htail].
      + exists (rd full), m, []. rewrite app_nil_r. split; [reflexivity|].
        split; [left; split; reflexivity|]. split; [exact Heq|exact Htail].
    - (* a genuine miss: supply the node and go round again *)
      rewrite Hmh. destruct (aget full h) as [b|] eqn:Eb; [|exfalso; apply Hf; reflexivity].
      assert (Hsub' : sub_store (aset m h b) full) by (apply sub_aset_full; assumption).
      assert (Hdec : (owed (aset m h b) < owed m)%nat) by (apply owed_aset; assumption).
      assert (Hlt' : (owed (aset m h b) < f)%nat) by lia.
      destruct (IH (aset m h b) (asked0 ++ [h]) Hsub' Hlt')
        as (res & m' & new & Hrun & Hres & Hrd & Hnd & Hall & Hs1 & Hs2 & Hfr & Hlen).
      exists res, m', (h :: new).
      split; [rewrite Hrun, <- app_assoc; reflexivity|].
      split; [exact Hres|]. split; [exact Hrd|].
      split.
      { constructor; [|exact Hnd]. intro Hin. destruct (Hall h Hin) as (Hx & _).
        rewrite aget_aset, bytes_eqb_refl in Hx. discriminate Hx. }
      split.
      { intros x [Hx|Hin].
        - subst x. split; [exact Hn|]. split; [rewrite Eb; discriminate|exact HP].
        - destruct (Hall x Hin) as (Hx & Hfx & HPx). split; [|split; assumption].
          rewrite aget_aset in Hx. destruct (bytes_eqb x h); [discriminate Hx|exact Hx]. }
      split.
      { intros x v Hx. apply Hs1. apply sub_aset_fresh; assumption. }
      split; [exact Hs2|].
      split.
      { intro x. rewrite Hfr. cbn [existsb]. rewrite aget_aset.
        destruct (bytes_eqb x h) eqn:E; cbn [orb]; [|reflexivity].
        apply bytes_eqb_eq in E. subst x. rewrite Eb.
        destruct (existsb (bytes_eqb h) new); reflexivity. }
      cbn [length]. lia.
  Qed.
End Loop.

(* ================================================================== *)
(* B. the hashed references on a key's path, and the refined monotonicity lemmas *)
Section DRetry.
  Variable BNH : bytes.

  (* the store key a reference resolves through, if it is a hashed reference
     (same case analysis as D_read.gn) *)
  Definition hrefs (ref : item) : list bytes :=
    match ref with
    | RStr [] => []
    | RStr h => if bytes_eqb h BNH then [] else if Nat.ltb (length h) 32 then [] else [h]
    | RList _ => []
    end.

  Lemma hrefs_hashed h : hashed BNH h -> hrefs (RStr h) = [h].
  Proof.
    intros (Hne & Hb & Hl). unfold hrefs. destruct h as [|b0 b']; [contradiction|].
    rewrite Hb, Hl. reflexivity.
  Qed.

  Lemma hrefs_in ref x : In x (hrefs ref) -> ref = RStr x /\ hashed BNH x.
  Proof.
    unfold hrefs. destruct ref as [b|l]; [|intros []].
    destruct b as [|b0 b']; [intros []|].
    destruct (bytes_eqb (b0 :: b') BNH) eqn:Eb; [intros []|].
    destruct (Nat.ltb (length (b0 :: b')) 32) eqn:El; [intros []|].
    intros [Hx|[]]. subst x. split; [reflexivity|].
    split; [discriminate|]. split; assumption.
  Qed.

  Lemma hrefs_len ref : (length (hrefs ref) <= 1)%nat.
  Proof.
    unfold hrefs. destruct ref as [b|l]; [|cbn [length]; lia].
    destruct b as [|b0 b']; [cbn [length]; lia|].
    destruct (bytes_eqb (b0 :: b') BNH); [cbn [length]; lia|].
    destruct (Nat.ltb (length (b0 :: b')) 32); cbn [length]; lia.
  Qed.

  (* the hashed references resolved by [tf m fuel node _ rem] after [node] *)
  Fixpoint tf_refs (m : amap bytes) (fuel : nat) (node : item) (rem : nibbles) : list bytes :=
    match fuel with
    | O => []
    | S f =>
        match tstep node rem with
        | Ok (TNext c rem') =>
            hrefs c ++ match gn BNH m c with
                       | Ok n' => tf_refs m f n' rem'
                       | Err _ => []
                       end
        | _ => []
        end
    end.

  (* the hashed references on the path of key [tk] from root [root] in store [m],
     root reference included, in the order the traversal resolves them *)
  Definition path_refs (m : amap bytes) (root : bytes) (tk : nibbles) : list bytes :=
    hrefs (RStr root) ++
    match gn BNH m (RStr root) with
    | Ok rn => tf_refs m (traverse_fuel tk) rn tk
    | Err _ => []
    end.

  (* ---- every member is a hashed reference at the end of a prefix of the key (ref_at) ---- *)
  Lemma tf_refs_ref_at m fuel : forall ref0 done ref node rem h,
    ref_at BNH m ref0 done ref -> gn BNH m ref = Ok node ->
    In h (tf_refs m fuel node rem) ->
    hashed BNH h /\
    exists pre post, rem = pre ++ post /\ ref_at BNH m ref0 (done ++ pre) (RStr h).
  Proof.
    induction fuel as [|f IH]; intros ref0 done ref node rem h Hra Hg Hin;
      cbn [tf_refs] in Hin; [destruct Hin|].
    destruct (tstep node rem) as [[r|c rem']|e] eqn:Es; try (destruct Hin).
    destruct (tstep_next _ _ _ _ Es) as (pre1 & Hrem & Hc).
    pose proof (ref_at_snoc BNH m ref0 done ref node pre1 c Hra Hg Hc) as Hra'.
    apply in_app_or in Hin. destruct Hin as [Hin|Hin].
    - apply hrefs_in in Hin. destruct Hin as [Hc' Hh]. subst c.
      split; [exact Hh|]. exists pre1, rem'. split; assumption.
    - destruct (gn BNH m c) as [n'|e] eqn:Egc; [|destruct Hin].
      destruct (IH ref0 (done ++ pre1) c n' rem' h Hra' Egc Hin) as (Hh & pre & post & Hr & Hra2).
      split; [exact Hh|]. exists (pre1 ++ pre), post. split.
      + rewrite Hrem, Hr, app_assoc. reflexivity.
      + rewrite app_assoc. exact Hra2.
  Qed.

  Theorem path_refs_ref_at m root tk h : In h (path_refs m root tk) ->
    hashed BNH h /\
    exists pre post, tk = pre ++ post /\ ref_at BNH m (RStr root) pre (RStr h).
  Proof.
    unfold path_refs. intro Hin. apply in_app_or in Hin. destruct Hin as [Hin|Hin].
    - apply hrefs_in in Hin. destruct Hin as [Hr Hh]. injection Hr as Hr. subst h.
      split; [exact Hh|]. exists [], tk. split; [reflexivity|apply ra_here].
    - destruct (gn BNH m (RStr root)) as [rn|e] eqn:Eg; [|destruct Hin].
      exact (tf_refs_ref_at m _ (RStr root) [] (RStr root) rn tk h (ra_here BNH m _) Eg Hin).
  Qed.

  (* ---- how many there can be ---- *)
  Lemma tf_refs_len m fuel : forall node rem, (length (tf_refs m fuel node rem) <= fuel)%nat.
  Proof.
    induction fuel as [|f IH]; intros node rem; cbn [tf_refs]; [cbn [length]; lia|].
    destruct (tstep node rem) as [[r|c rem']|e]; cbn [length]; try lia.
    rewrite app_length. pose proof (hrefs_len c) as Hc.
    destruct (gn BNH m c) as [n'|e]; [specialize (IH n' rem')|cbn [length]]; lia.
  Qed.

  Theorem path_refs_len m root tk : (length (path_refs m root tk) <= length tk + 3)%nat.
  Proof.
    unfold path_refs. rewrite app_length. pose proof (hrefs_len (RStr root)) as Hc.
    destruct (gn BNH m (RStr root)) as [rn|e]; [|cbn [length]; lia].
    pose proof (tf_refs_len m (traverse_fuel tk) rn tk) as Hl. unfold traverse_fuel in *. lia.
  Qed.

  (* "every step of the traversal consumes at least one nibble": true of every trie the
     implementation builds; false only if an extension node with an EMPTY key lies on the path *)
  Fixpoint tf_prog (m : amap bytes) (fuel : nat) (node : item) (rem : nibbles) : bool :=
    match fuel with
    | O => true
    | S f =>
        match tstep node rem with
        | Ok (TNext c rem') =>
            Nat.ltb (length rem') (length rem) &&
            match gn BNH m c with
            | Ok n' => tf_prog m f n' rem'
            | Err _ => true
            end
        | _ => true
        end
    end.

  Definition path_prog (m : amap bytes) (root : bytes) (tk : nibbles) : bool :=
    match gn BNH m (RStr root) with
    | Ok rn => tf_prog m (traverse_fuel tk) rn tk
    | Err _ => true
    end.

  Lemma tstep_progress node rem c rem' : tstep node rem = Ok (TNext c rem') ->
    (length rem' < length rem)%nat \/
    (get_node_type node = Ok TExt /\ extract_key node = Ok [] /\ rem' = rem).
  Proof.
    intro Es. destruct (tstep_next _ _ _ _ Es) as (pre & Hrem & Hc). subst rem.
    destruct Hc as [[_ (i & Hp & _)]|(Ht & Hk & _)].
    - subst pre. left. cbn [app length]. lia.
    - destruct pre as [|x pre'].
      + right. split; [exact Ht|]. split; [exact Hk|reflexivity].
      + left. cbn [app length]. rewrite app_length. lia.
  Qed.

  Lemma tf_refs_len_prog m fuel : forall node rem,
    tf_prog m fuel node rem = true -> (length (tf_refs m fuel node rem) <= length rem)%nat.
  Proof.
    induction fuel as [|f IH]; intros node rem; cbn [tf_refs tf_prog]; [cbn [length]; lia|].
    destruct (tstep node rem) as [[r|c rem']|e]; cbn [length]; try lia.
    intro Hp. apply andb_true_iff in Hp. destruct Hp as [Hlt Hp]. apply Nat.ltb_lt in Hlt.
    rewrite app_length. pose proof (hrefs_len c) as Hc.
    destruct (gn BNH m c) as [n'|e]; [specialize (IH n' rem' Hp)|cbn [length]]; lia.
  Qed.

  Theorem path_refs_len_prog m root tk : path_prog m root tk = true ->
    (length (path_refs m root tk) <= length tk + 1)%nat.
  Proof.
    unfold path_prog, path_refs. rewrite app_length. pose proof (hrefs_len (RStr root)) as Hc.
    destruct (gn BNH m (RStr root)) as [rn|e]; [|intros _; cbn [length]; lia].
    intro Hp. pose proof (tf_refs_len_prog m _ rn tk Hp). lia.
  Qed.

  (* ---- monotonicity with the path: a read on m1 ⊆ m2 follows the path of m2 ---- *)
  Lemma gn_subP m1 m2 ref : sub_store m1 m2 ->
    gn BNH m1 ref = gn BNH m2 ref \/
    exists h, ref = RStr h /\ gn BNH m1 ref = Err (EKeyError h) /\
              aget m1 h = None /\ aget m2 h <> None /\ In h (hrefs ref).
  Proof.
    intro Hsub. destruct (gn_sub BNH m1 m2 ref Hsub) as [Heq|(h & Hr & He & Hn1 & Hn2)];
      [left; exact Heq|].
    right. exists h. split; [exact Hr|]. split; [exact He|]. split; [exact Hn1|]. split; [exact Hn2|].
    destruct (gn_err BNH m1 ref _ He) as [(h' & Hr' & _ & _ & Hh)|[Hk _]].
    - rewrite Hr in Hr'. injection Hr' as Hr'. subst h' ref.
      rewrite (hrefs_hashed h Hh). left; reflexivity.
    - cbn [key_error_hash EKeyError T_KeyError] in Hk. discriminate Hk.
  Qed.

  Definition miss9P {A} (m1 m2 : amap bytes) (P : list bytes) (r : result A) : Prop :=
    exists h p, r = Err (EMissingTraversal h p) /\ aget m1 h = None /\ aget m2 h <> None /\ In h P.

  Lemma miss9P_cast {A B} m1 m2 P (r : result A) (r' : result B) :
    (forall e, r = Err e -> r' = Err e) -> miss9P m1 m2 P r -> miss9P m1 m2 P r'.
  Proof.
    intros Hc (h & p & Hr & Hn). exists h, p. split; [apply Hc; exact Hr|exact Hn].
  Qed.

  Lemma tf_subP m1 m2 fuel : sub_store m1 m2 -> forall node tk rem,
    tf BNH m1 fuel node tk rem = tf BNH m2 fuel node tk rem \/
    miss9P m1 m2 (tf_refs m2 fuel node rem) (tf BNH m1 fuel node tk rem).
  Proof.
    intro Hsub. induction fuel as [|f IH]; intros node tk rem; [left; reflexivity|].
    cbn [tf tf_refs]. destruct (tstep node rem) as [[r|c rem']|e]; try (left; reflexivity).
    unfold gnt.
    destruct (gn_subP m1 m2 c Hsub) as [Heq|(h & Hr & He & Hn1 & Hn2 & Hin)].
    - rewrite Heq. destruct (gn BNH m2 c) as [n'|e]; cbn [mt_handler].
      + destruct (IH n' tk rem') as [Heq2|(h & p & Hr & Hn1 & Hn2 & Hin)]; [left; exact Heq2|].
        right. exists h, p. split; [exact Hr|]. split; [exact Hn1|]. split; [exact Hn2|].
        apply in_or_app; right; exact Hin.
      + left. destruct (key_error_hash e); reflexivity.
    - right. rewrite He. cbn [mt_handler key_error_hash EKeyError T_KeyError].
      exists h, (used_key tk rem'). split; [reflexivity|]. split; [exact Hn1|]. split; [exact Hn2|].
      apply in_or_app; left; exact Hin.
  Qed.

  Lemma ptrav_subP m1 m2 root tk : sub_store m1 m2 ->
    ptrav BNH m1 root tk = ptrav BNH m2 root tk \/
    miss9P m1 m2 (path_refs m2 root tk) (ptrav BNH m1 root tk).
  Proof.
    intro Hsub. unfold ptrav, root_raw, path_refs.
    destruct (gn_subP m1 m2 (RStr root) Hsub) as [Heq|(h & Hr & He & Hn1 & Hn2 & Hin)].
    - rewrite Heq. destruct (gn BNH m2 (RStr root)) as [rn|e]; cbn [mt_handler].
      + destruct (tf_subP m1 m2 (traverse_fuel tk) Hsub rn tk tk)
          as [Heq2|(h & p & Hr & Hn1 & Hn2 & Hin)]; [left; exact Heq2|].
        right. exists h, p. split; [exact Hr|]. split; [exact Hn1|]. split; [exact Hn2|].
        apply in_or_app; right; exact Hin.
      + left. destruct (key_error_hash e); reflexivity.
    - right. rewrite He. cbn [mt_handler key_error_hash EKeyError T_KeyError].
      injection Hr as Hr. subst h.
      exists root, []. split; [reflexivity|]. split; [exact Hn1|]. split; [exact Hn2|].
      apply in_or_app; left; exact Hin.
  Qed.

  Definition miss8P {A} (m1 m2 : amap bytes) (P : list bytes) (root key : bytes) (r : result A) : Prop :=
    exists h p, r = Err (EMissingTrieNode h root key (Some p)) /\
                aget m1 h = None /\ aget m2 h <> None /\ In h P.

  Lemma pget_subP m1 m2 root key : sub_store m1 m2 ->
    pget BNH m1 root key = pget BNH m2 root key \/
    miss8P m1 m2 (path_refs m2 root (bytes_to_nibbles key)) root key (pget BNH m1 root key).
  Proof.
    intro Hsub. unfold pget, p_get.
    destruct (ptrav_subP m1 m2 root (bytes_to_nibbles key) Hsub) as [Heq|(h & p & Hr & Hn)].
    - rewrite Heq. left; reflexivity.
    - right. exists h, p. split; [|exact Hn]. rewrite Hr. reflexivity.
  Qed.

  Lemma ptraverse_subP m1 m2 root tk : sub_store m1 m2 ->
    ptraverse BNH m1 root tk = ptraverse BNH m2 root tk \/
    miss9P m1 m2 (path_refs m2 root tk) (ptraverse BNH m1 root tk).
  Proof.
    intro Hsub. unfold ptraverse. destruct (ptrav_subP m1 m2 root tk Hsub) as [Heq|Hm].
    - rewrite Heq. left; reflexivity.
    - right. revert Hm. apply miss9P_cast. intros e He. rewrite He. reflexivity.
  Qed.

  (* ================================================================ *)
  (* C. the retry loops of a caller *)

  (* "this result is MissingTrieNode(h, ...)" / "... MissingTraversal(h, ...)" *)
  Definition mh8 {A} (r : result A) : option bytes :=
    match r with Err (Exn 8 (OB h :: _)) => Some h | _ => None end.
  Definition mh9 {A} (r : result A) : option bytes :=
    match r with Err (Exn 9 (OB h :: _)) => Some h | _ => None end.

  Lemma mh8_benign {A} e : benign e = true -> @mh8 A (Err e) = None.
  Proof.
    intro Hb. destruct e as [tag args]. unfold mh8.
    repeat match goal with
           | |- context [match ?x with _ => _ end] => is_var x; destruct x
           end; try reflexivity; discriminate Hb.
  Qed.

  Lemma mh9_benign {A} e : benign e = true -> @mh9 A (Err e) = None.
  Proof.
    intro Hb. destruct e as [tag args]. unfold mh9.
    repeat match goal with
           | |- context [match ?x with _ => _ end] => is_var x; destruct x
           end; try reflexivity; discriminate Hb.
  Qed.

  (* on MissingTrieNode h, copy full[h] into the store and try again *)
  Fixpoint retry_get (fuel : nat) (full m : amap bytes) (r k : bytes) (asked : list bytes)
    : result bytes * amap bytes * list bytes :=
    match fuel with
    | O => (Err EOutOfFuel, m, asked)
    | S f =>
        match fst (get BNH k (plain m r)) with
        | Err (Exn 8 (OB h :: _)) =>          (* T_MissingTrieNode = 8 *)
            match aget full h with
            | Some b => retry_get f full (aset m h b) r k (asked ++ [h])
            | None => (Err (Exn 8 [OB h]), m, asked)   (* the complete store lacks it too *)
            end
        | res => (res, m, asked)
        end
    end.

  (* on MissingTraversalNode h, copy full[h] into the store and try again *)
  Fixpoint retry_traverse (fuel : nat) (full m : amap bytes) (r : bytes) (ns : nibbles)
           (asked : list bytes) : result hnode * amap bytes * list bytes :=
    match fuel with
    | O => (Err EOutOfFuel, m, asked)
    | S f =>
        match fst (traverse BNH ns (plain m r)) with
        | Err (Exn 9 (OB h :: _)) =>          (* T_MissingTraversal = 9 *)
            match aget full h with
            | Some b => retry_traverse f full (aset m h b) r ns (asked ++ [h])
            | None => (Err (Exn 9 [OB h]), m, asked)
            end
        | res => (res, m, asked)
        end
    end.

  Lemma retry_get_loop full r k : forall fuel m asked,
    retry_get fuel full m r k asked =
    retry_loop (fun m0 => fst (get BNH k (plain m0 r))) mh8 (fun h => Exn 8 [OB h]) full fuel m asked.
  Proof.
    induction fuel as [|f IH]; intros m asked; [reflexivity|].
    cbn [retry_get retry_loop].
    destruct (fst (get BNH k (plain m r))) as [v|[t args]]; [reflexivity|].
    unfold mh8.
    repeat match goal with
           | |- context [match ?x with _ => _ end] => is_var x; destruct x
           end; try reflexivity.
    destruct (aget full _); [apply IH|reflexivity].
  Qed.

  Lemma retry_traverse_loop full r ns : forall fuel m asked,
    retry_traverse fuel full m r ns asked =
    retry_loop (fun m0 => fst (traverse BNH ns (plain m0 r))) mh9 (fun h => Exn 9 [OB h]) full fuel m asked.
  Proof.
    induction fuel as [|f IH]; intros m asked; [reflexivity|].
    cbn [retry_traverse retry_loop].
    destruct (fst (traverse BNH ns (plain m r))) as [v|[t args]]; [reflexivity|].
    unfold mh9.
    repeat match goal with
           | |- context [match ?x with _ => _ end] => is_var x; destruct x
           end; try reflexivity.
    destruct (aget full _); [apply IH|reflexivity].
  Qed.

  (* the two facts the abstract loop needs, for get ... *)
  Lemma get_HR full r k m : sub_store m full ->
    fst (get BNH k (plain m r)) = fst (get BNH k (plain full r)) \/
    exists h, mh8 (fst (get BNH k (plain m r))) = Some h /\ aget m h = None /\
              aget full h <> None /\ In h (path_refs full r (bytes_to_nibbles k)).
  Proof.
    intro Hsub.
    rewrite (get_eq BNH m k _ (on_plain m r)), (get_eq BNH full k _ (on_plain full r)).
    cbn [fst t_root plain].
    destruct (pget_subP m full r k Hsub) as [Heq|(h & p & He & Hn1 & Hn2 & Hin)];
      [left; exact Heq|right].
    exists h. rewrite He. split; [reflexivity|]. split; [exact Hn1|]. split; assumption.
  Qed.

  Lemma get_HT full r k h : mh8 (fst (get BNH k (plain full r))) = Some h -> aget full h = None.
  Proof.
    rewrite (get_eq BNH full k _ (on_plain full r)). cbn [fst t_root plain]. intro Hm.
    destruct (pget BNH full r k) as [v|e] eqn:E; [discriminate Hm|].
    destruct (pget_err BNH full r k e E) as [Hb|(h0 & pre & post & He & _ & _ & Hn & _)].
    - rewrite (mh8_benign e Hb) in Hm. discriminate Hm.
    - subst e. change (Some h0 = Some h) in Hm. injection Hm as Hm. subst h0. exact Hn.
  Qed.

  (* ... and for traverse *)
  Lemma traverse_HR full r ns m : sub_store m full ->
    fst (traverse BNH ns (plain m r)) = fst (traverse BNH ns (plain full r)) \/
    exists h, mh9 (fst (traverse BNH ns (plain m r))) = Some h /\ aget m h = None /\
              aget full h <> None /\ In h (path_refs full r ns).
  Proof.
    intro Hsub.
    rewrite (traverse_eq BNH m ns _ (on_plain m r)), (traverse_eq BNH full ns _ (on_plain full r)).
    cbn [fst t_root plain].
    destruct (ptraverse_subP m full r ns Hsub) as [Heq|(h & p & He & Hn1 & Hn2 & Hin)];
      [left; exact Heq|right].
    exists h. rewrite He. split; [reflexivity|]. split; [exact Hn1|]. split; assumption.
  Qed.

  Lemma traverse_HT full r ns h :
    mh9 (fst (traverse BNH ns (plain full r))) = Some h -> aget full h = None.
  Proof.
    rewrite (traverse_eq BNH full ns _ (on_plain full r)). cbn [fst t_root plain]. intro Hm.
    destruct (ptraverse BNH full r ns) as [v|e] eqn:E; [discriminate Hm|].
    unfold ptraverse in E.
    destruct (ptrav BNH full r ns) as [res|e0] eqn:Et.
    - rewrite (mh9_benign e (aop_err _ _ _ E)) in Hm. discriminate Hm.
    - injection E as E. subst e0.
      destruct (ptrav_err BNH full r ns e Et) as [Hb|(h0 & pre & post & He & _ & _ & Hn & _)].
      + rewrite (mh9_benign e Hb) in Hm. discriminate Hm.
      + subst e. change (Some h0 = Some h) in Hm. injection Hm as Hm. subst h0. exact Hn.
  Qed.

  (* ---------------------------------------------------------------- *)
  (* the postcondition of a retry run that started from store [m] with nothing asked *)
  Definition retry_post {A} (full m : amap bytes) (P : list bytes) (want : result A)
             (rd : amap bytes -> result A)
             (out : result A * amap bytes * list bytes) : Prop :=
    let '(res, m', asked) := out in
    res = want /\                                   (* the complete-store result *)
    rd m' = want /\                                 (* ... which the final store now yields itself *)
    NoDup asked /\                                  (* each node asked for at most once *)
    (forall h, In h asked ->                        (* only genuinely missing path nodes *)
       aget m h = None /\ aget full h <> None /\ In h P) /\
    sub_store m m' /\ sub_store m' full /\
    (forall x, aget m' x =                          (* only the reported nodes were supplied *)
               if existsb (bytes_eqb x) asked then aget full x else aget m x) /\
    (length asked <= length P)%nat.

  (* the general form: no assumption on what the complete store answers.  Either it answers
     without a Missing report and the loop returns that answer, or the complete store itself
     lacks a node h on the path, and the loop stops with its own "h is unobtainable" error. *)
  Theorem C07_retry_get_gen full m r k : sub_store m full ->
    forall fuel, (length (path_refs full r (bytes_to_nibbles k)) < fuel)%nat ->
    (mh8 (fst (get BNH k (plain full r))) = None /\
     retry_post full m (path_refs full r (bytes_to_nibbles k)) (fst (get BNH k (plain full r)))
                (fun m0 => fst (get BNH k (plain m0 r)))
                (retry_get fuel full m r k [])) \/
    (exists h, mh8 (fst (get BNH k (plain full r))) = Some h /\ aget full h = None /\
               fst (fst (retry_get fuel full m r k [])) = Err (Exn 8 [OB h])).
  Proof.
    intros Hsub fuel Hfuel. rewrite retry_get_loop.
    set (P := path_refs full r (bytes_to_nibbles k)) in *.
    assert (Hlt : (owed P m < fuel)%nat) by (pose proof (owed_le P m); lia).
    destruct (retry_loop_spec (fun m0 => fst (get BNH k (plain m0 r))) mh8 (fun h => Exn 8 [OB h])
                full P (get_HR full r k) (get_HT full r k) fuel m [] Hsub Hlt)
      as (res & m' & new & Hrun & Hres & Hrd & Hnd & Hall & Hs1 & Hs2 & Hfr & Hlen).
    cbn [app] in Hrun. rewrite Hrun.
    destruct Hres as [[Hnone Hres]|(h & Hsome & Hn & Hres)].
    - left. split; [exact Hnone|]. unfold retry_post.
      split; [exact Hres|]. split; [exact Hrd|]. split; [exact Hnd|]. split; [exact Hall|].
      split; [exact Hs1|]. split; [exact Hs2|]. split; [exact Hfr|].
      pose proof (owed_le P m). lia.
    - right. exists h. split; [exact Hsome|]. split; [exact Hn|]. exact Hres.
  Qed.

  (* the complete store answers k from r without a MissingTrieNode report: the loop ends
     with exactly that answer *)
  Theorem C07_retry_get full m r k : sub_store m full ->
    mh8 (fst (get BNH k (plain full r))) = None ->
    forall fuel, (length (path_refs full r (bytes_to_nibbles k)) < fuel)%nat ->
    let '(res, m', asked) := retry_get fuel full m r k [] in
    res = fst (get BNH k (plain full r)) /\
    fst (get BNH k (plain m' r)) = fst (get BNH k (plain full r)) /\
    NoDup asked /\
    (forall h, In h asked -> aget m h = None /\ aget full h <> None /\
                             In h (path_refs full r (bytes_to_nibbles k))) /\
    sub_store m m' /\ sub_store m' full /\
    (forall x, aget m' x = if existsb (bytes_eqb x) asked then aget full x else aget m x) /\
    (length asked <= length (path_refs full r (bytes_to_nibbles k)))%nat.
  Proof.
    intros Hsub Hnone fuel Hfuel.
    destruct (C07_retry_get_gen full m r k Hsub fuel Hfuel) as [[_ Hpost]|(h & Hsome & _)].
    - exact Hpost.
    - rewrite Hnone in Hsome. discriminate Hsome.
  Qed.

  (* in the words of the task: a successful complete-store read, some fuel bound n *)
  Corollary C07_retry_get_ok full m r k v : sub_store m full ->
    fst (get BNH k (plain full r)) = Ok v ->
    exists n, (n <= length (bytes_to_nibbles k) + 3)%nat /\
      forall fuel, (fuel > n)%nat ->
      let '(res, m', asked) := retry_get fuel full m r k [] in
      res = Ok v /\ fst (get BNH k (plain m' r)) = Ok v /\ NoDup asked /\
      (forall h, In h asked ->
         aget m h = None /\ aget full h <> None /\ hashed BNH h /\
         exists pre post, bytes_to_nibbles k = pre ++ post /\
                          ref_at BNH full (RStr r) pre (RStr h)) /\
      sub_store m m' /\ sub_store m' full /\
      (forall x, aget m' x = if existsb (bytes_eqb x) asked then aget full x else aget m x) /\
      (length asked <= n)%nat.
  Proof.
    intros Hsub Hok. exists (length (path_refs full r (bytes_to_nibbles k))).
    split; [apply path_refs_len|]. intros fuel Hfuel.
    assert (Hnone : mh8 (fst (get BNH k (plain full r))) = None) by (rewrite Hok; reflexivity).
    pose proof (C07_retry_get full m r k Hsub Hnone fuel Hfuel) as Hpost.
    destruct (retry_get fuel full m r k []) as [[res m'] asked].
    destruct Hpost as (Hres & Hrd & Hnd & Hall & Hs1 & Hs2 & Hfr & Hlen).
    rewrite Hok in Hres, Hrd.
    split; [exact Hres|]. split; [exact Hrd|]. split; [exact Hnd|].
    split.
    { intros h Hin. destruct (Hall h Hin) as (Hn & Hf & HP).
      destruct (path_refs_ref_at _ _ _ _ HP) as (Hh & Hpath).
      split; [exact Hn|]. split; [exact Hf|]. split; [exact Hh|exact Hpath]. }
    split; [exact Hs1|]. split; [exact Hs2|]. split; [exact Hfr|exact Hlen].
  Qed.

  (* the bound |key nibbles| + 1 holds when every traversal step consumes a nibble *)
  Corollary C07_retry_get_tight full m r k : sub_store m full ->
    mh8 (fst (get BNH k (plain full r))) = None ->
    path_prog full r (bytes_to_nibbles k) = true ->
    forall fuel, (fuel > length (bytes_to_nibbles k) + 1)%nat ->
    let '(res, _, asked) := retry_get fuel full m r k [] in
    res = fst (get BNH k (plain full r)) /\ NoDup asked /\
    (length asked <= length (bytes_to_nibbles k) + 1)%nat.
  Proof.
    intros Hsub Hnone Hprog fuel Hfuel.
    pose proof (path_refs_len_prog full r _ Hprog) as Hl.
    assert (Hfuel' : (length (path_refs full r (bytes_to_nibbles k)) < fuel)%nat) by lia.
    pose proof (C07_retry_get full m r k Hsub Hnone fuel Hfuel') as Hpost.
    destruct (retry_get fuel full m r k []) as [[res m'] asked].
    destruct Hpost as (Hres & _ & Hnd & _ & _ & _ & _ & Hlen).
    split; [exact Hres|]. split; [exact Hnd|]. lia.
  Qed.

  (* ---------------------------------------------------------------- *)
  (* the same for traverse *)
  Theorem C07_retry_traverse_gen full m r ns : sub_store m full ->
    forall fuel, (length (path_refs full r ns) < fuel)%nat ->
    (mh9 (fst (traverse BNH ns (plain full r))) = None /\
     retry_post full m (path_refs full r ns) (fst (traverse BNH ns (plain full r)))
                (fun m0 => fst (traverse BNH ns (plain m0 r)))
                (retry_traverse fuel full m r ns [])) \/
    (exists h, mh9 (fst (traverse BNH ns (plain full r))) = Some h /\ aget full h = None /\
               fst (fst (retry_traverse fuel full m r ns [])) = Err (Exn 9 [OB h])).
  Proof.
    intros Hsub fuel Hfuel. rewrite retry_traverse_loop.
    set (P := path_refs full r ns) in *.
    assert (Hlt : (owed P m < fuel)%nat) by (pose proof (owed_le P m); lia).
    destruct (retry_loop_spec (fun m0 => fst (traverse BNH ns (plain m0 r))) mh9
                (fun h => Exn 9 [OB h])
                full P (traverse_HR full r ns) (traverse_HT full r ns) fuel m [] Hsub Hlt)
      as (res & m' & new & Hrun & Hres & Hrd & Hnd & Hall & Hs1 & Hs2 & Hfr & Hlen).
    cbn [app] in Hrun. rewrite Hrun.
    destruct Hres as [[Hnone Hres]|(h & Hsome & Hn & Hres)].
    - left. split; [exact Hnone|]. unfold retry_post.
      split; [exact Hres|]. split; [exact Hrd|]. split; [exact Hnd|]. split; [exact Hall|].
      split; [exact Hs1|]. split; [exact Hs2|]. split; [exact Hfr|].
      pose proof (owed_le P m). lia.
    - right. exists h. split; [exact Hsome|]. split; [exact Hn|]. exact Hres.
  Qed.

  (* traverse on the complete store gives a node or any non-MissingTraversal error
     (TraversedPartialPath included): the loop ends with exactly that outcome *)
  Theorem C07_retry_traverse full m r ns : sub_store m full ->
    mh9 (fst (traverse BNH ns (plain full r))) = None ->
    forall fuel, (length (path_refs full r ns) < fuel)%nat ->
    let '(res, m', asked) := retry_traverse fuel full m r ns [] in
    res = fst (traverse BNH ns (plain full r)) /\
    fst (traverse BNH ns (plain m' r)) = fst (traverse BNH ns (plain full r)) /\
    NoDup asked /\
    (forall h, In h asked -> aget m h = None /\ aget full h <> None /\
                             In h (path_refs full r ns)) /\
    sub_store m m' /\ sub_store m' full /\
    (forall x, aget m' x = if existsb (bytes_eqb x) asked then aget full x else aget m x) /\
    (length asked <= length (path_refs full r ns))%nat.
  Proof.
    intros Hsub Hnone fuel Hfuel.
    destruct (C07_retry_traverse_gen full m r ns Hsub fuel Hfuel) as [[_ Hpost]|(h & Hsome & _)].
    - exact Hpost.
    - rewrite Hnone in Hsome. discriminate Hsome.
  Qed.

  Corollary C07_retry_traverse_ok full m r ns v : sub_store m full ->
    fst (traverse BNH ns (plain full r)) = Ok v ->
    exists n, (n <= length ns + 3)%nat /\
      forall fuel, (fuel > n)%nat ->
      let '(res, m', asked) := retry_traverse fuel full m r ns [] in
      res = Ok v /\ fst (traverse BNH ns (plain m' r)) = Ok v /\ NoDup asked /\
      (forall h, In h asked ->
         aget m h = None /\ aget full h <> None /\ hashed BNH h /\
         exists pre post, ns = pre ++ post /\ ref_at BNH full (RStr r) pre (RStr h)) /\
      sub_store m m' /\ sub_store m' full /\
      (forall x, aget m' x = if existsb (bytes_eqb x) asked then aget full x else aget m x) /\
      (length asked <= n)%nat.
  Proof.
    intros Hsub Hok. exists (length (path_refs full r ns)).
    split; [apply path_refs_len|]. intros fuel Hfuel.
    assert (Hnone : mh9 (fst (traverse BNH ns (plain full r))) = None) by (rewrite Hok; reflexivity).
    pose proof (C07_retry_traverse full m r ns Hsub Hnone fuel Hfuel) as Hpost.
    destruct (retry_traverse fuel full m r ns []) as [[res m'] asked].
    destruct Hpost as (Hres & Hrd & Hnd & Hall & Hs1 & Hs2 & Hfr & Hlen).
    rewrite Hok in Hres, Hrd.
    split; [exact Hres|]. split; [exact Hrd|]. split; [exact Hnd|].
    split.
    { intros h Hin. destruct (Hall h Hin) as (Hn & Hf & HP).
      destruct (path_refs_ref_at _ _ _ _ HP) as (Hh & Hpath).
      split; [exact Hn|]. split; [exact Hf|]. split; [exact Hh|exact Hpath]. }
    split; [exact Hs1|]. split; [exact Hs2|]. split; [exact Hfr|exact Hlen].
  Qed.

End DRetry.

(* ------------------------------------------------------------------ *)
(* The simpler bound "at most |key nibbles| + 1 requests" is FALSE for arbitrary stores:
   an extension node with an empty key consumes no nibble but sits behind its own hash.
   Key 0x12 (2 nibbles); root -> ext(empty key) -> branch[1] -> branch[2] -> leaf(key ()):
   four hashed nodes, the read succeeds, and the retry loop from the empty store asks for
   all four (2 + 1 = 3 would be the naive bound).  H := keccak256. *)
From PyTrie.Base Require Keccak.

Module RetryCounterexample.
  Import Keccak.
  Definition K := keccak256.
  Definition BN := keccak256 [x80].

  Definition val : bytes := repeat x76 32.
  Definition n3 : item := RList [RStr [x20]; RStr val].                 (* leaf, key () *)
  Definition e3 := rlp_encode n3.
  Definition n2 : item := RList (list_set (repeat BLANK 17) 2 (RStr (K e3))).
  Definition e2 := rlp_encode n2.
  Definition n1 : item := RList (list_set (repeat BLANK 17) 1 (RStr (K e2))).
  Definition e1 := rlp_encode n1.
  Definition n0 : item := RList [RStr [x00]; RStr (K e1)].              (* extension, key () *)
  Definition e0 := rlp_encode n0.
  Definition fullc : amap bytes := [(K e0, e0); (K e1, e1); (K e2, e2); (K e3, e3)].

  Example cx_bound_nibbles_plus_one :
    fst (get BN [x12] (plain fullc (K e0))) = Ok val /\
    retry_get BN 10 fullc [] (K e0) [x12] [] = (Ok val, fullc, [K e0; K e1; K e2; K e3]) /\
    length (bytes_to_nibbles [x12]) = 2%nat /\
    path_refs BN fullc (K e0) (bytes_to_nibbles [x12]) = [K e0; K e1; K e2; K e3] /\
    path_prog BN fullc (K e0) (bytes_to_nibbles [x12]) = false.
  Proof. vm_compute. repeat split; reflexivity. Qed.
End RetryCounterexample.

Print Assumptions C07_retry_get_gen.
Print Assumptions C07_retry_get.
Print Assumptions C07_retry_get_ok.
Print Assumptions C07_retry_get_tight.
Print Assumptions C07_retry_traverse_gen.
Print Assumptions C07_retry_traverse.
Print Assumptions C07_retry_traverse_ok.
Print Assumptions path_refs_ref_at.
Print Assumptions path_refs_len.
Print Assumptions path_refs_len_prog.
