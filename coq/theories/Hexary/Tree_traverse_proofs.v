(* Hexary/Tree_traverse_proofs.v — properties C08 (traverse / traverse_from / annotation) and
   C10 (ordered views, next key, preorder node listing) of the tree-level model. *)
From Coq Require Import List NArith ZArith Bool Lia ZifyBool Sorted.
From Coq.Init Require Import Byte.
From PyTrie.Base Require Import Bytes Result Nibbles Rlp Bytes_proofs.
From PyTrie.Hexary Require Import Raw Tree TreeTraverse Tree_aux Tree_map.
From PyTrie.Hexary Require Tree_canon.
From PyTrie.Hexary Require Import Tree_unique.
From PyTrie.Fog Require Fog_proofs.
Import ListNotations.
Open Scope N_scope.

(* ================================================================== *)
(* 0. small facts about nibble tuples                                  *)
(* ================================================================== *)

Lemma ksw_comparable a b c :
  key_starts_with c a = true -> key_starts_with c b = true ->
  key_starts_with a b = true \/ key_starts_with b a = true.
Proof.
  intros Ha Hb. apply Fog_proofs.fg_starts_with_iff in Ha, Hb.
  destruct (Fog_proofs.fg_prefix_comparable a b c Ha Hb) as [H|H];
    apply Fog_proofs.fg_starts_with_iff in H; [right | left]; exact H.
Qed.

Lemma ksw_app_l k q p : key_starts_with k p = true -> key_starts_with (k ++ q) p = true.
Proof.
  intro H. apply tm_ksw_iff in H as [r ->]. rewrite <- app_assoc. apply tm_ksw_app.
Qed.

Lemma ksw_refl p : key_starts_with p p = true.
Proof. rewrite <- (app_nil_r p) at 1. apply tm_ksw_app. Qed.

Lemma nibs_ok_app_l a b : nibs_ok (a ++ b) = true -> nibs_ok a = true.
Proof. rewrite tm_nibs_ok_app. intro H. apply andb_true_iff in H as [H _]. exact H. Qed.

Lemma nibs_ok_app_r a b : nibs_ok (a ++ b) = true -> nibs_ok b = true.
Proof. rewrite tm_nibs_ok_app. intro H. apply andb_true_iff in H as [_ H]. exact H. Qed.

Lemma nibs_ok_app_intro a b : nibs_ok a = true -> nibs_ok b = true -> nibs_ok (a ++ b) = true.
Proof. intros Ha Hb. rewrite tm_nibs_ok_app, Ha, Hb. reflexivity. Qed.

(* ================================================================== *)
(* 1. unfolding lemmas for ttraverse_from                              *)
(* ================================================================== *)

Lemma ttf_nil t c : ttraverse_from t [] c = TAt t.
Proof. destruct t; reflexivity. Qed.

Lemma ttf_blank k c : ttraverse_from NBlank k c = TAt NBlank.
Proof. destruct k; reflexivity. Qed.

Lemma ttf_leaf p v k c : k <> [] ->
  ttraverse_from (NLeaf p v) k c =
  if key_starts_with p k then TPartial c (NLeaf p v) k else TAt NBlank.
Proof. intro Hk. destruct k; [contradiction | reflexivity]. Qed.

Lemma ttf_branch cs v r0 rt c :
  ttraverse_from (NBranch cs v) (r0 :: rt) c = ttraverse_from (child cs r0) rt (c ++ [r0]).
Proof.
  cbn [ttraverse_from]. unfold child. generalize (N.to_nat r0) as i.
  induction cs as [|d cs IH]; intros [|i]; cbn [nth];
    try (rewrite ttf_blank; reflexivity); try reflexivity.
  apply IH.
Qed.

Lemma ttf_ext p c k cons : k <> [] ->
  ttraverse_from (NExt p c) k cons =
  if key_starts_with k p then ttraverse_from c (skipn (length p) k) (cons ++ p)
  else if key_starts_with p k then TPartial cons (NExt p c) k else TAt NBlank.
Proof.
  intros Hk.
  assert (E0 : ttraverse_from (NExt p c) k cons =
               let '(_, cur_rem, key_rem) := consume_common_prefix p k in
               match cur_rem, key_rem with
               | [], _ => ttraverse_from c key_rem (cons ++ p)
               | _ :: _, [] => TPartial cons (NExt p c) k
               | _ :: _, _ :: _ => TAt NBlank
               end).
  { destruct k; [contradiction | reflexivity]. }
  rewrite E0. clear E0.
  destruct (consume_common_prefix p k) as [[common cur] kr] eqn:E.
  apply tm_ccp in E as (Ep & Ek & Hd). subst p k.
  destruct cur as [|x cur].
  - rewrite app_nil_r. rewrite tm_ksw_app, tm_skipn_app. reflexivity.
  - assert (H1 : key_starts_with (common ++ kr) (common ++ x :: cur) = false).
    { rewrite tm_ksw_app_app, tm_ksw_app, tm_skipn_app. cbn [andb].
      destruct kr as [|y kr]; [reflexivity|]. rewrite tm_ksw_cons.
      destruct (N.eqb_spec y x) as [He|Hne]; [congruence | reflexivity]. }
    rewrite H1. destruct kr as [|y kr].
    + rewrite app_nil_r. rewrite tm_ksw_app. reflexivity.
    + rewrite tm_ksw_app_app, tm_ksw_app, tm_skipn_app, tm_ksw_cons.
      destruct (N.eqb_spec x y) as [He|Hne]; [congruence | reflexivity].
Qed.

(* the accumulated prefix only shifts the "reached" component *)
Definition shift (c : nibbles) (r : tres) : tres :=
  match r with
  | TAt m => TAt m
  | TPartial re m tl => TPartial (c ++ re) m tl
  end.

Lemma shift_shift a b r : shift a (shift b r) = shift (a ++ b) r.
Proof. destruct r as [m|re m tl]; cbn [shift]; [reflexivity|]. rewrite app_assoc. reflexivity. Qed.

Lemma ttf_consumed t : forall k c, ttraverse_from t k c = shift c (ttraverse_from t k []).
Proof.
  induction t as [|p v|p d IH|cs v IH] using node_ind'; intros k c;
    (destruct k as [|r0 rt]; [rewrite !ttf_nil; reflexivity|]).
  - reflexivity.
  - rewrite !ttf_leaf by discriminate. destruct (key_starts_with p (r0 :: rt)); cbn [shift];
      [rewrite app_nil_r|]; reflexivity.
  - rewrite !ttf_ext by discriminate.
    destruct (key_starts_with (r0 :: rt) p).
    + rewrite (IH _ (c ++ p)), (IH _ ([] ++ p)), shift_shift. reflexivity.
    + destruct (key_starts_with p (r0 :: rt)); cbn [shift]; [rewrite app_nil_r|]; reflexivity.
  - rewrite !ttf_branch.
    assert (HP : forall k c, ttraverse_from (child cs r0) k c
                             = shift c (ttraverse_from (child cs r0) k [])).
    { apply (Forall_child _ cs r0 IH). intros k0 c0. rewrite !ttf_blank. reflexivity. }
    rewrite (HP _ (c ++ [r0])), (HP _ ([] ++ [r0])), shift_shift. reflexivity.
Qed.

(* ================================================================== *)
(* 2. C08: the node found at a path                                    *)
(* ================================================================== *)

Lemma ttf_at t : forall k c n, ttraverse_from t k c = TAt n ->
  forall q, tget n q = tget t (k ++ q).
Proof.
  induction t as [|p v|p d IH|cs v IH] using node_ind'; intros k c n Hn q;
    (destruct k as [|r0 rt]; [rewrite ttf_nil in Hn; injection Hn as <-; reflexivity|]).
  - cbn in Hn. injection Hn as <-. reflexivity.
  - rewrite ttf_leaf in Hn by discriminate.
    destruct (key_starts_with p (r0 :: rt)) eqn:E; [discriminate|]. injection Hn as <-.
    rewrite tget_leaf. destruct (nibbles_eqb ((r0 :: rt) ++ q) p) eqn:E2; [|reflexivity].
    apply tm_nibbles_eqb_eq in E2. subst p. rewrite tm_ksw_app in E. discriminate.
  - rewrite ttf_ext in Hn by discriminate.
    destruct (key_starts_with (r0 :: rt) p) eqn:E.
    + apply tm_ksw_iff in E as [k' Ek]. rewrite Ek in Hn |- *. rewrite tm_skipn_app in Hn.
      rewrite <- app_assoc, tget_ext_app. eapply IH. exact Hn.
    + destruct (key_starts_with p (r0 :: rt)) eqn:E2; [discriminate|]. injection Hn as <-.
      rewrite tget_ext. destruct (key_starts_with ((r0 :: rt) ++ q) p) eqn:E3; [|reflexivity].
      exfalso. destruct (ksw_comparable (r0 :: rt) p _ (tm_ksw_app _ _) E3) as [H|H]; congruence.
  - rewrite ttf_branch in Hn. cbn [app]. rewrite tget_branch.
    revert Hn. generalize (c ++ [r0]). revert rt n q.
    apply (Forall_child (fun t => forall rt n q c', ttraverse_from t rt c' = TAt n ->
                                   tget n q = tget t (rt ++ q)) cs r0).
    + eapply Forall_impl; [|exact IH]. intros a Ha rt n q c' Hn. eapply Ha. exact Hn.
    + intros rt n q c' Hn. rewrite ttf_blank in Hn. injection Hn as <-. reflexivity.
Qed.

Theorem ttraverse_at t p n : wf t = true -> nibs_ok p = true -> ttraverse t p = TAt n ->
   forall q, nibs_ok q = true -> tget n q = tget t (p ++ q).
Proof. intros _ _ Hn q _. eapply ttf_at. exact Hn. Qed.

Lemma ttf_partial t : forall k c reached n tail,
  ttraverse_from t k c = TPartial reached n tail ->
  exists r, reached = c ++ r /\ r ++ tail = k /\ tail <> [] /\
    ((exists pp v, n = NLeaf pp v) \/ (exists pp d, n = NExt pp d)) /\
    (forall q, tget (simulated n tail) q = tget t (k ++ q)) /\
    (forall q, tget n q = tget t (r ++ q)).
Proof.
  induction t as [|p v|p d IH|cs v IH] using node_ind'; intros k c reached n tail Hn;
    (destruct k as [|r0 rt]; [rewrite ttf_nil in Hn; discriminate|]).
  - cbn in Hn. discriminate.
  - rewrite ttf_leaf in Hn by discriminate.
    destruct (key_starts_with p (r0 :: rt)) eqn:E; [|discriminate]. injection Hn as <- <- <-.
    exists []. split; [symmetry; apply app_nil_r|]. split; [reflexivity|]. split; [discriminate|].
    split; [left; exists p, v; reflexivity|]. split; [|intro q; reflexivity].
    intro q. apply tm_ksw_iff in E as [p' ->]. cbn [simulated]. rewrite tm_skipn_app.
    rewrite !tget_leaf, tm_eqb_app. reflexivity.
  - rewrite ttf_ext in Hn by discriminate.
    destruct (key_starts_with (r0 :: rt) p) eqn:E.
    + apply tm_ksw_iff in E as [k' Ek]. rewrite Ek in Hn |- *. rewrite tm_skipn_app in Hn.
      destruct (IH _ _ _ _ _ Hn) as (r & Hr & Hk & Htl & Hshape & Hsim & Hget).
      exists (p ++ r). split; [rewrite Hr; symmetry; apply app_assoc|].
      split; [rewrite <- app_assoc, Hk; reflexivity|]. split; [exact Htl|].
      split; [exact Hshape|]. split.
      * intro q. rewrite <- app_assoc, tget_ext_app. apply Hsim.
      * intro q. rewrite <- app_assoc, tget_ext_app. apply Hget.
    + destruct (key_starts_with p (r0 :: rt)) eqn:E2; [|discriminate]. injection Hn as <- <- <-.
      exists []. split; [symmetry; apply app_nil_r|]. split; [reflexivity|]. split; [discriminate|].
      split; [right; exists p, d; reflexivity|]. split; [|intro q; reflexivity].
      intro q. apply tm_ksw_iff in E2 as [p' ->]. cbn [simulated]. rewrite tm_skipn_app.
      rewrite !tget_ext, tm_ksw_app_app, tm_ksw_app, tm_skipn_app. cbn [andb].
      rewrite app_length, <- tm_skipn_skipn, tm_skipn_app. reflexivity.
  - rewrite ttf_branch in Hn.
    assert (HP : forall rt c' reached n tail,
               ttraverse_from (child cs r0) rt c' = TPartial reached n tail ->
               exists r, reached = c' ++ r /\ r ++ tail = rt /\ tail <> [] /\
                 ((exists pp v, n = NLeaf pp v) \/ (exists pp d, n = NExt pp d)) /\
                 (forall q, tget (simulated n tail) q = tget (child cs r0) (rt ++ q)) /\
                 (forall q, tget n q = tget (child cs r0) (r ++ q))).
    { apply (Forall_child _ cs r0 IH). intros rt' c' re' n' tl' H. rewrite ttf_blank in H. discriminate. }
    destruct (HP _ _ _ _ _ Hn) as (r & Hr & Hk & Htl & Hshape & Hsim & Hget).
    exists (r0 :: r). split; [rewrite Hr, <- app_assoc; reflexivity|].
    split; [cbn [app]; rewrite Hk; reflexivity|]. split; [exact Htl|]. split; [exact Hshape|].
    split; intro q; cbn [app]; rewrite tget_branch; [apply Hsim | apply Hget].
Qed.

Theorem ttraverse_partial t p reached n tail : wf t = true -> nibs_ok p = true ->
   ttraverse t p = TPartial reached n tail ->
   reached ++ tail = p /\ tail <> [] /\ (exists pp v, n = NLeaf pp v \/ exists c, n = NExt pp c) /\
   (forall q, nibs_ok q = true -> tget (simulated n tail) q = tget t (p ++ q)) /\
   (forall q, nibs_ok q = true -> tget n q = tget t (reached ++ q)).
Proof.
  intros _ _ Hn. destruct (ttf_partial _ _ _ _ _ _ Hn) as (r & Hr & Hk & Htl & Hshape & Hsim & Hget).
  cbn [app] in Hr. subst reached. split; [exact Hk|]. split; [exact Htl|]. split.
  - destruct Hshape as [(pp & v & ->)|(pp & d & ->)].
    + exists pp, v. left. reflexivity.
    + exists pp, []. right. exists d. reflexivity.
  - split; intros q _; [apply Hsim | apply Hget].
Qed.

Theorem C08_root t : ttraverse t [] = TAt t.
Proof. apply ttf_nil. Qed.

(* ---------------- traverse_from composes ---------------- *)
Lemma ttf_compose t : forall pre seg c n, ttraverse_from t pre c = TAt n ->
  ttraverse_from t (pre ++ seg) c = ttraverse_from n seg (c ++ pre).
Proof.
  induction t as [|p v|p d IH|cs v IH] using node_ind'; intros pre seg c n Hn;
    (destruct pre as [|r0 rt];
     [rewrite ttf_nil in Hn; injection Hn as <-; rewrite app_nil_r; reflexivity|]).
  - cbn in Hn. injection Hn as <-. rewrite !ttf_blank. reflexivity.
  - rewrite ttf_leaf in Hn by discriminate.
    destruct (key_starts_with p (r0 :: rt)) eqn:E; [discriminate|]. injection Hn as <-.
    rewrite ttf_leaf by discriminate. rewrite ttf_blank.
    destruct (key_starts_with p ((r0 :: rt) ++ seg)) eqn:E2; [|reflexivity].
    apply tm_ksw_iff in E2 as [r ->]. rewrite <- app_assoc, tm_ksw_app in E. discriminate.
  - rewrite ttf_ext in Hn by discriminate. rewrite ttf_ext by discriminate.
    destruct (key_starts_with (r0 :: rt) p) eqn:E.
    + rewrite (ksw_app_l _ seg _ E).
      apply tm_ksw_iff in E as [k' Ek]. rewrite Ek in Hn |- *. rewrite tm_skipn_app in Hn.
      rewrite <- app_assoc, tm_skipn_app. rewrite (IH _ seg _ _ Hn), <- app_assoc. reflexivity.
    + destruct (key_starts_with p (r0 :: rt)) eqn:E2; [discriminate|]. injection Hn as <-.
      rewrite ttf_blank.
      destruct (key_starts_with ((r0 :: rt) ++ seg) p) eqn:E3.
      { exfalso. destruct (ksw_comparable (r0 :: rt) p _ (tm_ksw_app _ _) E3) as [H|H]; congruence. }
      destruct (key_starts_with p ((r0 :: rt) ++ seg)) eqn:E4; [|reflexivity].
      apply tm_ksw_iff in E4 as [r ->]. rewrite <- app_assoc, tm_ksw_app in E2. discriminate.
  - rewrite ttf_branch in Hn. cbn [app]. rewrite ttf_branch.
    assert (HP : forall pre seg c n, ttraverse_from (child cs r0) pre c = TAt n ->
               ttraverse_from (child cs r0) (pre ++ seg) c = ttraverse_from n seg (c ++ pre)).
    { apply (Forall_child _ cs r0 IH). intros pre' seg' c' n' H. rewrite ttf_blank in H.
      injection H as <-. rewrite !ttf_blank. reflexivity. }
    rewrite (HP _ seg _ _ Hn), <- app_assoc. reflexivity.
Qed.

Theorem C08_from t pre seg n : wf t = true -> nibs_ok pre = true -> nibs_ok seg = true ->
   ttraverse t pre = TAt n ->
   ttraverse t (pre ++ seg) =
   match ttraverse_from n seg [] with
   | TAt m => TAt m
   | TPartial reached m tail => TPartial (pre ++ reached) m tail
   end.
Proof.
  intros _ _ _ Hn. unfold ttraverse. rewrite (ttf_compose _ _ seg _ _ Hn). cbn [app].
  rewrite ttf_consumed. reflexivity.
Qed.

(* ---------------- the node at a path of a canonical trie is canonical ---------------- *)
Lemma canonical_leaf_inv p v : canonical (NLeaf p v) = true -> nibs_ok p = true /\ v <> [].
Proof.
  cbn [canonical]. intro H. apply andb_true_iff in H as [Hp Hv]. split; [exact Hp|].
  destruct v; [discriminate Hv | discriminate].
Qed.

Lemma canonical_top_child cs v i : canonical (NBranch cs v) = true -> canonical_top (child cs i) = true.
Proof.
  intro Hc. destruct (canonical_branch_inv _ _ Hc) as (_ & _ & Hall).
  unfold child. apply canonical_top_nth. exact Hall.
Qed.

Lemma ttf_canonical t : forall k c, canonical_top t = true ->
  match ttraverse_from t k c with
  | TAt n => canonical_top n = true
  | TPartial _ n _ => canonical n = true
  end.
Proof.
  induction t as [|p v|p d IH|cs v IH] using node_ind'; intros k c Ht;
    (destruct k as [|r0 rt]; [rewrite ttf_nil; exact Ht|]).
  - reflexivity.
  - rewrite ttf_leaf by discriminate. destruct (key_starts_with p (r0 :: rt)); [|reflexivity].
    apply Tree_canon.canonical_top_nonblank; [exact Ht | reflexivity].
  - apply Tree_canon.canonical_top_nonblank in Ht; [|reflexivity].
    rewrite ttf_ext by discriminate.
    destruct (key_starts_with (r0 :: rt) p).
    + apply IH. apply Tree_canon.canonical_canonical_top.
      apply (canonical_ext_inv _ _ Ht).
    + destruct (key_starts_with p (r0 :: rt)); [exact Ht | reflexivity].
  - apply Tree_canon.canonical_top_nonblank in Ht; [|reflexivity].
    rewrite ttf_branch.
    pose proof (canonical_top_child cs v r0 Ht) as Hch. revert Hch.
    generalize (c ++ [r0]). revert rt.
    apply (Forall_child (fun t => forall rt c', canonical_top t = true ->
              match ttraverse_from t rt c' with
              | TAt n => canonical_top n = true
              | TPartial _ n _ => canonical n = true
              end) cs r0).
    + eapply Forall_impl; [|exact IH]. intros a Ha rt c' Hc. apply Ha. exact Hc.
    + intros rt c' _. rewrite ttf_blank. reflexivity.
Qed.

Theorem ttraverse_canonical t p n : canonical_top t = true -> nibs_ok p = true ->
   ttraverse t p = TAt n -> canonical_top n = true.
Proof.
  intros Ht _ Hn. pose proof (ttf_canonical t p [] Ht) as Hc. unfold ttraverse in Hn.
  rewrite Hn in Hc. exact Hc.
Qed.

Theorem ttraverse_partial_canonical t p reached n tail : canonical_top t = true ->
   ttraverse t p = TPartial reached n tail -> canonical n = true.
Proof.
  intros Ht Hn. pose proof (ttf_canonical t p [] Ht) as Hc. unfold ttraverse in Hn.
  rewrite Hn in Hc. exact Hc.
Qed.

(* ---------------- blank exactly when no stored key starts with the path ---------------- *)
Theorem C08_blank t p : canonical_top t = true -> nibs_ok p = true ->
   (ttraverse t p = TAt NBlank <-> forall q, nibs_ok q = true -> tget t (p ++ q) = []).
Proof.
  intros Ht Hp. split.
  - intros Hn q _. rewrite <- (ttf_at _ _ _ _ Hn q). reflexivity.
  - intro Hall. pose proof (ttf_canonical t p [] Ht) as Hc. unfold ttraverse.
    destruct (ttraverse_from t p []) as [n|reached n tail] eqn:E.
    + f_equal. apply Tree_canon.canonical_top_empty; [exact Hc|].
      intros q Hq. rewrite (ttf_at _ _ _ _ E q). apply Hall. exact Hq.
    + exfalso.
      destruct (ttf_partial _ _ _ _ _ _ E) as (r & Hr & Hk & Htl & Hshape & Hsim & Hget).
      destruct Hshape as [(pp & v & ->)|(pp & d & ->)].
      * destruct (canonical_leaf_inv _ _ Hc) as [Hpp Hv].
        assert (Hq : nibs_ok (skipn (length tail) pp) = true) by (apply tm_nibs_ok_skipn; exact Hpp).
        specialize (Hsim (skipn (length tail) pp)). rewrite (Hall _ Hq) in Hsim.
        cbn [simulated] in Hsim. rewrite tget_leaf, tm_nibbles_eqb_refl in Hsim. contradiction.
      * destruct (canonical_ext_inv _ _ Hc) as (Hpp & _ & _ & Hd).
        destruct (Tree_canon.canonical_nonempty _ Hd) as (q0 & Hq0 & Hg0).
        assert (Hq : nibs_ok (skipn (length tail) pp ++ q0) = true).
        { apply nibs_ok_app_intro; [apply tm_nibs_ok_skipn; exact Hpp | exact Hq0]. }
        specialize (Hsim (skipn (length tail) pp ++ q0)). rewrite (Hall _ Hq) in Hsim.
        cbn [simulated] in Hsim. rewrite tget_ext_app in Hsim. contradiction.
Qed.

(* ================================================================== *)
(* 3. C08: the annotation                                              *)
(* ================================================================== *)
Definition nkey_lt (a b : nibbles) : Prop := nibbles_ltb a b = true.

Lemma in_nibble_range i : In i nibble_range <-> i < 16.
Proof. unfold nibble_range. cbn [In]. lia. Qed.

Lemma nibble_range_sorted : StronglySorted N.lt nibble_range.
Proof.
  unfold nibble_range.
  repeat (apply SSorted_cons; [|repeat (apply Forall_cons; [lia|]); apply Forall_nil]).
  apply SSorted_nil.
Qed.

Definition branch_segs (cs : list node) : list nibbles :=
  flat_map (fun i => if is_nblank (child cs i) then [] else [[i]]) nibble_range.

Lemma annotate_branch cs v : annotate (NBranch cs v) = mkTann (branch_segs cs) v [] TBranch.
Proof. reflexivity. Qed.

Lemma in_branch_segs cs s :
  In s (branch_segs cs) <-> exists i, s = [i] /\ i < 16 /\ is_nblank (child cs i) = false.
Proof.
  unfold branch_segs. rewrite in_flat_map. split.
  - intros (i & Hi & Hs). apply in_nibble_range in Hi.
    destruct (is_nblank (child cs i)) eqn:E; [destruct Hs|].
    destruct Hs as [<-|[]]. exists i. split; [reflexivity|]. split; [exact Hi | exact E].
  - intros (i & -> & Hi & E). exists i. split; [apply in_nibble_range; exact Hi|].
    rewrite E. left. reflexivity.
Qed.

Lemma segs_sorted (f : N -> bool) l : StronglySorted N.lt l ->
  StronglySorted nkey_lt (flat_map (fun i => if f i then [] else [[i]]) l).
Proof.
  intro HS. induction HS as [|i l HS IH HF]; cbn [flat_map]; [constructor|].
  destruct (f i); cbn [app]; [exact IH|].
  constructor; [exact IH|]. rewrite Forall_forall in HF |- *. intros s Hs.
  apply in_flat_map in Hs as (x & Hx & Hs). destruct (f x); [destruct Hs|].
  destruct Hs as [<-|[]]. specialize (HF _ Hx). unfold nkey_lt. cbn [nibbles_ltb].
  destruct (N.ltb_spec i x) as [_|Hge]; [reflexivity | lia].
Qed.

Lemma branch_segs_sorted cs : StronglySorted nkey_lt (branch_segs cs).
Proof. apply (segs_sorted (fun i => is_nblank (child cs i))). apply nibble_range_sorted. Qed.

Lemma tget_nonblank t q : tget t q <> [] -> is_nblank t = false.
Proof. destruct t; [intro H; exfalso; apply H; reflexivity | reflexivity..]. Qed.

Theorem annotate_spec n : canonical n = true ->
   let a := annotate n in
   match a_type a with
   | TBlank => False
   | TLeaf => (* exactly one key, the suffix, with the value *)
       a_segs a = [] /\ a_value a <> [] /\ nibs_ok (a_suffix a) = true /\
       forall q, tget n q = if nibbles_eqb q (a_suffix a) then a_value a else []
   | TExt =>  (* no value; one segment, the longest common prefix of the (>= 2) keys below *)
       a_suffix a = [] /\ a_value a = [] /\ tget n [] = [] /\
       exists p, a_segs a = [p] /\ p <> [] /\ nibs_ok p = true /\
         (forall q, stored n q -> exists r, q = p ++ r) /\
         exists r1 r2, stored n (p ++ r1) /\ stored n (p ++ r2) /\ hd_error r1 <> hd_error r2
   | TBranch => (* own value; the sorted one-nibble segments that have a key below them *)
       a_suffix a = [] /\ a_value a = tget n [] /\ StronglySorted nkey_lt (a_segs a) /\
       (forall s, In s (a_segs a) <-> exists i, s = [i] /\ exists q, stored n (i :: q)) /\
       two_heads n
   end.
Proof.
  intro Hc. destruct n as [|p v|p c|cs v]; cbv zeta.
  - discriminate Hc.
  - cbn [annotate a_type a_segs a_value a_suffix].
    destruct (canonical_leaf_inv _ _ Hc) as [Hp Hv].
    split; [reflexivity|]. split; [exact Hv|]. split; [exact Hp|]. intro q. apply tget_leaf.
  - cbn [annotate a_type a_segs a_value a_suffix].
    destruct (canonical_ext_inv _ _ Hc) as (Hp & Hpne & Hb & Hcc).
    split; [reflexivity|]. split; [reflexivity|]. split.
    { rewrite tget_ext. destruct p as [|x p]; [contradiction | reflexivity]. }
    exists p. split; [reflexivity|]. split; [exact Hpne|]. split; [exact Hp|]. split.
    + intros q Hq. apply ext_stored_prefix in Hq. apply tm_ksw_iff in Hq. exact Hq.
    + destruct (ext_child_two_heads _ _ Hc) as (q1 & q2 & H1 & H2 & Hd).
      exists q1, q2. split; [apply ext_stored_app; assumption|].
      split; [apply ext_stored_app; assumption | exact Hd].
  - rewrite annotate_branch. cbn [a_type a_segs a_value a_suffix].
    split; [reflexivity|]. split; [reflexivity|]. split; [apply branch_segs_sorted|]. split.
    + intro s. rewrite in_branch_segs. split.
      * intros (i & -> & Hi & Hnb). exists i. split; [reflexivity|].
        unfold child in Hnb. destruct (branch_slot_stored cs v _ Hc Hnb) as (q & Hq).
        rewrite N2Nat.id in Hq. exists q. exact Hq.
      * intros (i & -> & q & Hok & Hg). exists i. split; [reflexivity|].
        split; [apply (nibs_ok_lt _ _ Hok)|]. rewrite tget_branch in Hg.
        apply (tget_nonblank _ _ Hg).
    + apply branch_two_heads. exact Hc.
Qed.

Lemma annotate_type n :
  a_type (annotate n) =
  match n with NBlank => TBlank | NLeaf _ _ => TLeaf | NExt _ _ => TExt | NBranch _ _ => TBranch end.
Proof. destruct n; reflexivity. Qed.

(* coverage: every stored key below a node is the node's own value/suffix or continues under
   one listed sub-segment *)
Theorem annotate_cover n q : canonical n = true -> nibs_ok q = true -> tget n q <> [] ->
   (q = a_suffix (annotate n) /\ a_value (annotate n) = tget n q) \/
   (exists s, In s (a_segs (annotate n)) /\ s <> [] /\ exists r, q = s ++ r).
Proof.
  intros Hc Hq Hg. destruct n as [|p v|p c|cs v].
  - exfalso. apply Hg. reflexivity.
  - left. cbn [annotate a_suffix a_value]. rewrite tget_leaf in Hg |- *.
    destruct (nibbles_eqb q p) eqn:E; [|exfalso; apply Hg; reflexivity].
    apply tm_nibbles_eqb_eq in E. split; [exact E | reflexivity].
  - right. cbn [annotate a_segs]. rewrite tget_ext in Hg.
    destruct (key_starts_with q p) eqn:E; [|exfalso; apply Hg; reflexivity].
    exists p. split; [left; reflexivity|]. split.
    + apply (canonical_ext_inv _ _ Hc).
    + apply tm_ksw_iff. exact E.
  - rewrite annotate_branch. cbn [a_segs a_suffix a_value]. destruct q as [|i q].
    + left. split; reflexivity.
    + right. exists [i]. split; [|split; [discriminate | exists q; reflexivity]].
      apply in_branch_segs. exists i. split; [reflexivity|]. split; [apply (nibs_ok_lt _ _ Hq)|].
      rewrite tget_branch in Hg. apply (tget_nonblank _ _ Hg).
Qed.

(* exactly one: two distinct listed sub-segments are never both prefixes of the same key *)
Theorem annotate_cover_unique n s1 s2 r1 r2 : canonical n = true ->
   In s1 (a_segs (annotate n)) -> In s2 (a_segs (annotate n)) -> s1 ++ r1 = s2 ++ r2 -> s1 = s2.
Proof.
  intros _ H1 H2 He. destruct n as [|p v|p c|cs v].
  - destruct H1.
  - destruct H1.
  - cbn [annotate a_segs In] in H1, H2. destruct H1 as [<-|[]]. destruct H2 as [<-|[]]. reflexivity.
  - rewrite annotate_branch in H1, H2. cbn [a_segs] in H1, H2.
    apply in_branch_segs in H1 as (i & -> & _). apply in_branch_segs in H2 as (j & -> & _).
    cbn [app] in He. injection He as -> _. reflexivity.
Qed.

(* ================================================================== *)
(* 4. C10: order facts, sorted lists                                   *)
(* ================================================================== *)
Lemma ltb_app p a b : nibbles_ltb (p ++ a) (p ++ b) = nibbles_ltb a b.
Proof.
  induction p as [|x p IH]; cbn [app nibbles_ltb]; [reflexivity|].
  rewrite N.ltb_irrefl. exact IH.
Qed.

Lemma ltb_cons i a b : nibbles_ltb (i :: a) (i :: b) = nibbles_ltb a b.
Proof. apply (ltb_app [i]). Qed.

Lemma ltb_cons_lt i j a b : i < j -> nibbles_ltb (i :: a) (j :: b) = true.
Proof. intro H. cbn [nibbles_ltb]. destruct (N.ltb_spec i j) as [_|Hge]; [reflexivity | lia]. Qed.

Lemma ltb_cons_gt i j a b : j < i -> nibbles_ltb (i :: a) (j :: b) = false.
Proof.
  intro H. cbn [nibbles_ltb]. destruct (N.ltb_spec i j) as [Hlt|_]; [lia|].
  destruct (N.ltb_spec j i) as [_|Hge]; [reflexivity | lia].
Qed.

Lemma ltb_nil_r a : nibbles_ltb a [] = false.
Proof. destruct a; reflexivity. Qed.

Lemma ltb_prefix p r : r <> [] -> nibbles_ltb p (p ++ r) = true.
Proof.
  intro Hr. rewrite <- (app_nil_r p) at 1. rewrite ltb_app. destruct r; [contradiction | reflexivity].
Qed.

Definition nle (a b : nibbles) : Prop := a = b \/ nibbles_ltb a b = true.

Lemma nle_trans a b c : nle a b -> nle b c -> nle a c.
Proof.
  intros [->|H1] [->|H2]; try (left; reflexivity); try (right; assumption).
  right. eapply Fog_proofs.fg_ltb_trans; eassumption.
Qed.

Lemma nle_total a b : nibbles_ltb a b = false -> nle b a.
Proof.
  intro H. destruct (nibbles_ltb b a) eqn:E; [right; exact E|].
  left. apply Fog_proofs.fg_ltb_total; assumption.
Qed.

Definition key_lt {A} (a b : nibbles * A) : Prop := nibbles_ltb (fst a) (fst b) = true.

Lemma ssorted_app {A} (R : A -> A -> Prop) l1 l2 :
  StronglySorted R l1 -> StronglySorted R l2 ->
  (forall a b, In a l1 -> In b l2 -> R a b) -> StronglySorted R (l1 ++ l2).
Proof.
  intros H1 H2 Hx. induction H1 as [|a l1 H1 IH HF]; cbn [app]; [exact H2|].
  constructor.
  - apply IH. intros a' b Ha Hb. apply Hx; [right; exact Ha | exact Hb].
  - apply Forall_app. split; [exact HF|]. apply Forall_forall. intros b Hb.
    apply Hx; [left; reflexivity | exact Hb].
Qed.

Lemma ssorted_map {A B} (R : A -> A -> Prop) (S : B -> B -> Prop) (f : A -> B) l :
  (forall a b, R a b -> S (f a) (f b)) -> StronglySorted R l -> StronglySorted S (map f l).
Proof.
  intros Hf HS. induction HS as [|a l HS IH HF]; cbn [map]; constructor; [exact IH|].
  apply Forall_forall. intros b Hb. apply in_map_iff in Hb as (b' & <- & Hb').
  rewrite Forall_forall in HF. apply Hf, HF, Hb'.
Qed.

Lemma ssorted_nodup {A} (l : list (nibbles * A)) :
  StronglySorted key_lt l -> NoDup (map fst l).
Proof.
  intro HS. induction HS as [|a l HS IH HF]; cbn [map]; constructor; [|exact IH].
  intro Hin. apply in_map_iff in Hin as (b & Hb & Hin). rewrite Forall_forall in HF.
  specialize (HF _ Hin). unfold key_lt in HF. rewrite Hb, Fog_proofs.fg_ltb_irrefl in HF.
  discriminate HF.
Qed.

(* ================================================================== *)
(* 5. contents                                                         *)
(* ================================================================== *)
Definition addc (i : N) (J : bindings) : bindings :=
  map (fun e : nibbles * bytes => (i :: fst e, snd e)) J.

Fixpoint contents_go (cs : list node) (i : N) : bindings :=
  match cs with
  | [] => []
  | c :: cs' => addc i (contents c) ++ contents_go cs' (i + 1)
  end.

Lemma contents_branch cs v :
  contents (NBranch cs v) = (if nonempty v then [([], v)] else []) ++ contents_go cs 0.
Proof. reflexivity. Qed.

Lemma contents_ext p c : contents (NExt p c) = addp p (contents c).
Proof. reflexivity. Qed.

Lemma in_addc i J k v : In (k, v) (addc i J) <-> exists k', k = i :: k' /\ In (k', v) J.
Proof.
  unfold addc. rewrite in_map_iff. split.
  - intros ([k' v'] & He & Hin). cbn [fst snd] in He. injection He as <- <-.
    exists k'. split; [reflexivity | exact Hin].
  - intros (k' & -> & Hin). exists (k', v). split; [reflexivity | exact Hin].
Qed.

Lemma in_addp p J k v : In (k, v) (addp p J) <-> exists k', k = p ++ k' /\ In (k', v) J.
Proof.
  unfold addp. rewrite in_map_iff. split.
  - intros ([k' v'] & He & Hin). cbn [fst snd] in He. injection He as <- <-.
    exists k'. split; [reflexivity | exact Hin].
  - intros (k' & -> & Hin). exists (k', v). split; [reflexivity | exact Hin].
Qed.

Lemma in_contents_go cs : forall i0 k v,
  In (k, v) (contents_go cs i0) <->
  exists j k', k = (i0 + N.of_nat j) :: k' /\ In (k', v) (contents (nth j cs NBlank)).
Proof.
  induction cs as [|c cs IH]; intros i0 k v; cbn [contents_go].
  - split; [intros []|]. intros (j & k' & _ & Hin). destruct j; destruct Hin.
  - rewrite in_app_iff, in_addc, IH. split.
    + intros [(k' & -> & Hin)|(j & k' & -> & Hin)].
      * exists 0%nat, k'. split; [f_equal; lia | exact Hin].
      * exists (S j), k'. split; [f_equal; lia | exact Hin].
    + intros (j & k' & -> & Hin). destruct j as [|j]; cbn [nth] in Hin.
      * left. exists k'. split; [f_equal; lia | exact Hin].
      * right. exists j, k'. split; [f_equal; lia | exact Hin].
Qed.

Lemma nonempty_true v : nonempty v = true <-> v <> [].
Proof. destruct v; cbn; split; intro H; try reflexivity; try discriminate; contradiction. Qed.

Lemma contents_spec_wf t : wf t = true -> forall k v,
  In (k, v) (contents t) <-> nibs_ok k = true /\ tget t k = v /\ v <> [].
Proof.
  induction t as [|p pv|p d IH|cs bv IH] using node_ind'; intros Hwf k v.
  - cbn. split; [intros [] | intros (_ & H & Hv); congruence].
  - cbn [wf] in Hwf. cbn [contents]. rewrite tget_leaf. split.
    + destruct (nonempty pv) eqn:E; [|intros []]. intros [He|[]]. injection He as <- <-.
      rewrite tm_nibbles_eqb_refl. split; [exact Hwf|]. split; [reflexivity|].
      apply nonempty_true. exact E.
    + intros (Hk & Hg & Hv). destruct (nibbles_eqb k p) eqn:E; [|congruence].
      apply tm_nibbles_eqb_eq in E. subst k pv. apply nonempty_true in Hv. rewrite Hv.
      left. reflexivity.
  - cbn [wf] in Hwf. apply andb_true_iff in Hwf as [Hp Hd].
    rewrite contents_ext, in_addp. split.
    + intros (k' & -> & Hin). apply (IH Hd) in Hin as (Hk' & Hg & Hv).
      split; [apply nibs_ok_app_intro; assumption|]. rewrite tget_ext_app. split; assumption.
    + intros (Hk & Hg & Hv). rewrite tget_ext in Hg.
      destruct (key_starts_with k p) eqn:E; [|congruence].
      apply tm_ksw_iff in E as [k' ->]. rewrite tm_skipn_app in Hg. exists k'.
      split; [reflexivity|]. apply (IH Hd). split; [apply (nibs_ok_app_r _ _ Hk)|]. split; assumption.
  - apply wf_branch_iff in Hwf as [Hlen Hall].
    assert (HP : forall i k v, In (k, v) (contents (child cs i)) <->
                               nibs_ok k = true /\ tget (child cs i) k = v /\ v <> []).
    { intro i. apply (Forall_child (fun t => wf t = true -> forall k v, In (k, v) (contents t) <->
                        nibs_ok k = true /\ tget t k = v /\ v <> []) cs i IH).
      - intros _ k0 v0. cbn. split; [intros [] | intros (_ & H & Hv); congruence].
      - apply wf_child. exact Hall. }
    rewrite contents_branch, in_app_iff, in_contents_go. split.
    + intros [Hin|(j & k' & -> & Hin)].
      * destruct (nonempty bv) eqn:E; [|destruct Hin]. destruct Hin as [He|[]].
        injection He as <- <-. split; [reflexivity|]. split; [reflexivity|].
        apply nonempty_true. exact E.
      * destruct (Nat.lt_ge_cases j (length cs)) as [Hlt|Hge];
          [|rewrite nth_overflow in Hin by exact Hge; destruct Hin].
        rewrite N.add_0_l, tget_branch.
        assert (Hch : child cs (N.of_nat j) = nth j cs NBlank) by (unfold child; rewrite Nat2N.id; reflexivity).
        rewrite <- Hch in Hin. apply HP in Hin as (Hk' & Hg & Hv).
        split; [|split; assumption]. rewrite tm_nibs_ok_cons, Hk'.
        apply andb_true_iff. split; [lia | reflexivity].
    + intros (Hk & Hg & Hv). destruct k as [|i k'].
      * left. rewrite tget_branch_nil in Hg. subst bv. apply nonempty_true in Hv. rewrite Hv.
        left. reflexivity.
      * right. rewrite tget_branch in Hg. exists (N.to_nat i), k'.
        split; [f_equal; lia|]. fold (child cs i). apply HP.
        rewrite tm_nibs_ok_cons in Hk. apply andb_true_iff in Hk as [_ Hk']. split; [exact Hk'|].
        split; assumption.
Qed.

Lemma canonical_wf t : canonical_top t = true -> wf t = true.
Proof.
  induction t as [|p pv|p d IH|cs bv IH] using node_ind'; intro Ht.
  - reflexivity.
  - apply Tree_canon.canonical_top_nonblank in Ht; [|reflexivity].
    cbn [wf]. apply (canonical_leaf_inv _ _ Ht).
  - apply Tree_canon.canonical_top_nonblank in Ht; [|reflexivity].
    destruct (canonical_ext_inv _ _ Ht) as (Hp & _ & _ & Hd). cbn [wf]. rewrite Hp.
    apply IH. apply Tree_canon.canonical_canonical_top. exact Hd.
  - apply Tree_canon.canonical_top_nonblank in Ht; [|reflexivity].
    destruct (canonical_branch_inv _ _ Ht) as (Hlen & _ & Hall).
    apply wf_branch_iff. split; [exact Hlen|]. apply forallb_forall. intros c Hc.
    rewrite Forall_forall in IH. apply (IH _ Hc). rewrite forallb_forall in Hall.
    apply Hall. exact Hc.
Qed.

(* keys(), items(), values() yield exactly the stored pairs *)
Theorem contents_spec t k v : wf t = true ->
   (In (k, v) (contents t) <-> nibs_ok k = true /\ tget t k = v /\ v <> []).
Proof. intro Hwf. apply contents_spec_wf. exact Hwf. Qed.

Corollary contents_spec_canonical t k v : canonical_top t = true ->
   (In (k, v) (contents t) <-> nibs_ok k = true /\ tget t k = v /\ v <> []).
Proof. intro Ht. apply contents_spec. apply canonical_wf. exact Ht. Qed.

Lemma canonical_contents t : canonical t = true -> contents t <> [].
Proof.
  intros Ht He. destruct (Tree_canon.canonical_nonempty _ Ht) as (q & Hq & Hg).
  assert (Hin : In (q, tget t q) (contents t)).
  { apply contents_spec_canonical; [apply Tree_canon.canonical_canonical_top; exact Ht|].
    split; [exact Hq|]. split; [reflexivity | exact Hg]. }
  rewrite He in Hin. destruct Hin.
Qed.

(* in ascending key order (for any tree: the order comes from the positions) *)
Lemma contents_go_sorted cs :
  Forall (fun c => StronglySorted (@key_lt bytes) (contents c)) cs ->
  forall i, StronglySorted (@key_lt bytes) (contents_go cs i).
Proof.
  intro HF. induction HF as [|c cs Hc _ IH]; intro i; cbn [contents_go]; [constructor|].
  apply ssorted_app.
  - unfold addc. eapply ssorted_map; [|exact Hc]. intros a b Hab. unfold key_lt in *.
    cbn [fst]. rewrite ltb_cons. exact Hab.
  - apply IH.
  - intros [ka va] [kb vb] Ha Hb. apply in_addc in Ha as (ka' & -> & _).
    apply in_contents_go in Hb as (j & kb' & -> & _). unfold key_lt. cbn [fst].
    apply ltb_cons_lt. lia.
Qed.

Lemma contents_sorted_all t : StronglySorted (@key_lt bytes) (contents t).
Proof.
  induction t as [|p pv|p d IH|cs bv IH] using node_ind'.
  - constructor.
  - cbn [contents]. destruct (nonempty pv); repeat constructor.
  - rewrite contents_ext. unfold addp. eapply ssorted_map; [|exact IH].
    intros a b Hab. unfold key_lt in *. cbn [fst]. rewrite ltb_app. exact Hab.
  - rewrite contents_branch. apply ssorted_app.
    + destruct (nonempty bv); repeat constructor.
    + apply contents_go_sorted. exact IH.
    + intros a [kb vb] Ha Hb. destruct (nonempty bv); [|destruct Ha]. destruct Ha as [<-|[]].
      apply in_contents_go in Hb as (j & kb' & -> & _). reflexivity.
Qed.

Theorem contents_sorted t : canonical_top t = true ->
   StronglySorted (fun a b => nibbles_ltb (fst a) (fst b) = true) (contents t).
Proof. intros _. apply contents_sorted_all. Qed.

(* each stored key once *)
Theorem contents_nodup t : NoDup (map fst (contents t)).
Proof. apply ssorted_nodup. apply contents_sorted_all. Qed.

(* ================================================================== *)
(* 6. nodes() and items()                                              *)
(* ================================================================== *)
Section TnodesGo.
  Variable pre : nibbles.
  Fixpoint tnodes_go (cs : list node) (i : N) : list (nibbles * node) :=
    match cs with
    | [] => []
    | c :: cs' => (if is_nblank c then [] else tnodes c (pre ++ [i])) ++ tnodes_go cs' (i + 1)
    end.
End TnodesGo.

Lemma tnodes_branch cs v pre :
  tnodes (NBranch cs v) pre = (pre, NBranch cs v) :: tnodes_go pre cs 0.
Proof. reflexivity. Qed.

Definition item_of (e : nibbles * node) : bindings :=
  let a := annotate (snd e) in
  if nonempty (a_value a) then [(fst e ++ a_suffix a, a_value a)] else [].

Lemma titems_eq t : titems t = flat_map item_of (tnodes t []).
Proof. reflexivity. Qed.

Lemma addp_addc pre i J : addp (pre ++ [i]) J = addp pre (addc i J).
Proof.
  unfold addp, addc. rewrite map_map. apply map_ext. intros [k v]. cbn [fst snd].
  rewrite <- app_assoc. reflexivity.
Qed.

Lemma addp_addp pre p J : addp (pre ++ p) J = addp pre (addp p J).
Proof.
  unfold addp. rewrite map_map. apply map_ext. intros [k v]. cbn [fst snd].
  rewrite <- app_assoc. reflexivity.
Qed.

Lemma addp_app p J1 J2 : addp p (J1 ++ J2) = addp p J1 ++ addp p J2.
Proof. apply map_app. Qed.

Lemma addp_nil J : addp [] J = J.
Proof. unfold addp. rewrite <- (map_id J) at 2. apply map_ext. intros [k v]. reflexivity. Qed.

Lemma titems_go cs :
  Forall (fun c => forall pre, flat_map item_of (tnodes c pre) = addp pre (contents c)) cs ->
  forall pre i, flat_map item_of (tnodes_go pre cs i) = addp pre (contents_go cs i).
Proof.
  intro HF. induction HF as [|c cs Hc _ IH]; intros pre i; cbn [tnodes_go contents_go]; [reflexivity|].
  rewrite flat_map_app, addp_app, IH. f_equal.
  destruct (is_nblank c) eqn:E.
  - apply is_nblank_true in E. subst c. reflexivity.
  - rewrite Hc. apply addp_addc.
Qed.

Lemma titems_gen t : forall pre, flat_map item_of (tnodes t pre) = addp pre (contents t).
Proof.
  induction t as [|p pv|p d IH|cs bv IH] using node_ind'; intro pre.
  - reflexivity.
  - cbn [tnodes flat_map]. rewrite app_nil_r. unfold item_of.
    cbn [snd fst annotate a_value a_suffix contents]. destruct (nonempty pv); reflexivity.
  - cbn [tnodes flat_map]. unfold item_of at 1. cbn [snd annotate a_value nonempty app].
    rewrite IH, contents_ext. apply addp_addp.
  - rewrite tnodes_branch, contents_branch. cbn [flat_map]. rewrite addp_app, (titems_go cs IH).
    f_equal. unfold item_of. cbn [snd fst]. rewrite annotate_branch. cbn [a_value a_suffix].
    destruct (nonempty bv); reflexivity.
Qed.

(* items() = the contents, hence exactly the stored pairs, once, ascending *)
Theorem titems_contents t : canonical_top t = true -> titems t = contents t.
Proof. intros _. rewrite titems_eq, titems_gen. apply addp_nil. Qed.

(* ---------------- prefixes of the listed nodes ---------------- *)
Lemma tnodes_head t pre : exists l, tnodes t pre = (pre, t) :: l.
Proof.
  destruct t as [|p v|p c|cs v].
  - exists []. reflexivity.
  - exists []. reflexivity.
  - eexists. reflexivity.
  - eexists. apply tnodes_branch.
Qed.

Lemma in_tnodes_go pre cs : forall i0 e,
  In e (tnodes_go pre cs i0) <->
  exists j, (j < length cs)%nat /\ is_nblank (nth j cs NBlank) = false /\
            In e (tnodes (nth j cs NBlank) (pre ++ [i0 + N.of_nat j])).
Proof.
  induction cs as [|c cs IH]; intros i0 e; cbn [tnodes_go].
  - split; [intros []|]. intros (j & Hj & _). cbn [length] in Hj. lia.
  - rewrite in_app_iff, IH. split.
    + intros [Hin|(j & Hj & Hnb & Hin)].
      * destruct (is_nblank c) eqn:E; [destruct Hin|]. exists 0%nat.
        split; [cbn [length]; lia|]. split; [exact E|]. cbn [nth].
        replace (i0 + N.of_nat 0) with i0 by lia. exact Hin.
      * exists (S j). split; [cbn [length]; lia|]. split; [exact Hnb|]. cbn [nth].
        replace (i0 + N.of_nat (S j)) with (i0 + 1 + N.of_nat j) by lia. exact Hin.
    + intros (j & Hj & Hnb & Hin). destruct j as [|j]; cbn [nth length] in *.
      * left. rewrite Hnb. replace (i0 + N.of_nat 0) with i0 in Hin by lia. exact Hin.
      * right. exists j. split; [lia|]. split; [exact Hnb|].
        replace (i0 + 1 + N.of_nat j) with (i0 + N.of_nat (S j)) by lia. exact Hin.
Qed.

Lemma tnodes_prefix t : forall pre q n, In (q, n) (tnodes t pre) -> exists s, q = pre ++ s.
Proof.
  induction t as [|p pv|p d IH|cs bv IH] using node_ind'; intros pre q n Hin.
  - destruct Hin as [He|[]]. injection He as <- _. exists []. symmetry. apply app_nil_r.
  - destruct Hin as [He|[]]. injection He as <- _. exists []. symmetry. apply app_nil_r.
  - cbn [tnodes] in Hin. destruct Hin as [He|Hin].
    + injection He as <- _. exists []. symmetry. apply app_nil_r.
    + apply IH in Hin as [s ->]. exists (p ++ s). symmetry. apply app_assoc.
  - rewrite tnodes_branch in Hin. destruct Hin as [He|Hin].
    + injection He as <- _. exists []. symmetry. apply app_nil_r.
    + apply in_tnodes_go in Hin as (j & Hj & _ & Hin).
      rewrite Forall_forall in IH. apply (IH _ (nth_In cs NBlank Hj)) in Hin as [s ->].
      eexists. symmetry. apply app_assoc.
Qed.

(* every listed node is the node traverse finds at its prefix *)
Lemma tnodes_traverse_gen t : canonical_top t = true -> forall pre q n c,
  In (q, n) (tnodes t pre) -> exists s, q = pre ++ s /\ ttraverse_from t s c = TAt n.
Proof.
  induction t as [|p pv|p d IH|cs bv IH] using node_ind'; intros Ht pre q n c Hin.
  - destruct Hin as [He|[]]. injection He as <- <-. exists []. split; [symmetry; apply app_nil_r | reflexivity].
  - destruct Hin as [He|[]]. injection He as <- <-. exists []. split; [symmetry; apply app_nil_r | reflexivity].
  - cbn [tnodes] in Hin. destruct Hin as [He|Hin].
    + injection He as <- <-. exists []. split; [symmetry; apply app_nil_r | reflexivity].
    + apply Tree_canon.canonical_top_nonblank in Ht; [|reflexivity].
      destruct (canonical_ext_inv _ _ Ht) as (_ & Hpne & _ & Hd).
      apply (IH (Tree_canon.canonical_canonical_top _ Hd) _ _ _ (c ++ p)) in Hin as (s & -> & Hs).
      exists (p ++ s). split; [symmetry; apply app_assoc|].
      rewrite ttf_ext by (destruct p; [contradiction | discriminate]).
      rewrite tm_ksw_app, tm_skipn_app. exact Hs.
  - rewrite tnodes_branch in Hin. destruct Hin as [He|Hin].
    + injection He as <- <-. exists []. split; [symmetry; apply app_nil_r | reflexivity].
    + apply Tree_canon.canonical_top_nonblank in Ht; [|reflexivity].
      apply in_tnodes_go in Hin as (j & Hj & _ & Hin).
      rewrite Forall_forall in IH.
      assert (Hct : canonical_top (nth j cs NBlank) = true).
      { apply canonical_top_nth. apply (canonical_branch_inv _ _ Ht). }
      apply (IH _ (nth_In cs NBlank Hj) Hct _ _ _ (c ++ [0 + N.of_nat j])) in Hin as (s & -> & Hs).
      exists ((0 + N.of_nat j) :: s). split; [rewrite <- app_assoc; reflexivity|].
      rewrite ttf_branch. unfold child. replace (N.to_nat (0 + N.of_nat j)) with j by lia. exact Hs.
Qed.

Theorem tnodes_traverse t : canonical_top t = true ->
   forall p n, In (p, n) (tnodes t []) -> ttraverse t p = TAt n.
Proof.
  intros Ht p n Hin. destruct (tnodes_traverse_gen t Ht [] p n [] Hin) as (s & -> & Hs). exact Hs.
Qed.

(* every non-blank node that traverse can reach is listed (and the root always is) *)
Lemma tnodes_complete_gen t : forall s c n pre, ttraverse_from t s c = TAt n -> n <> NBlank ->
  In (pre ++ s, n) (tnodes t pre).
Proof.
  induction t as [|p pv|p d IH|cs bv IH] using node_ind'; intros s c n pre Hs Hn;
    (destruct s as [|r0 rt];
     [rewrite ttf_nil in Hs; injection Hs as <-; rewrite app_nil_r;
      match goal with |- In _ (tnodes ?t0 _) => destruct (tnodes_head t0 pre) as [l ->] end;
      left; reflexivity|]).
  - cbn in Hs. injection Hs as <-. contradiction.
  - rewrite ttf_leaf in Hs by discriminate. destruct (key_starts_with p (r0 :: rt)); [discriminate|].
    injection Hs as <-. contradiction.
  - rewrite ttf_ext in Hs by discriminate. destruct (key_starts_with (r0 :: rt) p) eqn:E.
    + apply tm_ksw_iff in E as [k' Ek]. rewrite Ek in Hs |- *. rewrite tm_skipn_app in Hs.
      cbn [tnodes]. right. rewrite app_assoc. eapply IH; eassumption.
    + destruct (key_starts_with p (r0 :: rt)); [discriminate|]. injection Hs as <-. contradiction.
  - rewrite ttf_branch in Hs. rewrite tnodes_branch. right. apply in_tnodes_go.
    assert (Hnb : is_nblank (child cs r0) = false).
    { destruct (is_nblank (child cs r0)) eqn:E; [|reflexivity]. apply is_nblank_true in E.
      rewrite E, ttf_blank in Hs. injection Hs as <-. contradiction. }
    assert (Hlt : (N.to_nat r0 < length cs)%nat).
    { destruct (Nat.lt_ge_cases (N.to_nat r0) (length cs)) as [H|H]; [exact H|].
      unfold child in Hnb. rewrite nth_overflow in Hnb by exact H. discriminate Hnb. }
    exists (N.to_nat r0). split; [exact Hlt|]. split; [exact Hnb|].
    replace (0 + N.of_nat (N.to_nat r0)) with r0 by lia.
    rewrite Forall_forall in IH.
    change (pre ++ r0 :: rt) with (pre ++ [r0] ++ rt). rewrite app_assoc.
    eapply (IH _ (nth_In cs NBlank Hlt)); [exact Hs | exact Hn].
Qed.

Theorem tnodes_complete t p n : ttraverse t p = TAt n -> n <> NBlank -> In (p, n) (tnodes t []).
Proof. intros Hs Hn. apply (tnodes_complete_gen t p [] n [] Hs Hn). Qed.

(* preorder, parents first and children left to right: strictly ascending prefixes *)
Lemma tnodes_go_sorted pre cs :
  Forall (fun c => canonical_top c = true ->
                   forall pre, StronglySorted (@key_lt node) (tnodes c pre)) cs ->
  forallb canonical_top cs = true ->
  forall i, StronglySorted (@key_lt node) (tnodes_go pre cs i).
Proof.
  intro HF. induction HF as [|c cs Hc _ IH]; intros Hall i; cbn [tnodes_go]; [constructor|].
  cbn [forallb] in Hall. apply andb_true_iff in Hall as [Hct Hall].
  apply ssorted_app.
  - destruct (is_nblank c); [constructor | apply Hc; exact Hct].
  - apply IH. exact Hall.
  - intros [qa na] [qb nb] Ha Hb. destruct (is_nblank c); [destruct Ha|].
    apply tnodes_prefix in Ha as [sa ->].
    apply in_tnodes_go in Hb as (j & _ & _ & Hb). apply tnodes_prefix in Hb as [sb ->].
    unfold key_lt. cbn [fst]. rewrite <- !app_assoc, ltb_app. cbn [app]. apply ltb_cons_lt. lia.
Qed.

Lemma tnodes_sorted_gen t : canonical_top t = true ->
  forall pre, StronglySorted (@key_lt node) (tnodes t pre).
Proof.
  induction t as [|p pv|p d IH|cs bv IH] using node_ind'; intros Ht pre.
  - repeat constructor.
  - repeat constructor.
  - apply Tree_canon.canonical_top_nonblank in Ht; [|reflexivity].
    destruct (canonical_ext_inv _ _ Ht) as (_ & Hpne & _ & Hd).
    cbn [tnodes]. constructor; [apply IH, Tree_canon.canonical_canonical_top, Hd|].
    apply Forall_forall. intros [q n] Hin. apply tnodes_prefix in Hin as [s ->].
    unfold key_lt. cbn [fst]. rewrite <- app_assoc. apply ltb_prefix.
    destruct p; [contradiction | discriminate].
  - apply Tree_canon.canonical_top_nonblank in Ht; [|reflexivity].
    rewrite tnodes_branch. constructor.
    + apply tnodes_go_sorted; [exact IH | apply (canonical_branch_inv _ _ Ht)].
    + apply Forall_forall. intros [q n] Hin. apply in_tnodes_go in Hin as (j & _ & _ & Hin).
      apply tnodes_prefix in Hin as [s ->]. unfold key_lt. cbn [fst]. rewrite <- app_assoc.
      apply ltb_prefix. discriminate.
Qed.

Theorem tnodes_sorted t : canonical_top t = true ->
   StronglySorted (fun a b => nibbles_ltb (fst a) (fst b) = true) (tnodes t []).
Proof. intro Ht. apply (tnodes_sorted_gen t Ht []). Qed.

(* hence no prefix (no position of the trie) is listed twice *)
Theorem tnodes_nodup t : canonical_top t = true -> NoDup (map fst (tnodes t [])).
Proof. intro Ht. apply ssorted_nodup. apply (tnodes_sorted_gen t Ht []). Qed.

(* ================================================================== *)
(* 7. least_above: the specification of next()                         *)
(* ================================================================== *)
Definition above (q : option nibbles) (k : nibbles) : bool :=
  match q with None => true | Some q => nibbles_ltb q k end.

Definition la_step (q : option nibbles) (best : option nibbles) (e : nibbles * bytes) : option nibbles :=
  if above q (fst e) then
    match best with
    | None => Some (fst e)
    | Some b => if nibbles_ltb (fst e) b then Some (fst e) else best
    end
  else best.

Lemma least_above_eq J q : least_above J q = fold_left (la_step q) J None.
Proof. reflexivity. Qed.

Lemma la_step_facts q b e :
  let b' := la_step q b e in
  (b' = b \/ (b' = Some (fst e) /\ above q (fst e) = true)) /\
  (forall kb, b = Some kb -> exists kb', b' = Some kb' /\ nle kb' kb) /\
  (above q (fst e) = true -> exists kb', b' = Some kb' /\ nle kb' (fst e)) /\
  (b' = None -> b = None /\ above q (fst e) = false).
Proof.
  cbv zeta. unfold la_step. destruct (above q (fst e)) eqn:Ea.
  - destruct b as [kb|].
    + destruct (nibbles_ltb (fst e) kb) eqn:El.
      * split; [right; split; reflexivity|]. split.
        { intros kb0 He. injection He as <-. exists (fst e). split; [reflexivity | right; exact El]. }
        split; [intros _; exists (fst e); split; [reflexivity | left; reflexivity]|].
        intro H. discriminate H.
      * split; [left; reflexivity|]. split.
        { intros kb0 He. injection He as <-. exists kb. split; [reflexivity | left; reflexivity]. }
        split; [intros _; exists kb; split; [reflexivity | apply nle_total; exact El]|].
        intro H. discriminate H.
    + split; [right; split; reflexivity|]. split; [intros kb0 He; discriminate He|].
      split; [intros _; exists (fst e); split; [reflexivity | left; reflexivity]|].
      intro H. discriminate H.
  - split; [left; reflexivity|]. split.
    { intros kb He. exists kb. split; [exact He | left; reflexivity]. }
    split; [intro H; discriminate H|]. intro H. split; [exact H | reflexivity].
Qed.

Lemma la_gen q J : forall b,
  match fold_left (la_step q) J b with
  | Some k => (b = Some k \/ (In k (map fst J) /\ above q k = true)) /\
              (forall kb, b = Some kb -> nle k kb) /\
              (forall k', In k' (map fst J) -> above q k' = true -> nle k k')
  | None => b = None /\ forall k', In k' (map fst J) -> above q k' = false
  end.
Proof.
  induction J as [|e J IH]; intro b; cbn [fold_left map].
  - destruct b as [k|].
    + split; [left; reflexivity|]. split; [|intros k' []].
      intros kb He. injection He as <-. left. reflexivity.
    + split; [reflexivity | intros k' []].
  - specialize (IH (la_step q b e)).
    destruct (la_step_facts q b e) as (F1 & F2 & F3 & F4).
    destruct (fold_left (la_step q) J (la_step q b e)) as [k|].
    + destruct IH as (I1 & I2 & I3). split; [|split].
      * destruct I1 as [I1|[I1 I1']]; [|right; split; [right; exact I1 | exact I1']].
        destruct F1 as [F1|[F1 F1']]; [left; congruence|].
        right. rewrite F1 in I1. injection I1 as <-. split; [left; reflexivity | exact F1'].
      * intros kb Hb. destruct (F2 _ Hb) as (kb' & Hb' & Hle).
        eapply nle_trans; [apply (I2 _ Hb') | exact Hle].
      * intros k' [<-|Hin] Ha; [|apply I3; assumption].
        destruct (F3 Ha) as (kb' & Hb' & Hle). eapply nle_trans; [apply (I2 _ Hb') | exact Hle].
    + destruct IH as [I1 I2]. destruct (F4 I1) as [Hb Ha]. split; [exact Hb|].
      intros k' [<-|Hin]; [exact Ha | apply I2; exact Hin].
Qed.

(* next(k) / next(): the smallest stored key strictly greater than k (any k), or None *)
Theorem least_above_spec J q r : least_above J q = r ->
   match r with
   | Some k => In k (map fst J) /\
               (match q with Some q => nibbles_ltb q k = true | None => True end) /\
               forall k', In k' (map fst J) ->
                          (match q with Some q => nibbles_ltb q k' = true | None => True end) ->
                          k' = k \/ nibbles_ltb k k' = true
   | None => forall k', In k' (map fst J) ->
                        match q with Some q => nibbles_ltb q k' = false | None => False end
   end.
Proof.
  intros <-. rewrite least_above_eq. pose proof (la_gen q J None) as H.
  destruct (fold_left (la_step q) J None) as [k|].
  - destruct H as (H1 & _ & H3). destruct H1 as [H1|[H1 H1']]; [discriminate H1|].
    split; [exact H1|]. split.
    + destruct q as [q|]; [exact H1' | exact I].
    + intros k' Hin Ha.
      assert (Ha' : above q k' = true) by (destruct q as [q|]; [exact Ha | reflexivity]).
      destruct (H3 _ Hin Ha') as [He|Hl]; [left; symmetry; exact He | right; exact Hl].
  - destruct H as [_ H2]. intros k' Hin. specialize (H2 _ Hin).
    destruct q as [q|]; [exact H2 | discriminate H2].
Qed.

(* on a sorted list the least key above q is the first one above q *)
Fixpoint first_above (J : bindings) (q : option nibbles) : option nibbles :=
  match J with
  | [] => None
  | e :: J' => if above q (fst e) then Some (fst e) else first_above J' q
  end.

Lemma la_sorted q J : StronglySorted (@key_lt bytes) J -> forall b,
  (forall kb, b = Some kb -> Forall (fun e => nibbles_ltb kb (fst e) = true) J) ->
  fold_left (la_step q) J b = match b with Some _ => b | None => first_above J q end.
Proof.
  intro HS. induction HS as [|e J HS IH HF]; intros b Hb; cbn [fold_left first_above].
  - destruct b; reflexivity.
  - destruct b as [kb|].
    + pose proof (Hb kb eq_refl) as Hkb. apply Forall_cons_iff in Hkb as [Hk1 Hk2].
      assert (Hs : la_step q (Some kb) e = Some kb).
      { unfold la_step. rewrite (Fog_proofs.fg_ltb_asym _ _ Hk1). destruct (above q (fst e)); reflexivity. }
      rewrite Hs. apply (IH (Some kb)). intros kb0 He. injection He as <-. exact Hk2.
    + unfold la_step at 2. destruct (above q (fst e)) eqn:Ea.
      * apply (IH (Some (fst e))). intros kb0 He. injection He as <-. exact HF.
      * apply (IH None). intros kb0 He. discriminate He.
Qed.

Lemma least_above_first J q : StronglySorted (@key_lt bytes) J -> least_above J q = first_above J q.
Proof.
  intro HS. rewrite least_above_eq. apply (la_sorted q J HS None). intros kb He. discriminate He.
Qed.

Lemma first_above_app J1 J2 q :
  first_above (J1 ++ J2) q =
  match first_above J1 q with Some k => Some k | None => first_above J2 q end.
Proof.
  induction J1 as [|e J1 IH]; cbn [app first_above]; [reflexivity|].
  destruct (above q (fst e)); [reflexivity | exact IH].
Qed.

Lemma first_above_none J q : (forall e, In e J -> above q (fst e) = false) -> first_above J q = None.
Proof.
  induction J as [|e J IH]; intro H; cbn [first_above]; [reflexivity|].
  rewrite (H e (or_introl eq_refl)). apply IH. intros e' He'. apply H. right. exact He'.
Qed.

Lemma first_above_all J q : (forall e, In e J -> above q (fst e) = true) ->
  first_above J q = first_above J None.
Proof.
  destruct J as [|e J]; intro H; cbn [first_above above]; [reflexivity|].
  rewrite (H e (or_introl eq_refl)). reflexivity.
Qed.

Lemma first_above_addp_none p J : first_above (addp p J) None = option_map (app p) (first_above J None).
Proof. destruct J as [|[k v] J]; reflexivity. Qed.

Lemma first_above_addc_none i J : first_above (addc i J) None = option_map (cons i) (first_above J None).
Proof. destruct J as [|[k v] J]; reflexivity. Qed.

Lemma first_above_addp p J k :
  first_above (addp p J) (Some (p ++ k)) = option_map (app p) (first_above J (Some k)).
Proof.
  induction J as [|[k0 v0] J IH]; [reflexivity|].
  cbn [addp map first_above above fst snd]. fold (addp p J). rewrite ltb_app.
  destruct (nibbles_ltb k k0); [reflexivity | exact IH].
Qed.

Lemma first_above_addc i J k :
  first_above (addc i J) (Some (i :: k)) = option_map (cons i) (first_above J (Some k)).
Proof.
  induction J as [|[k0 v0] J IH]; [reflexivity|].
  cbn [addc map first_above above fst snd]. fold (addc i J). rewrite ltb_cons.
  destruct (nibbles_ltb k k0); [reflexivity | exact IH].
Qed.

Lemma option_map_app_app (a b : nibbles) o :
  option_map (app (a ++ b)) o = option_map (app a) (option_map (app b) o).
Proof. destruct o as [k|]; cbn [option_map]; [rewrite app_assoc|]; reflexivity. Qed.

Lemma option_map_app_cons (a : nibbles) i o :
  option_map (app (a ++ [i])) o = option_map (app a) (option_map (cons i) o).
Proof. destruct o as [k|]; cbn [option_map]; [rewrite <- app_assoc|]; reflexivity. Qed.

Lemma option_map_app_nil (o : option nibbles) : option_map (app []) o = o.
Proof. destruct o; reflexivity. Qed.

(* ================================================================== *)
(* 8. C10: NodeIterator.next                                           *)
(* ================================================================== *)
Section FirstGo.
  Variable traversed : nibbles.
  Fixpoint first_go (cs : list node) (i : N) : option nibbles :=
    match cs with
    | [] => None
    | c :: cs' => if is_nblank c then first_go cs' (i + 1) else tnext_key c (traversed ++ [i])
    end.
End FirstGo.

Lemma tnext_key_branch cs v tr :
  tnext_key (NBranch cs v) tr = if nonempty v then Some tr else first_go tr cs 0.
Proof. reflexivity. Qed.

Lemma first_above_nonempty J : J <> [] -> exists k, first_above J None = Some k.
Proof. destruct J as [|e J]; [intro H; contradiction|]. intros _. exists (fst e). reflexivity. Qed.

Lemma first_go_spec cs :
  Forall (fun c => canonical_top c = true -> forall tr,
            tnext_key c tr = option_map (app tr) (first_above (contents c) None)) cs ->
  forallb canonical_top cs = true ->
  forall tr i, first_go tr cs i = option_map (app tr) (first_above (contents_go cs i) None).
Proof.
  intro HF. induction HF as [|c cs Hc _ IH]; intros Hall tr i; cbn [first_go contents_go]; [reflexivity|].
  cbn [forallb] in Hall. apply andb_true_iff in Hall as [Hct Hall].
  rewrite first_above_app, first_above_addc_none.
  destruct (is_nblank c) eqn:E.
  - apply is_nblank_true in E. subst c. cbn [contents first_above option_map]. apply IH. exact Hall.
  - rewrite (Hc Hct). apply Tree_canon.canonical_top_nonblank in Hct; [|exact E].
    destruct (first_above_nonempty _ (canonical_contents _ Hct)) as [k ->].
    cbn [option_map]. rewrite <- app_assoc. reflexivity.
Qed.

Lemma tnext_key_spec t : canonical_top t = true -> forall tr,
  tnext_key t tr = option_map (app tr) (first_above (contents t) None).
Proof.
  induction t as [|p pv|p d IH|cs bv IH] using node_ind'; intros Ht tr.
  - reflexivity.
  - apply Tree_canon.canonical_top_nonblank in Ht; [|reflexivity].
    destruct (canonical_leaf_inv _ _ Ht) as [_ Hv]. apply nonempty_true in Hv.
    cbn [tnext_key contents]. rewrite Hv. reflexivity.
  - apply Tree_canon.canonical_top_nonblank in Ht; [|reflexivity].
    destruct (canonical_ext_inv _ _ Ht) as (_ & _ & _ & Hd).
    cbn [tnext_key]. rewrite (IH (Tree_canon.canonical_canonical_top _ Hd)).
    rewrite contents_ext, first_above_addp_none. apply option_map_app_app.
  - apply Tree_canon.canonical_top_nonblank in Ht; [|reflexivity].
    rewrite tnext_key_branch, contents_branch. destruct (nonempty bv).
    + cbn [app first_above above fst option_map]. rewrite app_nil_r. reflexivity.
    + cbn [app]. apply first_go_spec; [exact IH | apply (canonical_branch_inv _ _ Ht)].
Qed.

Theorem C10_next_first t : canonical_top t = true ->
   tnext_key t [] = least_above (contents t) None.
Proof.
  intro Ht. rewrite (tnext_key_spec t Ht), option_map_app_nil.
  symmetry. apply least_above_first. apply contents_sorted_all.
Qed.

Section ScanGo.
  Variables key traversed : nibbles.
  Fixpoint scan_go (cs : list node) (i : N) : option nibbles :=
    match cs with
    | [] => None
    | c :: cs' =>
        if is_nblank c then scan_go cs' (i + 1)
        else
          match key with
          | [] => tnext_key c (traversed ++ [i])
          | k0 :: krem =>
              if i <? k0 then scan_go cs' (i + 1)
              else if i =? k0 then
                match tkey_after c krem (traversed ++ [i]) with
                | None => scan_go cs' (i + 1)
                | Some r => Some r
                end
              else tnext_key c (traversed ++ [i])
          end
    end.
End ScanGo.

Lemma tkey_after_branch cs v key tr : tkey_after (NBranch cs v) key tr = scan_go key tr cs 0.
Proof. reflexivity. Qed.

Lemma tkey_after_ext p c key tr :
  tkey_after (NExt p c) key tr =
  if nibbles_ltb p (firstn (length p) key) then None
  else let '(_, key_rem, seg_rem) := consume_common_prefix key p in
       match seg_rem with
       | [] => tkey_after c key_rem (tr ++ p)
       | _ => tnext_key c (tr ++ p)
       end.
Proof. reflexivity. Qed.

(* when every key below slot i is above q, the answer in that slot is its left-most key *)
Lemma next_in_child c tr i q rest : canonical c = true ->
  (forall k', above q (i :: k') = true) ->
  tnext_key c (tr ++ [i]) =
  option_map (app tr) (match first_above (addc i (contents c)) q with Some k => Some k | None => rest end).
Proof.
  intros Hc Ha. rewrite (tnext_key_spec c (Tree_canon.canonical_canonical_top _ Hc)).
  rewrite (first_above_all (addc i (contents c)) q), first_above_addc_none.
  - destruct (first_above_nonempty _ (canonical_contents _ Hc)) as [k ->].
    cbn [option_map]. rewrite <- app_assoc. reflexivity.
  - intros [k v] Hin. apply in_addc in Hin as (k' & -> & _). apply Ha.
Qed.

Lemma next_in_ext d tr p q : canonical_top d = true ->
  (forall k', above q (p ++ k') = true) ->
  tnext_key d (tr ++ p) = option_map (app tr) (first_above (addp p (contents d)) q).
Proof.
  intros Hd Ha. rewrite (tnext_key_spec d Hd), (first_above_all (addp p (contents d)) q), first_above_addp_none.
  - apply option_map_app_app.
  - intros [k v] Hin. apply in_addp in Hin as (k' & -> & _). apply Ha.
Qed.

Lemma scan_step_eq (o : option nibbles) tr i rest :
  match option_map (app (tr ++ [i])) o with
  | Some r => Some r
  | None => option_map (app tr) rest
  end = option_map (app tr) (match option_map (cons i) o with Some k => Some k | None => rest end).
Proof. destruct o as [r|]; cbn [option_map]; [rewrite <- app_assoc|]; reflexivity. Qed.

Lemma scan_go_spec key cs :
  Forall (fun c => canonical_top c = true -> forall key tr,
            tkey_after c key tr = option_map (app tr) (first_above (contents c) (Some key))) cs ->
  forallb canonical_top cs = true ->
  forall tr i, scan_go key tr cs i = option_map (app tr) (first_above (contents_go cs i) (Some key)).
Proof.
  intro HF. induction HF as [|c cs Hc _ IH]; intros Hall tr i; cbn [scan_go contents_go]; [reflexivity|].
  cbn [forallb] in Hall. apply andb_true_iff in Hall as [Hct Hall].
  rewrite first_above_app.
  destruct (is_nblank c) eqn:E.
  - apply is_nblank_true in E. subst c. cbn [contents addc map first_above]. apply IH. exact Hall.
  - pose proof (Tree_canon.canonical_top_nonblank _ Hct E) as Hcan.
    destruct key as [|k0 krem].
    + apply next_in_child; [exact Hcan|]. intro k'. reflexivity.
    + destruct (N.ltb_spec i k0) as [Hlt|Hge].
      * rewrite first_above_none; [apply IH; exact Hall|].
        intros [k v] Hin. apply in_addc in Hin as (k' & -> & _). cbn [above fst].
        apply ltb_cons_gt. exact Hlt.
      * destruct (N.eqb_spec i k0) as [->|Hne].
        -- rewrite (Hc Hct), first_above_addc, (IH Hall). apply scan_step_eq.
        -- apply next_in_child; [exact Hcan|]. intro k'. cbn [above]. apply ltb_cons_lt. lia.
Qed.

Lemma tkey_after_spec t : canonical_top t = true -> forall key tr,
  tkey_after t key tr = option_map (app tr) (first_above (contents t) (Some key)).
Proof.
  induction t as [|p pv|p d IH|cs bv IH] using node_ind'; intros Ht key tr.
  - reflexivity.
  - apply Tree_canon.canonical_top_nonblank in Ht; [|reflexivity].
    destruct (canonical_leaf_inv _ _ Ht) as [_ Hv]. apply nonempty_true in Hv.
    cbn [tkey_after contents]. rewrite Hv. cbn [first_above above fst].
    destruct (nibbles_ltb key p); reflexivity.
  - apply Tree_canon.canonical_top_nonblank in Ht; [|reflexivity].
    destruct (canonical_ext_inv _ _ Ht) as (_ & _ & _ & Hd).
    apply Tree_canon.canonical_canonical_top in Hd.
    rewrite tkey_after_ext, contents_ext.
    destruct (consume_common_prefix key p) as [[common krem] srem] eqn:E.
    apply tm_ccp in E as (Ek & Ep & Hdiff). subst key p.
    rewrite app_length, firstn_app_2, ltb_app.
    destruct srem as [|s0 sr].
    + cbn [length firstn nibbles_ltb]. rewrite app_nil_r, (IH Hd), first_above_addp.
      apply option_map_app_app.
    + destruct krem as [|k0 kr].
      * cbn [length firstn]. rewrite ltb_nil_r. apply next_in_ext; [exact Hd|].
        intro k'. cbn [above]. rewrite <- app_assoc, ltb_app. reflexivity.
      * cbn [length firstn].
        destruct (N.lt_trichotomy s0 k0) as [Hlt|[Heq|Hgt]].
        -- rewrite (ltb_cons_lt _ _ _ _ Hlt). rewrite first_above_none; [reflexivity|].
           intros [k v] Hin. apply in_addp in Hin as (k' & -> & _). cbn [above fst].
           rewrite <- app_assoc, ltb_app. cbn [app]. apply ltb_cons_gt. exact Hlt.
        -- exfalso. apply Hdiff. symmetry. exact Heq.
        -- rewrite (ltb_cons_gt _ _ _ _ Hgt). apply next_in_ext; [exact Hd|].
           intro k'. cbn [above]. rewrite <- app_assoc, ltb_app. cbn [app]. apply ltb_cons_lt. exact Hgt.
  - apply Tree_canon.canonical_top_nonblank in Ht; [|reflexivity].
    rewrite tkey_after_branch, contents_branch, first_above_app.
    assert (Hs : scan_go key tr cs 0 =
                 option_map (app tr) (first_above (contents_go cs 0) (Some key))).
    { apply scan_go_spec; [exact IH | apply (canonical_branch_inv _ _ Ht)]. }
    destruct (nonempty bv); cbn [first_above above fst]; [rewrite ltb_nil_r|]; exact Hs.
Qed.

Theorem C10_next_after t k : canonical_top t = true -> nibs_ok k = true ->
   tkey_after t k [] = least_above (contents t) (Some k).
Proof.
  intros Ht _. rewrite (tkey_after_spec t Ht), option_map_app_nil.
  symmetry. apply least_above_first. apply contents_sorted_all.
Qed.

(* the forms generalised over the accumulated prefix *)
Theorem C10_next_first_gen t tr : canonical_top t = true ->
   tnext_key t tr = option_map (app tr) (least_above (contents t) None).
Proof.
  intro Ht. rewrite (tnext_key_spec t Ht), (least_above_first _ _ (contents_sorted_all t)). reflexivity.
Qed.

Theorem C10_next_after_gen t k tr : canonical_top t = true ->
   tkey_after t k tr = option_map (app tr) (least_above (contents t) (Some k)).
Proof.
  intro Ht. rewrite (tkey_after_spec t Ht), (least_above_first _ _ (contents_sorted_all t)). reflexivity.
Qed.

(* next(k) spelled out: the smallest stored key strictly greater than k, or None *)
Corollary C10_next_after_least t k : canonical_top t = true -> nibs_ok k = true ->
   match tkey_after t k [] with
   | Some k1 => nibs_ok k1 = true /\ tget t k1 <> [] /\ nibbles_ltb k k1 = true /\
                forall k', nibs_ok k' = true -> tget t k' <> [] -> nibbles_ltb k k' = true ->
                           k' = k1 \/ nibbles_ltb k1 k' = true
   | None => forall k', nibs_ok k' = true -> tget t k' <> [] -> nibbles_ltb k k' = false
   end.
Proof.
  intros Ht Hk. rewrite (C10_next_after t k Ht Hk).
  pose proof (least_above_spec (contents t) (Some k) _ eq_refl) as H.
  assert (Hin : forall k', In k' (map fst (contents t)) <-> nibs_ok k' = true /\ tget t k' <> []).
  { intro k'. rewrite in_map_iff. split.
    - intros ([k0 v] & <- & Hin). apply (contents_spec_canonical t k0 v Ht) in Hin as (H1 & H2 & H3).
      cbn [fst]. split; [exact H1 | congruence].
    - intros [H1 H2]. exists (k', tget t k'). split; [reflexivity|].
      apply (contents_spec_canonical t _ _ Ht). split; [exact H1|]. split; [reflexivity | exact H2]. }
  destruct (least_above (contents t) (Some k)) as [k1|].
  - destruct H as (H1 & H2 & H3). apply Hin in H1 as [H1 H1']. split; [exact H1|].
    split; [exact H1'|]. split; [exact H2|]. intros k' Hk' Hg Hl. apply H3; [|exact Hl].
    apply Hin. split; assumption.
  - intros k' Hk' Hg. apply H. apply Hin. split; assumption.
Qed.

Corollary C10_next_first_least t : canonical_top t = true ->
   match tnext_key t [] with
   | Some k1 => nibs_ok k1 = true /\ tget t k1 <> [] /\
                forall k', nibs_ok k' = true -> tget t k' <> [] -> k' = k1 \/ nibbles_ltb k1 k' = true
   | None => forall k', nibs_ok k' = true -> tget t k' = []
   end.
Proof.
  intros Ht. rewrite (C10_next_first t Ht).
  pose proof (least_above_spec (contents t) None _ eq_refl) as H.
  assert (Hin : forall k', In k' (map fst (contents t)) <-> nibs_ok k' = true /\ tget t k' <> []).
  { intro k'. rewrite in_map_iff. split.
    - intros ([k0 v] & <- & Hin). apply (contents_spec_canonical t k0 v Ht) in Hin as (H1 & H2 & H3).
      cbn [fst]. split; [exact H1 | congruence].
    - intros [H1 H2]. exists (k', tget t k'). split; [reflexivity|].
      apply (contents_spec_canonical t _ _ Ht). split; [exact H1|]. split; [reflexivity | exact H2]. }
  destruct (least_above (contents t) None) as [k1|].
  - destruct H as (H1 & _ & H3). apply Hin in H1 as [H1 H1']. split; [exact H1|].
    split; [exact H1'|]. intros k' Hk' Hg. apply H3; [|exact I]. apply Hin. split; assumption.
  - intros k' Hk'. destruct (tget t k') eqn:E; [reflexivity|]. exfalso. apply (H k').
    apply Hin. split; [exact Hk'|]. rewrite E. discriminate.
Qed.

(* ================================================================== *)
(* 9. C08 summary: what a walk sees at a prefix is THE canonical node   *)
(*    for the keys below that prefix                                    *)
(* ================================================================== *)
Lemma ttf_partial_tail t : forall k c reached n tail,
  ttraverse_from t k c = TPartial reached n tail ->
  match n with
  | NLeaf pp _ => key_starts_with pp tail = true
  | NExt pp _ => key_starts_with pp tail = true /\ key_starts_with tail pp = false
  | _ => False
  end.
Proof.
  induction t as [|p v|p d IH|cs v IH] using node_ind'; intros k c reached n tail Hn;
    (destruct k as [|r0 rt]; [rewrite ttf_nil in Hn; discriminate|]).
  - cbn in Hn. discriminate.
  - rewrite ttf_leaf in Hn by discriminate.
    destruct (key_starts_with p (r0 :: rt)) eqn:E; [|discriminate]. injection Hn as <- <- <-. exact E.
  - rewrite ttf_ext in Hn by discriminate.
    destruct (key_starts_with (r0 :: rt) p) eqn:E.
    + eapply IH. exact Hn.
    + destruct (key_starts_with p (r0 :: rt)) eqn:E2; [|discriminate]. injection Hn as <- <- <-.
      split; [exact E2 | exact E].
  - rewrite ttf_branch in Hn. revert Hn. generalize (c ++ [r0]). revert rt reached n tail.
    apply (Forall_child (fun t => forall rt reached n tail c', ttraverse_from t rt c' = TPartial reached n tail ->
              match n with
              | NLeaf pp _ => key_starts_with pp tail = true
              | NExt pp _ => key_starts_with pp tail = true /\ key_starts_with tail pp = false
              | _ => False
              end) cs r0).
    + eapply Forall_impl; [|exact IH]. intros a Ha rt reached n tail c' Hn. eapply Ha. exact Hn.
    + intros rt reached n tail c' Hn. rewrite ttf_blank in Hn. discriminate.
Qed.

(* the simulated node of a partial traversal is itself canonical *)
Theorem simulated_canonical t p reached n tail : canonical_top t = true ->
   ttraverse t p = TPartial reached n tail -> canonical (simulated n tail) = true.
Proof.
  intros Ht Hn. pose proof (ttraverse_partial_canonical _ _ _ _ _ Ht Hn) as Hc.
  pose proof (ttf_partial_tail _ _ _ _ _ _ Hn) as Htl.
  destruct n as [|pp v|pp d|cs v]; try contradiction.
  - destruct (canonical_leaf_inv _ _ Hc) as [Hp Hv]. apply nonempty_true in Hv.
    cbn [simulated canonical]. rewrite (tm_nibs_ok_skipn _ _ Hp), Hv. reflexivity.
  - destruct (canonical_ext_inv _ _ Hc) as (Hp & _ & Hb & Hcc). destruct Htl as [H1 H2].
    cbn [simulated]. rewrite Tree_canon.canonical_ext, (tm_nibs_ok_skipn _ _ Hp), Hb, Hcc.
    apply tm_ksw_iff in H1 as [r ->]. rewrite tm_skipn_app.
    destruct r as [|x r]; [|reflexivity]. rewrite app_nil_r, ksw_refl in H2. discriminate H2.
Qed.

(* the node at a path is the unique canonical trie holding exactly the keys below the path *)
Theorem C08_at_unique t p n m : canonical_top t = true -> nibs_ok p = true ->
   ttraverse t p = TAt n -> canonical_top m = true ->
   (forall q, nibs_ok q = true -> tget m q = tget t (p ++ q)) -> n = m.
Proof.
  intros Ht Hp Hn Hm Hag. apply canonical_unique; [apply (ttraverse_canonical t p n Ht Hp Hn) | exact Hm|].
  intros q Hq. rewrite (ttf_at _ _ _ _ Hn q). symmetry. apply Hag. exact Hq.
Qed.

Theorem C08_partial_unique t p reached n tail m : canonical_top t = true -> nibs_ok p = true ->
   ttraverse t p = TPartial reached n tail -> canonical_top m = true ->
   (forall q, nibs_ok q = true -> tget m q = tget t (p ++ q)) -> simulated n tail = m.
Proof.
  intros Ht Hp Hn Hm Hag. apply canonical_unique; [|exact Hm|].
  - apply Tree_canon.canonical_canonical_top. apply (simulated_canonical _ _ _ _ _ Ht Hn).
  - intros q Hq. destruct (ttf_partial _ _ _ _ _ _ Hn) as (_ & _ & _ & _ & _ & Hsim & _).
    rewrite Hsim. symmetry. apply Hag. exact Hq.
Qed.

(* in both cases the description (sub-segments, value, suffix, type) is that of the canonical
   trie for the keys below the path *)
Theorem C08_describe t p m : canonical_top t = true -> nibs_ok p = true -> canonical_top m = true ->
   (forall q, nibs_ok q = true -> tget m q = tget t (p ++ q)) -> describe t p = annotate m.
Proof.
  intros Ht Hp Hm Hag. unfold describe. destruct (ttraverse t p) as [n|reached n tail] eqn:E.
  - f_equal. apply (C08_at_unique t p n m Ht Hp E Hm Hag).
  - f_equal. apply (C08_partial_unique t p reached n tail m Ht Hp E Hm Hag).
Qed.

Print Assumptions ttraverse_at.
Print Assumptions simulated_canonical.
Print Assumptions C08_at_unique.
Print Assumptions C08_partial_unique.
Print Assumptions C08_describe.
Print Assumptions ttraverse_partial.
Print Assumptions C08_blank.
Print Assumptions ttraverse_canonical.
Print Assumptions ttraverse_partial_canonical.
Print Assumptions annotate_spec.
Print Assumptions annotate_cover.
Print Assumptions annotate_cover_unique.
Print Assumptions C08_from.
Print Assumptions C08_root.
Print Assumptions contents_spec.
Print Assumptions contents_spec_canonical.
Print Assumptions contents_sorted.
Print Assumptions contents_nodup.
Print Assumptions titems_contents.
Print Assumptions C10_next_first.
Print Assumptions C10_next_after.
Print Assumptions C10_next_first_gen.
Print Assumptions C10_next_after_gen.
Print Assumptions C10_next_first_least.
Print Assumptions C10_next_after_least.
Print Assumptions least_above_spec.
Print Assumptions tnodes_traverse.
Print Assumptions tnodes_complete.
Print Assumptions tnodes_sorted.
Print Assumptions tnodes_nodup.
