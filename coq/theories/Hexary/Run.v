(* Hexary/Run.v — the history interpreter the correspondence checks of C01..C08 drive:
   the same operation language is executed by harness/hexrun.py on the implementation.
   Instantiates the D level with the real Keccak-256.  Definitions only. *)
From Coq Require Import List NArith ZArith Bool.
From Coq.Init Require Import Byte.
From PyTrie.Base Require Import Bytes Result AMap Nibbles Rlp Keccak.
From PyTrie.Db Require Import ScratchDb.
From PyTrie.Hexary Require Import Raw D.
Import ListNotations.
Open Scope N_scope.

Definition BLANK_NODE_HASH : bytes := Eval vm_compute in keccak256 [x80].
Definition BLANK_HASH : bytes := Eval vm_compute in keccak256 [].

(* order-independent digests, computed identically by harness/hexrun.py *)
Definition P61 : N := 2305843009213693951.
Definition ph (b : bytes) : N := fold_left (fun acc x => (acc * 257 + b2n x + 1) mod P61) b 0.
Definition db_digest (m : amap bytes) : N :=
  fold_left (fun acc (e : bytes * bytes) => (acc + ph (fst e ++ [xff] ++ snd e)) mod P61) m 0.
Definition rc_digest (m : amap Z) : N :=
  fold_left (fun acc (e : bytes * Z) =>
               (acc + ph (fst e) * Z.to_N (snd e mod Z.of_N P61)%Z) mod P61) m 0.

Definition store_cells_of (t : trie) : amap bytes := cells (outer_store t).

(* the visible database of a trie handle (through a scratch layer, if any) *)
Definition visible_db (t : trie) : amap bytes :=
  match t_db t with DPlain s => cells s | DScratch sc => scopy sc end.

Definition nonzero (m : amap Z) : amap Z := filter (fun e : bytes * Z => negb (Z.eqb (snd e) 0)) m.

Definition state_obs (t : trie) : obs :=
  let db := visible_db t in
  OL [OB (t_root t); oN (db_digest db); onat (length db);
      if t_prune t then OL [oN (rc_digest (nonzero (t_refc t))); onat (length (nonzero (t_refc t)))]
      else ONone].

Definition dump_obs (t : trie) : obs :=
  OL [OB (t_root t);
      OL (map (fun e : bytes * bytes => OL [OB (fst e); OB (snd e)]) (asort (visible_db t)));
      OL (map (fun e : bytes * Z => OL [OB (fst e); OZ (snd e)]) (asort (nonzero (t_refc t))))].

Inductive hop :=
| OSet (k v : bytes)
| ODelete (k : bytes)
| OGet (k : bytes)
| OExists (k : bytes)
| OBatch (ops : list hop) (abort_after : option nat)
| OState
| ODump
| ORegen
| OProof (k : bytes)
| OFromProof (root k : bytes) (proof : list item)
| OTraverse (ns : nibbles)
| OTraverseFrom (pre seg : nibbles)       (* traverse(pre) then traverse_from(that node, seg) *)
| OTraverseFromReads (pre seg : nibbles)  (* number of database reads made by that traverse_from *)
| ORootNode
| ODrop (h : bytes)                       (* the harness removes a database entry *)
| OPut (h body : bytes)                   (* the harness supplies a database entry (retry loops) *)
| OBudget (n : option nat)                (* the backing store fails its (n+1)-th write from now on *)
| OAtRoot (h : bytes) (ops : list hop).   (* with at_root(h) as snap: ops on snap *)

Definition K := keccak256.
Definition unit_obs (r : result unit) : obs := res_obs (fun _ => ONone) r.

Definition set_budget (t : trie) (n : option nat) : trie :=
  match t_db t with
  | DPlain s => with_db t (DPlain (mkStore (cells s) n))
  | DScratch sc => with_db t (DScratch (mkScratch (mkStore (cells (wrapped sc)) n) (cache sc)))
  end.

Definition drop_entry (t : trie) (h : bytes) : trie :=
  match t_db t with
  | DPlain s => with_db t (DPlain (mkStore (adel (cells s) h) (budget s)))
  | DScratch sc => with_db t (DScratch (mkScratch (mkStore (adel (cells (wrapped sc)) h) (budget (wrapped sc)))
                                                  (adel (cache sc) h)))
  end.

Definition put_entry (t : trie) (h body : bytes) : trie :=
  match t_db t with
  | DPlain s => with_db t (DPlain (mkStore (aset (cells s) h body) (budget s)))
  | DScratch sc => with_db t (DScratch (mkScratch (mkStore (aset (cells (wrapped sc)) h body) (budget (wrapped sc))) (cache sc)))
  end.

Definition regen_fuel : nat := 4000.

Fixpoint hstep (t : trie) (o : hop) {struct o} : trie * obs :=
  let run_list :=
    (fix run_list (t : trie) (ops : list hop) (n : option nat) {struct ops} : trie * list obs * bool :=
       (* returns final state, observations, and whether the abort point was reached *)
       match n with
       | Some O => (t, [], true)
       | _ =>
           match ops with
           | [] => (t, [], match n with Some _ => true | None => false end)
           | o :: ops' =>
               let '(t1, x) := hstep t o in
               let '(t2, xs, ab) := run_list t1 ops' (match n with Some (S k) => Some k | _ => None end) in
               (t2, x :: xs, ab)
           end
       end) in
  match o with
  | OSet k v => let '(r, t') := set K BLANK_NODE_HASH k v t in (t', unit_obs r)
  | ODelete k => let '(r, t') := delete K BLANK_NODE_HASH k t in (t', unit_obs r)
  | OGet k => let '(r, t') := get BLANK_NODE_HASH k t in (t', res_obs OB r)
  | OExists k => let '(r, t') := exists_ BLANK_NODE_HASH k t in (t', res_obs obool r)
  | OBatch ops ab =>
      let inner0 := batch_begin t in
      let '(inner, outs, aborted) := run_list inner0 ops ab in
      if aborted then (batch_abort t inner, OL [OL outs; exn_obs EAbort])
      else let '(r, t') := batch_commit K BLANK_NODE_HASH t inner in
           (t', OL [OL outs; unit_obs r])
  | OState => (t, state_obs t)
  | ODump => (t, dump_obs t)
  | ORegen =>
      let '(r, _) := regenerate_ref_count BLANK_NODE_HASH regen_fuel t in
      (t, res_obs (fun m => OL [oN (rc_digest m); onat (length m)]) r)
  | OProof k =>
      let '(r, _) := get_proof BLANK_NODE_HASH k t in
      (t, res_obs (fun l => OL (map item_obs l)) r)
  | OFromProof root k proof =>
      (t, res_obs OB (get_from_proof K BLANK_NODE_HASH root k proof))
  | OTraverse ns =>
      let '(r, _) := traverse BLANK_NODE_HASH ns t in (t, res_obs hnode_obs r)
  | OTraverseFrom pre seg =>
      let '(r, _) := traverse BLANK_NODE_HASH pre t in
      match r with
      | Ok parent =>
          let '(r2, _) := traverse_from BLANK_NODE_HASH (h_raw parent) seg t in
          (t, res_obs hnode_obs r2)
      | Err e => (t, OL [exn_obs e])
      end
  | OTraverseFromReads pre seg =>
      let '(r, _) := traverse BLANK_NODE_HASH pre t in
      match r with
      | Ok parent =>
          (t, onat (length (traverse_from_reads BLANK_NODE_HASH (traverse_fuel seg) (h_raw parent) seg t)))
      | Err e => (t, ONone)
      end
  | ORootNode => let '(r, _) := root_node BLANK_NODE_HASH t in (t, res_obs hnode_obs r)
  | ODrop h => (drop_entry t h, ONone)
  | OPut h body => (put_entry t h body, ONone)
  | OBudget n => (set_budget t n, ONone)
  | OAtRoot h ops =>
      match at_root t h with
      | Err e => (t, exn_obs e)
      | Ok snap =>
          let '(snap', outs, _) := run_list snap ops None in
          (* a snapshot shares the database object with the trie *)
          (with_db t (t_db snap'), OL outs)
      end
  end.

Fixpoint hrun (t : trie) (ops : list hop) : list obs :=
  match ops with
  | [] => []
  | o :: ops' => let '(t', x) := hstep t o in x :: hrun t' ops'
  end.

(* a history on a fresh trie over an empty dict *)
Definition hexary_run (c : bool * list hop) : obs :=
  let '(prune, ops) := c in
  OL (hrun (empty_trie BLANK_NODE_HASH prune) ops).

(* several non-pruning handles over one shared store (property C04) *)
Fixpoint multi_run (s : store) (roots : list bytes) (ops : list (nat * hop)) : list obs :=
  match ops with
  | [] => []
  | (i, o) :: ops' =>
      let t := mkTrie (DPlain s) (nth i roots BLANK_NODE_HASH) false [] None in
      let '(t', x) := hstep t o in
      x :: multi_run (outer_store t') (list_set roots i (t_root t')) ops'
  end.

Definition hexary_multi_run (c : nat * list (nat * hop)) : obs :=
  let '(nh, ops) := c in
  OL (multi_run (store_of []) (repeat BLANK_NODE_HASH nh) ops).
