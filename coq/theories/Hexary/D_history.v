(* Hexary/D_history.v — property C04 end to end: "every root the trie has ever had remains fully readable".
   D_safety gives the effect discipline (every call, whatever its outcome, keeps each old entry or replaces it
   by a body with the same hash); D_read gives read monotonicity in the store.  Put together, under the
   explicit finite no-collision premise over the bodies of the old and the new store:
     whatever could be read from ANY root before a history of API calls (set / delete / set-to-empty, each
     possibly aborted by a failing database write at any index) or a whole squash_changes block (incl. a
     commit that fails midway) reads identically afterwards — from a fresh trie or an at_root snapshot
     (both are [plain]), whether or not the snapshot was opened before the writes. *)
From Coq Require Import List NArith ZArith Bool Lia.
From Coq.Init Require Import Byte.
From PyTrie.Base Require Import Bytes Bytes_proofs Result AMap AMap_proofs Nibbles Rlp.
From PyTrie.Db Require Import ScratchDb.
From PyTrie.Hexary Require Import Raw D D_safety D_read.
Import ListNotations.
Open Scope N_scope.

Section History.
  Variable H : bytes -> bytes.
  Variable BNH : bytes.

  (* the effect discipline makes the old store a sub-store of the new one, collisions aside *)
  Lemma app_only_sub (m m' : amap bytes) :
    content_addressed H m -> cf H (bodies m ++ bodies m') ->
    (forall h b, aget m h = Some b ->
       aget m' h = Some b \/ (exists b', aget m' h = Some b' /\ h = H b')) ->
    sub_store m m'.
  Proof.
    intros Hca Hcf Hao h b Hg. destruct (Hao h b Hg) as [Hs | (b' & Hg' & Hh)]; [exact Hs|].
    assert (Hb : b = b').
    { apply Hcf.
      - apply in_or_app. left. exact (aget_In_bodies m h b Hg).
      - apply in_or_app. right. exact (aget_In_bodies m' h b' Hg').
      - rewrite <- (Hca h b Hg). exact Hh. }
    subst b'. exact Hg'.
  Qed.

  Theorem old_roots_after_history ops t s :
    t_prune t = false -> t_pending t = None -> t_db t = DPlain s ->
    content_addressed H (cells s) ->
    forall s', t_db (drun H BNH ops t) = DPlain s' ->
    cf H (bodies (cells s) ++ bodies (cells s')) ->
    forall r k v, fst (get BNH k (plain (cells s) r)) = Ok v -> fst (get BNH k (plain (cells s') r)) = Ok v.
  Proof.
    intros Hp Hpe Hd Hca s' Hd' Hcf r k v Hg.
    destruct (C04_append_only_run H BNH ops t s Hp Hpe Hd) as ((s1 & Hd1 & Hao & _) & _).
    rewrite Hd' in Hd1. injection Hd1 as <-.
    apply (read_mono_get BNH (cells s) (cells s') r k v); [|exact Hg].
    apply app_only_sub; assumption.
  Qed.

  Theorem old_roots_after_batch outer s ops res t' :
    t_prune outer = false -> t_pending outer = None -> t_db outer = DPlain s ->
    content_addressed H (cells s) ->
    batch_commit H BNH outer (drun H BNH ops (batch_begin outer)) = (res, t') ->
    forall s', t_db t' = DPlain s' ->
    cf H (bodies (cells s) ++ bodies (cells s')) ->
    forall r k v, fst (get BNH k (plain (cells s) r)) = Ok v -> fst (get BNH k (plain (cells s') r)) = Ok v.
  Proof.
    intros Hp Hpe Hd Hca E s' Hd' Hcf r k v Hg.
    destruct (C04_append_only_batch H BNH outer s ops res t' Hp Hpe Hd E) as ((s1 & Hd1 & Hao & _) & _).
    rewrite Hd' in Hd1. injection Hd1 as <-.
    apply (read_mono_get BNH (cells s) (cells s') r k v); [|exact Hg].
    apply app_only_sub; assumption.
  Qed.
End History.
